#!/usr/bin/python3
"""Annotate a seeded change that no check reports: tools/seednote.py <PID-n> "<reason>" (stored as meta.not_caught_reason)."""
import json, sys
d = f"/verif/seeded/{sys.argv[1]}/meta.json"
m = json.load(open(d))
m["not_caught_reason"] = sys.argv[2]
json.dump(m, open(d, "w"), indent=1)
print(sys.argv[1], "annotated")
