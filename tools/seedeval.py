#!/usr/bin/python3
"""Confirm an independently seeded change and run the checks against it.

usage: tools/seedeval.py <PID> <n> <srcdir> <demo_pkg_dir> <demo_run_regex> [check ids...]

 1. scratch worktree of /repo HEAD; `git apply <srcdir>/patch.diff`
 2. go build ./... ; go test ./... (existing suite, unedited) -> must pass (cmd/gmrtd-reader ignored)
 3. copy <srcdir>/*_test.go (and extra helper dirs given via SEED_EXTRA) into <demo_pkg_dir>; run the demonstration
    -> must FAIL with the change; revert the patch -> must PASS
 4. run `./verif check <id> quick` (a scratch copy of /verif against the patched worktree) for each id
 5. store everything under /verif/seeded/<PID>-<n>/ with meta.json
"""
import glob
import json
import os
import shutil
import subprocess
import sys
import time

ENV = dict(os.environ, GOFLAGS="-mod=mod", GOPROXY="off", GOSUMDB="off", GOTOOLCHAIN="local")
GO = "go1.26.8"


def sh(cmd, cwd, timeout=3600):
    p = subprocess.run(cmd, cwd=cwd, env=ENV, shell=isinstance(cmd, str), stdout=subprocess.PIPE, stderr=subprocess.STDOUT, text=True, errors="replace", timeout=timeout)
    return p.returncode, p.stdout


def main():
    pid, n, src, demo_dir, demo_run = sys.argv[1:6]
    checks = sys.argv[6:] or [pid]
    src = os.path.abspath(src)
    patch = os.path.join(src, "patch.diff")
    tag = f"se{os.getpid()}"
    w = f"/tmp/{tag}"
    meta = {"property": pid, "n": int(n), "source": src, "confirmed": {}, "checks": {}}
    subprocess.run(["git", "-C", "/repo", "worktree", "add", "--detach", "-q", w + "/repo", "HEAD"], check=True)
    try:
        repo = w + "/repo"
        rc, out = sh(["git", "apply", patch], repo)
        meta["confirmed"]["applies"] = rc == 0
        if rc != 0:
            print("PATCH DOES NOT APPLY", out[-500:])
            return finish(meta, src, None, pid, n)
        rc, out = sh(f"{GO} build ./... 2>&1 | grep -v 'pcsc\\|PKG_CONFIG\\|virtual:world\\|ebfe/scard' | head -5", repo)
        meta["confirmed"]["build_output"] = out.strip()
        rc, out = sh(f"{GO} test -vet=off -count=1 ./... 2>&1 | grep -E '^(FAIL|--- FAIL|panic)' | grep -v gmrtd-reader | head -5", repo)
        meta["confirmed"]["suite_failures"] = out.strip()
        meta["confirmed"]["suite_passes"] = out.strip() in ("", "FAIL")
        # demonstration
        demo_files = sorted(glob.glob(os.path.join(src, "*_test.go")))
        for extra in os.environ.get("SEED_EXTRA", "").split(":"):
            if extra:
                demo_files += sorted(glob.glob(os.path.join(extra, "*_test.go")))
        for f in demo_files:
            shutil.copy(f, os.path.join(repo, demo_dir))
        rc1, out1 = sh([GO, "test", "-vet=off", "-count=1", "-run", demo_run, "./" + demo_dir + "/"], repo)
        sh(["git", "apply", "-R", patch], repo)
        rc0, out0 = sh([GO, "test", "-vet=off", "-count=1", "-run", demo_run, "./" + demo_dir + "/"], repo)
        meta["confirmed"]["demo_fails_with_change"] = rc1 != 0
        meta["confirmed"]["demo_passes_without_change"] = rc0 == 0
        meta["confirmed"]["demo_with_change_tail"] = out1[-600:]
        meta["confirmed"]["demo_without_change_tail"] = out0[-200:]
        meta["confirmed"]["demo_cmd"] = f"copy {', '.join(os.path.basename(f) for f in demo_files)} into {demo_dir}/ ; {GO} test -vet=off -count=1 -run '{demo_run}' ./{demo_dir}/"
        for f in demo_files:
            os.remove(os.path.join(repo, demo_dir, os.path.basename(f)))
        # re-apply for the checks
        sh(["git", "checkout", "--", "."], repo)
        sh(["git", "apply", patch], repo)
        v = w + "/verif"
        subprocess.run(["rsync", "-a", "--exclude", ".git", "--exclude", ".work", "--exclude", "replays/*/found", "--exclude", "seeded", "/verif/", v + "/"], check=True)
        sh(["sed", "-i", f"s|=> /repo|=> {repo}|", v + "/harness/go.mod"], v)
        for cid in checks:
            t0 = time.time()
            rc, out = sh(["./verif", "check", cid, os.environ.get("TIER", "quick")], v, timeout=7200)
            lines = [l for l in out.splitlines() if l.startswith("VIOLATION") or l.startswith("   check=") or "INCONCLUSIVE" in l or "BUILD FAILED" in l]
            meta["checks"][cid] = {"tier": os.environ.get("TIER", "quick"), "exit": rc, "wall_s": round(time.time() - t0, 1), "lines": [l[:300] for l in lines[:6]]}
            print(f"CHECK {cid} exit={rc}", *lines[:4], sep="\n  ")
        return finish(meta, src, demo_files, pid, n)
    finally:
        subprocess.run(["git", "-C", "/repo", "worktree", "remove", "--force", w + "/repo"])
        shutil.rmtree(w, ignore_errors=True)
        subprocess.run(["git", "-C", "/repo", "worktree", "prune"])


def finish(meta, src, demo_files, pid, n):
    c = meta["confirmed"]
    ok = c.get("applies") and c.get("suite_passes") and c.get("demo_fails_with_change") and c.get("demo_passes_without_change")
    meta["kept"] = bool(ok)
    meta["caught"] = any(v["exit"] == 1 for v in meta["checks"].values())
    print("CONFIRMED" if ok else "NOT CONFIRMED", json.dumps({k: v for k, v in c.items() if not k.endswith("tail")})[:600])
    if ok:
        d = f"/verif/seeded/{pid}-{n}"
        os.makedirs(d, exist_ok=True)
        shutil.copy(os.path.join(src, "patch.diff"), d)
        for f in demo_files or []:
            shutil.copy(f, d)
        if os.path.exists(os.path.join(src, "notes.md")):
            shutil.copy(os.path.join(src, "notes.md"), d)
        json.dump(meta, open(os.path.join(d, "meta.json"), "w"), indent=1)
    return 0 if ok else 1


if __name__ == "__main__":
    sys.exit(main())
