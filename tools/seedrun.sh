#!/bin/bash
# usage: tools/seedrun.sh <PID> [extra_check_ids,comma]  — evaluates /tmp/seed-<PID>-out/{1,2,3} (demo_dir from notes.md line 1)
P=$1; X=${2:-}
items=()
for n in ${SEED_NS:-1 2 3 4 5 6 7 8 9}; do
  d=/tmp/seed-$P-out/$n
  [ -f $d/patch.diff ] || continue
  dd=$(head -1 $d/notes.md | sed -n 's/^demo_dir:[ ]*//p' | tr -d '` ' | sed 's|^\./||; s|/$||')
  items+=("$P:$n:$dd:$X")
done
mkdir -p /tmp/seedlogs
exec python3 /verif/tools/seedbatch.py "${items[@]}"
