#!/usr/bin/python3
"""Run tools/seedeval.py for a list of seeds: args are items PID:n:demo_dir[:extra_checks,comma]"""
import glob, os, re, subprocess, sys
for item in sys.argv[1:]:
    parts = item.split(":")
    pid, n, ddir = parts[0], parts[1], parts[2]
    checks = [pid] + (parts[3].split(",") if len(parts) > 3 and parts[3] else [])
    src = f"/tmp/seed-{pid}-out/{n}"
    names = []
    for f in glob.glob(src + "/*_test.go"):
        names += re.findall(r"^func (Test\w+)\(", open(f).read(), re.M)
    env = dict(os.environ)
    kit = f"/tmp/seed-{pid}-out/kit"
    if os.path.isdir(kit):
        env["SEED_EXTRA"] = kit
        for f in glob.glob(kit + "/*_test.go"):
            pass
    rx = "^(" + "|".join(sorted(set(names))) + ")$"
    log = f"/tmp/seedlogs/{pid}-{n}.log"
    with open(log, "w") as lf:
        subprocess.run(["/verif/tools/seedeval.py", pid, n, src, ddir, rx] + checks, stdout=lf, stderr=subprocess.STDOUT, env=env)
    print(item, "->", open(log).read()[-600:].replace("\n", " | ")[:600], flush=True)
