#!/usr/bin/python3
"""Re-run checks against an already confirmed seeded change after the machinery was strengthened.

usage: tools/seedrecheck.py <PID-n> "<what was strengthened>" [check ids...]   (env TIER=quick|thorough)
Updates /verif/seeded/<PID-n>/meta.json: adds/overwrites "recheck" {what, checks{id:{tier,exit,lines}}} and "caught".
"""
import json, os, re, subprocess, sys, time
sid, what = sys.argv[1], sys.argv[2]
checks = sys.argv[3:] or [sid.split("-")[0]]
d = f"/verif/seeded/{sid}"
meta = json.load(open(d + "/meta.json"))
env = dict(os.environ, LINES_MAX="8")
t0 = time.time()
p = subprocess.run(["/verif/tools/mutant.sh", d + "/patch.diff"] + checks, env=env, stdout=subprocess.PIPE, stderr=subprocess.STDOUT, text=True, errors="replace")
res, cur = {}, None
for ln in p.stdout.splitlines():
    m = re.match(r"MUTANT-RESULT (\S+) exit=(\d+)", ln)
    if m:
        cur = m.group(1)
        res[cur] = {"tier": os.environ.get("TIER", "quick"), "exit": int(m.group(2)), "lines": []}
    elif cur and (ln.startswith("VIOLATION") or ln.startswith("   check=") or "INCONCLUSIVE" in ln):
        res[cur]["lines"].append(re.sub(r"/tmp/mut\d+", "", ln)[:300])
meta["recheck"] = {"what": what, "checks": res, "wall_s": round(time.time() - t0, 1)}
meta["caught"] = meta.get("caught") or any(v["exit"] == 1 for v in res.values())
meta["caught_after_strengthening"] = any(v["exit"] == 1 for v in res.values()) and not any(v["exit"] == 1 for v in meta["checks"].values())
json.dump(meta, open(d + "/meta.json", "w"), indent=1)
print(sid, {k: v["exit"] for k, v in res.items()}, "caught" if meta["caught"] else "MISSED")
for v in res.values():
    for l in v["lines"][:4]:
        print("   ", l)
