#!/bin/bash
# usage: tools/seedcheck.sh <patch.diff>
# Confirms in a scratch worktree that a seeded change applies, builds and passes the existing suite.
set -u
P=$(readlink -f "$1")
W=/tmp/sc$$
git -C /repo worktree add --detach -q $W HEAD || exit 2
export GOFLAGS=-mod=mod GOPROXY=off GOSUMDB=off GOTOOLCHAIN=local
cd $W
if ! git apply "$P"; then echo "SEEDCHECK apply=FAIL"; cd /; git -C /repo worktree remove --force $W; exit 1; fi
B=$(go1.26.8 build ./... 2>&1 | grep -v "pcsc\|PKG_CONFIG\|virtual:world\|ebfe/scard\|^$" | head -5)
T=$(go1.26.8 test -vet=off -count=1 ./... 2>&1 | grep -E "^(FAIL|---|panic)" | grep -v "gmrtd-reader" | head -5)
echo "SEEDCHECK apply=ok build=[${B}] suite=[${T}]"
if [ -n "${DEMO_FILE:-}" ]; then
  # DEMO_FILE: test file to copy to DEMO_DIR (relative to repo root); DEMO_RUN: go test -run pattern
  cp "$DEMO_FILE" "$W/$DEMO_DIR/" && R1=$(go1.26.8 test -vet=off -count=1 -run "${DEMO_RUN:-.}" ./$DEMO_DIR/ 2>&1 | tail -3 | tr '\n' ' ')
  git apply -R "$P" && R0=$(go1.26.8 test -vet=off -count=1 -run "${DEMO_RUN:-.}" ./$DEMO_DIR/ 2>&1 | tail -3 | tr '\n' ' ')
  echo "SEEDCHECK demo-with-change=[${R1}]"
  echo "SEEDCHECK demo-without-change=[${R0}]"
fi
cd /; git -C /repo worktree remove --force $W; git -C /repo worktree prune
