#!/usr/bin/python3
"""Generate /verif/MANIFEST.json from checks.json (+ not_applicable.json)."""
import json, os
V = os.path.dirname(os.path.dirname(os.path.abspath(__file__)))
import glob
checks = {os.path.basename(f)[:-5]: json.load(open(f)) for f in sorted(glob.glob(os.path.join(V, "checks.d", "*.json")))}
need = ("pkg", "level_text", "level_note", "technique")
for k, v in sorted(checks.items()):
    miss = [f for f in need if f not in v]
    if miss:
        print("skipping", k, "- fragment incomplete:", miss)
checks = {k: v for k, v in checks.items() if v.get("claimed", True) and all(f in v for f in need)}
na = [e for e in json.load(open(os.path.join(V, "not_applicable.json"))) if e["property_id"] not in checks]
m = {
 "version": 1,
 "setup_cmd": "./verif setup",
 "hooks": {
  "guard": "verif",
  "enable": "no source hooks are needed: checks build /repo unmodified through the harness module's replace directive (go1.26.8 test, GOFLAGS=-mod=mod); randomness is steered by replacing crypto/rand.Reader and I/O through the exported iso7816.Transceiver interface",
  "baseline_off_cmd": "cd /repo && GOFLAGS=-mod=mod GOPROXY=off GOSUMDB=off GOTOOLCHAIN=local go1.26.8 test -json -vet=off -count=1 -timeout 25m ./...",
  "source_commits": [],
  "add_only": True
 },
 "engines": [
  {"name": "verifharness", "path": "/verif/harness", "serves_properties": sorted(checks),
   "kind_free_text": "Go test module (pgregory.net/rapid v1.3.0 properties, exhaustive enumerations, native go test -fuzz targets) with independent reference implementations (ref/*, chipsim, issuer); driven by /verif/verif"}
 ],
 "checks": [],
 "notes": "Driver: ./verif check <ID> <tier>. Exit 0 held / 1 violation (VIOLATION line) / 2 inconclusive (infrastructure). VERIF_SEED selects the rapid seeds; native fuzzing (thorough only) cannot be seeded. Known findings: known_findings.json.",
 "not_applicable": na,
}
for pid in sorted(checks):
    c = checks[pid]
    m["checks"].append({
     "property_id": pid,
     "quick_cmd": f"./verif check {pid} quick",
     "thorough_cmd": f"./verif check {pid} thorough",
     "evidence_file": f"/verif/evidence/{pid}.json",
     "replay_cmd_template": f"./verif replay {pid} {{path}}",
     "engine": "verifharness",
     "level_claimed": {"category": c.get("level", "exploration"), "text": c["level_text"], "design_ref": c.get("design_ref", "")},
     "level_note": c["level_note"],
     "technique": c["technique"],
    })
json.dump(m, open(os.path.join(V, "MANIFEST.json"), "w"), indent=1)
print("MANIFEST.json written:", len(m["checks"]), "checks,", len(na), "not applicable")
