#!/usr/bin/python3
"""Re-run, against the machinery as it stands, every kept seeded change: tools/mutant.sh <patch> <checks>.
usage: tools/seedfinal.py [-j N] [PID-n ...]   (default: all of /verif/seeded)
Records meta.json["final"] = {"date":…, "results": {check: exit}, "caught": bool} (caught = some check exits 1)."""
import concurrent.futures as cf, glob, json, os, re, subprocess, sys, time
args = sys.argv[1:]
J = 4
if args[:1] == ["-j"]:
    J = int(args[1]); args = args[2:]
dirs = [f"/verif/seeded/{a}" for a in args] or sorted(glob.glob("/verif/seeded/C??-*"))
def one(d):
    m = json.load(open(d + "/meta.json"))
    if not m.get("kept"):
        return d, None
    pid = m["property"]
    checks = [pid] + [c for c, v in m.get("checks", {}).items() if c != pid and v.get("exit") == 1]
    env = dict(os.environ, LINES_MAX="3")
    p = subprocess.run(["/verif/tools/mutant.sh", d + "/patch.diff"] + checks, env=env, stdout=subprocess.PIPE, stderr=subprocess.STDOUT, text=True, errors="replace")
    res = {c: int(e) for c, e in re.findall(r"MUTANT-RESULT (\S+) exit=(\d+)", p.stdout)}
    m = json.load(open(d + "/meta.json"))
    m["final"] = {"date": time.strftime("%Y-%m-%d %H:%M"), "results": res, "caught": any(v == 1 for v in res.values()),
                  "lines": [l for l in p.stdout.splitlines() if l.startswith(("VIOLATION", "   check="))][:4]}
    json.dump(m, open(d + "/meta.json", "w"), indent=1)
    return d, res
with cf.ThreadPoolExecutor(J) as ex:
    for d, res in ex.map(one, dirs):
        print(os.path.basename(d), res, flush=True)
