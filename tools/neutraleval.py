#!/usr/bin/python3
"""False-alarm probe: run checks against an independently written PROPERTY-PRESERVING change.

usage: tools/neutraleval.py <area> <n> <srcdir> <check ids...>
 1. scratch worktree of /repo HEAD; git apply <srcdir>/patch.diff; build; existing suite must pass
 2. run `./verif check <id> quick` (scratch copy of /verif against the patched worktree) for each id
 3. store under /verif/neutral/<area>-<n>/ with meta.json; every check is expected to exit 0
"""
import json, os, shutil, subprocess, sys, time
ENV = dict(os.environ, GOFLAGS="-mod=mod", GOPROXY="off", GOSUMDB="off", GOTOOLCHAIN="local")
GO = "go1.26.8"
def sh(cmd, cwd, timeout=7200):
    p = subprocess.run(cmd, cwd=cwd, env=ENV, shell=isinstance(cmd, str), stdout=subprocess.PIPE, stderr=subprocess.STDOUT, text=True, timeout=timeout)
    return p.returncode, p.stdout
area, n, src = sys.argv[1:4]
checks = sys.argv[4:]
patch = os.path.join(src, "patch.diff")
w = f"/tmp/ne{os.getpid()}"
meta = {"area": area, "n": int(n), "confirmed": {}, "checks": {}}
subprocess.run(["git", "-C", "/repo", "worktree", "add", "--detach", "-q", w + "/repo", "HEAD"], check=True)
try:
    repo = w + "/repo"
    rc, out = sh(["git", "apply", patch], repo)
    meta["confirmed"]["applies"] = rc == 0
    if rc == 0:
        rc, out = sh(f"{GO} build ./... 2>&1 | grep -v 'pcsc\\|PKG_CONFIG\\|virtual:world\\|ebfe/scard' | head -5", repo)
        meta["confirmed"]["build_output"] = out.strip()
        rc, out = sh(f"{GO} test -vet=off -count=1 ./... 2>&1 | grep -E '^(FAIL|--- FAIL|panic)' | grep -v gmrtd-reader | head -5", repo)
        meta["confirmed"]["suite_passes"] = out.strip() in ("", "FAIL")
        v = w + "/verif"
        subprocess.run(["rsync", "-a", "--exclude", ".git", "--exclude", ".work", "--exclude", "replays/*/found", "--exclude", "seeded", "--exclude", "neutral", "/verif/", v + "/"], check=True)
        sh(["sed", "-i", f"s|=> /repo|=> {repo}|", v + "/harness/go.mod"], v)
        for cid in checks:
            t0 = time.time()
            rc, out = sh(["./verif", "check", cid, "quick"], v)
            lines = [l for l in out.splitlines() if l.startswith("VIOLATION") or l.startswith("   check=") or "INCONCLUSIVE" in l or "BUILD FAILED" in l]
            meta["checks"][cid] = {"exit": rc, "wall_s": round(time.time() - t0, 1), "lines": [l.replace(w, "")[:400] for l in lines[:6]]}
            print(f"NEUTRAL {area}-{n} {cid} exit={rc}", *lines[:3], sep="\n  ", flush=True)
finally:
    subprocess.run(["git", "-C", "/repo", "worktree", "remove", "--force", w + "/repo"])
    shutil.rmtree(w, ignore_errors=True)
    subprocess.run(["git", "-C", "/repo", "worktree", "prune"])
ok = meta["confirmed"].get("applies") and meta["confirmed"].get("suite_passes")
meta["kept"] = bool(ok)
meta["alarms"] = [k for k, v in meta["checks"].items() if v["exit"] == 1]
meta["inconclusive"] = [k for k, v in meta["checks"].items() if v["exit"] == 2]
if ok:
    d = f"/verif/neutral/{area}-{n}"
    os.makedirs(d, exist_ok=True)
    shutil.copy(patch, d)
    if os.path.exists(os.path.join(src, "notes.md")):
        shutil.copy(os.path.join(src, "notes.md"), d)
    json.dump(meta, open(os.path.join(d, "meta.json"), "w"), indent=1)
print("RESULT", area, n, "kept" if ok else "NOT-KEPT", "alarms:", meta["alarms"], "inconclusive:", meta["inconclusive"])
