#!/bin/bash
# usage: tools/mutant.sh <patch-file|-> <ID> [<ID>...]   (env TIER=quick|thorough)
# Applies a patch to a scratch worktree of /repo, runs the named checks of a scratch
# copy of /verif against it, prints the exit codes, removes everything.
set -u
PATCH=$1; shift
N=mut$$
W=/tmp/$N
git -C /repo worktree add --detach -q $W/repo HEAD || exit 2
if [ "$PATCH" != "-" ]; then
  if ! git -C $W/repo apply "$PATCH"; then echo "PATCH DOES NOT APPLY"; git -C /repo worktree remove --force $W/repo; rm -rf $W; exit 2; fi
fi
mkdir -p $W/verif
rsync -a --exclude .git --exclude .work --exclude 'replays/*/found' /verif/ $W/verif/
sed -i "s|=> /repo|=> $W/repo|" $W/verif/harness/go.mod
export GOFLAGS=-mod=mod GOPROXY=off GOSUMDB=off GOTOOLCHAIN=local
if [ -n "${BUILDCHECK:-}" ]; then (cd $W/repo && go1.26.8 build ./... 2>&1 | grep -v pcsc | head -5); fi
for id in "$@"; do
  (cd $W/verif && ./verif check $id ${TIER:-quick} > $W/$id.log 2>&1; echo "MUTANT-RESULT $id exit=$?"; grep -E "^VIOLATION|^   check=|INCONCLUSIVE|BUILD FAILED" $W/$id.log | head -${LINES_MAX:-6})
done
git -C /repo worktree remove --force $W/repo
rm -rf $W
git -C /repo worktree prune
