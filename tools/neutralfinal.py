#!/usr/bin/python3
"""Re-run the false-alarm probe against the machinery as it stands: every neutral change x the checks recorded for it.
usage: tools/neutralfinal.py [-j N] [area-n ...]; records meta.json["final"] = {date, results{check: exit}, quiet: bool}"""
import concurrent.futures as cf, glob, json, os, re, subprocess, sys, time
args = sys.argv[1:]
J = 3
if args[:1] == ["-j"]:
    J = int(args[1]); args = args[2:]
dirs = [f"/verif/neutral/{a}" for a in args] or sorted(glob.glob("/verif/neutral/*-*"))
def one(d):
    m = json.load(open(d + "/meta.json"))
    checks = list(m.get("checks", {}).keys())
    only = os.environ.get("ONLY_CHECKS")
    if only:
        checks = [c for c in checks if c in only.split(",")]
        if not checks:
            return d, None
    p = subprocess.run(["/verif/tools/mutant.sh", d + "/patch.diff"] + checks, env=dict(os.environ, LINES_MAX="3"),
                       stdout=subprocess.PIPE, stderr=subprocess.STDOUT, text=True, errors="replace")
    res = {c: int(e) for c, e in re.findall(r"MUTANT-RESULT (\S+) exit=(\d+)", p.stdout)}
    m = json.load(open(d + "/meta.json"))
    if m.get("final") and os.environ.get("ONLY_CHECKS"):
        res = dict(m["final"].get("results", {}), **res)
    m["final"] = {"date": time.strftime("%Y-%m-%d %H:%M"), "results": res, "quiet": bool(res) and all(v == 0 for v in res.values()),
                  "lines": [l for l in p.stdout.splitlines() if l.startswith(("VIOLATION", "   check=")) or "INCONCLUSIVE" in l][:6]}
    json.dump(m, open(d + "/meta.json", "w"), indent=1)
    return d, res
with cf.ThreadPoolExecutor(J) as ex:
    for d, res in ex.map(one, dirs):
        print(os.path.basename(d), res, flush=True)
