// Package ldsref is an independent decoder of ICAO 9303-10 LDS files: it
// recomputes the view (verifharness/ldsgen/ldsview) of a file from its raw
// bytes with the BER reader verifharness/ref/ber and the MRZ model
// verifharness/ref/mrz.  No gmrtd import.
//
// The decoders are strict about structure (they are fed well-formed files):
// wrong outer tag, missing mandatory element, a count that disagrees with the
// number of repeated elements, trailing octets => error.
package ldsref

import (
	"encoding/binary"
	"errors"
	"fmt"
	"math/big"
	"strings"

	"verifharness/ldsgen/ldsview"
	"verifharness/ref/ber"
	"verifharness/ref/mrz"
)

// Decode dispatches on the file kind used by ldsgen ("COM", "DG1", ...).
func Decode(kind string, b []byte) (any, error) {
	switch kind {
	case "COM":
		return COM(b)
	case "DG1":
		return DG1(b)
	case "DG2":
		return DG2(b)
	case "DG7":
		return DG7(b)
	case "DG11":
		return DG11(b)
	case "DG12":
		return DG12(b)
	case "DG13":
		return DG13(b)
	case "DG14":
		return DG14(b)
	case "DG15":
		return DG15(b)
	case "DG16":
		return DG16(b)
	case "CardAccess":
		return SecurityInfos(b)
	case "SOD":
		return SOD(b)
	case "CardSecurity":
		return CardSecurity(b)
	}
	return nil, fmt.Errorf("ldsref: unknown kind %q", kind)
}

// OuterTag returns the packed identifier octets at the start of the file.
func OuterTag(b []byte) (uint32, error) {
	t, _, err := ber.ParseIdentifier(b, false)
	return t, err
}

// root parses the file as exactly one TLV with the given tag, strict X.690.
func root(b []byte, tag uint32) (*ber.Node, error) { return rootOpt(b, tag, ber.Options{}) }

// rootLDS is root for the ISO/IEC 7816 BER-TLV layer of the LDS, whose
// interindustry tags 5F01..5F1E use the two-octet form for tag numbers below
// 31 (not the shortest form of X.690 8.1.2.2): identifier octets are taken as
// they stand.
func rootLDS(b []byte, tag uint32) (*ber.Node, error) {
	return rootOpt(b, tag, ber.Options{Lenient: true})
}

func rootOpt(b []byte, tag uint32, o ber.Options) (*ber.Node, error) {
	nodes, err := ber.Parse(b, o)
	if err != nil {
		return nil, err
	}
	if len(nodes) != 1 {
		return nil, fmt.Errorf("ldsref: %d top-level elements", len(nodes))
	}
	if nodes[0].Tag != tag {
		return nil, fmt.Errorf("ldsref: outer tag %X, want %X", nodes[0].Tag, tag)
	}
	return nodes[0], nil
}

func need(n *ber.Node, tag uint32) (*ber.Node, error) {
	c := n.Find(tag, 1)
	if c == nil {
		return nil, fmt.Errorf("ldsref: element %X missing in %X", tag, n.Tag)
	}
	return c, nil
}

func count(n *ber.Node, tag uint32) int {
	c := 0
	for _, k := range n.Children {
		if k.Tag == tag {
			c++
		}
	}
	return c
}

func tagList(b []byte) ([]uint32, error) {
	var out []uint32
	for len(b) > 0 {
		t, n, err := ber.ParseIdentifier(b, true)
		if err != nil {
			return nil, err
		}
		out = append(out, t)
		b = b[n:]
	}
	return out, nil
}

func hasTag(list []uint32, t uint32) bool {
	for _, x := range list {
		if x == t {
			return true
		}
	}
	return false
}

// ---------------------------------------------------------------- text conventions

func fillerToSpace(s string) string { return strings.ReplaceAll(strings.TrimRight(s, "<"), "<", " ") }

// Name splits PRIMARY<<SECONDARY (trailing fillers dropped first).
func Name(raw string) ldsview.Name {
	t := strings.TrimRight(raw, "<")
	prim, sec := t, ""
	if i := strings.Index(t, "<<"); i >= 0 {
		prim, sec = t[:i], t[i+2:]
	}
	return ldsview.Name{Primary: strings.ReplaceAll(prim, "<", " "), Secondary: strings.ReplaceAll(sec, "<", " ")}
}

// Components splits at fillers and drops empty components.
func Components(raw string) []string {
	var out []string
	for _, c := range strings.Split(raw, "<") {
		if c != "" {
			out = append(out, c)
		}
	}
	return out
}

// Date shows an n-octet packed BCD date as 2n digits, anything else as text.
func Date(v []byte, bcdLen int) string {
	if len(v) == bcdLen {
		return fmt.Sprintf("%x", v)
	}
	return string(v)
}

// ---------------------------------------------------------------- COM, DG1, DG7, DG13

func COM(b []byte) (*ldsview.COM, error) {
	r, err := rootLDS(b, 0x60)
	if err != nil {
		return nil, err
	}
	lv, err := need(r, 0x5F01)
	if err != nil {
		return nil, err
	}
	uv, err := need(r, 0x5F36)
	if err != nil {
		return nil, err
	}
	tl, err := need(r, 0x5C)
	if err != nil {
		return nil, err
	}
	if len(lv.Value) != 4 || len(uv.Value) != 6 {
		return nil, errors.New("ldsref: COM version lengths")
	}
	tags, err := tagList(tl.Value)
	if err != nil {
		return nil, err
	}
	return &ldsview.COM{LDSVersion: string(lv.Value), UnicodeVersion: string(uv.Value), TagList: tags}, nil
}

func DG1(b []byte) (*ldsview.DG1, error) {
	r, err := rootLDS(b, 0x61)
	if err != nil {
		return nil, err
	}
	m, err := need(r, 0x5F1F)
	if err != nil {
		return nil, err
	}
	raw := string(m.Value)
	p, violations := mrz.Validate(raw)
	if len(violations) > 0 || p == nil {
		return nil, fmt.Errorf("ldsref: MRZ not valid: %v", violations)
	}
	return &ldsview.DG1{MRZ: raw, Layout: p.Layout, DocumentCode: mrz.Clean(p.DocCode), IssuingState: mrz.Clean(p.Issuer),
		Name: ldsview.Name{Primary: p.Primary, Secondary: p.Secondary}, DocumentNumber: mrz.Clean(p.DocNo),
		Nationality: mrz.Clean(p.Nationality), DateOfBirth: mrz.Clean(p.DOB), Sex: mrz.Clean(p.Sex),
		DateOfExpiry: mrz.Clean(p.Expiry), OptionalData: mrz.Clean(p.Opt1), OptionalData2: mrz.Clean(p.Opt2)}, nil
}

func DG7(b []byte) (*ldsview.DG7, error) {
	r, err := rootLDS(b, 0x67)
	if err != nil {
		return nil, err
	}
	c, err := need(r, 0x02)
	if err != nil {
		return nil, err
	}
	if len(c.Value) != 1 || int(c.Value[0]) != count(r, 0x5F43) || c.Value[0] < 1 {
		return nil, fmt.Errorf("ldsref: DG7 count %x vs %d images", c.Value, count(r, 0x5F43))
	}
	v := &ldsview.DG7{}
	for _, k := range r.Children {
		if k.Tag == 0x5F43 {
			v.Images = append(v.Images, k.Value)
		}
	}
	return v, nil
}

func DG13(b []byte) (*ldsview.DG13, error) {
	h, err := ber.ParseHeader(b, false)
	if err != nil {
		return nil, err
	}
	if h.Tag != 0x6D || h.Indefinite || int(h.Length) != len(b)-h.HdrLen {
		return nil, fmt.Errorf("ldsref: DG13 header %X len %d of %d", h.Tag, h.Length, len(b)-h.HdrLen)
	}
	return &ldsview.DG13{Content: b[h.HdrLen:]}, nil
}

// ---------------------------------------------------------------- DG11, DG12, DG16

func names(parent *ber.Node, tag uint32) ([]ldsview.Name, error) {
	a0 := parent.Find(0xA0, 1)
	var out []ldsview.Name
	if a0 != nil {
		c, err := need(a0, 0x02)
		if err != nil {
			return nil, err
		}
		if len(c.Value) != 1 || int(c.Value[0]) != count(a0, tag) {
			return nil, fmt.Errorf("ldsref: A0 count %x vs %d names", c.Value, count(a0, tag))
		}
		for _, k := range a0.Children {
			if k.Tag == tag {
				out = append(out, Name(string(k.Value)))
			}
		}
		return out, nil
	}
	for _, k := range parent.Children {
		if k.Tag == tag {
			out = append(out, Name(string(k.Value)))
		}
	}
	return out, nil
}

func DG11(b []byte) (*ldsview.DG11, error) {
	r, err := rootLDS(b, 0x6B)
	if err != nil {
		return nil, err
	}
	tl, err := need(r, 0x5C)
	if err != nil {
		return nil, err
	}
	v := &ldsview.DG11{}
	if v.TagList, err = tagList(tl.Value); err != nil {
		return nil, err
	}
	// every element announced must be there, every element there must be announced
	for _, k := range r.Children {
		t := k.Tag
		if t == 0x5C {
			continue
		}
		if t == 0xA0 && (hasTag(v.TagList, 0xA0) || hasTag(v.TagList, 0x5F0F)) {
			continue
		}
		if !hasTag(v.TagList, t) {
			return nil, fmt.Errorf("ldsref: DG11 element %X not in the tag list", t)
		}
	}
	str := func(tag uint32) (string, bool) {
		if !hasTag(v.TagList, tag) {
			return "", false
		}
		n := r.Find(tag, 1)
		if n == nil {
			err = fmt.Errorf("ldsref: DG11 element %X announced but missing", tag)
			return "", false
		}
		return string(n.Value), true
	}
	if s, ok := str(0x5F0E); ok {
		n := Name(s)
		v.NameOfHolder = &n
	}
	if hasTag(v.TagList, 0x5F0F) || hasTag(v.TagList, 0xA0) {
		if v.OtherNames, err = names(r, 0x5F0F); err != nil {
			return nil, err
		}
	}
	v.PersonalNumber, _ = str(0x5F10)
	if hasTag(v.TagList, 0x5F2B) {
		if n := r.Find(0x5F2B, 1); n != nil {
			v.FullDateOfBirth = Date(n.Value, 4)
		}
	}
	if s, ok := str(0x5F11); ok {
		v.PlaceOfBirth = Components(s)
	}
	if s, ok := str(0x5F42); ok {
		v.Address = Components(s)
	}
	v.Telephone, _ = str(0x5F12)
	if s, ok := str(0x5F13); ok {
		v.Profession = fillerToSpace(s)
	}
	if s, ok := str(0x5F14); ok {
		v.Title = fillerToSpace(s)
	}
	if s, ok := str(0x5F15); ok {
		v.PersonalSummary = fillerToSpace(s)
	}
	if s, ok := str(0x5F16); ok {
		v.ProofOfCitizenship = []byte(s)
	}
	if s, ok := str(0x5F17); ok {
		v.OtherTravelDocuments = Components(s)
	}
	if s, ok := str(0x5F18); ok {
		v.CustodyInformation = fillerToSpace(s)
	}
	return v, err
}

func DG12(b []byte) (*ldsview.DG12, error) {
	r, err := rootLDS(b, 0x6C)
	if err != nil {
		return nil, err
	}
	tl, err := need(r, 0x5C)
	if err != nil {
		return nil, err
	}
	v := &ldsview.DG12{}
	if v.TagList, err = tagList(tl.Value); err != nil {
		return nil, err
	}
	val := func(tag uint32) []byte {
		if !hasTag(v.TagList, tag) {
			return nil
		}
		n := r.Find(tag, 1)
		if n == nil {
			err = fmt.Errorf("ldsref: DG12 element %X announced but missing", tag)
			return nil
		}
		return n.Value
	}
	v.IssuingAuthority = string(val(0x5F19))
	if d := val(0x5F26); d != nil {
		v.DateOfIssue = Date(d, 4)
	}
	if hasTag(v.TagList, 0x5F1A) {
		if r.Find(0xA0, 1) == nil {
			return nil, errors.New("ldsref: DG12 other persons announced but A0 missing")
		}
		var e error
		if v.OtherPersons, e = names(r, 0x5F1A); e != nil {
			return nil, e
		}
	}
	v.Endorsements = string(val(0x5F1B))
	v.TaxExit = string(val(0x5F1C))
	v.ImageFront = val(0x5F1D)
	v.ImageRear = val(0x5F1E)
	if d := val(0x5F55); d != nil {
		v.PersoDateTime = Date(d, 7)
	}
	v.PersoSerial = string(val(0x5F56))
	return v, err
}

func DG16(b []byte) (*ldsview.DG16, error) {
	r, err := rootLDS(b, 0x70)
	if err != nil {
		return nil, err
	}
	c, err := need(r, 0x02)
	if err != nil {
		return nil, err
	}
	if len(c.Value) != 1 || int(c.Value[0]) != len(r.Children)-1 {
		return nil, fmt.Errorf("ldsref: DG16 count %x vs %d templates", c.Value, len(r.Children)-1)
	}
	v := &ldsview.DG16{}
	for i := 1; i <= int(c.Value[0]); i++ {
		t, err := need(r, uint32(0xA0+i))
		if err != nil {
			return nil, err
		}
		var p ldsview.Person
		for _, f := range []uint32{0x5F50, 0x5F51, 0x5F52, 0x5F53} {
			n, err := need(t, f)
			if err != nil {
				return nil, err
			}
			switch f {
			case 0x5F50:
				p.DateRecorded = Date(n.Value, 4)
			case 0x5F51:
				p.Name = Name(string(n.Value))
			case 0x5F52:
				p.Telephone = string(n.Value)
			case 0x5F53:
				p.Address = strings.Split(string(n.Value), "<")
			}
		}
		v.Persons = append(v.Persons, p)
	}
	return v, nil
}

// ---------------------------------------------------------------- DG2

func DG2(b []byte) (*ldsview.DG2, error) {
	r, err := rootLDS(b, 0x75)
	if err != nil {
		return nil, err
	}
	g, err := need(r, 0x7F61)
	if err != nil {
		return nil, err
	}
	c, err := need(g, 0x02)
	if err != nil {
		return nil, err
	}
	n := 0
	for _, x := range c.Value {
		n = n<<8 | int(x)
	}
	if n < 1 || n != count(g, 0x7F60) {
		return nil, fmt.Errorf("ldsref: DG2 count %d vs %d templates", n, count(g, 0x7F60))
	}
	v := &ldsview.DG2{}
	for _, t := range g.Children {
		if t.Tag != 0x7F60 {
			continue
		}
		bit, err := template(b, t)
		if err != nil {
			return nil, err
		}
		v.Templates = append(v.Templates, *bit)
	}
	return v, nil
}

func template(file []byte, t *ber.Node) (*ldsview.BIT, error) {
	h, err := need(t, 0xA1)
	if err != nil {
		return nil, err
	}
	bit := &ldsview.BIT{}
	for _, k := range h.Children {
		switch k.Tag {
		case 0x80:
			bit.HeaderVersion = k.Value
		case 0x81:
			bit.BiometricType = k.Value
		case 0x82:
			bit.BiometricSubType = k.Value
		case 0x83:
			bit.CreationDateTime = k.Value
		case 0x85:
			bit.ValidityPeriod = k.Value
		case 0x86:
			bit.Creator = k.Value
		case 0x87:
			bit.FormatOwner = k.Value
		case 0x88:
			bit.FormatType = k.Value
		}
	}
	if d := t.Find(0x5F2E, 1); d != nil {
		bit.BDBTag = 0x5F2E
		if bit.ISO19794, err = Rec19794(d.Value); err != nil {
			return nil, err
		}
		return bit, nil
	}
	if d := t.Find(0x7F2E, 1); d != nil {
		bit.BDBTag = 0x7F2E
		if bit.ISO39794, err = rec39794(file, d); err != nil {
			return nil, err
		}
		return bit, nil
	}
	return nil, errors.New("ldsref: template without 5F2E / 7F2E")
}

// Rec19794 decodes an ISO/IEC 19794-5:2005 facial record: general header
// (14 octets: "FAC\0", version, record length, number of faces), then per face
// the facial information block (20: block length, number of feature points,
// gender, eye colour, hair colour, feature mask(3), expression(2), pose(3),
// pose uncertainty(3)), the feature points (8 each: type, code, X, Y,
// reserved(2)), the image information block (12) and the image data.
func Rec19794(d []byte) (*ldsview.Rec19794, error) {
	if len(d) < 14 || string(d[:4]) != "FAC\x00" {
		return nil, errors.New("ldsref: not a facial record")
	}
	r := &ldsview.Rec19794{FormatID: d[:4], VersionID: d[4:8], RecordLength: binary.BigEndian.Uint32(d[8:12])}
	if int(r.RecordLength) != len(d) {
		return nil, fmt.Errorf("ldsref: record length %d of %d", r.RecordLength, len(d))
	}
	n := int(binary.BigEndian.Uint16(d[12:14]))
	off := 14
	for i := 0; i < n; i++ {
		if len(d)-off < 32 {
			return nil, errors.New("ldsref: facial record truncated")
		}
		blk := d[off:]
		var f ldsview.Face
		f.BlockLength = binary.BigEndian.Uint32(blk[0:4])
		if int(f.BlockLength) > len(blk) || f.BlockLength < 32 {
			return nil, errors.New("ldsref: face block length")
		}
		blk = blk[:f.BlockLength]
		np := int(binary.BigEndian.Uint16(blk[4:6]))
		f.Gender, f.EyeColor, f.HairColor = blk[6], blk[7], blk[8]
		f.Properties, f.Expression, f.Pose, f.PoseUncertainty = blk[9:12], blk[12:14], blk[14:17], blk[17:20]
		if len(blk) < 20+8*np+12 {
			return nil, errors.New("ldsref: feature points do not fit")
		}
		for k := 0; k < np; k++ {
			p := blk[20+8*k : 28+8*k]
			f.Features = append(f.Features, ldsview.FeaturePoint{Type: p[0], Major: p[1] >> 4, Minor: p[1] & 0x0f,
				X: binary.BigEndian.Uint16(p[2:4]), Y: binary.BigEndian.Uint16(p[4:6]), Reserved: binary.BigEndian.Uint16(p[6:8]), Raw: p})
		}
		ii := blk[20+8*np:]
		f.ImageType, f.ImageDataType = ii[0], ii[1]
		f.Width, f.Height = binary.BigEndian.Uint16(ii[2:4]), binary.BigEndian.Uint16(ii[4:6])
		f.ColorSpace, f.SourceType = ii[6], ii[7]
		f.DeviceType, f.Quality = binary.BigEndian.Uint16(ii[8:10]), binary.BigEndian.Uint16(ii[10:12])
		f.Image = ii[12:]
		r.Faces = append(r.Faces, f)
		off += int(f.BlockLength)
	}
	if off != len(d) {
		return nil, fmt.Errorf("ldsref: %d octets after the last face", len(d)-off)
	}
	return r, nil
}

func tlvOf(file []byte, n *ber.Node) []byte {
	if n == nil {
		return nil
	}
	return file[n.Start:n.End]
}

func intOf(n *ber.Node) int {
	if n == nil {
		return 0
	}
	return int(Integer(n.Value).Int64())
}

// rec39794: 7F2E { A1 { 65 { A0 version, A1 { 30 representation } } } }.
func rec39794(file []byte, d *ber.Node) (*ldsview.Rec39794, error) {
	fidb := d.Path(0xA1, 0x65)
	if fidb == nil {
		return nil, errors.New("ldsref: 7F2E without A1/65")
	}
	ver, reps := fidb.Find(0xA0, 1), fidb.Find(0xA1, 1)
	if ver == nil || reps == nil || len(reps.Children) != 1 || reps.Children[0].Tag != 0x30 {
		return nil, errors.New("ldsref: face image data block structure")
	}
	rep := reps.Children[0]
	r := &ldsview.Rec39794{Generation: intOf(ver.Find(0x80, 1)), Year: intOf(ver.Find(0x81, 1)), RepresentationID: intOf(rep.Find(0x80, 1))}
	b2d := rep.Path(0xA1, 0xA0, 0xA0)
	if b2d == nil {
		return nil, errors.New("ldsref: no 2D image representation")
	}
	img, info := b2d.Find(0x80, 1), b2d.Find(0xA1, 1)
	if img == nil || info == nil || info.Find(0xA0, 1) == nil {
		return nil, errors.New("ldsref: 2D block without image data / information")
	}
	r.Image = img.Value
	r.ImageDataFormat = tlvOf(file, info.Find(0xA0, 1))
	r.FaceImageKind = tlvOf(file, info.Find(0xA1, 1))
	r.PostAcquisition = tlvOf(file, info.Find(0xA2, 1))
	r.LossyAttempts = tlvOf(file, info.Find(0xA3, 1))
	r.CameraToSubject = intOf(info.Find(0x84, 1))
	r.SensorDiagonal = intOf(info.Find(0x85, 1))
	r.LensFocalLength = intOf(info.Find(0x86, 1))
	if sz := info.Find(0xA7, 1); sz != nil {
		r.Width, r.Height = intOf(sz.Find(0x80, 1)), intOf(sz.Find(0x81, 1))
	}
	r.FaceMeasurements = tlvOf(file, info.Find(0xA8, 1))
	r.ColourSpace = tlvOf(file, info.Find(0xA9, 1))
	r.RefColourMapping = tlvOf(file, info.Find(0xAA, 1))
	r.CaptureDevice2D = tlvOf(file, b2d.Find(0xA2, 1))
	if dt := rep.Find(0xA2, 1); dt != nil {
		r.CaptureDateTime = &ldsview.DateTime39794{Year: intOf(dt.Find(0x80, 1)), Month: intOf(dt.Find(0x81, 1)), Day: intOf(dt.Find(0x82, 1)),
			Hour: intOf(dt.Find(0x83, 1)), Minute: intOf(dt.Find(0x84, 1)), Second: intOf(dt.Find(0x85, 1)), Millisecond: intOf(dt.Find(0x86, 1))}
	}
	r.QualityBlocks = tlvOf(file, rep.Find(0xA3, 1))
	r.PADData = tlvOf(file, rep.Find(0xA4, 1))
	r.SessionID = intOf(rep.Find(0x85, 1))
	r.DerivedFrom = intOf(rep.Find(0x86, 1))
	if dev := rep.Find(0xA7, 1); dev != nil {
		if m := dev.Find(0xA0, 1); m != nil {
			r.ModelOrg, r.ModelID = intOf(m.Find(0x80, 1)), intOf(m.Find(0x81, 1))
		}
		if c := dev.Path(0xA1, 0x30); c != nil {
			r.CertOrg, r.CertID = intOf(c.Find(0x80, 1)), intOf(c.Find(0x81, 1))
		}
	}
	r.IdentityMetadata = tlvOf(file, rep.Find(0xA8, 1))
	r.Landmarks = tlvOf(file, rep.Find(0xA9, 1))
	return r, nil
}

// ---------------------------------------------------------------- ASN.1 helpers

// Integer decodes two's-complement INTEGER content.
func Integer(b []byte) *big.Int {
	v := new(big.Int).SetBytes(b)
	if len(b) > 0 && b[0]&0x80 != 0 {
		v.Sub(v, new(big.Int).Lsh(big.NewInt(1), uint(8*len(b))))
	}
	return v
}

// OID decodes OBJECT IDENTIFIER content into dotted notation (arcs of any size).
func OID(b []byte) (string, error) {
	if len(b) == 0 || b[len(b)-1]&0x80 != 0 {
		return "", errors.New("ldsref: bad OID")
	}
	var arcs []*big.Int
	cur := new(big.Int)
	for i, c := range b {
		if cur.Sign() == 0 && c == 0x80 && (i == 0 || b[i-1]&0x80 == 0) {
			return "", errors.New("ldsref: OID arc with leading zero septet")
		}
		cur.Lsh(cur, 7).Or(cur, big.NewInt(int64(c&0x7f)))
		if c&0x80 == 0 {
			arcs = append(arcs, cur)
			cur = new(big.Int)
		}
	}
	first := arcs[0]
	var parts []string
	switch {
	case first.Cmp(big.NewInt(40)) < 0:
		parts = append(parts, "0", first.String())
	case first.Cmp(big.NewInt(80)) < 0:
		parts = append(parts, "1", new(big.Int).Sub(first, big.NewInt(40)).String())
	default:
		parts = append(parts, "2", new(big.Int).Sub(first, big.NewInt(80)).String())
	}
	for _, a := range arcs[1:] {
		parts = append(parts, a.String())
	}
	return strings.Join(parts, "."), nil
}

func oidOf(n *ber.Node) (string, error) {
	if n == nil || n.Tag != 0x06 {
		return "", errors.New("ldsref: OBJECT IDENTIFIER expected")
	}
	return OID(n.Value)
}
