package ldsref

import (
	"errors"
	"fmt"
	"strings"

	"verifharness/ldsgen/ldsview"
	"verifharness/ref/ber"
)

// OID arcs of ICAO 9303-11 section 9.2 / BSI TR-03110-3.
const (
	bsi       = "0.4.0.127.0.7"
	idPACE    = bsi + ".2.2.4"
	idCADH    = bsi + ".2.2.3.1"
	idCAECDH  = bsi + ".2.2.3.2"
	idPKDH    = bsi + ".2.2.1.1"
	idPKECDH  = bsi + ".2.2.1.2"
	idTA      = bsi + ".2.2.2"
	idAA      = "2.23.136.1.1.5"
	idEFDIR   = "2.23.136.1.1.13"
	idEFDIRLe = "1.3.27.1.1.13" // legacy icao(27) arc, the form gmrtd knows
)

var paceArcs = []string{idPACE + ".1", idPACE + ".2", idPACE + ".3", idPACE + ".4", idPACE + ".6"}

func childOf(oid, arc string) bool { return strings.HasPrefix(oid, arc+".") }

// Classify names the SecurityInfo type selected by the protocol OID (9303-11
// 9.2: the OID alone decides how the rest of the SEQUENCE is read).
func Classify(oid string) string {
	for _, a := range paceArcs {
		if oid == a {
			return ldsview.KindPACEDomain
		}
		if childOf(oid, a) {
			return ldsview.KindPACE
		}
	}
	switch {
	case oid == idAA:
		return ldsview.KindAA
	case childOf(oid, idCADH) || childOf(oid, idCAECDH):
		return ldsview.KindCA
	case oid == idPKDH || oid == idPKECDH:
		return ldsview.KindCAPubKey
	case oid == idTA || childOf(oid, idTA):
		return ldsview.KindTA
	case oid == idEFDIR || oid == idEFDIRLe:
		return ldsview.KindEFDIR
	}
	return ldsview.KindUnknown
}

// SecurityInfos decodes a SET OF SecurityInfo.
func SecurityInfos(b []byte) (*ldsview.SecurityInfos, error) {
	set, err := root(b, 0x31)
	if err != nil {
		return nil, err
	}
	return securityInfos(b, set)
}

func securityInfos(file []byte, set *ber.Node) (*ldsview.SecurityInfos, error) {
	v := &ldsview.SecurityInfos{Raw: file[set.Start:set.End]}
	for _, si := range set.Children {
		if si.Tag != 0x30 || len(si.Children) < 2 {
			return nil, fmt.Errorf("ldsref: SecurityInfo is %X with %d elements", si.Tag, len(si.Children))
		}
		oid, err := oidOf(si.Children[0])
		if err != nil {
			return nil, err
		}
		info := ldsview.SecurityInfo{Kind: Classify(oid), Protocol: oid, Raw: file[si.Start:si.End]}
		rest := si.Children[1:]
		optInt := func(i int) string {
			if i < len(rest) && rest[i].Tag == 0x02 {
				return Integer(rest[i].Value).String()
			}
			return ""
		}
		needInt := func(i int) (int, error) {
			if i >= len(rest) || rest[i].Tag != 0x02 {
				return 0, fmt.Errorf("ldsref: %s: INTEGER expected", oid)
			}
			return int(Integer(rest[i].Value).Int64()), nil
		}
		switch info.Kind {
		case ldsview.KindPACE, ldsview.KindCA:
			if info.Version, err = needInt(0); err != nil {
				return nil, err
			}
			info.ParamID = optInt(1)
		case ldsview.KindTA:
			if info.Version, err = needInt(0); err != nil {
				return nil, err
			}
		case ldsview.KindAA:
			if info.Version, err = needInt(0); err != nil {
				return nil, err
			}
			if len(rest) < 2 {
				return nil, errors.New("ldsref: ActiveAuthenticationInfo without signature algorithm")
			}
			if info.SigAlg, err = oidOf(rest[1]); err != nil {
				return nil, err
			}
		case ldsview.KindPACEDomain:
			if info.AlgOID, info.AlgParams, err = algorithmIdentifier(file, rest[0]); err != nil {
				return nil, err
			}
			info.ParamID = optInt(1)
		case ldsview.KindCAPubKey:
			spki := rest[0]
			if spki.Tag != 0x30 || len(spki.Children) != 2 || spki.Children[1].Tag != 0x03 || len(spki.Children[1].Value) < 1 {
				return nil, errors.New("ldsref: SubjectPublicKeyInfo expected")
			}
			if info.AlgOID, info.AlgParams, err = algorithmIdentifier(file, spki.Children[0]); err != nil {
				return nil, err
			}
			info.PublicKey = spki.Children[1].Value[1:]
			info.ParamID = optInt(1)
		case ldsview.KindEFDIR:
			if rest[0].Tag != 0x04 {
				return nil, errors.New("ldsref: EFDIRInfo without OCTET STRING")
			}
			info.EFDIR = rest[0].Value
		}
		v.Infos = append(v.Infos, info)
	}
	return v, nil
}

func algorithmIdentifier(file []byte, n *ber.Node) (oid string, params []byte, err error) {
	if n.Tag != 0x30 || len(n.Children) < 1 || len(n.Children) > 2 {
		return "", nil, errors.New("ldsref: AlgorithmIdentifier expected")
	}
	if oid, err = oidOf(n.Children[0]); err != nil {
		return "", nil, err
	}
	if len(n.Children) == 2 {
		params = tlvOf(file, n.Children[1])
	}
	return oid, params, nil
}

// DG14: 6E { SecurityInfos }.
func DG14(b []byte) (*ldsview.SecurityInfos, error) {
	r, err := root(b, 0x6E)
	if err != nil {
		return nil, err
	}
	if len(r.Children) != 1 || r.Children[0].Tag != 0x31 {
		return nil, errors.New("ldsref: DG14 must hold one SET")
	}
	return securityInfos(b, r.Children[0])
}

// DG15: 6F { SubjectPublicKeyInfo }.
func DG15(b []byte) (*ldsview.DG15, error) {
	r, err := root(b, 0x6F)
	if err != nil {
		return nil, err
	}
	if len(r.Children) != 1 {
		return nil, errors.New("ldsref: DG15 must hold one SubjectPublicKeyInfo")
	}
	spki := r.Children[0]
	if spki.Tag != 0x30 || len(spki.Children) != 2 || spki.Children[1].Tag != 0x03 || len(spki.Children[1].Value) < 1 {
		return nil, errors.New("ldsref: SubjectPublicKeyInfo expected")
	}
	v := &ldsview.DG15{SPKI: tlvOf(b, spki)}
	alg := spki.Children[0]
	if v.AlgOID, _, err = algorithmIdentifier(b, alg); err != nil {
		return nil, err
	}
	key := spki.Children[1].Value[1:]
	switch v.AlgOID {
	case "1.2.840.113549.1.1.1":
		v.KeyType = "RSA"
		nodes, err := ber.Parse(key, ber.Options{})
		if err != nil || len(nodes) != 1 || nodes[0].Tag != 0x30 || len(nodes[0].Children) != 2 {
			return nil, fmt.Errorf("ldsref: RSAPublicKey expected (%v)", err)
		}
		v.Modulus = fmt.Sprintf("%x", Integer(nodes[0].Children[0].Value))
		v.Exponent = Integer(nodes[0].Children[1].Value).String()
	case "1.2.840.10045.2.1":
		v.KeyType = "EC"
		v.Point = key
		if len(alg.Children) != 2 {
			return nil, errors.New("ldsref: EC key without parameters")
		}
		switch p := alg.Children[1]; p.Tag {
		case 0x06:
			if v.CurveOID, err = OID(p.Value); err != nil {
				return nil, err
			}
		case 0x30:
			v.Explicit = true
		default:
			return nil, fmt.Errorf("ldsref: EC parameters of type %X", p.Tag)
		}
	default:
		v.KeyType = "other"
	}
	return v, nil
}

// ---------------------------------------------------------------- CMS

type signedData struct {
	version     int
	digestAlgs  []string
	contentType string
	eContent    []byte
}

// parseSignedData reads ContentInfo { id-signedData, [0] SignedData } (RFC 5652).
func parseSignedData(file []byte, ci *ber.Node) (*signedData, error) {
	if ci.Tag != 0x30 || len(ci.Children) != 2 {
		return nil, errors.New("ldsref: ContentInfo expected")
	}
	if oid, err := oidOf(ci.Children[0]); err != nil || oid != "1.2.840.113549.1.7.2" {
		return nil, fmt.Errorf("ldsref: content type %q is not signedData", oid)
	}
	wrap := ci.Children[1]
	if wrap.Tag != 0xA0 || len(wrap.Children) != 1 || wrap.Children[0].Tag != 0x30 {
		return nil, errors.New("ldsref: [0] SignedData expected")
	}
	sd := wrap.Children[0].Children
	if len(sd) < 4 || sd[0].Tag != 0x02 || sd[1].Tag != 0x31 || sd[2].Tag != 0x30 || sd[len(sd)-1].Tag != 0x31 {
		return nil, errors.New("ldsref: SignedData structure")
	}
	out := &signedData{version: int(Integer(sd[0].Value).Int64())}
	for _, a := range sd[1].Children {
		oid, _, err := algorithmIdentifier(file, a)
		if err != nil {
			return nil, err
		}
		out.digestAlgs = append(out.digestAlgs, oid)
	}
	enc := sd[2].Children
	if len(enc) != 2 || enc[1].Tag != 0xA0 || len(enc[1].Children) != 1 {
		return nil, errors.New("ldsref: EncapsulatedContentInfo structure")
	}
	var err error
	if out.contentType, err = oidOf(enc[0]); err != nil {
		return nil, err
	}
	switch oct := enc[1].Children[0]; oct.Tag {
	case 0x04:
		out.eContent = oct.Value
	case 0x24: // constructed OCTET STRING (BER)
		for _, seg := range oct.Children {
			out.eContent = append(out.eContent, seg.Value...)
		}
	default:
		return nil, fmt.Errorf("ldsref: eContent of type %X", oct.Tag)
	}
	return out, nil
}

// SOD: 77 { ContentInfo }; eContent = LDSSecurityObject (9303-10 4.6.2.3).
func SOD(b []byte) (*ldsview.SOD, error) {
	r, err := root(b, 0x77)
	if err != nil {
		return nil, err
	}
	if len(r.Children) != 1 {
		return nil, errors.New("ldsref: SOD must hold one ContentInfo")
	}
	sd, err := parseSignedData(b, r.Children[0])
	if err != nil {
		return nil, err
	}
	v := &ldsview.SOD{CMSVersion: sd.version, DigestAlgorithms: sd.digestAlgs, ContentType: sd.contentType, EContent: sd.eContent}
	nodes, err := ber.Parse(sd.eContent, ber.Options{})
	if err != nil || len(nodes) != 1 || nodes[0].Tag != 0x30 {
		return nil, fmt.Errorf("ldsref: LDSSecurityObject expected (%v)", err)
	}
	so := nodes[0].Children
	if len(so) < 3 || len(so) > 4 || so[0].Tag != 0x02 || so[1].Tag != 0x30 || so[2].Tag != 0x30 {
		return nil, errors.New("ldsref: LDSSecurityObject structure")
	}
	v.SOVersion = int(Integer(so[0].Value).Int64())
	if v.HashAlg, _, err = algorithmIdentifier(sd.eContent, so[1]); err != nil {
		return nil, err
	}
	for _, h := range so[2].Children {
		if h.Tag != 0x30 || len(h.Children) != 2 || h.Children[0].Tag != 0x02 || h.Children[1].Tag != 0x04 {
			return nil, errors.New("ldsref: DataGroupHash structure")
		}
		v.Hashes = append(v.Hashes, ldsview.DGHash{DG: int(Integer(h.Children[0].Value).Int64()), Hash: h.Children[1].Value})
	}
	if len(so) == 4 {
		vi := so[3]
		if vi.Tag != 0x30 || len(vi.Children) != 2 {
			return nil, errors.New("ldsref: LDSVersionInfo structure")
		}
		v.LDSVersion, v.UnicodeVersion = string(vi.Children[0].Value), string(vi.Children[1].Value)
	}
	return v, nil
}

// CardSecurity: ContentInfo { signedData }; eContent = SecurityInfos.
func CardSecurity(b []byte) (*ldsview.CardSecurity, error) {
	r, err := root(b, 0x30)
	if err != nil {
		return nil, err
	}
	sd, err := parseSignedData(b, r)
	if err != nil {
		return nil, err
	}
	infos, err := SecurityInfos(sd.eContent)
	if err != nil {
		return nil, err
	}
	return &ldsview.CardSecurity{CMSVersion: sd.version, DigestAlgorithms: sd.digestAlgs, ContentType: sd.contentType, Infos: *infos}, nil
}
