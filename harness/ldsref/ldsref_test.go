package ldsref

import (
	"encoding/hex"
	"testing"

	"verifharness/ldsgen"
	"verifharness/ldsgen/ldsview"
)

// prng is a deterministic splitmix64 Source (self-test only; the checks feed
// the generators from rapid).
type prng struct{ x uint64 }

func (p *prng) next() uint64 {
	p.x += 0x9e3779b97f4a7c15
	z := p.x
	z = (z ^ (z >> 30)) * 0xbf58476d1ce4e5b9
	z = (z ^ (z >> 27)) * 0x94d049bb133111eb
	return z ^ (z >> 31)
}
func (p *prng) Intn(n int) int { return int(p.next() % uint64(n)) }
func (p *prng) Bool() bool     { return p.next()&1 == 1 }
func (p *prng) Bytes(n int) []byte {
	b := make([]byte, n)
	for i := range b {
		b[i] = byte(p.next())
	}
	return b
}

// TestGeneratorAgainstDecoder: for every kind the view recomputed from the
// bytes equals the view the generator states.
func TestGeneratorAgainstDecoder(t *testing.T) {
	p := &prng{x: 1}
	for _, kind := range ldsgen.Kinds {
		for i := 0; i < 300; i++ {
			f, err := ldsgen.Generate(kind, p, ldsgen.Opts{})
			if err != nil {
				t.Fatal(err)
			}
			got, err := Decode(kind, f.Bytes)
			if err != nil {
				t.Fatalf("%s #%d: decoder refuses generated file: %v\n%s", kind, i, err, hex.EncodeToString(f.Bytes[:min(len(f.Bytes), 400)]))
			}
			if d := ldsview.Diff(f.View, got); d != "" {
				t.Fatalf("%s #%d (%s): %s\n%s", kind, i, f.Mask, d, hex.EncodeToString(f.Bytes[:min(len(f.Bytes), 400)]))
			}
			if tag, _ := OuterTag(f.Bytes); tag != f.Tag {
				t.Fatalf("%s: outer tag %X, generator says %X", kind, tag, f.Tag)
			}
		}
	}
}
