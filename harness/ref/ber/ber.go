// Package ber is an independent reader / canonical re-encoder for BER
// tag-length-value data (ITU-T X.690 clause 8.1, ISO/IEC 7816-4 BER-TLV).  It
// imports nothing from gmrtd and uses only the standard library.
//
// The reader works on byte slices with explicit offsets (recursive descent).
// It has two modes:
//
//	strict  (Options.Lenient == false): X.690 as written.
//	  - identifier octets: low form, or high form with the minimum number of
//	    octets (first subsequent octet != 0x80) and a tag number >= 31;
//	  - universal tag 0 is reserved: the octets 00 00 are an end-of-contents
//	    marker and are legal only as the terminator of an indefinite-length value;
//	  - lengths: short form, long form with 1..126 subsequent octets (need not be
//	    minimal: 8.1.3.5 note 2), indefinite form (80) for constructed only;
//	  - an indefinite-length value must be closed by 00 00;
//	  - every value must fit into the enclosing value, all input is consumed.
//
//	lenient (Options.Lenient == true): strict plus the following relaxations,
//	  which are the ones the tlv package of gmrtd is known to have (see
//	  /verif/DESIGN.md section 4 C16).  Every use of a relaxation is counted in Info.
//	  L1 an end-of-contents marker (identifier octet 00 with a decoded length of
//	     0, e.g. 00 00 or 00 81 00) inside a definite-length value or at the top
//	     level ends the element list; it must then be the last octets of that value;
//	  L2 an indefinite-length value may also be ended by the end of the enclosing
//	     value (missing end-of-contents);
//	  L3 identifier octets are taken as they stand: padded high-tag-number forms
//	     (1F 80 01) and tag numbers < 31 in high form (1F 05) are accepted, and
//	     the tag identity is the octet string, not the decoded number;
//	  L4 identifier octet 00 with a non-zero length is an ordinary primitive
//	     element with tag 0.
//
// Implementation limits, reported as errors of kind Limit in both modes (the
// input may be valid BER but this reader, like gmrtd, does not represent it):
// identifiers longer than 4 octets, more than 4 subsequent length octets,
// Options.MaxDepth, Options.MaxNodes.
package ber

import (
	"bytes"
	"fmt"
)

// Node is one element of the parsed tree.
type Node struct {
	// Tag is the identifier octets packed big-endian, exactly the numeric
	// convention of gmrtd's tlv.TlvTag (5F 1F -> 0x5F1F, 7F 61 -> 0x7F61,
	// 30 -> 0x30, 1F 80 01 -> 0x1F8001).
	Tag         uint32
	TagBytes    []byte // raw identifier octets
	Constructed bool   // bit 6 (mask 0x20) of the first identifier octet
	// Value: primitive = the content octets; constructed = the raw content
	// octets as they stand in the input (for an indefinite length: without the
	// terminating end-of-contents octets; for a definite length: all of them).
	Value      []byte
	Children   []*Node // constructed only
	Indefinite bool    // length was given in the indefinite form
	LenOctets  int     // number of length octets in the input (1 for short form and for 80)
	Start, End int     // [Start,End) is the element in the input, incl. its end-of-contents octets
}

// Options selects the mode and limits of Parse.
type Options struct {
	Lenient bool
	// MaxDepth: maximum nesting of constructed elements (a top-level constructed
	// element has nesting 1).  A constructed element nested deeper is refused
	// (Limit).  Primitive elements do not count.  0 = unlimited.
	MaxDepth int
	// MaxNodes: maximum number of elements (constructed and primitive, not
	// end-of-contents markers) in the whole input.  0 = unlimited.
	MaxNodes int
}

// ErrKind classifies a refusal.
type ErrKind int

const (
	Malformed ErrKind = iota // not BER under the selected mode
	Truncated                // identifier, length or value runs past the end of the enclosing value
	Limit                    // beyond an implementation limit (tag > 4 octets, > 4 length octets, MaxDepth, MaxNodes)
)

func (k ErrKind) String() string {
	switch k {
	case Malformed:
		return "malformed"
	case Truncated:
		return "truncated"
	default:
		return "limit"
	}
}

// Error is the error type returned by this package.
type Error struct {
	Kind     ErrKind
	Off      int   // offset in the input where the problem was noticed
	Declared int64 // Truncated value: the declared length that does not fit (else 0)
	Msg      string
}

func (e *Error) Error() string { return fmt.Sprintf("ber: %s at offset %d: %s", e.Kind, e.Off, e.Msg) }

// Info describes how the input was encoded (for classification of test inputs).
type Info struct {
	Nodes        int // elements (no end-of-contents markers)
	Constructed  int
	MaxDepth     int // deepest constructed nesting (0 = no constructed element)
	Indefinite   int // elements using the indefinite form
	NonMinLen    int // definite lengths not in the shortest form
	LongLen      int // definite lengths in long form (minimal or not)
	MultiByteTag int // identifiers of 2..4 octets
	MaxTagOctets int
	// uses of the lenient relaxations
	EOCInDefinite int // L1
	MissingEOC    int // L2
	OddEOC        int // end-of-contents written other than 00 00 (part of L1 wording: decoded length 0)
	OddTag        int // L3: padded high form or number < 31 in high form
	TagZero       int // L4
}

// Canonical reports whether the input was exactly the definite, minimal-length
// encoding of its tree (no relaxation used, no indefinite/non-minimal length).
func (i *Info) Canonical() bool {
	return i.Indefinite == 0 && i.NonMinLen == 0 && i.EOCInDefinite == 0 && i.MissingEOC == 0 && i.OddEOC == 0
}

// Header is a decoded identifier + length.
type Header struct {
	Tag         uint32
	TagBytes    []byte
	Constructed bool
	Indefinite  bool
	Length      int64 // content length; -1 if Indefinite
	LenOctets   int
	HdrLen      int  // identifier octets + length octets
	OddTag      bool // L3 form
	NonMinLen   bool
}

// ParseHeader decodes the identifier and length octets at the start of b.
// lenient selects relaxation L3 (identifier forms); nothing else depends on it.
func ParseHeader(b []byte, lenient bool) (Header, error) {
	return parseHeader(b, 0, len(b), lenient)
}

// ParseIdentifier decodes the identifier octets at the start of b and returns
// the packed tag and the number of octets.  lenient selects relaxation L3.
func ParseIdentifier(b []byte, lenient bool) (tag uint32, n int, err error) {
	h, p, err := parseIdent(b, 0, len(b), lenient)
	return h.Tag, p, err
}

func parseIdent(b []byte, pos, end int, lenient bool) (Header, int, error) {
	var h Header
	p := pos
	if p >= end {
		return h, p, &Error{Kind: Truncated, Off: p, Msg: "no identifier octet"}
	}
	first := b[p]
	p++
	h.Constructed = first&0x20 != 0
	if first&0x1f == 0x1f {
		// high-tag-number form: subsequent octets, bit 8 set on all but the last
		n := 0
		for {
			if p >= end {
				return h, p, &Error{Kind: Truncated, Off: p, Msg: "identifier octets run past the end"}
			}
			c := b[p]
			p++
			n++
			if n == 1 && c == 0x80 {
				h.OddTag = true // leading zero septet (X.690 8.1.2.4.2 c)
			}
			if c&0x80 == 0 {
				if n == 1 && c < 0x1f {
					h.OddTag = true // number < 31 must use the low form (8.1.2.2)
				}
				break
			}
			if n >= 3 {
				// a 4th subsequent octet would make the identifier 5 octets long
				return h, p, &Error{Kind: Limit, Off: pos, Msg: "identifier longer than 4 octets"}
			}
		}
		if h.OddTag && !lenient {
			return h, p, &Error{Kind: Malformed, Off: pos, Msg: "identifier not in the shortest form"}
		}
	}
	h.TagBytes = b[pos:p:p]
	for _, c := range h.TagBytes {
		h.Tag = h.Tag<<8 | uint32(c)
	}
	return h, p, nil
}

func parseHeader(b []byte, pos, end int, lenient bool) (Header, error) {
	h, p, err := parseIdent(b, pos, end, lenient)
	if err != nil {
		return h, err
	}
	// length
	if p >= end {
		return h, &Error{Kind: Truncated, Off: p, Msg: "no length octet"}
	}
	l0 := b[p]
	lstart := p
	p++
	switch {
	case l0 < 0x80:
		h.Length = int64(l0)
	case l0 == 0x80:
		h.Indefinite = true
		h.Length = -1
	case l0 == 0xff:
		return h, &Error{Kind: Malformed, Off: lstart, Msg: "length octet FF is reserved"}
	default:
		k := int(l0 & 0x7f)
		if k > 4 {
			return h, &Error{Kind: Limit, Off: lstart, Msg: fmt.Sprintf("%d subsequent length octets", k)}
		}
		if p+k > end {
			return h, &Error{Kind: Truncated, Off: p, Msg: "length octets run past the end"}
		}
		var v int64
		for i := 0; i < k; i++ {
			v = v<<8 | int64(b[p+i])
		}
		p += k
		h.Length = v
		// shortest form: short form below 128, else no leading zero octet
		if v < 128 || b[lstart+1] == 0 {
			h.NonMinLen = true
		}
	}
	h.LenOctets = p - lstart
	h.HdrLen = p - pos
	return h, nil
}

type parser struct {
	b     []byte
	o     Options
	info  Info
	nodes int
}

const (
	ctxDefinite   = iota // inside a definite-length value, or the top level
	ctxIndefinite        // inside an indefinite-length value
)

// Parse reads a sequence of top-level TLVs that must consume all of b.
func Parse(b []byte, o Options) ([]*Node, error) {
	n, _, err := ParseInfo(b, o)
	return n, err
}

// ParseInfo is Parse plus a description of the encoding forms met.  On error
// the Info describes what was seen up to the error.
func ParseInfo(b []byte, o Options) ([]*Node, *Info, error) {
	p := &parser{b: b, o: o}
	nodes, pos, _, err := p.list(0, len(b), ctxDefinite, 1)
	if err != nil {
		return nil, &p.info, err
	}
	if pos != len(b) {
		// cannot happen: list() only returns early on an end-of-contents marker,
		// and in a definite context it has checked that nothing follows.
		return nil, &p.info, &Error{Kind: Malformed, Off: pos, Msg: "trailing octets"}
	}
	return nodes, &p.info, nil
}

// ParseOne reads exactly one TLV at the start of b and returns the rest.
func ParseOne(b []byte, o Options) (*Node, []byte, error) {
	p := &parser{b: b, o: o}
	h, err := parseHeader(b, 0, len(b), o.Lenient)
	if err != nil {
		return nil, nil, err
	}
	if h.TagBytes[0] == 0 && len(h.TagBytes) == 1 && (h.Length == 0 || !o.Lenient) {
		return nil, nil, &Error{Kind: Malformed, Off: 0, Msg: "end-of-contents / tag 0 where an element is expected"}
	}
	n, pos, err := p.element(h, 0, len(b), 1)
	if err != nil {
		return nil, nil, err
	}
	return n, b[pos:], nil
}

// list parses elements from pos up to end.  depth is the constructed nesting
// that a constructed element met here would have.  It returns the position
// after the list (after the end-of-contents marker if one closed it) and
// whether a marker closed it.
func (p *parser) list(pos, end, ctx, depth int) (nodes []*Node, next int, closed bool, err error) {
	for pos < end {
		h, err := parseHeader(p.b, pos, end, p.o.Lenient)
		if err != nil {
			return nil, pos, false, err
		}
		if len(h.TagBytes) == 1 && h.TagBytes[0] == 0 {
			plainEOC := h.Length == 0 && h.LenOctets == 1
			oddEOC := h.Length == 0 && !plainEOC // 00 81 00, 00 82 00 00, ...
			switch {
			case plainEOC && ctx == ctxIndefinite:
				return nodes, pos + h.HdrLen, true, nil
			case !p.o.Lenient:
				return nil, pos, false, &Error{Kind: Malformed, Off: pos, Msg: "universal tag 0 / end-of-contents not terminating an indefinite-length value"}
			case oddEOC && ctx == ctxIndefinite:
				p.info.OddEOC++
				return nodes, pos + h.HdrLen, true, nil
			case plainEOC || oddEOC: // L1: marker in a definite value / at top level
				if oddEOC {
					p.info.OddEOC++
				}
				p.info.EOCInDefinite++
				if pos+h.HdrLen != end {
					return nil, pos + h.HdrLen, false, &Error{Kind: Malformed, Off: pos + h.HdrLen, Msg: "octets after an end-of-contents marker inside a definite-length value"}
				}
				return nodes, end, true, nil
			default: // L4: tag 0 with a value
				p.info.TagZero++
			}
		}
		n, np, err := p.element(h, pos, end, depth)
		if err != nil {
			return nil, np, false, err
		}
		nodes = append(nodes, n)
		pos = np
	}
	return nodes, pos, false, nil
}

// element parses the element whose header h starts at pos.
func (p *parser) element(h Header, pos, end, depth int) (*Node, int, error) {
	p.nodes++
	if p.o.MaxNodes > 0 && p.nodes > p.o.MaxNodes {
		return nil, pos, &Error{Kind: Limit, Off: pos, Msg: fmt.Sprintf("more than %d elements", p.o.MaxNodes)}
	}
	p.info.Nodes++
	if len(h.TagBytes) > 1 {
		p.info.MultiByteTag++
	}
	if len(h.TagBytes) > p.info.MaxTagOctets {
		p.info.MaxTagOctets = len(h.TagBytes)
	}
	if h.OddTag {
		p.info.OddTag++
	}
	if h.NonMinLen {
		p.info.NonMinLen++
	}
	if !h.Indefinite && h.LenOctets > 1 {
		p.info.LongLen++
	}
	n := &Node{Tag: h.Tag, TagBytes: h.TagBytes, Constructed: h.Constructed, Indefinite: h.Indefinite,
		LenOctets: h.LenOctets, Start: pos}
	cstart := pos + h.HdrLen
	if !h.Constructed {
		if h.Indefinite {
			return nil, pos, &Error{Kind: Malformed, Off: pos, Msg: "indefinite length on a primitive element"}
		}
		if h.Length > int64(end-cstart) {
			return nil, cstart, &Error{Kind: Truncated, Off: cstart, Declared: h.Length, Msg: fmt.Sprintf("value of %d octets does not fit into the remaining %d", h.Length, end-cstart)}
		}
		n.End = cstart + int(h.Length)
		n.Value = p.b[cstart:n.End:n.End]
		return n, n.End, nil
	}
	p.info.Constructed++
	if p.o.MaxDepth > 0 && depth > p.o.MaxDepth {
		return nil, pos, &Error{Kind: Limit, Off: pos, Msg: fmt.Sprintf("constructed nesting deeper than %d", p.o.MaxDepth)}
	}
	if depth > p.info.MaxDepth {
		p.info.MaxDepth = depth
	}
	if h.Indefinite {
		p.info.Indefinite++
		kids, np, closed, err := p.list(cstart, end, ctxIndefinite, depth+1)
		if err != nil {
			return nil, np, err
		}
		n.Children = kids
		n.End = np
		if closed {
			// the marker is the last header parsed by list(): find its start
			n.Value = p.b[cstart:eocStart(kids, cstart):np]
		} else {
			if !p.o.Lenient {
				return nil, np, &Error{Kind: Truncated, Off: np, Msg: "indefinite-length value without end-of-contents"}
			}
			p.info.MissingEOC++ // L2
			n.Value = p.b[cstart:np:np]
		}
		return n, np, nil
	}
	if h.Length > int64(end-cstart) {
		return nil, cstart, &Error{Kind: Truncated, Off: cstart, Declared: h.Length, Msg: fmt.Sprintf("value of %d octets does not fit into the remaining %d", h.Length, end-cstart)}
	}
	cend := cstart + int(h.Length)
	kids, np, _, err := p.list(cstart, cend, ctxDefinite, depth+1)
	if err != nil {
		return nil, np, err
	}
	if np != cend {
		return nil, np, &Error{Kind: Malformed, Off: np, Msg: "definite-length value not filled by its elements"}
	}
	n.Children = kids
	n.End = cend
	n.Value = p.b[cstart:cend:cend]
	return n, cend, nil
}

// eocStart: the content of an EOC-closed indefinite value ends where its last
// child ends (or at the content start if it has none).
func eocStart(kids []*Node, cstart int) int {
	if len(kids) == 0 {
		return cstart
	}
	return kids[len(kids)-1].End
}

// TagBytesOf unpacks a packed tag into identifier octets (inverse of the
// packing used for Node.Tag).  Tag 0 is the single octet 00.
func TagBytesOf(tag uint32) []byte {
	switch {
	case tag > 0xffffff:
		return []byte{byte(tag >> 24), byte(tag >> 16), byte(tag >> 8), byte(tag)}
	case tag > 0xffff:
		return []byte{byte(tag >> 16), byte(tag >> 8), byte(tag)}
	case tag > 0xff:
		return []byte{byte(tag >> 8), byte(tag)}
	}
	return []byte{byte(tag)}
}

// AppendLength appends the definite, shortest-form length octets of n.
func AppendLength(dst []byte, n int) []byte {
	switch {
	case n < 0x80:
		return append(dst, byte(n))
	case n <= 0xff:
		return append(dst, 0x81, byte(n))
	case n <= 0xffff:
		return append(dst, 0x82, byte(n>>8), byte(n))
	case n <= 0xffffff:
		return append(dst, 0x83, byte(n>>16), byte(n>>8), byte(n))
	}
	return append(dst, 0x84, byte(n>>24), byte(n>>16), byte(n>>8), byte(n))
}

// EncodeDefinite gives the definite, minimal-length encoding of the trees: for
// every node its identifier octets as they are (TagBytes, or Tag unpacked if
// TagBytes is empty), the shortest length octets, and the encoded children
// (constructed) or the content octets (primitive).
func EncodeDefinite(nodes []*Node) []byte {
	var out []byte
	for _, n := range nodes {
		out = appendNode(out, n)
	}
	return out
}

func appendNode(dst []byte, n *Node) []byte {
	tb := n.TagBytes
	if len(tb) == 0 {
		tb = TagBytesOf(n.Tag)
	}
	dst = append(dst, tb...)
	if !n.Constructed {
		dst = AppendLength(dst, len(n.Value))
		return append(dst, n.Value...)
	}
	body := EncodeDefinite(n.Children)
	dst = AppendLength(dst, len(body))
	return append(dst, body...)
}

// Find returns the occur-th (1-based, as gmrtd's NodeByTagOccur) child with
// the given packed tag, or nil.  A primitive node has no children.
func (n *Node) Find(tag uint32, occur int) *Node {
	if n == nil {
		return nil
	}
	return FindIn(n.Children, tag, occur)
}

// FindIn is Find on a list of sibling nodes (e.g. the top level).
func FindIn(nodes []*Node, tag uint32, occur int) *Node {
	if occur < 1 {
		return nil
	}
	for _, c := range nodes {
		if c.Tag == tag {
			occur--
			if occur == 0 {
				return c
			}
		}
	}
	return nil
}

// Path follows first occurrences of the given tags downwards from n.
func (n *Node) Path(tags ...uint32) *Node {
	cur := n
	for _, t := range tags {
		cur = cur.Find(t, 1)
		if cur == nil {
			return nil
		}
	}
	return cur
}

// Equal compares two forests: same tags (identifier octets), same
// constructed-ness, same nesting, same primitive content.  Encoding forms
// (length form, offsets) are not compared.
func Equal(a, b []*Node) bool {
	if len(a) != len(b) {
		return false
	}
	for i := range a {
		x, y := a[i], b[i]
		if x.Tag != y.Tag || x.Constructed != y.Constructed {
			return false
		}
		if x.Constructed {
			if !Equal(x.Children, y.Children) {
				return false
			}
		} else if !bytes.Equal(x.Value, y.Value) {
			return false
		}
	}
	return true
}

// Count returns the number of nodes in the forest.
func Count(nodes []*Node) int {
	c := 0
	for _, n := range nodes {
		c += 1 + Count(n.Children)
	}
	return c
}

// Depth returns the deepest constructed nesting in the forest (0 if none).
func Depth(nodes []*Node) int {
	d := 0
	for _, n := range nodes {
		if n.Constructed {
			if k := 1 + Depth(n.Children); k > d {
				d = k
			}
		}
	}
	return d
}
