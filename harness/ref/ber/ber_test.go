package ber

import (
	"bytes"
	"encoding/asn1"
	"encoding/hex"
	"errors"
	"math/big"
	"testing"
	"time"
)

func hx(s string) []byte {
	b, err := hex.DecodeString(s)
	if err != nil {
		panic(err)
	}
	return b
}

// walkAsn1 re-derives the tree with encoding/asn1's RawValue reader (DER only).
func walkAsn1(t *testing.T, b []byte) []*Node {
	var out []*Node
	for len(b) > 0 {
		var rv asn1.RawValue
		rest, err := asn1.Unmarshal(b, &rv)
		if err != nil {
			t.Fatalf("asn1: %v", err)
		}
		hdr := len(rv.FullBytes) - len(rv.Bytes)
		h, err := ParseHeader(rv.FullBytes, false)
		if err != nil || h.HdrLen != hdr {
			t.Fatalf("header disagreement: %v %d %d", err, h.HdrLen, hdr)
		}
		n := &Node{Tag: h.Tag, Constructed: rv.IsCompound}
		if rv.IsCompound {
			n.Children = walkAsn1(t, rv.Bytes)
		} else {
			n.Value = rv.Bytes
		}
		out = append(out, n)
		b = rest
	}
	return out
}

func TestAgainstEncodingASN1(t *testing.T) {
	type inner struct {
		A int
		B []byte
		C asn1.ObjectIdentifier
		D string    `asn1:"utf8"`
		E time.Time `asn1:"generalized"`
		F []int     `asn1:"set"`
	}
	type outer struct {
		X *big.Int
		Y inner `asn1:"explicit,tag:3"`
		Z []inner
		W asn1.BitString
		V asn1.RawValue
	}
	in := inner{A: -129, B: bytes.Repeat([]byte{7}, 300), C: asn1.ObjectIdentifier{1, 2, 840, 113549, 1, 7, 2},
		D: "héllo", E: time.Date(2031, 2, 3, 4, 5, 6, 0, time.UTC), F: []int{3, 1, 2}}
	v := outer{X: new(big.Int).Lsh(big.NewInt(1), 600), Y: in, Z: []inner{in, in}, W: asn1.BitString{Bytes: []byte{0xA0}, BitLength: 3},
		V: asn1.RawValue{Class: asn1.ClassApplication, Tag: 97, IsCompound: true, Bytes: hx("5f1f0141")}}
	der, err := asn1.Marshal(v)
	if err != nil {
		t.Fatal(err)
	}
	for _, lenient := range []bool{false, true} {
		got, info, err := ParseInfo(der, Options{Lenient: lenient})
		if err != nil {
			t.Fatalf("lenient=%v: %v", lenient, err)
		}
		if !Equal(got, walkAsn1(t, der)) {
			t.Fatalf("tree differs from encoding/asn1")
		}
		if !info.Canonical() {
			t.Fatalf("DER input not recognised as canonical: %+v", info)
		}
		if !bytes.Equal(EncodeDefinite(got), der) {
			t.Fatalf("EncodeDefinite(DER) != DER")
		}
		if got[0].End != len(der) || got[0].Start != 0 {
			t.Fatalf("offsets")
		}
	}
	n, _ := Parse(der, Options{})
	if x := n[0].Path(0x7f61, 0x5f1f); x == nil || !bytes.Equal(x.Value, []byte{0x41}) {
		t.Fatalf("Path/Find: %v", x)
	}
	if n[0].Find(0x30, 1) == nil || n[0].Find(0x30, 2) != nil || n[0].Find(0x30, 0) != nil {
		t.Fatalf("Find occurrence convention")
	}
}

func TestForms(t *testing.T) {
	type tc struct {
		in            string
		strict, lenOK bool
		canon         string // expected EncodeDefinite in lenient mode ("" if refused)
	}
	cases := []tc{
		{"", true, true, ""},
		{"0400", true, true, "0400"},
		{"04810141", true, true, "040141"},
		{"0484000000020102", true, true, "04020102"},
		{"048500000000020102", false, false, ""}, // limit
		{"04ff", false, false, ""},
		{"0480", false, false, ""},
		{"30800401aa0000", true, true, "30030401aa"},
		{"30800401aa", false, true, "30030401aa"},                      // L2
		{"30050401aa0000", false, true, "30030401aa"},                  // L1
		{"30070000" + "0401aa" + "00", false, false, ""},               // marker not last
		{"30053080" + "0401aa", false, true, "300530030401aa"},         // L2 inside definite
		{"0401aa0000", false, true, "0401aa"},                          // L1 at top level
		{"00000401aa", false, false, ""},                               // marker not last at top level
		{"0000", false, true, ""},                                      // L1, empty forest
		{"30800081000000", false, true, "3000"},                        // odd EOC closes, then a top-level marker (L1)
		{"308000810000", false, false, ""},                             // odd EOC closes, then a lone 00
		{"3080008100", false, true, "3000"},                            // odd EOC
		{"0001aa", false, true, "0001aa"},                              // L4
		{"1f8001" + "00", false, true, "1f800100"},                     // L3
		{"1f05" + "00", false, true, "1f0500"},                         // L3
		{"1f1f" + "00", true, true, "1f1f00"},                          // number 31, high form: fine
		{"7f8180" + "01" + "00", true, true, "7f81800100"},             // 4 octets, constructed
		{"1f81808001" + "00", false, false, ""},                        // 5 octets: limit
		{"1f", false, false, ""},                                       // truncated
		{"30", false, false, ""},                                       // truncated
		{"3003" + "0401", false, false, ""},                            // child truncated by parent end
		{"3002" + "0401aa", false, false, ""},                          // child exceeds parent
		{"30803080" + "0400" + "00000000", true, true, "300430020400"}, // nested indefinite
		{"30803080" + "0400" + "0000", false, true, "300430020400"},    // outer missing EOC
		{"2000", true, true, "2000"},
	}
	for _, c := range cases {
		in := hx(c.in)
		_, err := Parse(in, Options{})
		if (err == nil) != c.strict {
			t.Errorf("strict %s: err=%v want ok=%v", c.in, err, c.strict)
		}
		n, err := Parse(in, Options{Lenient: true})
		if (err == nil) != c.lenOK {
			t.Errorf("lenient %s: err=%v want ok=%v", c.in, err, c.lenOK)
			continue
		}
		if err == nil {
			if got := hex.EncodeToString(EncodeDefinite(n)); got != c.canon {
				t.Errorf("lenient %s: canonical %s want %s", c.in, got, c.canon)
			}
			// canonical form re-parses strictly (unless it needs L3/L4) to an equal tree
			m, err := Parse(EncodeDefinite(n), Options{Lenient: true})
			if err != nil || !Equal(m, n) {
				t.Errorf("%s: canonical form does not re-parse to an equal tree (%v)", c.in, err)
			}
		}
	}
}

func TestErrorKindsAndLimits(t *testing.T) {
	kind := func(in string, o Options) ErrKind {
		_, err := Parse(hx(in), o)
		var e *Error
		if !errors.As(err, &e) {
			t.Fatalf("%s: no *Error (%v)", in, err)
		}
		return e.Kind
	}
	if kind("1f81808001"+"00", Options{}) != Limit || kind("048500000000020102", Options{}) != Limit {
		t.Fatal("limit kinds")
	}
	if kind("0484ffffffff", Options{Lenient: true}) != Truncated {
		t.Fatal("truncated kind")
	}
	_, err := Parse(hx("0484ffffffff"), Options{})
	if e := err.(*Error); e.Declared != 0xffffffff {
		t.Fatalf("declared %d", e.Declared)
	}
	// depth: k nested constructed elements
	chain := func(k int) []byte {
		var b []byte
		for i := 0; i < k; i++ {
			b = append([]byte{0x30, byte(len(b))}, b...)
		}
		return b
	}
	if _, err := Parse(chain(5), Options{MaxDepth: 5}); err != nil {
		t.Fatal(err)
	}
	if kind(hex.EncodeToString(chain(6)), Options{MaxDepth: 5}) != Limit {
		t.Fatal("depth limit")
	}
	// a primitive below the deepest allowed constructed element is fine
	if _, err := Parse(hx("30043002"+"0400"), Options{MaxDepth: 2}); err != nil {
		t.Fatal(err)
	}
	if _, err := Parse(hx("04000400"+"3000"), Options{MaxNodes: 3}); err != nil {
		t.Fatal(err)
	}
	if kind("04000400"+"3000", Options{MaxNodes: 2}) != Limit {
		t.Fatal("node limit")
	}
	n, info, _ := ParseInfo(hx("30803080"+"0400"+"00000000"), Options{})
	if info.MaxDepth != 2 || info.Nodes != 3 || Depth(n) != 2 || Count(n) != 3 || info.Indefinite != 2 {
		t.Fatalf("info %+v", info)
	}
	if !bytes.Equal(n[0].Value, hx("3080"+"0400"+"0000")) || n[0].End != 10 || !bytes.Equal(n[0].Children[0].Value, hx("0400")) {
		t.Fatalf("indefinite Value/End: %x %d", n[0].Value, n[0].End)
	}
	one, rest, err := ParseOne(hx("0401aa"+"0500"), Options{})
	if err != nil || one.Tag != 4 || !bytes.Equal(rest, hx("0500")) {
		t.Fatalf("ParseOne")
	}
}
