// Package sm is an independent implementation of ICAO Doc 9303-11 §9.8 secure
// messaging (3DES / AES-128/192/256), chip side and terminal side.  It is
// built on verifharness/ref/mac and verifharness/ref/apdu only and imports
// nothing from gmrtd.
//
// Message structure (9303-11 §9.8.4):
//
//	command : 0C INS P1 P2 Lc' [DO85|DO87] [DO97] DO8E Le'     (Le' = 00 / 0000)
//	response: [DO85|DO87] [DO99] DO8E SW1 SW2
//
//	DO87 = 87 L 01 || E(KSenc, pad(data))     even INS
//	DO85 = 85 L 01 || E(KSenc, pad(data))     odd INS (see DO85NoIndicator)
//	DO97 = 97 L Le   (L = 1 short, 2 extended; 00 = 256, 0000 = 65536)
//	DO99 = 99 02 SW1 SW2
//	DO8E = 8E 08 MAC(KSmac, pad(SSC || [pad(0C INS P1 P2)] || DOs))
//
// The send sequence counter is incremented (wrapping to zero past all-ones)
// before every command and before every response.  3DES: IV zero, retail MAC,
// block 8.  AES: IV = E(KSenc, SSC), CMAC truncated to 8, block 16.
//
// Counter policy on errors: UnwrapCommand and UnwrapResponse increment the SSC
// first and leave it incremented when they fail.  A real chip would abort the
// session at that point; callers that want to continue must Clone() before.
package sm

import (
	"bytes"
	"encoding/hex"
	"errors"
	"fmt"

	"verifharness/ref/apdu"
	"verifharness/ref/mac"
)

// Session is one side's secure-messaging state.
type Session struct {
	Cipher mac.Cipher
	KEnc   []byte
	KMac   []byte
	SSC    []byte // 8 bytes for 3DES, 16 for AES

	// DO85NoIndicator selects the strict ISO/IEC 7816-4 reading of DO'85'
	// (plain cryptogram, no padding-content indicator).  The default (false)
	// follows the wording of the property under test and of the library:
	// DO'85' carries the same 01 indicator as DO'87'.
	DO85NoIndicator bool
}

// New copies its arguments.  It panics on wrong key / SSC lengths (harness bug).
func New(c mac.Cipher, kenc, kmac, ssc []byte) *Session {
	if len(kenc) != c.KeyLen() || len(kmac) != c.KeyLen() {
		panic(fmt.Sprintf("sm: key lengths %d/%d for %s", len(kenc), len(kmac), c))
	}
	if len(ssc) != c.BlockLen() {
		panic(fmt.Sprintf("sm: SSC of %d bytes for %s", len(ssc), c))
	}
	return &Session{Cipher: c, KEnc: clone(kenc), KMac: clone(kmac), SSC: clone(ssc)}
}

func clone(b []byte) []byte { return append([]byte{}, b...) }

// Clone returns an independent copy (keys and counter).
func (s *Session) Clone() *Session {
	return &Session{Cipher: s.Cipher, KEnc: clone(s.KEnc), KMac: clone(s.KMac), SSC: clone(s.SSC), DO85NoIndicator: s.DO85NoIndicator}
}

// IncSSC adds one to a big-endian counter in place, wrapping to zero.
func IncSSC(ssc []byte) {
	for i := len(ssc) - 1; i >= 0; i-- {
		ssc[i]++
		if ssc[i] != 0 {
			return
		}
	}
}

// SSCPlus returns ssc+n (copy, wrapping).
func SSCPlus(ssc []byte, n int) []byte {
	out := clone(ssc)
	for i := 0; i < n; i++ {
		IncSSC(out)
	}
	return out
}

func (s *Session) block() int { return s.Cipher.BlockLen() }

func (s *Session) iv() []byte {
	if s.Cipher.IsAES() {
		return mac.AESECBEncryptBlock(s.KEnc, s.SSC)
	}
	return make([]byte, 8)
}

func (s *Session) encrypt(padded []byte) []byte {
	if s.Cipher.IsAES() {
		return mac.AESCBCEncrypt(s.KEnc, s.iv(), padded)
	}
	return mac.TDESCBCEncrypt(s.KEnc, s.iv(), padded)
}

func (s *Session) decrypt(ct []byte) []byte {
	if s.Cipher.IsAES() {
		return mac.AESCBCDecrypt(s.KEnc, s.iv(), ct)
	}
	return mac.TDESCBCDecrypt(s.KEnc, s.iv(), ct)
}

// mac8 = MAC over SSC || body (padded by MAC8).
func (s *Session) mac8(body []byte) []byte {
	in := append(clone(s.SSC), body...)
	return mac.MAC8(s.Cipher, s.KMac, in)
}

// ---------------------------------------------------------------- data objects

// DO is one secure-messaging data object as found in a data field.
type DO struct {
	Tag        byte
	Value      []byte
	Raw        []byte // tag, length and value octets exactly as encoded
	NonMinimal bool   // length used more octets than necessary
}

// BERLen encodes a definite BER-TLV length in the shortest form.
func BERLen(n int) []byte {
	switch {
	case n < 0x80:
		return []byte{byte(n)}
	case n < 0x100:
		return []byte{0x81, byte(n)}
	case n < 0x10000:
		return []byte{0x82, byte(n >> 8), byte(n)}
	default:
		return []byte{0x83, byte(n >> 16), byte(n >> 8), byte(n)}
	}
}

// EncodeDO builds tag || shortest length || value.
func EncodeDO(tag byte, value []byte) []byte {
	out := []byte{tag}
	out = append(out, BERLen(len(value))...)
	return append(out, value...)
}

// SplitDOs parses a data field as a sequence of single-byte-tag BER-TLV data
// objects with definite lengths (1, 81, 82 or 83 form).  Nothing may remain.
func SplitDOs(b []byte) ([]DO, error) {
	var out []DO
	for i := 0; i < len(b); {
		start := i
		tag := b[i]
		if tag&0x1F == 0x1F {
			return nil, fmt.Errorf("sm: multi-byte tag %02x at %d", tag, i)
		}
		i++
		if i >= len(b) {
			return nil, errors.New("sm: data object without length")
		}
		l := int(b[i])
		i++
		nonMin := false
		if l >= 0x80 {
			k := l & 0x7F
			if k < 1 || k > 3 {
				return nil, fmt.Errorf("sm: unsupported length form %02x", l)
			}
			if i+k > len(b) {
				return nil, errors.New("sm: truncated length")
			}
			l = 0
			for j := 0; j < k; j++ {
				l = l<<8 | int(b[i+j])
			}
			i += k
			nonMin = len(BERLen(l)) != 1+k
		}
		if i+l > len(b) {
			return nil, fmt.Errorf("sm: data object %02x of length %d exceeds the field", tag, l)
		}
		out = append(out, DO{Tag: tag, Value: clone(b[i : i+l]), Raw: clone(b[start : i+l]), NonMinimal: nonMin})
		i += l
	}
	return out, nil
}

// ---------------------------------------------------------------- chip side

// Unwrapped is what the chip learns from a protected command.
type Unwrapped struct {
	CLA, INS, P1, P2 byte   // header as received (CLA = 0C)
	Data             []byte // decrypted, unpadded command data (nil if no DO85/87)
	Ne               int    // from DO97; 0 = absent, 1..65536
	HasDO85, HasDO87 bool
	HasDO97          bool
	DO97             []byte // value of DO97 as received
	Order            []byte // tags in the order seen
	PaddingIndicator byte   // first value octet of DO87 / DO85 (0 if absent or strict DO85)
	Extended         bool   // the protected APDU used extended length fields
	ProtectedNe      int    // Le' of the protected APDU (0 = absent)
	ProtectedNc      int    // Lc' of the protected APDU
	NonMinimal       bool   // some data object length was not in its shortest form
	Case             string // ISO 7816-4 case of the protected APDU
}

// UnwrapCommand is the chip's processing of a protected command APDU:
// SSC+1, ISO 7816-4 parse, CLA = 0C, data objects [85|87] [97] 8E in exactly
// that order and at most once each, tag 85/87 matching INS parity, DO8E of 8
// bytes equal to the MAC over SSC || pad(header) || DO85/87 || DO97, then
// decryption and unpadding.  The SSC stays incremented on error.
func (s *Session) UnwrapCommand(raw []byte) (*Unwrapped, error) {
	IncSSC(s.SSC)
	c, err := apdu.Parse(raw)
	if err != nil {
		return nil, fmt.Errorf("sm: %w", err)
	}
	u := &Unwrapped{CLA: c.CLA, INS: c.INS, P1: c.P1, P2: c.P2, Extended: c.Extended, ProtectedNe: c.Ne, ProtectedNc: len(c.Data), Case: c.Case}
	if c.CLA != 0x0C {
		return u, fmt.Errorf("sm: class %02x is not 0C", c.CLA)
	}
	if len(c.Data) == 0 {
		return u, errors.New("sm: protected command without data field")
	}
	dos, err := SplitDOs(c.Data)
	if err != nil {
		return u, err
	}
	// order / uniqueness: stage 0 -> [85|87] -> 1 -> [97] -> 2 -> 8E -> 3
	stage := 0
	var doData, do97, do8e *DO
	for i := range dos {
		d := &dos[i]
		u.Order = append(u.Order, d.Tag)
		u.NonMinimal = u.NonMinimal || d.NonMinimal
		switch d.Tag {
		case 0x85, 0x87:
			if stage > 0 {
				return u, fmt.Errorf("sm: DO%02X out of order or repeated (order %x)", d.Tag, u.Order)
			}
			stage, doData = 1, d
		case 0x97:
			if stage > 1 {
				return u, fmt.Errorf("sm: DO97 out of order or repeated (order %x)", u.Order)
			}
			stage, do97 = 2, d
		case 0x8E:
			if stage > 2 {
				return u, fmt.Errorf("sm: DO8E repeated (order %x)", u.Order)
			}
			stage, do8e = 3, d
		default:
			return u, fmt.Errorf("sm: unexpected data object %02x in a command", d.Tag)
		}
	}
	if do8e == nil {
		return u, errors.New("sm: DO8E missing")
	}
	if dos[len(dos)-1].Tag != 0x8E {
		return u, errors.New("sm: DO8E is not the last data object")
	}
	if len(do8e.Value) != 8 {
		return u, fmt.Errorf("sm: DO8E of %d bytes", len(do8e.Value))
	}
	// MAC
	m := mac.PadM2([]byte{0x0C, c.INS, c.P1, c.P2}, s.block())
	if doData != nil {
		m = append(m, doData.Raw...)
	}
	if do97 != nil {
		m = append(m, do97.Raw...)
	}
	if want := s.mac8(m); !bytes.Equal(want, do8e.Value) {
		return u, fmt.Errorf("sm: command MAC mismatch (got %x want %x under SSC %x)", do8e.Value, want, s.SSC)
	}
	// DO97
	if do97 != nil {
		u.HasDO97, u.DO97 = true, clone(do97.Value)
		switch len(do97.Value) {
		case 1:
			u.Ne = int(do97.Value[0])
			if u.Ne == 0 {
				u.Ne = 256
			}
		case 2:
			u.Ne = int(do97.Value[0])<<8 | int(do97.Value[1])
			if u.Ne == 0 {
				u.Ne = 65536
			}
		default:
			return u, fmt.Errorf("sm: DO97 of %d bytes", len(do97.Value))
		}
	}
	// DO85 / DO87
	if doData != nil {
		u.HasDO85, u.HasDO87 = doData.Tag == 0x85, doData.Tag == 0x87
		if odd := c.INS&1 == 1; odd != u.HasDO85 {
			return u, fmt.Errorf("sm: DO%02X used with INS %02x (even INS needs 87, odd INS 85)", doData.Tag, c.INS)
		}
		pt, pi, err := s.openCryptogram(doData)
		if err != nil {
			return u, err
		}
		u.Data, u.PaddingIndicator = pt, pi
	}
	return u, nil
}

func (s *Session) openCryptogram(d *DO) (plain []byte, indicator byte, err error) {
	ct := d.Value
	if d.Tag == 0x87 || !s.DO85NoIndicator {
		if len(ct) < 1 {
			return nil, 0, fmt.Errorf("sm: empty DO%02X", d.Tag)
		}
		indicator = ct[0]
		if indicator != 0x01 {
			return nil, indicator, fmt.Errorf("sm: padding-content indicator %02x in DO%02X", indicator, d.Tag)
		}
		ct = ct[1:]
	}
	if len(ct) == 0 || len(ct)%s.block() != 0 {
		return nil, indicator, fmt.Errorf("sm: cryptogram of %d bytes in DO%02X", len(ct), d.Tag)
	}
	plain, err = mac.UnpadM2(s.decrypt(ct))
	if err != nil {
		return nil, indicator, fmt.Errorf("sm: DO%02X plaintext: %w", d.Tag, err)
	}
	return plain, indicator, nil
}

func (s *Session) sealCryptogram(tag byte, data []byte) []byte {
	ct := s.encrypt(mac.PadM2(data, s.block()))
	if tag == 0x87 || !s.DO85NoIndicator {
		ct = append([]byte{0x01}, ct...)
	}
	return EncodeDO(tag, ct)
}

// ResponseParts are the building blocks of a genuine protected response, for
// callers that want to assemble variations of it.
type ResponseParts struct {
	DOData []byte // encoded DO87 / DO85, nil when there is no response data
	DO99   []byte
	DO8E   []byte
	SW     uint16
}

// Bytes is the genuine response APDU.
func (p ResponseParts) Bytes() []byte {
	out := clone(p.DOData)
	out = append(out, p.DO99...)
	out = append(out, p.DO8E...)
	return append(out, byte(p.SW>>8), byte(p.SW))
}

// WrapResponseParts is the chip's protection of (data, sw): SSC+1, DO87 (or
// DO85 when useDO85) when data is non-empty, DO99 with the status, DO8E with
// the MAC over SSC || DO87 || DO99.
func (s *Session) WrapResponseParts(data []byte, sw uint16, useDO85 bool) ResponseParts {
	IncSSC(s.SSC)
	var p ResponseParts
	p.SW = sw
	if len(data) > 0 {
		tag := byte(0x87)
		if useDO85 {
			tag = 0x85
		}
		p.DOData = s.sealCryptogram(tag, data)
	}
	p.DO99 = []byte{0x99, 0x02, byte(sw >> 8), byte(sw)}
	m := append(clone(p.DOData), p.DO99...)
	p.DO8E = EncodeDO(0x8E, s.mac8(m))
	return p
}

// WrapResponse returns the protected response APDU (see WrapResponseParts).
func (s *Session) WrapResponse(data []byte, sw uint16, useDO85 bool) []byte {
	return s.WrapResponseParts(data, sw, useDO85).Bytes()
}

// ---------------------------------------------------------------- terminal side

// WrapCommand is the terminal's protection of a command: SSC+1, DO87 (even
// INS) / DO85 (odd INS) when data is non-empty, DO97 when ne > 0 (one octet if
// the unprotected command is short, two if it is extended), DO8E, class 0C,
// Le' = 00 for a short and 0000 for an extended protected APDU.  The protected
// APDU is extended when the unprotected one is, or when its data field exceeds
// 255 bytes.
func (s *Session) WrapCommand(cla, ins, p1, p2 byte, data []byte, ne int) []byte {
	_ = cla // the protected class is always 0C
	IncSSC(s.SSC)
	origExt := len(data) > 255 || ne > 256
	var body []byte
	if len(data) > 0 {
		tag := byte(0x87)
		if ins&1 == 1 {
			tag = 0x85
		}
		body = append(body, s.sealCryptogram(tag, data)...)
	}
	if ne > 0 {
		if origExt {
			body = append(body, 0x97, 0x02, byte(ne>>8), byte(ne))
		} else {
			body = append(body, 0x97, 0x01, byte(ne))
		}
	}
	m := append(mac.PadM2([]byte{0x0C, ins, p1, p2}, s.block()), body...)
	body = append(body, EncodeDO(0x8E, s.mac8(m))...)
	le := 256
	if origExt || len(body) > 255 {
		le = 65536
	}
	return apdu.Encode(0x0C, ins, p1, p2, body, le)
}

// UnwrapResponse is the terminal's processing of a protected response: SSC+1,
// data objects [85|87] [99] 8E in that order, at most once each, DO99 and DO8E
// mandatory, MAC over SSC || DO85/87 || DO99, DO99 equal to the outer status,
// decryption and unpadding.  The SSC stays incremented on error.
func (s *Session) UnwrapResponse(rsp []byte) (data []byte, sw uint16, err error) {
	IncSSC(s.SSC)
	body, outer, err := apdu.SplitResponse(rsp)
	if err != nil {
		return nil, 0, err
	}
	dos, err := SplitDOs(body)
	if err != nil {
		return nil, outer, err
	}
	stage := 0
	var doData, do99, do8e *DO
	for i := range dos {
		d := &dos[i]
		switch d.Tag {
		case 0x85, 0x87:
			if stage > 0 {
				return nil, outer, fmt.Errorf("sm: DO%02X out of order or repeated", d.Tag)
			}
			stage, doData = 1, d
		case 0x99:
			if stage > 1 {
				return nil, outer, errors.New("sm: DO99 out of order or repeated")
			}
			stage, do99 = 2, d
		case 0x8E:
			if stage > 2 {
				return nil, outer, errors.New("sm: DO8E repeated")
			}
			stage, do8e = 3, d
		default:
			return nil, outer, fmt.Errorf("sm: unexpected data object %02x in a response", d.Tag)
		}
	}
	if do8e == nil || do99 == nil {
		return nil, outer, errors.New("sm: DO99 or DO8E missing")
	}
	if dos[len(dos)-1].Tag != 0x8E || len(do8e.Value) != 8 || len(do99.Value) != 2 {
		return nil, outer, errors.New("sm: malformed DO99 / DO8E")
	}
	var m []byte
	if doData != nil {
		m = append(m, doData.Raw...)
	}
	m = append(m, do99.Raw...)
	if want := s.mac8(m); !bytes.Equal(want, do8e.Value) {
		return nil, outer, fmt.Errorf("sm: response MAC mismatch (got %x want %x)", do8e.Value, want)
	}
	sw = uint16(do99.Value[0])<<8 | uint16(do99.Value[1])
	if sw != outer {
		return nil, outer, fmt.Errorf("sm: protected status %04x differs from outer status %04x", sw, outer)
	}
	if doData != nil {
		data, _, err = s.openCryptogram(doData)
		if err != nil {
			return nil, sw, err
		}
	}
	return data, sw, nil
}

// ---------------------------------------------------------------- self test

func unhex(s string) []byte {
	b, err := hex.DecodeString(s)
	if err != nil {
		panic(err)
	}
	return b
}

// SelfTest reproduces the ICAO 9303-11 Appendix D.4 worked example (3DES) on
// both sides, two AES-128 exchanges recorded from a genuine PACE session (as
// quoted in gmrtd's test data), and round trips for every suite.  It also
// runs mac.SelfTest.
func SelfTest() error {
	if err := mac.SelfTest(); err != nil {
		return err
	}
	kenc, kmac := unhex("979EC13B1CBFE9DCD01AB0FED307EAE5"), unhex("F1CB1F1FB5ADF208806B89DC579DC1F8")
	ssc := unhex("887022120C06C226")
	type step struct {
		ins, p1, p2 byte
		data        string
		ne          int
		capdu       string
		rdata       string
		rapdu       string
	}
	steps := []step{
		{0xA4, 0x02, 0x0C, "011E", 0, "0CA4020C158709016375432908C044F68E08BF8B92D635FF24F800", "", "990290008E08FA855A5D4C50A8ED9000"},
		{0xB0, 0x00, 0x00, "", 4, "0CB000000D9701048E08ED6705417E96BA5500", "60145F01", "8709019FF0EC34F9922651990290008E08AD55CC17140B2DED9000"},
		{0xB0, 0x00, 0x04, "", 0x12, "0CB000040D9701128E082EA28A70F3C7B53500", "04303130365F36063034303030305C026175", "871901FB9235F4E4037F2327DCC8964F1F9B8C30F42C8E2FFF224A990290008E08C8B2787EAEA07D749000"},
	}
	term, chip := New(mac.TDES, kenc, kmac, ssc), New(mac.TDES, kenc, kmac, ssc)
	for i, st := range steps {
		got := term.WrapCommand(0x00, st.ins, st.p1, st.p2, unhex(st.data), st.ne)
		if !bytes.Equal(got, unhex(st.capdu)) {
			return fmt.Errorf("sm KAT step %d: WrapCommand %x want %s", i, got, st.capdu)
		}
		u, err := chip.UnwrapCommand(unhex(st.capdu))
		if err != nil {
			return fmt.Errorf("sm KAT step %d: UnwrapCommand: %v", i, err)
		}
		if u.INS != st.ins || u.P1 != st.p1 || u.P2 != st.p2 || !bytes.Equal(u.Data, unhex(st.data)) || u.Ne != st.ne || u.ProtectedNe != 256 {
			return fmt.Errorf("sm KAT step %d: unwrapped %+v", i, u)
		}
		r := chip.WrapResponse(unhex(st.rdata), 0x9000, false)
		if !bytes.Equal(r, unhex(st.rapdu)) {
			return fmt.Errorf("sm KAT step %d: WrapResponse %x want %s", i, r, st.rapdu)
		}
		d, sw, err := term.UnwrapResponse(unhex(st.rapdu))
		if err != nil || sw != 0x9000 || !bytes.Equal(d, unhex(st.rdata)) {
			return fmt.Errorf("sm KAT step %d: UnwrapResponse %x %04x %v", i, d, sw, err)
		}
	}
	if !bytes.Equal(term.SSC, unhex("887022120C06C22C")) || !bytes.Equal(chip.SSC, term.SSC) {
		return fmt.Errorf("sm KAT: final SSC %x / %x", term.SSC, chip.SSC)
	}

	// AES-128, genuine chip traces (PACE-CAM session): one command, one response
	{
		ke, km := unhex("cc86415f2ed7e8fd663b754265695ae1"), unhex("581e84b8ee06c4d3eee30461498d7fb3")
		t := New(mac.AES128, ke, km, unhex("000000000000000000000000000000ba"))
		want := unhex("0c2241a41d871101980953d37f67558690045d78a853b18a8e08929767a2cef172e200")
		if got := t.WrapCommand(0, 0x22, 0x41, 0xa4, unhex("800a04007f000702020302028401c3"), 0); !bytes.Equal(got, want) {
			return fmt.Errorf("sm AES KAT: WrapCommand %x", got)
		}
		c := New(mac.AES128, ke, km, unhex("000000000000000000000000000000ba"))
		u, err := c.UnwrapCommand(want)
		if err != nil || !bytes.Equal(u.Data, unhex("800a04007f000702020302028401c3")) || u.Ne != 0 {
			return fmt.Errorf("sm AES KAT: UnwrapCommand %v", err)
		}
	}
	{
		ke, km := unhex("a8e85e938514ec67ae33cda3d43d3c48"), unhex("27f1adeb705a049a305b0c619b14b9b3")
		t := New(mac.AES128, ke, km, make([]byte, 16))
		// first exchanges after PACE (SSC starts at zero): SELECT EF, READ BINARY of 4 bytes
		cmd := unhex("0ca4020c1d87110147ee2e3bd440fb596167f2bb6cd6395e8e08a105747484314bcf00")
		c := t.Clone()
		u, err := c.UnwrapCommand(cmd)
		if err != nil || u.INS != 0xA4 || len(u.Data) != 2 {
			return fmt.Errorf("sm AES KAT 2: UnwrapCommand %v", err)
		}
		if got := t.WrapCommand(0, 0xA4, 0x02, 0x0C, u.Data, 0); !bytes.Equal(got, cmd) {
			return fmt.Errorf("sm AES KAT 2: WrapCommand %x", got)
		}
		rsp := unhex("990290008e085f570baddd1002d29000")
		if got := c.WrapResponse(nil, 0x9000, false); !bytes.Equal(got, rsp) {
			return fmt.Errorf("sm AES KAT 2: WrapResponse %x", got)
		}
		if _, sw, err := t.UnwrapResponse(rsp); err != nil || sw != 0x9000 {
			return fmt.Errorf("sm AES KAT 2: UnwrapResponse %v", err)
		}
		// READ BINARY 4 bytes
		cmd2 := unhex("0cb000000d9701048e085d283ec183cbb99800")
		if got := t.WrapCommand(0, 0xB0, 0, 0, nil, 4); !bytes.Equal(got, cmd2) {
			return fmt.Errorf("sm AES KAT 2: WrapCommand(RB) %x", got)
		}
		if u, err := c.UnwrapCommand(cmd2); err != nil || u.Ne != 4 {
			return fmt.Errorf("sm AES KAT 2: UnwrapCommand(RB) %v", err)
		}
		rsp2 := unhex("871101d688d27a6d16f03619e76dcb59c1f1ec990290008e08b7df9a5982bb17299000")
		d, sw, err := t.UnwrapResponse(rsp2)
		if err != nil || sw != 0x9000 || len(d) != 4 {
			return fmt.Errorf("sm AES KAT 2: UnwrapResponse(RB) %x %v", d, err)
		}
		if got := c.WrapResponse(d, 0x9000, false); !bytes.Equal(got, rsp2) {
			return fmt.Errorf("sm AES KAT 2: WrapResponse(RB) %x", got)
		}
	}

	// round trips, every suite, counter about to wrap, all command cases
	for _, cs := range mac.Ciphers {
		ke, km := make([]byte, cs.KeyLen()), make([]byte, cs.KeyLen())
		for i := range ke {
			ke[i], km[i] = byte(3*i+1), byte(7*i+5)
		}
		s0 := bytes.Repeat([]byte{0xFF}, cs.BlockLen())
		s0[len(s0)-1] = 0xFD
		t, c := New(cs, ke, km, s0), New(cs, ke, km, s0)
		for i, n := range []int{0, 1, 7, 8, 15, 16, 17, 230, 255, 256, 1000} {
			data := bytes.Repeat([]byte{byte(i), 0x80, 0x00}, n)[:n]
			for _, ne := range []int{0, 1, 256, 257, 65536} {
				ins := byte(0xB0 + i%2)
				w := t.WrapCommand(0, ins, byte(i), byte(ne), data, ne)
				u, err := c.UnwrapCommand(w)
				if err != nil {
					return fmt.Errorf("sm round trip %s n=%d ne=%d: %v", cs, n, ne, err)
				}
				if !bytes.Equal(u.Data, data) || u.Ne != ne || u.INS != ins || (n > 0 && u.HasDO85 != (ins&1 == 1)) {
					return fmt.Errorf("sm round trip %s n=%d ne=%d: %+v", cs, n, ne, u)
				}
				wantLe := 256
				if u.Extended {
					wantLe = 65536
				}
				if u.ProtectedNe != wantLe {
					return fmt.Errorf("sm round trip %s: Le' %d", cs, u.ProtectedNe)
				}
				r := c.WrapResponse(data, uint16(0x6000+n), ins&1 == 1)
				d, sw, err := t.UnwrapResponse(r)
				if err != nil || sw != uint16(0x6000+n) || !bytes.Equal(d, data) {
					return fmt.Errorf("sm round trip %s n=%d: response %v", cs, n, err)
				}
				if !bytes.Equal(t.SSC, c.SSC) {
					return fmt.Errorf("sm round trip: SSC diverged")
				}
			}
		}
		// wrapped at least once
		if t.SSC[0] != 0 {
			return fmt.Errorf("sm: SSC did not wrap (%x)", t.SSC)
		}
		// tampering is detected
		w := t.WrapCommand(0, 0xB0, 0, 0, []byte{1, 2, 3}, 5)
		w[len(w)-3] ^= 1
		if _, err := c.UnwrapCommand(w); err == nil {
			return errors.New("sm: tampered command accepted")
		}
	}
	if x := SSCPlus(unhex("00ffffff"), 1); !bytes.Equal(x, unhex("01000000")) {
		return fmt.Errorf("SSCPlus %x", x)
	}
	if x := SSCPlus(unhex("ffffffff"), 2); !bytes.Equal(x, unhex("00000001")) {
		return fmt.Errorf("SSCPlus wrap %x", x)
	}
	return nil
}
