package sm

import "testing"

func TestSelfTest(t *testing.T) {
	if err := SelfTest(); err != nil {
		t.Fatal(err)
	}
}
