// Package mrz is an independent model of the ICAO Doc 9303 machine readable
// zone (parts 3 to 6) and of the "MRZ information" string that BAC and PACE
// use as the access key seed (part 11).  Standard library only; it must not
// import any gmrtd package.
//
// Layouts (1-based character positions as in the standard, line by line;
// the functions below work on the concatenated string without line breaks):
//
//	TD3 (9303-4, 2 x 44)                        TD2 (9303-6, 2 x 36)
//	 upper  1-2   document code                  upper  1-2   document code
//	        3-5   issuing State                         3-5   issuing State
//	        6-44  name                                  6-36  name
//	 lower  1-9   passport number                lower  1-9   document number
//	        10    check digit                           10    check digit ('<' = truncated number)
//	        11-13 nationality                           11-13 nationality
//	        14-19 date of birth, 20 check digit         14-19 date of birth, 20 check digit
//	        21    sex                                   21    sex
//	        22-27 date of expiry, 28 check digit        22-27 date of expiry, 28 check digit
//	        29-42 personal number / optional            29-35 optional data
//	        43    check digit ('<' or '0' if unused)    36    composite over lower 1-10,14-20,22-35
//	        44    composite over lower 1-10,14-20,22-43
//
//	TD1 (9303-5, 3 x 30)
//	 upper  1-2 document code, 3-5 issuing State, 6-14 document number,
//	        15 check digit ('<' = truncated number), 16-30 optional data
//	 middle 1-6 date of birth, 7 check digit, 8 sex, 9-14 date of expiry,
//	        15 check digit, 16-18 nationality, 19-29 optional data (2),
//	        30 composite over upper 6-30, middle 1-7, 9-15, 19-29
//	 lower  1-30 name
//
// Long document numbers (9303-5 / 9303-6, note on the document number): when
// the number has more than 9 characters the 9 principal characters stand in
// the number field, the check digit position holds '<', and the remaining
// characters followed by the check digit (over the whole number) and a filler
// stand at the beginning of the optional data field.  TD1: 15 positions =>
// at most 13 remaining characters (22 in total); TD2: 7 positions => at most 5
// (14 in total).  TD3 has no such form.
package mrz

import (
	"crypto/sha1"
	"errors"
	"fmt"
	"strings"
)

const (
	LenTD1 = 90
	LenTD2 = 72
	LenTD3 = 88
)

// Alphabet is the MRZ character set in the order used by the checks
// (37 symbols).
const Alphabet = "0123456789ABCDEFGHIJKLMNOPQRSTUVWXYZ<"

// InAlphabet reports whether every byte of s is one of [A-Z0-9<].
func InAlphabet(s string) bool {
	for i := 0; i < len(s); i++ {
		if !isSym(s[i]) {
			return false
		}
	}
	return true
}

func isSym(c byte) bool   { return c == '<' || isDigit(c) || isLetter(c) }
func isDigit(c byte) bool { return c >= '0' && c <= '9' }
func isLetter(c byte) bool {
	return c >= 'A' && c <= 'Z'
}

func charValue(c byte) int {
	switch {
	case isDigit(c):
		return int(c - '0')
	case isLetter(c):
		return int(c-'A') + 10
	}
	return 0 // '<' (and anything outside the alphabet: callers test InAlphabet)
}

// CheckDigit is the ICAO 9303-3 check digit of s: weights 7,3,1 repeating,
// digits count as themselves, A..Z as 10..35, '<' as 0, sum modulo 10.  The
// result is the ASCII digit.
func CheckDigit(s string) byte {
	w := [3]int{7, 3, 1}
	sum := 0
	for i := 0; i < len(s); i++ {
		sum += charValue(s[i]) * w[i%3]
	}
	return byte('0' + sum%10)
}

// Empty reports whether a field consists of filler characters only.
func Empty(s string) bool { return strings.Trim(s, "<") == "" }

// Clean is the decoded ("fillers removed") form of a field: trailing fillers
// dropped, fillers inside the field turned into a space.
func Clean(s string) string {
	return strings.ReplaceAll(strings.TrimRight(s, "<"), "<", " ")
}

// ------------------------------------------------------------------ layouts

type span struct{ lo, hi int } // 0-based, half open, in the concatenated string

type layout struct {
	name                                   string
	length                                 int
	docCode, issuer, name_                 span
	docNo, nationality, dob, sex, expiry   span
	docNoCD, dobCD, expiryCD, optCD, compo int  // optCD = -1 when the layout has none
	opt1, opt2                             span // opt2.lo = -1 when absent
	composite                              []span
	extended                               bool // long document numbers continue in opt1
}

func sp(line, from, to, width int) span { // 1-based inclusive positions on a line
	return span{(line-1)*width + from - 1, (line-1)*width + to}
}

var (
	td1 = layout{
		name: "TD1", length: LenTD1,
		docCode: sp(1, 1, 2, 30), issuer: sp(1, 3, 5, 30),
		docNo: sp(1, 6, 14, 30), docNoCD: sp(1, 15, 15, 30).lo, opt1: sp(1, 16, 30, 30),
		dob: sp(2, 1, 6, 30), dobCD: sp(2, 7, 7, 30).lo, sex: sp(2, 8, 8, 30),
		expiry: sp(2, 9, 14, 30), expiryCD: sp(2, 15, 15, 30).lo,
		nationality: sp(2, 16, 18, 30), opt2: sp(2, 19, 29, 30), optCD: -1,
		compo:     sp(2, 30, 30, 30).lo,
		name_:     sp(3, 1, 30, 30),
		composite: []span{sp(1, 6, 30, 30), sp(2, 1, 7, 30), sp(2, 9, 15, 30), sp(2, 19, 29, 30)},
		extended:  true,
	}
	td2 = layout{
		name: "TD2", length: LenTD2,
		docCode: sp(1, 1, 2, 36), issuer: sp(1, 3, 5, 36), name_: sp(1, 6, 36, 36),
		docNo: sp(2, 1, 9, 36), docNoCD: sp(2, 10, 10, 36).lo, nationality: sp(2, 11, 13, 36),
		dob: sp(2, 14, 19, 36), dobCD: sp(2, 20, 20, 36).lo, sex: sp(2, 21, 21, 36),
		expiry: sp(2, 22, 27, 36), expiryCD: sp(2, 28, 28, 36).lo,
		opt1: sp(2, 29, 35, 36), opt2: span{-1, -1}, optCD: -1,
		compo:     sp(2, 36, 36, 36).lo,
		composite: []span{sp(2, 1, 10, 36), sp(2, 14, 20, 36), sp(2, 22, 35, 36)},
		extended:  true,
	}
	td3 = layout{
		name: "TD3", length: LenTD3,
		docCode: sp(1, 1, 2, 44), issuer: sp(1, 3, 5, 44), name_: sp(1, 6, 44, 44),
		docNo: sp(2, 1, 9, 44), docNoCD: sp(2, 10, 10, 44).lo, nationality: sp(2, 11, 13, 44),
		dob: sp(2, 14, 19, 44), dobCD: sp(2, 20, 20, 44).lo, sex: sp(2, 21, 21, 44),
		expiry: sp(2, 22, 27, 44), expiryCD: sp(2, 28, 28, 44).lo,
		opt1: sp(2, 29, 42, 44), optCD: sp(2, 43, 43, 44).lo, opt2: span{-1, -1},
		compo:     sp(2, 44, 44, 44).lo,
		composite: []span{sp(2, 1, 10, 44), sp(2, 14, 20, 44), sp(2, 22, 43, 44)},
	}
)

func layoutByName(n string) *layout {
	switch n {
	case "TD1":
		return &td1
	case "TD2":
		return &td2
	case "TD3":
		return &td3
	}
	return nil
}

func layoutByLen(n int) *layout {
	switch n {
	case LenTD1:
		return &td1
	case LenTD2:
		return &td2
	case LenTD3:
		return &td3
	}
	return nil
}

// LayoutOfLength names the layout of an MRZ of n characters ("" if none).
func LayoutOfLength(n int) string {
	if l := layoutByLen(n); l != nil {
		return l.name
	}
	return ""
}

// Length is the number of characters of a layout (0 if unknown).
func Length(layoutName string) int {
	if l := layoutByName(layoutName); l != nil {
		return l.length
	}
	return 0
}

// NameCapacity / OptCapacity / MaxDocNo describe the field sizes of a layout.
func NameCapacity(layoutName string) int {
	l := layoutByName(layoutName)
	return l.name_.hi - l.name_.lo
}

// OptCapacity returns the sizes of the first and second optional data fields
// (the second is 0 for TD2 and TD3).
func OptCapacity(layoutName string) (int, int) {
	l := layoutByName(layoutName)
	o2 := 0
	if l.opt2.lo >= 0 {
		o2 = l.opt2.hi - l.opt2.lo
	}
	return l.opt1.hi - l.opt1.lo, o2
}

// MaxDocNo is the longest document number the layout can carry (TD1 22,
// TD2 14, TD3 9).
func MaxDocNo(layoutName string) int {
	l := layoutByName(layoutName)
	if !l.extended {
		return 9
	}
	return 9 + (l.opt1.hi - l.opt1.lo) - 2
}

// FieldAt names the field that owns the 0-based position pos of an MRZ of the
// given layout (for classifying mutations).
func FieldAt(layoutName string, pos int) string {
	l := layoutByName(layoutName)
	if l == nil || pos < 0 || pos >= l.length {
		return "none"
	}
	in := func(s span) bool { return s.lo >= 0 && pos >= s.lo && pos < s.hi }
	switch {
	case in(l.docCode):
		return "doccode"
	case in(l.issuer):
		return "issuer"
	case in(l.name_):
		return "name"
	case in(l.docNo):
		return "docno"
	case pos == l.docNoCD:
		return "docno-cd"
	case in(l.nationality):
		return "nationality"
	case in(l.dob):
		return "dob"
	case pos == l.dobCD:
		return "dob-cd"
	case in(l.sex):
		return "sex"
	case in(l.expiry):
		return "expiry"
	case pos == l.expiryCD:
		return "expiry-cd"
	case in(l.opt1):
		return "opt1"
	case in(l.opt2):
		return "opt2"
	case pos == l.optCD:
		return "opt-cd"
	case pos == l.compo:
		return "composite-cd"
	}
	return "none"
}

// ------------------------------------------------------------------ building

// Fields is the logical content of an MRZ (no padding fillers).
type Fields struct {
	Layout  string // "TD1", "TD2", "TD3"
	DocCode string // 1..2 characters
	Issuer  string // 1..3 characters
	Surname string // primary identifier, components separated by a single '<'
	Given   string // secondary identifier (may be empty), same convention
	// DocNo: 1..9 characters normally; longer numbers use the truncated form
	// (TD1 up to 22, TD2 up to 14 characters).
	DocNo       string
	Nationality string
	DOB         string // YYMMDD, '<' for unknown parts
	Sex         string // "M", "F", "<" or ""
	Expiry      string // YYMMDD
	Opt1, Opt2  string // optional data (TD1 has two, TD2/TD3 one)
	// OptCheckZeroOrFiller: TD3 only, used when Opt1 is empty: the check digit
	// position 43 is written as this byte ('<' or '0'); 0 means '<'.
	OptCheckZeroOrFiller byte
}

func pad(s string, n int) string {
	if len(s) >= n {
		return s
	}
	return s + strings.Repeat("<", n-len(s))
}

// Build lays the fields out and computes every check digit.  The result is
// the MRZ without line breaks (90 / 72 / 88 characters).
func Build(f Fields) (string, error) {
	l := layoutByName(f.Layout)
	if l == nil {
		return "", fmt.Errorf("unknown layout %q", f.Layout)
	}
	for _, s := range []string{f.DocCode, f.Issuer, f.Surname, f.Given, f.DocNo, f.Nationality, f.DOB, f.Sex, f.Expiry, f.Opt1, f.Opt2} {
		if !InAlphabet(s) {
			return "", fmt.Errorf("symbol outside the MRZ alphabet in %q", s)
		}
	}
	b := []byte(strings.Repeat("<", l.length))
	put := func(sp span, v, what string) error {
		if len(v) > sp.hi-sp.lo {
			return fmt.Errorf("%s %q longer than %d", what, v, sp.hi-sp.lo)
		}
		copy(b[sp.lo:sp.hi], pad(v, sp.hi-sp.lo))
		return nil
	}
	if len(f.DocCode) < 1 || len(f.DocNo) < 1 || len(f.Surname) < 1 {
		return "", errors.New("document code, document number and primary identifier are mandatory")
	}
	if len(f.DOB) != 6 || len(f.Expiry) != 6 {
		return "", errors.New("dates must have 6 characters")
	}
	name := f.Surname
	if f.Given != "" {
		name += "<<" + f.Given
	}
	sex := f.Sex
	if sex == "" {
		sex = "<"
	}
	opt1 := f.Opt1
	docField, docCD := f.DocNo, CheckDigit(pad(f.DocNo, 9))
	if len(f.DocNo) > 9 {
		if !l.extended {
			return "", fmt.Errorf("%s cannot carry a document number of %d characters", l.name, len(f.DocNo))
		}
		tail := f.DocNo[9:]
		if strings.Contains(tail, "<") {
			return "", errors.New("filler inside the continuation of a long document number is not decodable")
		}
		docField, docCD = f.DocNo[:9], '<'
		opt1 = tail + string(CheckDigit(f.DocNo)) + "<" + f.Opt1
	}
	for _, e := range []error{
		put(l.docCode, f.DocCode, "document code"), put(l.issuer, f.Issuer, "issuer"),
		put(l.name_, name, "name"), put(l.docNo, docField, "document number"),
		put(l.nationality, f.Nationality, "nationality"), put(l.dob, f.DOB, "date of birth"),
		put(l.sex, sex, "sex"), put(l.expiry, f.Expiry, "date of expiry"),
		put(l.opt1, opt1, "optional data"),
	} {
		if e != nil {
			return "", e
		}
	}
	if l.opt2.lo >= 0 {
		if e := put(l.opt2, f.Opt2, "optional data 2"); e != nil {
			return "", e
		}
	} else if f.Opt2 != "" {
		return "", fmt.Errorf("%s has no second optional data field", l.name)
	}
	b[l.docNoCD] = docCD
	b[l.dobCD] = CheckDigit(string(b[l.dob.lo:l.dob.hi]))
	b[l.expiryCD] = CheckDigit(string(b[l.expiry.lo:l.expiry.hi]))
	if l.optCD >= 0 {
		o := string(b[l.opt1.lo:l.opt1.hi])
		if Empty(o) {
			switch f.OptCheckZeroOrFiller {
			case 0, '<':
				b[l.optCD] = '<'
			case '0':
				b[l.optCD] = '0'
			default:
				return "", errors.New("OptCheckZeroOrFiller must be '<' or '0'")
			}
		} else {
			b[l.optCD] = CheckDigit(o)
		}
	}
	b[l.compo] = CheckDigit(l.compositeData(string(b)))
	return string(b), nil
}

func (l *layout) compositeData(m string) string {
	var sb strings.Builder
	for _, s := range l.composite {
		sb.WriteString(m[s.lo:s.hi])
	}
	return sb.String()
}

func (l *layout) get(m string, s span) string {
	if s.lo < 0 {
		return ""
	}
	return m[s.lo:s.hi]
}

// ------------------------------------------------------------------ parsing

// Parsed is the reference slicing of an MRZ.  String fields are the raw
// character ranges (fillers kept); use Clean for the decoded form.
type Parsed struct {
	Layout       string
	DocCode      string
	Issuer       string
	NameOfHolder string
	// DocNo is the 9-character number field, or, for the truncated form, the
	// 9 principal characters followed by the continuation from optional data.
	DocNo       string
	Nationality string
	DOB         string
	Sex         string
	Expiry      string
	// Opt1 is the first optional data field; in the truncated document number
	// form it is what follows "<continuation><check digit><filler>".
	Opt1 string
	Opt2 string

	Extended    bool // truncated (long) document number form was used
	DocNoCheck  byte // the check digit that belongs to DocNo ('<' when there is none)
	DOBCheck    byte
	ExpiryCheck byte
	OptCheck    byte // TD3 only, 0 otherwise
	Composite   byte
	// CompositeData is the concatenation the composite check digit covers.
	CompositeData string

	// Primary / Secondary are the decoded identifiers (split at the first
	// "<<" of the name field, single fillers turned into spaces).
	Primary, Secondary string
}

// Report is the full verdict of the reference on one string.
type Report struct {
	Parsed *Parsed // nil when the length is not 90/72/88
	// OutOfDomain: a symbol outside [A-Z0-9<] stands in a position that enters
	// a check digit computation (or is a check digit).  The check digit rules
	// say nothing about such strings.
	OutOfDomain bool
	// Check lists disagreements the property forbids accepting: a NON-EMPTY
	// checked field whose check digit is not the ICAO check digit, and a
	// composite check digit that is not the ICAO check digit.
	Check []string
	// Structure lists everything else that makes the zone not well-formed
	// under ICAO 9303 (wrong alphabet for a field, check digit of an empty
	// field that is not an allowed value, malformed name, ...).
	Structure []string
}

// Valid: well-formed under ICAO 9303 with correct check digits.
func (r *Report) Valid() bool {
	return r.Parsed != nil && !r.OutOfDomain && len(r.Check) == 0 && len(r.Structure) == 0
}

// Validate returns the reference slicing and every violation (check digits
// first, then structure).  An empty list means the zone is well-formed under
// ICAO 9303 with correct check digits.
func Validate(m string) (*Parsed, []string) {
	r := Analyse(m)
	v := append([]string{}, r.Check...)
	v = append(v, r.Structure...)
	if r.OutOfDomain {
		v = append(v, "symbol outside the MRZ alphabet in a checked position")
	}
	return r.Parsed, v
}

// Analyse is Validate with the violations kept apart by kind.
func Analyse(m string) *Report {
	r := &Report{}
	l := layoutByLen(len(m))
	if l == nil {
		r.Structure = append(r.Structure, fmt.Sprintf("length %d is not 90, 72 or 88", len(m)))
		return r
	}
	p := &Parsed{
		Layout: l.name, DocCode: l.get(m, l.docCode), Issuer: l.get(m, l.issuer),
		NameOfHolder: l.get(m, l.name_), DocNo: l.get(m, l.docNo), Nationality: l.get(m, l.nationality),
		DOB: l.get(m, l.dob), Sex: l.get(m, l.sex), Expiry: l.get(m, l.expiry),
		Opt1: l.get(m, l.opt1), Opt2: l.get(m, l.opt2),
		DocNoCheck: m[l.docNoCD], DOBCheck: m[l.dobCD], ExpiryCheck: m[l.expiryCD], Composite: m[l.compo],
	}
	if l.optCD >= 0 {
		p.OptCheck = m[l.optCD]
	}
	p.CompositeData = l.compositeData(m)
	r.Parsed = p
	chk := func(f string, a ...any) { r.Check = append(r.Check, fmt.Sprintf(f, a...)) }
	str := func(f string, a ...any) { r.Structure = append(r.Structure, fmt.Sprintf(f, a...)) }

	// domain: everything that enters a check digit computation
	if !InAlphabet(p.CompositeData) || !isSym(p.Composite) {
		r.OutOfDomain = true
	}
	if !InAlphabet(m) {
		str("symbol outside [A-Z0-9<]")
	}

	// --- document number, including the truncated form
	principal := p.DocNo
	if l.extended && p.DocNoCheck == '<' {
		raw := l.get(m, l.opt1)
		idx := strings.IndexByte(raw, '<')
		if idx >= 2 {
			p.Extended = true
			p.DocNo = principal + raw[:idx-1]
			p.DocNoCheck = raw[idx-1]
			p.Opt1 = raw[idx+1:]
		}
	}
	switch {
	case p.Extended:
		if want := CheckDigit(p.DocNo); p.DocNoCheck != want {
			chk("document number %q (truncated form): check digit %q, ICAO %q", p.DocNo, p.DocNoCheck, want)
		}
		// A filler inside the 9 principal characters can only stand for a
		// separator of the printed number; that is accepted.
		if principal[0] == '<' {
			str("truncated document number whose principal part starts with a filler")
		}
		if !isDigit(p.DocNoCheck) {
			str("check digit of the truncated document number is %q", p.DocNoCheck)
		}
	case Empty(principal):
		// empty field: the property does not constrain its check digit
		str("document number is empty")
	default:
		if want := CheckDigit(principal); p.DocNoCheck != want {
			chk("document number %q: check digit %q, ICAO %q", principal, p.DocNoCheck, want)
		}
		if principal[0] == '<' {
			str("document number starts with a filler")
		}
	}

	// --- dates
	date := func(what, v string, cd byte, unknownAllowed bool) {
		want := CheckDigit(v)
		if !Empty(v) && cd != want {
			chk("%s %q: check digit %q, ICAO %q", what, v, cd, want)
		}
		if Empty(v) && cd != want {
			str("%s is empty and its check digit is %q, not 0", what, cd)
		}
		for i := 0; i < 6; i += 2 {
			pair := v[i : i+2]
			ok := isDigit(pair[0]) && isDigit(pair[1]) || unknownAllowed && pair == "<<"
			if !ok {
				str("%s %q is not YYMMDD", what, v)
				break
			}
		}
	}
	date("date of birth", p.DOB, p.DOBCheck, true)
	date("date of expiry", p.Expiry, p.ExpiryCheck, false)

	// --- TD3 personal number / optional data
	if l.optCD >= 0 {
		want := CheckDigit(p.Opt1)
		if Empty(p.Opt1) {
			if p.OptCheck != '<' && p.OptCheck != '0' {
				str("optional data is empty and its check digit is %q, not '<' or '0'", p.OptCheck)
			}
		} else if p.OptCheck != want {
			chk("optional data %q: check digit %q, ICAO %q", p.Opt1, p.OptCheck, want)
		}
	}

	// --- composite
	if want := CheckDigit(p.CompositeData); p.Composite != want {
		chk("composite over %q: check digit %q, ICAO %q", p.CompositeData, p.Composite, want)
	}

	// --- remaining structure
	if !isLetter(p.DocCode[0]) || !(isLetter(p.DocCode[1]) || p.DocCode[1] == '<') {
		str("document code %q", p.DocCode)
	}
	for _, c := range []struct{ what, v string }{{"issuing State", p.Issuer}, {"nationality", p.Nationality}} {
		t := strings.TrimRight(c.v, "<")
		if t == "" || !allLetters(t) {
			str("%s %q", c.what, c.v)
		}
	}
	if p.Sex != "M" && p.Sex != "F" && p.Sex != "<" {
		str("sex %q", p.Sex)
	}
	// name: PRIMARY[<<SECONDARY], components separated by single fillers
	nm := strings.TrimRight(p.NameOfHolder, "<")
	prim, sec := nm, ""
	if i := strings.Index(nm, "<<"); i >= 0 {
		prim, sec = nm[:i], nm[i+2:]
	}
	p.Primary, p.Secondary = strings.ReplaceAll(prim, "<", " "), strings.ReplaceAll(sec, "<", " ")
	if nm == "" || prim == "" || nm[0] == '<' || strings.Contains(sec, "<<") || strings.HasPrefix(sec, "<") ||
		!allLetters(strings.ReplaceAll(nm, "<", "")) {
		str("name %q", p.NameOfHolder)
	}
	return r
}

func allLetters(s string) bool {
	for i := 0; i < len(s); i++ {
		if !isLetter(s[i]) {
			return false
		}
	}
	return true
}

// ------------------------------------------------------------------ key seed

// MRZInformation is the BAC / PACE "MRZ information" (9303-11 section 4.3.2 and
// 9.7.2): document number, date of birth, date of expiry, each followed by its
// check digit.  The document number is taken in full (a long number is NOT cut
// to 9 characters: 9303-11 appendix D.2 uses D23145890734 + 9) and padded with
// fillers to 9 characters when shorter.  Spaces are read as fillers.
func MRZInformation(docNo, dob, expiry string) string {
	n := func(s string, min int) string {
		s = strings.ReplaceAll(s, " ", "<")
		if len(s) < min {
			s = pad(s, min)
		}
		return s
	}
	d, b, e := n(docNo, 9), n(dob, 6), n(expiry, 6)
	return d + string(CheckDigit(d)) + b + string(CheckDigit(b)) + e + string(CheckDigit(e))
}

// MRZInformationFromMRZ extracts the MRZ information from a full MRZ.  It
// fails when one of the three fields disagrees with the check digit printed
// in the zone; the composite and the other fields are not looked at.
func MRZInformationFromMRZ(m string) (string, error) {
	r := Analyse(m)
	p := r.Parsed
	if p == nil {
		return "", fmt.Errorf("length %d is not 90, 72 or 88", len(m))
	}
	for _, c := range []struct {
		what, v string
		cd      byte
	}{{"document number", p.DocNo, p.DocNoCheck}, {"date of birth", p.DOB, p.DOBCheck}, {"date of expiry", p.Expiry, p.ExpiryCheck}} {
		if !InAlphabet(c.v) {
			return "", fmt.Errorf("%s %q: symbol outside the MRZ alphabet", c.what, c.v)
		}
		if want := CheckDigit(c.v); c.cd != want {
			return "", fmt.Errorf("%s %q: check digit %q, ICAO %q", c.what, c.v, c.cd, want)
		}
	}
	return MRZInformation(p.DocNo, p.DOB, p.Expiry), nil
}

// EncodeDG1 wraps an MRZ into the LDS data group 1 (9303-10): template 61
// holding data object 5F1F, definite BER lengths in their shortest form.
func EncodeDG1(m string) []byte {
	tl := func(tag []byte, v []byte) []byte {
		out := append([]byte{}, tag...)
		switch n := len(v); {
		case n < 0x80:
			out = append(out, byte(n))
		case n < 0x100:
			out = append(out, 0x81, byte(n))
		default:
			out = append(out, 0x82, byte(n>>8), byte(n))
		}
		return append(out, v...)
	}
	return tl([]byte{0x61}, tl([]byte{0x5f, 0x1f}, []byte(m)))
}

// K is SHA-1 of the MRZ information: the shared secret of PACE with the MRZ
// password (20 bytes).
func K(mrzInfo string) []byte {
	h := sha1.Sum([]byte(mrzInfo))
	return h[:]
}

// KSeed is the BAC key seed: the 16 most significant bytes of
// SHA-1(MRZ information).
func KSeed(mrzInfo string) []byte { return K(mrzInfo)[:16] }
