package mrz

import (
	"encoding/hex"
	"fmt"
)

// SelfTest runs the known answers of ICAO Doc 9303 against this model
// (check digit examples of 9303-3, the specimen zones of 9303-4/-5/-6, the
// BAC worked example of 9303-11 appendix D).  A check package calls it first;
// a failure is an infrastructure error, never a finding.
func SelfTest() error {
	for _, c := range []struct {
		in   string
		want byte
	}{
		{"520727", '3'},    // 9303-3, check digit example 1
		{"AB2134<<<", '5'}, // 9303-3, example 2
		{"HA672242<658022549601086<<<<<<<<<<<<<<0", '8'}, // 9303-3, composite example (TD3)
		{"D231458907<<<<<<<<<<<<<<<34071279507122<<<<<<<<<<<", '2'},
		{"L898902C<", '3'}, {"690806", '1'}, {"940623", '6'}, // 9303-11 appendix D
		{"", '0'}, {"<<<<<<", '0'}, {"7", '9'}, {"07", '1'}, {"007", '7'}, {"Z", '5'},
	} {
		if got := CheckDigit(c.in); got != c.want {
			return fmt.Errorf("CheckDigit(%q) = %q, want %q", c.in, got, c.want)
		}
	}
	specimens := []struct {
		f    Fields
		want string
		info string
	}{
		{Fields{Layout: "TD3", DocCode: "P", Issuer: "UTO", Surname: "ERIKSSON", Given: "ANNA<MARIA", DocNo: "L898902C3",
			Nationality: "UTO", DOB: "740812", Sex: "F", Expiry: "120415", Opt1: "ZE184226B"},
			"P<UTOERIKSSON<<ANNA<MARIA<<<<<<<<<<<<<<<<<<<L898902C36UTO7408122F1204159ZE184226B<<<<<10",
			"L898902C3674081221204159"},
		{Fields{Layout: "TD1", DocCode: "I", Issuer: "UTO", Surname: "ERIKSSON", Given: "ANNA<MARIA", DocNo: "D23145890",
			Nationality: "UTO", DOB: "740812", Sex: "F", Expiry: "120415"},
			"I<UTOD231458907<<<<<<<<<<<<<<<7408122F1204159UTO<<<<<<<<<<<6ERIKSSON<<ANNA<MARIA<<<<<<<<<<",
			"D23145890774081221204159"},
		{Fields{Layout: "TD2", DocCode: "I", Issuer: "UTO", Surname: "ERIKSSON", Given: "ANNA<MARIA", DocNo: "D23145890",
			Nationality: "UTO", DOB: "740812", Sex: "F", Expiry: "120415"},
			"I<UTOERIKSSON<<ANNA<MARIA<<<<<<<<<<<D231458907UTO7408122F1204159<<<<<<<6",
			"D23145890774081221204159"},
		// long document number D23145890734 (9303-11 appendix D.2)
		{Fields{Layout: "TD1", DocCode: "I", Issuer: "UTO", Surname: "STEVENSON", Given: "PETER<JOHN", DocNo: "D23145890734",
			Nationality: "UTO", DOB: "340712", Sex: "M", Expiry: "950712"},
			"I<UTOD23145890<7349<<<<<<<<<<<3407127M9507122UTO<<<<<<<<<<<2STEVENSON<<PETER<JOHN<<<<<<<<<",
			"D23145890734934071279507122"},
		{Fields{Layout: "TD2", DocCode: "I", Issuer: "UTO", Surname: "STEVENSON", Given: "PETER<JOHN", DocNo: "D23145890734",
			Nationality: "UTO", DOB: "340712", Sex: "M", Expiry: "950712"},
			"I<UTOSTEVENSON<<PETER<JOHN<<<<<<<<<<D23145890<UTO3407127M95071227349<<<8",
			"D23145890734934071279507122"},
		// personal number unused, check digit position 43 written as '0'
		{Fields{Layout: "TD3", DocCode: "P", Issuer: "D", Surname: "DOE", Given: "JOHN", DocNo: "D12345678",
			Nationality: "UTO", DOB: "650809", Sex: "M", Expiry: "350520", OptCheckZeroOrFiller: '0'},
			"P<D<<DOE<<JOHN<<<<<<<<<<<<<<<<<<<<<<<<<<<<<<D123456785UTO6508092M3505207<<<<<<<<<<<<<<00",
			"D12345678565080923505207"},
	}
	for _, s := range specimens {
		got, err := Build(s.f)
		if err != nil || got != s.want {
			return fmt.Errorf("Build(%+v) = %q, %v; want %q", s.f, got, err, s.want)
		}
		p, v := Validate(got)
		if len(v) != 0 {
			return fmt.Errorf("Validate(%q): %v", got, v)
		}
		if Clean(p.DocNo) != s.f.DocNo || p.Primary != Clean(s.f.Surname) || p.Secondary != Clean(s.f.Given) ||
			p.DOB != s.f.DOB || p.Expiry != s.f.Expiry || Clean(p.Opt1) != s.f.Opt1 {
			return fmt.Errorf("Validate(%q): slicing %+v", got, p)
		}
		if info, err := MRZInformationFromMRZ(got); err != nil || info != s.info {
			return fmt.Errorf("MRZInformationFromMRZ(%q) = %q, %v; want %q", got, info, err, s.info)
		}
		if info := MRZInformation(s.f.DocNo, s.f.DOB, s.f.Expiry); info != s.info {
			return fmt.Errorf("MRZInformation(%q..) = %q; want %q", s.f.DocNo, info, s.info)
		}
		// every single check digit position must be detected when changed
		l := layoutByLen(len(got))
		for _, pos := range []int{l.docNoCD, l.dobCD, l.expiryCD, l.compo} {
			b := []byte(got)
			b[pos] = '0' + (b[pos]-'0'+1)%10
			if b[pos] < '0' || b[pos] > '9' {
				b[pos] = '1'
			}
			if r := Analyse(string(b)); len(r.Check) == 0 {
				return fmt.Errorf("altered check digit at %d of %q not detected", pos, got)
			}
		}
	}
	// 9303-11 appendix D.1/D.2: MRZ information and K_seed of the BAC example
	info := MRZInformation("L898902C<", "690806", "940623")
	if info != "L898902C<369080619406236" {
		return fmt.Errorf("MRZInformation appendix D = %q", info)
	}
	if got := hex.EncodeToString(KSeed(info)); got != "239ab9cb282daf66231dc5a4df6bfbae" {
		return fmt.Errorf("KSeed appendix D = %s", got)
	}
	if MRZInformation("AB123", "74<<<<", "120415") != "AB123<<<<"+string(CheckDigit("AB123<<<<"))+"74<<<<"+string(CheckDigit("74"))+"1204159" {
		return fmt.Errorf("MRZInformation padding")
	}
	// DG1 of the 9303-6 specimen (72 characters => 61 4B 5F1F 48 ...)
	if d := EncodeDG1(specimens[2].want); hex.EncodeToString(d[:5]) != "614b5f1f48" || string(d[5:]) != specimens[2].want {
		return fmt.Errorf("EncodeDG1 = %x", d)
	}
	// the positions of every layout tile the whole zone exactly once
	for _, l := range []*layout{&td1, &td2, &td3} {
		seen := make([]int, l.length)
		for _, s := range []span{l.docCode, l.issuer, l.name_, l.docNo, l.nationality, l.dob, l.sex, l.expiry, l.opt1, l.opt2} {
			for i := s.lo; i >= 0 && i < s.hi; i++ {
				seen[i]++
			}
		}
		for _, i := range []int{l.docNoCD, l.dobCD, l.expiryCD, l.optCD, l.compo} {
			if i >= 0 {
				seen[i]++
			}
		}
		for i, n := range seen {
			if n != 1 {
				return fmt.Errorf("%s: position %d covered %d times", l.name, i, n)
			}
		}
	}
	return nil
}
