// Package mac holds the symmetric reference primitives of the harness:
// ISO/IEC 9797-1 padding method 2, ISO/IEC 9797-1 MAC algorithm 3 ("retail
// MAC") over DES, AES-CMAC (RFC 4493 / NIST SP 800-38B), the ICAO 9303-11
// §9.7.1 key derivation function, DES parity adjustment and CBC helpers.
//
// It imports only the Go standard library (block ciphers from crypto/des and
// crypto/aes; everything above the single-block permutation is written here).
// SelfTest() runs the known-answer tests; every check package calls it first.
package mac

import (
	"bytes"
	"crypto/aes"
	"crypto/des"
	"crypto/sha1"
	"crypto/sha256"
	"encoding/hex"
	"errors"
	"fmt"
)

// Cipher names the secure-messaging cipher suites of ICAO 9303-11.
type Cipher string

const (
	TDES   Cipher = "3DES"
	AES128 Cipher = "AES-128"
	AES192 Cipher = "AES-192"
	AES256 Cipher = "AES-256"
)

// Ciphers lists every suite (stable order, for generators).
var Ciphers = []Cipher{TDES, AES128, AES192, AES256}

// IsAES reports whether c is one of the AES suites.
func (c Cipher) IsAES() bool { return c == AES128 || c == AES192 || c == AES256 }

// KeyLen is the session-key length in bytes (3DES: two-key, 16 bytes).
func (c Cipher) KeyLen() int {
	switch c {
	case TDES, AES128:
		return 16
	case AES192:
		return 24
	case AES256:
		return 32
	}
	panic("mac: unknown cipher " + string(c))
}

// BlockLen is the cipher block length (= SSC length) in bytes.
func (c Cipher) BlockLen() int {
	if c == TDES {
		return 8
	}
	if c.IsAES() {
		return 16
	}
	panic("mac: unknown cipher " + string(c))
}

// ---------------------------------------------------------------- padding

// PadM2 appends 0x80 and then the fewest 0x00 octets that make the length a
// positive multiple of block (ISO/IEC 9797-1 padding method 2).  The result
// is always longer than the input.
func PadM2(data []byte, block int) []byte {
	n := len(data) + 1
	for n%block != 0 {
		n++
	}
	out := make([]byte, n)
	copy(out, data)
	out[len(data)] = 0x80
	return out
}

// UnpadM2 removes padding method 2: trailing 0x00 octets and the 0x80 marker.
func UnpadM2(data []byte) ([]byte, error) {
	i := len(data) - 1
	for i >= 0 && data[i] == 0x00 {
		i--
	}
	if i < 0 || data[i] != 0x80 {
		return nil, errors.New("mac: no ISO 9797-1 method 2 padding")
	}
	return append([]byte{}, data[:i]...), nil
}

// ---------------------------------------------------------------- DES / 3DES

func desBlock(key8 []byte) interface {
	Encrypt(dst, src []byte)
	Decrypt(dst, src []byte)
} {
	b, err := des.NewCipher(key8)
	if err != nil {
		panic(fmt.Sprintf("mac: DES key: %v", err))
	}
	return b
}

// RetailMAC is ISO/IEC 9797-1 MAC algorithm 3 with DES and output
// transformation 3: CBC-MAC under K1 over all blocks, then D(K2), then E(K1).
// key16 = K1||K2; padded must be a positive multiple of 8 bytes (padding is
// the caller's business).  Returns 8 bytes.
func RetailMAC(key16 []byte, padded []byte) []byte {
	if len(key16) != 16 {
		panic(fmt.Sprintf("mac: retail MAC key of %d bytes", len(key16)))
	}
	if len(padded) == 0 || len(padded)%8 != 0 {
		panic(fmt.Sprintf("mac: retail MAC input of %d bytes", len(padded)))
	}
	k1, k2 := desBlock(key16[:8]), desBlock(key16[8:])
	h := make([]byte, 8)
	for off := 0; off < len(padded); off += 8 {
		for i := 0; i < 8; i++ {
			h[i] ^= padded[off+i]
		}
		k1.Encrypt(h, h)
	}
	k2.Decrypt(h, h)
	k1.Encrypt(h, h)
	return h
}

// AdjustParity returns a copy of k in which the least significant bit of
// every octet is set so that the octet has odd parity (DES key parity).
func AdjustParity(k []byte) []byte {
	out := make([]byte, len(k))
	for i, b := range k {
		ones := 0
		for j := 1; j < 8; j++ { // the seven key bits
			if b&(1<<uint(j)) != 0 {
				ones++
			}
		}
		b &= 0xFE
		if ones%2 == 0 {
			b |= 1
		}
		out[i] = b
	}
	return out
}

type block interface {
	BlockSize() int
	Encrypt(dst, src []byte)
	Decrypt(dst, src []byte)
}

func tdes(key16 []byte) block {
	if len(key16) != 16 {
		panic(fmt.Sprintf("mac: two-key 3DES key of %d bytes", len(key16)))
	}
	k := make([]byte, 24)
	copy(k, key16)
	copy(k[16:], key16[:8])
	b, err := des.NewTripleDESCipher(k)
	if err != nil {
		panic(err)
	}
	return b
}

func aesBlock(key []byte) block {
	b, err := aes.NewCipher(key)
	if err != nil {
		panic(fmt.Sprintf("mac: AES key: %v", err))
	}
	return b
}

// cbc is CBC mode written out (no crypto/cipher), data a multiple of the block.
func cbc(b block, iv, data []byte, encrypt bool) []byte {
	bs := b.BlockSize()
	if len(iv) != bs {
		panic(fmt.Sprintf("mac: CBC iv of %d bytes, block %d", len(iv), bs))
	}
	if len(data)%bs != 0 {
		panic(fmt.Sprintf("mac: CBC data of %d bytes, block %d", len(data), bs))
	}
	out := make([]byte, len(data))
	prev := append([]byte{}, iv...)
	tmp := make([]byte, bs)
	for off := 0; off < len(data); off += bs {
		if encrypt {
			for i := 0; i < bs; i++ {
				tmp[i] = data[off+i] ^ prev[i]
			}
			b.Encrypt(out[off:off+bs], tmp)
			copy(prev, out[off:off+bs])
		} else {
			b.Decrypt(tmp, data[off:off+bs])
			for i := 0; i < bs; i++ {
				out[off+i] = tmp[i] ^ prev[i]
			}
			copy(prev, data[off:off+bs])
		}
	}
	return out
}

// TDESCBCEncrypt: two-key 3DES (EDE, K1 K2 K1) in CBC mode.
func TDESCBCEncrypt(key16, iv, data []byte) []byte { return cbc(tdes(key16), iv, data, true) }

// TDESCBCDecrypt is the inverse of TDESCBCEncrypt.
func TDESCBCDecrypt(key16, iv, data []byte) []byte { return cbc(tdes(key16), iv, data, false) }

// AESCBCEncrypt: AES-128/192/256 (by key length) in CBC mode.
func AESCBCEncrypt(key, iv, data []byte) []byte { return cbc(aesBlock(key), iv, data, true) }

// AESCBCDecrypt is the inverse of AESCBCEncrypt.
func AESCBCDecrypt(key, iv, data []byte) []byte { return cbc(aesBlock(key), iv, data, false) }

// AESECBEncryptBlock encrypts one 16-byte block (used for the SM IV).
func AESECBEncryptBlock(key, in []byte) []byte {
	out := make([]byte, 16)
	aesBlock(key).Encrypt(out, in)
	return out
}

// ---------------------------------------------------------------- AES-CMAC

// dbl multiplies by x in GF(2^128) with the CMAC polynomial (RFC 4493 §2.3).
func dbl(in []byte) []byte {
	out := make([]byte, 16)
	var carry byte
	for i := 15; i >= 0; i-- {
		out[i] = in[i]<<1 | carry
		carry = in[i] >> 7
	}
	if carry != 0 {
		out[15] ^= 0x87
	}
	return out
}

// AESCMAC is RFC 4493 AES-CMAC (any AES key length); returns the full 16
// bytes.  ICAO secure messaging uses the leftmost 8.
func AESCMAC(key, msg []byte) []byte {
	b := aesBlock(key)
	l := make([]byte, 16)
	b.Encrypt(l, l)
	k1 := dbl(l)
	k2 := dbl(k1)
	n := (len(msg) + 15) / 16
	complete := n > 0 && len(msg)%16 == 0
	if n == 0 {
		n = 1
	}
	last := make([]byte, 16)
	tail := msg[(n-1)*16:]
	if complete {
		for i := 0; i < 16; i++ {
			last[i] = tail[i] ^ k1[i]
		}
	} else {
		copy(last, tail)
		last[len(tail)] = 0x80
		for i := 0; i < 16; i++ {
			last[i] ^= k2[i]
		}
	}
	x := make([]byte, 16)
	for i := 0; i < n-1; i++ {
		for j := 0; j < 16; j++ {
			x[j] ^= msg[i*16+j]
		}
		b.Encrypt(x, x)
	}
	for j := 0; j < 16; j++ {
		x[j] ^= last[j]
	}
	b.Encrypt(x, x)
	return x
}

// ---------------------------------------------------------------- KDF

// KDF is the ICAO 9303-11 §9.7.1 key derivation function
// KDF(K, [r,] c) = H(K || r || c) with c a 32-bit big-endian counter
// (1 = encryption, 2 = MAC, 3 = PACE password key).  3DES and AES-128 use
// SHA-1 and the leftmost 16 octets (3DES: keydata 1..8 -> K1, 9..16 -> K2,
// parity adjusted); AES-192 uses the leftmost 24 octets of SHA-256; AES-256
// the whole SHA-256 output.  nonce may be nil.
func KDF(secret, nonce []byte, counter uint32, c Cipher) []byte {
	in := make([]byte, 0, len(secret)+len(nonce)+4)
	in = append(in, secret...)
	in = append(in, nonce...)
	in = append(in, byte(counter>>24), byte(counter>>16), byte(counter>>8), byte(counter))
	switch c {
	case TDES:
		h := sha1.Sum(in)
		return AdjustParity(h[:16])
	case AES128:
		h := sha1.Sum(in)
		return append([]byte{}, h[:16]...)
	case AES192:
		h := sha256.Sum256(in)
		return append([]byte{}, h[:24]...)
	case AES256:
		h := sha256.Sum256(in)
		return append([]byte{}, h[:]...)
	}
	panic("mac: unknown cipher " + string(c))
}

// MAC8 computes the 8-byte secure-messaging MAC of msg for the suite:
// retail MAC over PadM2(msg,8) for 3DES, leftmost 8 bytes of AES-CMAC over
// PadM2(msg,16) for AES (ICAO 9303-11 §9.8.6.1/§9.8.6.2: the input is padded
// with method 2 in both cases before the MAC algorithm is applied).
func MAC8(c Cipher, key, msg []byte) []byte {
	if c == TDES {
		return RetailMAC(key, PadM2(msg, 8))
	}
	return AESCMAC(key, PadM2(msg, 16))[:8]
}

// ---------------------------------------------------------------- self test

func unhex(s string) []byte {
	b, err := hex.DecodeString(s)
	if err != nil {
		panic(err)
	}
	return b
}

// SelfTest runs the known-answer tests (RFC 4493, NIST SP 800-38B examples,
// ICAO 9303-11 Appendix D key derivation and retail MAC, FIPS 81-style CBC
// round trips).  A non-nil error is an infrastructure problem of the harness.
func SelfTest() error {
	// padding
	for _, tc := range []struct{ in, out string }{
		{"", "8000000000000000"}, {"01", "0180000000000000"}, {"01020304050607", "0102030405060780"},
		{"0102030405060708", "01020304050607088000000000000000"}, {"80", "8080000000000000"}, {"8000", "8000800000000000"},
	} {
		p := PadM2(unhex(tc.in), 8)
		if !bytes.Equal(p, unhex(tc.out)) {
			return fmt.Errorf("PadM2(%s)=%x", tc.in, p)
		}
		u, err := UnpadM2(p)
		if err != nil || !bytes.Equal(u, unhex(tc.in)) {
			return fmt.Errorf("UnpadM2(%x)=%x,%v", p, u, err)
		}
	}
	if _, err := UnpadM2(unhex("0000000000000000")); err == nil {
		return errors.New("UnpadM2 accepts all-zero")
	}
	if _, err := UnpadM2(unhex("0102030405060708")); err == nil {
		return errors.New("UnpadM2 accepts unpadded")
	}
	if _, err := UnpadM2(nil); err == nil {
		return errors.New("UnpadM2 accepts empty")
	}

	// AES-CMAC: RFC 4493 §4 (AES-128), NIST SP 800-38B D.2/D.3 (AES-192/256)
	m := unhex("6bc1bee22e409f96e93d7e117393172aae2d8a571e03ac9c9eb76fac45af8e5130c81c46a35ce411e5fbc1191a0a52eff69f2445df4f9b17ad2b417be66c3710")
	for _, tc := range []struct {
		key string
		tag [4]string // lengths 0, 16, 40, 64
	}{
		{"2b7e151628aed2a6abf7158809cf4f3c", [4]string{"bb1d6929e95937287fa37d129b756746", "070a16b46b4d4144f79bdd9dd04a287c", "dfa66747de9ae63030ca32611497c827", "51f0bebf7e3b9d92fc49741779363cfe"}},
		{"8e73b0f7da0e6452c810f32b809079e562f8ead2522c6b7b", [4]string{"d17ddf46adaacde531cac483de7a9367", "9e99a7bf31e710900662f65e617c5184", "8a1de5be2eb31aad089a82e6ee908b0e", "a1d5df0eed790f794d77589659f39a11"}},
		{"603deb1015ca71be2b73aef0857d77811f352c073b6108d72d9810a30914dff4", [4]string{"028962f61b7bf89efc6b551f4667d983", "28a7023f452e8f82bd4bf28d8c37c35c", "aaf3d8f1de5640c232f5b169b9c911e6", "e1992190549f6ed5696a2c056c315410"}},
	} {
		for i, n := range []int{0, 16, 40, 64} {
			got := AESCMAC(unhex(tc.key), m[:n])
			if !bytes.Equal(got, unhex(tc.tag[i])) {
				return fmt.Errorf("AES-CMAC key %d bits, len %d: %x want %s", len(tc.key)*4, n, got, tc.tag[i])
			}
		}
	}
	// RFC 4493 sub-keys
	{
		l := AESECBEncryptBlock(unhex("2b7e151628aed2a6abf7158809cf4f3c"), make([]byte, 16))
		if k1 := dbl(l); !bytes.Equal(k1, unhex("fbeed618357133667c85e08f7236a8de")) || !bytes.Equal(dbl(k1), unhex("f7ddac306ae266ccf90bc11ee46d513b")) {
			return fmt.Errorf("CMAC sub-keys wrong")
		}
	}

	// ICAO 9303-11 Appendix D.1/D.2: Kseed -> Kenc, Kmac (3DES)
	kseed := unhex("239AB9CB282DAF66231DC5A4DF6BFBAE")
	if k := KDF(kseed, nil, 1, TDES); !bytes.Equal(k, unhex("AB94FDECF2674FDFB9B391F85D7F76F2")) {
		return fmt.Errorf("KDF Kenc %x", k)
	}
	if k := KDF(kseed, nil, 2, TDES); !bytes.Equal(k, unhex("7962D9ECE03D1ACD4C76089DCE131543")) {
		return fmt.Errorf("KDF Kmac %x", k)
	}
	// ICAO 9303-11 Appendix D.3: session keys from Kseed = KIFD xor KIC
	ks := unhex("0036D272F5C350ACAC50C3F572D23600")
	if k := KDF(ks, nil, 1, TDES); !bytes.Equal(k, unhex("979EC13B1CBFE9DCD01AB0FED307EAE5")) {
		return fmt.Errorf("KDF KSenc %x", k)
	}
	if k := KDF(ks, nil, 2, TDES); !bytes.Equal(k, unhex("F1CB1F1FB5ADF208806B89DC579DC1F8")) {
		return fmt.Errorf("KDF KSmac %x", k)
	}
	// AES derivations (values quoted by ICAO 9303-11 App. G / TR-03110 worked examples)
	if k := KDF(unhex("28768D20701247DAE81804C9E780EDE582A9996DB4A315020B2733197DB84925"), nil, 1, AES128); !bytes.Equal(k, unhex("F5F0E35C0D7161EE6724EE513A0D9A7F")) {
		return fmt.Errorf("KDF AES-128 enc %x", k)
	}
	if k := KDF(unhex("28768D20701247DAE81804C9E780EDE582A9996DB4A315020B2733197DB84925"), nil, 2, AES128); !bytes.Equal(k, unhex("FE251C7858B356B24514B3BD5F4297D1")) {
		return fmt.Errorf("KDF AES-128 mac %x", k)
	}
	if k := KDF(unhex("7E2D2A41C74EA0B38CD36F863939BFA8E9032AAD"), nil, 3, AES128); !bytes.Equal(k, unhex("89DED1B26624EC1E634C1989302849DD")) {
		return fmt.Errorf("KDF AES-128 pace %x", k)
	}
	// the nonce parameter is plain concatenation
	if !bytes.Equal(KDF([]byte{1, 2}, []byte{3, 4}, 7, AES256), KDF([]byte{1, 2, 3, 4}, nil, 7, AES256)) || len(KDF(nil, nil, 1, AES192)) != 24 || len(KDF(nil, nil, 1, AES256)) != 32 {
		return errors.New("KDF nonce/length handling")
	}
	// parity
	if p := AdjustParity(unhex("00010203fefff0")); !bytes.Equal(p, unhex("01010202fefef1")) {
		return fmt.Errorf("AdjustParity %x", p)
	}

	// ICAO 9303-11 Appendix D.3 (BAC): E_IFD = 3DES-CBC(Kenc, S), M_IFD = MAC(Kmac, E_IFD)
	kenc, kmac := unhex("AB94FDECF2674FDFB9B391F85D7F76F2"), unhex("7962D9ECE03D1ACD4C76089DCE131543")
	s := unhex("781723860C06C2264608F919887022120B795240CB7049B01C19B33E32804F0B")
	eifd := TDESCBCEncrypt(kenc, make([]byte, 8), s)
	if !bytes.Equal(eifd, unhex("72C29C2371CC9BDB65B779B8E8D37B29ECC154AA56A8799FAE2F498F76ED92F2")) {
		return fmt.Errorf("BAC E_IFD %x", eifd)
	}
	if mm := RetailMAC(kmac, PadM2(eifd, 8)); !bytes.Equal(mm, unhex("5F1448EEA8AD90A7")) {
		return fmt.Errorf("BAC M_IFD %x", mm)
	}
	if d := TDESCBCDecrypt(kenc, make([]byte, 8), eifd); !bytes.Equal(d, s) {
		return fmt.Errorf("3DES CBC decrypt")
	}
	// ICAO 9303-11 Appendix D.4: MAC of SSC||padded header||DO87 (SELECT EF.COM)
	if mm := MAC8(TDES, unhex("F1CB1F1FB5ADF208806B89DC579DC1F8"), unhex("887022120C06C2270CA4020C800000008709016375432908C044F6")); !bytes.Equal(mm, unhex("BF8B92D635FF24F8")) {
		return fmt.Errorf("SM CC %x", mm)
	}

	// AES-CBC: NIST SP 800-38A F.2.1 (AES-128), F.2.5 (AES-256) first blocks
	pt := unhex("6bc1bee22e409f96e93d7e117393172aae2d8a571e03ac9c9eb76fac45af8e51")
	iv := unhex("000102030405060708090a0b0c0d0e0f")
	if c := AESCBCEncrypt(unhex("2b7e151628aed2a6abf7158809cf4f3c"), iv, pt); !bytes.Equal(c, unhex("7649abac8119b246cee98e9b12e9197d5086cb9b507219ee95db113a917678b2")) {
		return fmt.Errorf("AES-128-CBC %x", c)
	}
	k256 := unhex("603deb1015ca71be2b73aef0857d77811f352c073b6108d72d9810a30914dff4")
	c256 := AESCBCEncrypt(k256, iv, pt)
	if !bytes.Equal(c256, unhex("f58c4c04d6e5f1ba779eabfb5f7bfbd69cfc4e967edb808d679f777bc6702c7d")) {
		return fmt.Errorf("AES-256-CBC %x", c256)
	}
	if d := AESCBCDecrypt(k256, iv, c256); !bytes.Equal(d, pt) {
		return errors.New("AES-256-CBC decrypt")
	}
	return nil
}
