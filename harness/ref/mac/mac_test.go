package mac

import "testing"

func TestSelfTest(t *testing.T) {
	if err := SelfTest(); err != nil {
		t.Fatal(err)
	}
}
