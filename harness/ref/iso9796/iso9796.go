// Package iso9796 is an independent implementation of ISO/IEC 9796-2 digital
// signature scheme 1 with partial message recovery as profiled by ICAO Doc
// 9303-11 section 6.1 (Active Authentication):
//
//	F = 6A || M1 || H(M1 || M2) || T        S = F^d mod n
//
// where M2 is the terminal's challenge RND.IFD, M1 is the chip-chosen
// recoverable part and T is the trailer: BC (SHA-1, implicit) or the two
// octets <ISO/IEC 10118-3 hash id> CC.  Standard library only, no gmrtd imports.
// Not constant time; for tests only.
package iso9796

import (
	"bytes"
	"crypto"
	"crypto/sha1"
	"crypto/sha256"
	"crypto/sha512"
	"errors"
	"fmt"
	"math/big"
)

// Trailer is the trailer field: 0x00BC (one octet BC) or 0xXXCC (two octets).
type Trailer uint16

const (
	TrailerBC     Trailer = 0x00BC // implicit, SHA-1 (ICAO 9303-11: option 1 SHALL be used for SHA-1)
	TrailerSHA1   Trailer = 0x33CC // explicit SHA-1 (ISO/IEC 10118-3 id 33); not used by ICAO-conforming chips
	TrailerSHA224 Trailer = 0x38CC
	TrailerSHA256 Trailer = 0x34CC
	TrailerSHA384 Trailer = 0x36CC
	TrailerSHA512 Trailer = 0x35CC
)

// Trailers lists all trailers of the table above.
func Trailers() []Trailer {
	return []Trailer{TrailerBC, TrailerSHA1, TrailerSHA224, TrailerSHA256, TrailerSHA384, TrailerSHA512}
}

// Bytes returns the trailer octets.
func (t Trailer) Bytes() []byte {
	if t>>8 == 0 {
		return []byte{byte(t)}
	}
	return []byte{byte(t >> 8), byte(t)}
}

func (t Trailer) String() string { return fmt.Sprintf("%X", t.Bytes()) }

// Hash returns the hash function the trailer identifies (0 if unknown).
func (t Trailer) Hash() crypto.Hash {
	switch t {
	case TrailerBC, TrailerSHA1:
		return crypto.SHA1
	case TrailerSHA224:
		return crypto.SHA224
	case TrailerSHA256:
		return crypto.SHA256
	case TrailerSHA384:
		return crypto.SHA384
	case TrailerSHA512:
		return crypto.SHA512
	}
	return 0
}

// TrailerFor returns the ICAO trailer for a hash (BC for SHA-1).
func TrailerFor(h crypto.Hash) Trailer {
	switch h {
	case crypto.SHA1:
		return TrailerBC
	case crypto.SHA224:
		return TrailerSHA224
	case crypto.SHA256:
		return TrailerSHA256
	case crypto.SHA384:
		return TrailerSHA384
	case crypto.SHA512:
		return TrailerSHA512
	}
	return 0
}

// Digest hashes data with one of SHA-1/224/256/384/512.
func Digest(h crypto.Hash, data ...[]byte) ([]byte, error) {
	all := bytes.Join(data, nil)
	switch h {
	case crypto.SHA1:
		d := sha1.Sum(all)
		return d[:], nil
	case crypto.SHA224:
		d := sha256.Sum224(all)
		return d[:], nil
	case crypto.SHA256:
		d := sha256.Sum256(all)
		return d[:], nil
	case crypto.SHA384:
		d := sha512.Sum384(all)
		return d[:], nil
	case crypto.SHA512:
		d := sha512.Sum512(all)
		return d[:], nil
	}
	return nil, fmt.Errorf("iso9796: unsupported hash %d", h)
}

// DigestLen is the output length of h in octets (0 if unsupported).
func DigestLen(h crypto.Hash) int {
	switch h {
	case crypto.SHA1:
		return 20
	case crypto.SHA224:
		return 28
	case crypto.SHA256:
		return 32
	case crypto.SHA384:
		return 48
	case crypto.SHA512:
		return 64
	}
	return 0
}

// FLen is the octet length of the message representative F a chip with
// modulus n produces.  When the bit length k of n is a multiple of 8 this is
// k/8 (every string starting with 6A is then below n).  Otherwise it is the
// largest octet length for which EVERY string starting with 6A is below n
// ("largest byte-aligned F below the modulus", DESIGN section 4 C07):
// ceil(k/8) if 6B00..00 <= n, else ceil(k/8)-1.
func FLen(n *big.Int) int {
	w := (n.BitLen() + 7) / 8
	bound := new(big.Int).Lsh(big.NewInt(0x6B), uint(8*(w-1)))
	if bound.Cmp(n) <= 0 {
		return w
	}
	return w - 1
}

// M1Len is the length of the recoverable part M1 for modulus n, hash h and
// trailer t: FLen(n) - 1 - DigestLen(h) - len(t).  (For k a multiple of 8 this
// is ICAO's (c-4)/8 with c = k - Lh - 8t - 4.)
func M1Len(n *big.Int, h crypto.Hash, t Trailer) int {
	return FLen(n) - 1 - DigestLen(h) - len(t.Bytes())
}

// BuildF returns 6A || M1 || h(M1||M2) || T.  h and t are independent so that
// a caller can build representatives with a trailer that does not match the
// digest.
func BuildF(m1, m2 []byte, h crypto.Hash, t Trailer) ([]byte, error) {
	d, err := Digest(h, m1, m2)
	if err != nil {
		return nil, err
	}
	f := append([]byte{0x6A}, m1...)
	f = append(f, d...)
	return append(f, t.Bytes()...), nil
}

// Option modifies Sign.
type Option func(*opts)

type opts struct{ minS bool }

// MinS makes Sign return min(S, n-S) (ISO/IEC 9796-2 scheme variant; NOT what
// ICAO chips do, off by default).
func MinS() Option { return func(o *opts) { o.minS = true } }

// SignF returns F^d mod n as a string of ceil(k/8) octets.  F must be in (0,n).
func SignF(n, d *big.Int, f []byte, options ...Option) ([]byte, error) {
	var o opts
	for _, op := range options {
		op(&o)
	}
	fi := new(big.Int).SetBytes(f)
	if fi.Sign() == 0 || fi.Cmp(n) >= 0 {
		return nil, errors.New("iso9796: message representative not below the modulus")
	}
	s := new(big.Int).Exp(fi, d, n)
	if o.minS {
		if alt := new(big.Int).Sub(n, s); alt.Cmp(s) < 0 {
			s = alt
		}
	}
	return s.FillBytes(make([]byte, (n.BitLen()+7)/8)), nil
}

// Sign produces the chip's response to INTERNAL AUTHENTICATE:
// S = (6A || m1 || hash(m1||m2) || trailer)^d mod n, ceil(k/8) octets.
// m1 may have any length for which F < n; use M1Len for the genuine length.
func Sign(n, d *big.Int, m1, m2 []byte, hash crypto.Hash, trailer Trailer, options ...Option) ([]byte, error) {
	f, err := BuildF(m1, m2, hash, trailer)
	if err != nil {
		return nil, err
	}
	return SignF(n, d, f, options...)
}

// Recovered describes an opened signature.
type Recovered struct {
	F         []byte      // S^e mod n without leading zero octets
	M1        []byte      // recoverable part
	Digest    []byte      // hash field
	Trailer   Trailer     // trailer as found
	Hash      crypto.Hash // hash identified by the trailer
	Canonical bool        // S < n, len(S) == ceil(k/8) and len(F) == FLen(n)
}

// Recover opens a signature: F = S^e mod n, leading zero octets removed,
// header 6A, trailer BC or xxCC with a known hash id, remaining octets split
// into M1 and a digest field of the hash's length.  It does not check the
// digest.
func Recover(n, e *big.Int, sig []byte) (*Recovered, error) {
	if n == nil || e == nil || n.Sign() <= 0 || e.Sign() <= 0 {
		return nil, errors.New("iso9796: bad public key")
	}
	if len(sig) == 0 {
		return nil, errors.New("iso9796: empty signature")
	}
	s := new(big.Int).SetBytes(sig)
	fi := new(big.Int).Exp(s, e, n)
	f := fi.Bytes() // minimal: no leading zero octets
	if len(f) < 3 {
		return nil, errors.New("iso9796: representative too short")
	}
	if f[0] != 0x6A {
		return nil, fmt.Errorf("iso9796: header %02X, want 6A", f[0])
	}
	var t Trailer
	switch last := f[len(f)-1]; last {
	case 0xBC:
		t = TrailerBC
	case 0xCC:
		t = Trailer(uint16(f[len(f)-2])<<8 | 0xCC)
	default:
		return nil, fmt.Errorf("iso9796: trailer ends with %02X", last)
	}
	h := t.Hash()
	if h == 0 {
		return nil, fmt.Errorf("iso9796: unknown trailer %s", t)
	}
	body := f[1 : len(f)-len(t.Bytes())]
	dl := DigestLen(h)
	if len(body) < dl {
		return nil, errors.New("iso9796: no room for the digest")
	}
	return &Recovered{
		F: f, M1: append([]byte{}, body[:len(body)-dl]...), Digest: append([]byte{}, body[len(body)-dl:]...),
		Trailer: t, Hash: h,
		Canonical: s.Cmp(n) < 0 && len(sig) == (n.BitLen()+7)/8 && len(f) == FLen(n),
	}, nil
}

// Verify checks that sig is a scheme-1 signature under (n, e) whose hash field
// equals H(M1 || m2) for the hash identified by the trailer.  ok is true only
// then; m1 and hash are returned whenever the representative could be opened;
// err explains a rejection.  Acceptance is deliberately the lenient relation
// (no requirement that S < n or that F has full length): everything a strict
// verifier accepts is accepted here, so "library accepts => Verify accepts" is
// a necessary condition for the library being right.
func Verify(n, e *big.Int, sig, m2 []byte) (ok bool, m1 []byte, hash crypto.Hash, err error) {
	r, err := Recover(n, e, sig)
	if err != nil {
		return false, nil, 0, err
	}
	want, err := Digest(r.Hash, r.M1, m2)
	if err != nil {
		return false, r.M1, r.Hash, err
	}
	if !bytes.Equal(want, r.Digest) {
		return false, r.M1, r.Hash, errors.New("iso9796: digest mismatch")
	}
	return true, r.M1, r.Hash, nil
}

// SPKI returns the DER SubjectPublicKeyInfo for an RSA public key
// (rsaEncryption, NULL parameters, RSAPublicKey { n, e }).
func SPKI(n, e *big.Int) []byte {
	alg := tlv(0x30, []byte{0x06, 0x09, 0x2A, 0x86, 0x48, 0x86, 0xF7, 0x0D, 0x01, 0x01, 0x01}, []byte{0x05, 0x00})
	key := tlv(0x30, derUint(n), derUint(e))
	return tlv(0x30, alg, tlv(0x03, []byte{0}, key))
}

func tlv(tag byte, parts ...[]byte) []byte {
	n := 0
	for _, p := range parts {
		n += len(p)
	}
	out := []byte{tag}
	switch {
	case n < 0x80:
		out = append(out, byte(n))
	case n < 0x100:
		out = append(out, 0x81, byte(n))
	default:
		out = append(out, 0x82, byte(n>>8), byte(n))
	}
	for _, p := range parts {
		out = append(out, p...)
	}
	return out
}

func derUint(v *big.Int) []byte {
	b := v.Bytes()
	if len(b) == 0 || b[0]&0x80 != 0 {
		b = append([]byte{0}, b...)
	}
	return tlv(0x02, b)
}
