package iso9796

import (
	"fmt"
	"math/big"
)

// Key is one RSA key of the committed pool.
type Key struct {
	N, E, D *big.Int
	P, Q    *big.Int // prime factors (N = P*Q), for callers that need a crypto/rsa.PrivateKey
	Bits    int      // bit length of N
}

var pool []Key

func init() {
	for i, h := range poolHex {
		p := func(s string) *big.Int {
			v, ok := new(big.Int).SetString(s, 16)
			if !ok {
				panic("iso9796: bad pool constant")
			}
			return v
		}
		k := Key{N: p(h.n), E: big.NewInt(h.e), D: p(h.d), P: p(h.p), Q: p(h.q), Bits: h.bits}
		if err := k.Validate(); err != nil {
			panic(fmt.Sprintf("iso9796: pool key %d (%d bits): %v", i, h.bits, err))
		}
		pool = append(pool, k)
	}
}

// Validate checks the key's internal consistency (cheap: no primality test):
// N = P*Q, declared bit length, e odd > 1, e*d = 1 mod lcm(p-1, q-1), and one
// sign/open round trip.
func (k Key) Validate() error {
	one := big.NewInt(1)
	if new(big.Int).Mul(k.P, k.Q).Cmp(k.N) != 0 {
		return fmt.Errorf("N != P*Q")
	}
	if k.N.BitLen() != k.Bits {
		return fmt.Errorf("modulus has %d bits, declared %d", k.N.BitLen(), k.Bits)
	}
	if k.E.Cmp(one) <= 0 || k.E.Bit(0) == 0 {
		return fmt.Errorf("bad public exponent")
	}
	pm1, qm1 := new(big.Int).Sub(k.P, one), new(big.Int).Sub(k.Q, one)
	l := new(big.Int).Mul(pm1, qm1)
	l.Div(l, new(big.Int).GCD(nil, nil, pm1, qm1))
	ed := new(big.Int).Mul(k.E, k.D)
	if ed.Mod(ed, l).Cmp(one) != 0 {
		return fmt.Errorf("e*d != 1 mod lambda(N)")
	}
	m := big.NewInt(0x6A5A5A5A)
	if new(big.Int).Exp(new(big.Int).Exp(m, k.E, k.N), k.D, k.N).Cmp(m) != 0 {
		return fmt.Errorf("round trip failed")
	}
	return nil
}

// Pool returns the committed RSA key pool: three keys for each modulus size
// 1024, 1028, 1280, 1536, 2047, 2048, 3071, 3072 and 4096 bits with public
// exponents 3, 65537 and one other odd value (17, 257, 5, 4294967311, 41,
// 1234577, 7, 11, 4097).  For the 2047- and 3071-bit sizes the pool contains
// moduli below 6A00..00 (FLen = ceil(k/8)-1) and above 6B00..00 (FLen =
// ceil(k/8)).  The slice is a copy; the big.Int values are shared and must not
// be modified.
func Pool() []Key { return append([]Key(nil), pool...) }

// PoolBits returns the pool keys with the given modulus bit length.
func PoolBits(bits int) []Key {
	var out []Key
	for _, k := range pool {
		if k.Bits == bits {
			out = append(out, k)
		}
	}
	return out
}
