package iso9796

import (
	"bytes"
	"crypto"
	"crypto/rsa"
	"crypto/sha256"
	"encoding/asn1"
	"encoding/hex"
	"math/big"
	"testing"
)

func mustHex(s string) []byte {
	b, err := hex.DecodeString(s)
	if err != nil {
		panic(err)
	}
	return b
}

// A response captured from a real passport (published in gmrtd's
// active_auth_test.go: DG15 key, RND.IFD and INTERNAL AUTHENTICATE response).
// It validates Verify independently of Sign.
func TestCapturedPassportVector(t *testing.T) {
	n, _ := new(big.Int).SetString("BB8F93F4DC95E205CDA17C6927AB1E365B13065D03CD12E0FCE95D96840529453202F56CC4C13F77CD062930C8BC89A2873B257045C286E601CF3C09323A53103314902804AA10A314628CE222206A8866946A36B442041BB54AC81E6855DD1D6E16101833D65A191C20AC8B33B8A1A32920F46043F8031CF2BC17417030865FC5BE5A39DEE423BCBA3CA8177168EB23CFE01BA43EC87711B1CFFF85DB46F300DD8AE317B50D543B573E119E23AF7070D0B2FED6A3B2313A5EC02A531AAED1741F4390D1013E2A0F081EAC5DC8B0A1B2C6BDB1206F08D30E3643E1E5BDF53611", 16)
	e := big.NewInt(65537)
	nonce := mustHex("96302b0f3d7e7864")
	sig := mustHex("474256306840c0ab1b63c10e1c26bdfef4a0dd843920283cc4e6e70a60f2bd25dc7725f9677bc1cde66379dc28b38e8490f33afb2d10f9980c44c0bfc175d2b6684218f535c92fdd3e18db770a9ccbf91db3c7f0138e6d9e94b9bc8371761e3abed5e5e9b260279cfb238b58ae0d6a01da51c74c2a3ecd62c448bd9f20127f7384587287fa971204234e55b1a856c3e5aaaa620bb799a68fbae08ee132bb61683eba9b0b40dc1e54641cad975b16991cab50af82e3f3985afd19e7427a125f5b4b9878b12a5d2e01c7eedca3bb41c6fc05dccd818bce379d04b1f2f5d43487d3")
	ok, m1, h, err := Verify(n, e, sig, nonce)
	if !ok || err != nil {
		t.Fatalf("captured response rejected: %v", err)
	}
	r, _ := Recover(n, e, sig)
	t.Logf("captured: k=%d trailer=%s hash=%v len(M1)=%d canonical=%v", n.BitLen(), r.Trailer, h, len(m1), r.Canonical)
	if !r.Canonical || len(m1) != M1Len(n, h, r.Trailer) {
		t.Fatalf("captured response is not canonical under FLen/M1Len: len(M1)=%d want %d", len(m1), M1Len(n, h, r.Trailer))
	}
	nonce[0] ^= 1
	if ok, _, _, _ := Verify(n, e, sig, nonce); ok {
		t.Fatal("verifies for another nonce")
	}
}

func TestPool(t *testing.T) {
	want := map[int]int{1024: 3, 1028: 3, 1280: 3, 1536: 3, 2047: 3, 2048: 3, 3071: 3, 3072: 3, 4096: 3}
	got := map[int]int{}
	es := map[int64]bool{}
	flenClasses := map[string]bool{}
	for _, k := range Pool() {
		got[k.Bits]++
		es[k.E.Int64()] = true
		if err := k.Validate(); err != nil {
			t.Fatalf("%d: %v", k.Bits, err)
		}
		if !k.P.ProbablyPrime(16) || !k.Q.ProbablyPrime(16) {
			t.Fatalf("%d: factor not prime", k.Bits)
		}
		// the std lib agrees that this is a sound RSA key
		priv := &rsa.PrivateKey{PublicKey: rsa.PublicKey{N: k.N, E: int(k.E.Int64())}, D: k.D, Primes: []*big.Int{k.P, k.Q}}
		if !k.E.IsInt64() || k.E.Int64() > 1<<31-1 {
			continue // crypto/rsa refuses public exponents above 2^31-1
		}
		if err := priv.Validate(); err != nil {
			t.Fatalf("%d e=%v: crypto/rsa rejects the key: %v", k.Bits, k.E, err)
		}
		if k.Bits%8 == 0 {
			d := sha256.Sum256([]byte("x"))
			sig, err := rsa.SignPKCS1v15(nil, priv, crypto.SHA256, d[:])
			if err != nil {
				t.Fatalf("%d: std sign: %v", k.Bits, err)
			}
			em := new(big.Int).Exp(new(big.Int).SetBytes(sig), k.E, k.N).Bytes()
			if em[0] != 1 || !bytes.HasSuffix(em, d[:]) {
				t.Fatalf("%d: std signature does not open with (n,e)", k.Bits)
			}
		}
		w := (k.Bits + 7) / 8
		if k.Bits%8 != 0 {
			if FLen(k.N) == w {
				flenClasses[itoa(k.Bits)+"hi"] = true
			} else {
				flenClasses[itoa(k.Bits)+"lo"] = true
			}
		} else if FLen(k.N) != w {
			t.Fatalf("%d: FLen %d", k.Bits, FLen(k.N))
		}
	}
	for b, n := range want {
		if got[b] != n {
			t.Fatalf("pool has %d keys of %d bits", got[b], b)
		}
	}
	if !es[3] || !es[65537] || len(es) < 5 {
		t.Fatalf("exponents %v", es)
	}
	for _, c := range []string{"2047hi", "2047lo", "3071hi", "3071lo", "1028lo"} {
		if !flenClasses[c] {
			t.Fatalf("pool lacks class %s (%v)", c, flenClasses)
		}
	}
	if len(PoolBits(2047)) != 3 {
		t.Fatal("PoolBits")
	}
}

func itoa(i int) string { return big.NewInt(int64(i)).String() }

func TestSignVerifyAll(t *testing.T) {
	m2 := mustHex("0011223344556677")
	for ki, k := range Pool() {
		if testing.Short() && k.Bits > 2048 {
			continue
		}
		for _, tr := range Trailers() {
			h := tr.Hash()
			l := M1Len(k.N, h, tr)
			if l < 0 {
				t.Fatalf("%d/%s: no room", k.Bits, tr)
			}
			for variant := 0; variant < 3; variant++ {
				m1 := make([]byte, l)
				for i := range m1 {
					switch variant {
					case 0:
						m1[i] = byte(i*31 + ki)
					case 1: // all zero
					case 2:
						m1[i] = 0xff
					}
				}
				sig, err := Sign(k.N, k.D, m1, m2, h, tr)
				if err != nil {
					t.Fatalf("%d/%s: sign: %v", k.Bits, tr, err)
				}
				if len(sig) != (k.Bits+7)/8 {
					t.Fatalf("signature length %d", len(sig))
				}
				ok, gm1, gh, err := Verify(k.N, k.E, sig, m2)
				if !ok || err != nil || !bytes.Equal(gm1, m1) || gh != h {
					t.Fatalf("%d/%s/v%d: verify: %v", k.Bits, tr, variant, err)
				}
				r, _ := Recover(k.N, k.E, sig)
				if !r.Canonical || r.Trailer != tr || len(r.F) != FLen(k.N) {
					t.Fatalf("%d/%s: not canonical", k.Bits, tr)
				}
				// one more octet of M1 does not fit for every content: all-FF M1 must fail or stay below n
				if variant == 2 {
					if _, err := Sign(k.N, k.D, append(m1, 0xff, 0xff), m2, h, tr); err == nil && k.Bits%8 == 0 {
						t.Fatalf("%d/%s: over-long M1 signed", k.Bits, tr)
					}
				}
				// rejections
				bad := append([]byte{}, sig...)
				bad[len(bad)/2] ^= 0x10
				if ok, _, _, _ := Verify(k.N, k.E, bad, m2); ok {
					t.Fatal("mutated signature verifies")
				}
				if ok, _, _, _ := Verify(k.N, k.E, sig, mustHex("0011223344556676")); ok {
					t.Fatal("verifies for another challenge")
				}
				if variant == 0 {
					// trailer / digest mismatch
					for _, other := range Trailers() {
						if other.Hash() == h {
							continue
						}
						l2 := FLen(k.N) - 1 - DigestLen(h) - len(other.Bytes())
						s2, err := Sign(k.N, k.D, make([]byte, l2), m2, h, other)
						if err != nil {
							t.Fatal(err)
						}
						if ok, _, _, _ := Verify(k.N, k.E, s2, m2); ok {
							t.Fatalf("digest of %v accepted under trailer %s", h, other)
						}
					}
					// wrong header
					f, _ := BuildF(m1, m2, h, tr)
					for _, hd := range []byte{0x6B, 0x4A, 0x2A, 0x00, 0x6A ^ 0x80} {
						f2 := append([]byte{}, f...)
						f2[0] = hd
						s2, err := SignF(k.N, k.D, f2)
						if err != nil {
							continue
						}
						if ok, _, _, _ := Verify(k.N, k.E, s2, m2); ok {
							t.Fatalf("header %02x accepted", hd)
						}
					}
					// MinS
					s3, _ := Sign(k.N, k.D, m1, m2, h, tr, MinS())
					v := new(big.Int).SetBytes(s3)
					if v.Cmp(new(big.Int).Sub(k.N, v)) > 0 {
						t.Fatal("MinS did not minimise")
					}
				}
			}
		}
	}
}

func TestSPKI(t *testing.T) {
	for _, k := range Pool() {
		var sp struct {
			Alg struct {
				OID    asn1.ObjectIdentifier
				Params asn1.RawValue
			}
			Key asn1.BitString
		}
		if rest, err := asn1.Unmarshal(SPKI(k.N, k.E), &sp); err != nil || len(rest) != 0 {
			t.Fatal(err)
		}
		var pk struct{ N, E *big.Int }
		if rest, err := asn1.Unmarshal(sp.Key.Bytes, &pk); err != nil || len(rest) != 0 || pk.N.Cmp(k.N) != 0 || pk.E.Cmp(k.E) != 0 {
			t.Fatal("RSAPublicKey")
		}
		if sp.Alg.OID.String() != "1.2.840.113549.1.1.1" || sp.Alg.Params.Tag != 5 {
			t.Fatal("alg")
		}
	}
}

func TestTrailerTable(t *testing.T) {
	// ISO/IEC 10118-3 dedicated hash-function identifiers
	want := map[Trailer]crypto.Hash{0xBC: crypto.SHA1, 0x33CC: crypto.SHA1, 0x38CC: crypto.SHA224, 0x34CC: crypto.SHA256, 0x36CC: crypto.SHA384, 0x35CC: crypto.SHA512}
	for tr, h := range want {
		if tr.Hash() != h || DigestLen(h) != h.Size() {
			t.Fatalf("%s", tr)
		}
	}
	if Trailer(0x31CC).Hash() != 0 || Trailer(0x32CC).Hash() != 0 {
		t.Fatal("RIPEMD ids must be unknown")
	}
	if TrailerFor(crypto.SHA1) != TrailerBC || TrailerFor(crypto.SHA512) != TrailerSHA512 {
		t.Fatal("TrailerFor")
	}
}
