//go:build ignore

// Throwaway generator for /verif/harness/ref/iso9796/keys.go (fixed seed, own prime search).
package main

import (
	"crypto/sha256"
	"encoding/binary"
	"fmt"
	"math/big"
	"os"
	"strings"
)

type stream struct {
	seed string
	ctr  uint64
}

func (s *stream) bytes(n int) []byte {
	var out []byte
	for len(out) < n {
		var c [8]byte
		binary.BigEndian.PutUint64(c[:], s.ctr)
		s.ctr++
		h := sha256.Sum256(append([]byte(s.seed), c[:]...))
		out = append(out, h[:]...)
	}
	return out[:n]
}

var one = big.NewInt(1)

// prime with exactly `bits` bits, top two bits free (only the top bit forced), p-1 coprime to e
func (s *stream) prime(bits int, e *big.Int) *big.Int {
	for {
		b := s.bytes((bits + 7) / 8)
		p := new(big.Int).SetBytes(b)
		p.SetBit(p, 0, 1)
		for i := p.BitLen(); i > bits; i-- {
			p.SetBit(p, i-1, 0)
		}
		p.SetBit(p, bits-1, 1)
		// incremental search
		for j := 0; j < 4096; j++ {
			if p.BitLen() != bits {
				break
			}
			if p.ProbablyPrime(32) {
				pm1 := new(big.Int).Sub(p, one)
				if new(big.Int).GCD(nil, nil, pm1, e).Cmp(one) == 0 {
					return p
				}
			}
			p.Add(p, big.NewInt(2))
		}
	}
}

type key struct {
	bits       int
	n, e, d    *big.Int
	p, q       *big.Int
	topByte    byte
	constraint string
}

// constraint: "" | "lo" (6B00.. > n, i.e. FLen = w-1) | "hi" (6B00.. <= n)
func (s *stream) gen(bits int, e int64, constraint string) key {
	E := big.NewInt(e)
	for {
		pb := (bits + 1) / 2
		qb := bits - pb
		if bits%2 == 1 {
			// odd: pb+qb=bits; product has bits or bits-1 bits
		}
		p := s.prime(pb, E)
		q := s.prime(qb, E)
		if p.Cmp(q) == 0 {
			continue
		}
		n := new(big.Int).Mul(p, q)
		if n.BitLen() != bits {
			// try one size up for q when the product fell short
			q = s.prime(qb+1, E)
			n = new(big.Int).Mul(p, q)
			if n.BitLen() != bits {
				continue
			}
		}
		w := (bits + 7) / 8
		bound := new(big.Int).Lsh(big.NewInt(0x6B), uint(8*(w-1)))
		hi := bound.Cmp(n) <= 0
		if constraint == "lo" && hi || constraint == "hi" && !hi {
			continue
		}
		// also avoid the ambiguous band 6A00.. <= n < 6B00..
		low := new(big.Int).Lsh(big.NewInt(0x6A), uint(8*(w-1)))
		if !hi && low.Cmp(n) <= 0 {
			continue
		}
		pm1 := new(big.Int).Sub(p, one)
		qm1 := new(big.Int).Sub(q, one)
		g := new(big.Int).GCD(nil, nil, pm1, qm1)
		lambda := new(big.Int).Mul(pm1, qm1)
		lambda.Div(lambda, g)
		d := new(big.Int).ModInverse(E, lambda)
		if d == nil {
			continue
		}
		// self-test
		m := new(big.Int).SetBytes(s.bytes(w - 1))
		c := new(big.Int).Exp(m, d, n)
		if new(big.Int).Exp(c, E, n).Cmp(m) != 0 {
			panic("self-test")
		}
		return key{bits: bits, n: n, e: E, d: d, p: p, q: q, topByte: n.Bytes()[0], constraint: constraint}
	}
}

func wrap(h string) string {
	var sb strings.Builder
	for len(h) > 0 {
		k := 96
		if len(h) < k {
			k = len(h)
		}
		sb.WriteString("\t\t\"" + h[:k] + "\" +\n")
		h = h[k:]
	}
	out := sb.String()
	return strings.TrimSuffix(out, " +\n")
}

func main() {
	s := &stream{seed: "gmrtd-verif C07 RSA key pool v1"}
	type spec struct {
		bits int
		e    int64
		c    string
	}
	var specs []spec
	others := []int64{17, 257, 5, 4294967311, 41, 1234577, 7, 11, 4097}
	i := 0
	for _, bits := range []int{1024, 1028, 1280, 1536, 2047, 2048, 3071, 3072, 4096} {
		c := [3]string{"", "", ""}
		if bits == 2047 || bits == 3071 {
			c = [3]string{"lo", "hi", "lo"}
		}
		specs = append(specs, spec{bits, 3, c[0]}, spec{bits, 65537, c[1]}, spec{bits, others[i], c[2]})
		i++
	}
	var sb strings.Builder
	sb.WriteString("// Code generated ONCE by a throwaway program (fixed seed \"gmrtd-verif C07 RSA key pool v1\",\n// SHA-256 counter stream, incremental prime search with ProbablyPrime(32)); DO NOT EDIT.\n// Test keys - the private exponents are public knowledge.\n\npackage iso9796\n\nvar poolHex = []struct {\n\tbits       int\n\te          int64\n\tn, d, p, q string\n}{\n")
	for _, sp := range specs {
		k := s.gen(sp.bits, sp.e, sp.c)
		fmt.Fprintf(os.Stderr, "%d e=%d top=%02x %s\n", k.bits, sp.e, k.topByte, sp.c)
		fmt.Fprintf(&sb, "\t{%d, %d,\n%s,\n%s,\n%s,\n%s},\n", k.bits, sp.e, wrap(k.n.Text(16)), wrap(k.d.Text(16)), wrap(k.p.Text(16)), wrap(k.q.Text(16)))
	}
	sb.WriteString("}\n")
	os.WriteFile(os.Args[1], []byte(sb.String()), 0o644)
}
