// Package der is a small DER/BER *builder* (no gmrtd imports, standard library
// only).  Every function returns a freshly allocated, complete TLV (identifier,
// length, content) unless stated otherwise.  The default is DER (definite,
// minimal lengths); TLVLen gives explicit control over the length form so that
// generators can produce non-minimal and indefinite BER.
//
// Builder functions panic on programmer errors (malformed OID string, a
// non-printable PrintableString, negative tag number): inputs come from
// generators, not from the code under test.
package der

import (
	"bytes"
	"fmt"
	"math/big"
	"sort"
	"strconv"
	"strings"
	"time"
	"unicode/utf16"
)

// Universal tags (identifier octets).
const (
	TagBoolean         = 0x01
	TagInteger         = 0x02
	TagBitString       = 0x03
	TagOctetString     = 0x04
	TagNull            = 0x05
	TagOID             = 0x06
	TagEnumerated      = 0x0A
	TagUTF8String      = 0x0C
	TagPrintableString = 0x13
	TagT61String       = 0x14
	TagIA5String       = 0x16
	TagUTCTime         = 0x17
	TagGeneralizedTime = 0x18
	TagBMPString       = 0x1E
	TagSequence        = 0x30
	TagSet             = 0x31
)

// ---------------------------------------------------------------- identifier / length

// TagBytes unpacks a packed tag (identifier octets big-endian in a uint32, the
// convention of gmrtd's tlv.TlvTag and of ref/ber: 0x30, 0x5F1F, 0x7F61) into
// its octets.  0 is the single octet 00.
func TagBytes(tag uint32) []byte {
	switch {
	case tag > 0xffffff:
		return []byte{byte(tag >> 24), byte(tag >> 16), byte(tag >> 8), byte(tag)}
	case tag > 0xffff:
		return []byte{byte(tag >> 16), byte(tag >> 8), byte(tag)}
	case tag > 0xff:
		return []byte{byte(tag >> 8), byte(tag)}
	}
	return []byte{byte(tag)}
}

// Class bits of the first identifier octet.
const (
	ClassUniversal   = 0x00
	ClassApplication = 0x40
	ClassContext     = 0x80
	ClassPrivate     = 0xC0
)

// Identifier builds the identifier octets for (class, constructed, number)
// in the shortest form (low form below 31, else high-tag-number form).
func Identifier(class byte, constructed bool, number int) []byte {
	if number < 0 {
		panic("der: negative tag number")
	}
	first := class & 0xC0
	if constructed {
		first |= 0x20
	}
	if number < 31 {
		return []byte{first | byte(number)}
	}
	out := []byte{first | 0x1f}
	var sept []byte
	for n := number; n > 0; n >>= 7 {
		sept = append(sept, byte(n&0x7f))
	}
	for i := len(sept) - 1; i >= 0; i-- {
		b := sept[i]
		if i > 0 {
			b |= 0x80
		}
		out = append(out, b)
	}
	return out
}

// LenForm selects how TLVLen writes the length.
type LenForm struct {
	kind  int // 0 minimal, 1 long (possibly non-minimal), 2 indefinite
	extra int
}

// Minimal is the DER length: short form below 128, else the long form with the
// fewest octets.
var Minimal = LenForm{}

// Indefinite writes 80 as the length and appends the end-of-contents octets
// 00 00 after the content.  Legal for constructed identifiers only (TLVLen does
// not check: generators may want the illegal combination).
var Indefinite = LenForm{kind: 2}

// LongNonMinimal(k) forces the long form: 8x, then k zero octets, then the
// length as the fewest big-endian octets (at least one).  LongNonMinimal(0)
// gives 81 05 for a length of 5 (non-minimal because the short form exists) and
// is identical to Minimal for lengths >= 128.  k + needed octets must be <= 126.
func LongNonMinimal(k int) LenForm {
	if k < 0 {
		panic("der: negative padding")
	}
	return LenForm{kind: 1, extra: k}
}

// Length returns the length octets for n in the given form (for Indefinite: 80).
func Length(n int, form LenForm) []byte {
	if n < 0 {
		panic("der: negative length")
	}
	switch form.kind {
	case 2:
		return []byte{0x80}
	case 0:
		if n < 0x80 {
			return []byte{byte(n)}
		}
		fallthrough
	default:
		var sig []byte
		for v := n; v > 0; v >>= 8 {
			sig = append([]byte{byte(v)}, sig...)
		}
		if len(sig) == 0 {
			sig = []byte{0}
		}
		k := form.extra
		if form.kind == 0 {
			k = 0
		}
		if k+len(sig) > 126 {
			panic("der: too many length octets")
		}
		out := make([]byte, 0, 1+k+len(sig))
		out = append(out, byte(0x80|(k+len(sig))))
		out = append(out, make([]byte, k)...)
		return append(out, sig...)
	}
}

// TLV returns identifier(tag, packed) + minimal definite length + content.
func TLV(tag uint32, content []byte) []byte { return TLVLen(TagBytes(tag), content, Minimal) }

// TLVBytes is TLV with the identifier given as raw octets.
func TLVBytes(tagBytes []byte, content []byte) []byte { return TLVLen(tagBytes, content, Minimal) }

// TLVLen returns tagBytes + length in the chosen form + content (+ 00 00 for Indefinite).
func TLVLen(tagBytes []byte, content []byte, form LenForm) []byte {
	l := Length(len(content), form)
	out := make([]byte, 0, len(tagBytes)+len(l)+len(content)+2)
	out = append(out, tagBytes...)
	out = append(out, l...)
	out = append(out, content...)
	if form.kind == 2 {
		out = append(out, 0, 0)
	}
	return out
}

// Cat concatenates.
func Cat(parts ...[]byte) []byte {
	n := 0
	for _, p := range parts {
		n += len(p)
	}
	out := make([]byte, 0, n)
	for _, p := range parts {
		out = append(out, p...)
	}
	return out
}

// ---------------------------------------------------------------- constructed types

// Seq wraps the concatenated parts in a SEQUENCE (30).
func Seq(parts ...[]byte) []byte { return TLV(TagSequence, Cat(parts...)) }

// Set wraps the parts in a SET (31) in the given order (no sorting).
func Set(parts ...[]byte) []byte { return TLV(TagSet, Cat(parts...)) }

// SetSorted wraps the parts in a SET (31) in DER SET OF order: ascending by
// their encodings compared as octet strings (X.690 11.6).
func SetSorted(parts ...[]byte) []byte {
	s := make([][]byte, len(parts))
	copy(s, parts)
	sort.SliceStable(s, func(i, j int) bool { return bytes.Compare(s[i], s[j]) < 0 })
	return TLV(TagSet, Cat(s...))
}

// Explicit wraps inner (a complete TLV, or several) in the constructed
// context-specific tag [n].
func Explicit(n int, inner []byte) []byte {
	return TLVBytes(Identifier(ClassContext, true, n), inner)
}

// Implicit builds [n] IMPLICIT: context-specific tag n, primitive or
// constructed as stated, around the given *content* octets (not a TLV).
func Implicit(n int, constructed bool, content []byte) []byte {
	return TLVBytes(Identifier(ClassContext, constructed, n), content)
}

// Application builds an application-class TLV ([APPLICATION n]) around content.
func Application(n int, constructed bool, content []byte) []byte {
	return TLVBytes(Identifier(ClassApplication, constructed, n), content)
}

// Retag replaces the identifier octets of a complete TLV (used to turn a
// universal type into an IMPLICIT-tagged one, keeping length and content).
func Retag(tlv []byte, newTagBytes []byte) []byte {
	i := 1
	if tlv[0]&0x1f == 0x1f {
		for tlv[i]&0x80 != 0 {
			i++
		}
		i++
	}
	return Cat(newTagBytes, tlv[i:])
}

// ---------------------------------------------------------------- primitive types

// IntContent is the two's-complement content octets of an INTEGER (shortest form).
func IntContent(v *big.Int) []byte {
	switch v.Sign() {
	case 0:
		return []byte{0}
	case 1:
		b := v.Bytes()
		if b[0]&0x80 != 0 {
			b = append([]byte{0}, b...)
		}
		return b
	}
	// negative: two's complement of |v| in the smallest number of octets
	n := (v.BitLen() + 8) / 8 // enough octets to hold the sign bit
	mod := new(big.Int).Lsh(big.NewInt(1), uint(8*n))
	t := new(big.Int).Add(mod, v)
	b := t.Bytes()
	for len(b) < n {
		b = append([]byte{0}, b...)
	}
	// strip redundant leading FF octets
	for len(b) > 1 && b[0] == 0xff && b[1]&0x80 != 0 {
		b = b[1:]
	}
	return b
}

func Int(v *big.Int) []byte        { return TLV(TagInteger, IntContent(v)) }
func IntFromInt64(v int64) []byte  { return Int(big.NewInt(v)) }
func IntFromBytes(b []byte) []byte { return Int(new(big.Int).SetBytes(b)) } // unsigned big-endian magnitude
func Enumerated(v int64) []byte    { return TLV(TagEnumerated, IntContent(big.NewInt(v))) }

// OIDContent encodes a dotted OID string into content octets.
func OIDContent(dotted string) []byte {
	parts := strings.Split(dotted, ".")
	if len(parts) < 2 {
		panic("der: OID needs at least two arcs: " + dotted)
	}
	arcs := make([]*big.Int, len(parts))
	for i, p := range parts {
		v, ok := new(big.Int).SetString(p, 10)
		if !ok || v.Sign() < 0 {
			panic("der: bad OID arc in " + dotted)
		}
		arcs[i] = v
	}
	a0, a1 := arcs[0].Int64(), arcs[1]
	if !arcs[0].IsInt64() || a0 > 2 || (a0 < 2 && a1.Cmp(big.NewInt(39)) > 0) {
		panic("der: bad first OID arcs in " + dotted)
	}
	first := new(big.Int).Add(big.NewInt(40*a0), a1)
	var out []byte
	out = appendBase128(out, first)
	for _, a := range arcs[2:] {
		out = appendBase128(out, a)
	}
	return out
}

func appendBase128(dst []byte, v *big.Int) []byte {
	if v.Sign() == 0 {
		return append(dst, 0)
	}
	var sept []byte
	t := new(big.Int).Set(v)
	m := big.NewInt(0x7f)
	for t.Sign() > 0 {
		sept = append(sept, byte(new(big.Int).And(t, m).Int64()))
		t.Rsh(t, 7)
	}
	for i := len(sept) - 1; i >= 0; i-- {
		b := sept[i]
		if i > 0 {
			b |= 0x80
		}
		dst = append(dst, b)
	}
	return dst
}

func OID(dotted string) []byte      { return TLV(TagOID, OIDContent(dotted)) }
func OctetString(b []byte) []byte   { return TLV(TagOctetString, b) }
func Null() []byte                  { return []byte{TagNull, 0} }
func UTF8(s string) []byte          { return TLV(TagUTF8String, []byte(s)) }
func IA5(s string) []byte           { return TLV(TagIA5String, []byte(s)) }
func T61(s string) []byte           { return TLV(TagT61String, []byte(s)) }
func NumericString(s string) []byte { return TLV(0x12, []byte(s)) }

// BitString: b with `unused` (0..7) unused bits in the last octet.
func BitString(b []byte, unused int) []byte {
	if unused < 0 || unused > 7 || (len(b) == 0 && unused != 0) {
		panic("der: bad unused-bit count")
	}
	return TLV(TagBitString, Cat([]byte{byte(unused)}, b))
}

func Bool(v bool) []byte {
	if v {
		return []byte{TagBoolean, 1, 0xff}
	}
	return []byte{TagBoolean, 1, 0}
}

// Printable builds a PrintableString; panics if s has characters outside the
// PrintableString alphabet (use PrintableUnchecked for hostile content).
func Printable(s string) []byte {
	for _, c := range []byte(s) {
		ok := c >= 'a' && c <= 'z' || c >= 'A' && c <= 'Z' || c >= '0' && c <= '9' || strings.IndexByte(" '()+,-./:=?", c) >= 0
		if !ok {
			panic(fmt.Sprintf("der: %q is not a PrintableString", s))
		}
	}
	return TLV(TagPrintableString, []byte(s))
}

func PrintableUnchecked(s string) []byte { return TLV(TagPrintableString, []byte(s)) }

// BMP builds a BMPString (UTF-16BE; characters outside the BMP become surrogate pairs).
func BMP(s string) []byte {
	u := utf16.Encode([]rune(s))
	b := make([]byte, 0, 2*len(u))
	for _, c := range u {
		b = append(b, byte(c>>8), byte(c))
	}
	return TLV(TagBMPString, b)
}

// UTCTime: YYMMDDHHMMSSZ in UTC (DER form).
func UTCTime(t time.Time) []byte {
	return TLV(TagUTCTime, []byte(t.UTC().Format("060102150405Z")))
}

// GeneralizedTime: YYYYMMDDHHMMSSZ in UTC, no fractional seconds (DER form).
func GeneralizedTime(t time.Time) []byte {
	return TLV(TagGeneralizedTime, []byte(t.UTC().Format("20060102150405Z")))
}

// Time picks UTCTime for years 1950..2049 and GeneralizedTime otherwise (RFC 5280).
func Time(t time.Time) []byte {
	if y := t.UTC().Year(); y >= 1950 && y < 2050 {
		return UTCTime(t)
	}
	return GeneralizedTime(t)
}

// Itoa is a tiny helper for building dotted OIDs.
func Itoa(n int) string { return strconv.Itoa(n) }
