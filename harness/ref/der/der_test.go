package der

import (
	"bytes"
	"encoding/asn1"
	"encoding/hex"
	"math/big"
	"testing"
	"time"
)

func mustMarshal(t *testing.T, v any, params string) []byte {
	t.Helper()
	b, err := asn1.MarshalWithParams(v, params)
	if err != nil {
		t.Fatal(err)
	}
	return b
}

func eq(t *testing.T, what string, got, want []byte) {
	t.Helper()
	if !bytes.Equal(got, want) {
		t.Errorf("%s: got %x want %x", what, got, want)
	}
}

func TestIntegers(t *testing.T) {
	vals := []int64{0, 1, -1, 127, 128, -128, -129, 255, 256, -256, -257, 32767, 32768, -32768, -32769, 1 << 31, -(1 << 31), 1<<62 + 5, -(1 << 62) - 7}
	for _, v := range vals {
		eq(t, "int", IntFromInt64(v), mustMarshal(t, v, ""))
		var back int64
		if rest, err := asn1.Unmarshal(IntFromInt64(v), &back); err != nil || len(rest) != 0 || back != v {
			t.Errorf("int %d round trip: %v %d", v, err, back)
		}
	}
	for _, sh := range []uint{7, 8, 63, 64, 255, 256, 511, 521, 2047} {
		for _, d := range []int64{-1, 0, 1} {
			for _, sign := range []int64{1, -1} {
				v := new(big.Int).Lsh(big.NewInt(1), sh)
				v.Add(v, big.NewInt(d))
				v.Mul(v, big.NewInt(sign))
				eq(t, "bigint", Int(v), mustMarshal(t, v, ""))
				var back *big.Int
				if _, err := asn1.Unmarshal(Int(v), &back); err != nil || back.Cmp(v) != 0 {
					t.Errorf("bigint round trip %v", v)
				}
			}
		}
	}
	eq(t, "enum", Enumerated(5), mustMarshal(t, asn1.Enumerated(5), ""))
	eq(t, "intFromBytes", IntFromBytes([]byte{0x80, 0x01}), []byte{2, 3, 0, 0x80, 1})
}

func TestOIDs(t *testing.T) {
	for _, c := range []struct {
		s string
		o asn1.ObjectIdentifier
	}{
		{"1.2.840.113549.1.7.2", asn1.ObjectIdentifier{1, 2, 840, 113549, 1, 7, 2}},
		{"0.4.0.127.0.7.2.2.4.2.2", asn1.ObjectIdentifier{0, 4, 0, 127, 0, 7, 2, 2, 4, 2, 2}},
		{"2.23.136.1.1.1", asn1.ObjectIdentifier{2, 23, 136, 1, 1, 1}},
		{"2.999.1", asn1.ObjectIdentifier{2, 999, 1}},
		{"1.3.36.3.3.2.8.1.1.7", asn1.ObjectIdentifier{1, 3, 36, 3, 3, 2, 8, 1, 1, 7}},
		{"0.0", asn1.ObjectIdentifier{0, 0}},
		{"1.39.16383.16384.2147483647", asn1.ObjectIdentifier{1, 39, 16383, 16384, 2147483647}},
	} {
		eq(t, "oid "+c.s, OID(c.s), mustMarshal(t, c.o, ""))
		var back asn1.ObjectIdentifier
		if _, err := asn1.Unmarshal(OID(c.s), &back); err != nil || !back.Equal(c.o) {
			t.Errorf("oid %s round trip: %v %v", c.s, err, back)
		}
	}
}

func TestStringsTimesMisc(t *testing.T) {
	eq(t, "utf8", UTF8("Zürich ✓"), mustMarshal(t, "Zürich ✓", "utf8"))
	eq(t, "printable", Printable("Utopia (UT) 01"), mustMarshal(t, "Utopia (UT) 01", "printable"))
	eq(t, "ia5", IA5("a@b.example"), mustMarshal(t, "a@b.example", "ia5"))
	eq(t, "numeric", NumericString("0123 4"), mustMarshal(t, "0123 4", "numeric"))
	eq(t, "octets", OctetString([]byte{1, 2, 3}), mustMarshal(t, []byte{1, 2, 3}, ""))
	eq(t, "octets200", OctetString(make([]byte, 200)), mustMarshal(t, make([]byte, 200), ""))
	eq(t, "octets70000", OctetString(make([]byte, 70000)), mustMarshal(t, make([]byte, 70000), ""))
	eq(t, "null", Null(), mustMarshal(t, asn1.NullRawValue, ""))
	eq(t, "true", Bool(true), mustMarshal(t, true, ""))
	eq(t, "false", Bool(false), mustMarshal(t, false, ""))
	eq(t, "bits", BitString([]byte{0xA0}, 5), mustMarshal(t, asn1.BitString{Bytes: []byte{0xA0}, BitLength: 3}, ""))
	eq(t, "bits0", BitString(nil, 0), mustMarshal(t, asn1.BitString{}, ""))

	// BMPString: encoding/asn1 can only parse it
	var s string
	if _, err := asn1.Unmarshal(BMP("Grüße €"), &s); err != nil || s != "Grüße €" {
		t.Errorf("bmp: %v %q", err, s)
	}
	if _, err := asn1.Unmarshal(T61("abc"), &s); err != nil || s != "abc" {
		t.Errorf("t61: %v %q", err, s)
	}

	loc := time.FixedZone("x", 3*3600)
	for _, tm := range []time.Time{
		time.Date(2031, 12, 31, 23, 59, 59, 0, time.UTC),
		time.Date(1999, 1, 2, 3, 4, 5, 0, time.UTC),
		time.Date(2024, 2, 29, 12, 0, 0, 0, loc),
	} {
		eq(t, "utctime", UTCTime(tm), mustMarshal(t, tm.UTC(), "utc"))
		eq(t, "gentime", GeneralizedTime(tm), mustMarshal(t, tm.UTC(), "generalized"))
		eq(t, "time", Time(tm), mustMarshal(t, tm.UTC(), ""))
		var back time.Time
		if _, err := asn1.Unmarshal(UTCTime(tm), &back); err != nil || !back.Equal(tm) {
			t.Errorf("utctime round trip %v %v", err, back)
		}
		if _, err := asn1.UnmarshalWithParams(GeneralizedTime(tm), &back, "generalized"); err != nil || !back.Equal(tm) {
			t.Errorf("gentime round trip %v %v", err, back)
		}
	}
	far := time.Date(2050, 1, 1, 0, 0, 0, 0, time.UTC)
	eq(t, "time2050", Time(far), mustMarshal(t, far, ""))
}

func TestStructures(t *testing.T) {
	type algID struct {
		Alg    asn1.ObjectIdentifier
		Params asn1.RawValue `asn1:"optional"`
	}
	type inner struct {
		V   int `asn1:"explicit,tag:0,default:0"`
		Alg algID
		Set []int  `asn1:"set"`
		K   []byte `asn1:"tag:1"`
		S   string `asn1:"tag:35,ia5"`
		Sub algID  `asn1:"tag:2"`
		Exp algID  `asn1:"explicit,tag:40"`
	}
	v := inner{V: 3, Alg: algID{Alg: asn1.ObjectIdentifier{1, 2, 3}, Params: asn1.NullRawValue}, Set: []int{300, 1, 2},
		K: []byte{9, 9}, S: "x", Sub: algID{Alg: asn1.ObjectIdentifier{2, 5, 4, 3}}, Exp: algID{Alg: asn1.ObjectIdentifier{2, 5}}}
	want := mustMarshal(t, v, "")
	got := Seq(
		Explicit(0, IntFromInt64(3)),
		Seq(OID("1.2.3"), Null()),
		SetSorted(IntFromInt64(300), IntFromInt64(1), IntFromInt64(2)),
		Implicit(1, false, []byte{9, 9}),
		Implicit(35, false, []byte("x")),
		Implicit(2, true, OID("2.5.4.3")),
		Explicit(40, Seq(OID("2.5"))),
	)
	eq(t, "struct", got, want)
	var back inner
	if rest, err := asn1.Unmarshal(got, &back); err != nil || len(rest) != 0 || back.V != 3 || back.S != "x" || len(back.Set) != 3 {
		t.Errorf("struct round trip: %v %+v", err, back)
	}
	eq(t, "set unsorted", Set(IntFromInt64(300), IntFromInt64(1)), hx("3107"+"0202012c"+"020101"))
	eq(t, "retag", Retag(Seq(Null()), Identifier(ClassContext, true, 3)), hx("a3020500"))
	eq(t, "retag high", Retag(Application(33, true, Null()), []byte{0x30}), hx("30020500"))
	eq(t, "application", Application(1, true, Null()), hx("61020500"))
	eq(t, "application33", Application(33, true, Null()), hx("7f21020500"))
	eq(t, "tlv packed", TLV(0x5f1f, []byte{1}), hx("5f1f0101"))
	eq(t, "tlv packed4", TLV(0x7f818001, nil), hx("7f81800100"))
	eq(t, "tagbytes0", TLV(0, []byte{1}), hx("000101"))
}

func hx(s string) []byte {
	b, err := hex.DecodeString(s)
	if err != nil {
		panic(err)
	}
	return b
}

func TestIdentifierAndLengthForms(t *testing.T) {
	eq(t, "id30", Identifier(ClassContext, true, 30), hx("be"))
	eq(t, "id31", Identifier(ClassContext, true, 31), hx("bf1f"))
	eq(t, "id127", Identifier(ClassApplication, false, 127), hx("5f7f"))
	eq(t, "id128", Identifier(ClassApplication, false, 128), hx("5f8100"))
	eq(t, "id16384", Identifier(ClassPrivate, false, 16384), hx("df818000"))

	c5 := []byte{1, 2, 3, 4, 5}
	eq(t, "min5", TLVLen([]byte{4}, c5, Minimal), hx("04050102030405"))
	eq(t, "long0", TLVLen([]byte{4}, c5, LongNonMinimal(0)), hx("0481050102030405"))
	eq(t, "long3", TLVLen([]byte{4}, c5, LongNonMinimal(3)), hx("0484000000050102030405"))
	eq(t, "long0-empty", TLVLen([]byte{4}, nil, LongNonMinimal(0)), hx("048100"))
	eq(t, "indef", TLVLen([]byte{0x30}, hx("0400"), Indefinite), hx("308004000000"))
	c200 := make([]byte, 200)
	eq(t, "min200", TLVLen([]byte{4}, c200, Minimal)[:3], hx("0481c8"))
	eq(t, "long0-200", TLVLen([]byte{4}, c200, LongNonMinimal(0))[:3], hx("0481c8"))
	eq(t, "long1-200", TLVLen([]byte{4}, c200, LongNonMinimal(1))[:4], hx("048200c8"))
	c300 := make([]byte, 300)
	eq(t, "min300", TLVLen([]byte{4}, c300, Minimal)[:4], hx("0482012c"))
	eq(t, "len65536", Length(65536, Minimal), hx("83010000"))
	eq(t, "len16M", Length(1<<24, Minimal), hx("8401000000"))

	// every non-minimal definite form still parses with encoding/asn1? (it rejects
	// non-minimal lengths, being DER-only) - so only check the minimal ones there.
	for _, n := range []int{0, 1, 127, 128, 255, 256, 65535, 65536} {
		var back []byte
		if rest, err := asn1.Unmarshal(OctetString(make([]byte, n)), &back); err != nil || len(rest) != 0 || len(back) != n {
			t.Errorf("len %d: %v", n, err)
		}
	}
}
