package ecc

import (
	"crypto/elliptic"
	"fmt"
	"math/big"
)

func hx(s string) *big.Int {
	v, ok := new(big.Int).SetString(s, 16)
	if !ok {
		panic("ecc: bad hex constant " + s)
	}
	return v
}

func hb(s string) []byte {
	if s == "" {
		return nil
	}
	v := hx(s)
	b := make([]byte, len(s)/2)
	return v.FillBytes(b)
}

// fromStd copies a NIST curve from crypto/elliptic (which publishes p, b, G, n
// and fixes a = -3).
func fromStd(name string, e elliptic.Curve, oid string, paceID int, seed string) *Curve {
	p := e.Params()
	a := new(big.Int).Sub(p.P, big.NewInt(3))
	return &Curve{
		Name: name, P: new(big.Int).Set(p.P), A: a, B: new(big.Int).Set(p.B),
		Gx: new(big.Int).Set(p.Gx), Gy: new(big.Int).Set(p.Gy), N: new(big.Int).Set(p.N),
		H: 1, ByteLen: (p.P.BitLen() + 7) / 8, OID: oid, PaceID: paceID, Seed: hb(seed),
	}
}

func typed(name, p, a, b, gx, gy, n, oid string, paceID int, seed string) *Curve {
	c := &Curve{Name: name, P: hx(p), A: hx(a), B: hx(b), Gx: hx(gx), Gy: hx(gy), N: hx(n), H: 1, OID: oid, PaceID: paceID, Seed: hb(seed)}
	c.ByteLen = (c.P.BitLen() + 7) / 8
	return c
}

// The table.  NIST P-224..P-521 from crypto/elliptic; P-192 typed in from FIPS
// 186-4 D.1.2.1; brainpool curves typed in from RFC 5639 section 3.  The seeds
// are the FIPS 186-4 SEED values (informational; only emitted on request).
var table = []*Curve{
	typed("P-192",
		"FFFFFFFFFFFFFFFFFFFFFFFFFFFFFFFEFFFFFFFFFFFFFFFF",
		"FFFFFFFFFFFFFFFFFFFFFFFFFFFFFFFEFFFFFFFFFFFFFFFC",
		"64210519E59C80E70FA7E9AB72243049FEB8DEECC146B9B1",
		"188DA80EB03090F67CBF20EB43A18800F4FF0AFD82FF1012",
		"07192B95FFC8DA78631011ED6B24CDD573F977A11E794811",
		"FFFFFFFFFFFFFFFFFFFFFFFF99DEF836146BC9B1B4D22831",
		"1.2.840.10045.3.1.1", 8, "3045AE6FC8422F64ED579528D38120EAE12196D5"),
	fromStd("P-224", elliptic.P224(), "1.3.132.0.33", 10, "BD71344799D5C7FCDC45B59FA3B9AB8F6A948BC5"),
	fromStd("P-256", elliptic.P256(), "1.2.840.10045.3.1.7", 12, "C49D360886E704936A6678E1139D26B7819F7E90"),
	fromStd("P-384", elliptic.P384(), "1.3.132.0.34", 15, "A335926AA319A27A1D00896A6773A4827ACDAC73"),
	fromStd("P-521", elliptic.P521(), "1.3.132.0.35", 18, "D09E8800291CB85396CC6717393284AAA0DA64BA"),
	typed("brainpoolP192r1",
		"C302F41D932A36CDA7A3463093D18DB78FCE476DE1A86297",
		"6A91174076B1E0E19C39C031FE8685C1CAE040E5C69A28EF",
		"469A28EF7C28CCA3DC721D044F4496BCCA7EF4146FBF25C9",
		"C0A0647EAAB6A48753B033C56CB0F0900A2F5C4853375FD6",
		"14B690866ABD5BB88B5F4828C1490002E6773FA2FA299B8F",
		"C302F41D932A36CDA7A3462F9E9E916B5BE8F1029AC4ACC1",
		"1.3.36.3.3.2.8.1.1.3", 9, ""),
	typed("brainpoolP224r1",
		"D7C134AA264366862A18302575D1D787B09F075797DA89F57EC8C0FF",
		"68A5E62CA9CE6C1C299803A6C1530B514E182AD8B0042A59CAD29F43",
		"2580F63CCFE44138870713B1A92369E33E2135D266DBB372386C400B",
		"0D9029AD2C7E5CF4340823B2A87DC68C9E4CE3174C1E6EFDEE12C07D",
		"58AA56F772C0726F24C6B89E4ECDAC24354B9E99CAA3F6D3761402CD",
		"D7C134AA264366862A18302575D0FB98D116BC4B6DDEBCA3A5A7939F",
		"1.3.36.3.3.2.8.1.1.5", 11, ""),
	typed("brainpoolP256r1",
		"A9FB57DBA1EEA9BC3E660A909D838D726E3BF623D52620282013481D1F6E5377",
		"7D5A0975FC2C3057EEF67530417AFFE7FB8055C126DC5C6CE94A4B44F330B5D9",
		"26DC5C6CE94A4B44F330B5D9BBD77CBF958416295CF7E1CE6BCCDC18FF8C07B6",
		"8BD2AEB9CB7E57CB2C4B482FFC81B7AFB9DE27E1E3BD23C23A4453BD9ACE3262",
		"547EF835C3DAC4FD97F8461A14611DC9C27745132DED8E545C1D54C72F046997",
		"A9FB57DBA1EEA9BC3E660A909D838D718C397AA3B561A6F7901E0E82974856A7",
		"1.3.36.3.3.2.8.1.1.7", 13, ""),
	typed("brainpoolP320r1",
		"D35E472036BC4FB7E13C785ED201E065F98FCFA6F6F40DEF4F92B9EC7893EC28FCD412B1F1B32E27",
		"3EE30B568FBAB0F883CCEBD46D3F3BB8A2A73513F5EB79DA66190EB085FFA9F492F375A97D860EB4",
		"520883949DFDBC42D3AD198640688A6FE13F41349554B49ACC31DCCD884539816F5EB4AC8FB1F1A6",
		"43BD7E9AFB53D8B85289BCC48EE5BFE6F20137D10A087EB6E7871E2A10A599C710AF8D0D39E20611",
		"14FDD05545EC1CC8AB4093247F77275E0743FFED117182EAA9C77877AAAC6AC7D35245D1692E8EE1",
		"D35E472036BC4FB7E13C785ED201E065F98FCFA5B68F12A32D482EC7EE8658E98691555B44C59311",
		"1.3.36.3.3.2.8.1.1.9", 14, ""),
	typed("brainpoolP384r1",
		"8CB91E82A3386D280F5D6F7E50E641DF152F7109ED5456B412B1DA197FB71123ACD3A729901D1A71874700133107EC53",
		"7BC382C63D8C150C3C72080ACE05AFA0C2BEA28E4FB22787139165EFBA91F90F8AA5814A503AD4EB04A8C7DD22CE2826",
		"04A8C7DD22CE28268B39B55416F0447C2FB77DE107DCD2A62E880EA53EEB62D57CB4390295DBC9943AB78696FA504C11",
		"1D1C64F068CF45FFA2A63A81B7C13F6B8847A3E77EF14FE3DB7FCAFE0CBD10E8E826E03436D646AAEF87B2E247D4AF1E",
		"8ABE1D7520F9C2A45CB1EB8E95CFD55262B70B29FEEC5864E19C054FF99129280E4646217791811142820341263C5315",
		"8CB91E82A3386D280F5D6F7E50E641DF152F7109ED5456B31F166E6CAC0425A7CF3AB6AF6B7FC3103B883202E9046565",
		"1.3.36.3.3.2.8.1.1.11", 16, ""),
	typed("brainpoolP512r1",
		"AADD9DB8DBE9C48B3FD4E6AE33C9FC07CB308DB3B3C9D20ED6639CCA703308717D4D9B009BC66842AECDA12AE6A380E62881FF2F2D82C68528AA6056583A48F3",
		"7830A3318B603B89E2327145AC234CC594CBDD8D3DF91610A83441CAEA9863BC2DED5D5AA8253AA10A2EF1C98B9AC8B57F1117A72BF2C7B9E7C1AC4D77FC94CA",
		"3DF91610A83441CAEA9863BC2DED5D5AA8253AA10A2EF1C98B9AC8B57F1117A72BF2C7B9E7C1AC4D77FC94CADC083E67984050B75EBAE5DD2809BD638016F723",
		"81AEE4BDD82ED9645A21322E9C4C6A9385ED9F70B5D916C1B43B62EEF4D0098EFF3B1F78E2D0D48D50D1687B93B97D5F7C6D5047406A5E688B352209BCB9F822",
		"7DDE385D566332ECC0EABFA9CF7822FDF209F70024A57B1AA000C55B881F8111B2DCDE494A5F485E5BCA4BD88A2763AED1CA2B2FA8F0540678CD1E0F3AD80892",
		"AADD9DB8DBE9C48B3FD4E6AE33C9FC07CB308DB3B3C9D20ED6639CCA70330870553E5C414CA92619418661197FAC10471DB1D381085DDADDB58796829CA90069",
		"1.3.36.3.3.2.8.1.1.13", 17, ""),
}

// init validates every table with this package's own arithmetic; a wrong
// constant is a start-up panic (an infrastructure error for every check that
// links this package), never a silently wrong oracle.
func init() {
	for _, c := range table {
		if err := c.Validate(); err != nil {
			panic(fmt.Sprintf("ecc: curve table %s is wrong: %v", c.Name, err))
		}
	}
}

// Validate checks the domain parameters with the package's own arithmetic:
// p and n prime, 4a^3+27b^2 != 0, G on the curve, n*G = infinity,
// (n-1)*G = -G, Hasse bound for h*n, ByteLen consistent.  The n*G check uses
// both the Jacobian ladder and the independent affine implementation.
func (c *Curve) Validate() error {
	if c.P == nil || c.A == nil || c.B == nil || c.Gx == nil || c.Gy == nil || c.N == nil {
		return fmt.Errorf("missing parameter")
	}
	if !c.P.ProbablyPrime(32) {
		return fmt.Errorf("p is not prime")
	}
	if !c.N.ProbablyPrime(32) {
		return fmt.Errorf("n is not prime")
	}
	if c.ByteLen != (c.P.BitLen()+7)/8 {
		return fmt.Errorf("ByteLen %d inconsistent with p", c.ByteLen)
	}
	for _, v := range []*big.Int{c.A, c.B, c.Gx, c.Gy} {
		if v.Sign() < 0 || v.Cmp(c.P) >= 0 {
			return fmt.Errorf("parameter outside [0,p)")
		}
	}
	// discriminant
	d := new(big.Int).Exp(c.A, big.NewInt(3), c.P)
	d.Mul(d, big.NewInt(4))
	t := new(big.Int).Mul(c.B, c.B)
	t.Mul(t, big.NewInt(27))
	d.Add(d, t).Mod(d, c.P)
	if d.Sign() == 0 {
		return fmt.Errorf("singular curve")
	}
	g := c.G()
	if !c.IsOnCurve(g) {
		return fmt.Errorf("G is not on the curve")
	}
	if !c.ScalarMult(c.N, g).IsInfinity() {
		return fmt.Errorf("n*G != infinity (Jacobian)")
	}
	if !c.scalarMultAffine(c.N, g).IsInfinity() {
		return fmt.Errorf("n*G != infinity (affine)")
	}
	nm1 := new(big.Int).Sub(c.N, big.NewInt(1))
	if q := c.ScalarMult(nm1, g); !c.Equal(q, c.Neg(g)) {
		return fmt.Errorf("(n-1)*G != -G")
	}
	if q := c.ScalarMult(big.NewInt(1), g); !c.Equal(q, g) {
		return fmt.Errorf("1*G != G")
	}
	if c.H < 1 {
		return fmt.Errorf("cofactor")
	}
	// Hasse: |h*n - (p+1)| <= 2*sqrt(p)
	hn := new(big.Int).Mul(big.NewInt(int64(c.H)), c.N)
	diff := new(big.Int).Sub(hn, new(big.Int).Add(c.P, big.NewInt(1)))
	diff.Abs(diff)
	diff.Mul(diff, diff)
	if diff.Cmp(new(big.Int).Mul(big.NewInt(4), c.P)) > 0 {
		return fmt.Errorf("h*n violates the Hasse bound")
	}
	return nil
}

// Curves returns all supported curves (P-192, P-224, P-256, P-384, P-521,
// brainpoolP192r1, P224r1, P256r1, P320r1, P384r1, P512r1).  The returned
// slice is a copy; the *Curve values are shared and must not be modified.
func Curves() []*Curve { return append([]*Curve(nil), table...) }

// ByName returns the curve with the given Name or nil.
func ByName(name string) *Curve {
	for _, c := range table {
		if c.Name == name {
			return c
		}
	}
	return nil
}

// ByPaceID returns the curve for an ICAO 9303-11 standardized domain parameter
// id (8..18) or nil.
func ByPaceID(id int) *Curve {
	for _, c := range table {
		if c.PaceID == id && id != 0 {
			return c
		}
	}
	return nil
}

// ByOID returns the curve for a dotted named-curve OID or nil.
func ByOID(oid string) *Curve {
	for _, c := range table {
		if c.OID == oid {
			return c
		}
	}
	return nil
}
