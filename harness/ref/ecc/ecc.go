// Package ecc is an independent short-Weierstrass elliptic-curve implementation
// over math/big for the verification harness: y^2 = x^3 + a*x + b over GF(p)
// with arbitrary a (NIST and brainpool curves), point encoding, ECDH, ECDSA
// with a caller-supplied nonce, and DER SubjectPublicKeyInfo builders.
//
// It imports only the standard library (crypto/elliptic is used solely as the
// source of the NIST P-224..P-521 constants) and no gmrtd package.  It is NOT
// constant time and must never be used outside tests.
package ecc

import (
	"errors"
	"math/big"
)

// Curve holds short-Weierstrass domain parameters.
type Curve struct {
	Name               string
	P, A, B, Gx, Gy, N *big.Int
	H                  int
	ByteLen            int    // octet length of a field element
	OID                string // named-curve OID, dotted
	PaceID             int    // ICAO 9303-11 standardized domain parameter id, 0 if none
	Seed               []byte // X9.62 SEED (NIST curves), nil if none
}

// Point is an affine point; X == nil is the point at infinity.
type Point struct{ X, Y *big.Int }

// Infinity is the neutral element.
func Infinity() Point { return Point{} }

// IsInfinity reports whether p is the point at infinity.
func (p Point) IsInfinity() bool { return p.X == nil }

// G returns the base point.
func (c *Curve) G() Point { return Point{new(big.Int).Set(c.Gx), new(big.Int).Set(c.Gy)} }

// BitLen is the bit length of the group order n.
func (c *Curve) BitLen() int { return c.N.BitLen() }

// OrderLen is the octet length of the group order n (width of r and s in the
// plain signature format of TR-03111).
func (c *Curve) OrderLen() int { return (c.N.BitLen() + 7) / 8 }

// IsOnCurve reports whether p is a finite point with coordinates in [0,p) that
// satisfies the curve equation.  The point at infinity is not "on the curve".
func (c *Curve) IsOnCurve(p Point) bool {
	if p.X == nil || p.Y == nil {
		return false
	}
	if p.X.Sign() < 0 || p.Y.Sign() < 0 || p.X.Cmp(c.P) >= 0 || p.Y.Cmp(c.P) >= 0 {
		return false
	}
	l := new(big.Int).Mul(p.Y, p.Y)
	l.Mod(l, c.P)
	return l.Cmp(c.rhs(p.X)) == 0
}

// rhs = x^3 + a x + b mod p
func (c *Curve) rhs(x *big.Int) *big.Int {
	r := new(big.Int).Mul(x, x)
	r.Add(r, c.A)
	r.Mul(r, x)
	r.Add(r, c.B)
	return r.Mod(r, c.P)
}

// Equal compares two affine points (infinity equals infinity).
func (c *Curve) Equal(p, q Point) bool {
	if p.IsInfinity() || q.IsInfinity() {
		return p.IsInfinity() && q.IsInfinity()
	}
	return p.X.Cmp(q.X) == 0 && p.Y.Cmp(q.Y) == 0
}

// Neg returns -p.
func (c *Curve) Neg(p Point) Point {
	if p.IsInfinity() {
		return p
	}
	y := new(big.Int).Neg(p.Y)
	y.Mod(y, c.P)
	return Point{new(big.Int).Set(p.X), y}
}

// ---------------------------------------------------------------- Jacobian

type jac struct{ x, y, z *big.Int } // z == 0 => infinity

func (c *Curve) toJac(p Point) jac {
	if p.IsInfinity() {
		return jac{big.NewInt(1), big.NewInt(1), big.NewInt(0)}
	}
	return jac{new(big.Int).Mod(p.X, c.P), new(big.Int).Mod(p.Y, c.P), big.NewInt(1)}
}

func (c *Curve) fromJac(j jac) Point {
	if j.z.Sign() == 0 {
		return Point{}
	}
	zi := new(big.Int).ModInverse(j.z, c.P)
	zi2 := new(big.Int).Mul(zi, zi)
	zi2.Mod(zi2, c.P)
	x := new(big.Int).Mul(j.x, zi2)
	x.Mod(x, c.P)
	zi2.Mul(zi2, zi)
	zi2.Mod(zi2, c.P)
	y := new(big.Int).Mul(j.y, zi2)
	y.Mod(y, c.P)
	return Point{x, y}
}

func (c *Curve) mulm(a, b *big.Int) *big.Int {
	r := new(big.Int).Mul(a, b)
	return r.Mod(r, c.P)
}

func (c *Curve) jacDouble(p jac) jac {
	if p.z.Sign() == 0 || p.y.Sign() == 0 {
		return jac{big.NewInt(1), big.NewInt(1), big.NewInt(0)}
	}
	P := c.P
	yy := c.mulm(p.y, p.y)
	s := c.mulm(p.x, yy)
	s.Lsh(s, 2).Mod(s, P) // 4 x y^2
	zz := c.mulm(p.z, p.z)
	m := c.mulm(p.x, p.x)
	m.Mul(m, big.NewInt(3))
	az4 := c.mulm(zz, zz)
	az4.Mul(az4, c.A)
	m.Add(m, az4).Mod(m, P) // 3x^2 + a z^4
	x3 := c.mulm(m, m)
	x3.Sub(x3, s).Sub(x3, s).Mod(x3, P)
	y3 := new(big.Int).Sub(s, x3)
	y3.Mul(y3, m)
	y4 := c.mulm(yy, yy)
	y4.Lsh(y4, 3)
	y3.Sub(y3, y4).Mod(y3, P)
	z3 := c.mulm(p.y, p.z)
	z3.Lsh(z3, 1).Mod(z3, P)
	return jac{x3, y3, z3}
}

func (c *Curve) jacAdd(p, q jac) jac {
	if p.z.Sign() == 0 {
		return q
	}
	if q.z.Sign() == 0 {
		return p
	}
	P := c.P
	z1z1 := c.mulm(p.z, p.z)
	z2z2 := c.mulm(q.z, q.z)
	u1 := c.mulm(p.x, z2z2)
	u2 := c.mulm(q.x, z1z1)
	s1 := c.mulm(p.y, c.mulm(z2z2, q.z))
	s2 := c.mulm(q.y, c.mulm(z1z1, p.z))
	h := new(big.Int).Sub(u2, u1)
	h.Mod(h, P)
	r := new(big.Int).Sub(s2, s1)
	r.Mod(r, P)
	if h.Sign() == 0 {
		if r.Sign() == 0 {
			return c.jacDouble(p)
		}
		return jac{big.NewInt(1), big.NewInt(1), big.NewInt(0)}
	}
	hh := c.mulm(h, h)
	hhh := c.mulm(hh, h)
	v := c.mulm(u1, hh)
	x3 := c.mulm(r, r)
	x3.Sub(x3, hhh).Sub(x3, v).Sub(x3, v).Mod(x3, P)
	y3 := new(big.Int).Sub(v, x3)
	y3.Mul(y3, r)
	y3.Sub(y3, c.mulm(s1, hhh)).Mod(y3, P)
	z3 := c.mulm(c.mulm(p.z, q.z), h)
	return jac{x3, y3, z3}
}

// Add returns p+q (handles infinity, doubling and inverse points).
func (c *Curve) Add(p, q Point) Point { return c.fromJac(c.jacAdd(c.toJac(p), c.toJac(q))) }

// Double returns 2p.
func (c *Curve) Double(p Point) Point { return c.fromJac(c.jacDouble(c.toJac(p))) }

// ScalarMult returns k*p for any integer k (negative k multiplies -p); k is
// NOT reduced modulo n, so the function is also correct for points whose order
// is not n.  Fixed 4-bit window over Jacobian coordinates.
func (c *Curve) ScalarMult(k *big.Int, p Point) Point {
	if p.IsInfinity() || k.Sign() == 0 {
		return Point{}
	}
	if k.Sign() < 0 {
		return c.ScalarMult(new(big.Int).Neg(k), c.Neg(p))
	}
	var tbl [16]jac
	tbl[0] = jac{big.NewInt(1), big.NewInt(1), big.NewInt(0)}
	tbl[1] = c.toJac(p)
	for i := 2; i < 16; i++ {
		if i%2 == 0 {
			tbl[i] = c.jacDouble(tbl[i/2])
		} else {
			tbl[i] = c.jacAdd(tbl[i-1], tbl[1])
		}
	}
	acc := tbl[0]
	kb := k.Bytes()
	for _, b := range kb {
		for _, nib := range [2]byte{b >> 4, b & 15} {
			acc = c.jacDouble(acc)
			acc = c.jacDouble(acc)
			acc = c.jacDouble(acc)
			acc = c.jacDouble(acc)
			if nib != 0 {
				acc = c.jacAdd(acc, tbl[nib])
			}
		}
	}
	return c.fromJac(acc)
}

// ScalarBaseMult returns k*G.
func (c *Curve) ScalarBaseMult(k *big.Int) Point { return c.ScalarMult(k, c.G()) }

// ---------------------------------------------------------------- affine (second, textbook implementation; used for self-validation and tests)

func (c *Curve) addAffine(p, q Point) Point {
	if p.IsInfinity() {
		return q
	}
	if q.IsInfinity() {
		return p
	}
	P := c.P
	var l *big.Int
	if p.X.Cmp(q.X) == 0 {
		sum := new(big.Int).Add(p.Y, q.Y)
		sum.Mod(sum, P)
		if sum.Sign() == 0 {
			return Point{}
		}
		// tangent: (3x^2+a)/(2y)
		num := new(big.Int).Mul(p.X, p.X)
		num.Mul(num, big.NewInt(3)).Add(num, c.A).Mod(num, P)
		den := new(big.Int).Lsh(p.Y, 1)
		den.Mod(den, P).ModInverse(den, P)
		l = num.Mul(num, den)
	} else {
		num := new(big.Int).Sub(q.Y, p.Y)
		den := new(big.Int).Sub(q.X, p.X)
		den.Mod(den, P).ModInverse(den, P)
		l = num.Mul(num, den)
	}
	l.Mod(l, P)
	x3 := new(big.Int).Mul(l, l)
	x3.Sub(x3, p.X).Sub(x3, q.X).Mod(x3, P)
	y3 := new(big.Int).Sub(p.X, x3)
	y3.Mul(y3, l).Sub(y3, p.Y).Mod(y3, P)
	return Point{x3, y3}
}

func (c *Curve) scalarMultAffine(k *big.Int, p Point) Point {
	if k.Sign() < 0 {
		return c.scalarMultAffine(new(big.Int).Neg(k), c.Neg(p))
	}
	acc := Point{}
	for i := k.BitLen() - 1; i >= 0; i-- {
		acc = c.addAffine(acc, acc)
		if k.Bit(i) == 1 {
			acc = c.addAffine(acc, p)
		}
	}
	return acc
}

// ---------------------------------------------------------------- encodings

// FixedBytes returns v as a big-endian string left-padded to ByteLen octets
// (v must be in [0, 2^(8*ByteLen))).
func (c *Curve) FixedBytes(v *big.Int) []byte {
	return v.FillBytes(make([]byte, c.ByteLen))
}

// Encode returns the uncompressed encoding 04 || X || Y with fixed-width
// coordinates.  The point at infinity is encoded as the single octet 00.
func (c *Curve) Encode(p Point) []byte {
	if p.IsInfinity() {
		return []byte{0}
	}
	out := make([]byte, 1+2*c.ByteLen)
	out[0] = 4
	p.X.FillBytes(out[1 : 1+c.ByteLen])
	p.Y.FillBytes(out[1+c.ByteLen:])
	return out
}

// EncodeCompressed returns 02/03 || X.
func (c *Curve) EncodeCompressed(p Point) []byte {
	if p.IsInfinity() {
		return []byte{0}
	}
	out := make([]byte, 1+c.ByteLen)
	out[0] = 2 + byte(p.Y.Bit(0))
	p.X.FillBytes(out[1:])
	return out
}

// Decode parses an uncompressed point (04 || X || Y, exact length) and checks
// that it lies on the curve.
func (c *Curve) Decode(b []byte) (Point, error) {
	if len(b) != 1+2*c.ByteLen {
		return Point{}, errors.New("ecc: wrong length for an uncompressed point")
	}
	if b[0] != 4 {
		return Point{}, errors.New("ecc: not an uncompressed point")
	}
	p := Point{new(big.Int).SetBytes(b[1 : 1+c.ByteLen]), new(big.Int).SetBytes(b[1+c.ByteLen:])}
	if !c.IsOnCurve(p) {
		return Point{}, errors.New("ecc: point is not on the curve")
	}
	return p, nil
}

// DecodeCompressed parses 02/03 || X.
func (c *Curve) DecodeCompressed(b []byte) (Point, error) {
	if len(b) != 1+c.ByteLen || (b[0] != 2 && b[0] != 3) {
		return Point{}, errors.New("ecc: not a compressed point")
	}
	x := new(big.Int).SetBytes(b[1:])
	if x.Cmp(c.P) >= 0 {
		return Point{}, errors.New("ecc: x out of range")
	}
	y := new(big.Int).ModSqrt(c.rhs(x), c.P)
	if y == nil {
		return Point{}, errors.New("ecc: x is not the abscissa of a curve point")
	}
	if y.Bit(0) != uint(b[0]&1) {
		y.Sub(c.P, y)
		y.Mod(y, c.P)
	}
	p := Point{x, y}
	if !c.IsOnCurve(p) {
		return Point{}, errors.New("ecc: point is not on the curve")
	}
	return p, nil
}

// ScalarFromBytes maps an arbitrary octet string to a scalar in [1, n-1]
// (for deriving keys / nonces from generated bytes).
func (c *Curve) ScalarFromBytes(b []byte) *big.Int {
	v := new(big.Int).SetBytes(b)
	nm1 := new(big.Int).Sub(c.N, big.NewInt(1))
	v.Mod(v, nm1)
	return v.Add(v, big.NewInt(1))
}

// ---------------------------------------------------------------- ECDH / ECDSA

// ECDHx computes priv*pub and returns the fixed-width x coordinate and the
// full point.  pub must be a point on the curve; an infinite result is an
// error.
func (c *Curve) ECDHx(priv *big.Int, pub Point) ([]byte, Point, error) {
	if !c.IsOnCurve(pub) {
		return nil, Point{}, errors.New("ecc: public point is not on the curve")
	}
	s := c.ScalarMult(priv, pub)
	if s.IsInfinity() {
		return nil, Point{}, errors.New("ecc: shared point is infinity")
	}
	return c.FixedBytes(s.X), s, nil
}

// HashToInt converts a digest to the integer e of ECDSA: the leftmost
// min(bitlen(n), 8*len(hash)) bits of the digest (FIPS 186-4 6.4, SEC1 4.1.3).
func (c *Curve) HashToInt(hash []byte) *big.Int {
	e := new(big.Int).SetBytes(hash)
	if excess := 8*len(hash) - c.N.BitLen(); excess > 0 {
		e.Rsh(e, uint(excess))
	}
	return e
}

// Sign computes the ECDSA signature of the digest with private key priv and
// the caller-supplied per-message secret k (1 <= k < n).  It fails when k
// leads to r == 0 or s == 0 (the caller then supplies another k).
func (c *Curve) Sign(priv *big.Int, hash []byte, k *big.Int) (r, s *big.Int, err error) {
	if k.Sign() <= 0 || k.Cmp(c.N) >= 0 {
		return nil, nil, errors.New("ecc: nonce out of range")
	}
	if priv.Sign() <= 0 || priv.Cmp(c.N) >= 0 {
		return nil, nil, errors.New("ecc: private key out of range")
	}
	R := c.ScalarBaseMult(k)
	if R.IsInfinity() {
		return nil, nil, errors.New("ecc: k*G is infinity")
	}
	r = new(big.Int).Mod(R.X, c.N)
	if r.Sign() == 0 {
		return nil, nil, errors.New("ecc: r == 0")
	}
	e := c.HashToInt(hash)
	s = new(big.Int).Mul(r, priv)
	s.Add(s, e)
	ki := new(big.Int).ModInverse(k, c.N)
	s.Mul(s, ki).Mod(s, c.N)
	if s.Sign() == 0 {
		return nil, nil, errors.New("ecc: s == 0")
	}
	return r, s, nil
}

// Verify checks an ECDSA signature: pub on the curve, 1 <= r,s < n,
// x(u1*G + u2*Q) mod n == r.
func (c *Curve) Verify(pub Point, hash []byte, r, s *big.Int) bool {
	if r == nil || s == nil || !c.IsOnCurve(pub) {
		return false
	}
	if r.Sign() <= 0 || s.Sign() <= 0 || r.Cmp(c.N) >= 0 || s.Cmp(c.N) >= 0 {
		return false
	}
	e := c.HashToInt(hash)
	w := new(big.Int).ModInverse(s, c.N)
	u1 := new(big.Int).Mul(e, w)
	u1.Mod(u1, c.N)
	u2 := new(big.Int).Mul(r, w)
	u2.Mod(u2, c.N)
	R := c.Add(c.ScalarBaseMult(u1), c.ScalarMult(u2, pub))
	if R.IsInfinity() {
		return false
	}
	v := new(big.Int).Mod(R.X, c.N)
	return v.Cmp(r) == 0
}

// PrivateKeyFor solves the ECDSA signing equation for the private key: the d
// for which (r = x(kG) mod n, s) is the signature of hash under nonce k.  This
// lets a generator choose s freely (e.g. with leading zero octets).  Returns
// nil when r == 0 or the solution is 0.
func (c *Curve) PrivateKeyFor(hash []byte, k, s *big.Int) (d, r *big.Int) {
	R := c.ScalarBaseMult(k)
	if R.IsInfinity() {
		return nil, nil
	}
	r = new(big.Int).Mod(R.X, c.N)
	if r.Sign() == 0 {
		return nil, nil
	}
	d = new(big.Int).Mul(s, k)
	d.Sub(d, c.HashToInt(hash))
	ri := new(big.Int).ModInverse(r, c.N)
	d.Mul(d, ri).Mod(d, c.N)
	if d.Sign() == 0 {
		return nil, nil
	}
	return d, r
}
