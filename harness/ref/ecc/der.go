package ecc

import (
	"errors"
	"math/big"
	"strconv"
	"strings"
)

// Minimal hand-written DER builder (definite minimal lengths only).

func derLen(n int) []byte {
	switch {
	case n < 0x80:
		return []byte{byte(n)}
	case n < 0x100:
		return []byte{0x81, byte(n)}
	case n < 0x10000:
		return []byte{0x82, byte(n >> 8), byte(n)}
	default:
		return []byte{0x83, byte(n >> 16), byte(n >> 8), byte(n)}
	}
}

func derTLV(tag byte, parts ...[]byte) []byte {
	n := 0
	for _, p := range parts {
		n += len(p)
	}
	out := append([]byte{tag}, derLen(n)...)
	for _, p := range parts {
		out = append(out, p...)
	}
	return out
}

// derInt encodes a (possibly negative) INTEGER in minimal two's complement.
func derInt(v *big.Int) []byte {
	if v.Sign() >= 0 {
		b := v.Bytes()
		if len(b) == 0 {
			b = []byte{0}
		}
		if b[0]&0x80 != 0 {
			b = append([]byte{0}, b...)
		}
		return derTLV(0x02, b)
	}
	// negative: two's complement of |v|
	n := (v.BitLen() + 8) / 8 // enough octets
	mod := new(big.Int).Lsh(big.NewInt(1), uint(8*n))
	t := new(big.Int).Add(mod, v)
	b := t.FillBytes(make([]byte, n))
	for len(b) > 1 && b[0] == 0xff && b[1]&0x80 != 0 {
		b = b[1:]
	}
	return derTLV(0x02, b)
}

func derOID(dotted string) []byte {
	parts := strings.Split(dotted, ".")
	arcs := make([]uint64, len(parts))
	for i, p := range parts {
		v, err := strconv.ParseUint(p, 10, 64)
		if err != nil {
			panic("ecc: bad OID " + dotted)
		}
		arcs[i] = v
	}
	if len(arcs) < 2 {
		panic("ecc: bad OID " + dotted)
	}
	var body []byte
	b128 := func(v uint64) {
		var tmp []byte
		tmp = append(tmp, byte(v&0x7f))
		for v >>= 7; v > 0; v >>= 7 {
			tmp = append(tmp, byte(v&0x7f)|0x80)
		}
		for i := len(tmp) - 1; i >= 0; i-- {
			body = append(body, tmp[i])
		}
	}
	b128(arcs[0]*40 + arcs[1])
	for _, a := range arcs[2:] {
		b128(a)
	}
	return derTLV(0x06, body)
}

const (
	oidEcPublicKey = "1.2.840.10045.2.1"
	oidPrimeField  = "1.2.840.10045.1.1"
)

func derBitString(b []byte) []byte { return derTLV(0x03, []byte{0}, b) }

// SPKINamed returns the DER SubjectPublicKeyInfo
// SEQUENCE { SEQUENCE { id-ecPublicKey, namedCurve OID }, BIT STRING 04||X||Y }.
func (c *Curve) SPKINamed(pub Point) []byte {
	alg := derTLV(0x30, derOID(oidEcPublicKey), derOID(c.OID))
	return derTLV(0x30, alg, derBitString(c.Encode(pub)))
}

// ECParameters returns the explicit X9.62 / RFC 3279 ECParameters:
// SEQUENCE { version 1, FieldID { prime-field, p }, Curve { a, b [, seed] },
// base OCTET STRING (uncompressed G), order n [, cofactor h] }.
// The seed is only emitted when withSeed is set AND the curve has one (NIST
// curves); brainpool curves have no X9.62 seed and it is then omitted.
func (c *Curve) ECParameters(withCofactor, withSeed bool) []byte {
	field := derTLV(0x30, derOID(oidPrimeField), derInt(c.P))
	curveParts := [][]byte{derTLV(0x04, c.FixedBytes(c.A)), derTLV(0x04, c.FixedBytes(c.B))}
	if withSeed && c.Seed != nil {
		curveParts = append(curveParts, derBitString(c.Seed))
	}
	parts := [][]byte{derInt(big.NewInt(1)), field, derTLV(0x30, curveParts...), derTLV(0x04, c.Encode(c.G())), derInt(c.N)}
	if withCofactor {
		parts = append(parts, derInt(big.NewInt(int64(c.H))))
	}
	return derTLV(0x30, parts...)
}

// SPKIExplicit returns the DER SubjectPublicKeyInfo with explicit (specified)
// domain parameters, see ECParameters.
func (c *Curve) SPKIExplicit(pub Point, withCofactor, withSeed bool) []byte {
	alg := derTLV(0x30, derOID(oidEcPublicKey), c.ECParameters(withCofactor, withSeed))
	return derTLV(0x30, alg, derBitString(c.Encode(pub)))
}

// SigPlain returns r || s, each left-padded to the octet length of n
// (TR-03111 plain format).
func (c *Curve) SigPlain(r, s *big.Int) []byte {
	l := c.OrderLen()
	out := make([]byte, 2*l)
	r.FillBytes(out[:l])
	s.FillBytes(out[l:])
	return out
}

// SigDER returns the X9.62 Ecdsa-Sig-Value SEQUENCE { r INTEGER, s INTEGER }
// (negative values are encoded as negative INTEGERs).
func SigDER(r, s *big.Int) []byte { return derTLV(0x30, derInt(r), derInt(s)) }

// ParseSigDER is a strict DER reader for Ecdsa-Sig-Value: definite minimal
// lengths, minimal INTEGER contents.  It returns the two integers (which may be
// negative or zero) and the octets following the SEQUENCE.
func ParseSigDER(b []byte) (r, s *big.Int, rest []byte, err error) {
	tag, body, rest, err := readTLV(b)
	if err != nil {
		return nil, nil, nil, err
	}
	if tag != 0x30 {
		return nil, nil, nil, errors.New("ecc: signature is not a SEQUENCE")
	}
	r, body, err = readInt(body)
	if err != nil {
		return nil, nil, nil, err
	}
	s, body, err = readInt(body)
	if err != nil {
		return nil, nil, nil, err
	}
	if len(body) != 0 {
		return nil, nil, nil, errors.New("ecc: extra elements in Ecdsa-Sig-Value")
	}
	return r, s, rest, nil
}

func readTLV(b []byte) (tag byte, body, rest []byte, err error) {
	if len(b) < 2 {
		return 0, nil, nil, errors.New("ecc: truncated TLV")
	}
	tag = b[0]
	if tag&0x1f == 0x1f {
		return 0, nil, nil, errors.New("ecc: high tag numbers not supported")
	}
	l := int(b[1])
	off := 2
	if l >= 0x80 {
		n := l & 0x7f
		if n == 0 || n > 3 || len(b) < 2+n {
			return 0, nil, nil, errors.New("ecc: bad length")
		}
		l = 0
		for i := 0; i < n; i++ {
			l = l<<8 | int(b[2+i])
		}
		off = 2 + n
		if l < 0x80 || (n > 1 && b[2] == 0) {
			return 0, nil, nil, errors.New("ecc: non-minimal length")
		}
	}
	if len(b) < off+l {
		return 0, nil, nil, errors.New("ecc: truncated value")
	}
	return tag, b[off : off+l], b[off+l:], nil
}

func readInt(b []byte) (*big.Int, []byte, error) {
	tag, body, rest, err := readTLV(b)
	if err != nil {
		return nil, nil, err
	}
	if tag != 0x02 || len(body) == 0 {
		return nil, nil, errors.New("ecc: INTEGER expected")
	}
	if len(body) > 1 && ((body[0] == 0 && body[1]&0x80 == 0) || (body[0] == 0xff && body[1]&0x80 != 0)) {
		return nil, nil, errors.New("ecc: non-minimal INTEGER")
	}
	v := new(big.Int).SetBytes(body)
	if body[0]&0x80 != 0 {
		v.Sub(v, new(big.Int).Lsh(big.NewInt(1), uint(8*len(body))))
	}
	return v, rest, nil
}
