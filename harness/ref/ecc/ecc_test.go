package ecc

import (
	"bytes"
	"crypto/ecdsa"
	"crypto/elliptic"
	"crypto/sha256"
	"crypto/sha512"
	"crypto/x509"
	"encoding/asn1"
	"encoding/binary"
	"math/big"
	"testing"
	"time"

	"github.com/osanderson/brainpool"
)

// deterministic byte stream (SHA-256 in counter mode)
type stream struct {
	seed string
	ctr  uint64
}

func (s *stream) bytes(n int) []byte {
	var out []byte
	for len(out) < n {
		var c [8]byte
		binary.BigEndian.PutUint64(c[:], s.ctr)
		s.ctr++
		h := sha256.Sum256(append([]byte(s.seed), c[:]...))
		out = append(out, h[:]...)
	}
	return out[:n]
}

func (s *stream) Read(p []byte) (int, error) { copy(p, s.bytes(len(p))); return len(p), nil }

func (s *stream) scalar(c *Curve) *big.Int { return c.ScalarFromBytes(s.bytes(c.ByteLen + 8)) }

func stdCurve(name string) elliptic.Curve {
	switch name {
	case "P-224":
		return elliptic.P224()
	case "P-256":
		return elliptic.P256()
	case "P-384":
		return elliptic.P384()
	case "P-521":
		return elliptic.P521()
	}
	return nil
}

func TestTableComplete(t *testing.T) {
	want := map[string]int{"P-192": 8, "brainpoolP192r1": 9, "P-224": 10, "brainpoolP224r1": 11, "P-256": 12, "brainpoolP256r1": 13,
		"brainpoolP320r1": 14, "P-384": 15, "brainpoolP384r1": 16, "brainpoolP512r1": 17, "P-521": 18}
	if len(Curves()) != len(want) {
		t.Fatalf("have %d curves", len(Curves()))
	}
	for name, id := range want {
		c := ByName(name)
		if c == nil || c.PaceID != id || ByPaceID(id) != c || ByOID(c.OID) != c {
			t.Fatalf("%s: lookup broken", name)
		}
		if err := c.Validate(); err != nil {
			t.Fatalf("%s: %v", name, err)
		}
	}
	if ByPaceID(0) != nil || ByPaceID(7) != nil || ByName("x") != nil {
		t.Fatal("lookup of unknown id succeeded")
	}
}

// A wrong table must fail loudly.
func TestValidateDetectsWrongTables(t *testing.T) {
	for _, c := range Curves() {
		mut := func(f func(x *Curve)) *Curve {
			x := *c
			x.P, x.A, x.B, x.Gx, x.Gy, x.N = new(big.Int).Set(c.P), new(big.Int).Set(c.A), new(big.Int).Set(c.B), new(big.Int).Set(c.Gx), new(big.Int).Set(c.Gy), new(big.Int).Set(c.N)
			f(&x)
			return &x
		}
		one := big.NewInt(1)
		cases := map[string]*Curve{
			"a+1":  mut(func(x *Curve) { x.A.Add(x.A, one).Mod(x.A, x.P) }),
			"b^1":  mut(func(x *Curve) { x.B.Xor(x.B, one) }),
			"gx^1": mut(func(x *Curve) { x.Gx.Xor(x.Gx, one) }),
			"gy^1": mut(func(x *Curve) { x.Gy.Xor(x.Gy, one) }),
			"n+2":  mut(func(x *Curve) { x.N.Add(x.N, big.NewInt(2)) }),
			"p+2":  mut(func(x *Curve) { x.P.Add(x.P, big.NewInt(2)) }),
			"-G":   nil,
			// a and b changed consistently so that G stays on the curve: b' = b - Gx (a' = a+1)
			"a+1,b-gx": mut(func(x *Curve) { x.A.Add(x.A, one).Mod(x.A, x.P); x.B.Sub(x.B, x.Gx).Mod(x.B, x.P) }),
			"n:=other prime": mut(func(x *Curve) {
				for x.N.Add(x.N, big.NewInt(2)); !x.N.ProbablyPrime(20); x.N.Add(x.N, big.NewInt(2)) {
				}
			}),
		}
		for name, m := range cases {
			if m == nil {
				continue
			}
			if err := m.Validate(); err == nil {
				t.Errorf("%s: mutation %s not detected", c.Name, name)
			}
		}
	}
}

func TestAgainstBrainpoolPackage(t *testing.T) {
	ref := map[string]elliptic.Curve{
		"brainpoolP192r1": brainpool.P192r1(), "brainpoolP224r1": brainpool.P224r1(), "brainpoolP256r1": brainpool.P256r1(),
		"brainpoolP320r1": brainpool.P320r1(), "brainpoolP384r1": brainpool.P384r1(), "brainpoolP512r1": brainpool.P512r1(),
	}
	s := &stream{seed: "bp"}
	for name, rc := range ref {
		c := ByName(name)
		p := rc.Params()
		if c.P.Cmp(p.P) != 0 || c.N.Cmp(p.N) != 0 || c.Gx.Cmp(p.Gx) != 0 || c.Gy.Cmp(p.Gy) != 0 {
			t.Fatalf("%s: p/G/n differ from github.com/osanderson/brainpool", name)
		}
		// scalar multiplications agree with the twisted-curve implementation of that package
		for i := 0; i < 6; i++ {
			k := s.scalar(c)
			x, y := rc.ScalarBaseMult(k.Bytes())
			q := c.ScalarBaseMult(k)
			if q.X.Cmp(x) != 0 || q.Y.Cmp(y) != 0 {
				t.Fatalf("%s: k*G differs for k=%x", name, k)
			}
			k2 := s.scalar(c)
			x2, y2 := rc.ScalarMult(x, y, k2.Bytes())
			q2 := c.ScalarMult(k2, q)
			if q2.X.Cmp(x2) != 0 || q2.Y.Cmp(y2) != 0 {
				t.Fatalf("%s: k2*(k*G) differs", name)
			}
		}
	}
}

func TestAgainstStdElliptic(t *testing.T) {
	s := &stream{seed: "std"}
	for _, c := range Curves() {
		sc := stdCurve(c.Name)
		if sc == nil {
			continue
		}
		if c.B.Cmp(sc.Params().B) != 0 {
			t.Fatal("B")
		}
		for i := 0; i < 25; i++ {
			k := s.scalar(c)
			x, y := sc.ScalarBaseMult(k.Bytes())
			q := c.ScalarBaseMult(k)
			if q.X.Cmp(x) != 0 || q.Y.Cmp(y) != 0 {
				t.Fatalf("%s: k*G differs for k=%x", c.Name, k)
			}
			k2 := s.scalar(c)
			x2, y2 := sc.ScalarMult(x, y, k2.Bytes())
			q2 := c.ScalarMult(k2, q)
			if q2.X.Cmp(x2) != 0 || q2.Y.Cmp(y2) != 0 {
				t.Fatalf("%s: k2*Q differs", c.Name)
			}
			x3, y3 := sc.Add(x, y, x2, y2)
			q3 := c.Add(q, q2)
			if q3.X.Cmp(x3) != 0 || q3.Y.Cmp(y3) != 0 {
				t.Fatalf("%s: Add differs", c.Name)
			}
			if !bytes.Equal(c.Encode(q), elliptic.Marshal(sc, x, y)) {
				t.Fatalf("%s: Encode differs", c.Name)
			}
			if !bytes.Equal(c.EncodeCompressed(q), elliptic.MarshalCompressed(sc, x, y)) {
				t.Fatalf("%s: EncodeCompressed differs", c.Name)
			}
		}
	}
}

// P-192 (typed in) against the generic CurveParams implementation of the std
// lib fed with the FIPS constants typed a second time here.
func TestP192AgainstGenericStd(t *testing.T) {
	c := ByName("P-192")
	cp := &elliptic.CurveParams{Name: "P-192", BitSize: 192,
		P:  hx("fffffffffffffffffffffffffffffffeffffffffffffffff"),
		N:  hx("ffffffffffffffffffffffff99def836146bc9b1b4d22831"),
		B:  hx("64210519e59c80e70fa7e9ab72243049feb8deecc146b9b1"),
		Gx: hx("188da80eb03090f67cbf20eb43a18800f4ff0afd82ff1012"),
		Gy: hx("07192b95ffc8da78631011ed6b24cdd573f977a11e794811")}
	s := &stream{seed: "p192"}
	for i := 0; i < 10; i++ {
		k := s.scalar(c)
		x, y := cp.ScalarBaseMult(k.Bytes())
		q := c.ScalarBaseMult(k)
		if q.X.Cmp(x) != 0 || q.Y.Cmp(y) != 0 {
			t.Fatalf("k*G differs for k=%x", k)
		}
	}
	// known answer: 2G on P-192 (NIST "Mathematical routines for the NIST prime elliptic curves", 2010)
	d := c.Double(c.G())
	if d.X.Cmp(hx("DAFEBF5828783F2AD35534631588A3F629A70FB16982A888")) != 0 || d.Y.Cmp(hx("DD6BDA0D993DA0FA46B27BBC141B868F59331AFA5C7E93AB")) != 0 {
		t.Fatalf("2G KAT: %x %x", d.X, d.Y)
	}
}

func TestGroupLawsAllCurves(t *testing.T) {
	s := &stream{seed: "laws"}
	for _, c := range Curves() {
		g := c.G()
		inf := Infinity()
		if !c.Equal(c.Add(g, inf), g) || !c.Equal(c.Add(inf, g), g) || !c.Add(inf, inf).IsInfinity() {
			t.Fatalf("%s: neutral element", c.Name)
		}
		if !c.Add(g, c.Neg(g)).IsInfinity() {
			t.Fatalf("%s: G + (-G)", c.Name)
		}
		if !c.Equal(c.Add(g, g), c.Double(g)) {
			t.Fatalf("%s: G+G != 2G", c.Name)
		}
		if !c.Double(inf).IsInfinity() || !c.ScalarMult(big.NewInt(5), inf).IsInfinity() || !c.ScalarMult(big.NewInt(0), g).IsInfinity() {
			t.Fatalf("%s: infinity handling", c.Name)
		}
		n := 4
		if c.ByteLen > 40 {
			n = 2
		}
		for i := 0; i < n; i++ {
			a, b := s.scalar(c), s.scalar(c)
			pa, pb := c.ScalarBaseMult(a), c.ScalarBaseMult(b)
			if !c.IsOnCurve(pa) || !c.IsOnCurve(pb) {
				t.Fatalf("%s: result not on curve", c.Name)
			}
			// Jacobian vs textbook affine
			if !c.Equal(pa, c.scalarMultAffine(a, c.G())) {
				t.Fatalf("%s: Jacobian and affine ladders differ", c.Name)
			}
			if !c.Equal(c.Add(pa, pb), c.addAffine(pa, pb)) {
				t.Fatalf("%s: Jacobian and affine add differ", c.Name)
			}
			// homomorphism: aG + bG = (a+b)G ; a(bG) = b(aG) = (ab mod n)G
			sum := new(big.Int).Add(a, b)
			if !c.Equal(c.Add(pa, pb), c.ScalarBaseMult(sum)) {
				t.Fatalf("%s: aG+bG != (a+b)G", c.Name)
			}
			ab := new(big.Int).Mul(a, b)
			ab.Mod(ab, c.N)
			if !c.Equal(c.ScalarMult(a, pb), c.ScalarMult(b, pa)) || !c.Equal(c.ScalarMult(a, pb), c.ScalarBaseMult(ab)) {
				t.Fatalf("%s: a(bG) != (ab)G", c.Name)
			}
			// negative scalar
			if !c.Equal(c.ScalarMult(new(big.Int).Neg(a), g), c.Neg(pa)) {
				t.Fatalf("%s: (-a)G != -(aG)", c.Name)
			}
			// k >= n is not reduced but gives the same point for a point of order n
			if !c.Equal(c.ScalarBaseMult(new(big.Int).Add(a, c.N)), pa) {
				t.Fatalf("%s: (a+n)G != aG", c.Name)
			}
			// encodings
			enc := c.Encode(pa)
			if len(enc) != 1+2*c.ByteLen {
				t.Fatal("encode length")
			}
			dec, err := c.Decode(enc)
			if err != nil || !c.Equal(dec, pa) {
				t.Fatalf("%s: decode(encode)", c.Name)
			}
			dc, err := c.DecodeCompressed(c.EncodeCompressed(pa))
			if err != nil || !c.Equal(dc, pa) {
				t.Fatalf("%s: decompress(compress): %v", c.Name, err)
			}
			enc[len(enc)-1] ^= 1
			if _, err := c.Decode(enc); err == nil {
				t.Fatalf("%s: off-curve point decoded", c.Name)
			}
			if _, err := c.Decode(enc[:len(enc)-1]); err == nil {
				t.Fatal("short point decoded")
			}
			// ECDH symmetric
			x1, _, e1 := c.ECDHx(a, pb)
			x2, _, e2 := c.ECDHx(b, pa)
			if e1 != nil || e2 != nil || !bytes.Equal(x1, x2) || len(x1) != c.ByteLen {
				t.Fatalf("%s: ECDH", c.Name)
			}
			if _, _, err := c.ECDHx(a, Point{big.NewInt(1), big.NewInt(1)}); err == nil {
				t.Fatal("ECDH with off-curve point")
			}
		}
	}
}

func hashFor(c *Curve, msg []byte) []byte {
	switch {
	case c.BitLen() >= 512:
		h := sha512.Sum512(msg)
		return h[:]
	case c.BitLen() >= 384:
		h := sha512.Sum384(msg)
		return h[:]
	case c.BitLen() >= 256:
		h := sha256.Sum256(msg)
		return h[:]
	}
	h := sha256.Sum224(msg)
	return h[:]
}

func TestECDSAAgainstStd(t *testing.T) {
	s := &stream{seed: "ecdsa"}
	for _, c := range Curves() {
		sc := stdCurve(c.Name)
		for i := 0; i < 2; i++ {
			d := s.scalar(c)
			pub := c.ScalarBaseMult(d)
			msg := s.bytes(8)
			// all hash sizes, to exercise truncation (SHA-512 on P-192 .. SHA-224 on P-521)
			for _, hash := range [][]byte{hashFor(c, msg), s.bytes(20), s.bytes(28), s.bytes(32), s.bytes(48), s.bytes(64)} {
				k := s.scalar(c)
				r, sg, err := c.Sign(d, hash, k)
				if err != nil {
					t.Fatalf("%s: sign: %v", c.Name, err)
				}
				if !c.Verify(pub, hash, r, sg) {
					t.Fatalf("%s: own signature does not verify", c.Name)
				}
				// malleable twin verifies, anything else does not
				if !c.Verify(pub, hash, r, new(big.Int).Sub(c.N, sg)) {
					t.Fatalf("%s: (r, n-s) does not verify", c.Name)
				}
				h2 := append([]byte{}, hash...)
				h2[0] ^= 0x80
				if c.Verify(pub, h2, r, sg) {
					t.Fatalf("%s: verifies for another hash", c.Name)
				}
				if c.Verify(pub, hash, new(big.Int).Add(r, big.NewInt(1)), sg) || c.Verify(pub, hash, r, new(big.Int).Add(sg, big.NewInt(1))) {
					t.Fatalf("%s: verifies with r+1 / s+1", c.Name)
				}
				for _, bad := range []*big.Int{big.NewInt(0), c.N, new(big.Int).Neg(r), new(big.Int).Add(r, c.N)} {
					if c.Verify(pub, hash, bad, sg) || c.Verify(pub, hash, r, bad) {
						t.Fatalf("%s: out-of-range value accepted", c.Name)
					}
				}
				// PrivateKeyFor: chosen s
				sWant := new(big.Int).Rsh(c.N, 17)
				d2, r2 := c.PrivateKeyFor(hash, k, sWant)
				if d2 != nil {
					rr, ss, err := c.Sign(d2, hash, k)
					if err != nil || rr.Cmp(r2) != 0 || ss.Cmp(sWant) != 0 || !c.Verify(c.ScalarBaseMult(d2), hash, r2, sWant) {
						t.Fatalf("%s: PrivateKeyFor", c.Name)
					}
				}
				if sc == nil {
					continue
				}
				// ours -> std
				spub := &ecdsa.PublicKey{Curve: sc, X: pub.X, Y: pub.Y}
				if !ecdsa.Verify(spub, hash, r, sg) {
					t.Fatalf("%s: std rejects our signature (hash len %d)", c.Name, len(hash))
				}
				// std -> ours
				priv := &ecdsa.PrivateKey{PublicKey: *spub, D: d}
				r3, s3, err := ecdsa.Sign(s, priv, hash)
				if err != nil {
					t.Fatal(err)
				}
				if !c.Verify(pub, hash, r3, s3) {
					t.Fatalf("%s: we reject a std signature (hash len %d)", c.Name, len(hash))
				}
				// DER round trip against encoding/asn1
				der := SigDER(r3, s3)
				var as struct{ R, S *big.Int }
				if rest, err := asn1.Unmarshal(der, &as); err != nil || len(rest) != 0 || as.R.Cmp(r3) != 0 || as.S.Cmp(s3) != 0 {
					t.Fatalf("SigDER not parseable by encoding/asn1: %v", err)
				}
				if !ecdsa.VerifyASN1(spub, hash, der) {
					t.Fatal("std rejects DER")
				}
				pr, ps, rest, err := ParseSigDER(append(der, 0xaa))
				if err != nil || pr.Cmp(r3) != 0 || ps.Cmp(s3) != 0 || len(rest) != 1 {
					t.Fatalf("ParseSigDER: %v", err)
				}
			}
		}
	}
}

func TestDERIntegers(t *testing.T) {
	for _, v := range []int64{0, 1, 127, 128, 255, 256, -1, -127, -128, -129, -255, -256, -257, 32767, 32768, -32768, -32769, 1 << 40, -(1 << 40)} {
		b := derInt(big.NewInt(v))
		var got *big.Int
		if rest, err := asn1.Unmarshal(b, &got); err != nil || len(rest) != 0 || got.Int64() != v {
			t.Fatalf("derInt(%d) = %x: %v %v", v, b, got, err)
		}
		std, _ := asn1.Marshal(big.NewInt(v))
		if !bytes.Equal(std, b) {
			t.Fatalf("derInt(%d) = %x, encoding/asn1 gives %x", v, b, std)
		}
		g, rest, err := readInt(b)
		if err != nil || len(rest) != 0 || g.Int64() != v {
			t.Fatalf("readInt(%x): %v %v", b, g, err)
		}
	}
	for _, bad := range []string{"3006020100020100ff"[:14], "30070201000202007f", "30810602010102010100"[:18], "300602017f0201"} {
		if _, _, _, err := ParseSigDER(hb(bad)); err == nil {
			t.Fatalf("ParseSigDER accepted %s", bad)
		}
	}
}

func TestSPKI(t *testing.T) {
	s := &stream{seed: "spki"}
	for _, c := range Curves() {
		d := s.scalar(c)
		pub := c.ScalarBaseMult(d)
		named := c.SPKINamed(pub)
		if sc := stdCurve(c.Name); sc != nil {
			k, err := x509.ParsePKIXPublicKey(named)
			if err != nil {
				t.Fatalf("%s: x509 rejects named SPKI: %v", c.Name, err)
			}
			ek := k.(*ecdsa.PublicKey)
			if ek.X.Cmp(pub.X) != 0 || ek.Y.Cmp(pub.Y) != 0 || ek.Curve != sc {
				t.Fatalf("%s: x509 parsed another key", c.Name)
			}
		}
		type algID struct {
			Algorithm  asn1.ObjectIdentifier
			Parameters asn1.RawValue
		}
		type spki struct {
			Alg algID
			Key asn1.BitString
		}
		type fieldID struct {
			Type  asn1.ObjectIdentifier
			Prime *big.Int
		}
		type curve struct {
			A, B []byte
			Seed asn1.BitString `asn1:"optional"`
		}
		type params struct {
			Version  int
			Field    fieldID
			Curve    curve
			Base     []byte
			Order    *big.Int
			Cofactor *big.Int `asn1:"optional"`
		}
		for _, cof := range []bool{true, false} {
			for _, seed := range []bool{true, false} {
				var sp spki
				raw := c.SPKIExplicit(pub, cof, seed)
				if rest, err := asn1.Unmarshal(raw, &sp); err != nil || len(rest) != 0 {
					t.Fatalf("%s: explicit SPKI not DER: %v", c.Name, err)
				}
				if sp.Alg.Algorithm.String() != oidEcPublicKey || !bytes.Equal(sp.Key.Bytes, c.Encode(pub)) || sp.Key.BitLength != 8*len(c.Encode(pub)) {
					t.Fatalf("%s: explicit SPKI content", c.Name)
				}
				var ps params
				if rest, err := asn1.Unmarshal(sp.Alg.Parameters.FullBytes, &ps); err != nil || len(rest) != 0 {
					t.Fatalf("%s: ECParameters not DER: %v", c.Name, err)
				}
				if ps.Version != 1 || ps.Field.Type.String() != oidPrimeField || ps.Field.Prime.Cmp(c.P) != 0 ||
					!bytes.Equal(ps.Curve.A, c.FixedBytes(c.A)) || !bytes.Equal(ps.Curve.B, c.FixedBytes(c.B)) ||
					!bytes.Equal(ps.Base, c.Encode(c.G())) || ps.Order.Cmp(c.N) != 0 {
					t.Fatalf("%s: ECParameters content", c.Name)
				}
				if cof != (ps.Cofactor != nil) || (cof && ps.Cofactor.Int64() != int64(c.H)) {
					t.Fatalf("%s: cofactor", c.Name)
				}
				if (seed && c.Seed != nil) != (len(ps.Curve.Seed.Bytes) > 0) {
					t.Fatalf("%s: seed", c.Name)
				}
			}
		}
		var sp spki
		if rest, err := asn1.Unmarshal(named, &sp); err != nil || len(rest) != 0 {
			t.Fatal(err)
		}
		var o asn1.ObjectIdentifier
		if _, err := asn1.Unmarshal(sp.Alg.Parameters.FullBytes, &o); err != nil || o.String() != c.OID {
			t.Fatalf("%s: named curve OID %v %v", c.Name, o, err)
		}
	}
}

// TestSpeed reports the measured cost of one scalar multiplication per curve
// and enforces the (generous) budget the checks were planned with.
func TestSpeed(t *testing.T) {
	s := &stream{seed: "speed"}
	for _, c := range Curves() {
		k := s.scalar(c)
		p := c.ScalarBaseMult(s.scalar(c))
		n := 20
		t0 := time.Now()
		for i := 0; i < n; i++ {
			c.ScalarMult(k, p)
		}
		per := time.Since(t0) / time.Duration(n)
		t.Logf("%-16s scalar mult %v", c.Name, per)
	}
}

func BenchmarkScalarMult(b *testing.B) {
	s := &stream{seed: "bench"}
	for _, c := range Curves() {
		k := s.scalar(c)
		p := c.ScalarBaseMult(s.scalar(c))
		b.Run(c.Name, func(b *testing.B) {
			for i := 0; i < b.N; i++ {
				c.ScalarMult(k, p)
			}
		})
	}
}
