// Package apdu is an independent ISO/IEC 7816-4 command-APDU parser and
// response splitter (it imports nothing from gmrtd).
//
// Command structure (ISO/IEC 7816-4:2013 §5.1, Table 1 / 5.2):
//
//	case 1  : CLA INS P1 P2
//	case 2S : CLA INS P1 P2 Le            (Le 1 byte, 00 => 256)
//	case 3S : CLA INS P1 P2 Lc Data       (Lc 1 byte 01..FF)
//	case 4S : CLA INS P1 P2 Lc Data Le
//	case 2E : CLA INS P1 P2 00 Le1 Le2    (0000 => 65536)
//	case 3E : CLA INS P1 P2 00 Lc1 Lc2 Data   (Lc 0001..FFFF)
//	case 4E : CLA INS P1 P2 00 Lc1 Lc2 Data Le1 Le2
package apdu

import "fmt"

type Command struct {
	CLA, INS, P1, P2 byte
	Data             []byte
	Ne               int  // 0 = absent, 1..65536
	Extended         bool // extended length fields were used
	Case             string
}

func Parse(b []byte) (*Command, error) {
	if len(b) < 4 {
		return nil, fmt.Errorf("apdu: shorter than a header (%d)", len(b))
	}
	c := &Command{CLA: b[0], INS: b[1], P1: b[2], P2: b[3]}
	body := b[4:]
	n := len(body)
	switch {
	case n == 0:
		c.Case = "1"
		return c, nil
	case n == 1:
		c.Case = "2S"
		c.Ne = int(body[0])
		if c.Ne == 0 {
			c.Ne = 256
		}
		return c, nil
	}
	if body[0] != 0 {
		// short Lc
		lc := int(body[0])
		switch {
		case n == 1+lc:
			c.Case = "3S"
			c.Data = append([]byte{}, body[1:]...)
			return c, nil
		case n == 1+lc+1:
			c.Case = "4S"
			c.Data = append([]byte{}, body[1:1+lc]...)
			c.Ne = int(body[1+lc])
			if c.Ne == 0 {
				c.Ne = 256
			}
			return c, nil
		}
		return nil, fmt.Errorf("apdu: short Lc=%d inconsistent with body length %d", lc, n)
	}
	// body[0] == 0, n >= 2 : extended
	c.Extended = true
	if n == 3 {
		c.Case = "2E"
		c.Ne = int(body[1])<<8 | int(body[2])
		if c.Ne == 0 {
			c.Ne = 65536
		}
		return c, nil
	}
	if n < 3 {
		return nil, fmt.Errorf("apdu: extended marker with body length %d", n)
	}
	lc := int(body[1])<<8 | int(body[2])
	if lc == 0 {
		return nil, fmt.Errorf("apdu: extended Lc of zero")
	}
	switch {
	case n == 3+lc:
		c.Case = "3E"
		c.Data = append([]byte{}, body[3:]...)
		return c, nil
	case n == 3+lc+2:
		c.Case = "4E"
		c.Data = append([]byte{}, body[3:3+lc]...)
		c.Ne = int(body[3+lc])<<8 | int(body[3+lc+1])
		if c.Ne == 0 {
			c.Ne = 65536
		}
		return c, nil
	}
	return nil, fmt.Errorf("apdu: extended Lc=%d inconsistent with body length %d", lc, n)
}

// Encode is the reference encoder: shortest form that can carry (data, ne).
func Encode(cla, ins, p1, p2 byte, data []byte, ne int) []byte {
	out := []byte{cla, ins, p1, p2}
	nc := len(data)
	ext := nc > 255 || ne > 256
	if !ext {
		if nc > 0 {
			out = append(out, byte(nc))
			out = append(out, data...)
		}
		if ne > 0 {
			out = append(out, byte(ne)) // 256 -> 00
		}
		return out
	}
	out = append(out, 0)
	if nc > 0 {
		out = append(out, byte(nc>>8), byte(nc))
		out = append(out, data...)
	}
	if ne > 0 {
		out = append(out, byte(ne>>8), byte(ne)) // 65536 -> 0000
	}
	return out
}

// SplitResponse splits a response APDU into data and status word.
func SplitResponse(b []byte) (data []byte, sw uint16, err error) {
	if len(b) < 2 {
		return nil, 0, fmt.Errorf("apdu: response shorter than a status word")
	}
	return append([]byte{}, b[:len(b)-2]...), uint16(b[len(b)-2])<<8 | uint16(b[len(b)-1]), nil
}
