package chipsim

import (
	"bytes"
	"crypto/sha1"

	"verifharness/ref/apdu"
	"verifharness/ref/mac"
	"verifharness/ref/sm"
)

type bacState struct {
	rndIC   []byte
	pending bool
	lastReq []byte // the terminal's EXTERNAL AUTHENTICATE data as received
}

// BACTerminalCryptogram returns the terminal's last EXTERNAL AUTHENTICATE data field.
func (c *Chip) BACTerminalCryptogram() []byte { return c.bac.lastReq }

// BACKeys derives K_enc / K_mac from the MRZ information (ICAO 9303-11 §9.7.2, 4.3.2).
func BACKeys(mrzInfo string) (kenc, kmac []byte) {
	h := sha1.Sum([]byte(mrzInfo))
	seed := h[:16]
	return mac.KDF(seed, nil, 1, "3DES"), mac.KDF(seed, nil, 2, "3DES")
}

func (c *Chip) doGetChallenge(p *apdu.Command) ([]byte, uint16) {
	if !c.Cfg.BAC {
		return nil, 0x6D00
	}
	if p.Ne != 8 {
		return nil, 0x6700
	}
	c.bac.rndIC = c.rand(8)
	c.bac.pending = true
	return append([]byte{}, c.bac.rndIC...), 0x9000
}

func (c *Chip) doExternalAuthenticate(p *apdu.Command) ([]byte, uint16) {
	if !c.Cfg.BAC || !c.bac.pending {
		return nil, 0x6985
	}
	c.bac.pending = false
	c.bac.lastReq = append([]byte{}, p.Data...)
	if len(p.Data) != 40 {
		return nil, 0x6700
	}
	kenc, kmac := BACKeys(c.Cfg.MRZInfo)
	if c.Cfg.BACKeyEnc != nil {
		kenc, kmac = c.Cfg.BACKeyEnc, c.Cfg.BACKeyMac // an impostor working with keys of its own choice
	}
	eifd, mifd := p.Data[:32], p.Data[32:]
	if !bytes.Equal(mac.RetailMAC(kmac, mac.PadM2(eifd, 8)), mifd) {
		return nil, 0x6300
	}
	s := mac.TDESCBCDecrypt(kenc, make([]byte, 8), eifd)
	rndIFD, rndIC, kIFD := s[0:8], s[8:16], s[16:32]
	if !bytes.Equal(rndIC, c.bac.rndIC) {
		return nil, 0x6300
	}
	kIC := c.rand(16)
	r := append(append(append([]byte{}, c.bac.rndIC...), rndIFD...), kIC...)
	eic := mac.TDESCBCEncrypt(kenc, make([]byte, 8), r)
	mic := mac.RetailMAC(kmac, mac.PadM2(eic, 8))
	rsp := append(eic, mic...)

	seed := make([]byte, 16)
	for i := range seed {
		seed[i] = kIFD[i] ^ kIC[i]
	}
	ksenc, ksmac := mac.KDF(seed, nil, 1, "3DES"), mac.KDF(seed, nil, 2, "3DES")
	ssc := append(append([]byte{}, c.bac.rndIC[4:8]...), rndIFD[4:8]...)
	c.pendingSM = sm.New("3DES", ksenc, ksmac, ssc)
	c.Done.BAC = true
	return c.deviate("bac-response", rsp), 0x9000
}
