package chipsim

import (
	"bytes"
	"math/big"

	"verifharness/ref/apdu"
	"verifharness/ref/ecc"
	"verifharness/ref/mac"
	"verifharness/ref/sm"
)

// Chip Authentication OIDs: id-CA = 0.4.0.127.0.7.2.2.3 ; .1 DH, .2 ECDH ; .1 3DES .2 AES128 .3 AES192 .4 AES256
const oidCAECDHPrefix = "0.4.0.127.0.7.2.2.3.2."

func CAOID(cp mac.Cipher) string {
	switch cp {
	case "3DES":
		return oidCAECDHPrefix + "1"
	case "AES-128":
		return oidCAECDHPrefix + "2"
	case "AES-192":
		return oidCAECDHPrefix + "3"
	case "AES-256":
		return oidCAECDHPrefix + "4"
	}
	return ""
}

func caCipherByOID(oid []byte) (mac.Cipher, bool) {
	for _, cp := range []mac.Cipher{"3DES", "AES-128", "AES-192", "AES-256"} {
		if bytes.Equal(oidBytes(CAOID(cp)), oid) {
			return cp, true
		}
	}
	return "", false
}

type caState struct {
	mseDone bool
	cipher  mac.Cipher
	keyIdx  int

	// ground truth
	TermPubRaw   []byte
	SharedX      []byte
	KsEnc, KsMac []byte
}

func (c *Chip) CALast() (sharedX, ksEnc, ksMac []byte) { return c.ca.SharedX, c.ca.KsEnc, c.ca.KsMac }

// CATermPub returns the terminal's ephemeral public key as received.
func (c *Chip) CATermPub() []byte { return c.ca.TermPubRaw }

func (c *Chip) caSupported(cp mac.Cipher) bool {
	if len(c.Cfg.CAOIDs) == 0 {
		return true
	}
	for _, o := range c.Cfg.CAOIDs {
		if o == CAOID(cp) {
			return true
		}
	}
	return false
}

// selectCAKey resolves the key reference (tag 84) to a key index.
func (c *Chip) selectCAKey(items []tlvItem) (int, bool) {
	if len(c.Cfg.CA) == 0 {
		return 0, false
	}
	v, has := findTLV(items, 0x84)
	if !has {
		if len(c.Cfg.CA) == 1 {
			return 0, true
		}
		// ambiguous without a reference: a chip may pick its default key
		return 0, true
	}
	id := new(big.Int).SetBytes(v) // unsigned integer; empty value = 0
	for i, k := range c.Cfg.CA {
		if k.KeyID != nil && k.KeyID.Cmp(id) == 0 {
			return i, true
		}
	}
	return 0, false
}

func (c *Chip) mseSetATCA(items []tlvItem, protected bool) ([]byte, uint16) {
	c.ca.mseDone = false
	if !protected {
		return nil, 0x6982
	}
	oidB, ok := findTLV(items, 0x80)
	if !ok {
		return nil, 0x6A80
	}
	cp, ok := caCipherByOID(oidB)
	if !ok || !c.caSupported(cp) {
		return nil, 0x6A80
	}
	idx, ok := c.selectCAKey(items)
	if !ok {
		return nil, 0x6A88
	}
	c.ca.mseDone, c.ca.cipher, c.ca.keyIdx = true, cp, idx
	return nil, 0x9000
}

func (c *Chip) caAgree(cp mac.Cipher, idx int, pub []byte) bool {
	key := c.Cfg.CA[idx]
	c.ca.TermPubRaw = append([]byte{}, pub...)
	pk, err := key.Curve.Decode(pub)
	if err != nil {
		return false
	}
	k := key.Curve.ScalarMult(key.Priv, pk)
	if k.X == nil {
		return false
	}
	c.ca.SharedX = key.Curve.FixedBytes(k.X)
	c.ca.KsEnc = mac.KDF(c.ca.SharedX, nil, 1, cp)
	c.ca.KsMac = mac.KDF(c.ca.SharedX, nil, 2, cp)
	c.pendingSM = sm.New(cp, c.ca.KsEnc, c.ca.KsMac, make([]byte, blockSize(cp)))
	c.Done.CA = true
	c.Done.CAKeyIndex = idx
	return true
}

func (c *Chip) caGeneralAuthenticate(p *apdu.Command, protected bool) ([]byte, uint16) {
	c.ca.mseDone = false
	if !protected {
		return nil, 0x6982
	}
	outer, err := parseTLVs(p.Data)
	if err != nil || len(outer) != 1 || outer[0].Tag != 0x7C {
		return nil, 0x6A80
	}
	items, err := parseTLVs(outer[0].Value)
	if err != nil {
		return nil, 0x6A80
	}
	pub, ok := findTLV(items, 0x80)
	if !ok {
		return nil, 0x6A80
	}
	if !c.caAgree(c.ca.cipher, c.ca.keyIdx, pub) {
		return nil, 0x6A80
	}
	return c.deviate("ca-ga-response", []byte{0x7C, 0x00}), 0x9000
}

// MSE:Set KAT - the 3DES variant of Chip Authentication (one command).
func (c *Chip) mseSetKAT(items []tlvItem, protected bool) ([]byte, uint16) {
	if !protected {
		return nil, 0x6982
	}
	if !c.Cfg.AllowKAT || !c.caSupported("3DES") {
		return nil, 0x6A80
	}
	pub, ok := findTLV(items, 0x91)
	if !ok {
		return nil, 0x6A80
	}
	idx, ok := c.selectCAKey(items)
	if !ok {
		return nil, 0x6A88
	}
	if !c.caAgree("3DES", idx, pub) {
		return nil, 0x6A80
	}
	return nil, 0x9000
}

var _ = ecc.Point{}
