package chipsim

import (
	"crypto"
	"math/big"

	"verifharness/ref/apdu"
)

func trailerHash(trailer int) crypto.Hash {
	switch trailer {
	case 0xBC, 0x33CC:
		return crypto.SHA1
	case 0x38CC:
		return crypto.SHA224
	case 0x34CC:
		return crypto.SHA256
	case 0x36CC:
		return crypto.SHA384
	case 0x35CC:
		return crypto.SHA512
	}
	return crypto.SHA1
}

func ecHashBySize(bits int) crypto.Hash {
	switch {
	case bits >= 512:
		return crypto.SHA512
	case bits >= 384:
		return crypto.SHA384
	case bits >= 256:
		return crypto.SHA256
	default:
		return crypto.SHA224
	}
}

// RSASign is the ISO/IEC 9796-2 scheme 1 signer (set by aa_rsa.go from ref/iso9796).
var RSASign func(n, d *big.Int, m1, m2 []byte, h crypto.Hash, trailer int) ([]byte, error)

// RSAM1Len gives the canonical length of the recoverable part M1.
var RSAM1Len func(n *big.Int, h crypto.Hash, trailer int) int

// AALast is ground truth about the last INTERNAL AUTHENTICATE.
type AALast struct {
	Challenge []byte
	Signature []byte
}

func (c *Chip) doInternalAuthenticate(p *apdu.Command, protected bool) ([]byte, uint16) {
	k := c.Cfg.AA
	if k == nil {
		return nil, 0x6D00
	}
	if !protected && !c.Cfg.OpenLDS {
		return nil, 0x6982
	}
	if len(p.Data) != 8 {
		return nil, 0x6700
	}
	c.LastAA = &AALast{Challenge: append([]byte{}, p.Data...)}
	var sig []byte
	if k.N != nil {
		h := trailerHash(k.Trailer)
		if RSAM1Len == nil {
			return nil, 0x6A80
		}
		m1len := RSAM1Len(k.N, h, k.Trailer)
		if m1len < 0 {
			return nil, 0x6A80
		}
		m1 := c.rand(m1len)
		switch k.M1Mode {
		case 1:
			for i := range m1 {
				m1[i] = 0
			}
		case 2:
			for i := 0; i < len(m1) && i < 3; i++ {
				m1[i] = 0
			}
		}
		if RSASign == nil {
			return nil, 0x6A80
		}
		s, err := RSASign(k.N, k.D, m1, p.Data, h, k.Trailer)
		if err != nil {
			return nil, 0x6A80
		}
		sig = s
	} else {
		h := ecHashBySize(k.Curve.N.BitLen())
		if k.HashID != 0 {
			h = crypto.Hash(k.HashID)
		}
		hh := h.New()
		hh.Write(p.Data)
		nonce := c.randScalar(k.Curve)
		r, s, err := k.Curve.Sign(k.Priv, hh.Sum(nil), nonce)
		if err != nil {
			return nil, 0x6A80
		}
		if k.SteerFirstOctet != nil {
			// a genuine signature like any other, chosen among up to 3000 nonces so that the first octet of
			// the plain r||s form is the wanted one (30 looks like the start of a DER SEQUENCE, 00 is a leading zero)
			for i := 0; i < 3000 && k.Curve.FixedBytes(r)[0] != *k.SteerFirstOctet; i++ {
				nonce = c.randScalar(k.Curve)
				if r, s, err = k.Curve.Sign(k.Priv, hh.Sum(nil), nonce); err != nil {
					return nil, 0x6A80
				}
			}
			if k.Curve.FixedBytes(r)[0] == *k.SteerFirstOctet {
				c.AASteered++
			}
		}
		if k.DERSig {
			sig = derSig(r, s)
		} else {
			sig = append(k.Curve.FixedBytes(r), k.Curve.FixedBytes(s)...)
		}
	}
	sig = c.deviate("aa-signature", sig)
	c.LastAA.Signature = sig
	if c.Cfg.StrictAuthLe && p.Ne != 0 && len(sig) > p.Ne {
		return nil, 0x6700
	}
	c.Done.AA = true
	return sig, 0x9000
}

func derInt(v *big.Int) []byte {
	b := v.Bytes()
	if len(b) == 0 {
		b = []byte{0}
	}
	if b[0]&0x80 != 0 {
		b = append([]byte{0}, b...)
	}
	return tlv(0x02, b)
}

func derSig(r, s *big.Int) []byte {
	return tlv(0x30, append(derInt(r), derInt(s)...))
}
