// Package chipsim is an independent, conforming (and optionally hostile)
// ICAO 9303 eMRTD chip: file system, BAC, PACE-GM / PACE-CAM, Chip
// Authentication v1, Active Authentication and secure messaging.  It is built
// only on verifharness/ref/* (no gmrtd import) and implements the shape of
// iso7816.Transceiver, so the library under test talks to it as to a real chip.
//
// Ground truth exposed to oracles: file bytes, which protocols the chip really
// completed, the session keys / SSC it holds, and the full transcript.
package chipsim

import (
	"bytes"
	"fmt"
	"math/big"

	"verifharness/ref/apdu"
	"verifharness/ref/ecc"
	"verifharness/ref/mac"
	"verifharness/ref/sm"
)

// File identifiers.
const (
	FidCardAccess   = 0x011C
	FidCardSecurity = 0x011D // in the MF
	FidDir          = 0x2F00
	FidSOD          = 0x011D // in the LDS1 DF
	FidCOM          = 0x011E
)

var AidMRTD = []byte{0xA0, 0x00, 0x00, 0x02, 0x47, 0x10, 0x01}

// PaceEntry is one PACE configuration the chip supports (and advertises through
// whatever EF.CardAccess bytes the personaliser stored).
type PaceEntry struct {
	OID     string // dotted
	ParamID int    // standardized domain parameter id (8..18)
}

// CAKey is one static Chip Authentication key the chip holds.
type CAKey struct {
	KeyID *big.Int // nil = no key id
	Curve *ecc.Curve
	Priv  *big.Int
}

// AAKey is the Active Authentication private key.
type AAKey struct {
	// RSA
	N, D    *big.Int
	Trailer int // 0xBC or 0x33CC/0x34CC/...; hash follows from the trailer
	M1Mode  int // 0 random, 1 all zero, 2 leading zero bytes
	// ECDSA
	Curve  *ecc.Curve
	Priv   *big.Int
	DERSig bool // signature as DER SEQUENCE instead of plain r||s
	HashID int  // crypto.Hash for ECDSA (0 = by key size)
	// SteerFirstOctet: search the signing nonce so that r starts with this octet (still a genuine signature)
	SteerFirstOctet *byte
}

type Config struct {
	// passwords
	MRZInfo string // MRZ information (doc no+cd, dob+cd, expiry+cd) - BAC and PACE-MRZ
	CAN     string // empty = no CAN

	BAC  bool
	PACE []PaceEntry
	// PACE-CAM static key (must match the key in EF.CardSecurity); also usable as CA key
	CAMKey *CAKey

	CA       []CAKey
	CAOIDs   []string // supported CA protocol OIDs (dotted); empty = all four ECDH suites
	AllowKAT bool     // accept MSE:Set KAT (3DES CA variant)
	AA       *AAKey

	// files
	MF map[uint16][]byte // CardAccess, CardSecurity, EF.DIR
	DF map[uint16][]byte // EF.COM, EF.SOD, DGs (fid 0101..0110)

	// transport behaviour
	Extended      bool                       // extended-length APDUs accepted
	ReadCap       int                        // max plaintext bytes returned per READ BINARY (0 = unlimited)
	LeReject      int                        // READ BINARY with Ne above this is refused with 6700 (0 = never)
	ChunkFn       func(offset, want int) int // optional: how many bytes to return (1..want)
	BACKeyEnc     []byte                     // hostile: basic access keys used instead of the MRZ-derived ones
	BACKeyMac     []byte                     //
	ReuseRxBuffer bool                       // responses are returned in ONE receive buffer that the next response overwrites (as link drivers do)
	PaceReflector bool                       // hostile: PACE without the password by echoing the terminal's agreement key and token
	AbsentSW      map[uint16]uint16          // status word for SELECT of particular absent files (default 6A82)
	NoSessionSW   uint16                     // answer to a secure-messaging command when no session is open (after an abort); 0 = 6882.  Chips differ: 6882, 6987, 6988, 6982 are all met.
	OpenLDS       bool                       // LDS files readable without secure messaging (no access control)
	StrictAuthLe  bool                       // refuse INTERNAL AUTHENTICATE when Ne is smaller than the signature (default: Ne ignored)
	SelectNeedsSM bool                       // SELECT of an LDS EF without SM answers 6982 (else only READ BINARY does)

	// randomness of the chip: returns n bytes (drawn by the test's generator)
	Rand func(n int) []byte

	// Steering of ephemeral scalars into edge slices (PACE): search up to Tries
	// scalars for one whose shared x / own public x has leading zero octets.
	SteerAgreementLeadingZero bool
	SteerMappingLeadingZero   bool
	SteerOwnPubLeadingZero    bool
	SteerTries                int

	// Deviate lets a test alter one chip message: called with a step name and the
	// genuine value, returns the value to send (nil hook = conforming chip).
	// Steps: "bac-response" (40 bytes), "pace-enc-nonce", "pace-map-pub", "pace-ka-pub",
	// "pace-token", "pace-ecad", "ca-ga-response" (plain data before SM wrap), "aa-signature",
	// "rapdu" (every final response APDU, after SM wrapping; arg2 = exchange index).
	Deviate func(step string, genuine []byte) []byte
}

// Exchange is one transcript entry.
type Exchange struct {
	Cmd, Rsp  []byte
	Protected bool // command arrived under secure messaging and authenticated
	INS       byte // plain INS
	Plain     *apdu.Command
	PlainRsp  []byte // plain response data
	SW        uint16
	Note      string
}

type Completed struct {
	BAC, PACE, PACECAM, CA, AA bool
	PACEEntry                  PaceEntry
	PACEPassword               int // 1 MRZ, 2 CAN
	CAKeyIndex                 int
}

type Chip struct {
	Cfg        Config
	SM         *sm.Session // current secure messaging session (nil = none)
	Done       Completed
	Transcript []Exchange

	// ground-truth counters
	PlainLDSReads  int // READ BINARY / SELECT of LDS files served without SM (only possible with OpenLDS)
	AASteered      int // ECDSA signatures whose first octet was steered successfully
	SMFailures     int // protected commands that failed authentication
	SMTerminations int
	ReadBinaryLog  []ReadRec

	rxBuf    []byte
	rxUsed   int
	inDF     bool
	curFile  []byte
	curFid   uint16
	curIsLDS bool

	pendingSM *sm.Session
	LastAA    *AALast

	bac  bacState
	pace paceState
	ca   caState
}

type ReadRec struct {
	Fid        uint16
	P1, P2     byte
	Offset, Ne int
	Returned   int
	SW         uint16
	Protected  bool
	SFI        bool
}

func New(cfg Config) *Chip {
	if cfg.SteerTries == 0 {
		cfg.SteerTries = 4000
	}
	return &Chip{Cfg: cfg}
}

func (c *Chip) rand(n int) []byte {
	if c.Cfg.Rand == nil {
		return make([]byte, n)
	}
	b := c.Cfg.Rand(n)
	if len(b) != n {
		out := make([]byte, n)
		copy(out, b)
		return out
	}
	return b
}

// randScalar draws a scalar in [1, n-1].
func (c *Chip) randScalar(cv *ecc.Curve) *big.Int {
	b := c.rand(cv.ByteLen + 8)
	k := new(big.Int).SetBytes(b)
	nm1 := new(big.Int).Sub(cv.N, big.NewInt(1))
	k.Mod(k, nm1)
	return k.Add(k, big.NewInt(1))
}

func (c *Chip) deviate(step string, v []byte) []byte {
	if c.Cfg.Deviate == nil {
		return v
	}
	return c.Cfg.Deviate(step, v)
}

func sw(v uint16) []byte { return []byte{byte(v >> 8), byte(v)} }

// Transceive has the signature of gmrtd's iso7816.Transceiver; only the encoded
// command is used (that is what travels on the wire).
func (c *Chip) Transceive(_ int, _ int, _ int, _ int, _ []byte, _ int, encoded []byte) []byte {
	rsp := c.process(encoded)
	rsp = c.deviate("rapdu", rsp)
	if n := len(c.Transcript); n > 0 {
		c.Transcript[n-1].Rsp = append([]byte{}, rsp...)
	}
	if c.Cfg.ReuseRxBuffer {
		if cap(c.rxBuf) < len(rsp) {
			c.rxBuf = make([]byte, 0, max(2*len(rsp), 4096))
		}
		// scrub what the previous response occupied: stale views of it then show up as wrong data
		prev := c.rxBuf[:c.rxUsed]
		for i := range prev {
			prev[i] = 0xEE
		}
		c.rxUsed = len(rsp)
		c.rxBuf = append(c.rxBuf[:0], rsp...)
		return c.rxBuf
	}
	return rsp
}

func (c *Chip) process(cmd []byte) []byte {
	ex := Exchange{Cmd: append([]byte{}, cmd...)}
	defer func() { c.Transcript = append(c.Transcript, ex) }()

	p, err := apdu.Parse(cmd)
	if err != nil {
		ex.Note = "malformed APDU: " + err.Error()
		ex.SW = 0x6700
		c.dropSM()
		return sw(0x6700)
	}
	if p.Extended && !c.Cfg.Extended {
		ex.Note = "extended length not supported"
		ex.SW = 0x6700
		c.dropSM()
		return sw(0x6700)
	}
	smCmd := p.CLA&0x0C == 0x0C
	if smCmd {
		if c.SM == nil {
			ex.Note = "SM command without session"
			ex.SW = 0x6882
			if c.Cfg.NoSessionSW != 0 {
				ex.SW = c.Cfg.NoSessionSW
			}
			return sw(ex.SW)
		}
		u, err := c.SM.UnwrapCommand(cmd)
		if err != nil {
			ex.Note = "SM unwrap failed: " + err.Error()
			ex.SW = 0x6988
			c.SMFailures++
			c.dropSM()
			return sw(0x6988)
		}
		plain := &apdu.Command{CLA: u.CLA &^ 0x0C, INS: u.INS, P1: u.P1, P2: u.P2, Data: u.Data, Ne: u.Ne, Extended: u.Extended}
		ex.Protected = true
		ex.Plain = plain
		ex.INS = plain.INS
		// keys may be switched by the command (CA): the response is protected
		// with the session that authenticated the command.
		cur := c.SM
		data, status := c.dispatch(plain, true)
		ex.PlainRsp, ex.SW = data, status
		out := cur.WrapResponse(data, status, plain.INS%2 == 1)
		c.afterResponse()
		return out
	}
	// plain command
	if c.SM != nil {
		// a plain command while SM is active terminates the session
		c.dropSM()
		ex.Note = "plain command terminated SM"
	}
	ex.Plain = p
	ex.INS = p.INS
	data, status := c.dispatch(p, false)
	ex.PlainRsp, ex.SW = data, status
	c.afterResponse()
	return append(append([]byte{}, data...), sw(status)...)
}

func (c *Chip) dropSM() {
	if c.SM != nil {
		c.SMTerminations++
	}
	c.SM = nil
}

// afterResponse installs a session prepared by BAC / PACE / CA once the
// response to the establishing command has been sent.
func (c *Chip) afterResponse() {
	if c.pendingSM != nil {
		c.SM = c.pendingSM
		c.pendingSM = nil
	}
}

func (c *Chip) dispatch(p *apdu.Command, protected bool) ([]byte, uint16) {
	chain := p.CLA&0x10 != 0
	if p.INS != 0x86 {
		// any other command aborts a running PACE chain
		c.pace.step = 0
	}
	switch p.INS {
	case 0xA4:
		return c.doSelect(p, protected)
	case 0xB0:
		return c.doReadBinary(p, protected)
	case 0x84:
		return c.doGetChallenge(p)
	case 0x82:
		return c.doExternalAuthenticate(p)
	case 0x22:
		return c.doMSE(p, protected)
	case 0x86:
		return c.doGeneralAuthenticate(p, protected, chain)
	case 0x88:
		return c.doInternalAuthenticate(p, protected)
	}
	return nil, 0x6D00
}

// ---------------------------------------------------------------- file system

func (c *Chip) ldsAccessible(protected bool) bool {
	return protected || c.Cfg.OpenLDS
}

func (c *Chip) doSelect(p *apdu.Command, protected bool) ([]byte, uint16) {
	switch p.P1 {
	case 0x00:
		if len(p.Data) == 0 || bytes.Equal(p.Data, []byte{0x3F, 0x00}) {
			c.inDF, c.curFile, c.curFid = false, nil, 0
			return nil, 0x9000
		}
		return nil, 0x6A82
	case 0x04:
		if bytes.Equal(p.Data, AidMRTD) {
			c.inDF, c.curFile, c.curFid = true, nil, 0
			return nil, 0x9000
		}
		return nil, 0x6A82
	case 0x02:
		if len(p.Data) != 2 {
			return nil, 0x6700
		}
		fid := uint16(p.Data[0])<<8 | uint16(p.Data[1])
		return nil, c.selectFid(fid, protected)
	}
	return nil, 0x6A86
}

func (c *Chip) selectFid(fid uint16, protected bool) uint16 {
	var f []byte
	var ok, lds bool
	if c.inDF {
		f, ok = c.Cfg.DF[fid]
		lds = true
	} else {
		f, ok = c.Cfg.MF[fid]
		// CardSecurity is readable only inside a secure channel
		lds = fid == FidCardSecurity
	}
	if !ok {
		if sw, special := c.Cfg.AbsentSW[fid]; special {
			return sw // a hostile chip refusing a file with something else than "file not found"
		}
		return 0x6A82
	}
	if lds && c.Cfg.SelectNeedsSM && !c.ldsAccessible(protected) {
		return 0x6982
	}
	c.curFile, c.curFid, c.curIsLDS = f, fid, lds
	return 0x9000
}

func sfiToFid(sfi byte, inDF bool) (uint16, bool) {
	if inDF {
		switch {
		case sfi >= 1 && sfi <= 16:
			return 0x0100 + uint16(sfi), true
		case sfi == 0x1E:
			return FidCOM, true
		case sfi == 0x1D:
			return FidSOD, true
		}
		return 0, false
	}
	switch sfi {
	case 0x1C:
		return FidCardAccess, true
	case 0x1D:
		return FidCardSecurity, true
	case 0x1E:
		return FidDir, true
	}
	return 0, false
}

func (c *Chip) doReadBinary(p *apdu.Command, protected bool) (data []byte, status uint16) {
	rec := ReadRec{P1: p.P1, P2: p.P2, Ne: p.Ne, Protected: protected}
	defer func() {
		rec.Fid, rec.Returned, rec.SW = c.curFid, len(data), status
		c.ReadBinaryLog = append(c.ReadBinaryLog, rec)
	}()
	offset := int(p.P1)<<8 | int(p.P2)
	if p.P1&0x80 != 0 {
		// ISO 7816-4: b8=1 of P1 => b5..b1 of P1 is a short EF identifier, P2 the offset
		if p.P1&0x60 != 0 {
			return nil, 0x6A86
		}
		rec.SFI = true
		fid, ok := sfiToFid(p.P1&0x1F, c.inDF)
		if !ok {
			return nil, 0x6A82
		}
		if st := c.selectFid(fid, protected); st != 0x9000 {
			return nil, st
		}
		offset = int(p.P2)
	}
	rec.Offset = offset
	if c.curFile == nil {
		return nil, 0x6986
	}
	if c.curIsLDS && !c.ldsAccessible(protected) {
		return nil, 0x6982
	}
	if c.curIsLDS && !protected {
		c.PlainLDSReads++
	}
	if len(p.Data) != 0 {
		return nil, 0x6700
	}
	if p.Ne == 0 {
		return nil, 0x6700
	}
	if c.Cfg.LeReject > 0 && p.Ne > c.Cfg.LeReject {
		return nil, 0x6700
	}
	if offset >= len(c.curFile) {
		return nil, 0x6B00
	}
	n := p.Ne
	if rem := len(c.curFile) - offset; n > rem {
		n = rem
	}
	if c.Cfg.ReadCap > 0 && n > c.Cfg.ReadCap {
		n = c.Cfg.ReadCap
	}
	if c.Cfg.ChunkFn != nil {
		if k := c.Cfg.ChunkFn(offset, n); k >= 1 && k <= n {
			n = k
		}
	}
	return append([]byte{}, c.curFile[offset:offset+n]...), 0x9000
}

// ---------------------------------------------------------------- helpers

func cipherOf(name string) mac.Cipher { return mac.Cipher(name) }

func blockSize(cp mac.Cipher) int {
	if cp == "3DES" {
		return 8
	}
	return 16
}

// authMAC is the 8-byte authentication code used for tokens: retail MAC with
// padding method 2 for 3DES, AES-CMAC truncated to 8 bytes otherwise.
func authMAC(cp mac.Cipher, key, data []byte) []byte {
	if cp == "3DES" {
		return mac.RetailMAC(key, mac.PadM2(data, 8))
	}
	return mac.AESCMAC(key, data)[:8]
}

func cbcEncrypt(cp mac.Cipher, key, iv, data []byte) []byte {
	if cp == "3DES" {
		return mac.TDESCBCEncrypt(key, iv, data)
	}
	return mac.AESCBCEncrypt(key, iv, data)
}

func cbcDecrypt(cp mac.Cipher, key, iv, data []byte) []byte {
	if cp == "3DES" {
		return mac.TDESCBCDecrypt(key, iv, data)
	}
	return mac.AESCBCDecrypt(key, iv, data)
}

func (c *Chip) String() string {
	return fmt.Sprintf("chip{done:%+v sm:%v exchanges:%d}", c.Done, c.SM != nil, len(c.Transcript))
}

// --- minimal flat TLV reader for command data (1-2 byte tags, definite lengths)

type tlvItem struct {
	Tag   uint32
	Value []byte
}

func parseTLVs(b []byte) ([]tlvItem, error) {
	var out []tlvItem
	for len(b) > 0 {
		tag := uint32(b[0])
		i := 1
		if b[0]&0x1F == 0x1F {
			if len(b) < 2 {
				return nil, fmt.Errorf("tlv: truncated tag")
			}
			tag = tag<<8 | uint32(b[1])
			i = 2
		}
		if i >= len(b) {
			return nil, fmt.Errorf("tlv: missing length")
		}
		l := int(b[i])
		i++
		if l >= 0x80 {
			k := l & 0x7F
			if k == 0 || k > 3 || i+k > len(b) {
				return nil, fmt.Errorf("tlv: bad length")
			}
			l = 0
			for j := 0; j < k; j++ {
				l = l<<8 | int(b[i+j])
			}
			i += k
		}
		if i+l > len(b) {
			return nil, fmt.Errorf("tlv: value overruns")
		}
		out = append(out, tlvItem{tag, b[i : i+l]})
		b = b[i+l:]
	}
	return out, nil
}

func findTLV(items []tlvItem, tag uint32) ([]byte, bool) {
	for _, it := range items {
		if it.Tag == tag {
			return it.Value, true
		}
	}
	return nil, false
}

func encLen(n int) []byte {
	switch {
	case n < 0x80:
		return []byte{byte(n)}
	case n < 0x100:
		return []byte{0x81, byte(n)}
	default:
		return []byte{0x82, byte(n >> 8), byte(n)}
	}
}

func tlv(tag uint32, v []byte) []byte {
	var out []byte
	if tag > 0xFF {
		out = append(out, byte(tag>>8))
	}
	out = append(out, byte(tag))
	out = append(out, encLen(len(v))...)
	return append(out, v...)
}

// oidBytes encodes a dotted OID's content octets.
func oidBytes(dotted string) []byte {
	var arcs []uint64
	var cur uint64
	have := false
	for i := 0; i <= len(dotted); i++ {
		if i == len(dotted) || dotted[i] == '.' {
			if have {
				arcs = append(arcs, cur)
			}
			cur, have = 0, false
			continue
		}
		cur = cur*10 + uint64(dotted[i]-'0')
		have = true
	}
	if len(arcs) < 2 {
		return nil
	}
	out := []byte{}
	enc := func(v uint64) {
		var tmp []byte
		tmp = append(tmp, byte(v&0x7F))
		v >>= 7
		for v > 0 {
			tmp = append(tmp, byte(v&0x7F)|0x80)
			v >>= 7
		}
		for i := len(tmp) - 1; i >= 0; i-- {
			out = append(out, tmp[i])
		}
	}
	enc(arcs[0]*40 + arcs[1])
	for _, a := range arcs[2:] {
		enc(a)
	}
	return out
}
