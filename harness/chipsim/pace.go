package chipsim

import (
	"bytes"
	"crypto/sha1"
	"math/big"

	"verifharness/ref/apdu"
	"verifharness/ref/ecc"
	"verifharness/ref/mac"
	"verifharness/ref/sm"
)

// PACE protocol OIDs (ICAO 9303-11 §9.2 / BSI TR-03110): 0.4.0.127.0.7.2.2.4.x.y
const oidPacePrefix = "0.4.0.127.0.7.2.2.4."

// PaceSuite describes a PACE protocol OID.
type PaceSuite struct {
	OID     string
	Mapping string // "GM", "IM", "CAM"
	DH      bool   // finite-field DH instead of ECDH
	Cipher  mac.Cipher
}

// PaceSuites lists every PACE OID of ICAO 9303-11.
func PaceSuites() []PaceSuite {
	var out []PaceSuite
	ciphers := []mac.Cipher{"3DES", "AES-128", "AES-192", "AES-256"}
	add := func(branch string, mapping string, dh bool, from int) {
		for i := from; i < 4; i++ {
			out = append(out, PaceSuite{OID: oidPacePrefix + branch + "." + string(rune('1'+i)), Mapping: mapping, DH: dh, Cipher: ciphers[i]})
		}
	}
	add("1", "GM", true, 0)
	add("2", "GM", false, 0)
	add("3", "IM", true, 0)
	add("4", "IM", false, 0)
	add("6", "CAM", false, 1) // 6.2, 6.3, 6.4
	return out
}

func PaceSuiteByOID(oid string) (PaceSuite, bool) {
	for _, s := range PaceSuites() {
		if s.OID == oid {
			return s, true
		}
	}
	return PaceSuite{}, false
}

// PaceOID returns the OID for (mapping GM/CAM over ECDH, cipher).
func PaceOID(mapping string, cp mac.Cipher) string {
	for _, s := range PaceSuites() {
		if s.Mapping == mapping && !s.DH && s.Cipher == cp {
			return s.OID
		}
	}
	return ""
}

type paceState struct {
	step    int // 0 idle, 1 MSE done, 2 nonce sent, 3 mapping done, 4 key agreement done
	suite   PaceSuite
	entry   PaceEntry
	curve   *ecc.Curve
	pwdRef  int
	nonce   []byte
	skMap   *big.Int
	pkMapIC ecc.Point
	ghat    ecc.Point
	skDH    *big.Int
	pkDHIC  ecc.Point
	pkDHIFD ecc.Point
	ksEnc   []byte
	ksMac   []byte

	// ground truth for oracles
	SharedX       []byte
	Slice         string
	TermMapPubRaw []byte
	TermKaPubRaw  []byte
}

// PaceLast exposes ground truth of the last PACE run.
func (c *Chip) PaceLast() (sharedX []byte, ksEnc, ksMac []byte, slice string) {
	return c.pace.SharedX, c.pace.ksEnc, c.pace.ksMac, c.pace.Slice
}

// PaceTermPubs returns the terminal's mapping / key-agreement public keys as received.
func (c *Chip) PaceTermPubs() (mapPub, kaPub []byte) {
	return c.pace.TermMapPubRaw, c.pace.TermKaPubRaw
}

// PacePasswordKey computes K_pi = KDF_pi(f(pi)).
func PacePasswordKey(pwdRef int, mrzInfo, can string, cp mac.Cipher) []byte {
	var k []byte
	if pwdRef == 1 {
		h := sha1.Sum([]byte(mrzInfo))
		k = h[:]
	} else {
		k = []byte(can)
	}
	return mac.KDF(k, nil, 3, cp)
}

func (c *Chip) doMSE(p *apdu.Command, protected bool) ([]byte, uint16) {
	items, err := parseTLVs(p.Data)
	if err != nil {
		return nil, 0x6A80
	}
	switch {
	case p.P1 == 0xC1 && p.P2 == 0xA4:
		return c.mseSetATPace(items)
	case p.P1 == 0x41 && p.P2 == 0xA4:
		return c.mseSetATCA(items, protected)
	case p.P1 == 0x41 && p.P2 == 0xA6:
		return c.mseSetKAT(items, protected)
	}
	return nil, 0x6A86
}

func (c *Chip) mseSetATPace(items []tlvItem) ([]byte, uint16) {
	c.pace = paceState{}
	oidB, ok := findTLV(items, 0x80)
	if !ok {
		return nil, 0x6A80
	}
	pw, ok := findTLV(items, 0x83)
	if !ok || len(pw) != 1 {
		return nil, 0x6A80
	}
	var paramID = -1
	if v, ok := findTLV(items, 0x84); ok {
		if len(v) != 1 {
			return nil, 0x6A80
		}
		paramID = int(v[0])
	}
	var entry *PaceEntry
	for i := range c.Cfg.PACE {
		e := &c.Cfg.PACE[i]
		if bytes.Equal(oidBytes(e.OID), oidB) && (paramID < 0 || paramID == e.ParamID) {
			entry = e
			break
		}
	}
	if entry == nil {
		return nil, 0x6A80
	}
	suite, ok := PaceSuiteByOID(entry.OID)
	if !ok || suite.DH || suite.Mapping == "IM" {
		return nil, 0x6A80 // this chip implements ECDH GM / CAM only
	}
	cv := ecc.ByPaceID(entry.ParamID)
	if cv == nil {
		return nil, 0x6A80
	}
	switch pw[0] {
	case 1:
		if c.Cfg.MRZInfo == "" {
			return nil, 0x6A88
		}
	case 2:
		if c.Cfg.CAN == "" {
			return nil, 0x6A88
		}
	default:
		return nil, 0x6A88
	}
	if suite.Mapping == "CAM" && c.Cfg.CAMKey == nil {
		return nil, 0x6A80
	}
	c.pace.step, c.pace.suite, c.pace.entry, c.pace.curve, c.pace.pwdRef = 1, suite, *entry, cv, int(pw[0])
	return nil, 0x9000
}

func dyn(tag uint32, v []byte) []byte { return tlv(0x7C, tlv(tag, v)) }

func (c *Chip) doGeneralAuthenticate(p *apdu.Command, protected bool, chain bool) ([]byte, uint16) {
	if c.ca.mseDone && c.pace.step == 0 {
		return c.caGeneralAuthenticate(p, protected)
	}
	if c.pace.step == 0 {
		return nil, 0x6985
	}
	fail := func(status uint16) ([]byte, uint16) {
		c.pace.step = 0
		return nil, status
	}
	outer, err := parseTLVs(p.Data)
	if err != nil || len(outer) != 1 || outer[0].Tag != 0x7C {
		return fail(0x6A80)
	}
	items, err := parseTLVs(outer[0].Value)
	if err != nil {
		return fail(0x6A80)
	}
	ps := &c.pace
	cv := ps.curve
	cp := ps.suite.Cipher
	switch ps.step {
	case 1: // encrypted nonce
		if len(items) != 0 || !chain {
			return fail(0x6A80)
		}
		n := 16
		if l := c.rand(1)[0]; cp != "3DES" && l&0x03 == 0x03 {
			n = 32 // occasionally a longer nonce (multiple of the block size)
		} else if cp == "3DES" && l&0x03 == 0x03 {
			n = 24
		}
		ps.nonce = c.rand(n)
		kpi := PacePasswordKey(ps.pwdRef, c.Cfg.MRZInfo, c.Cfg.CAN, cp)
		z := cbcEncrypt(cp, kpi, make([]byte, blockSize(cp)), ps.nonce)
		if c.Cfg.PaceReflector {
			z = c.rand(n) // the reflector knows no password: any cryptogram will do
		}
		ps.step = 2
		return dyn(0x80, c.deviate("pace-enc-nonce", z)), 0x9000
	case 2: // map nonce (generic mapping)
		v, ok := findTLV(items, 0x81)
		if !ok || !chain {
			return fail(0x6A80)
		}
		pkIFD, err := cv.Decode(v)
		if err != nil {
			return fail(0x6A80)
		}
		ps.TermMapPubRaw = append([]byte{}, v...)
		ps.skMap = c.randScalar(cv)
		if c.Cfg.SteerMappingLeadingZero {
			ps.skMap = c.steer(cv, ps.skMap, pkIFD, func(h ecc.Point) bool { return cv.FixedBytes(h.X)[0] == 0 }, "map-shared-x00")
		}
		ps.pkMapIC = cv.ScalarBaseMult(ps.skMap)
		if c.Cfg.SteerOwnPubLeadingZero {
			ps.skMap = c.steer(cv, ps.skMap, cv.G(), func(q ecc.Point) bool {
				return cv.FixedBytes(q.X)[0] == 0 || cv.FixedBytes(q.Y)[0] == 0
			}, "map-pub-00")
			ps.pkMapIC = cv.ScalarBaseMult(ps.skMap)
		}
		if ps.pkMapIC.X.Cmp(pkIFD.X) == 0 && ps.pkMapIC.Y.Cmp(pkIFD.Y) == 0 {
			return fail(0x6A80)
		}
		h := cv.ScalarMult(ps.skMap, pkIFD)
		if h.X == nil {
			return fail(0x6A80)
		}
		s := new(big.Int).SetBytes(ps.nonce)
		ps.ghat = cv.Add(cv.ScalarBaseMult(s), h)
		if ps.ghat.X == nil {
			return fail(0x6A80)
		}
		ps.step = 3
		return dyn(0x82, c.deviate("pace-map-pub", cv.Encode(ps.pkMapIC))), 0x9000
	case 3: // key agreement
		v, ok := findTLV(items, 0x83)
		if !ok || !chain {
			return fail(0x6A80)
		}
		pkIFD, err := cv.Decode(v)
		if err != nil {
			return fail(0x6A80)
		}
		ps.pkDHIFD = pkIFD
		ps.TermKaPubRaw = append([]byte{}, v...)
		if c.Cfg.PaceReflector {
			// hostile counterpart without the password: echo the terminal's own agreement key ...
			ps.step = 4
			return dyn(0x84, append([]byte{}, v...)), 0x9000
		}
		ps.skDH = c.randScalar(cv)
		if c.Cfg.SteerAgreementLeadingZero {
			ps.skDH = c.steer(cv, ps.skDH, pkIFD, func(q ecc.Point) bool { return cv.FixedBytes(q.X)[0] == 0 }, "ka-shared-x00")
		} else if c.Cfg.SteerOwnPubLeadingZero {
			ps.skDH = c.steer(cv, ps.skDH, ps.ghat, func(q ecc.Point) bool {
				return cv.FixedBytes(q.X)[0] == 0 || cv.FixedBytes(q.Y)[0] == 0
			}, "ka-pub-00")
		}
		ps.pkDHIC = cv.ScalarMult(ps.skDH, ps.ghat)
		if ps.pkDHIC.X.Cmp(pkIFD.X) == 0 && ps.pkDHIC.Y.Cmp(pkIFD.Y) == 0 {
			return fail(0x6A80)
		}
		k := cv.ScalarMult(ps.skDH, pkIFD)
		if k.X == nil {
			return fail(0x6A80)
		}
		ps.SharedX = cv.FixedBytes(k.X)
		if ps.SharedX[0] == 0 && ps.Slice == "" {
			ps.Slice = "ka-shared-x00(natural)"
		}
		ps.ksEnc = mac.KDF(ps.SharedX, nil, 1, cp)
		ps.ksMac = mac.KDF(ps.SharedX, nil, 2, cp)
		ps.step = 4
		return dyn(0x84, c.deviate("pace-ka-pub", cv.Encode(ps.pkDHIC))), 0x9000
	case 4: // mutual authentication
		v, ok := findTLV(items, 0x85)
		if !ok || chain {
			return fail(0x6A80)
		}
		if c.Cfg.PaceReflector {
			// ... and echo the terminal's token: with equal keys both tokens are the same MAC
			ps.step = 0
			return tlv(0x7C, tlv(0x86, append([]byte{}, v...))), 0x9000
		}
		oidB := oidBytes(ps.suite.OID)
		tokenInput := func(pk ecc.Point) []byte {
			return tlv(0x7F49, append(tlv(0x06, oidB), tlv(0x86, cv.Encode(pk))...))
		}
		wantTIFD := authMAC(cp, ps.ksMac, tokenInput(ps.pkDHIC))
		if !bytes.Equal(v, wantTIFD) {
			return fail(0x6300)
		}
		tIC := authMAC(cp, ps.ksMac, tokenInput(ps.pkDHIFD))
		body := tlv(0x86, c.deviate("pace-token", tIC))
		if ps.suite.Mapping == "CAM" {
			// CA_IC = SK_IC^-1 * SK_map mod n ; A_IC = E(KS_enc, CA_IC), IV = E(KS_enc, FF..FF)
			key := c.Cfg.CAMKey
			inv := new(big.Int).ModInverse(key.Priv, cv.N)
			ca := new(big.Int).Mul(inv, ps.skMap)
			ca.Mod(ca, cv.N)
			caBytes := cv.FixedBytes(ca)
			bs := blockSize(cp)
			iv := cbcEncrypt(cp, ps.ksEnc, make([]byte, bs), bytes.Repeat([]byte{0xFF}, bs))
			aic := cbcEncrypt(cp, ps.ksEnc, iv, mac.PadM2(caBytes, bs))
			body = append(body, tlv(0x8A, c.deviate("pace-ecad", aic))...)
			c.Done.PACECAM = true
		}
		ps.step = 0
		c.pendingSM = sm.New(cp, ps.ksEnc, ps.ksMac, make([]byte, blockSize(cp)))
		c.Done.PACE = true
		c.Done.PACEEntry, c.Done.PACEPassword = ps.entry, ps.pwdRef
		return tlv(0x7C, body), 0x9000
	}
	return fail(0x6985)
}

// steer searches scalars k, k+1, ... for one whose multiple k*base satisfies
// pred (an edge slice); the multiples are computed incrementally (one point
// addition per candidate).
func (c *Chip) steer(cv *ecc.Curve, k *big.Int, base ecc.Point, pred func(ecc.Point) bool, label string) *big.Int {
	cur := new(big.Int).Set(k)
	q := cv.ScalarMult(cur, base)
	one := big.NewInt(1)
	for i := 0; i < c.Cfg.SteerTries; i++ {
		if q.X != nil && pred(q) {
			c.pace.Slice = label
			return cur
		}
		cur = new(big.Int).Add(cur, one)
		if cur.Cmp(cv.N) >= 0 {
			cur = big.NewInt(1)
			q = base
		} else {
			q = cv.Add(q, base)
		}
	}
	c.pace.Slice = label + "(steering failed)"
	return k
}
