package chipsim

import (
	"crypto"
	"math/big"

	"verifharness/ref/iso9796"
)

func init() {
	RSASign = func(n, d *big.Int, m1, m2 []byte, h crypto.Hash, trailer int) ([]byte, error) {
		return iso9796.Sign(n, d, m1, m2, h, iso9796.Trailer(trailer))
	}
	RSAM1Len = func(n *big.Int, h crypto.Hash, trailer int) int { return iso9796.M1Len(n, h, iso9796.Trailer(trailer)) }
}
