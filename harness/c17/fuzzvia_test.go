package c17

// Coverage-guided variants of this package's rapid properties (thorough tier): the
// native fuzzer mutates rapid's bit stream with coverage feedback (evid.FuzzVia).

import (
	"testing"

	"verifharness/evid"
)

func FuzzRandomCommands(f *testing.F)  { evid.FuzzVia(f, TestRandomCommands) }
func FuzzRandomResponses(f *testing.F) { evid.FuzzVia(f, TestRandomResponses) }
