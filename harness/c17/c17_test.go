// C17 — Command and response APDUs follow ISO 7816-4 for every length.
//
// Oracle: verifharness/ref/apdu (independent ISO/IEC 7816-4 parser + reference
// encoder).  Domain: exhaustive grids over data length x expected length with
// boundary headers, plus rapid-generated random commands and responses.
package c17

import (
	"bytes"
	"encoding/hex"
	"encoding/json"
	"fmt"
	"os"
	"testing"

	"github.com/gmrtd/gmrtd/cryptoutils"
	"github.com/gmrtd/gmrtd/iso7816"
	"pgregory.net/rapid"

	"verifharness/evid"
	"verifharness/ref/apdu"
)

const prop = "C17"

func TestMain(m *testing.M) { evid.Main(m, prop) }

// K1: case 2E (no data, Ne > 256) is encoded without the leading 00 octet.
const k1 = "K1-case2E-le"

func inK1(nc, ne int) bool { return nc == 0 && ne > 256 }

type cmdCase struct {
	CLA, INS, P1, P2 byte
	Nc, Ne           int
	Fill             byte
}

func (c cmdCase) data() []byte {
	if c.Nc == 0 {
		return nil
	}
	d := make([]byte, c.Nc)
	for i := range d {
		d[i] = c.Fill + byte(i*7)
	}
	// make first/last bytes hostile to a parser that confuses fields
	d[0] = c.Fill
	return d
}

func (c cmdCase) repro() map[string]any {
	return map[string]any{"cla": c.CLA, "ins": c.INS, "p1": c.P1, "p2": c.P2, "nc": c.Nc, "ne": c.Ne, "fill": c.Fill}
}

// checkCommand returns "" if the library encoding is the ISO 7816-4 encoding.
func checkCommand(c cmdCase) string {
	data := c.data()
	enc := iso7816.NewCApdu(c.CLA, c.INS, c.P1, c.P2, data, c.Ne).Encode()
	p, err := apdu.Parse(enc)
	if err != nil {
		return fmt.Sprintf("independent parser rejects encoding %s: %v", head(enc), err)
	}
	if p.CLA != c.CLA || p.INS != c.INS || p.P1 != c.P1 || p.P2 != c.P2 {
		return fmt.Sprintf("header differs: %s", head(enc))
	}
	if !bytes.Equal(p.Data, data) {
		return fmt.Sprintf("data differs: parsed %d bytes, intended %d (%s)", len(p.Data), len(data), head(enc))
	}
	if p.Ne != c.Ne {
		return fmt.Sprintf("expected length differs: parsed Ne=%d intended %d (%s)", p.Ne, c.Ne, head(enc))
	}
	wantExt := c.Nc > 255 || c.Ne > 256
	if p.Extended != wantExt {
		return fmt.Sprintf("form: extended=%v but want %v (%s)", p.Extended, wantExt, head(enc))
	}
	if ref := apdu.Encode(c.CLA, c.INS, c.P1, c.P2, data, c.Ne); !bytes.Equal(ref, enc) {
		return fmt.Sprintf("differs from reference encoding: got %s want %s", head(enc), head(ref))
	}
	return ""
}

func head(b []byte) string {
	if len(b) <= 24 {
		return hex.EncodeToString(b)
	}
	return fmt.Sprintf("%s..%s(len %d)", hex.EncodeToString(b[:12]), hex.EncodeToString(b[len(b)-6:]), len(b))
}

func classOf(nc, ne int) string {
	switch {
	case nc == 0 && ne == 0:
		return "case1"
	case nc == 0 && ne <= 256:
		return "case2S"
	case nc == 0:
		return "case2E"
	case ne == 0 && nc <= 255:
		return "case3S"
	case ne == 0:
		return "case3E"
	case nc <= 255 && ne <= 256:
		return "case4S"
	default:
		return "case4E"
	}
}

func boundary(n int) bool {
	switch n {
	case 0, 1, 2, 254, 255, 256, 257, 258, 65279, 65280, 65281, 65534, 65535, 65536:
		return true
	}
	return n%256 == 0 || n%256 == 255
}

func record(c cmdCase) {
	cl := classOf(c.Nc, c.Ne)
	nontrivial := c.Nc > 255 || c.Ne > 256 || boundary(c.Nc) || boundary(c.Ne)
	evid.Case(cl, nontrivial, fmt.Sprintf("%d/%d/%02x%02x%02x%02x", c.Nc, c.Ne, c.CLA, c.INS, c.P1, c.P2), c.repro())
}

var headers = [][4]byte{
	{0x00, 0xB0, 0x00, 0x00}, {0x0C, 0xB0, 0x80, 0xFF}, {0x10, 0x86, 0x00, 0x00}, {0x7F, 0xFF, 0xFF, 0xFF},
	{0x80, 0x00, 0x7F, 0x01}, {0xFF, 0xA4, 0x04, 0x0C}, {0x00, 0x00, 0x00, 0x00}, {0x00, 0xB1, 0x00, 0x00},
}

var leBoundaryQuick = []int{0, 1, 256, 257, 65536}
var leBoundaryFull = []int{0, 1, 2, 255, 256, 257, 258, 65279, 65280, 65535, 65536}
var lcBoundaryQuick = []int{0, 1, 255, 256, 65535}
var lcBoundaryFull = []int{0, 1, 255, 256, 65279, 65280, 65535}

// TestGrid enumerates: every Nc in 0..65535 against a boundary set of Ne, and
// every Ne in 0..65536 against a boundary set of Nc.  Thorough = the full grid
// named in the property; quick = all lengths against a smaller boundary set.
func TestGrid(t *testing.T) {
	leB, lcB := leBoundaryQuick, lcBoundaryQuick
	if evid.Thorough() {
		leB, lcB = leBoundaryFull, lcBoundaryFull
	}
	k1open := evid.Open(prop, k1)
	complete := true
	run := func(c cmdCase) {
		if inK1(c.Nc, c.Ne) {
			if k1open {
				evid.Excluded(k1)
				return
			}
		}
		record(c)
		if msg := checkCommand(c); msg != "" {
			complete = false
			evid.Fail(t, "grid", c.repro(), "%s", msg)
		}
	}
	idx := 0
	for nc := 0; nc <= 65535; nc++ {
		for _, ne := range leB {
			idx++
			if !evid.MineIdx(idx) {
				continue
			}
			h := headers[idx%len(headers)]
			run(cmdCase{h[0], h[1], h[2], h[3], nc, ne, byte(idx)})
		}
	}
	for ne := 0; ne <= 65536; ne++ {
		for _, nc := range lcB {
			idx++
			if !evid.MineIdx(idx) {
				continue
			}
			h := headers[idx%len(headers)]
			run(cmdCase{h[0], h[1], h[2], h[3], nc, ne, byte(idx)})
		}
	}
	evid.Exhaustive("grid", complete)
}

// TestKnownK1 probes the known finding so that it is reported (and so that a
// repaired tree stops reporting it).
func TestKnownK1(t *testing.T) {
	if evid.Shard() != 0 {
		return
	}
	if !evid.Open(prop, k1) {
		return
	}
	c := cmdCase{0x00, 0xB0, 0x00, 0x04, 0, 15575, 0}
	if msg := checkCommand(c); msg != "" {
		evid.ReportKnown(prop, k1, "case 2E (no data, Ne>256) encoded without the leading 00 of the extended Le field, e.g. 00b000043cd7: "+msg)
	}
}

// TestRandomCommands: random headers and data contents with lengths biased to
// the boundaries.
func TestRandomCommands(t *testing.T) {
	k1open := evid.Open(prop, k1)
	lenGen := rapid.OneOf(
		rapid.SampledFrom([]int{0, 1, 2, 254, 255, 256, 257, 511, 512, 65279, 65280, 65281, 65534, 65535}),
		rapid.IntRange(0, 300),
		rapid.IntRange(0, 65535),
	)
	neGen := rapid.OneOf(
		rapid.SampledFrom([]int{0, 1, 2, 255, 256, 257, 65279, 65280, 65535, 65536}),
		rapid.IntRange(0, 300),
		rapid.IntRange(0, 65536),
	)
	evid.RapidCheck(t, 20000, 400000, func(rt *rapid.T) {
		c := cmdCase{
			CLA: rapid.Byte().Draw(rt, "cla"), INS: rapid.Byte().Draw(rt, "ins"),
			P1: rapid.Byte().Draw(rt, "p1"), P2: rapid.Byte().Draw(rt, "p2"),
			Nc: lenGen.Draw(rt, "nc"), Ne: neGen.Draw(rt, "ne"), Fill: rapid.Byte().Draw(rt, "fill"),
		}
		if inK1(c.Nc, c.Ne) && k1open {
			evid.Excluded(k1)
			return
		}
		record(c)
		if msg := checkCommand(c); msg != "" {
			evid.Fail(rt, "random-commands", c.repro(), "%s", msg)
		}
	})
}

func checkResponse(b []byte) string {
	r, err := iso7816.ParseRApdu(b)
	if len(b) < 2 {
		if err == nil {
			return fmt.Sprintf("response of %d bytes accepted", len(b))
		}
		return ""
	}
	if err != nil {
		return fmt.Sprintf("response of %d bytes rejected: %v", len(b), err)
	}
	d, sw, _ := apdu.SplitResponse(b)
	if !bytes.Equal(r.Data, d) || r.Status != sw {
		return fmt.Sprintf("split differs: got data %s sw %04x", head(r.Data), r.Status)
	}
	if !bytes.Equal(r.Encode(), b) {
		return "re-encoding differs from input"
	}
	// the parsed value must not alias the input
	if len(b) > 2 {
		c := append([]byte{}, b...)
		c[0] ^= 0xff
		r2, _ := iso7816.ParseRApdu(c)
		c[0] ^= 0xff
		_ = r2
		bb := append([]byte{}, b...)
		r3, _ := iso7816.ParseRApdu(bb)
		bb[0] ^= 0xff
		if !bytes.Equal(r3.Data, d) {
			return "parsed response aliases the input buffer"
		}
	}
	return ""
}

// TestResponsesSmall enumerates all responses of length 0..2 and a grid of
// length 3..4 exhaustively enough to cover every status word.
func TestResponsesSmall(t *testing.T) {
	if evid.Shard() != 0 {
		return
	}
	try := func(b []byte) {
		evid.Case(fmt.Sprintf("rsp-len%d", len(b)), true, hex.EncodeToString(b), map[string]any{"rsp": hex.EncodeToString(b)})
		if msg := checkResponse(b); msg != "" {
			evid.Fail(t, "responses-small", map[string]any{"rsp": hex.EncodeToString(b)}, "%s", msg)
		}
	}
	try(nil)
	try([]byte{})
	for a := 0; a < 256; a++ {
		try([]byte{byte(a)})
	}
	for a := 0; a < 65536; a++ {
		try([]byte{byte(a >> 8), byte(a)})
	}
	for a := 0; a < 65536; a += 1 {
		try([]byte{byte(a * 31), byte(a >> 8), byte(a)})
	}
	for a := 0; a < 65536; a += 7 {
		try([]byte{byte(a * 13), byte(a * 31), byte(a >> 8), byte(a)})
	}
	evid.Exhaustive("responses-len0-2", true)
}

// TestResponsesBoundaryLengths: responses whose data length sits on every width
// boundary of a length field or counter (255/256 short-extended, 32767/32768, the
// 65535/65536 maximum of an extended response and beyond - the link layer, not this
// parser, bounds what can arrive), with patterned and all-FF / all-00 content.
func TestResponsesBoundaryLengths(t *testing.T) {
	if evid.Shard() != 0 {
		return
	}
	var lens []int
	for _, c := range []int{256, 32768, 65536, 131072} {
		for d := -4; d <= 4; d++ {
			lens = append(lens, c+d)
		}
	}
	lens = append(lens, 70000, 100000)
	for _, n := range lens {
		for fill := 0; fill < 3; fill++ {
			b := make([]byte, n)
			for i := range b {
				switch fill {
				case 0:
					b[i] = byte(i*7 + i>>8)
				case 1:
					b[i] = 0xFF
				}
			}
			evid.Case("rsp-boundary-length", true, fmt.Sprintf("%d/%d", n, fill), map[string]any{"response_len": n, "fill": fill, "head": hex.EncodeToString(b[:8]), "tail": hex.EncodeToString(b[n-4:])})
			if msg := checkResponse(b); msg != "" {
				evid.Fail(t, "responses-boundary", map[string]any{"response_len": n, "fill": fill}, "response of %d bytes: %s", n, msg)
			}
		}
	}
}

func TestRandomResponses(t *testing.T) {
	gen := rapid.OneOf(
		rapid.SliceOfN(rapid.Byte(), 0, 8),
		rapid.SliceOfN(rapid.Byte(), 0, 300),
		rapid.SliceOfN(rapid.Byte(), 0, 70000),
	)
	evid.RapidCheck(t, 5000, 100000, func(rt *rapid.T) {
		b := gen.Draw(rt, "rsp")
		if rapid.IntRange(0, 15).Draw(rt, "boundary") == 0 {
			// a long response around a width boundary (drawn head, zero-extended: cheap to generate)
			n := rapid.SampledFrom([]int{256, 32768, 65536}).Draw(rt, "around") + rapid.IntRange(-3, 5).Draw(rt, "delta")
			b = append(b, make([]byte, max(0, n-len(b)))...)[:n]
		}
		cl := "rsp-long"
		if len(b) < 300 {
			cl = "rsp-short"
		}
		evid.Case(cl, len(b) >= 2, hex.EncodeToString(b[:min(len(b), 64)])+fmt.Sprint(len(b)), nil)
		if msg := checkResponse(b); msg != "" {
			evid.Fail(rt, "random-responses", map[string]any{"rsp": hex.EncodeToString(b)}, "%s", msg)
		}
	})
}

// ---- plain regression checks (bypass rapid) --------------------------------

// F1 (fixed): Lc high byte computed with `% 0xff` mis-encoded Nc 65280..65535.
func TestRegressionF1(t *testing.T) {
	if evid.Shard() != 0 {
		return
	}
	for _, nc := range []int{65279, 65280, 65281, 65300, 65535} {
		for _, ne := range []int{0, 1, 256, 65536} {
			c := cmdCase{0x00, 0xB0, 0x00, 0x00, nc, ne, 0x41}
			record(c)
			if msg := checkCommand(c); msg != "" {
				evid.Fail(t, "regression-F1", c.repro(), "%s", msg)
			}
		}
	}
}

// TestReplayJSON re-executes a saved JSON repro (./verif replay C17 <file>).
func TestReplayJSON(t *testing.T) {
	path := os.Getenv("VERIF_REPLAY_JSON")
	if path == "" {
		return
	}
	b, err := os.ReadFile(path)
	if err != nil {
		t.Fatalf("read: %v", err)
	}
	var doc struct {
		Check string `json:"check"`
		Case  struct {
			CLA, INS, P1, P2 byte
			Nc, Ne           int
			Fill             byte
			Rsp              string
		} `json:"case"`
	}
	if err := json.Unmarshal(b, &doc); err != nil {
		t.Fatalf("parse: %v", err)
	}
	if doc.Case.Rsp != "" || doc.Check == "responses-small" || doc.Check == "random-responses" {
		rb, _ := hex.DecodeString(doc.Case.Rsp)
		if msg := checkResponse(rb); msg != "" {
			t.Fatalf("VIOLATION reproduced: %s", msg)
		}
		return
	}
	c := cmdCase{doc.Case.CLA, doc.Case.INS, doc.Case.P1, doc.Case.P2, doc.Case.Nc, doc.Case.Ne, doc.Case.Fill}
	if msg := checkCommand(c); msg != "" {
		t.Fatalf("VIOLATION reproduced: %s", msg)
	}
}

// TestCommandHistories: commands are objects with a life - the library itself builds a command once and
// encodes it several times (for the log, under secure messaging, for the link), and a chained transfer
// builds several commands over windows of ONE caller-owned payload.  History: 1..5 commands whose data
// are (possibly adjacent or overlapping) windows of a shared buffer with spare capacity behind it; then a
// drawn sequence of steps, each encoding one of them plainly, or wrapping it under a secure-messaging
// session first.  Oracle: every plain Encode() is the reference ISO/IEC 7816-4 encoding of the header,
// expected length and the window's contents AS THEY WERE WHEN THE COMMAND WAS CREATED.
func TestCommandHistories(t *testing.T) {
	k1open := evid.Open(prop, k1)
	evid.RapidCheck(t, 4000, 120000, func(rt *rapid.T) {
		total := rapid.SampledFrom([]int{24, 64, 300, 700}).Draw(rt, "payload")
		buf := make([]byte, total, total+16)
		fill := rapid.Byte().Draw(rt, "fill")
		for i := range buf {
			buf[i] = fill + byte(i*5) | 1 // never 00: an Le octet written into it shows
		}
		orig := bytes.Clone(buf)
		n := rapid.IntRange(1, 5).Draw(rt, "commands")
		type built struct {
			c        cmdCase
			off, end int
			obj      *iso7816.CApdu
			want     []byte
		}
		var cmds []built
		chunk := rapid.SampledFrom([]int{0, 1, 8, 16, 255, 256}).Draw(rt, "chunk")
		for i := 0; i < n; i++ {
			var off, end int
			if chunk > 0 && (i+1)*chunk <= total && rapid.IntRange(0, 3).Draw(rt, "chained") > 0 {
				off, end = i*chunk, (i+1)*chunk // adjacent windows, as a chained transfer cuts them
			} else {
				off = rapid.IntRange(0, total).Draw(rt, "off")
				end = rapid.IntRange(off, total).Draw(rt, "end")
			}
			c := cmdCase{CLA: rapid.SampledFrom([]byte{0x00, 0x10, 0x0C, 0x1C, 0x80}).Draw(rt, "cla"), INS: rapid.SampledFrom([]byte{0x86, 0xB0, 0xA4, 0x22, 0x88}).Draw(rt, "ins"),
				P1: rapid.Byte().Draw(rt, "p1"), P2: rapid.Byte().Draw(rt, "p2"), Nc: end - off,
				Ne: rapid.SampledFrom([]int{0, 0, 1, 255, 256, 257, 65536}).Draw(rt, "ne")}
			if inK1(c.Nc, c.Ne) && k1open {
				c.Ne = 256
			}
			var data []byte
			if c.Nc > 0 || rapid.Bool().Draw(rt, "empty-window-not-nil") {
				data = buf[off:end]
			}
			cmds = append(cmds, built{c: c, off: off, end: end, obj: iso7816.NewCApdu(c.CLA, c.INS, c.P1, c.P2, data, c.Ne),
				want: apdu.Encode(c.CLA, c.INS, c.P1, c.P2, bytes.Clone(orig[off:end]), c.Ne)})
		}
		var sm *iso7816.SecureMessaging
		steps := rapid.IntRange(1, 8).Draw(rt, "steps")
		var trace []string
		wrapped, repeated := false, map[int]int{}
		for s := 0; s < steps; s++ {
			i := rapid.IntRange(0, n-1).Draw(rt, "which")
			b := cmds[i]
			if rapid.IntRange(0, 2).Draw(rt, "wrap-first") == 0 {
				if sm == nil {
					alg, klen := cryptoutils.TDES, 16
					if rapid.Bool().Draw(rt, "aes") {
						alg = cryptoutils.AES
					}
					key := bytes.Repeat([]byte{0x42, 0x17}, klen/2)
					var err error
					if sm, err = iso7816.NewSecureMessaging(alg, key, bytes.Clone(key)); err != nil {
						evid.Infra(rt, "NewSecureMessaging: %v", err)
					}
				}
				_, err := sm.Encode(b.obj)
				trace = append(trace, fmt.Sprintf("sm.Encode(#%d) err=%v", i, err != nil))
				wrapped = true
			}
			got := b.obj.Encode()
			repeated[i]++
			trace = append(trace, fmt.Sprintf("#%d.Encode()", i))
			if !bytes.Equal(got, b.want) {
				rep := map[string]any{"trace": trace, "command": b.c.repro(), "window": []int{b.off, b.end}, "payloadLen": total}
				evid.Fail(rt, "command-history", rep, "after %v: command #%d (data = payload[%d:%d], Ne=%d) encodes as %s, the ISO 7816-4 encoding of what it was created with is %s",
					trace, i, b.off, b.end, b.c.Ne, head(got), head(b.want))
			}
		}
		again := false
		for _, k := range repeated {
			again = again || k > 1
		}
		class := "history/plain"
		switch {
		case wrapped && n > 1:
			class = "history/shared-payload+secure-messaging"
		case wrapped:
			class = "history/secure-messaging-then-plain"
		case n > 1:
			class = "history/shared-payload"
		}
		evid.Case(class, n > 1 || wrapped || again, fmt.Sprint(trace, n, chunk, total), map[string]any{"trace": trace, "commands": n, "payloadLen": total})
	})
}
