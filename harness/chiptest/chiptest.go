// Package chiptest holds generators and helpers shared by the checks that run
// the library against the chip simulator (C02, C04, C05, C06, C08, C11, C14, C20).
package chiptest

import (
	"fmt"
	"strings"

	"pgregory.net/rapid"

	"verifharness/detrand"
	refmrz "verifharness/ref/mrz"
)

const mrzAlnum = "ABCDEFGHIJKLMNOPQRSTUVWXYZ0123456789"

// MRZCase is a generated valid MRZ with its key fields.
type MRZCase struct {
	Fields refmrz.Fields
	Full   string // 90/72/88 characters
	DocNo  string
	DOB    string
	Expiry string
	Info   string // MRZ information per ref/mrz
}

func drawStr(t *rapid.T, alphabet string, min, max int, label string) string {
	n := rapid.IntRange(min, max).Draw(t, label+"-len")
	var sb strings.Builder
	for i := 0; i < n; i++ {
		sb.WriteByte(alphabet[rapid.IntRange(0, len(alphabet)-1).Draw(t, label)])
	}
	return sb.String()
}

func drawDate(t *rapid.T, label string, allowUnknown bool) string {
	yy := rapid.IntRange(0, 99).Draw(t, label+"-yy")
	mm := rapid.IntRange(1, 12).Draw(t, label+"-mm")
	dd := rapid.IntRange(1, 28).Draw(t, label+"-dd")
	s := fmt.Sprintf("%02d%02d%02d", yy, mm, dd)
	if allowUnknown {
		switch rapid.IntRange(0, 9).Draw(t, label+"-unk") {
		case 0:
			s = s[:4] + "<<"
		case 1:
			s = s[:2] + "<<<<"
		}
	}
	return s
}

// DrawMRZ generates a valid MRZ of a drawn layout (TD1/TD2/TD3), including
// extended document numbers, fillers, letters and digits.
func DrawMRZ(t *rapid.T) MRZCase {
	layout := rapid.SampledFrom([]string{"TD1", "TD2", "TD3"}).Draw(t, "layout")
	maxDoc := refmrz.MaxDocNo(layout)
	var docNo string
	switch rapid.IntRange(0, 5).Draw(t, "docno-kind") {
	case 0:
		docNo = drawStr(t, mrzAlnum, 9, 9, "docno")
	case 1:
		docNo = drawStr(t, mrzAlnum, 1, 8, "docno")
	case 2:
		if maxDoc > 9 {
			docNo = drawStr(t, mrzAlnum, 10, maxDoc, "docno")
		} else {
			docNo = drawStr(t, mrzAlnum, 9, 9, "docno")
		}
	case 3:
		docNo = drawStr(t, "0123456789", 9, 9, "docno")
	default:
		docNo = drawStr(t, mrzAlnum, 1, 9, "docno")
	}
	// a document number may contain a filler where the printed number has a space or punctuation
	// (not inside the continuation of an extended number, which ends at the first filler)
	if len(docNo) >= 3 && len(docNo) <= 9 && rapid.IntRange(0, 5).Draw(t, "docno-inner-filler") == 0 {
		i := rapid.IntRange(1, len(docNo)-2).Draw(t, "docno-filler-pos")
		docNo = docNo[:i] + "<" + docNo[i+1:]
	}
	f := refmrz.Fields{
		Layout:      layout,
		DocCode:     rapid.SampledFrom([]string{"P", "I", "ID", "PM", "A", "C", "V"}).Draw(t, "doccode"),
		Issuer:      rapid.SampledFrom([]string{"UTO", "D", "NLD", "GBR", "USA", "FRA", "AUS", "SGP"}).Draw(t, "issuer"),
		Surname:     drawStr(t, "ABCDEFGHIJKLMNOPQRSTUVWXYZ", 1, 12, "surname"),
		Given:       drawStr(t, "ABCDEFGHIJKLMNOPQRSTUVWXYZ", 0, 10, "given"),
		DocNo:       docNo,
		Nationality: rapid.SampledFrom([]string{"UTO", "D", "NLD", "GBR", "XXA"}).Draw(t, "nat"),
		DOB:         drawDate(t, "dob", true),
		Sex:         rapid.SampledFrom([]string{"M", "F", "<"}).Draw(t, "sex"),
		Expiry:      drawDate(t, "exp", false),
	}
	if layout == "TD1" && f.DocCode == "P" {
		f.DocCode = "I"
	}
	if layout == "TD3" {
		f.DocCode = rapid.SampledFrom([]string{"P", "PM", "PD"}).Draw(t, "doccode3")
	}
	// optional data; after an extended document number (continuation, check digit, filler)
	// whatever room is left may carry further optional data, possibly with a filler inside
	c1, _ := refmrz.OptCapacity(layout)
	room := c1
	if len(docNo) > 9 {
		room = c1 - (len(docNo) - 9) - 2
	}
	if room > 0 && rapid.Bool().Draw(t, "opt") {
		f.Opt1 = drawStr(t, mrzAlnum, 1, min(room, 10), "opt1")
		if len(f.Opt1) >= 3 && rapid.IntRange(0, 3).Draw(t, "opt1-filler") == 0 {
			i := rapid.IntRange(1, len(f.Opt1)-2).Draw(t, "opt1-filler-pos")
			f.Opt1 = f.Opt1[:i] + "<" + f.Opt1[i+1:]
		}
	}
	if layout == "TD3" && f.Opt1 == "" && rapid.Bool().Draw(t, "optzero") {
		f.OptCheckZeroOrFiller = '0'
	}
	full, err := refmrz.Build(f)
	if err != nil {
		t.Fatalf("ref/mrz.Build failed on generated fields %+v: %v", f, err)
	}
	return MRZCase{Fields: f, Full: full, DocNo: docNo, DOB: f.DOB, Expiry: f.Expiry, Info: refmrz.MRZInformation(docNo, f.DOB, f.Expiry)}
}

// DrawRand draws a 16-byte seed from rapid and returns a deterministic byte
// source expanded from it (used for chip-side randomness).
func DrawRand(t *rapid.T, label string) func(n int) []byte {
	seed := rapid.SliceOfN(rapid.Byte(), 16, 16).Draw(t, label)
	s := detrand.New(seed)
	return s.Bytes
}

// InstallLibRand replaces crypto/rand.Reader for the duration of a case.
func InstallLibRand(t *rapid.T, label string) (restore func()) {
	seed := rapid.SliceOfN(rapid.Byte(), 16, 16).Draw(t, label)
	return detrand.Install(seed)
}
