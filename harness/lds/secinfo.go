// Package lds builds LDS security-info structures (EF.CardAccess, DG14,
// DG15, the SecurityInfos inside EF.CardSecurity) for chip personalisation.
// No gmrtd import.
package lds

import (
	"math/big"

	"verifharness/ref/der"
)

const (
	OidPaceECDHGM       = "0.4.0.127.0.7.2.2.4.2"
	OidPkECDH           = "0.4.0.127.0.7.2.2.1.2"
	OidPkDH             = "0.4.0.127.0.7.2.2.1.1"
	OidTA               = "0.4.0.127.0.7.2.2.2"
	OidAAProtocol       = "2.23.136.1.1.5"
	OidStdDomainParams  = "0.4.0.127.0.7.1.2"
	OidEcdsaPlainSHA1   = "0.4.0.127.0.7.1.1.4.1.1"
	OidEcdsaPlainSHA224 = "0.4.0.127.0.7.1.1.4.1.2"
	OidEcdsaPlainSHA256 = "0.4.0.127.0.7.1.1.4.1.3"
	OidEcdsaPlainSHA384 = "0.4.0.127.0.7.1.1.4.1.4"
	OidEcdsaPlainSHA512 = "0.4.0.127.0.7.1.1.4.1.5"
	OidCardSecInfos     = "0.4.0.127.0.7.3.2.1" // id-SecurityObject (eContentType of EF.CardSecurity)
)

func optInt(v *big.Int) []byte {
	if v == nil {
		return nil
	}
	return der.Int(v)
}

// PACEInfo ::= SEQUENCE { protocol, version INTEGER (2), parameterId INTEGER OPTIONAL }
func PACEInfo(oid string, version int, paramID *big.Int) []byte {
	return der.Seq(der.OID(oid), der.IntFromInt64(int64(version)), optInt(paramID))
}

// PACEDomainParameterInfo ::= SEQUENCE { protocol (id-PACE-DH-GM / -ECDH-GM / -DH-IM / -ECDH-IM / -ECDH-CAM, without a
// cipher arc), domainParameter AlgorithmIdentifier, parameterId INTEGER OPTIONAL } - here with standardised
// domain parameters referenced by id.
func PACEDomainParameterInfo(oid string, stdParamID int, paramID *big.Int) []byte {
	alg := der.Seq(der.OID(OidStdDomainParams), der.IntFromInt64(int64(stdParamID)))
	return der.Seq(der.OID(oid), alg, optInt(paramID))
}

// ChipAuthenticationInfo ::= SEQUENCE { protocol, version INTEGER (1), keyId INTEGER OPTIONAL }
func ChipAuthInfo(oid string, version int, keyID *big.Int) []byte {
	return der.Seq(der.OID(oid), der.IntFromInt64(int64(version)), optInt(keyID))
}

// ChipAuthenticationPublicKeyInfo ::= SEQUENCE { protocol (id-PK-ECDH), SubjectPublicKeyInfo, keyId OPTIONAL }
func ChipAuthPubKeyInfo(protocolOID string, spki []byte, keyID *big.Int) []byte {
	return der.Seq(der.OID(protocolOID), spki, optInt(keyID))
}

// SPKIStdDomain builds a SubjectPublicKeyInfo whose AlgorithmIdentifier refers
// to standardized domain parameters by id (used for the PACE-CAM key).
func SPKIStdDomain(paramID int, point []byte) []byte {
	return der.Seq(der.Seq(der.OID(OidStdDomainParams), der.IntFromInt64(int64(paramID))), der.BitString(point, 0))
}

// ActiveAuthenticationInfo ::= SEQUENCE { protocol, version INTEGER (1), signatureAlgorithm OID }
func ActiveAuthInfo(sigAlgOID string) []byte {
	return der.Seq(der.OID(OidAAProtocol), der.IntFromInt64(1), der.OID(sigAlgOID))
}

// TerminalAuthenticationInfo ::= SEQUENCE { protocol, version INTEGER }
func TerminalAuthInfo(version int) []byte {
	return der.Seq(der.OID(OidTA), der.IntFromInt64(int64(version)))
}

// UnknownInfo is a SecurityInfo with an OID no reader knows.
func UnknownInfo(oid string, payload []byte) []byte {
	return der.Seq(der.OID(oid), der.OctetString(payload))
}

// SecurityInfos ::= SET OF SecurityInfo (order kept as given).
func SecurityInfos(infos ...[]byte) []byte { return der.Set(infos...) }

// CardAccess file = SecurityInfos.
func CardAccess(infos ...[]byte) []byte { return SecurityInfos(infos...) }

// DG14 = [APPLICATION 14] (6E) { SecurityInfos }
func DG14(infos ...[]byte) []byte { return der.TLV(0x6E, SecurityInfos(infos...)) }

// DG15 = [APPLICATION 15] (6F) { SubjectPublicKeyInfo }
func DG15(spki []byte) []byte { return der.TLV(0x6F, spki) }

// RSASPKI builds a SubjectPublicKeyInfo for an RSA key (rsaEncryption, NULL params).
func RSASPKI(n *big.Int, e int) []byte {
	pk := der.Seq(der.Int(n), der.IntFromInt64(int64(e)))
	return der.Seq(der.Seq(der.OID("1.2.840.113549.1.1.1"), der.Null()), der.BitString(pk, 0))
}

// DummyCardSecurity wraps SecurityInfos in a structurally valid CMS SignedData
// (ContentInfo) whose signature is NOT valid.  It is only for protocol checks
// that parse EF.CardSecurity (PACE-CAM) without running passive authentication;
// genuine signed objects come from the issuer package.
func DummyCardSecurity(secInfos []byte) []byte {
	sha256 := der.Seq(der.OID("2.16.840.1.101.3.4.2.1"))
	encap := der.Seq(der.OID(OidCardSecInfos), der.Explicit(0, der.OctetString(secInfos)))
	name := der.Seq(der.Set(der.Seq(der.OID("2.5.4.6"), der.Printable("UT"))))
	signer := der.Seq(
		der.IntFromInt64(1),
		der.Seq(name, der.IntFromInt64(1)),
		sha256,
		der.Seq(der.OID("1.2.840.10045.4.3.2")),
		der.OctetString([]byte{0x30, 0x06, 0x02, 0x01, 0x01, 0x02, 0x01, 0x01}),
	)
	sd := der.Seq(der.IntFromInt64(3), der.Set(sha256), encap, der.Set(signer))
	return der.Seq(der.OID("1.2.840.113549.1.7.2"), der.Explicit(0, sd))
}
