// C06 — Chip authentication succeeds only with the holder of the certified key.
//
// The library's Chip Authentication (and the CA step of PACE-CAM) runs against
// the independent chip simulator for every supported curve (named or explicit
// parameters), cipher suite and key-id arrangement, with terminal ephemeral
// keys drawn through the replaced crypto/rand.Reader, including shared secrets
// with leading zero octets found by a two-pass search; and against impostor
// chips that do not hold the private key of the published public key.
package c06

import (
	"bytes"
	"encoding/hex"
	"fmt"
	"math/big"
	"testing"

	"github.com/gmrtd/gmrtd/bac"
	"github.com/gmrtd/gmrtd/chipauth"
	"github.com/gmrtd/gmrtd/document"
	"github.com/gmrtd/gmrtd/iso7816"
	"github.com/gmrtd/gmrtd/pace"
	"github.com/gmrtd/gmrtd/password"
	"pgregory.net/rapid"

	"verifharness/chipsim"
	"verifharness/detrand"
	"verifharness/evid"
	"verifharness/lds"
	"verifharness/ref/der"
	"verifharness/ref/ecc"
	"verifharness/ref/mac"
	"verifharness/ref/sm"
)

const prop = "C06"

func TestMain(m *testing.M) { evid.Main(m, prop) }

func TestSelfTest(t *testing.T) {
	if err := mac.SelfTest(); err != nil {
		evid.Infra(t, "ref/mac: %v", err)
	}
	if err := sm.SelfTest(); err != nil {
		evid.Infra(t, "ref/sm: %v", err)
	}
	for _, c := range ecc.Curves() {
		if err := c.Validate(); err != nil {
			evid.Infra(t, "ref/ecc %s: %v", c.Name, err)
		}
	}
}

const mrzFull = "P<UTOERIKSSON<<ANNA<MARIA<<<<<<<<<<<<<<<<<<<L898902C36UTO7408122F1204159ZE184226B<<<<<10"
const mrzInfo = "L898902C3674081221204159"

var ciphers = []mac.Cipher{"3DES", "AES-128", "AES-192", "AES-256"}

var fastCurves = []string{"P-256", "P-224", "P-384", "brainpoolP256r1", "P-192", "brainpoolP192r1"}

type caCase struct {
	Curve    string
	Explicit int // 0 named, 1 explicit (with cofactor), 2 explicit with cofactor and seed
	Cipher   mac.Cipher
	Arrange  int    // 0 one key no id; 1 one key with id; 2 several keys with ids (same curve); 3 several keys, other curve; 4 info missing (inferred => 3DES + MSE:Set KAT); 5 key id 0
	Prior    string // "BAC" or "PACE"
	Steer    bool   // two-pass search for a leading-zero shared secret
	Strategy string // impostor strategy ("" = genuine chip)
	ChipSeed []byte
	LibSeed  []byte
}

func (c *caCase) repro() map[string]any {
	return map[string]any{"curve": c.Curve, "explicit": c.Explicit, "cipher": string(c.Cipher), "arrangement": c.Arrange,
		"prior": c.Prior, "steer": c.Steer, "strategy": c.Strategy, "chipSeed": hex.EncodeToString(c.ChipSeed), "libSeed": hex.EncodeToString(c.LibSeed)}
}

func (c *caCase) key() string {
	return fmt.Sprintf("%s/%d/%s/a%d/%s/%v/%s/%x%x", c.Curve, c.Explicit, c.Cipher, c.Arrange, c.Prior, c.Steer, c.Strategy, c.ChipSeed[:4], c.LibSeed[:4])
}

func spki(cv *ecc.Curve, pub ecc.Point, explicit int) []byte {
	// ICAO 9303-12: explicit ECParameters MUST include the optional cofactor, so the
	// form without cofactor is outside the conforming domain and is not generated.
	switch explicit {
	case 1:
		return cv.SPKIExplicit(pub, true, false)
	case 2:
		return cv.SPKIExplicit(pub, true, true)
	}
	return cv.SPKINamed(pub)
}

type built struct {
	chip   *chipsim.Chip
	dg14   []byte
	ca     []byte // CardAccess
	keyIdx int    // index of the key the library is expected to use
	keys   []chipsim.CAKey
	cipher mac.Cipher // suite expected to be used
}

// personalise builds the chip. privOverride (if non-nil) replaces the private
// key of the target key (steering); chipLacksKey personalises the chip with a
// different private key than the one published in DG14 (impostor).
func personalise(c *caCase, privOverride *big.Int, chipLacksKey bool, deviate func(string, []byte) []byte) *built {
	cv := ecc.ByName(c.Curve)
	st := detrand.New(append([]byte("personalise"), c.ChipSeed...))
	newKey := func(curve *ecc.Curve) *big.Int { return curve.ScalarFromBytes(st.Bytes(curve.ByteLen + 8)) }
	b := &built{cipher: c.Cipher}
	target := newKey(cv)
	if privOverride != nil {
		target = privOverride
	}
	var infos [][]byte
	switch c.Arrange {
	case 0:
		b.keys = []chipsim.CAKey{{Curve: cv, Priv: target}}
		infos = [][]byte{lds.ChipAuthInfo(chipsim.CAOID(c.Cipher), 1, nil), lds.ChipAuthPubKeyInfo(lds.OidPkECDH, spki(cv, cv.ScalarBaseMult(target), c.Explicit), nil)}
	case 1:
		id := big.NewInt(int64(1 + st.Bytes(1)[0]%100))
		b.keys = []chipsim.CAKey{{KeyID: id, Curve: cv, Priv: target}}
		infos = [][]byte{lds.ChipAuthPubKeyInfo(lds.OidPkECDH, spki(cv, cv.ScalarBaseMult(target), c.Explicit), id), lds.ChipAuthInfo(chipsim.CAOID(c.Cipher), 1, id)}
	case 2, 3:
		// three keys with ids; the strongest suite refers to key index 1
		other := cv
		if c.Arrange == 3 {
			other = ecc.ByName("P-256")
			if c.Curve == "P-256" {
				other = ecc.ByName("P-224")
			}
		}
		k0, k2 := newKey(other), newKey(cv)
		ids := []*big.Int{big.NewInt(5), big.NewInt(300), big.NewInt(7)}
		b.keys = []chipsim.CAKey{{KeyID: ids[0], Curve: other, Priv: k0}, {KeyID: ids[1], Curve: cv, Priv: target}, {KeyID: ids[2], Curve: cv, Priv: k2}}
		b.keyIdx = 1
		// the library prefers the suite with the largest key size; give the target key the
		// preferred suite and the others weaker ones
		weaker := mac.Cipher("3DES")
		if c.Cipher == "3DES" {
			// all 3DES: the first listed info wins
			infos = [][]byte{
				lds.ChipAuthInfo(chipsim.CAOID("3DES"), 1, ids[1]),
				lds.ChipAuthPubKeyInfo(lds.OidPkECDH, spki(other, other.ScalarBaseMult(k0), 0), ids[0]),
				lds.ChipAuthPubKeyInfo(lds.OidPkECDH, spki(cv, cv.ScalarBaseMult(target), c.Explicit), ids[1]),
				lds.ChipAuthPubKeyInfo(lds.OidPkECDH, spki(cv, cv.ScalarBaseMult(k2), c.Explicit), ids[2]),
			}
		} else {
			infos = [][]byte{
				lds.ChipAuthInfo(chipsim.CAOID(weaker), 1, ids[0]),
				lds.ChipAuthPubKeyInfo(lds.OidPkECDH, spki(other, other.ScalarBaseMult(k0), 0), ids[0]),
				lds.ChipAuthPubKeyInfo(lds.OidPkECDH, spki(cv, cv.ScalarBaseMult(k2), c.Explicit), ids[2]),
				lds.ChipAuthPubKeyInfo(lds.OidPkECDH, spki(cv, cv.ScalarBaseMult(target), c.Explicit), ids[1]),
				lds.ChipAuthInfo(chipsim.CAOID(c.Cipher), 1, ids[1]),
			}
		}
	case 4: // no ChipAuthenticationInfo: suite inferred (3DES), MSE:Set KAT
		b.keys = []chipsim.CAKey{{Curve: cv, Priv: target}}
		b.cipher = "3DES"
		infos = [][]byte{lds.ChipAuthPubKeyInfo(lds.OidPkECDH, spki(cv, cv.ScalarBaseMult(target), c.Explicit), nil)}
	case 5: // key id 0
		id := big.NewInt(0)
		b.keys = []chipsim.CAKey{{KeyID: id, Curve: cv, Priv: target}}
		infos = [][]byte{lds.ChipAuthInfo(chipsim.CAOID(c.Cipher), 1, id), lds.ChipAuthPubKeyInfo(lds.OidPkECDH, spki(cv, cv.ScalarBaseMult(target), c.Explicit), id)}
	}
	b.dg14 = lds.DG14(infos...)
	chipKeys := append([]chipsim.CAKey{}, b.keys...)
	if chipLacksKey {
		wrong := newKey(cv)
		if wrong.Cmp(target) == 0 {
			wrong.Add(wrong, big.NewInt(1))
		}
		chipKeys[b.keyIdx].Priv = wrong
	}
	b.ca = lds.CardAccess(lds.PACEInfo(chipsim.PaceOID("GM", "AES-128"), 2, big.NewInt(12)))
	cfg := chipsim.Config{
		MRZInfo: mrzInfo, BAC: true, PACE: []chipsim.PaceEntry{{OID: chipsim.PaceOID("GM", "AES-128"), ParamID: 12}},
		CA: chipKeys, AllowKAT: true,
		MF:   map[uint16][]byte{chipsim.FidCardAccess: b.ca},
		DF:   map[uint16][]byte{0x0101: der.TLV(0x61, der.TLV(0x5F1F, []byte(mrzFull))), 0x010E: b.dg14},
		Rand: detrand.New(c.ChipSeed).Bytes, Deviate: deviate,
	}
	b.chip = chipsim.New(cfg)
	return b
}

type outcome struct {
	nfc *iso7816.NfcSession
	doc *document.Document
	res *document.ChipAuthResult
	err error
}

// xcv lets a test wrap the chip (impostor behaviour).
type xcv interface {
	Transceive(cla int, ins int, p1 int, p2 int, data []byte, le int, encoded []byte) []byte
}

// runCA: prior access control (BAC or PACE), select application, CA.
func runCA(c *caCase, b *built, link xcv) (*outcome, string) {
	restore := detrand.Install(c.LibSeed)
	defer restore()
	o := &outcome{doc: &document.Document{}}
	o.nfc = iso7816.NewNfcSession(link)
	pass, err := password.NewPasswordMrzi("L898902C3", "740812", "120415")
	if err != nil {
		return o, "password: " + err.Error()
	}
	if c.Prior == "PACE" {
		ca, err := document.NewCardAccess(b.ca)
		if err != nil {
			return o, "NewCardAccess: " + err.Error()
		}
		o.doc.Mf.CardAccess = ca
		res, _, err := pace.NewPace(o.nfc, o.doc, pass).DoPACE()
		if err != nil || res == nil || !res.Success {
			return o, fmt.Sprintf("prior PACE failed: %v", err)
		}
		if _, err := o.nfc.SelectAid(chipsim.AidMRTD); err != nil {
			return o, "select application: " + err.Error()
		}
	} else {
		if _, err := o.nfc.SelectAid(chipsim.AidMRTD); err != nil {
			return o, "select application: " + err.Error()
		}
		res, err := bac.NewBAC(o.nfc, o.doc, pass).DoBAC()
		if err != nil || res == nil || !res.Success {
			return o, fmt.Sprintf("prior BAC failed: %v", err)
		}
	}
	dg14 := b.dg14
	if len(c.ChipSeed) > 2 && c.ChipSeed[2]&1 == 1 {
		// as a reader does: DG14 is READ from the chip over the session, and it is the last file
		// touched before Chip Authentication starts (so it is the currently selected file)
		data, err := o.nfc.ReadFile(0x010E)
		if err != nil || data == nil {
			return o, fmt.Sprintf("reading DG14 over the prior session failed: %v", err)
		}
		dg14 = data
		evid.Count("dg14-read-over-session-before-ca", 1)
	}
	if err := o.doc.NewDG(14, dg14); err != nil {
		return o, "library rejects the generated DG14: " + err.Error()
	}
	o.res, o.err = chipauth.NewChipAuth(o.nfc, o.doc).DoChipAuth()
	return o, ""
}

func checkGenuine(c *caCase, b *built, o *outcome) string {
	if o.err != nil {
		return fmt.Sprintf("DoChipAuth failed against the genuine chip: %v", o.err)
	}
	if o.res == nil || !o.res.Success {
		return "no successful ChipAuthResult against the genuine chip"
	}
	if !b.chip.Done.CA {
		return "library reports CA success but the chip did not complete CA"
	}
	if b.chip.Done.CAKeyIndex != b.keyIdx {
		return fmt.Sprintf("CA ran with chip key #%d, expected #%d", b.chip.Done.CAKeyIndex, b.keyIdx)
	}
	_, ksEnc, _ := b.chip.CALast()
	lsm := o.nfc.SM()
	if lsm == nil || b.chip.SM == nil {
		return "no secure messaging session after CA"
	}
	if !bytes.Equal(lsm.KsEnc(), ksEnc) || !bytes.Equal(lsm.KsEnc(), b.chip.SM.KEnc) {
		return fmt.Sprintf("KS_enc after CA differs: library %x chip %x", lsm.KsEnc(), ksEnc)
	}
	if string(b.chip.SM.Cipher) != string(b.cipher) {
		return fmt.Sprintf("CA ran with suite %s, expected %s", b.chip.SM.Cipher, b.cipher)
	}
	// counter restarted, and success was CONFIRMED by at least one exchange under the new keys (a
	// success report that rests on no protected exchange proves nothing about the chip's key): both
	// sides hold the same small even counter >= 2 (how many confirming exchanges there are is the
	// library's business)
	ctr := new(big.Int).SetBytes(lsm.SSC())
	if !bytes.Equal(lsm.SSC(), b.chip.SM.SSC) || ctr.Cmp(big.NewInt(2)) < 0 || ctr.Cmp(big.NewInt(16)) > 0 || ctr.Bit(0) != 0 {
		return fmt.Sprintf("counter after a successful CA: library %x chip %x, expected a restarted counter after at least one confirming exchange (2, 4, ...)", lsm.SSC(), b.chip.SM.SSC)
	}
	// following traffic runs under the new keys
	data, err := o.nfc.ReadFile(0x010E)
	if err != nil {
		return fmt.Sprintf("read under the CA session failed: %v", err)
	}
	if !bytes.Equal(data, b.dg14) {
		return "DG14 read under the CA session differs from the chip's file"
	}
	if b.chip.SMFailures != 0 || b.chip.SM == nil || !bytes.Equal(b.chip.SM.KEnc, ksEnc) {
		return "chip could not authenticate traffic under the CA keys"
	}
	if !bytes.Equal(o.nfc.SM().SSC(), b.chip.SM.SSC) {
		return "SSC out of step after CA traffic"
	}
	return ""
}

func drawCase(rt *rapid.T) *caCase {
	c := &caCase{}
	if rapid.IntRange(0, 7).Draw(rt, "slow") == 0 {
		names := []string{}
		for _, cv := range ecc.Curves() {
			names = append(names, cv.Name)
		}
		c.Curve = rapid.SampledFrom(names).Draw(rt, "curve")
	} else {
		c.Curve = rapid.SampledFrom(fastCurves).Draw(rt, "curveFast")
	}
	c.Explicit = rapid.IntRange(0, 2).Draw(rt, "explicit")
	c.Cipher = rapid.SampledFrom(ciphers).Draw(rt, "cipher")
	c.Arrange = rapid.IntRange(0, 5).Draw(rt, "arrangement")
	c.Prior = rapid.SampledFrom([]string{"BAC", "BAC", "BAC", "PACE"}).Draw(rt, "prior")
	c.ChipSeed = rapid.SliceOfN(rapid.Byte(), 16, 16).Draw(rt, "chipSeed")
	c.LibSeed = rapid.SliceOfN(rapid.Byte(), 16, 16).Draw(rt, "libSeed")
	return c
}

const f6 = "F6-ca-shared-x-leading-zero"

// steerKey: pass 1 learns the terminal's ephemeral public key for this seed,
// then the chip's static key is searched for a leading-zero shared secret.
func steerKey(c *caCase) (*big.Int, string) {
	b := personalise(c, nil, false, nil)
	if _, msg := runCA(c, b, b.chip); msg != "" {
		return nil, msg
	}
	raw := b.chip.CATermPub()
	cv := ecc.ByName(c.Curve)
	pk, err := cv.Decode(raw)
	if err != nil {
		return nil, "pass 1: terminal key not decodable"
	}
	st := detrand.New(append([]byte("steer"), c.ChipSeed...))
	d := cv.ScalarFromBytes(st.Bytes(cv.ByteLen + 8))
	q := cv.ScalarMult(d, pk)
	for i := 0; i < 6000; i++ {
		if q.X != nil && cv.FixedBytes(q.X)[0] == 0 {
			return d, ""
		}
		d = new(big.Int).Add(d, big.NewInt(1))
		if d.Cmp(cv.N) >= 0 {
			d = big.NewInt(1)
			q = pk
		} else {
			q = cv.Add(q, pk)
		}
	}
	return nil, "steering failed"
}

func genuineCase(rt interface {
	Fatalf(string, ...any)
	Helper()
	Logf(string, ...any)
}, c *caCase, check string) {
	var override *big.Int
	slice := "none"
	if c.Steer {
		d, msg := steerKey(c)
		if d == nil {
			evid.Count("steering-failed", 1)
			if msg != "steering failed" {
				// pass 1 is an ordinary genuine run: a failure there is a finding of its own
				evid.Fail(rt, check+"-pass1", c.repro(), "%s", msg)
			}
		} else {
			override = d
			slice = "shared-x00"
		}
	}
	b := personalise(c, override, false, nil)
	o, setup := runCA(c, b, b.chip)
	if setup != "" {
		evid.Fail(rt, check+"-setup", c.repro(), "%s", setup)
	}
	if x, _, _ := b.chip.CALast(); len(x) > 0 && x[0] == 0 {
		if slice == "none" {
			slice = "shared-x00(natural)"
		}
	} else if slice == "shared-x00" {
		slice = "steering-missed" // the terminal key did not repeat between the passes
	}
	evid.Case(fmt.Sprintf("genuine-%s-%s", c.Curve, c.Cipher), true, c.key(), c.repro())
	evid.Count("slice-"+slice, 1)
	evid.Count(fmt.Sprintf("arrangement-%d", c.Arrange), 1)
	evid.Count(fmt.Sprintf("explicit-%d", c.Explicit), 1)
	evid.Count("prior-"+c.Prior, 1)
	if evid.Open(prop, f6) && (slice == "shared-x00" || slice == "shared-x00(natural)") {
		evid.Excluded(f6)
		return
	}
	if msg := checkGenuine(c, b, o); msg != "" {
		r := c.repro()
		r["slice"] = slice
		evid.Fail(rt, check, r, "%s", msg)
	}
}

func TestCAGenuine(t *testing.T) {
	evid.RapidCheck(t, 1000, 30000, func(rt *rapid.T) {
		c := drawCase(rt)
		cv := ecc.ByName(c.Curve)
		c.Steer = cv.ByteLen <= 32 && rapid.IntRange(0, 5).Draw(rt, "steer") == 0
		genuineCase(rt, c, "genuine")
	})
}

// TestCAMatrix: every curve x parameter form x suite once (thorough: more).
func TestCAMatrix(t *testing.T) {
	idx := 0
	reps := evid.Pick(1, 3)
	for _, cv := range ecc.Curves() {
		for _, ex := range []int{0, 1} {
			for ci, cp := range ciphers {
				for r := 0; r < reps; r++ {
					idx++
					if !evid.MineIdx(idx) {
						continue
					}
					st := detrand.New([]byte(fmt.Sprintf("ca-matrix-%d-%d", evid.Seed(), idx)))
					c := &caCase{Curve: cv.Name, Explicit: ex * (1 + r%2), Cipher: cp, Arrange: (ci + r + ex) % 6, Prior: "BAC", ChipSeed: st.Bytes(16), LibSeed: st.Bytes(16)}
					genuineCase(t, c, "matrix")
				}
			}
		}
	}
	evid.Exhaustive("ca-curve-suite-matrix", true)
}

// ---------------------------------------------------------------- impostors

// impostor wraps a chip that lacks the private key and overrides the response
// to the first command after Chip Authentication according to a strategy.
type impostor struct {
	chip     *chipsim.Chip
	strategy string
	prev     *sm.Session // session before the exchange
	old      *sm.Session // session that was active when CA completed
	caDoneAt int
	n        int
	replay   []byte
	r        *detrand.Stream
	Altered  bool
}

func (im *impostor) Transceive(cla int, ins int, p1 int, p2 int, data []byte, le int, encoded []byte) []byte {
	im.n++
	if im.chip.SM != nil {
		im.prev = im.chip.SM.Clone()
	}
	wasDone := im.chip.Done.CA
	rsp := im.chip.Transceive(cla, ins, p1, p2, data, le, encoded)
	if !wasDone && im.chip.Done.CA {
		im.caDoneAt = im.n
		im.old = im.prev
		return rsp
	}
	if im.caDoneAt != 0 && im.n == im.caDoneAt+1 {
		// the probe command: the impostor cannot have the new keys
		im.Altered = true
		switch im.strategy {
		case "wrong-key":
			im.Altered = false // the chip simply computed other keys
			return rsp
		case "old-session-keys":
			s := im.old.Clone()
			sm.IncSSC(s.SSC) // as if it had received the command
			return s.WrapResponse(nil, 0x9000, false)
		case "old-session-keys-fresh-counter":
			s := sm.New(im.old.Cipher, im.old.KEnc, im.old.KMac, make([]byte, len(im.old.SSC)))
			sm.IncSSC(s.SSC)
			return s.WrapResponse(nil, 0x9000, false)
		case "plain-9000":
			return []byte{0x90, 0x00}
		case "replay-previous-session":
			return append([]byte{}, im.replay...)
		case "random-mac":
			return append(append([]byte{0x99, 0x02, 0x90, 0x00, 0x8E, 0x08}, im.r.Bytes(8)...), 0x90, 0x00)
		case "zero-mac":
			return append(append([]byte{0x99, 0x02, 0x90, 0x00, 0x8E, 0x08}, make([]byte, 8)...), 0x90, 0x00)
		case "empty-mac": // a DO8E without a value: nothing to compare
			return []byte{0x99, 0x02, 0x90, 0x00, 0x8E, 0x00, 0x90, 0x00}
		case "one-octet-mac": // a 1-octet MAC guess (1/256 under a prefix comparison; the same seed always guesses the same)
			return []byte{0x99, 0x02, 0x90, 0x00, 0x8E, 0x01, im.r.Bytes(1)[0], 0x90, 0x00}
		case "no-mac": // status object only
			return []byte{0x99, 0x02, 0x90, 0x00, 0x90, 0x00}
		case "long-mac": // 16 octets: a random 8-octet MAC with 8 more
			return append(append([]byte{0x99, 0x02, 0x90, 0x00, 0x8E, 0x10}, im.r.Bytes(16)...), 0x90, 0x00)
		}
	}
	return rsp
}

var strategies = []string{"wrong-key", "old-session-keys", "old-session-keys-fresh-counter", "plain-9000", "replay-previous-session", "random-mac", "zero-mac",
	"empty-mac", "one-octet-mac", "no-mac", "long-mac"}

func TestCAImpostor(t *testing.T) {
	evid.RapidCheck(t, 1200, 30000, func(rt *rapid.T) {
		c := drawCase(rt)
		c.Strategy = rapid.SampledFrom(strategies).Draw(rt, "strategy")
		// a genuine run first: the positive twin (makes the case non-trivial) and the
		// source of the replayed response
		gb := personalise(c, nil, false, nil)
		var probeRsp []byte
		gb.chip.Cfg.Deviate = nil
		gim := &recorder{chip: gb.chip}
		g, setup := runCA(c, gb, gim)
		if setup != "" {
			evid.Fail(rt, "impostor-twin-setup", c.repro(), "%s", setup)
		}
		if g.err != nil || g.res == nil || !g.res.Success {
			if evid.Open(prop, f6) {
				if x, _, _ := gb.chip.CALast(); len(x) > 0 && x[0] == 0 {
					evid.Excluded(f6)
					return
				}
			}
			evid.Fail(rt, "impostor-twin", c.repro(), "genuine twin of the impostor case fails: %v", g.err)
		}
		probeRsp = gim.after(gb.chip)
		// the impostor: same DG14, chip personalised with another private key;
		// different terminal randomness for the replay strategy to be a true replay
		c2 := *c
		if c.Strategy == "replay-previous-session" {
			c2.LibSeed = append([]byte{}, c.LibSeed...)
			c2.LibSeed[0] ^= 0x55
		}
		b := personalise(&c2, nil, true, nil)
		im := &impostor{chip: b.chip, strategy: c.Strategy, replay: probeRsp, r: detrand.New(append([]byte("imp"), c.ChipSeed...))}
		o, setup := runCA(&c2, b, im)
		if setup != "" {
			evid.Fail(rt, "impostor-setup", c.repro(), "%s", setup)
		}
		rep := c.repro()
		evid.Case("impostor-"+c.Strategy, true, c.key(), rep)
		if im.caDoneAt == 0 {
			evid.Fail(rt, "impostor-flow", rep, "chip-side CA step never reached (library error: %v)", o.err)
		}
		if o.res != nil && o.res.Success {
			evid.Fail(rt, "impostor-"+c.Strategy, rep, "Chip Authentication reported successful although the chip does not hold the private key of the DG14 key (strategy %s)", c.Strategy)
		}
		if o.err == nil {
			evid.Fail(rt, "impostor-"+c.Strategy, rep, "DoChipAuth returned no error against an impostor (strategy %s)", c.Strategy)
		}
	})
}

// recorder notes the response to the first command after CA of a genuine session.
type recorder struct {
	chip     *chipsim.Chip
	n        int
	caDoneAt int
	probe    []byte
}

func (r *recorder) Transceive(cla int, ins int, p1 int, p2 int, data []byte, le int, encoded []byte) []byte {
	r.n++
	was := r.chip.Done.CA
	rsp := r.chip.Transceive(cla, ins, p1, p2, data, le, encoded)
	if !was && r.chip.Done.CA {
		r.caDoneAt = r.n
	} else if r.caDoneAt != 0 && r.n == r.caDoneAt+1 {
		r.probe = append([]byte{}, rsp...)
	}
	return rsp
}

func (r *recorder) after(_ *chipsim.Chip) []byte { return r.probe }

// ---------------------------------------------------------------- PACE-CAM impostor

// TestCAMImpostor: a chip that runs PACE-CAM but does not hold the private key
// of the key published in EF.CardSecurity must never be reported as
// chip-authenticated (PaceCamResult).
func TestCAMImpostor(t *testing.T) {
	evid.RapidCheck(t, 400, 10000, func(rt *rapid.T) {
		id := rapid.SampledFrom([]int{12, 13, 10, 15, 12, 13, 10, 15, 12, 13, 10, 8, 9, 11, 14, 16, 17, 18}).Draw(rt, "paramId")
		cp := rapid.SampledFrom([]mac.Cipher{"AES-128", "AES-192", "AES-256"}).Draw(rt, "cipher")
		holdsKey := rapid.IntRange(0, 2).Draw(rt, "holdsKey") == 0
		keyArr := rapid.IntRange(0, 3).Draw(rt, "cardSecurityKeys")
		chipSeed := rapid.SliceOfN(rapid.Byte(), 16, 16).Draw(rt, "chipSeed")
		libSeed := rapid.SliceOfN(rapid.Byte(), 16, 16).Draw(rt, "libSeed")
		cv := ecc.ByPaceID(id)
		st := detrand.New(append([]byte("cam"), chipSeed...))
		published := cv.ScalarFromBytes(st.Bytes(cv.ByteLen + 8))
		held := published
		if !holdsKey {
			held = cv.ScalarFromBytes(st.Bytes(cv.ByteLen + 8))
			if held.Cmp(published) == 0 {
				held = new(big.Int).Add(held, big.NewInt(1))
			}
		}
		pid := big.NewInt(int64(id))
		oid := chipsim.PaceOID("CAM", cp)
		main := lds.PACEInfo(oid, 2, pid)
		cardAccess := lds.CardAccess(main)
		// EF.CardSecurity may publish several Chip Authentication keys (key-id arrangement):
		// 0 the mapping key alone; 1 a key of another standardised curve first; 2 a generic key on the
		// same curve first (the mapping key is the one whose key id equals the parameter id) and another
		// curve's key last; 3 the mapping key without a key id between keys of two other curves
		camPoint := cv.Encode(cv.ScalarBaseMult(published))
		camInfo := lds.ChipAuthPubKeyInfo(lds.OidPkECDH, lds.SPKIStdDomain(id, camPoint), pid)
		extra := func(label string, eid int) []byte {
			ocv := ecc.ByPaceID(eid)
			k := ocv.ScalarFromBytes(detrand.New(append([]byte(label), chipSeed...)).Bytes(ocv.ByteLen + 8))
			if k.Sign() == 0 {
				k = big.NewInt(11)
			}
			return ocv.Encode(ocv.ScalarBaseMult(k))
		}
		other, third := 12, 16
		if id == 12 {
			other = 10
		}
		if id == 16 {
			third = 15
		}
		keyInfos := [][]byte{camInfo}
		switch keyArr {
		case 1:
			keyInfos = [][]byte{lds.ChipAuthPubKeyInfo(lds.OidPkECDH, lds.SPKIStdDomain(other, extra("other", other)), big.NewInt(int64(other))), camInfo}
		case 2:
			keyInfos = [][]byte{lds.ChipAuthPubKeyInfo(lds.OidPkECDH, lds.SPKIStdDomain(id, extra("generic", id)), big.NewInt(int64(id+40))), camInfo,
				lds.ChipAuthPubKeyInfo(lds.OidPkECDH, lds.SPKIStdDomain(other, extra("other", other)), nil)}
		case 3:
			keyInfos = [][]byte{lds.ChipAuthPubKeyInfo(lds.OidPkECDH, lds.SPKIStdDomain(third, extra("third", third)), big.NewInt(int64(third))),
				lds.ChipAuthPubKeyInfo(lds.OidPkECDH, lds.SPKIStdDomain(id, camPoint), nil),
				lds.ChipAuthPubKeyInfo(lds.OidPkECDH, lds.SPKIStdDomain(other, extra("other", other)), big.NewInt(int64(other)))}
		}
		evid.Count(fmt.Sprintf("cam-cardsecurity-keys-%d", keyArr), 1)
		secInfos := lds.SecurityInfos(append([][]byte{main}, keyInfos...)...)
		cfg := chipsim.Config{
			MRZInfo: mrzInfo, CAN: "123456", PACE: []chipsim.PaceEntry{{OID: oid, ParamID: id}},
			CAMKey: &chipsim.CAKey{KeyID: pid, Curve: cv, Priv: held},
			MF:     map[uint16][]byte{chipsim.FidCardAccess: cardAccess, chipsim.FidCardSecurity: lds.DummyCardSecurity(secInfos)},
			DF:     map[uint16][]byte{},
			Rand:   detrand.New(chipSeed).Bytes,
		}
		// a chip that runs the CAM protocol but stores no EF.CardSecurity (SELECT answers 6A82 under the new
		// session): there is no certified key to check the chip against, so whatever else happens the
		// chip-authentication mapping must not be reported successful
		noCardSecurity := rapid.IntRange(0, 5).Draw(rt, "no-cardsecurity") == 0
		if noCardSecurity {
			delete(cfg.MF, chipsim.FidCardSecurity)
		}
		chip := chipsim.New(cfg)
		restore := detrand.Install(libSeed)
		defer restore()
		nfc := iso7816.NewNfcSession(chip)
		doc := &document.Document{}
		ca, err := document.NewCardAccess(cardAccess)
		if err != nil {
			evid.Fail(rt, "cam-setup", nil, "NewCardAccess: %v", err)
		}
		doc.Mf.CardAccess = ca
		var res *document.PaceResult
		var cam *document.PaceCamResult
		var panicked any
		func() {
			defer func() { panicked = recover() }()
			res, cam, err = pace.NewPace(nfc, doc, password.NewPasswordCan("123456")).DoPACE()
		}()
		if noCardSecurity {
			rep := map[string]any{"paramId": id, "cipher": string(cp), "holdsKey": holdsKey, "noCardSecurity": true, "chipSeed": hex.EncodeToString(chipSeed), "libSeed": hex.EncodeToString(libSeed)}
			evid.Case("cam-without-cardsecurity", true, fmt.Sprintf("%d%s%x%x", id, cp, chipSeed[:4], libSeed[:4]), rep)
			if panicked != nil {
				// a crash is C12's subject (finding F19 there); for this property it is simply not a success report
				evid.Count("cam-without-cardsecurity-panicked(C12)", 1)
				return
			}
			if cam != nil && cam.Success {
				evid.Fail(rt, "cam-no-cardsecurity", rep, "PACE-CAM reported successful although the chip has no EF.CardSecurity to authenticate against")
			}
			return
		}
		if panicked != nil {
			panic(panicked)
		}
		rep := map[string]any{"paramId": id, "cipher": string(cp), "holdsKey": holdsKey, "cardSecurityKeys": keyArr, "chipSeed": hex.EncodeToString(chipSeed), "libSeed": hex.EncodeToString(libSeed)}
		if holdsKey {
			evid.Case("cam-genuine", true, fmt.Sprintf("%d%s%x%x", id, cp, chipSeed[:4], libSeed[:4]), rep)
			if err != nil || res == nil || !res.Success || cam == nil || !cam.Success {
				evid.Fail(rt, "cam-genuine", rep, "PACE-CAM with the genuine chip not reported successful: %v", err)
			}
			return
		}
		evid.Case("cam-impostor", true, fmt.Sprintf("%d%s%x%x", id, cp, chipSeed[:4], libSeed[:4]), rep)
		if cam != nil && cam.Success {
			evid.Fail(rt, "cam-impostor", rep, "PACE-CAM reported successful although the chip does not hold the private key of the CardSecurity key")
		}
	})
}

// TestKnownF6 / TestRegressionF6 ------------------------------------------------

func f6Cases() []*caCase {
	var out []*caCase
	for i, cn := range []string{"P-256", "P-224", "brainpoolP256r1"} {
		st := detrand.New([]byte(fmt.Sprintf("f6-%d", i)))
		out = append(out, &caCase{Curve: cn, Explicit: i % 2, Cipher: ciphers[(i+1)%4], Arrange: i % 2, Prior: "BAC", Steer: true, ChipSeed: st.Bytes(16), LibSeed: st.Bytes(16)})
	}
	return out
}

func TestKnownF6(t *testing.T) {
	if evid.Shard() != 0 || !evid.Open(prop, f6) {
		return
	}
	for _, c := range f6Cases() {
		d, _ := steerKey(c)
		if d == nil {
			continue
		}
		b := personalise(c, d, false, nil)
		o, setup := runCA(c, b, b.chip)
		if setup != "" {
			continue
		}
		if x, _, _ := b.chip.CALast(); len(x) == 0 || x[0] != 0 {
			continue
		}
		if msg := checkGenuine(c, b, o); msg != "" {
			evid.ReportKnown(prop, f6, "Chip Authentication fails against the genuine chip when the ECDH x-coordinate has a leading zero octet: "+msg)
			return
		}
	}
}

func TestRegressionF6(t *testing.T) {
	if evid.Shard() != 0 || evid.Open(prop, f6) {
		return
	}
	n := 0
	for _, c := range f6Cases() {
		d, msg := steerKey(c)
		if d == nil {
			evid.Infra(t, "steering: %s", msg)
		}
		b := personalise(c, d, false, nil)
		o, setup := runCA(c, b, b.chip)
		if setup != "" {
			evid.Fail(t, "regression-F6-setup", c.repro(), "%s", setup)
		}
		if x, _, _ := b.chip.CALast(); len(x) == 0 || x[0] != 0 {
			continue
		}
		n++
		evid.Case("regression-F6", true, c.key(), c.repro())
		if msg := checkGenuine(c, b, o); msg != "" {
			evid.Fail(t, "regression-F6", c.repro(), "%s", msg)
		}
	}
	if n == 0 {
		evid.Infra(t, "two-pass steering never reached the leading-zero slice")
	}
}
