// Package ldsgen generates WELL-FORMED ICAO 9303-10 LDS files over their
// optional-field and repetition space.  Every generator returns the file bytes
// together with the expected view (verifharness/ldsgen/ldsview): what the file
// encodes, computed from the values the generator chose, never by parsing.
//
// All choices are drawn from a Source, so the caller decides where the
// randomness comes from (rapid in the checks, anything else in a chip
// personaliser).  A run is a pure function of the values the Source returns.
//
// No gmrtd import.  Tag numbers and structures follow ICAO 9303-10 (8th ed.);
// where gmrtd's parser is narrower or wider than the standard the generator
// stays inside the intersection and the difference is listed in NOTES below.
//
// NOTES (standard vs. gmrtd, as read in /repo/document):
//   - DG12 "other persons": the tag list carries 5F1A (gmrtd has no case for A0
//     in a DG12 tag list; in DG11 it accepts both 5F0F and A0).
//   - EFDIRInfo: gmrtd knows the OID 1.3.27.1.1.13 (legacy icao arc); 9303-11
//     defines id-EFDIR = id-icao-mrtd-security 13 = 2.23.136.1.1.13.  The
//     generator emits the one gmrtd knows unless Opts.ICAOEFDIR is set.
//   - ISO/IEC 19794-5 feature points are generated per the standard
//     (type, code, X, Y, reserved(2)); gmrtd slices the 8 octets differently.
//   - OID arcs stay below 2^31 (Go's encoding/asn1 refuses larger arcs).
package ldsgen

import (
	"fmt"
	"strings"
)

// Source is the only origin of choices.
type Source interface {
	Intn(n int) int     // uniform in [0,n), n >= 1
	Bytes(n int) []byte // n octets
	Bool() bool
}

// File is a generated file with its expected view.
type File struct {
	Kind  string // "COM","SOD","DG1","DG2","DG7","DG11","DG12","DG13","DG14","DG15","DG16","CardAccess","CardSecurity"
	DG    int    // data group number, 0 for files that are not data groups
	Tag   uint32 // outer tag (0x31 for CardAccess, 0x30 for CardSecurity)
	Bytes []byte
	// View is a pointer to the ldsview type of the kind (*ldsview.DG1, ...).
	View any
	// Class is a coarse label of the variant (for distribution statistics),
	// Mask a compact description of which optional elements are present and of
	// the repetition counts (identity for distinct counting).
	Class string
	Mask  string
	// NonTrivial: at least one optional or repeated element is present.
	NonTrivial bool
}

// Kinds lists the file kinds Generate knows, in a fixed order.
var Kinds = []string{"COM", "DG1", "DG2", "DG7", "DG11", "DG12", "DG13", "DG14", "DG15", "DG16", "CardAccess", "SOD", "CardSecurity"}

// DGNumber maps a kind to its data group number (0 if none).
func DGNumber(kind string) int {
	switch kind {
	case "DG1":
		return 1
	case "DG2":
		return 2
	case "DG7":
		return 7
	case "DG11":
		return 11
	case "DG12":
		return 12
	case "DG13":
		return 13
	case "DG14":
		return 14
	case "DG15":
		return 15
	case "DG16":
		return 16
	}
	return 0
}

// Opts steers the generators away from input classes (used by checks while a
// known finding is open) or into special ones.  The zero value generates the
// whole space.
type Opts struct {
	// MaxTemplates limits the number of biometric templates of DG2 (0 = 4).
	MaxTemplates int
	// No39794 suppresses ISO/IEC 39794-5 templates.
	No39794 bool
	// MaxImage bounds the random part of image payloads (0 = default mix with
	// rare payloads > 65535 octets).
	MaxImage int
	// ICAOEFDIR: emit EFDIRInfo with 2.23.136.1.1.13 instead of 1.3.27.1.1.13.
	ICAOEFDIR bool
	// SmallKeys: keep RSA moduli at 512..1024 bits and EC scalars tiny (cheap).
	SmallKeys bool
}

// Generate builds one file of the given kind.
func Generate(kind string, s Source, o Opts) (*File, error) {
	switch kind {
	case "COM":
		return COM(s), nil
	case "DG1":
		return DG1(s), nil
	case "DG2":
		return DG2(s, o), nil
	case "DG7":
		return DG7(s, o), nil
	case "DG11":
		return DG11(s, o), nil
	case "DG12":
		return DG12(s, o), nil
	case "DG13":
		return DG13(s), nil
	case "DG14":
		return DG14(s, o), nil
	case "DG15":
		return DG15(s, o), nil
	case "DG16":
		return DG16(s), nil
	case "CardAccess":
		return CardAccess(s, o), nil
	case "SOD":
		return SOD(s, nil), nil
	case "CardSecurity":
		return CardSecurity(s, o), nil
	}
	return nil, fmt.Errorf("ldsgen: unknown kind %q", kind)
}

// ---------------------------------------------------------------- helpers

func pick[T any](s Source, v []T) T { return v[s.Intn(len(v))] }

// chance is true with probability num/den.
func chance(s Source, num, den int) bool { return s.Intn(den) < num }

// between returns a value in [lo,hi].
func between(s Source, lo, hi int) int { return lo + s.Intn(hi-lo+1) }

// fill returns n octets: drawn directly when few, else expanded from an
// 8-octet drawn seed with splitmix64 (cheap for large payloads and still a
// pure function of the Source).
func fill(s Source, n int) []byte {
	if n <= 16 {
		return s.Bytes(n)
	}
	seed := s.Bytes(8)
	var x uint64
	for _, b := range seed {
		x = x<<8 | uint64(b)
	}
	out := make([]byte, n)
	for i := 0; i < n; i += 8 {
		x += 0x9e3779b97f4a7c15
		z := x
		z = (z ^ (z >> 30)) * 0xbf58476d1ce4e5b9
		z = (z ^ (z >> 27)) * 0x94d049bb133111eb
		z ^= z >> 31
		for j := 0; j < 8 && i+j < n; j++ {
			out[i+j] = byte(z >> (8 * j))
		}
	}
	return out
}

const upper = "ABCDEFGHIJKLMNOPQRSTUVWXYZ"
const digits = "0123456789"
const alnum = upper + digits

func randString(s Source, alphabet string, n int) string {
	b := make([]byte, n)
	for i := range b {
		b[i] = alphabet[s.Intn(len(alphabet))]
	}
	return string(b)
}

var nationalWords = []string{"MÜLLER", "ÓLAFUR", "赵彬", "Ærøskøbing", "Ђорђе", "Łódź", "d'Arc", "O'NEIL", "Jean-Luc", "São", "İZMİR", "Nguyễn"}

// word is one name / text component without fillers and without spaces.
func word(s Source, national bool) string {
	if national && chance(s, 1, 4) {
		return pick(s, nationalWords)
	}
	return randString(s, upper, between(s, 1, 8))
}

// words returns n components.
func words(s Source, n int, national bool) []string {
	out := make([]string, n)
	for i := range out {
		out[i] = word(s, national)
	}
	return out
}

// nameParts draws a primary identifier (1..3 components) and a secondary
// identifier (0..3 components).
func nameParts(s Source, national bool) (prim, sec []string) {
	prim = words(s, between(s, 1, 3), national)
	if !chance(s, 1, 6) {
		sec = words(s, between(s, 1, 3), national)
	}
	return
}

// encodeName writes PRIMARY<<SECONDARY with single fillers between components.
func encodeName(prim, sec []string) string {
	n := strings.Join(prim, "<")
	if len(sec) > 0 {
		n += "<<" + strings.Join(sec, "<")
	}
	return n
}

// date draws a calendar date between 1900 and 2024 as YYYYMMDD.
func date(s Source, yLo, yHi int) string {
	y := between(s, yLo, yHi)
	m := between(s, 1, 12)
	dmax := []int{31, 28, 31, 30, 31, 30, 31, 31, 30, 31, 30, 31}[m-1]
	if m == 2 && y%4 == 0 && (y%100 != 0 || y%400 == 0) {
		dmax = 29
	}
	d := between(s, 1, dmax)
	return fmt.Sprintf("%04d%02d%02d", y, m, d)
}

// bcd packs a string of an even number of decimal digits.
func bcd(digits string) []byte {
	out := make([]byte, len(digits)/2)
	for i := range out {
		out[i] = (digits[2*i]-'0')<<4 | (digits[2*i+1] - '0')
	}
	return out
}

// Image payloads -----------------------------------------------------------

// Image formats.
const (
	ImgJPEG = iota
	ImgJP2
	ImgJ2K // raw JPEG 2000 codestream
)

var imgMagic = [][]byte{
	{0xFF, 0xD8, 0xFF, 0xE0, 0x00, 0x10, 'J', 'F', 'I', 'F', 0x00},
	{0x00, 0x00, 0x00, 0x0C, 0x6A, 0x50, 0x20, 0x20, 0x0D, 0x0A, 0x87, 0x0A},
	{0xFF, 0x4F, 0xFF, 0x51},
}

// image builds a payload with the magic number of the format followed by
// random octets (it is not a decodable picture; no LDS parser decodes pixels).
func image(s Source, format int, o Opts) []byte {
	var n int
	switch {
	case o.MaxImage > 0:
		n = s.Intn(o.MaxImage + 1)
	case chance(s, 1, 400):
		n = between(s, 65536, 70000) // three length octets
	case chance(s, 1, 12):
		n = between(s, 200, 3000) // two length octets
	case chance(s, 1, 4):
		n = between(s, 100, 260) // around the one/two length octet border
	default:
		n = s.Intn(40)
	}
	out := append([]byte{}, imgMagic[format]...)
	out = append(out, fill(s, n)...)
	if format == ImgJPEG {
		out = append(out, 0xFF, 0xD9)
	}
	return out
}

func maskBit(b bool) string {
	if b {
		return "1"
	}
	return "0"
}
