package ldsgen

import (
	"encoding/binary"
	"fmt"
	"math/big"

	"verifharness/ldsgen/ldsview"
	"verifharness/ref/der"
)

// DG2: 75 { 7F61 { 02 01 n, n x 7F60 { A1 { header }, 5F2E | 7F2E } } }.
//
// 5F2E carries an ISO/IEC 19794-5:2005 facial record (1..4 faces, 0..32
// feature points each); 7F2E carries A1 { ISO/IEC 39794-5 FaceImageDataBlock }
// (9303-10 8th ed. / ICAO TR 39794-5 application profile).
func DG2(s Source, o Opts) *File {
	maxT := o.MaxTemplates
	if maxT <= 0 {
		maxT = 4
	}
	n := 1
	if maxT > 1 && s.Bool() {
		n = between(s, 2, maxT)
	}
	v := &ldsview.DG2{}
	body := der.TLV(0x02, []byte{byte(n)})
	mask := fmt.Sprintf("t%d", n)
	kinds := ""
	nt := n > 1
	for i := 0; i < n; i++ {
		bit, enc, m, t := template(s, o)
		nt = nt || t
		v.Templates = append(v.Templates, bit)
		body = append(body, enc...)
		mask += "/" + m
		if bit.ISO39794 != nil {
			kinds += "N"
		} else {
			kinds += "O"
		}
	}
	file := der.TLV(0x75, der.TLV(0x7F61, body))
	nImg := len(v.Images())
	class := "DG2/1-template"
	if n > 1 {
		class = "DG2/multi-template"
	}
	if n == 1 && v.Templates[0].ISO39794 != nil {
		class = "DG2/1-template-39794"
	}
	return &File{Kind: "DG2", DG: 2, Tag: 0x75, Bytes: file, View: v, Class: class,
		Mask: mask + "/" + kinds + fmt.Sprintf("/i%d", nImg), NonTrivial: nt || nImg > 1}
}

func template(s Source, o Opts) (ldsview.BIT, []byte, string, bool) {
	var b ldsview.BIT
	var hdr []byte
	mask := "h"
	nt := false
	opt := func(tag uint32, dst *[]byte, gen func() []byte) {
		on := s.Bool()
		mask += maskBit(on)
		if on {
			nt = true
			*dst = gen()
			hdr = append(hdr, der.TLV(tag, *dst)...)
		}
	}
	is39794 := !o.No39794 && chance(s, 1, 3)
	opt(0x80, &b.HeaderVersion, func() []byte { return []byte{0x01, 0x01} })
	opt(0x81, &b.BiometricType, func() []byte { return []byte{0x02} })
	opt(0x82, &b.BiometricSubType, func() []byte { return []byte{byte(s.Intn(4))} })
	opt(0x83, &b.CreationDateTime, func() []byte { return bcd(date(s, 2000, 2026) + "120000") })
	opt(0x85, &b.ValidityPeriod, func() []byte { return bcd(date(s, 2000, 2026) + date(s, 2027, 2040)) })
	opt(0x86, &b.Creator, func() []byte { return s.Bytes(2) })
	// format owner / type are mandatory
	b.FormatOwner = []byte{0x01, 0x01}
	b.FormatType = []byte{0x00, 0x08}
	if is39794 {
		b.FormatType = []byte{0x00, 0x1B}
	}
	hdr = append(hdr, der.TLV(0x87, b.FormatOwner)...)
	hdr = append(hdr, der.TLV(0x88, b.FormatType)...)
	var bdb []byte
	if is39794 {
		rec, enc, m, t := rec39794(s, o)
		nt = nt || t
		b.ISO39794 = rec
		b.BDBTag = 0x7F2E
		bdb = der.TLV(0x7F2E, enc)
		mask += "/N" + m
	} else {
		rec, enc, m, t := rec19794(s, o)
		nt = nt || t
		b.ISO19794 = rec
		b.BDBTag = 0x5F2E
		bdb = der.TLV(0x5F2E, enc)
		mask += "/O" + m
	}
	return b, der.TLV(0x7F60, der.Cat(der.TLV(0xA1, hdr), bdb)), mask, nt
}

// ---------------------------------------------------------------- ISO/IEC 19794-5:2005

func rec19794(s Source, o Opts) (*ldsview.Rec19794, []byte, string, bool) {
	nFaces := 1
	if chance(s, 1, 3) {
		nFaces = between(s, 2, 4)
	}
	rec := &ldsview.Rec19794{FormatID: []byte("FAC\x00"), VersionID: []byte("010\x00")}
	var blocks []byte
	mask := fmt.Sprintf("f%d", nFaces)
	nt := nFaces > 1
	for i := 0; i < nFaces; i++ {
		var f ldsview.Face
		nPts := 0
		switch s.Intn(4) {
		case 0:
			nPts = between(s, 1, 32)
		case 1:
			nPts = pick(s, []int{1, 2, 31, 32})
		}
		f.Gender = byte(s.Intn(3))
		f.EyeColor = byte(s.Intn(8))
		f.HairColor = byte(s.Intn(8))
		f.Properties = s.Bytes(3)
		f.Expression = s.Bytes(2)
		f.Pose = s.Bytes(3)
		f.PoseUncertainty = s.Bytes(3)
		var pts []byte
		for k := 0; k < nPts; k++ {
			raw := s.Bytes(8)
			if chance(s, 3, 4) {
				raw[6], raw[7] = 0, 0 // reserved
			}
			f.Features = append(f.Features, ldsview.FeaturePoint{
				Type: raw[0], Major: raw[1] >> 4, Minor: raw[1] & 0x0f,
				X: binary.BigEndian.Uint16(raw[2:4]), Y: binary.BigEndian.Uint16(raw[4:6]),
				Reserved: binary.BigEndian.Uint16(raw[6:8]), Raw: append([]byte{}, raw...)})
			pts = append(pts, raw...)
		}
		format := s.Intn(3)
		f.Image = image(s, format, o)
		f.ImageType = byte(s.Intn(3))
		if format != ImgJPEG {
			f.ImageDataType = 1
		}
		f.Width = uint16(between(s, 1, 2000))
		f.Height = uint16(between(s, 1, 2000))
		f.ColorSpace = byte(s.Intn(5))
		f.SourceType = byte(s.Intn(8))
		f.DeviceType = uint16(s.Intn(65536))
		f.Quality = uint16(s.Intn(65536))
		f.BlockLength = uint32(20 + len(pts) + 12 + len(f.Image))

		blk := make([]byte, 0, f.BlockLength)
		blk = binary.BigEndian.AppendUint32(blk, f.BlockLength)
		blk = binary.BigEndian.AppendUint16(blk, uint16(nPts))
		blk = append(blk, f.Gender, f.EyeColor, f.HairColor)
		blk = append(blk, f.Properties...)
		blk = append(blk, f.Expression...)
		blk = append(blk, f.Pose...)
		blk = append(blk, f.PoseUncertainty...)
		blk = append(blk, pts...)
		blk = append(blk, f.ImageType, f.ImageDataType)
		blk = binary.BigEndian.AppendUint16(blk, f.Width)
		blk = binary.BigEndian.AppendUint16(blk, f.Height)
		blk = append(blk, f.ColorSpace, f.SourceType)
		blk = binary.BigEndian.AppendUint16(blk, f.DeviceType)
		blk = binary.BigEndian.AppendUint16(blk, f.Quality)
		blk = append(blk, f.Image...)
		blocks = append(blocks, blk...)
		rec.Faces = append(rec.Faces, f)
		mask += fmt.Sprintf(".p%d", nPts)
		nt = nt || nPts > 0
	}
	rec.RecordLength = uint32(14 + len(blocks))
	out := append([]byte{}, rec.FormatID...)
	out = append(out, rec.VersionID...)
	out = binary.BigEndian.AppendUint32(out, rec.RecordLength)
	out = binary.BigEndian.AppendUint16(out, uint16(nFaces))
	out = append(out, blocks...)
	return rec, out, mask, nt
}

// ---------------------------------------------------------------- ISO/IEC 39794-5

func ctxInt(n int, v int) []byte {
	return der.Implicit(n, false, der.IntContent(big.NewInt(int64(v))))
}

// choiceCode is the shape ICAO's sample files use for CHOICE { code [k] ENUMERATED }
// components: [n] { [k] { 80 01 code } } (k = 0 collapses to [n] { 80 01 code }
// for imageDataFormat).
func codeBlock(n int, inner int, code int) []byte {
	leaf := der.Implicit(0, false, []byte{byte(code)})
	if inner < 0 {
		return der.Implicit(n, true, leaf)
	}
	return der.Implicit(n, true, der.Implicit(inner, true, leaf))
}

// rec39794 builds A1 { [APPLICATION 5] FaceImageDataBlock } following the
// structure of ICAO's sample "ICAO_39794_5_AP_AllFields" (automatic tags,
// DER), with every optional block drawn.
func rec39794(s Source, o Opts) (*ldsview.Rec39794, []byte, string, bool) {
	r := &ldsview.Rec39794{Generation: 3, Year: pick(s, []int{2019, 2019, 2023, 2030})}
	mask := ""
	nt := false
	on := func() bool { b := s.Bool(); mask += maskBit(b); nt = nt || b; return b }

	format := s.Intn(3)
	r.Image = image(s, format, o)
	fmtCode := []int{1, 3, 3}[format] // ImageDataFormatCode: jpeg(1), jpeg2000Lossy(3)
	r.ImageDataFormat = codeBlock(0, -1, fmtCode)
	info := append([]byte{}, r.ImageDataFormat...)
	if on() {
		r.FaceImageKind = codeBlock(1, 1, s.Intn(3))
		info = append(info, r.FaceImageKind...)
	}
	if on() {
		var flags []byte
		for i := 0; i < 12; i++ {
			if s.Bool() {
				flags = append(flags, der.Implicit(i, false, []byte{pick(s, []byte{0x00, 0xff})})...)
			}
		}
		r.PostAcquisition = der.Implicit(2, true, flags)
		info = append(info, r.PostAcquisition...)
	}
	if on() {
		r.LossyAttempts = codeBlock(3, 1, s.Intn(3))
		info = append(info, r.LossyAttempts...)
	}
	if on() {
		r.CameraToSubject = between(s, 1, 50000)
		info = append(info, ctxInt(4, r.CameraToSubject)...)
	}
	if on() {
		r.SensorDiagonal = between(s, 1, 2000)
		info = append(info, ctxInt(5, r.SensorDiagonal)...)
	}
	if on() {
		r.LensFocalLength = between(s, 1, 2000)
		info = append(info, ctxInt(6, r.LensFocalLength)...)
	}
	if on() {
		r.Width, r.Height = between(s, 1, 65535), between(s, 1, 65535)
		info = append(info, der.Implicit(7, true, der.Cat(ctxInt(0, r.Width), ctxInt(1, r.Height)))...)
	}
	if on() {
		r.FaceMeasurements = der.Implicit(8, true, der.Cat(ctxInt(0, s.Intn(65536)), ctxInt(1, s.Intn(65536)), ctxInt(2, s.Intn(65536)), ctxInt(3, s.Intn(65536))))
		info = append(info, r.FaceMeasurements...)
	}
	if on() {
		r.ColourSpace = codeBlock(9, 1, s.Intn(5))
		info = append(info, r.ColourSpace...)
	}
	if on() {
		r.RefColourMapping = der.Implicit(10, true, der.Implicit(0, false, []byte(word(s, false))))
		info = append(info, r.RefColourMapping...)
	}
	block2d := der.Cat(der.Implicit(0, false, r.Image), der.Implicit(1, true, info))
	if on() {
		r.CaptureDevice2D = der.Implicit(2, true, der.Cat(
			der.Implicit(0, true, der.Cat(ctxInt(0, s.Intn(2)), ctxInt(1, s.Intn(2)), ctxInt(2, s.Intn(2)))),
			codeBlock(1, 1, s.Intn(4))))
		block2d = append(block2d, r.CaptureDevice2D...)
	}
	// imageRepresentation [1] { base [0] { imageRepresentation2DBlock [0] { ... } } }
	imageRep := der.Implicit(1, true, der.Implicit(0, true, der.Implicit(0, true, block2d)))

	r.RepresentationID = s.Intn(4)
	rep := der.Cat(ctxInt(0, r.RepresentationID), imageRep)
	if on() {
		dt := &ldsview.DateTime39794{Year: between(s, 2000, 2030)}
		enc := ctxInt(0, dt.Year)
		depth := s.Intn(7) // how many of month..millisecond follow
		vals := []int{between(s, 1, 12), between(s, 1, 28), s.Intn(24), s.Intn(60), s.Intn(60), s.Intn(1000)}
		dst := []*int{&dt.Month, &dt.Day, &dt.Hour, &dt.Minute, &dt.Second, &dt.Millisecond}
		for i := 0; i < depth; i++ {
			*dst[i] = vals[i]
			enc = append(enc, ctxInt(i+1, vals[i])...)
		}
		r.CaptureDateTime = dt
		rep = append(rep, der.Implicit(2, true, enc)...)
		mask += fmt.Sprint(depth)
	}
	regID := func() []byte { return der.Cat(ctxInt(0, between(s, 1, 65535)), ctxInt(1, between(s, 1, 65535))) }
	if on() {
		q := der.Seq(der.Implicit(0, true, regID()), der.Implicit(1, true, ctxInt(0, s.Intn(101))))
		r.QualityBlocks = der.Implicit(3, true, q)
		rep = append(rep, r.QualityBlocks...)
	}
	if on() {
		r.PADData = der.Implicit(4, true, der.Cat(codeBlock(0, 1, s.Intn(3)), ctxInt(5, s.Intn(100))))
		rep = append(rep, r.PADData...)
	}
	if on() {
		r.SessionID = between(s, 1, 1000000)
		rep = append(rep, ctxInt(5, r.SessionID)...)
	}
	if on() {
		r.DerivedFrom = between(s, 1, 1000)
		rep = append(rep, ctxInt(6, r.DerivedFrom)...)
	}
	if on() {
		var dev []byte
		if s.Bool() {
			r.ModelOrg, r.ModelID = between(s, 1, 65535), between(s, 1, 65535)
			dev = append(dev, der.Implicit(0, true, der.Cat(ctxInt(0, r.ModelOrg), ctxInt(1, r.ModelID)))...)
		}
		if s.Bool() {
			r.CertOrg, r.CertID = between(s, 1, 65535), between(s, 1, 65535)
			certs := der.Seq(ctxInt(0, r.CertOrg), ctxInt(1, r.CertID))
			if s.Bool() { // a second certification id block
				certs = append(certs, der.Seq(regID())...)
			}
			dev = append(dev, der.Implicit(1, true, certs)...)
		}
		rep = append(rep, der.Implicit(7, true, dev)...)
		mask += fmt.Sprintf("d%d%d", r.ModelOrg&1, r.CertOrg&1)
	}
	if on() {
		r.IdentityMetadata = der.Implicit(8, true, der.Cat(codeBlock(0, 1, s.Intn(4)), codeBlock(1, 1, s.Intn(8)), ctxInt(3, between(s, 100, 2500))))
		rep = append(rep, r.IdentityMetadata...)
	}
	if on() {
		lm := der.Seq(
			der.Implicit(0, true, der.Implicit(0, true, der.Implicit(0, true, codeBlock(1, -1, s.Intn(64))))),
			der.Implicit(1, true, der.Implicit(0, true, der.Cat(ctxInt(0, s.Intn(65536)), ctxInt(1, s.Intn(65536))))))
		r.Landmarks = der.Implicit(9, true, lm)
		rep = append(rep, r.Landmarks...)
	}
	version := der.Implicit(0, true, der.Cat(ctxInt(0, r.Generation), ctxInt(1, r.Year)))
	blocks := der.Implicit(1, true, der.Seq(rep))
	fidb := der.Application(5, true, der.Cat(version, blocks))
	return r, der.Implicit(1, true, fidb), mask, nt
}
