// Package ldsview holds the plain "view" types shared by the LDS file
// generators (verifharness/ldsgen: the view is what the generator put into the
// file), the independent decoder (verifharness/ldsref: the view is recomputed
// from the raw bytes) and the check C19 (an adapter turns the JSON of gmrtd's
// constructors into the same types).  No gmrtd import, no logic apart from
// comparison helpers.
//
// Conventions of the view (they follow ICAO 9303-10 and the presentation
// conventions gmrtd documents in its tests):
//
//   - names are "PRIMARY<<SECONDARY" (9303-3 rules): fillers inside an
//     identifier become one space, trailing fillers are dropped;
//   - MRZ fields are "cleaned": trailing fillers dropped, inner fillers -> space;
//   - DG11 place of birth / address / other travel documents and the DG16
//     address are lists of the '<'-separated components;
//   - DG11 profession / title / personal summary / custody: filler -> space
//     (ICAO's own worked example A.5 writes TRAVEL<AGENT);
//   - dates given as packed BCD (4 or 7 octets) are shown as their digits;
//   - everything else is the octets as they stand in the file.
//
// Every field is tagged omitempty so that "absent" and "empty" compare equal
// (gmrtd's JSON cannot tell them apart either).
package ldsview

import (
	"encoding/json"
	"fmt"
	"sort"
)

type Name struct {
	Primary   string `json:"primary,omitempty"`
	Secondary string `json:"secondary,omitempty"`
}

type COM struct {
	LDSVersion     string   `json:"ldsVersion,omitempty"`
	UnicodeVersion string   `json:"unicodeVersion,omitempty"`
	TagList        []uint32 `json:"tagList,omitempty"`
}

type DG1 struct {
	MRZ            string `json:"mrz,omitempty"`
	Layout         string `json:"layout,omitempty"` // TD1 / TD2 / TD3
	DocumentCode   string `json:"documentCode,omitempty"`
	IssuingState   string `json:"issuingState,omitempty"`
	Name           Name   `json:"name"`
	DocumentNumber string `json:"documentNumber,omitempty"`
	Nationality    string `json:"nationality,omitempty"`
	DateOfBirth    string `json:"dateOfBirth,omitempty"`
	Sex            string `json:"sex,omitempty"`
	DateOfExpiry   string `json:"dateOfExpiry,omitempty"`
	OptionalData   string `json:"optionalData,omitempty"`
	OptionalData2  string `json:"optionalData2,omitempty"`
}

// FeaturePoint is one ISO/IEC 19794-5:2005 feature point block (8 octets):
// type(1) code(1: major<<4|minor) X(2) Y(2) reserved(2).
type FeaturePoint struct {
	Type     uint8  `json:"type"`
	Major    uint8  `json:"major"`
	Minor    uint8  `json:"minor"`
	X        uint16 `json:"x"`
	Y        uint16 `json:"y"`
	Reserved uint16 `json:"reserved"`
	Raw      []byte `json:"raw,omitempty"` // the 8 octets as they stand
}

// Face is one facial record of an ISO/IEC 19794-5:2005 record.
type Face struct {
	BlockLength     uint32         `json:"blockLength"`
	Gender          uint8          `json:"gender"`
	EyeColor        uint8          `json:"eyeColor"`
	HairColor       uint8          `json:"hairColor"`
	Properties      []byte         `json:"properties,omitempty"`      // 3 octets
	Expression      []byte         `json:"expression,omitempty"`      // 2 octets
	Pose            []byte         `json:"pose,omitempty"`            // 3 octets
	PoseUncertainty []byte         `json:"poseUncertainty,omitempty"` // 3 octets
	Features        []FeaturePoint `json:"features,omitempty"`
	ImageType       uint8          `json:"imageType"`
	ImageDataType   uint8          `json:"imageDataType"` // 0 JPEG, 1 JPEG 2000
	Width           uint16         `json:"width"`
	Height          uint16         `json:"height"`
	ColorSpace      uint8          `json:"colorSpace"`
	SourceType      uint8          `json:"sourceType"`
	DeviceType      uint16         `json:"deviceType"`
	Quality         uint16         `json:"quality"`
	Image           []byte         `json:"image,omitempty"`
}

type Rec19794 struct {
	FormatID     []byte `json:"formatID,omitempty"`  // "FAC\0"
	VersionID    []byte `json:"versionID,omitempty"` // "010\0"
	RecordLength uint32 `json:"recordLength"`
	Faces        []Face `json:"faces,omitempty"`
}

// DateTime39794: absent components are 0.
type DateTime39794 struct {
	Year, Month, Day, Hour, Minute, Second, Millisecond int
}

// Rec39794 is the part of an ISO/IEC 39794-5 face image data block the check
// looks at.  Blocks whose inner structure is not interpreted are kept as the
// complete TLV (identifier, length, content) as it stands in the file.
type Rec39794 struct {
	Generation       int            `json:"generation"`
	Year             int            `json:"year"`
	RepresentationID int            `json:"representationId"`
	Image            []byte         `json:"image,omitempty"`
	ImageDataFormat  []byte         `json:"imageDataFormat,omitempty"` // TLV [0]
	FaceImageKind    []byte         `json:"faceImageKind,omitempty"`   // TLV [1]
	PostAcquisition  []byte         `json:"postAcquisition,omitempty"` // TLV [2]
	LossyAttempts    []byte         `json:"lossyAttempts,omitempty"`   // TLV [3]
	CameraToSubject  int            `json:"cameraToSubject,omitempty"`
	SensorDiagonal   int            `json:"sensorDiagonal,omitempty"`
	LensFocalLength  int            `json:"lensFocalLength,omitempty"`
	Width            int            `json:"width,omitempty"`
	Height           int            `json:"height,omitempty"`
	FaceMeasurements []byte         `json:"faceMeasurements,omitempty"` // TLV [8]
	ColourSpace      []byte         `json:"colourSpace,omitempty"`      // TLV [9]
	RefColourMapping []byte         `json:"refColourMapping,omitempty"` // TLV [10]
	CaptureDevice2D  []byte         `json:"captureDevice2D,omitempty"`  // TLV [2] of the 2D block
	CaptureDateTime  *DateTime39794 `json:"captureDateTime,omitempty"`
	QualityBlocks    []byte         `json:"qualityBlocks,omitempty"` // TLV [3]
	PADData          []byte         `json:"padData,omitempty"`       // TLV [4]
	SessionID        int            `json:"sessionId,omitempty"`
	DerivedFrom      int            `json:"derivedFrom,omitempty"`
	ModelOrg         int            `json:"modelOrg,omitempty"`
	ModelID          int            `json:"modelId,omitempty"`
	CertOrg          int            `json:"certOrg,omitempty"` // first certification id block
	CertID           int            `json:"certId,omitempty"`
	IdentityMetadata []byte         `json:"identityMetadata,omitempty"` // TLV [8]
	Landmarks        []byte         `json:"landmarks,omitempty"`        // TLV [9]
}

// BIT is one biometric information template (7F60).
type BIT struct {
	HeaderVersion    []byte    `json:"headerVersion,omitempty"`    // 80
	BiometricType    []byte    `json:"biometricType,omitempty"`    // 81
	BiometricSubType []byte    `json:"biometricSubType,omitempty"` // 82
	CreationDateTime []byte    `json:"creationDateTime,omitempty"` // 83
	ValidityPeriod   []byte    `json:"validityPeriod,omitempty"`   // 85
	Creator          []byte    `json:"creator,omitempty"`          // 86
	FormatOwner      []byte    `json:"formatOwner,omitempty"`      // 87
	FormatType       []byte    `json:"formatType,omitempty"`       // 88
	BDBTag           uint32    `json:"bdbTag,omitempty"`           // 0x5F2E or 0x7F2E
	ISO19794         *Rec19794 `json:"iso19794,omitempty"`
	ISO39794         *Rec39794 `json:"iso39794,omitempty"`
}

// Images lists the image payloads of the template in file order.
func (b *BIT) Images() [][]byte {
	var out [][]byte
	if b.ISO19794 != nil {
		for i := range b.ISO19794.Faces {
			out = append(out, b.ISO19794.Faces[i].Image)
		}
	}
	if b.ISO39794 != nil {
		out = append(out, b.ISO39794.Image)
	}
	return out
}

type DG2 struct {
	Templates []BIT `json:"templates,omitempty"`
}

// Images lists every image of every template in file order.
func (d *DG2) Images() [][]byte {
	var out [][]byte
	for i := range d.Templates {
		out = append(out, d.Templates[i].Images()...)
	}
	return out
}

type DG7 struct {
	Images [][]byte `json:"images,omitempty"`
}

type DG11 struct {
	TagList              []uint32 `json:"tagList,omitempty"`
	NameOfHolder         *Name    `json:"nameOfHolder,omitempty"`
	OtherNames           []Name   `json:"otherNames,omitempty"`
	PersonalNumber       string   `json:"personalNumber,omitempty"`
	FullDateOfBirth      string   `json:"fullDateOfBirth,omitempty"`
	PlaceOfBirth         []string `json:"placeOfBirth,omitempty"`
	Address              []string `json:"address,omitempty"`
	Telephone            string   `json:"telephone,omitempty"`
	Profession           string   `json:"profession,omitempty"`
	Title                string   `json:"title,omitempty"`
	PersonalSummary      string   `json:"personalSummary,omitempty"`
	ProofOfCitizenship   []byte   `json:"proofOfCitizenship,omitempty"`
	OtherTravelDocuments []string `json:"otherTravelDocuments,omitempty"`
	CustodyInformation   string   `json:"custodyInformation,omitempty"`
}

type DG12 struct {
	TagList          []uint32 `json:"tagList,omitempty"`
	IssuingAuthority string   `json:"issuingAuthority,omitempty"`
	DateOfIssue      string   `json:"dateOfIssue,omitempty"`
	OtherPersons     []Name   `json:"otherPersons,omitempty"`
	Endorsements     string   `json:"endorsements,omitempty"`
	TaxExit          string   `json:"taxExit,omitempty"`
	ImageFront       []byte   `json:"imageFront,omitempty"`
	ImageRear        []byte   `json:"imageRear,omitempty"`
	PersoDateTime    string   `json:"persoDateTime,omitempty"`
	PersoSerial      string   `json:"persoSerial,omitempty"`
}

type DG13 struct {
	Content []byte `json:"content,omitempty"`
}

// SecurityInfo kinds.
const (
	KindPACE       = "pace"
	KindPACEDomain = "paceDomain"
	KindAA         = "aa"
	KindCA         = "ca"
	KindCAPubKey   = "caPubKey"
	KindTA         = "ta"
	KindEFDIR      = "efDir"
	KindUnknown    = "unknown"
)

// SecurityInfo is one element of a SecurityInfos SET.  Only the fields that
// belong to the kind are set.
type SecurityInfo struct {
	Kind     string `json:"kind"`
	Protocol string `json:"protocol"`          // dotted OID
	Version  int    `json:"version,omitempty"` // pace, aa, ca, ta
	// ParamID: parameterId (pace, paceDomain) or keyId (ca, caPubKey), decimal; "" if absent.
	ParamID string `json:"paramId,omitempty"`
	// SigAlg: aa only, dotted OID.
	SigAlg string `json:"sigAlg,omitempty"`
	// AlgOID / AlgParams / PublicKey: caPubKey (the SubjectPublicKeyInfo) and
	// paceDomain (the AlgorithmIdentifier; no PublicKey).  AlgParams is the
	// complete TLV of the parameters element, nil if absent.
	AlgOID    string `json:"algOid,omitempty"`
	AlgParams []byte `json:"algParams,omitempty"`
	PublicKey []byte `json:"publicKey,omitempty"` // BIT STRING content without the unused-bits octet
	EFDIR     []byte `json:"efDir,omitempty"`
	// Raw is the complete SEQUENCE (set for every kind by generator and
	// decoder; gmrtd's JSON shows it for unknown infos only).
	Raw []byte `json:"raw,omitempty"`
}

type SecurityInfos struct {
	Raw   []byte         `json:"raw,omitempty"` // the complete SET
	Infos []SecurityInfo `json:"infos,omitempty"`
}

// ByKind groups the infos by kind, keeping file order inside a kind (this is
// how gmrtd's view is organised).
func (s *SecurityInfos) ByKind() map[string][]SecurityInfo {
	m := map[string][]SecurityInfo{}
	for _, i := range s.Infos {
		m[i.Kind] = append(m[i.Kind], i)
	}
	return m
}

type DG15 struct {
	SPKI     []byte `json:"spki,omitempty"`    // complete SubjectPublicKeyInfo
	KeyType  string `json:"keyType,omitempty"` // "RSA", "EC"
	AlgOID   string `json:"algOid,omitempty"`
	Modulus  string `json:"modulus,omitempty"`  // RSA: hex, no leading zeros
	Exponent string `json:"exponent,omitempty"` // RSA: decimal
	CurveOID string `json:"curveOid,omitempty"` // EC named curve
	Explicit bool   `json:"explicit,omitempty"` // EC with specified parameters
	Point    []byte `json:"point,omitempty"`    // EC: 04||X||Y
}

type Person struct {
	DateRecorded string   `json:"dateRecorded,omitempty"`
	Name         Name     `json:"name"`
	Telephone    string   `json:"telephone,omitempty"`
	Address      []string `json:"address,omitempty"`
}

type DG16 struct {
	Persons []Person `json:"persons,omitempty"`
}

type DGHash struct {
	DG   int    `json:"dg"`
	Hash []byte `json:"hash,omitempty"`
}

// SOD is the view of EF.SOD: the CMS envelope data the property names plus
// the LDS security object.
type SOD struct {
	CMSVersion       int      `json:"cmsVersion,omitempty"`
	DigestAlgorithms []string `json:"digestAlgorithms,omitempty"` // SignedData.digestAlgorithms
	ContentType      string   `json:"contentType,omitempty"`      // eContentType
	EContent         []byte   `json:"eContent,omitempty"`
	SOVersion        int      `json:"soVersion,omitempty"` // LDSSecurityObject.version
	HashAlg          string   `json:"hashAlg,omitempty"`
	Hashes           []DGHash `json:"hashes,omitempty"`
	LDSVersion       string   `json:"ldsVersion,omitempty"`
	UnicodeVersion   string   `json:"unicodeVersion,omitempty"`
}

// Hash returns the hash listed for a data group, nil if none.
func (s *SOD) Hash(dg int) []byte {
	for _, h := range s.Hashes {
		if h.DG == dg {
			return h.Hash
		}
	}
	return nil
}

type CardSecurity struct {
	CMSVersion       int           `json:"cmsVersion,omitempty"`
	DigestAlgorithms []string      `json:"digestAlgorithms,omitempty"`
	ContentType      string        `json:"contentType,omitempty"`
	Infos            SecurityInfos `json:"infos"`
}

// ---------------------------------------------------------------- comparison

// JSON is the canonical JSON of a view (used as its identity).
func JSON(v any) string {
	b, err := json.Marshal(v)
	if err != nil {
		return "!json:" + err.Error()
	}
	return string(b)
}

// Diff compares two views through their JSON and names the first paths that
// differ ("" if equal).  a is called "want", b "got".
func Diff(want, got any) string {
	ja, jb := JSON(want), JSON(got)
	if ja == jb {
		return ""
	}
	var xa, xb any
	json.Unmarshal([]byte(ja), &xa)
	json.Unmarshal([]byte(jb), &xb)
	var out []string
	diffAny("$", xa, xb, &out)
	if len(out) == 0 {
		return "views differ (no path found)"
	}
	if len(out) > 6 {
		out = append(out[:6], fmt.Sprintf("... %d more", len(out)-6))
	}
	s := ""
	for i, l := range out {
		if i > 0 {
			s += "; "
		}
		s += l
	}
	return s
}

func short(v any) string {
	b, _ := json.Marshal(v)
	if len(b) > 160 {
		return string(b[:150]) + fmt.Sprintf("...(%d)", len(b))
	}
	return string(b)
}

func diffAny(path string, a, b any, out *[]string) {
	switch x := a.(type) {
	case map[string]any:
		y, ok := b.(map[string]any)
		if !ok {
			*out = append(*out, fmt.Sprintf("%s: want %s got %s", path, short(a), short(b)))
			return
		}
		keys := map[string]bool{}
		for k := range x {
			keys[k] = true
		}
		for k := range y {
			keys[k] = true
		}
		ks := make([]string, 0, len(keys))
		for k := range keys {
			ks = append(ks, k)
		}
		sort.Strings(ks)
		for _, k := range ks {
			va, oka := x[k]
			vb, okb := y[k]
			switch {
			case !oka:
				*out = append(*out, fmt.Sprintf("%s.%s: want absent got %s", path, k, short(vb)))
			case !okb:
				*out = append(*out, fmt.Sprintf("%s.%s: want %s got absent", path, k, short(va)))
			default:
				diffAny(path+"."+k, va, vb, out)
			}
		}
	case []any:
		y, ok := b.([]any)
		if !ok {
			*out = append(*out, fmt.Sprintf("%s: want %s got %s", path, short(a), short(b)))
			return
		}
		if len(x) != len(y) {
			*out = append(*out, fmt.Sprintf("%s: want %d elements got %d", path, len(x), len(y)))
		}
		for i := 0; i < len(x) && i < len(y); i++ {
			diffAny(fmt.Sprintf("%s[%d]", path, i), x[i], y[i], out)
		}
	default:
		if short(a) != short(b) || JSON(a) != JSON(b) {
			*out = append(*out, fmt.Sprintf("%s: want %s got %s", path, short(a), short(b)))
		}
	}
}
