package ldsgen

import (
	"fmt"
	"strings"

	"verifharness/ldsgen/ldsview"
	"verifharness/ref/der"
	"verifharness/ref/mrz"
)

// tagListBytes concatenates the identifier octets of the tags.
func tagListBytes(tags []uint32) []byte {
	var out []byte
	for _, t := range tags {
		out = append(out, der.TagBytes(t)...)
	}
	return out
}

// ---------------------------------------------------------------- EF.COM

// DGTags maps data group number to the outer tag (9303-10 table 38).
var DGTags = map[int]uint32{1: 0x61, 2: 0x75, 3: 0x63, 4: 0x76, 5: 0x65, 6: 0x66, 7: 0x67, 8: 0x68,
	9: 0x69, 10: 0x6A, 11: 0x6B, 12: 0x6C, 13: 0x6D, 14: 0x6E, 15: 0x6F, 16: 0x70}

// COMFor builds EF.COM for the given versions and data group numbers.
func COMFor(ldsVersion, unicodeVersion string, dgs []int) *File {
	v := &ldsview.COM{LDSVersion: ldsVersion, UnicodeVersion: unicodeVersion}
	for _, d := range dgs {
		v.TagList = append(v.TagList, DGTags[d])
	}
	body := der.Cat(
		der.TLV(0x5F01, []byte(ldsVersion)),
		der.TLV(0x5F36, []byte(unicodeVersion)),
		der.TLV(0x5C, tagListBytes(v.TagList)),
	)
	return &File{Kind: "COM", Tag: 0x60, Bytes: der.TLV(0x60, body), View: v,
		Class: "COM", Mask: fmt.Sprintf("v%s/u%s/%v", ldsVersion, unicodeVersion, dgs), NonTrivial: len(dgs) > 2}
}

// COM: 60 { 5F01 LDS version (4 digits), 5F36 Unicode version (6 digits), 5C tag list }.
func COM(s Source) *File {
	lds := pick(s, []string{"0107", "0108", "0106", "0105"})
	if chance(s, 1, 8) {
		lds = randString(s, digits, 4)
	}
	uni := pick(s, []string{"040000", "060000", "050200"})
	if chance(s, 1, 8) {
		uni = randString(s, digits, 6)
	}
	dgs := []int{1, 2}
	for d := 3; d <= 16; d++ {
		if chance(s, 1, 3) {
			dgs = append(dgs, d)
		}
	}
	return COMFor(lds, uni, dgs)
}

// ---------------------------------------------------------------- DG1

var issuers = []string{"UTO", "D", "DEU", "FRA", "GBR", "USA", "NLD", "AUT", "CHE", "SGP", "NZL", "JPN", "XXA", "UNO", "EUE", "GBD", "RKS", "ZZZ"}

// MRZFields draws the logical content of an MRZ of the given layout ("" =
// drawn) that mrz.Build accepts.
func MRZFields(s Source, layout string) mrz.Fields {
	if layout == "" {
		layout = pick(s, []string{"TD1", "TD2", "TD3"})
	}
	f := mrz.Fields{Layout: layout}
	switch layout {
	case "TD3":
		f.DocCode = pick(s, []string{"P", "PM", "PD", "PS", "PO", "P"})
	case "TD2":
		f.DocCode = pick(s, []string{"I", "ID", "AC", "V", "VS", "C", "IP"})
	default:
		f.DocCode = pick(s, []string{"I", "ID", "AC", "C", "IR", "CR"})
	}
	f.Issuer = pick(s, issuers)
	f.Nationality = pick(s, issuers)
	// name: fit into the field
	capN := mrz.NameCapacity(layout)
	for {
		prim, sec := nameParts(s, false)
		f.Surname, f.Given = strings.Join(prim, "<"), strings.Join(sec, "<")
		n := len(f.Surname)
		if f.Given != "" {
			n += 2 + len(f.Given)
		}
		if n <= capN {
			break
		}
	}
	// document number
	maxNo := 9
	if chance(s, 1, 4) {
		maxNo = mrz.MaxDocNo(layout)
	}
	n := between(s, 1, maxNo)
	if maxNo > 9 {
		n = between(s, 10, maxNo)
	}
	f.DocNo = randString(s, alnum, n)
	if n <= 9 && n >= 3 && chance(s, 1, 10) { // separator inside a printed number
		b := []byte(f.DocNo)
		b[1+s.Intn(n-2)] = '<'
		f.DocNo = string(b)
	}
	// dates
	dob := date(s, 1900, 2024)[2:]
	switch s.Intn(12) {
	case 0:
		dob = dob[:4] + "<<"
	case 1:
		dob = dob[:2] + "<<<<"
	case 2:
		dob = "<<<<<<"
	}
	f.DOB = dob
	f.Expiry = date(s, 2000, 2099)[2:]
	f.Sex = pick(s, []string{"M", "F", "<", ""})
	// optional data
	c1, c2 := mrz.OptCapacity(layout)
	if len(f.DocNo) > 9 {
		c1 -= len(f.DocNo) - 9 + 2
	}
	opt := func(capacity int) string {
		if capacity <= 0 || chance(s, 1, 3) {
			return ""
		}
		v := randString(s, alnum, between(s, 1, capacity))
		if len(v) >= 3 && chance(s, 1, 5) {
			b := []byte(v)
			b[1+s.Intn(len(v)-2)] = '<'
			v = string(b)
		}
		if len(v) < capacity && chance(s, 1, 6) {
			// right-aligned value: fillers in FRONT (they belong to the field, as blanks)
			v = strings.Repeat("<", between(s, 1, capacity-len(v))) + v
		}
		return v
	}
	f.Opt1 = opt(c1)
	if c2 > 0 {
		f.Opt2 = opt(c2)
	}
	if layout == "TD3" && f.Opt1 == "" && s.Bool() {
		f.OptCheckZeroOrFiller = '0'
	}
	return f
}

func clean(v string) string { return strings.ReplaceAll(strings.TrimRight(v, "<"), "<", " ") }

// DG1For builds DG1 (61 { 5F1F MRZ }) from logical MRZ fields.
func DG1For(f mrz.Fields) (*File, error) {
	m, err := mrz.Build(f)
	if err != nil {
		return nil, err
	}
	v := &ldsview.DG1{
		MRZ: m, Layout: f.Layout, DocumentCode: clean(f.DocCode), IssuingState: clean(f.Issuer),
		Name:           ldsview.Name{Primary: clean(f.Surname), Secondary: clean(f.Given)},
		DocumentNumber: clean(f.DocNo), Nationality: clean(f.Nationality), DateOfBirth: clean(f.DOB),
		Sex: clean(f.Sex), DateOfExpiry: clean(f.Expiry), OptionalData: clean(f.Opt1), OptionalData2: clean(f.Opt2),
	}
	ext := len(f.DocNo) > 9
	return &File{Kind: "DG1", DG: 1, Tag: 0x61, Bytes: der.TLV(0x61, der.TLV(0x5F1F, []byte(m))), View: v,
		Class: "DG1/" + f.Layout,
		Mask: fmt.Sprintf("%s/ext%s/g%s/o%s%s/dob%d/sex%s/n%d", f.Layout, maskBit(ext), maskBit(f.Given != ""),
			maskBit(f.Opt1 != ""), maskBit(f.Opt2 != ""), len(v.DateOfBirth), f.Sex, len(f.DocNo)),
		NonTrivial: ext || f.Given != "" || f.Opt1 != "" || f.Opt2 != ""}, nil
}

// DG1: a valid MRZ of a drawn layout.
func DG1(s Source) *File {
	f, err := DG1For(MRZFields(s, ""))
	if err != nil {
		panic("ldsgen: DG1 generator produced fields mrz.Build refuses: " + err.Error())
	}
	return f
}

// ---------------------------------------------------------------- DG7

// DG7: 67 { 02 01 n, n x 5F43 image }.
func DG7(s Source, o Opts) *File {
	n := between(s, 1, 9)
	v := &ldsview.DG7{}
	body := der.TLV(0x02, []byte{byte(n)})
	fm := ""
	for i := 0; i < n; i++ {
		f := s.Intn(3)
		img := image(s, f, o)
		v.Images = append(v.Images, img)
		body = append(body, der.TLV(0x5F43, img)...)
		fm += fmt.Sprint(f)
	}
	return &File{Kind: "DG7", DG: 7, Tag: 0x67, Bytes: der.TLV(0x67, body), View: v,
		Class: fmt.Sprintf("DG7/n%d", n), Mask: fmt.Sprintf("n%d/%s", n, fm), NonTrivial: n > 1}
}

// ---------------------------------------------------------------- DG11

// freeText draws 1..4 words; the encoded form separates them by a filler or
// by a space (9303-10 A.5 writes TRAVEL<AGENT), the view by a space.
func freeText(s Source) (encoded, view string) {
	w := words(s, between(s, 1, 4), true)
	sep := " "
	if s.Bool() {
		sep = "<"
	}
	return strings.Join(w, sep), strings.Join(w, " ")
}

// components draws 1..4 components of 1..3 space-separated words, joined by
// fillers.  noise adds leading / trailing / doubled fillers (seen on real
// documents, dropped by the view).
func components(s Source, noise bool) (encoded string, view []string) {
	n := between(s, 1, 4)
	for i := 0; i < n; i++ {
		view = append(view, strings.Join(words(s, between(s, 1, 3), true), " "))
	}
	sep := "<"
	encoded = strings.Join(view, sep)
	if noise {
		switch s.Intn(3) {
		case 0:
			encoded = "<" + encoded
		case 1:
			encoded += "<"
		default:
			encoded = strings.Join(view, "<<")
		}
	}
	return
}

func dateField(s Source, yLo, yHi int) (encoded []byte, view string, isBCD bool) {
	view = date(s, yLo, yHi)
	// unknown day, or unknown month and day, are written as 00 (ICAO 9303-10 / 9303-3: "unknown
	// date elements"): still a well-formed 8-digit date field, but not a calendar date
	switch s.Intn(12) {
	case 0:
		view = view[:6] + "00"
	case 1:
		view = view[:4] + "0000"
	}
	if chance(s, 1, 3) {
		return bcd(view), view, true
	}
	return []byte(view), view, false
}

func viewName(prim, sec []string) ldsview.Name {
	return ldsview.Name{Primary: strings.Join(prim, " "), Secondary: strings.Join(sec, " ")}
}

// DG11: 6B { 5C tag list, elements in table order }.  Other names: A0 { 02 01
// n, n x 5F0F } announced in the tag list as 5F0F or as A0, or (non-conformant
// but seen, and documented by gmrtd) n x 5F0F directly under 6B.
func DG11(s Source, o Opts) *File {
	v := &ldsview.DG11{}
	var tags []uint32
	var body []byte
	mask := ""
	variant := ""
	add := func(tag uint32, val []byte) {
		tags = append(tags, tag)
		body = append(body, der.TLV(tag, val)...)
	}
	on := func() bool { b := s.Bool(); mask += maskBit(b); return b }

	if on() { // 5F0E
		p, sc := nameParts(s, true)
		enc := encodeName(p, sc)
		if chance(s, 1, 10) {
			enc += strings.Repeat("<", between(s, 1, 5))
			variant += "+pad"
		}
		n := viewName(p, sc)
		v.NameOfHolder = &n
		add(0x5F0E, []byte(enc))
	}
	if on() { // other names
		style := s.Intn(4) // 0,1: A0 listed as 5F0F; 2: A0 listed as A0; 3: direct 5F0F
		n := between(s, 1, 6)
		var names []byte
		for i := 0; i < n; i++ {
			p, sc := nameParts(s, true)
			v.OtherNames = append(v.OtherNames, viewName(p, sc))
			names = append(names, der.TLV(0x5F0F, []byte(encodeName(p, sc)))...)
		}
		switch style {
		case 3:
			tags = append(tags, 0x5F0F)
			body = append(body, names...)
			variant += "+direct"
		case 2:
			tags = append(tags, 0xA0)
			body = append(body, der.TLV(0xA0, der.Cat(der.TLV(0x02, []byte{byte(n)}), names))...)
			variant += "+A0listed"
		default:
			tags = append(tags, 0x5F0F)
			body = append(body, der.TLV(0xA0, der.Cat(der.TLV(0x02, []byte{byte(n)}), names))...)
		}
		mask += fmt.Sprintf("(n%d,s%d)", n, style)
	}
	if on() { // 5F10
		v.PersonalNumber = randString(s, alnum, between(s, 1, 14))
		add(0x5F10, []byte(v.PersonalNumber))
	}
	if on() { // 5F2B
		enc, view, b := dateField(s, 1900, 2024)
		v.FullDateOfBirth = view
		add(0x5F2B, enc)
		if b {
			variant += "+bcd"
			mask += "b"
		}
	}
	noise := func() bool {
		if chance(s, 1, 12) {
			variant += "+noise"
			return true
		}
		return false
	}
	if on() { // 5F11
		enc, view := components(s, noise())
		v.PlaceOfBirth = view
		add(0x5F11, []byte(enc))
	}
	if on() { // 5F42
		enc, view := components(s, noise())
		v.Address = view
		add(0x5F42, []byte(enc))
	}
	if on() { // 5F12
		v.Telephone = randString(s, digits, between(s, 5, 15))
		add(0x5F12, []byte(v.Telephone))
	}
	text := func(tag uint32, dst *string) {
		if on() {
			enc, view := freeText(s)
			*dst = view
			add(tag, []byte(enc))
		}
	}
	text(0x5F13, &v.Profession)
	text(0x5F14, &v.Title)
	text(0x5F15, &v.PersonalSummary)
	if on() { // 5F16
		v.ProofOfCitizenship = image(s, ImgJPEG, o)
		add(0x5F16, v.ProofOfCitizenship)
	}
	if on() { // 5F17
		n := between(s, 1, 3)
		for i := 0; i < n; i++ {
			v.OtherTravelDocuments = append(v.OtherTravelDocuments, randString(s, alnum, between(s, 5, 9)))
		}
		enc := strings.Join(v.OtherTravelDocuments, "<")
		if noise() {
			enc += "<"
		}
		add(0x5F17, []byte(enc))
	}
	text(0x5F18, &v.CustodyInformation)

	v.TagList = tags
	file := der.TLV(0x6B, der.Cat(der.TLV(0x5C, tagListBytes(tags)), body))
	class := "DG11"
	switch {
	case strings.Contains(variant, "+direct"):
		class = "DG11/direct-other-names"
	case len(v.OtherNames) > 0:
		class = "DG11/nested-other-names"
	}
	return &File{Kind: "DG11", DG: 11, Tag: 0x6B, Bytes: file, View: v, Class: class,
		Mask: mask + variant, NonTrivial: len(tags) > 0}
}

// ---------------------------------------------------------------- DG12

// rawText draws words joined by spaces (or, rarely, fillers); DG12 text is
// shown as it stands.
func rawText(s Source) string {
	w := words(s, between(s, 1, 5), true)
	if chance(s, 1, 6) {
		return strings.Join(w, "<")
	}
	return strings.Join(w, " ")
}

// DG12: 6C { 5C, 5F19, 5F26, A0 { 02 01 n, n x 5F1A } (listed as 5F1A), 5F1B,
// 5F1C, 5F1D, 5F1E, 5F55, 5F56 }.
func DG12(s Source, o Opts) *File {
	v := &ldsview.DG12{}
	var tags []uint32
	var body []byte
	mask := ""
	add := func(tag uint32, val []byte) {
		tags = append(tags, tag)
		body = append(body, der.TLV(tag, val)...)
	}
	on := func() bool { b := s.Bool(); mask += maskBit(b); return b }
	if on() {
		v.IssuingAuthority = rawText(s)
		add(0x5F19, []byte(v.IssuingAuthority))
	}
	if on() {
		enc, view, b := dateField(s, 1990, 2026)
		v.DateOfIssue = view
		add(0x5F26, enc)
		if b {
			mask += "b"
		}
	}
	if on() {
		n := between(s, 1, 5)
		var names []byte
		for i := 0; i < n; i++ {
			p, sc := nameParts(s, true)
			v.OtherPersons = append(v.OtherPersons, viewName(p, sc))
			names = append(names, der.TLV(0x5F1A, []byte(encodeName(p, sc)))...)
		}
		tags = append(tags, 0x5F1A)
		body = append(body, der.TLV(0xA0, der.Cat(der.TLV(0x02, []byte{byte(n)}), names))...)
		mask += fmt.Sprintf("(n%d)", n)
	}
	if on() {
		v.Endorsements = rawText(s)
		add(0x5F1B, []byte(v.Endorsements))
	}
	if on() {
		v.TaxExit = rawText(s)
		add(0x5F1C, []byte(v.TaxExit))
	}
	if on() {
		v.ImageFront = image(s, ImgJPEG, o)
		add(0x5F1D, v.ImageFront)
	}
	if on() {
		v.ImageRear = image(s, ImgJPEG, o)
		add(0x5F1E, v.ImageRear)
	}
	if on() {
		d := date(s, 1990, 2026) + fmt.Sprintf("%02d%02d%02d", s.Intn(24), s.Intn(60), s.Intn(60))
		v.PersoDateTime = d
		if chance(s, 1, 3) {
			add(0x5F55, bcd(d))
			mask += "b"
		} else {
			add(0x5F55, []byte(d))
		}
	}
	if on() {
		v.PersoSerial = randString(s, alnum, between(s, 1, 16))
		add(0x5F56, []byte(v.PersoSerial))
	}
	v.TagList = tags
	file := der.TLV(0x6C, der.Cat(der.TLV(0x5C, tagListBytes(tags)), body))
	class := "DG12"
	if len(v.OtherPersons) > 0 {
		class = "DG12/other-persons"
	}
	return &File{Kind: "DG12", DG: 12, Tag: 0x6C, Bytes: file, View: v, Class: class, Mask: mask, NonTrivial: len(tags) > 0}
}

// ---------------------------------------------------------------- DG13

// DG13: 6D { anything }.  Variants: nested TLV structure, an octet string with
// arbitrary octets, octets below 0x80 that are not TLV at all.
func DG13(s Source) *File {
	var content []byte
	variant := s.Intn(3)
	switch variant {
	case 0:
		n := between(s, 1, 4)
		for i := 0; i < n; i++ {
			inner := der.Cat(der.TLV(0x80, fill(s, s.Intn(20))), der.TLV(0x5F20, []byte(word(s, true))))
			content = append(content, der.TLV(uint32(0xA0+s.Intn(8)), inner)...)
		}
	case 1:
		content = der.OctetString(fill(s, between(s, 1, 300)))
	default:
		content = fill(s, between(s, 1, 200))
		for i := range content {
			content[i] &= 0x7f
		}
	}
	v := &ldsview.DG13{Content: content}
	return &File{Kind: "DG13", DG: 13, Tag: 0x6D, Bytes: der.TLV(0x6D, content), View: v,
		Class: fmt.Sprintf("DG13/v%d", variant), Mask: fmt.Sprintf("v%d/%d", variant, len(content)), NonTrivial: true}
}

// ---------------------------------------------------------------- DG16

// DG16: 70 { 02 01 n, A1 .. An { 5F50 date, 5F51 name, 5F52 telephone, 5F53 address } }.
func DG16(s Source) *File {
	n := between(s, 1, 15)
	if chance(s, 1, 2) {
		n = between(s, 1, 3)
	}
	v := &ldsview.DG16{}
	body := der.TLV(0x02, []byte{byte(n)})
	mask := fmt.Sprintf("n%d/", n)
	for i := 1; i <= n; i++ {
		var p ldsview.Person
		enc, view, b := dateField(s, 1990, 2026)
		p.DateRecorded = view
		mask += maskBit(b)
		pr, sc := nameParts(s, false)
		p.Name = viewName(pr, sc)
		p.Telephone = randString(s, digits, between(s, 5, 15))
		addr, comps := components(s, false)
		p.Address = comps
		v.Persons = append(v.Persons, p)
		body = append(body, der.TLV(uint32(0xA0+i), der.Cat(
			der.TLV(0x5F50, enc), der.TLV(0x5F51, []byte(encodeName(pr, sc))),
			der.TLV(0x5F52, []byte(p.Telephone)), der.TLV(0x5F53, []byte(addr))))...)
	}
	class := "DG16/n1"
	switch {
	case n >= 10:
		class = "DG16/n10-15"
	case n >= 2:
		class = "DG16/n2-9"
	}
	return &File{Kind: "DG16", DG: 16, Tag: 0x70, Bytes: der.TLV(0x70, body), View: v, Class: class, Mask: mask, NonTrivial: n > 1}
}
