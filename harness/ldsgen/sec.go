package ldsgen

import (
	"crypto/sha1"
	"crypto/sha256"
	"crypto/sha512"
	"fmt"
	"math/big"
	"strings"

	"verifharness/lds"
	"verifharness/ldsgen/ldsview"
	"verifharness/ref/der"
	"verifharness/ref/ecc"
)

// Object identifiers (ICAO 9303-11 section 9.2, BSI TR-03110-3 A.1).
const (
	oidBSI        = "0.4.0.127.0.7"
	OidPACE       = oidBSI + ".2.2.4"
	OidCA         = oidBSI + ".2.2.3"
	OidCADH       = OidCA + ".1"
	OidCAECDH     = OidCA + ".2"
	OidPK         = oidBSI + ".2.2.1"
	OidPKDH       = OidPK + ".1"
	OidPKECDH     = OidPK + ".2"
	OidTA         = oidBSI + ".2.2.2"
	OidAA         = "2.23.136.1.1.5"
	OidEFDIRLeg   = "1.3.27.1.1.13"   // the OID gmrtd knows
	OidEFDIRICAO  = "2.23.136.1.1.13" // id-icao-mrtd-security 13
	OidECPublic   = "1.2.840.10045.2.1"
	OidDHPublic   = "1.2.840.10046.2.1"
	OidRSA        = "1.2.840.113549.1.1.1"
	OidSignedData = "1.2.840.113549.1.7.2"
	OidLDSSO      = "2.23.136.1.1.1"
	OidLDSSOLeg   = "1.3.27.1.1.1"
	OidSecObject  = oidBSI + ".3.2.1"
	OidSHA1       = "1.3.14.3.2.26"
	OidSHA256     = "2.16.840.1.101.3.4.2.1"
	OidSHA384     = "2.16.840.1.101.3.4.2.2"
	OidSHA512     = "2.16.840.1.101.3.4.2.3"
	OidSHA224     = "2.16.840.1.101.3.4.2.4"
)

var paceMappings = []string{".1", ".2", ".3", ".4", ".6"} // DH-GM, ECDH-GM, DH-IM, ECDH-IM, ECDH-CAM

var unknownOIDs = []string{
	"1.2.3.4.5", "1.3.6.1.4.1.99999.1.2", "2.23.136.1.1.99", "2.999.1",
	oidBSI + ".2.2.5.2.1", // restricted identification
	oidBSI + ".2.2.6",     // chip identifier
	OidPACE,               // the arc itself is neither PACEInfo nor domain parameter info
	OidCA, OidPK,
	OidPACE + ".5", OidCA + ".3.1", OidPK + ".3",
	"0.4.0.127.0.7.2.2.8", "1.2.840.113549.1.9.16.1.2", "2.5.4.3",
}

func bigFrom(s Source) *big.Int {
	switch s.Intn(6) {
	case 0:
		return new(big.Int).SetBytes(fill(s, between(s, 9, 12))) // beyond 64 bits
	case 1:
		return big.NewInt(int64(between(s, 128, 70000)))
	default:
		return big.NewInt(int64(s.Intn(32)))
	}
}

func optBig(s Source) *big.Int {
	if chance(s, 1, 3) {
		return nil
	}
	return bigFrom(s)
}

func decOrEmpty(v *big.Int) string {
	if v == nil {
		return ""
	}
	return v.String()
}

// ECKey is a drawn EC public key and its SubjectPublicKeyInfo.
type ECKey struct {
	Curve     *ecc.Curve
	Explicit  bool
	SPKI      []byte
	AlgParams []byte // TLV of the AlgorithmIdentifier parameters
	Point     []byte // 04 || X || Y
}

// DrawECKey draws a curve, a (small) scalar and the parameter form.
func DrawECKey(s Source, o Opts) ECKey {
	curves := ecc.Curves()
	c := pick(s, curves)
	maxK := 1 << 24
	if o.SmallKeys {
		maxK = 1 << 10
	}
	k := big.NewInt(int64(1 + s.Intn(maxK)))
	pub := c.ScalarBaseMult(k)
	key := ECKey{Curve: c, Point: c.Encode(pub), Explicit: c.OID == "" || s.Bool()}
	if key.Explicit {
		wc, ws := s.Bool(), s.Bool()
		key.AlgParams = c.ECParameters(wc, ws)
		key.SPKI = c.SPKIExplicit(pub, wc, ws)
	} else {
		key.AlgParams = der.OID(c.OID)
		key.SPKI = c.SPKINamed(pub)
	}
	return key
}

func oddBig(s Source, bits int) *big.Int {
	b := fill(s, (bits+7)/8)
	extra := uint(len(b)*8 - bits) // unused high bits of the first octet
	b[0] &= 0xff >> extra
	b[0] |= 0x80 >> extra
	b[len(b)-1] |= 1
	return new(big.Int).SetBytes(b)
}

// DrawRSAKey draws a structurally valid RSA public key (an odd number of the
// drawn bit length; it is not a product of two primes: no LDS parser factors).
func DrawRSAKey(s Source, o Opts) (n *big.Int, e int, spki []byte) {
	bits := pick(s, []int{1024, 1280, 1536, 2048, 3072, 4096, 1023, 2047})
	if o.SmallKeys {
		bits = pick(s, []int{512, 768, 1024, 1023})
	}
	n = oddBig(s, bits)
	e = pick(s, []int{65537, 3, 17, 65537})
	return n, e, lds.RSASPKI(n, e)
}

func dhSPKI(s Source) (spki, params, pub []byte) {
	p, g, q := oddBig(s, pick(s, []int{256, 512, 1024})), big.NewInt(int64(between(s, 2, 7))), oddBig(s, 160)
	y := oddBig(s, 255)
	params = der.Seq(der.Int(p), der.Int(g), der.Int(q))
	pub = der.Int(y)
	return der.Seq(der.Seq(der.OID(OidDHPublic), params), der.BitString(pub, 0)), params, pub
}

// securityInfo draws one SecurityInfo of the given kind.
func securityInfo(s Source, o Opts, kind string) ldsview.SecurityInfo {
	v := ldsview.SecurityInfo{Kind: kind}
	switch kind {
	case ldsview.KindPACE:
		m := pick(s, paceMappings)
		suite := between(s, 1, 4)
		if m == ".6" {
			suite = between(s, 2, 4)
		}
		v.Protocol = OidPACE + m + "." + fmt.Sprint(suite)
		v.Version = 2
		var id *big.Int
		if !chance(s, 1, 5) {
			id = big.NewInt(int64(pick(s, []int{0, 1, 2, 8, 9, 10, 11, 12, 13, 14, 15, 16, 17, 18})))
		}
		v.ParamID = decOrEmpty(id)
		v.Raw = lds.PACEInfo(v.Protocol, 2, id)
	case ldsview.KindPACEDomain:
		v.Protocol = OidPACE + pick(s, paceMappings)
		id := optBig(s)
		v.ParamID = decOrEmpty(id)
		if strings.HasSuffix(v.Protocol, ".1") || strings.HasSuffix(v.Protocol, ".3") {
			_, params, _ := dhSPKI(s)
			v.AlgOID, v.AlgParams = OidDHPublic, params
		} else {
			v.AlgOID, v.AlgParams = OidECPublic, pick(s, ecc.Curves()).ECParameters(s.Bool(), false)
		}
		parts := [][]byte{der.OID(v.Protocol), der.Seq(der.OID(v.AlgOID), v.AlgParams)}
		if id != nil {
			parts = append(parts, der.Int(id))
		}
		v.Raw = der.Seq(parts...)
	case ldsview.KindAA:
		v.Protocol, v.Version = OidAA, 1
		v.SigAlg = pick(s, []string{lds.OidEcdsaPlainSHA1, lds.OidEcdsaPlainSHA224, lds.OidEcdsaPlainSHA256, lds.OidEcdsaPlainSHA384, lds.OidEcdsaPlainSHA512})
		v.Raw = lds.ActiveAuthInfo(v.SigAlg)
	case ldsview.KindCA:
		v.Protocol = pick(s, []string{OidCADH, OidCAECDH}) + "." + fmt.Sprint(between(s, 1, 4))
		v.Version = pick(s, []int{1, 1, 1, 2})
		id := optBig(s)
		v.ParamID = decOrEmpty(id)
		v.Raw = lds.ChipAuthInfo(v.Protocol, v.Version, id)
	case ldsview.KindCAPubKey:
		id := optBig(s)
		v.ParamID = decOrEmpty(id)
		var spki []byte
		if chance(s, 1, 5) {
			v.Protocol = OidPKDH
			spki, v.AlgParams, v.PublicKey = dhSPKI(s)
			v.AlgOID = OidDHPublic
		} else {
			v.Protocol = OidPKECDH
			k := DrawECKey(s, o)
			spki, v.AlgOID, v.AlgParams, v.PublicKey = k.SPKI, OidECPublic, k.AlgParams, k.Point
		}
		v.Raw = lds.ChipAuthPubKeyInfo(v.Protocol, spki, id)
	case ldsview.KindTA:
		v.Protocol, v.Version = OidTA, pick(s, []int{1, 1, 2})
		parts := [][]byte{der.OID(OidTA), der.IntFromInt64(int64(v.Version))}
		if chance(s, 1, 3) { // efCVCA FileID (TR-03110 v1.11)
			fid := [][]byte{der.OctetString([]byte{0x01, 0x1C})}
			if s.Bool() {
				fid = append(fid, der.OctetString([]byte{0x1C}))
			}
			parts = append(parts, der.Seq(fid...))
		}
		v.Raw = der.Seq(parts...)
	case ldsview.KindEFDIR:
		v.Protocol = OidEFDIRLeg
		if o.ICAOEFDIR {
			v.Protocol = OidEFDIRICAO
		}
		n := between(s, 1, 4)
		for i := 0; i < n; i++ {
			aid := append([]byte{0xA0, 0x00, 0x00, 0x02, 0x47}, byte(0x10+0x10*s.Intn(2)), byte(1+s.Intn(3)))
			v.EFDIR = append(v.EFDIR, der.TLV(0x61, der.TLV(0x4F, aid))...)
		}
		v.Raw = der.Seq(der.OID(v.Protocol), der.OctetString(v.EFDIR))
	default:
		v.Kind = ldsview.KindUnknown
		v.Protocol = pick(s, unknownOIDs)
		if chance(s, 1, 3) {
			v.Protocol = fmt.Sprintf("1.3.6.1.4.1.%d.%d", s.Intn(1<<20), s.Intn(1<<30))
		}
		var payload []byte
		switch s.Intn(3) {
		case 0:
			payload = der.OctetString(fill(s, s.Intn(40)))
		case 1:
			payload = der.Cat(der.IntFromInt64(int64(s.Intn(4))), der.Seq(der.OID("1.2.3"), der.Null()))
		case 2:
			payload = der.Cat(der.IntFromInt64(1), der.UTF8(word(s, true)), der.Bool(s.Bool()))
		}
		v.Raw = der.Seq(der.OID(v.Protocol), payload)
	}
	return v
}

var secKinds = []string{ldsview.KindPACE, ldsview.KindPACEDomain, ldsview.KindAA, ldsview.KindCA, ldsview.KindCAPubKey,
	ldsview.KindTA, ldsview.KindEFDIR, ldsview.KindUnknown}

// SecurityInfosSet draws a SET OF SecurityInfo (1..8 elements of any kind, in
// drawn order: DER sorting of SET OF is not required of LDS files in practice
// and no reader depends on it).
func SecurityInfosSet(s Source, o Opts) (*ldsview.SecurityInfos, string) {
	n := between(s, 1, 8)
	v := &ldsview.SecurityInfos{}
	var parts [][]byte
	count := map[string]int{}
	for i := 0; i < n; i++ {
		k := pick(s, secKinds)
		info := securityInfo(s, o, k)
		v.Infos = append(v.Infos, info)
		parts = append(parts, info.Raw)
		count[info.Kind]++
	}
	v.Raw = lds.SecurityInfos(parts...)
	mask := fmt.Sprintf("n%d", n)
	for _, k := range secKinds {
		mask += fmt.Sprintf("/%d", count[k])
	}
	return v, mask
}

// SecurityInfosOf assembles a view from given infos (Raw must be set on each).
func SecurityInfosOf(infos ...ldsview.SecurityInfo) *ldsview.SecurityInfos {
	v := &ldsview.SecurityInfos{Infos: infos}
	var parts [][]byte
	for _, i := range infos {
		parts = append(parts, i.Raw)
	}
	v.Raw = lds.SecurityInfos(parts...)
	return v
}

// DG14: 6E { SecurityInfos }.
func DG14(s Source, o Opts) *File {
	v, mask := SecurityInfosSet(s, o)
	return DG14For(v, mask)
}

// DG14For wraps given SecurityInfos.
func DG14For(v *ldsview.SecurityInfos, mask string) *File {
	return &File{Kind: "DG14", DG: 14, Tag: 0x6E, Bytes: der.TLV(0x6E, v.Raw), View: v, Class: "DG14", Mask: mask, NonTrivial: len(v.Infos) > 1}
}

// CardAccess: the SecurityInfos SET itself.
func CardAccess(s Source, o Opts) *File {
	v, mask := SecurityInfosSet(s, o)
	return &File{Kind: "CardAccess", Tag: 0x31, Bytes: append([]byte{}, v.Raw...), View: v, Class: "CardAccess", Mask: mask, NonTrivial: len(v.Infos) > 1}
}

// DG15: 6F { SubjectPublicKeyInfo } (RSA or EC, named or explicit parameters).
func DG15(s Source, o Opts) *File {
	v := &ldsview.DG15{}
	if s.Bool() {
		n, e, spki := DrawRSAKey(s, o)
		v.SPKI, v.KeyType, v.AlgOID = spki, "RSA", OidRSA
		v.Modulus, v.Exponent = fmt.Sprintf("%x", n), fmt.Sprint(e)
		return DG15For(v, fmt.Sprintf("RSA/%d/e%d", n.BitLen(), e))
	}
	k := DrawECKey(s, o)
	v.SPKI, v.KeyType, v.AlgOID, v.Point, v.Explicit = k.SPKI, "EC", OidECPublic, k.Point, k.Explicit
	if !k.Explicit {
		v.CurveOID = k.Curve.OID
	}
	return DG15For(v, fmt.Sprintf("EC/%s/x%s", k.Curve.Name, maskBit(k.Explicit)))
}

// DG15For wraps a given key view (SPKI must be set).
func DG15For(v *ldsview.DG15, mask string) *File {
	return &File{Kind: "DG15", DG: 15, Tag: 0x6F, Bytes: lds.DG15(v.SPKI), View: v, Class: "DG15/" + v.KeyType, Mask: mask, NonTrivial: true}
}

// ---------------------------------------------------------------- EF.SOD / EF.CardSecurity

// Digest computes the digest named by a hash algorithm OID (nil if unknown).
func Digest(hashOID string, data []byte) []byte {
	switch hashOID {
	case OidSHA1:
		h := sha1.Sum(data)
		return h[:]
	case OidSHA224:
		h := sha256.Sum224(data)
		return h[:]
	case OidSHA256:
		h := sha256.Sum256(data)
		return h[:]
	case OidSHA384:
		h := sha512.Sum384(data)
		return h[:]
	case OidSHA512:
		h := sha512.Sum512(data)
		return h[:]
	}
	return nil
}

// SODSpec is the logical content of the LDS security object.
type SODSpec struct {
	Version        int    // 0, or 1 (then LDSVersion / UnicodeVersion are written)
	HashAlg        string // dotted OID
	HashParamsNULL bool   // write NULL parameters after the hash OID
	Hashes         []ldsview.DGHash
	LDSVersion     string
	UnicodeVersion string
	ContentType    string // eContentType of the CMS object
}

// DrawSODSpec draws a specification.  files (data group number -> file bytes)
// may be nil: then a subset of data groups with random digests is listed;
// otherwise exactly the given files with their true digests.
func DrawSODSpec(s Source, files map[int][]byte) SODSpec {
	sp := SODSpec{HashAlg: pick(s, []string{OidSHA1, OidSHA224, OidSHA256, OidSHA256, OidSHA384, OidSHA512}),
		HashParamsNULL: s.Bool(), ContentType: OidLDSSO}
	if chance(s, 1, 10) {
		sp.ContentType = OidLDSSOLeg
	}
	if s.Bool() {
		sp.Version = 1
		sp.LDSVersion = pick(s, []string{"0107", "0108"})
		sp.UnicodeVersion = pick(s, []string{"040000", "060000"})
	}
	size := len(Digest(sp.HashAlg, nil))
	for dg := 1; dg <= 16; dg++ {
		if files != nil {
			if f, ok := files[dg]; ok {
				sp.Hashes = append(sp.Hashes, ldsview.DGHash{DG: dg, Hash: Digest(sp.HashAlg, f)})
			}
			continue
		}
		if dg <= 2 || chance(s, 1, 3) {
			sp.Hashes = append(sp.Hashes, ldsview.DGHash{DG: dg, Hash: fill(s, size)})
		}
	}
	// DataGroupHashValues is a SEQUENCE OF: nothing obliges an issuer to list the data groups in
	// ascending order (reversed, rotated and shuffled lists are all well-formed)
	if n := len(sp.Hashes); n > 1 {
		switch s.Intn(6) {
		case 0:
			for i, j := 0, n-1; i < j; i, j = i+1, j-1 {
				sp.Hashes[i], sp.Hashes[j] = sp.Hashes[j], sp.Hashes[i]
			}
		case 1:
			k := 1 + s.Intn(n-1)
			sp.Hashes = append(append([]ldsview.DGHash{}, sp.Hashes[k:]...), sp.Hashes[:k]...)
		case 2:
			for i := n - 1; i > 0; i-- {
				j := s.Intn(i + 1)
				sp.Hashes[i], sp.Hashes[j] = sp.Hashes[j], sp.Hashes[i]
			}
		}
	}
	return sp
}

// LDSSecurityObject encodes the specification (9303-10 4.6.2.3):
// SEQUENCE { version, hashAlgorithm, SEQUENCE OF { number, hash } [, ldsVersionInfo] }.
func LDSSecurityObject(sp SODSpec) []byte {
	alg := [][]byte{der.OID(sp.HashAlg)}
	if sp.HashParamsNULL {
		alg = append(alg, der.Null())
	}
	var hashes [][]byte
	for _, h := range sp.Hashes {
		hashes = append(hashes, der.Seq(der.IntFromInt64(int64(h.DG)), der.OctetString(h.Hash)))
	}
	parts := [][]byte{der.IntFromInt64(int64(sp.Version)), der.Seq(alg...), der.Seq(hashes...)}
	if sp.Version == 1 {
		parts = append(parts, der.Seq(der.Printable(sp.LDSVersion), der.Printable(sp.UnicodeVersion)))
	}
	return der.Seq(parts...)
}

// Signer produces the parts of a CMS SignedData that depend on keys: the
// certificates ([0] content, concatenated certificate TLVs, may be empty) and
// the complete SignerInfo SEQUENCE.  digestAlg is the dotted OID written into
// SignedData.digestAlgorithms.
type Signer interface {
	Sign(eContentType string, eContent []byte) (digestAlg string, certificates []byte, signerInfo []byte, err error)
}

// DummySigner writes a structurally complete SignedData whose certificate and
// signature are placeholders: enough for every parser that does not verify.
type DummySigner struct {
	DigestAlg string // default SHA-256
	Sig       []byte
}

func (d DummySigner) Sign(eContentType string, eContent []byte) (string, []byte, []byte, error) {
	alg := d.DigestAlg
	if alg == "" {
		alg = OidSHA256
	}
	sig := d.Sig
	if sig == nil {
		sig = []byte{0xde, 0xad, 0xbe, 0xef}
	}
	name := der.Seq(der.Set(der.Seq(der.OID("2.5.4.6"), der.Printable("UT"))))
	tbs := der.Seq(der.Explicit(0, der.IntFromInt64(2)), der.IntFromInt64(1), der.Seq(der.OID("1.2.840.113549.1.1.11"), der.Null()), name)
	cert := der.Seq(tbs, der.Seq(der.OID("1.2.840.113549.1.1.11"), der.Null()), der.BitString([]byte{0}, 0))
	attrs := der.Cat(
		der.Seq(der.OID("1.2.840.113549.1.9.3"), der.Set(der.OID(eContentType))),
		der.Seq(der.OID("1.2.840.113549.1.9.4"), der.Set(der.OctetString(Digest(alg, eContent)))))
	si := der.Seq(der.IntFromInt64(1), der.Seq(name, der.IntFromInt64(1)), der.Seq(der.OID(alg), der.Null()),
		der.Implicit(0, true, attrs), der.Seq(der.OID("1.2.840.113549.1.1.11"), der.Null()), der.OctetString(sig))
	return alg, cert, si, nil
}

// SignedData wraps eContent into ContentInfo { signedData, SignedData v3 }.
func SignedData(eContentType string, eContent []byte, signer Signer) (cms []byte, digestAlg string, err error) {
	if signer == nil {
		signer = DummySigner{}
	}
	alg, certs, si, err := signer.Sign(eContentType, eContent)
	if err != nil {
		return nil, "", err
	}
	parts := [][]byte{der.IntFromInt64(3), der.Set(der.Seq(der.OID(alg), der.Null())),
		der.Seq(der.OID(eContentType), der.Explicit(0, der.OctetString(eContent)))}
	if len(certs) > 0 {
		parts = append(parts, der.Implicit(0, true, certs))
	}
	parts = append(parts, der.Set(si))
	return der.Seq(der.OID(OidSignedData), der.Explicit(0, der.Seq(parts...))), alg, nil
}

// SODFor builds EF.SOD (77 { ContentInfo }) for a specification.  signer nil
// = DummySigner with the digest algorithm of the specification.
func SODFor(sp SODSpec, signer Signer) (*File, error) {
	if signer == nil {
		signer = DummySigner{DigestAlg: sp.HashAlg}
	}
	ec := LDSSecurityObject(sp)
	cms, alg, err := SignedData(sp.ContentType, ec, signer)
	if err != nil {
		return nil, err
	}
	v := &ldsview.SOD{CMSVersion: 3, DigestAlgorithms: []string{alg}, ContentType: sp.ContentType, EContent: ec,
		SOVersion: sp.Version, HashAlg: sp.HashAlg, Hashes: sp.Hashes, LDSVersion: sp.LDSVersion, UnicodeVersion: sp.UnicodeVersion}
	return &File{Kind: "SOD", Tag: 0x77, Bytes: der.TLV(0x77, cms), View: v, Class: fmt.Sprintf("SOD/v%d", sp.Version),
		Mask: fmt.Sprintf("v%d/%s/n%d/null%s/%s", sp.Version, sp.HashAlg, len(sp.Hashes), maskBit(sp.HashParamsNULL), sp.ContentType), NonTrivial: true}, nil
}

// SOD draws a specification and wraps it with the dummy signer.
func SOD(s Source, files map[int][]byte) *File {
	sp := DrawSODSpec(s, files)
	f, err := SODFor(sp, DummySigner{DigestAlg: sp.HashAlg, Sig: fill(s, between(s, 8, 64))})
	if err != nil {
		panic(err)
	}
	return f
}

// ExternalSOD pairs SOD bytes built elsewhere (an issuer with real keys) with
// their expected view, so that they run through the same checks.
func ExternalSOD(b []byte, v *ldsview.SOD) *File {
	return &File{Kind: "SOD", Tag: 0x77, Bytes: b, View: v, Class: "SOD/external", Mask: "external", NonTrivial: true}
}

// CardSecurityFor builds EF.CardSecurity: ContentInfo { signedData } whose
// eContent (type id-SecurityObject) is the SecurityInfos SET.
func CardSecurityFor(infos *ldsview.SecurityInfos, signer Signer, mask string) (*File, error) {
	cms, alg, err := SignedData(OidSecObject, infos.Raw, signer)
	if err != nil {
		return nil, err
	}
	v := &ldsview.CardSecurity{CMSVersion: 3, DigestAlgorithms: []string{alg}, ContentType: OidSecObject, Infos: *infos}
	return &File{Kind: "CardSecurity", Tag: 0x30, Bytes: cms, View: v, Class: "CardSecurity", Mask: mask, NonTrivial: len(infos.Infos) > 1}, nil
}

// CardSecurity draws SecurityInfos and wraps them with the dummy signer.
func CardSecurity(s Source, o Opts) *File {
	infos, mask := SecurityInfosSet(s, o)
	f, err := CardSecurityFor(infos, DummySigner{DigestAlg: pick(s, []string{OidSHA256, OidSHA384, OidSHA512}), Sig: fill(s, 16)}, mask)
	if err != nil {
		panic(err)
	}
	return f
}
