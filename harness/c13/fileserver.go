// Package c13 holds the C13 check ("file reads are exact") and, in this
// non-test file, a small reusable elementary-file server: the part of an
// ISO/IEC 7816-4 card that answers SELECT (by file identifier) and READ BINARY
// (even INS), optionally under ICAO 9303-11 secure messaging.  It imports only
// the harness reference packages (no gmrtd), and its Transceive method has the
// signature of gmrtd's iso7816.Transceiver, so a *FileServer can be handed to
// iso7816.NewNfcSession directly.
package c13

import (
	"fmt"

	"verifharness/ref/apdu"
	"verifharness/ref/sm"
)

// ChunkPolicy says how many bytes a READ BINARY returns when Ne bytes were
// requested and `avail` bytes remain in the file (n = min(Ne, avail)).
type ChunkPolicy int

const (
	ChunkExact    ChunkPolicy = iota // n
	ChunkFixedCap                    // min(n, Cap)
	ChunkOneShort                    // one byte fewer than requested: min(avail, Ne-1), at least 1
	ChunkRandom                      // Rand(n), a value in 1..n chosen per read
)

func (p ChunkPolicy) String() string {
	return [...]string{"exact", "fixed-cap", "one-short", "random"}[p]
}

// File is one elementary file.
type File struct {
	FID     uint16
	SFI     byte // short EF identifier 1..30, 0 = none
	Content []byte
}

// Event is one command as the card saw it.
type Event struct {
	Kind     string // "select", "read", "other", "malformed", "sm-error"
	Raw      []byte // bytes received (protected form when under SM)
	Plain    *apdu.Command
	FID      uint16 // select: requested file; read: file the bytes came from (0 = none)
	SFIAddr  bool   // read: P1 b8 = 1 (short-EF-identifier addressing)
	Offset   int    // read: offset used
	Ne       int    // read: requested length (0 = absent)
	Returned int    // read: bytes returned
	SW       uint16
	Note     string
}

// FileServer is the card.  Zero values give a plain, exact, unlimited card.
type FileServer struct {
	Files []*File

	// SelectSW overrides the status of SELECT for a file identifier.  A status
	// of 9000 or 62xx/63xx (warning) still selects the file if it exists.
	SelectSW map[uint16]uint16

	Policy ChunkPolicy
	Cap    int             // ChunkFixedCap
	Rand   func(n int) int // ChunkRandom: must return a value in 1..n

	// FullBelow > 0: requests of at most FullBelow bytes are always served in
	// full (as far as the file reaches); the chunk policy applies to larger
	// requests only.
	FullBelow int

	// LeReject > 0: READ BINARY with Ne above it is refused with 6700 (the
	// behaviour the library's fallback ladder exists for).
	LeReject int

	// EOFWarning: answer 6282 instead of 9000 when fewer than Ne bytes are
	// returned because the end of the file was reached.
	EOFWarning bool

	// SM, when non-nil, makes the card require secure messaging.  A command
	// that does not authenticate (or is sent in the clear) ends the session:
	// 6988 / 6982 in the clear, and every later command gets 6982.
	SM *sm.Session
	// SMFit: limit the plaintext of a READ BINARY so that the protected
	// response fits the response length of the protected command's form (256
	// bytes for a short APDU, 65536 for an extended one).
	SMFit bool

	current   *File
	smDropped bool
	Log       []Event
}

// Current returns the currently selected file (nil if none).
func (s *FileServer) Current() *File { return s.current }

// Transceive has the signature of gmrtd's iso7816.Transceiver; only the
// encoded bytes are looked at.
func (s *FileServer) Transceive(cla, ins, p1, p2 int, data []byte, le int, encoded []byte) []byte {
	return s.Process(encoded)
}

func swBytes(sw uint16) []byte { return []byte{byte(sw >> 8), byte(sw)} }

// Process takes a raw command APDU and returns the raw response APDU.
func (s *FileServer) Process(raw []byte) []byte {
	raw = append([]byte{}, raw...)
	if s.SM != nil || s.smDropped {
		if s.smDropped {
			s.Log = append(s.Log, Event{Kind: "sm-error", Raw: raw, SW: 0x6982, Note: "session already terminated"})
			return swBytes(0x6982)
		}
		if len(raw) >= 1 && raw[0] != 0x0C {
			s.SM, s.smDropped = nil, true
			s.Log = append(s.Log, Event{Kind: "sm-error", Raw: raw, SW: 0x6982, Note: "unprotected command during a secure-messaging session"})
			return swBytes(0x6982)
		}
		u, err := s.SM.UnwrapCommand(raw)
		if err != nil {
			s.SM, s.smDropped = nil, true
			s.Log = append(s.Log, Event{Kind: "sm-error", Raw: raw, SW: 0x6988, Note: err.Error()})
			return swBytes(0x6988)
		}
		plain := &apdu.Command{CLA: 0x00, INS: u.INS, P1: u.P1, P2: u.P2, Data: u.Data, Ne: u.Ne, Extended: len(u.Data) > 255 || u.Ne > 256}
		limit := 0
		if s.SMFit {
			limit = 256
			if u.Extended {
				limit = 65536
			}
		}
		data, sw := s.handle(plain, raw, limit)
		return s.SM.WrapResponse(data, sw, u.INS&1 == 1)
	}
	c, err := apdu.Parse(raw)
	if err != nil {
		s.Log = append(s.Log, Event{Kind: "malformed", Raw: raw, SW: 0x6700, Note: err.Error()})
		return swBytes(0x6700)
	}
	if c.CLA != 0x00 {
		s.Log = append(s.Log, Event{Kind: "other", Raw: raw, Plain: c, SW: 0x6E00})
		return swBytes(0x6E00)
	}
	data, sw := s.handle(c, raw, 0)
	return append(data, swBytes(sw)...)
}

func (s *FileServer) find(fid uint16) *File {
	for _, f := range s.Files {
		if f.FID == fid {
			return f
		}
	}
	return nil
}

func (s *FileServer) findSFI(sfi byte) *File {
	for _, f := range s.Files {
		if f.SFI == sfi && sfi != 0 {
			return f
		}
	}
	return nil
}

// maxPlainFor is the largest plaintext length whose protected response
// (DO87 + DO99 + DO8E) does not exceed limit bytes.
func (s *FileServer) maxPlainFor(limit int) int {
	bs := s.SM.Cipher.BlockLen()
	best := 0
	for padded := bs; ; padded += bs {
		v := 1 + padded
		total := 1 + len(sm.BERLen(v)) + v + 4 + 10
		if total > limit {
			break
		}
		best = padded - 1
	}
	return best
}

func (s *FileServer) handle(c *apdu.Command, raw []byte, smLimit int) ([]byte, uint16) {
	switch c.INS {
	case 0xA4:
		return nil, s.doSelect(c, raw)
	case 0xB0:
		return s.doRead(c, raw, smLimit)
	}
	s.Log = append(s.Log, Event{Kind: "other", Raw: raw, Plain: c, SW: 0x6D00})
	return nil, 0x6D00
}

func (s *FileServer) doSelect(c *apdu.Command, raw []byte) uint16 {
	ev := Event{Kind: "select", Raw: raw, Plain: c}
	done := func(sw uint16, note string) uint16 {
		ev.SW, ev.Note = sw, note
		s.Log = append(s.Log, ev)
		return sw
	}
	if c.P1 != 0x02 || c.P2 != 0x0C {
		return done(0x6A86, "only SELECT EF under the current DF without response data (P1-P2 = 020C) is served")
	}
	if len(c.Data) != 2 {
		return done(0x6700, "file identifier must be two bytes")
	}
	fid := uint16(c.Data[0])<<8 | uint16(c.Data[1])
	ev.FID = fid
	f := s.find(fid)
	if sw, ok := s.SelectSW[fid]; ok {
		if f != nil && (sw == 0x9000 || sw>>8 == 0x62 || sw>>8 == 0x63) {
			s.current = f
		}
		return done(sw, "configured status")
	}
	if f == nil {
		return done(0x6A82, "")
	}
	s.current = f
	return done(0x9000, "")
}

func (s *FileServer) doRead(c *apdu.Command, raw []byte, smLimit int) ([]byte, uint16) {
	ev := Event{Kind: "read", Raw: raw, Plain: c, Ne: c.Ne}
	done := func(data []byte, sw uint16, note string) ([]byte, uint16) {
		ev.SW, ev.Note, ev.Returned = sw, note, len(data)
		s.Log = append(s.Log, ev)
		return data, sw
	}
	if len(c.Data) != 0 {
		return done(nil, 0x6700, "READ BINARY (even INS) carries no command data")
	}
	if c.Ne == 0 {
		return done(nil, 0x6700, "READ BINARY without Le")
	}
	f := s.current
	if c.P1&0x80 != 0 {
		// ISO/IEC 7816-4: b8 of P1 = 1 -> b7 b6 = 00, b5..b1 = short EF identifier, P2 = offset 0..255
		ev.SFIAddr = true
		if c.P1&0x60 != 0 {
			return done(nil, 0x6A86, "P1 b8=1 with b7/b6 set")
		}
		sfi := c.P1 & 0x1F
		switch {
		case sfi == 0x1F:
			return done(nil, 0x6A86, "short EF identifier 31")
		case sfi != 0:
			f = s.findSFI(sfi)
			if f == nil {
				return done(nil, 0x6A82, fmt.Sprintf("no file with short EF identifier %d", sfi))
			}
			s.current = f // addressing by short identifier selects the file
		}
		ev.Offset = int(c.P2)
	} else {
		ev.Offset = int(c.P1)<<8 | int(c.P2)
	}
	if f == nil {
		return done(nil, 0x6986, "no current EF")
	}
	ev.FID = f.FID
	if s.LeReject > 0 && c.Ne > s.LeReject {
		return done(nil, 0x6700, fmt.Sprintf("Le %d above the card's limit %d", c.Ne, s.LeReject))
	}
	if ev.Offset >= len(f.Content) {
		return done(nil, 0x6B00, "offset outside the EF")
	}
	avail := len(f.Content) - ev.Offset
	n := min(c.Ne, avail)
	policy := s.Policy
	if c.Ne <= s.FullBelow {
		policy = ChunkExact
	}
	switch policy {
	case ChunkFixedCap:
		if s.Cap > 0 {
			n = min(n, s.Cap)
		}
	case ChunkOneShort:
		n = max(1, min(avail, c.Ne-1))
	case ChunkRandom:
		if s.Rand != nil {
			k := s.Rand(n)
			if k < 1 || k > n {
				panic(fmt.Sprintf("fileserver: Rand(%d) returned %d", n, k))
			}
			n = k
		}
	}
	if smLimit > 0 {
		n = max(1, min(n, s.maxPlainFor(smLimit)))
	}
	sw := uint16(0x9000)
	if s.EOFWarning && n < c.Ne && ev.Offset+n == len(f.Content) {
		sw = 0x6282
	}
	return done(append([]byte{}, f.Content[ev.Offset:ev.Offset+n]...), sw, "")
}
