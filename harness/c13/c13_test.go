// C13 — File reads return exactly the stored file or an error.
//
// Domain: a card (FileServer in fileserver.go, built on ref/apdu + ref/sm)
// holding the target file = header (1-2 tag octets; 1, 2 (81), 3 (82) or 4
// (83) length octets, minimal or not) + content, total 2..65539 bytes with
// mass on 2,3,4,5,127/128,255/256,32767/32768,33023/33024,65535 and chunk
// multiples +-1, plus other files with different content and short EF
// identifiers; chunking policies (exact, fixed cap, one byte short, random per
// read), Le limits that refuse larger reads, SELECT answered 9000 / 6A82 /
// 6283 / other; maxLe 1..65536; plain or under secure messaging.
//
// Oracle (DESIGN.md §4 C13): ReadFile returns the exact file bytes or an
// error; (nil, nil) only if the card answered 6A82 / 6283 to SELECT; at most
// 1000 data reads; the READ BINARY commands seen by the card are parseable,
// address by offset (P1 b8 = 0), have gap-free increasing offsets (a refused
// read may be retried at the same offset with an Le that is not larger) and Le <=
// min(maxLe, remaining); metamorphic: the same file under two chunkings never
// yields two different byte strings.
package c13

import (
	"bytes"
	"encoding/hex"
	"encoding/json"
	"fmt"
	"log/slog"
	"os"
	"testing"

	"github.com/gmrtd/gmrtd/cryptoutils"
	"github.com/gmrtd/gmrtd/iso7816"
	"pgregory.net/rapid"

	"verifharness/evid"
	"verifharness/ref/mac"
	"verifharness/ref/sm"
)

const prop = "C13"

const (
	f3 = "F3-four-byte-file-not-found"
	f4 = "F4-offset-32768-sfi"
	k1 = "K1-case2E-le" // finding of C17 that this domain touches (plain reads with Le > 256)
)

const maxChunks = 1000 // iso7816.READ_FILE_MAX_CHUNKS

func TestMain(m *testing.M) {
	slog.SetDefault(slog.New(slog.DiscardHandler))
	evid.Main(m, prop)
}

func TestAASelfTest(t *testing.T) {
	if err := sm.SelfTest(); err != nil {
		evid.Infra(t, "reference self-test failed: %v", err)
	}
	if iso7816.READ_FILE_MAX_CHUNKS != maxChunks {
		evid.Infra(t, "READ_FILE_MAX_CHUNKS is %d, the harness assumes %d", iso7816.READ_FILE_MAX_CHUNKS, maxChunks)
	}
}

// ---------------------------------------------------------------- case description

type fileSpec struct {
	FID        uint16 `json:"fid"`
	SFI        byte   `json:"sfi"`
	Tag        string `json:"tag"`         // hex, 1-2 octets
	LenOctets  int    `json:"len_octets"`  // 1..4 octets used for the length field
	ContentLen int    `json:"content_len"` // value length
	Seed       uint32 `json:"seed"`        // content = lcg(seed)
}

type chipSpec struct {
	Policy     int    `json:"policy"`
	Cap        int    `json:"cap"`
	RandSeed   uint32 `json:"rand_seed"`
	LeReject   int    `json:"le_reject"`
	EOFWarning bool   `json:"eof_warning"`
	SMFit      bool   `json:"sm_fit"`
	FullBelow  int    `json:"full_below"`
	MaxLe      int    `json:"max_le"`
}

type rcase struct {
	Target   fileSpec   `json:"target"`
	Others   []fileSpec `json:"others"`
	SelectSW uint16     `json:"select_sw"` // 0 = default behaviour
	Chip     chipSpec   `json:"chip"`
	Alg      string     `json:"alg"` // "" = plain
	KEnc     string     `json:"kenc,omitempty"`
	KMac     string     `json:"kmac,omitempty"`
	SSC      string     `json:"ssc,omitempty"`
}

func lcg(seed uint32, n int) []byte {
	out := make([]byte, n)
	x := seed | 1
	for i := range out {
		x = x*1664525 + 1013904223
		out[i] = byte(x >> 24)
	}
	return out
}

func (f fileSpec) bytes() []byte {
	tag, _ := hex.DecodeString(f.Tag)
	out := append([]byte{}, tag...)
	n := f.ContentLen
	switch f.LenOctets {
	case 1:
		out = append(out, byte(n))
	case 2:
		out = append(out, 0x81, byte(n))
	case 3:
		out = append(out, 0x82, byte(n>>8), byte(n))
	case 4:
		out = append(out, 0x83, byte(n>>16), byte(n>>8), byte(n))
	default:
		panic("len_octets")
	}
	return append(out, lcg(f.Seed, n)...)
}

func (f fileSpec) headerLen() int { return len(f.Tag)/2 + f.LenOctets }
func (f fileSpec) total() int     { return f.headerLen() + f.ContentLen }

func libAlg(c mac.Cipher) cryptoutils.BlockCipherAlg {
	if c == mac.TDES {
		return cryptoutils.TDES
	}
	return cryptoutils.AES
}

// ---------------------------------------------------------------- running one read

type result struct {
	data     []byte
	err      error
	panicked string
	log      []Event
	file     []byte
}

func runRead(rc rcase) result {
	srv := &FileServer{Policy: ChunkPolicy(rc.Chip.Policy), Cap: rc.Chip.Cap, LeReject: rc.Chip.LeReject, EOFWarning: rc.Chip.EOFWarning, SMFit: rc.Chip.SMFit, FullBelow: rc.Chip.FullBelow}
	file := rc.Target.bytes()
	srv.Files = append(srv.Files, &File{FID: rc.Target.FID, SFI: rc.Target.SFI, Content: file})
	for _, o := range rc.Others {
		srv.Files = append(srv.Files, &File{FID: o.FID, SFI: o.SFI, Content: o.bytes()})
	}
	if rc.SelectSW != 0 {
		srv.SelectSW = map[uint16]uint16{rc.Target.FID: rc.SelectSW}
	}
	x := rc.Chip.RandSeed | 1
	srv.Rand = func(n int) int {
		x = x*1664525 + 1013904223
		// small sizes are as likely as large ones
		if x&0x30000 == 0 {
			return 1 + int(x>>20)%min(n, 4)
		}
		return 1 + int(x>>8)%n
	}
	nfc := iso7816.NewNfcSession(srv)
	if rc.Alg != "" {
		c := mac.Cipher(rc.Alg)
		ke, _ := hex.DecodeString(rc.KEnc)
		km, _ := hex.DecodeString(rc.KMac)
		ssc, _ := hex.DecodeString(rc.SSC)
		srv.SM = sm.New(c, ke, km, ssc)
		lib, err := iso7816.NewSecureMessaging(libAlg(c), bytes.Clone(ke), bytes.Clone(km))
		if err == nil {
			err = lib.SetSSC(ssc)
		}
		if err != nil {
			return result{panicked: "harness: cannot build library session: " + err.Error()}
		}
		nfc.SetSecureMessaging(lib)
	}
	nfc.SetMaxLe(rc.Chip.MaxLe)
	res := result{file: file}
	func() {
		defer func() {
			if r := recover(); r != nil {
				res.panicked = fmt.Sprint(r)
			}
		}()
		res.data, res.err = nfc.ReadFile(rc.Target.FID)
	}()
	res.log = srv.Log
	return res
}

type verdict struct {
	msg        string // "" = held
	outcome    string // exact | error | not-found | excluded-F4
	dataReads  int    // successful READ BINARYs after the header read
	fallback   bool   // a refused read was retried with a smaller Le
	k1Hits     int
	f4Hit      bool
	selectSW   uint16
	headerFull bool
	errCause   string // informative classification of the library's error text
}

func errCause(err error) string {
	s := err.Error()
	for _, c := range [][2]string{{"SelectEF", "select-status"}, {"Max chunks", "chunk-limit"}, {"ParseTagAndLength", "header-unparsable"},
		{"TLV length exceeds", "length-over-limit"}, {"Didn't receive any data", "empty-read"}, {"Data read differs", "length-mismatch"},
		{"Invalid status", "read-status"}, {"More data than requested", "over-length"}, {"SM.Decode", "sm-decode"}} {
		if bytes.Contains([]byte(s), []byte(c[0])) {
			return c[1]
		}
	}
	return "other"
}

func isK1Shape(rc rcase, raw []byte) (int, bool) {
	if rc.Alg != "" || len(raw) != 6 || raw[0] != 0x00 || raw[1] != 0xB0 {
		return 0, false
	}
	le := int(raw[4])<<8 | int(raw[5])
	if le == 0 {
		le = 65536
	}
	return le, le > 256
}

// judge applies the oracle.  open says which known findings are open.
func judge(rc rcase, res result, k1open, f4open bool) (v verdict) {
	if res.panicked != "" {
		v.msg = "ReadFile panicked: " + res.panicked
		return
	}
	file := res.file
	fail := func(format string, a ...any) verdict {
		v.msg = fmt.Sprintf(format, a...)
		return v
	}
	// ---- commands seen by the card
	if len(res.log) == 0 {
		return fail("ReadFile sent no command")
	}
	sel := res.log[0]
	wantSel := []byte{0x00, 0xA4, 0x02, 0x0C, 0x02, byte(rc.Target.FID >> 8), byte(rc.Target.FID)}
	if sel.Kind != "select" || sel.FID != rc.Target.FID || sel.Plain == nil || sel.Plain.Ne != 0 {
		return fail("first command is not SELECT EF %04x without Le: %s %x (%s)", rc.Target.FID, sel.Kind, sel.Raw, sel.Note)
	}
	if rc.Alg == "" && !bytes.Equal(sel.Raw, wantSel) {
		return fail("SELECT sent as %x, want %x", sel.Raw, wantSel)
	}
	v.selectSW = sel.SW
	expected := 0   // next offset
	refusedNe := -1 // Le of a refused read at `expected`
	reads := 0      // READ BINARY commands
	var firstReturned int
	hdrParsable := rc.Target.headerLen() <= 4
	for i, ev := range res.log[1:] {
		switch ev.Kind {
		case "select":
			return fail("second SELECT (command %d: %x)", i+1, ev.Raw)
		case "malformed", "read":
			if le, isK1 := isK1Shape(rc, ev.Raw); isK1 && (ev.Kind == "malformed" || len(ev.Plain.Data) > 0) {
				// READ BINARY without data and Le > 256 encoded without the leading 00 (C17 K1)
				if !k1open {
					return fail("READ BINARY with Le=%d sent as %x: not an ISO 7816-4 case 2E command (card: %s)", le, ev.Raw, ev.Note)
				}
				v.k1Hits++
				off := int(ev.Raw[2])<<8 | int(ev.Raw[3])
				if off != expected && ev.Raw[2]&0x80 == 0 {
					return fail("read at offset %d, expected %d (gap or repetition)", off, expected)
				}
				if ev.Raw[2]&0x80 != 0 {
					v.f4Hit = true
				}
				reads++
				refusedNe = le
				continue
			}
			if ev.Kind == "malformed" {
				return fail("card received an unparsable command %x (%s)", ev.Raw, ev.Note)
			}
		default:
			return fail("card received a command it cannot serve: %s %x %04x (%s)", ev.Kind, ev.Raw, ev.SW, ev.Note)
		}
		// a well-formed READ BINARY
		reads++
		if sel.SW != 0x9000 {
			return fail("READ BINARY although SELECT was answered %04x", sel.SW)
		}
		if expected >= 65536 && !ev.SFIAddr {
			// the next byte to read lies at an offset that does not fit P1-P2 at all: offset/256 wraps
			v.f4Hit = true
			if f4open {
				v.outcome = "excluded-F4"
				return v
			}
			return fail("READ BINARY for offset %d sent with P1-P2 = %02x%02x: the offset does not fit two octets and wrapped; the card read file %04x at offset %d (status %04x, %d bytes)",
				expected, ev.Plain.P1, ev.Plain.P2, ev.FID, ev.Offset, ev.SW, ev.Returned)
		}
		if ev.SFIAddr {
			v.f4Hit = true
			if f4open {
				v.outcome = "excluded-F4"
				return v
			}
			return fail("READ BINARY with P1-P2 = %02x%02x: P1 b8=1 is short-EF-identifier addressing (ISO 7816-4); the card read file %04x at offset %d (status %04x, %d bytes) instead of offset %d of file %04x",
				ev.Plain.P1, ev.Plain.P2, ev.FID, ev.Offset, ev.SW, ev.Returned, expected, rc.Target.FID)
		}
		if ev.Offset != expected {
			return fail("read at offset %d, expected %d (gap or repetition)", ev.Offset, expected)
		}
		if ev.Ne < 1 {
			return fail("READ BINARY without Le at offset %d", ev.Offset)
		}
		first := reads == 1
		bound := rc.Chip.MaxLe
		if first {
			bound = max(bound, 4) // the header read is a fixed 4-byte read
		}
		if ev.Ne > bound {
			return fail("Le %d at offset %d exceeds maxLe %d", ev.Ne, ev.Offset, rc.Chip.MaxLe)
		}
		if !first && v.headerFull && hdrParsable && ev.Ne > len(file)-ev.Offset {
			return fail("Le %d at offset %d exceeds the %d remaining bytes", ev.Ne, ev.Offset, len(file)-ev.Offset)
		}
		if refusedNe >= 0 {
			// the fallback ladder may repeat a small Le (min(fallback, remaining)); it must not grow
			if ev.Ne > refusedNe {
				return fail("refused read (Le %d) at offset %d retried with Le %d", refusedNe, ev.Offset, ev.Ne)
			}
			v.fallback = true
		}
		if ev.SW == 0x9000 {
			if first {
				firstReturned = ev.Returned
				v.headerFull = firstReturned == 4
			} else {
				v.dataReads++
			}
			expected += ev.Returned
			refusedNe = -1
		} else {
			refusedNe = ev.Ne
		}
	}
	if v.dataReads > maxChunks {
		return fail("%d data reads, limit is %d", v.dataReads, maxChunks)
	}
	if v.f4Hit && f4open {
		v.outcome = "excluded-F4"
		return v
	}
	// ---- result
	switch {
	case res.err != nil:
		v.outcome = "error"
		v.errCause = errCause(res.err)
	case res.data == nil:
		v.outcome = "not-found"
		if sel.SW != 0x6A82 && sel.SW != 0x6283 {
			return fail("ReadFile reported 'not found' (nil, nil) but the card answered %04x to SELECT (file of %d bytes: %s)", sel.SW, len(file), head(file))
		}
	default:
		v.outcome = "exact"
		if !bytes.Equal(res.data, file) {
			return fail("ReadFile returned %d bytes that differ from the %d-byte file: %s", len(res.data), len(file), diff(res.data, file))
		}
		if sel.SW != 0x9000 {
			return fail("ReadFile returned data although SELECT was answered %04x", sel.SW)
		}
	}
	return v
}

func head(b []byte) string {
	if len(b) <= 24 {
		return hex.EncodeToString(b)
	}
	return fmt.Sprintf("%s..(len %d)", hex.EncodeToString(b[:16]), len(b))
}

func diff(got, want []byte) string {
	n := min(len(got), len(want))
	i := 0
	for i < n && got[i] == want[i] {
		i++
	}
	if i == n {
		return fmt.Sprintf("common prefix of %d bytes, lengths %d vs %d", n, len(got), len(want))
	}
	j := min(i+8, n)
	return fmt.Sprintf("first difference at offset %d: got %x want %x", i, got[i:j], want[i:j])
}

// ---------------------------------------------------------------- classes

func sizeClass(n int) string {
	switch {
	case n <= 3:
		return "2-3"
	case n == 4:
		return "4"
	case n <= 127:
		return "5-127"
	case n <= 256:
		return "128-256"
	case n <= 4096:
		return "257-4K"
	case n <= 32768:
		return "4K-32768"
	case n <= 33280:
		return "32769-33280"
	}
	return "33281-65539"
}

func boundarySize(n int) bool {
	switch n {
	case 2, 3, 4, 5, 127, 128, 129, 255, 256, 257, 258, 259, 260, 261, 32767, 32768, 32769, 33023, 33024, 33025, 65535, 65536, 65537, 65538, 65539:
		return true
	}
	return false
}

func leClass(n int) string {
	switch {
	case n < 4:
		return "1-3"
	case n <= 127:
		return "4-127"
	case n <= 255:
		return "128-255"
	case n == 256:
		return "256"
	case n <= 32767:
		return "257-32767"
	}
	return "32768-65536"
}

func record(rc rcase, v verdict, sub string) {
	f := rc.Target
	mode := "plain"
	if rc.Alg != "" {
		mode = "sm"
	}
	pol := ChunkPolicy(rc.Chip.Policy).String()
	nontrivial := f.total() > 4 && v.dataReads >= 2 || boundarySize(f.total())
	hdr := fmt.Sprintf("t%dl%d", len(f.Tag)/2, f.LenOctets)
	class := fmt.Sprintf("%s/%s/%s", sizeClass(f.total()), mode, v.outcome)
	evid.CaseFn(class, nontrivial, fmt.Sprintf("%s|%s|%s|%s|%d|%v", hdr, pol, leClass(rc.Chip.MaxLe), sub, f.total(), rc.Chip.LeReject > 0), func() any {
		return map[string]any{"case": rc, "outcome": v.outcome, "data_reads": v.dataReads, "file_total": f.total(), "chunk_policy": pol}
	})
	evid.Count("outcome-"+v.outcome, 1)
	if v.outcome == "error" {
		evid.Count("error-cause-"+v.errCause, 1)
	}
	evid.Count("policy-"+pol, 1)
	evid.Count("maxle-"+leClass(rc.Chip.MaxLe), 1)
	if v.fallback {
		evid.Count("fallback-ladder-used", 1)
	}
	if v.dataReads >= 2 {
		evid.Count("multi-chunk", 1)
	}
	if v.k1Hits > 0 {
		evid.Count("plain-read-hit-K1", 1)
	}
}

// ---------------------------------------------------------------- generators

var icaoFIDs = []uint16{0x011E, 0x011D, 0x0101, 0x0102, 0x0103, 0x0107, 0x010B, 0x010C, 0x010E, 0x010F, 0x011C, 0x0110}

func sfiOf(fid uint16) byte {
	if s := byte(fid & 0x1F); s != 0 && s != 0x1F && fid>>8 == 0x01 {
		return s
	}
	return 0
}

var tagGen = rapid.OneOf(
	rapid.SampledFrom([]string{"60", "61", "63", "65", "67", "6b", "6c", "6d", "6e", "6f", "70", "75", "77", "30", "04"}),
	rapid.SampledFrom([]string{"60", "61", "75", "77", "6e", "7f61", "5f01", "7f2e"}),
	rapid.Custom(func(rt *rapid.T) string {
		b := rapid.Byte().Draw(rt, "tag1")
		if b&0x1F == 0x1F {
			return hex.EncodeToString([]byte{b, rapid.Byte().Draw(rt, "tag2") & 0x7F})
		}
		return hex.EncodeToString([]byte{b})
	}),
)

var maxLeGen = rapid.OneOf(
	rapid.Just(256),
	rapid.SampledFrom([]int{1, 2, 3, 4, 5, 16, 100, 127, 128, 129, 191, 192, 193, 223, 224, 231, 255, 256, 257, 1000, 4096, 32767, 32768, 65535, 65536}),
	rapid.IntRange(1, 300),
	rapid.IntRange(1, 65536),
)

func drawTotal(rt *rapid.T, maxLe int, big bool) int {
	kinds := 6
	if big {
		kinds = 8
	}
	switch rapid.IntRange(0, kinds).Draw(rt, "size-kind") {
	case 0:
		return rapid.SampledFrom([]int{2, 3, 4, 4, 5, 6, 7, 8}).Draw(rt, "size-tiny")
	case 1:
		return rapid.SampledFrom([]int{127, 128, 129, 130, 131, 255, 256, 257, 258, 259, 260, 261}).Draw(rt, "size-b")
	case 2: // chunk multiples +-1 (after the 4-byte header read)
		k := rapid.IntRange(1, 6).Draw(rt, "size-k")
		return min(65539, max(2, 4+k*min(maxLe, 3000)+rapid.IntRange(-1, 1).Draw(rt, "size-pm")))
	case 3:
		return rapid.IntRange(2, 300).Draw(rt, "size-small")
	case 4, 5, 6:
		return rapid.IntRange(2, 4096).Draw(rt, "size-4k")
	case 7:
		return rapid.SampledFrom([]int{32767, 32768, 32769, 32770, 33023, 33024, 33025, 33279, 33280, 33281, 40960, 40961, 65535, 65536, 65537, 65538, 65539}).Draw(rt, "size-big-b")
	}
	return rapid.IntRange(4097, 65539).Draw(rt, "size-big")
}

// drawFile builds a file whose total size is (as close as the header form
// allows) the drawn total.
func drawFile(rt *rapid.T, fid uint16, total int, label string) fileSpec {
	f := fileSpec{FID: fid, SFI: sfiOf(fid), Tag: tagGen.Draw(rt, label+"-tag"), Seed: rapid.Uint32().Draw(rt, label+"-seed")}
	tl := len(f.Tag) / 2
	form := rapid.SampledFrom([]int{0, 0, 0, 0, 0, 0, 0, 0, 0, 0, 0, 0, 2, 2, 3, 3, 3, 4}).Draw(rt, label+"-lenform") // 0 = minimal
	pick := func(lo int) int {
		// smallest admissible number of length octets >= lo for the target total
		for k := max(lo, 1); k <= 4; k++ {
			n := total - tl - k
			limit := map[int]int{1: 127, 2: 255, 3: 65535, 4: 65535}[k]
			if n <= limit {
				return k
			}
		}
		return 3
	}
	f.LenOctets = pick(form)
	f.ContentLen = total - tl - f.LenOctets
	if f.ContentLen < 0 {
		f.ContentLen = 0
	}
	if f.ContentLen > 65535 {
		f.ContentLen = 65535
	}
	return f
}

func drawChip(rt *rapid.T, label string, maxLe int) chipSpec {
	c := chipSpec{MaxLe: maxLe, RandSeed: rapid.Uint32().Draw(rt, label+"-rand"), Policy: rapid.SampledFrom([]int{0, 0, 1, 1, 2, 3, 3}).Draw(rt, label+"-policy")}
	if ChunkPolicy(c.Policy) == ChunkFixedCap {
		c.Cap = rapid.OneOf(rapid.SampledFrom([]int{1, 3, 4, 5, 8, 32, 100, 223, 224, 255, 256, 257, 1000}), rapid.IntRange(4, 300), rapid.IntRange(4, 300)).Draw(rt, label+"-cap")
	}
	if rapid.IntRange(0, 9).Draw(rt, label+"-reject") < 4 {
		c.LeReject = rapid.OneOf(rapid.SampledFrom([]int{128, 129, 191, 192, 193, 223, 224, 255, 256, 257, 1000, 65535}), rapid.IntRange(128, 65535)).Draw(rt, label+"-lereject")
	}
	c.EOFWarning = rapid.IntRange(0, 7).Draw(rt, label+"-eofw") == 0
	c.SMFit = rapid.Bool().Draw(rt, label+"-smfit")
	// most cards serve the 4-byte header read in full whatever their policy for long reads
	c.FullBelow = rapid.SampledFrom([]int{0, 4, 4, 4, 4, 8}).Draw(rt, label+"-fullbelow")
	return c
}

func drawCase(rt *rapid.T, big bool) rcase {
	var rc rcase
	maxLe := maxLeGen.Draw(rt, "maxle")
	fid := rapid.SampledFrom(icaoFIDs).Draw(rt, "fid")
	rc.Target = drawFile(rt, fid, drawTotal(rt, maxLe, big), "target")
	// other files: always one reachable through short identifier 1 and the EF.COM / EF.SOD
	// neighbours, with different content
	for i, ofid := range []uint16{0x0101, 0x011E, 0x0102, 0x011D} {
		if ofid == fid {
			continue
		}
		if i >= 1 && rapid.IntRange(0, 2).Draw(rt, fmt.Sprintf("other%d-present", i)) == 0 {
			continue
		}
		rc.Others = append(rc.Others, drawFile(rt, ofid, rapid.SampledFrom([]int{5, 60, 255, 256, 300, 700}).Draw(rt, fmt.Sprintf("other%d-size", i)), fmt.Sprintf("other%d", i)))
	}
	if rapid.IntRange(0, 6).Draw(rt, "select-special") == 0 {
		rc.SelectSW = rapid.SampledFrom([]uint16{0x6A82, 0x6A82, 0x6283, 0x6283, 0x6982, 0x6985, 0x6A86, 0x6300, 0x6200, 0x6F00, 0x9001, 0x6282}).Draw(rt, "select-sw")
	}
	rc.Chip = drawChip(rt, "chip", maxLe)
	if rapid.IntRange(0, 2).Draw(rt, "sm") > 0 {
		c := rapid.SampledFrom(mac.Ciphers).Draw(rt, "cipher")
		rc.Alg = string(c)
		rc.KEnc = hex.EncodeToString(rapid.SliceOfN(rapid.Byte(), c.KeyLen(), c.KeyLen()).Draw(rt, "kenc"))
		rc.KMac = hex.EncodeToString(rapid.SliceOfN(rapid.Byte(), c.KeyLen(), c.KeyLen()).Draw(rt, "kmac"))
		ssc := rapid.SliceOfN(rapid.Byte(), c.BlockLen(), c.BlockLen()).Draw(rt, "ssc")
		if rapid.IntRange(0, 3).Draw(rt, "ssc-wrap") == 0 {
			for i := range ssc {
				ssc[i] = 0xFF
			}
			ssc[len(ssc)-1] -= byte(rapid.IntRange(0, 30).Draw(rt, "ssc-to-wrap"))
		}
		rc.SSC = hex.EncodeToString(ssc)
	}
	return rc
}

// ---------------------------------------------------------------- the property

// checkCase runs and judges one read; excluded=true when an open finding
// covers it.
func checkCase(rc rcase, sub string) (msg string, v verdict, excluded bool) {
	if rc.Target.total() == 4 && (rc.SelectSW == 0 || rc.SelectSW == 0x9000) && evid.Open(prop, f3) {
		evid.Excluded(f3)
		return "", verdict{outcome: "excluded-F3"}, true
	}
	res := runRead(rc)
	v = judge(rc, res, evid.Open("C17", k1), evid.Open(prop, f4))
	for i := 0; i < v.k1Hits; i++ {
		evid.Excluded(k1)
	}
	if v.msg != "" {
		return v.msg, v, false
	}
	if v.outcome == "excluded-F4" {
		evid.Excluded(f4)
		return "", v, true
	}
	record(rc, v, sub)
	return "", v, false
}

func TestReads(t *testing.T) {
	evid.RapidCheck(t, 4000, 80000, func(rt *rapid.T) {
		big := evid.Thorough() || rapid.IntRange(0, 19).Draw(rt, "allow-big") == 0
		rc := drawCase(rt, big)
		msgA, va, exA := checkCase(rc, "a")
		if msgA != "" {
			evid.Fail(rt, "read", rc, "%s", msgA)
		}
		// metamorphic: the same card content, another chunking / maxLe
		rc2 := rc
		rc2.Chip = drawChip(rt, "chip2", maxLeGen.Draw(rt, "maxle2"))
		msgB, vb, exB := checkCase(rc2, "b")
		if msgB != "" {
			evid.Fail(rt, "read", rc2, "%s", msgB)
		}
		if !exA && !exB && va.outcome != vb.outcome {
			evid.Count("metamorphic-outcome-differs-"+va.outcome+"/"+vb.outcome, 1)
		}
	})
}

// TestBoundarySizes: every boundary size once per (mode, chunking) cell.
func TestBoundarySizes(t *testing.T) {
	sizes := []int{2, 3, 4, 5, 6, 7, 126, 127, 128, 129, 130, 131, 254, 255, 256, 257, 258, 259, 260, 261, 262, 515, 516, 517,
		32766, 32767, 32768, 32769, 32770, 33023, 33024, 33025, 33279, 33280, 33281, 65534, 65535, 65536, 65537, 65538, 65539}
	chips := []chipSpec{
		{Policy: int(ChunkExact), MaxLe: 256},
		{Policy: int(ChunkExact), MaxLe: 65536, SMFit: true},
		{Policy: int(ChunkFixedCap), Cap: 223, MaxLe: 256, SMFit: true},
		{Policy: int(ChunkOneShort), MaxLe: 255},
		{Policy: int(ChunkRandom), RandSeed: 12345, MaxLe: 1000, LeReject: 192},
		{Policy: int(ChunkExact), MaxLe: 128, EOFWarning: true},
	}
	idx := 0
	complete := true
	for _, total := range sizes {
		for ci, chip := range chips {
			for _, alg := range []string{"", string(mac.TDES), string(mac.AES128), string(mac.AES256)} {
				for _, tag := range []string{"60", "7f61"} {
					for _, nonMin := range []bool{false, true} {
						idx++
						if !evid.MineIdx(idx) {
							continue
						}
						if !evid.Thorough() && total > 40000 && (ci > 2 || alg == string(mac.AES256) || nonMin) {
							continue // quick tier: the largest sizes only with the first chunkings
						}
						if tag == "7f61" && total > 262 && (ci > 0 || alg != "") {
							continue // five header octets: always "header unparsable"; once per size is enough
						}
						f := fileSpec{FID: 0x0102, SFI: 2, Tag: tag, Seed: uint32(idx)}
						tl := len(tag) / 2
						f.LenOctets = 1
						for f.LenOctets < 3 && total-tl-f.LenOctets > map[int]int{1: 127, 2: 255}[f.LenOctets] {
							f.LenOctets++
						}
						if nonMin && f.LenOctets < 3 {
							f.LenOctets++
						}
						f.ContentLen = total - tl - f.LenOctets
						if f.ContentLen < 0 || f.ContentLen > 65535 {
							continue
						}
						rc := rcase{Target: f, Chip: chip, Alg: alg,
							Others: []fileSpec{{FID: 0x0101, SFI: 1, Tag: "61", LenOctets: 3, ContentLen: 600, Seed: 77}, {FID: 0x011E, SFI: 0x1E, Tag: "60", LenOctets: 1, ContentLen: 20, Seed: 78}}}
						if alg != "" {
							c := mac.Cipher(alg)
							rc.KEnc, rc.KMac = hex.EncodeToString(lcg(uint32(idx)*3+1, c.KeyLen())), hex.EncodeToString(lcg(uint32(idx)*3+2, c.KeyLen()))
							rc.SSC = hex.EncodeToString(bytes.Repeat([]byte{0xFF}, c.BlockLen()-1)) + "f0"
						}
						msg, _, _ := checkCase(rc, "grid")
						if msg != "" {
							complete = false
							evid.Fail(t, "boundary-sizes", rc, "%s", msg)
						}
					}
				}
			}
		}
	}
	evid.Exhaustive("boundary-sizes", complete)
}

// ---------------------------------------------------------------- findings: probes + regressions

func plainCase(f fileSpec, chip chipSpec, others ...fileSpec) rcase {
	return rcase{Target: f, Chip: chip, Others: others}
}

// TestFindingF3: a file of exactly 4 bytes is reported as "not found".
func TestFindingF3(t *testing.T) {
	if evid.Shard() != 0 {
		return
	}
	open := evid.Open(prop, f3)
	for _, f := range []fileSpec{
		{FID: 0x011E, SFI: 0x1E, Tag: "60", LenOctets: 1, ContentLen: 2, Seed: 1},
		{FID: 0x011E, SFI: 0x1E, Tag: "60", LenOctets: 2, ContentLen: 1, Seed: 2},
		{FID: 0x0101, SFI: 1, Tag: "5f01", LenOctets: 1, ContentLen: 1, Seed: 3},
		{FID: 0x0101, SFI: 1, Tag: "60", LenOctets: 3, ContentLen: 0, Seed: 4},
	} {
		rc := plainCase(f, chipSpec{MaxLe: 256})
		v := judge(rc, runRead(rc), true, true)
		if open {
			if v.msg != "" {
				evid.ReportKnown(prop, f3, "NfcSession.ReadFile returns (nil, nil) = 'file not found' for a file of exactly 4 bytes although SELECT succeeded, e.g. file "+hex.EncodeToString(f.bytes())+": "+v.msg)
			}
			continue
		}
		evid.Case("regression-F3", true, f.Tag+fmt.Sprint(f.LenOctets), nil)
		if v.msg != "" {
			evid.Fail(t, "regression-F3", rc, "%s", v.msg)
		}
	}
}

// f4Cases: files longer than 32768 bytes read in chunks of at most 256 bytes.
func f4Cases() []rcase {
	other := fileSpec{FID: 0x0101, SFI: 1, Tag: "61", LenOctets: 3, ContentLen: 700, Seed: 99}
	return []rcase{
		// 32769..33024 bytes: offsets 32768.. are sent as P1=80 => "current EF, offset P2": the card returns bytes 0.. again
		plainCase(fileSpec{FID: 0x0102, SFI: 2, Tag: "75", LenOctets: 3, ContentLen: 32768 + 100 - 4, Seed: 5}, chipSpec{MaxLe: 256}, other),
		// up to 33280 bytes: offsets 33024.. are sent as P1=81 => short EF identifier 1 = another file (DG1)
		plainCase(fileSpec{FID: 0x0102, SFI: 2, Tag: "75", LenOctets: 3, ContentLen: 33024 + 200 - 4, Seed: 6}, chipSpec{MaxLe: 256}, other),
		// 65539 bytes under SM with one 65535-byte read that comes back one byte short: the last byte
		// is asked for at offset 65538, which wraps to P1-P2 = 0002
		{Target: fileSpec{FID: 0x011E, SFI: 0x1E, Tag: "60", LenOctets: 3, ContentLen: 65535, Seed: 7}, Others: []fileSpec{other},
			Chip: chipSpec{Policy: int(ChunkOneShort), FullBelow: 8, MaxLe: 65536}, Alg: string(mac.AES128),
			KEnc: "000102030405060708090a0b0c0d0e0f", KMac: "101112131415161718191a1b1c1d1e1f", SSC: "00000000000000000000000000000000"},
	}
}

func TestFindingF4(t *testing.T) {
	if evid.Shard() != 0 {
		return
	}
	open := evid.Open(prop, f4)
	for i, rc := range f4Cases() {
		res := runRead(rc)
		v := judge(rc, res, true, false)
		silent := res.err == nil && res.data != nil && !bytes.Equal(res.data, res.file)
		if open {
			if v.msg != "" {
				what := "ReadBinaryFromOffset encodes offsets >= 32768 with P1 b8=1, which ISO 7816-4 defines as short-EF-identifier addressing: " + v.msg
				if silent {
					what += fmt.Sprintf("; ReadFile then returned %d bytes WITHOUT error that differ from the file (%s)", len(res.data), diff(res.data, res.file))
				}
				evid.ReportKnown(prop, f4, what)
			}
			continue
		}
		evid.Case("regression-F4", true, fmt.Sprint(i), nil)
		if v.msg != "" {
			evid.Fail(t, "regression-F4", rc, "%s", v.msg)
		}
	}
}

// TestFileServerSelfTest: the card model against ISO 7816-4 by hand-made commands.
func TestFileServerSelfTest(t *testing.T) {
	if evid.Shard() != 0 {
		return
	}
	content := lcg(1, 300)
	other := lcg(2, 50)
	srv := &FileServer{Files: []*File{{FID: 0x0102, SFI: 2, Content: content}, {FID: 0x0101, SFI: 1, Content: other}}}
	step := func(cmd string, want []byte, sw uint16) {
		b, _ := hex.DecodeString(cmd)
		got := srv.Process(b)
		exp := append(append([]byte{}, want...), byte(sw>>8), byte(sw))
		if !bytes.Equal(got, exp) {
			evid.Infra(t, "file server: %s -> %s, want %s", cmd, head(got), head(exp))
		}
	}
	step("00b0000004", nil, 0x6986)              // no current EF
	step("00a4020c020199", nil, 0x6A82)          // unknown file
	step("00a4020c020102", nil, 0x9000)          // select
	step("00b0000004", content[:4], 0x9000)      // header read
	step("00b0000400", content[4:260], 0x9000)   // Le 00 = 256
	step("00b0012b08", content[299:300], 0x9000) // fewer than requested at the end
	step("00b0012c01", nil, 0x6B00)              // offset = size
	step("00b0810005", other[:5], 0x9000)        // P1 b8=1: short EF identifier 1, offset 0
	step("00b0000002", other[:2], 0x9000)        // ... which became the current EF
	step("00b0800a02", other[10:12], 0x9000)     // SFI 0 = current EF, offset P2
	step("00b0830000", nil, 0x6A82)              // SFI 3 does not exist
	step("00b0a00001", nil, 0x6A86)              // b8=1 with b6 set
	step("00b09f0001", nil, 0x6A86)              // SFI 31
	step("00b000000001f4", other, 0x9000)        // extended Le = 500: the whole (current) file
	step("00b1000000", nil, 0x6D00)              // odd INS not served
	step("00b000000401aa", nil, 0x6700)          // READ BINARY with command data
}

// TestReplayJSON re-executes a saved JSON repro (./verif replay C13 <file>).
func TestReplayJSON(t *testing.T) {
	path := os.Getenv("VERIF_REPLAY_JSON")
	if path == "" {
		return
	}
	b, err := os.ReadFile(path)
	if err != nil {
		t.Fatalf("read: %v", err)
	}
	var doc struct {
		Check string `json:"check"`
		Case  rcase  `json:"case"`
	}
	if err := json.Unmarshal(b, &doc); err != nil {
		t.Fatalf("parse: %v", err)
	}
	if doc.Case.Target.Tag == "" {
		t.Fatalf("repro of check %q carries no case", doc.Check)
	}
	v := judge(doc.Case, runRead(doc.Case), evid.Open("C17", k1), evid.Open(prop, f4))
	if doc.Case.Target.total() == 4 && evid.Open(prop, f3) {
		t.Logf("note: the case is in the class of open finding %s", f3)
	}
	if v.msg != "" {
		t.Fatalf("VIOLATION reproduced: %s", v.msg)
	}
}

// TestReadSequences: several ReadFile calls on ONE session.  The single-read oracle above
// speaks about one call; a reader reads a dozen files in a row over the same session, and
// what one call leaves behind (the currently selected file on the card, cached state in the
// session) must not leak into the next: every call returns exactly the bytes of the file IT
// asked for, or an error; "not found" only if the card said so to a SELECT of that file.
// Between calls the card may answer a SELECT
// with a warning (6283: the file is selected but the library treats it as absent), with
// "not found", or with an error status.
func TestReadSequences(t *testing.T) {
	evid.RapidCheck(t, 1600, 40000, func(rt *rapid.T) {
		nFiles := rapid.IntRange(2, 4).Draw(rt, "files")
		srv := &FileServer{FullBelow: 4}
		var specs []fileSpec
		for i := 0; i < nFiles; i++ {
			fs := fileSpec{FID: uint16(0x0101 + i), SFI: byte(1 + i), Tag: []string{"61", "75", "6b", "7f61"}[i], LenOctets: 1,
				ContentLen: rapid.SampledFrom([]int{1, 5, 30, 100, 127}).Draw(rt, "len"), Seed: uint32(rapid.IntRange(1, 1<<20).Draw(rt, "seed"))}
			if rapid.Bool().Draw(rt, "long") {
				fs.LenOctets, fs.ContentLen = 3, rapid.IntRange(200, 1500).Draw(rt, "longlen")
			}
			specs = append(specs, fs)
			srv.Files = append(srv.Files, &File{FID: fs.FID, SFI: fs.SFI, Content: fs.bytes()})
		}
		srv.Policy = ChunkPolicy(rapid.IntRange(0, 3).Draw(rt, "policy"))
		srv.Cap = rapid.IntRange(1, 300).Draw(rt, "cap")
		x := uint32(rapid.IntRange(1, 1<<30).Draw(rt, "rseed")) | 1
		srv.Rand = func(n int) int {
			x = x*1664525 + 1013904223
			return 1 + int(x>>8)%n
		}
		nfc := iso7816.NewNfcSession(srv)
		alg := rapid.SampledFrom([]string{"", "", "3DES", "AES-128"}).Draw(rt, "alg")
		if alg != "" {
			c := mac.Cipher(alg)
			ke := rapid.SliceOfN(rapid.Byte(), c.KeyLen(), c.KeyLen()).Draw(rt, "kenc")
			km := rapid.SliceOfN(rapid.Byte(), c.KeyLen(), c.KeyLen()).Draw(rt, "kmac")
			ssc := make([]byte, c.BlockLen())
			srv.SM = sm.New(c, ke, km, ssc)
			lib, err := iso7816.NewSecureMessaging(libAlg(c), bytes.Clone(ke), bytes.Clone(km))
			if err == nil {
				err = lib.SetSSC(ssc)
			}
			if err != nil {
				evid.Infra(rt, "library session: %v", err)
			}
			nfc.SetSecureMessaging(lib)
		}
		nfc.SetMaxLe(rapid.SampledFrom([]int{16, 100, 256}).Draw(rt, "maxLe"))
		calls := rapid.IntRange(2, 8).Draw(rt, "calls")
		var history []string
		lastSelectSW := map[uint16]uint16{}
		type kept struct {
			call int
			fid  uint16
			data []byte // the slice ReadFile returned (held by the caller, as a reader holds its files)
			want []byte
		}
		var earlier []kept
		for k := 0; k < calls; k++ {
			i := rapid.IntRange(0, nFiles-1).Draw(rt, "which")
			fs := specs[i]
			sw := rapid.SampledFrom([]uint16{0x9000, 0x9000, 0x9000, 0x9000, 0x6283, 0x6A82, 0x6982, 0x6282}).Draw(rt, "selectSW")
			srv.SelectSW = map[uint16]uint16{}
			if sw != 0x9000 {
				srv.SelectSW[fs.FID] = sw
			}
			logBefore := len(srv.Log)
			var data []byte
			var err error
			var panicked any
			func() {
				defer func() { panicked = recover() }()
				data, err = nfc.ReadFile(fs.FID)
			}()
			history = append(history, fmt.Sprintf("ReadFile(%04x) select=%04x -> %d bytes err=%v", fs.FID, sw, len(data), err != nil))
			rep := map[string]any{"files": specs, "alg": alg, "history": history, "policy": srv.Policy.String()}
			if panicked != nil {
				evid.Fail(rt, "sequence", rep, "call %d panicked: %v", k+1, panicked)
			}
			// what the card said to the most recent SELECT of this file (a reader that remembers the
			// current file and skips a redundant SELECT is fine as long as what it returns is right,
			// so a SELECT per call is not demanded - only the results are judged)
			evs := srv.Log[logBefore:]
			for _, ev := range evs {
				if ev.Kind == "select" {
					lastSelectSW[ev.FID] = ev.SW
				}
			}
			if len(evs) > 0 && evs[0].Kind == "select" && evs[0].FID == fs.FID {
				evid.Count("sequence-call-selects-first", 1)
			}
			switch {
			case err != nil:
				evid.Count("sequence-call-error", 1)
			case data == nil:
				if said, ok := lastSelectSW[fs.FID]; !ok || (said != 0x6A82 && said != 0x6283) {
					evid.Fail(rt, "sequence", rep, "call %d reports 'not found' for file %04x although the card never said so (last status of a SELECT of that file: %04x, selected in this session: %v)", k+1, fs.FID, said, ok)
				}
				evid.Count("sequence-call-not-found", 1)
			default:
				if !bytes.Equal(data, fs.bytes()) {
					whose := "no file of the card"
					for _, o := range specs {
						if bytes.Equal(data, o.bytes()) {
							whose = fmt.Sprintf("file %04x", o.FID)
						}
					}
					evid.Fail(rt, "sequence", rep, "call %d, ReadFile(%04x), returned %d bytes that are not that file's %d bytes (they are %s)", k+1, fs.FID, len(data), len(fs.bytes()), whose)
				}
				evid.Count("sequence-call-exact", 1)
				earlier = append(earlier, kept{k + 1, fs.FID, data, fs.bytes()})
			}
			// what earlier calls returned belongs to the caller: later reads must not change it
			for _, e := range earlier {
				if !bytes.Equal(e.data, e.want) {
					evid.Fail(rt, "sequence", rep, "the bytes returned by call %d (ReadFile(%04x)) were changed by call %d (ReadFile(%04x)): the result aliases state of the session", e.call, e.fid, k+1, fs.FID)
				}
			}
			if srv.SM != nil && err != nil {
				// the card drops the session after an unauthenticated command; later calls can only fail - stop here
				break
			}
		}
		evid.Case(fmt.Sprintf("sequence/%s/n%d", map[bool]string{true: "sm", false: "plain"}[alg != ""], calls), true, fmt.Sprint(history), map[string]any{"history": history})
	})
}
