package c13

// Coverage-guided variants of this package's rapid properties (thorough tier): the
// native fuzzer mutates rapid's bit stream with coverage feedback (evid.FuzzVia).

import (
	"testing"

	"verifharness/evid"
)

func FuzzReads(f *testing.F) { evid.FuzzVia(f, TestReads) }
