package c12

// Growth on input-doubling families is RECORDED as a metric in the evidence;
// it is never a verdict (see guard/slow for the only time-related path).

import (
	"io"
	"testing"
	"time"

	"github.com/gmrtd/gmrtd/cms"
	"github.com/gmrtd/gmrtd/document"
	"github.com/gmrtd/gmrtd/tlv"

	"verifharness/evid"
)

func TestGrowthFamilies(t *testing.T) {
	if evid.Shard() != 0 || fuzzing {
		return
	}
	type family struct {
		name string
		make func(n int) []byte
		call func(b []byte)
		ns   []int
	}
	rep := func(unit []byte, n int) []byte {
		out := make([]byte, 0, len(unit)*n)
		for i := 0; i < n; i++ {
			out = append(out, unit...)
		}
		return out
	}
	fams := []family{
		{"tlv.Decode/wide-nodes", func(n int) []byte { return rep([]byte{0x04, 0x01, 0x41}, n) }, func(b []byte) { tlv.Decode(b) }, []int{1250, 2500, 5000, 10000}},
		{"tlv.Decode/nested-depth50", func(n int) []byte { return deepWide(49, n) }, func(b []byte) { tlv.Decode(b) }, []int{1200, 2400, 4800, 9600}},
		{"tlv.ParseTags/tag-list", func(n int) []byte { return rep([]byte{0x5F, 0x0E}, n) }, func(b []byte) { tlv.ParseTags(bytesReader(b)) }, []int{4000, 8000, 16000, 32000}},
		{"NewEFDIR/entries", func(n int) []byte { return rep(unhex("61094F07A0000002471001"), n) }, func(b []byte) { document.NewEFDIR(b) }, []int{700, 1400, 2800, 5600}},
		{"cms.ParseCertificates/certificates", func(n int) []byte { return rep(certSOD, n) }, func(b []byte) {
			var p cms.GenericCertPool
			p.Add(b)
			p.BySKI([]byte{1})
			p.ByIssuerCountry("AT")
		}, []int{6, 12, 24, 48}},
		{"NewCOM/tag-list", func(n int) []byte {
			return tl(0x60, tl(0x5F01, []byte("0107")), tl(0x5F36, []byte("040000")), tl(0x5C, rep([]byte{0x61}, n)))
		}, func(b []byte) { document.NewCOM(b) }, []int{8000, 16000, 32000, 64000}},
	}
	for _, f := range fams {
		var series []map[string]any
		for _, n := range f.ns {
			in := f.make(n)
			best := time.Duration(1 << 62)
			for i := 0; i < 3; i++ {
				t0 := time.Now()
				protect(func() { f.call(in) })
				if d := time.Since(t0); d < best {
					best = d
				}
			}
			series = append(series, map[string]any{"n": n, "bytes": len(in), "us": best.Microseconds()})
		}
		evid.Metric("growth/"+f.name, series)
	}
}

func bytesReader(b []byte) *bytesBuf { return &bytesBuf{b: b} }

// bytesBuf is a minimal io.Reader over a byte slice.
type bytesBuf struct {
	b []byte
	p int
}

func (r *bytesBuf) Read(p []byte) (int, error) {
	if r.p >= len(r.b) {
		return 0, io.EOF
	}
	n := copy(p, r.b[r.p:])
	r.p += n
	return n, nil
}
