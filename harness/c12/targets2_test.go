package c12

// Composite targets: evidence verification, CBOR import, offline verifier,
// Summary/JSON, and the live reader against a generated chip.  They work on a
// docSpec (files + evidence) that is either decoded from fuzz bytes
// (decodeDocSpec) or drawn by the rapid generators (gen_test.go).

import (
	"crypto/aes"
	"crypto/cipher"
	"crypto/des"
	"crypto/rand"
	"crypto/sha256"
	"encoding/asn1"
	"encoding/json"
	"fmt"
	"io"
	"math/big"
	"os"
	"runtime/debug"
	"strings"
	"sync"

	cbor "github.com/fxamacker/cbor/v2"
	"github.com/gmrtd/gmrtd/activeauth"
	"github.com/gmrtd/gmrtd/chipauth"
	"github.com/gmrtd/gmrtd/cryptoutils"
	"github.com/gmrtd/gmrtd/document"
	"github.com/gmrtd/gmrtd/iso7816"
	"github.com/gmrtd/gmrtd/mobile"
	"github.com/gmrtd/gmrtd/oid"
	"github.com/gmrtd/gmrtd/pace"
	"github.com/gmrtd/gmrtd/password"
	"github.com/gmrtd/gmrtd/reader"
	"github.com/gmrtd/gmrtd/verifier"

	"verifharness/evid"
)

func evidInfra(t TB, format string, args ...any) { evid.Infra(t, format, args...) }

func smEncrypt(su smSetup, ksEnc, ssc, plain []byte) []byte {
	var blk cipher.Block
	var err error
	bs := 8
	if su.alg == cryptoutils.AES {
		bs = 16
		blk, err = aes.NewCipher(ksEnc)
	} else {
		k := append(append([]byte{}, ksEnc...), ksEnc[:8]...)
		blk, err = des.NewTripleDESCipher(k)
	}
	if err != nil {
		return nil
	}
	iv := make([]byte, bs)
	if su.alg == cryptoutils.AES {
		blk.Encrypt(iv, ssc)
	}
	p := cryptoutils.ISO9797Method2Pad(plain, bs)
	out := make([]byte, len(p))
	cipher.NewCBCEncrypter(blk, iv).CryptBlocks(out, p)
	return out
}

// ---- byte reader for the decoder layers --------------------------------------

type rd struct {
	b []byte
	p int
}

func (r *rd) byte() byte {
	if r.p >= len(r.b) {
		return 0
	}
	v := r.b[r.p]
	r.p++
	return v
}
func (r *rd) u16() int { return int(r.byte())<<8 | int(r.byte()) }
func (r *rd) take(n int) []byte {
	if n > len(r.b)-r.p {
		n = len(r.b) - r.p
	}
	if n <= 0 {
		return nil
	}
	v := r.b[r.p : r.p+n]
	r.p += n
	return append([]byte{}, v...)
}
func (r *rd) rest() []byte { return r.take(len(r.b) - r.p) }
func (r *rd) left() int    { return len(r.b) - r.p }

// ---- docSpec ------------------------------------------------------------------------

type docSpec struct {
	Files [nKinds][]byte // nil = absent
	CA    *document.ChipAuthEvidence
	PACE  *document.PaceCamEvidence
	AA    *document.ActiveAuthEvidence
}

func (s *docSpec) inLen() int {
	n := 0
	for _, f := range s.Files {
		n += len(f)
	}
	if s.CA != nil {
		n += len(s.CA.TermPri) + len(s.CA.TermPubKey) + len(s.CA.SmRapdu) + len(s.CA.SmSsc)
	}
	if e := s.PACE; e != nil {
		n += 4*len(e.PaceOid) + len(e.Nonce) + len(e.TermMapPri) + len(e.TermMapPub) + len(e.ChipMapPub) + len(e.TermKaPri) + len(e.TermKaPub) + len(e.ChipKaPub) + len(e.EcadIC)
	}
	if e := s.AA; e != nil {
		n += 4*len(e.Algorithm) + len(e.Nonce) + len(e.Signature)
	}
	return n
}

func (s *docSpec) repro() map[string]any {
	m := map[string]any{}
	files := map[string]string{}
	for k, f := range s.Files {
		if f != nil {
			files[kindName[k]] = hx(f)
		}
	}
	m["files"] = files
	if s.CA != nil {
		m["ca"] = map[string]string{"termPri": hx(s.CA.TermPri), "termPubKey": hx(s.CA.TermPubKey), "smRapdu": hx(s.CA.SmRapdu), "smSsc": hx(s.CA.SmSsc)}
	}
	if e := s.PACE; e != nil {
		m["pace"] = map[string]any{"paceOid": []int(e.PaceOid), "parameterId": e.ParameterId, "nonce": hx(e.Nonce), "termMapPri": hx(e.TermMapPri), "termMapPub": hx(e.TermMapPub),
			"chipMapPub": hx(e.ChipMapPub), "termKaPri": hx(e.TermKaPri), "termKaPub": hx(e.TermKaPub), "chipKaPub": hx(e.ChipKaPub), "ecadIC": hx(e.EcadIC)}
	}
	if e := s.AA; e != nil {
		m["aa"] = map[string]any{"algorithm": []int(e.Algorithm), "nonce": hx(e.Nonce), "signature": hx(e.Signature)}
	}
	return m
}

var dg14Variants = func() [][]byte { return [][]byte{dg14Genuine, dg14KeyIDInfo, dg14KeyIDBoth, dg14TDESP256, dg14NoCA} }
var dg15Variants = func() [][]byte { return [][]byte{genuine[kDG15], dg15RSATest, dg15ECP256} }

var paceOids = []asn1.ObjectIdentifier{oid.OidPaceEcdhCamAesCbcCmac128, oid.OidPaceEcdhCamAesCbcCmac192, oid.OidPaceEcdhCamAesCbcCmac256,
	oid.OidPaceEcdhGmAesCbcCmac128, oid.OidPaceDhGm3DesCbcCbc, oid.OidCommonName, {}, {0}, {2, 999, 1 << 30}}
var paramIDs = []int{13, 12, 8, 9, 10, 11, 14, 15, 16, 17, 18, 0, 1, 2, 3, 19, 31, 32, -1, 1 << 31, -1 << 31}
var aaAlgs = []asn1.ObjectIdentifier{oid.OidRsaEncryption, oid.OidEcPublicKey, oid.OidCommonName, {}, {1}}

// fileFromSpec decodes one file source:  [src] ...
//
//	src&3 == 0 genuine, 1 fixture variant, 2 genuine with byte edits, 3 raw bytes from the input
func fileFromSpec(r *rd, kind int) []byte {
	src := r.byte()
	base := genuine[kind]
	switch src & 3 {
	case 0:
		return append([]byte{}, base...)
	case 1:
		switch kind {
		case kDG14:
			v := dg14Variants()
			return append([]byte{}, v[int(src>>2)%len(v)]...)
		case kDG15:
			v := dg15Variants()
			return append([]byte{}, v[int(src>>2)%len(v)]...)
		}
		return append([]byte{}, base...)
	case 2:
		out := append([]byte{}, base...)
		n := int(src>>2)%4 + 1
		for i := 0; i < n && len(out) > 0; i++ {
			pos := r.u16() % len(out)
			out[pos] ^= r.byte() | 1
		}
		return out
	default:
		n := r.u16()
		b := r.take(n)
		if b == nil {
			b = []byte{}
		}
		return b
	}
}

func evField(r *rd) []byte { return r.take(int(r.byte())) }

// decodeDocSpec:  [mask hi][mask lo] file... [evidence flags] evidence...
func decodeDocSpec(r *rd) *docSpec {
	s := &docSpec{}
	mask := r.u16()
	for k := 0; k < nKinds; k++ {
		if mask&(1<<k) != 0 {
			s.Files[k] = fileFromSpec(r, k)
		}
	}
	ev := r.byte()
	if ev&1 != 0 {
		if ev&8 != 0 {
			s.CA = pooledCA(nz(s.Files[kDG14], dg14Genuine), int(r.byte()))
		}
		if s.CA == nil {
			s.CA = &document.ChipAuthEvidence{TermPri: evField(r), TermPubKey: evField(r), SmRapdu: evField(r), SmSsc: evField(r)}
		}
		applySscMode(s.CA, r.byte(), r)
	}
	if ev&2 != 0 {
		if ev&16 != 0 {
			s.PACE = clonePACE(pacePool[int(r.byte())%len(pacePool)])
		}
		if s.PACE == nil {
			s.PACE = &document.PaceCamEvidence{PaceOid: paceOids[int(r.byte())%len(paceOids)], ParameterId: paramIDs[int(r.byte())%len(paramIDs)],
				Nonce: evField(r), TermMapPri: evField(r), TermMapPub: evField(r), ChipMapPub: evField(r), TermKaPri: evField(r), TermKaPub: evField(r), ChipKaPub: evField(r), EcadIC: evField(r)}
		}
	}
	if ev&4 != 0 {
		if ev&32 != 0 {
			if i := int(r.byte()); ev&64 != 0 {
				s.AA = cloneAA(aaEC[i%len(aaEC)])
			} else {
				s.AA = cloneAA(aaRSA[i%len(aaRSA)])
			}
		}
		if s.AA == nil {
			s.AA = &document.ActiveAuthEvidence{Algorithm: aaAlgs[int(r.byte())%len(aaAlgs)], Nonce: evField(r), Signature: r.take(r.u16() % 5000)}
		}
	}
	return s
}

func nz(a, b []byte) []byte {
	if len(a) == 0 {
		return b
	}
	return a
}

func nzb(b []byte) []byte {
	for _, c := range b {
		if c != 0 {
			return b
		}
	}
	return append(b, 1)
}

// applySscMode rewrites SmSsc: 0 keep, 1 nil, 2 zeros, 3 FF.., 4 one byte too long, 5 1025 bytes, 6 from input, 7 value 1
func applySscMode(e *document.ChipAuthEvidence, mode byte, r *rd) {
	n := len(e.SmSsc)
	if n == 0 {
		n = 8
	}
	switch mode % 8 {
	case 1:
		e.SmSsc = nil
	case 2:
		e.SmSsc = make([]byte, n)
	case 3:
		e.SmSsc = make([]byte, n)
		for i := range e.SmSsc {
			e.SmSsc[i] = 0xff
		}
	case 4:
		e.SmSsc = append([]byte{0x02}, make([]byte, n)...) // value-1 needs n+1 bytes
	case 5:
		e.SmSsc = make([]byte, 1025)
		e.SmSsc[0] = 0x7f
	case 6:
		e.SmSsc = evField(r)
	case 7:
		e.SmSsc = []byte{1}
	}
}

// ---- building documents ---------------------------------------------------------

// parsedDoc runs the constructors (unguarded, protected) to obtain the
// Document that an import would produce; files whose constructor fails are
// left out.  Used only to evaluate known-finding predicates and to build
// arguments for the evidence targets.
func parsedDoc(s *docSpec) *document.Document {
	doc := &document.Document{}
	for k := 0; k < nKinds; k++ {
		if s.Files[k] == nil || ctorHazard(k, s.Files[k]) != "" {
			continue
		}
		data := s.Files[k]
		protect(func() {
			if obj, err := callCtor(k, data); err == nil && obj != nil {
				setFile(doc, obj)
			}
		})
	}
	return doc
}

// rawDoc builds a Document whose files carry only RawData (what ToCbor exports).
func rawDoc(s *docSpec) *document.Document {
	doc := &document.Document{}
	f := s.Files
	if f[kCOM] != nil {
		doc.Mf.Lds1.Com = &document.COM{RawData: f[kCOM]}
	}
	if f[kSOD] != nil {
		doc.Mf.Lds1.Sod = &document.SOD{RawData: f[kSOD]}
	}
	if f[kDG1] != nil {
		doc.Mf.Lds1.Dg1 = &document.DG1{RawData: f[kDG1]}
	}
	if f[kDG2] != nil {
		doc.Mf.Lds1.Dg2 = &document.DG2{RawData: f[kDG2]}
	}
	if f[kDG7] != nil {
		doc.Mf.Lds1.Dg7 = &document.DG7{RawData: f[kDG7]}
	}
	if f[kDG11] != nil {
		doc.Mf.Lds1.Dg11 = &document.DG11{RawData: f[kDG11]}
	}
	if f[kDG12] != nil {
		doc.Mf.Lds1.Dg12 = &document.DG12{RawData: f[kDG12]}
	}
	if f[kDG13] != nil {
		doc.Mf.Lds1.Dg13 = &document.DG13{RawData: f[kDG13]}
	}
	if f[kDG14] != nil {
		doc.Mf.Lds1.Dg14 = &document.DG14{RawData: f[kDG14]}
	}
	if f[kDG15] != nil {
		doc.Mf.Lds1.Dg15 = &document.DG15{RawData: f[kDG15]}
	}
	if f[kDG16] != nil {
		doc.Mf.Lds1.Dg16 = &document.DG16{RawData: f[kDG16]}
	}
	if f[kCardAccess] != nil {
		doc.Mf.CardAccess = &document.CardAccess{RawData: f[kCardAccess]}
	}
	if f[kCardSecurity] != nil {
		doc.Mf.CardSecurity = &document.CardSecurity{RawData: f[kCardSecurity]}
	}
	if f[kEFDIR] != nil {
		doc.Mf.Dir = &document.EFDIR{RawData: f[kEFDIR]}
	}
	return doc
}

func specSession(s *docSpec) document.Session {
	var ses document.Session
	if s.CA != nil {
		ses.ChipAuthResult = &document.ChipAuthResult{Success: true, Evidence: s.CA}
	}
	if s.PACE != nil {
		ses.PaceCamResult = &document.PaceCamResult{Success: true, Evidence: s.PACE}
	}
	if s.AA != nil {
		ses.ActiveAuthResult = &document.ActiveAuthResult{Success: true, Evidence: s.AA}
	}
	return ses
}

// ---- CBOR envelopes built by the harness (hostile payloads, right checksum) ------

type hEnvelope struct {
	Magic   string `cbor:"magic"`
	Version uint   `cbor:"version"`
	SHA256  []byte `cbor:"sha256"`
	Payload []byte `cbor:"payload"`
}

type hDocEx struct {
	Document         []byte `cbor:"document"`
	ChipAuthEvidence []byte `cbor:"chipAuthEvidence"`
}

const (
	magicDoc   = "gmrtd-raw-doc"
	magicDocEx = "gmrtd-verifiable-doc"
	magicEv    = "gmrtd-chip-auth-evidence"
)

func envelope(magic string, version uint, payload []byte) []byte {
	d := sha256.Sum256(payload)
	b, err := cbor.Marshal(hEnvelope{Magic: magic, Version: version, SHA256: d[:], Payload: payload})
	if err != nil {
		panic(err)
	}
	return b
}

func mustCbor(v any) []byte {
	b, err := cbor.Marshal(v)
	if err != nil {
		panic(err)
	}
	return b
}

// ---- known-finding predicates for evidence --------------------------------------

var caWeights = map[string]struct {
	w  int
	ec bool
	bs int
}{
	oid.OidCaDh3DesCbcCbc.String(): {1112, false, 8}, oid.OidCaDhAesCbcCmac128.String(): {1128, false, 16},
	oid.OidCaDhAesCbcCmac192.String(): {1192, false, 16}, oid.OidCaDhAesCbcCmac256.String(): {1256, false, 16},
	oid.OidCaEcdh3DesCbcCbc.String(): {2112, true, 8}, oid.OidCaEcdhAesCbcCmac128.String(): {2128, true, 16},
	oid.OidCaEcdhAesCbcCmac192.String(): {2192, true, 16}, oid.OidCaEcdhAesCbcCmac256.String(): {2256, true, 16},
}

// caSelect mirrors which ChipAuthenticationInfo the library prefers (highest
// weight; inferred 3DES when only a key is present).
func caSelect(si *document.SecurityInfos) (keyID *big.Int, ec bool, bs int, ok bool) {
	best := -1
	for i := range si.ChipAuthInfos {
		w, known := caWeights[si.ChipAuthInfos[i].Protocol.String()]
		if !known {
			return nil, false, 0, false
		}
		if best < 0 || w.w > caWeights[si.ChipAuthInfos[best].Protocol.String()].w {
			best = i
		}
	}
	if best >= 0 {
		w := caWeights[si.ChipAuthInfos[best].Protocol.String()]
		return si.ChipAuthInfos[best].KeyId, w.ec, w.bs, true
	}
	if len(si.ChipAuthPubKeyInfos) > 0 {
		p := si.ChipAuthPubKeyInfos[0].Protocol
		if p.Equal(oid.OidPkDh) {
			return nil, false, 8, true
		}
		if p.Equal(oid.OidPkEcdh) {
			return nil, true, 8, true
		}
	}
	return nil, false, 0, false
}

// caKeyIDHazard: the preferred ChipAuthenticationInfo has a keyId and a public
// key of the matching type without keyId is met before a match (F9).
func caKeyIDHazard(si *document.SecurityInfos) bool {
	if si == nil {
		return false
	}
	keyID, ec, _, ok := caSelect(si)
	if !ok || keyID == nil {
		return false
	}
	target := oid.OidPkDh
	if ec {
		target = oid.OidPkEcdh
	}
	for i := range si.ChipAuthPubKeyInfos {
		pk := &si.ChipAuthPubKeyInfos[i]
		if !pk.Protocol.Equal(target) {
			continue
		}
		if pk.KeyId == nil {
			return true
		}
		if keyID.Cmp(pk.KeyId) == 0 {
			return false
		}
	}
	return false
}

// caHazard returns the known-finding class of a chipauth.VerifyEvidence call.
func caHazard(doc *document.Document, e *document.ChipAuthEvidence) string {
	if e == nil || len(e.TermPri) == 0 || len(e.TermPubKey) == 0 || len(e.SmRapdu) == 0 {
		return ""
	}
	if len(e.TermPri) > 1024 || len(e.TermPubKey) > 1024 || len(e.SmRapdu) > 1024 {
		return ""
	}
	if doc.Mf.Lds1.Dg14 == nil {
		return kfNilDG14
	}
	si := doc.Mf.Lds1.Dg14.SecInfos
	if si == nil {
		return kfNilDG14
	}
	keyID, ec, bs, ok := caSelect(si)
	if !ok {
		return ""
	}
	target := oid.OidPkDh
	if ec {
		target = oid.OidPkEcdh
	}
	_ = target
	_ = keyID
	if caKeyIDHazard(si) {
		return kfKeyID
	}
	if len(e.SmSsc) > 0 {
		v := new(big.Int).SetBytes(e.SmSsc)
		v.Sub(v, big.NewInt(1))
		if v.BitLen() > 8*bs {
			// reached only if everything before the counter is consistent: try without it
			reached := false
			cp := *e
			cp.SmSsc = nil
			protect(func() {
				_, err := chipauth.VerifyEvidence(doc, &cp)
				reached = err == nil || strings.Contains(err.Error(), "SM MAC verification failed") || strings.Contains(err.Error(), "RAPDU status")
			})
			if reached {
				return kfSsc
			}
		}
	}
	return ""
}

func evidenceStage(err error) int {
	if err == nil {
		return 2
	}
	s := err.Error()
	for _, early := range []string{"evidence is nil", "empty field", "exceeds maximum", "is nil"} {
		if strings.Contains(s, early) {
			return 0
		}
	}
	return 1
}

// ---- evidence targets ---------------------------------------------------------------

func runEvidenceCA(t TB, s *docSpec) int {
	for k, f := range s.Files {
		if f != nil {
			if h := ctorHazard(k, f); h != "" && excluded(h) {
				return -1
			}
		}
	}
	doc := parsedDoc(s)
	if h := caHazard(doc, s.CA); h != "" && excluded(h) {
		return -1
	}
	var err error
	guardPK(t, "chipauth.VerifyEvidence", s.inLen(), func() map[string]any { m := s.repro(); m["entry"] = "chipauth.VerifyEvidence"; return m }, func() {
		var r *document.ChipAuthResult
		r, err = chipauth.VerifyEvidence(doc, s.CA)
		if r != nil {
			json.Marshal(r)
		}
	})
	return evidenceStage(err)
}

func runEvidencePACE(t TB, s *docSpec) int {
	for k, f := range s.Files {
		if f != nil {
			if h := ctorHazard(k, f); h != "" && excluded(h) {
				return -1
			}
		}
	}
	doc := parsedDoc(s)
	var err error
	guardPK(t, "pace.VerifyEvidence", s.inLen(), func() map[string]any { m := s.repro(); m["entry"] = "pace.VerifyEvidence"; return m }, func() {
		var r *document.PaceCamResult
		r, err = pace.VerifyEvidence(doc, s.PACE)
		if r != nil {
			json.Marshal(r)
		}
	})
	return evidenceStage(err)
}

func runEvidenceAA(t TB, s *docSpec) int {
	for k, f := range s.Files {
		if f != nil {
			if h := ctorHazard(k, f); h != "" && excluded(h) {
				return -1
			}
		}
	}
	doc := parsedDoc(s)
	var err error
	guardPK(t, "activeauth.VerifyEvidence", s.inLen(), func() map[string]any { m := s.repro(); m["entry"] = "activeauth.VerifyEvidence"; return m }, func() {
		var r *document.ActiveAuthResult
		r, err = activeauth.VerifyEvidence(doc, s.AA)
		if r != nil {
			json.Marshal(r)
		}
	})
	return evidenceStage(err)
}

// ---- CBOR import ------------------------------------------------------------------------

func cborStage(err error) int {
	if err == nil {
		return 2
	}
	s := err.Error()
	for _, early := range []string{"cbor.Unmarshal(envelope)", "unrecognised magic", "unsupported version", "checksum mismatch", "no longer supported"} {
		if strings.Contains(s, early) && !strings.Contains(s, "NewDocumentFromCbor error") && !strings.Contains(s, "NewChipAuthEvidenceFromCbor error") {
			return 0
		}
	}
	return 1
}

// peekFiles extracts the files of a document blob if its envelope is intact
// (to evaluate the known-finding predicates on raw blobs).
func peekFiles(blob []byte) (files [nKinds][]byte, ok bool) {
	var env hEnvelope
	if cbor.Unmarshal(blob, &env) != nil || env.Magic != magicDoc {
		return files, false
	}
	d := sha256.Sum256(env.Payload)
	if string(d[:]) != string(env.SHA256) {
		return files, false
	}
	var m map[string][]byte
	if cbor.Unmarshal(env.Payload, &m) != nil {
		return files, false
	}
	names := map[string]int{"cardaccess": kCardAccess, "cardsecurity": kCardSecurity, "dir": kEFDIR, "com": kCOM, "sod": kSOD, "dg1": kDG1, "dg2": kDG2,
		"dg7": kDG7, "dg11": kDG11, "dg12": kDG12, "dg13": kDG13, "dg14": kDG14, "dg15": kDG15, "dg16": kDG16}
	for k, v := range m {
		if kind, found := names[strings.ToLower(k)]; found {
			files[kind] = v
		}
	}
	return files, true
}

func filesHazard(files [nKinds][]byte) string {
	for k, f := range files {
		if len(f) > 0 {
			if h := ctorHazard(k, f); h != "" {
				return h
			}
		}
	}
	return ""
}

// blobHazard evaluates file-level known findings on a raw (possibly nested) blob.
func blobHazard(blob []byte) string {
	if files, ok := peekFiles(blob); ok {
		return filesHazard(files)
	}
	var env hEnvelope
	if cbor.Unmarshal(blob, &env) == nil && env.Magic == magicDocEx {
		var ex hDocEx
		if cbor.Unmarshal(env.Payload, &ex) == nil {
			if files, ok := peekFiles(ex.Document); ok {
				return filesHazard(files)
			}
		}
	}
	return ""
}

// runDocumentCbor: mode 0 = raw blob; 1 = valid export of the spec; 2 = right
// envelope (checksum ok) around raw payload bytes; 3 = envelope with foreign
// magic / other version around the valid payload.
func runDocumentCbor(t TB, mode int, s *docSpec, raw []byte) int {
	var blob []byte
	switch mode % 4 {
	case 0:
		blob = raw
	case 1:
		var err error
		if blob, err = rawDoc(s).ToCbor(); err != nil {
			return 0
		}
	case 2:
		blob = envelope(magicDoc, uint(len(raw)%2), raw)
	case 3:
		inner, err := rawDoc(s).ToCbor()
		if err != nil {
			return 0
		}
		var env hEnvelope
		cbor.Unmarshal(inner, &env)
		magics := []string{magicDocEx, magicEv, "", magicDoc}
		blob = envelope(magics[len(raw)%len(magics)], uint(len(raw)%4), env.Payload)
	}
	if h := blobHazard(blob); h != "" && excluded(h) {
		return -1
	}
	var err error
	var doc *document.Document
	guard(t, "NewDocumentFromCbor", len(blob), rep("entry", "document.NewDocumentFromCbor", "input", blob), func() {
		doc, err = document.NewDocumentFromCbor(blob)
	})
	if err == nil && doc != nil {
		guard(t, "json-Document", len(blob), rep("entry", "json.Marshal/Summary of NewDocumentFromCbor(x)", "input", blob), func() {
			json.Marshal(doc)
			ex := document.DocumentEx{Document: *doc}
			json.Marshal(ex.Summary())
			doc.ToCbor()
		})
	}
	return cborStage(err)
}

// runVerifiableDoc: UnmarshalVerifiableDoc + NewChipAuthEvidenceFromCbor.
func runVerifiableDoc(t TB, mode int, s *docSpec, raw []byte) int {
	var blob, evBlob []byte
	ses := specSession(s)
	switch mode % 5 {
	case 0:
		blob, evBlob = raw, raw
	case 1:
		ex := document.DocumentEx{Document: *rawDoc(s), Session: ses}
		var err error
		if blob, err = ex.ToCbor(); err != nil {
			return 0
		}
		evBlob, _ = ses.ChipAuthEvidenceToCbor()
	case 2: // right outer envelope around raw payload
		blob = envelope(magicDocEx, 1, raw)
		evBlob = envelope(magicEv, 2, raw)
	case 3: // valid document, hostile evidence envelope
		db, err := rawDoc(s).ToCbor()
		if err != nil {
			return 0
		}
		evBlob = envelope(magicEv, uint(2+len(raw)%2), raw)
		blob = envelope(magicDocEx, 1, mustCbor(hDocEx{Document: db, ChipAuthEvidence: evBlob}))
	case 4: // hostile document inside, valid evidence
		evBlob, _ = ses.ChipAuthEvidenceToCbor()
		blob = envelope(magicDocEx, 1, mustCbor(hDocEx{Document: envelope(magicDoc, 1, raw), ChipAuthEvidence: evBlob}))
	}
	if h := blobHazard(blob); h != "" && excluded(h) {
		return -1
	}
	var err error
	guard(t, "UnmarshalVerifiableDoc", len(blob), rep("entry", "document.UnmarshalVerifiableDoc", "input", blob), func() {
		var d *document.Document
		var b *document.ChipAuthEvidenceBundle
		d, b, err = document.UnmarshalVerifiableDoc(blob)
		if err == nil {
			json.Marshal(d)
			json.Marshal(b)
		}
	})
	guard(t, "NewChipAuthEvidenceFromCbor", len(evBlob), rep("entry", "document.NewChipAuthEvidenceFromCbor", "input", evBlob), func() {
		b, e := document.NewChipAuthEvidenceFromCbor(evBlob)
		if e == nil {
			json.Marshal(b)
		}
	})
	return cborStage(err)
}

// verifierHazard: known findings reachable through verifier.Verify for this blob.
func verifierHazard(blob []byte) string {
	if h := blobHazard(blob); h != "" {
		return h
	}
	var doc *document.Document
	var b *document.ChipAuthEvidenceBundle
	var err error
	protect(func() { doc, b, err = document.UnmarshalVerifiableDoc(blob) })
	if err != nil || doc == nil || b == nil {
		return ""
	}
	if b.ChipAuth != nil {
		if h := caHazard(doc, b.ChipAuth); h != "" {
			return h
		}
	}
	var blobs [][]byte
	if doc.Mf.Lds1.Sod != nil {
		blobs = append(blobs, doc.Mf.Lds1.Sod.RawData)
	}
	if doc.Mf.CardSecurity != nil {
		blobs = append(blobs, doc.Mf.CardSecurity.RawData)
	}
	if altCurveHazardBlob(blobs...) {
		return kfAltCurve
	}
	return ""
}

var (
	sharedVerifierOnce   sync.Once
	sharedVerifier       *verifier.Verifier
	sharedMobileVerifier *mobile.Verifier
)

func runVerifier(t TB, mode int, s *docSpec, raw []byte) int {
	var blob []byte
	switch mode % 5 {
	case 0:
		blob = raw
	case 3, 4:
		// a well-formed outer envelope around a VALID document blob whose evidence member is missing,
		// null, empty or garbage (an exporter never writes that; an attacker or another producer may)
		db, err := rawDoc(s).ToCbor()
		if err != nil {
			return 0
		}
		m := map[string]any{"document": db}
		switch len(raw) % 5 {
		case 1:
			m["chipAuthEvidence"] = nil
		case 2:
			m["chipAuthEvidence"] = []byte{}
		case 3:
			m["chipAuthEvidence"] = raw
		case 4:
			m["chipAuthEvidence"] = envelope(magicEv, 1, raw)
		}
		blob = envelope(magicDocEx, 1, mustCbor(m))
	case 1:
		ex := document.DocumentEx{Document: *rawDoc(s), Session: specSession(s)}
		var err error
		if blob, err = ex.ToCbor(); err != nil {
			return 0
		}
	case 2:
		blob = envelope(magicDocEx, 1, raw)
	}
	if h := verifierHazard(blob); h != "" && excluded(h) {
		return -1
	}
	var err error
	var docEx *document.DocumentEx
	guardPK(t, "verifier.Verify", len(blob), rep("entry", "verifier.NewVerifier(built-in master lists).Verify", "input", blob), func() {
		v := verifier.NewVerifier(trustStore)
		if len(raw)%3 == 1 {
			v, _ = v.WithAAChallenge([]byte{1, 2, 3, 4, 5, 6, 7, 8})
		}
		docEx, err = v.Verify(blob)
	})
	if err == nil && docEx != nil {
		guard(t, "summary-DocumentEx", len(blob), rep("entry", "Summary()/json.Marshal/ToCbor of verifier.Verify(x)", "input", blob), func() {
			json.Marshal(docEx.Summary())
			json.Marshal(docEx)
			docEx.ToCbor()
		})
	}
	// long-lived verifier objects see the whole history of blobs of this process: an input must not
	// leave the object in a state in which a later call misbehaves (blocks, panics)
	guardPK(t, "verifier.Verify(long-lived)", len(blob), rep("entry", "one verifier.Verifier used for every blob of the run", "input", blob), func() {
		sharedVerifierOnce.Do(func() { sharedVerifier, sharedMobileVerifier = verifier.NewVerifier(trustStore), mobile.NewVerifier() })
		sharedVerifier.Verify(blob)
		sharedMobileVerifier.Verify(blob)
	})
	guardPK(t, "mobile.Verifier.Verify", len(blob), rep("entry", "mobile.NewVerifier().Verify", "input", blob), func() {
		d, e := mobile.NewVerifier().Verify(blob)
		if e == nil && d != nil {
			d.DocumentExJson()
			d.SummaryJson()
			d.DocumentExCbor()
			d.ApduLogJson()
		}
	})
	st := cborStage(err)
	if err != nil && strings.Contains(err.Error(), "UnmarshalVerifiableDoc error") && st == 1 {
		st = cborStage(fmt.Errorf("%s", strings.SplitN(err.Error(), "UnmarshalVerifiableDoc error: ", 2)[1]))
	}
	return st
}

// runSummary: build a document from parsed files and render every view.
func runSummary(t TB, s *docSpec) int {
	for k, f := range s.Files {
		if f != nil {
			if h := ctorHazard(k, f); h != "" && excluded(h) {
				return -1
			}
		}
	}
	n := 0
	var ex document.DocumentEx
	guard(t, "constructors", s.inLen(), func() map[string]any { m := s.repro(); m["entry"] = "all constructors"; return m }, func() {
		for k, f := range s.Files {
			if f == nil {
				continue
			}
			if obj, err := callCtor(k, f); err == nil && obj != nil {
				setFile(&ex.Document, obj)
				n++
			}
		}
	})
	ex.Session = specSession(s)
	guard(t, "summary-DocumentEx", s.inLen(), func() map[string]any {
		m := s.repro()
		m["entry"] = "DocumentEx.Summary/json.Marshal/ToCbor/Verify/DgHashes"
		return m
	}, func() {
		json.Marshal(ex.Summary())
		json.Marshal(&ex)
		ex.ToCbor()
		_ = ex.Document.Verify()
		ex.Document.DgHashes()
		_ = ex.Document.LdsVersion()
		_ = ex.Session.ChipAuthProtocolStatus()
		if ex.Document.Mf.Lds1.Sod != nil {
			ex.Document.Mf.Lds1.Sod.CertCountryAlpha2()
		}
	})
	if n >= 2 {
		return 2
	}
	return min(n, 1)
}

// ---- live reader against a generated chip ---------------------------------------------

type detReader struct {
	state uint64
}

func (d *detReader) Read(p []byte) (int, error) {
	for i := range p {
		d.state ^= d.state << 13
		d.state ^= d.state >> 7
		d.state ^= d.state << 17
		p[i] = byte(d.state >> 24)
	}
	return len(p), nil
}

var _ io.Reader = (*detReader)(nil)

var fileIDs = map[uint16]int{0x011C: kCardAccess, 0x011D: kSOD, 0x011E: kCOM, 0x2F00: kEFDIR, 0x0101: kDG1, 0x0102: kDG2, 0x0107: kDG7,
	0x010B: kDG11, 0x010C: kDG12, 0x010D: kDG13, 0x010E: kDG14, 0x010F: kDG15, 0x0110: kDG16}

type genChip struct {
	spec      *docSpec
	script    *rd  // generated replies for everything that is not SELECT / READ BINARY (and for everything in raw mode)
	rawMode   bool // every command is answered from the script
	chunkMode int  // 0 exact, 1 one byte short, 2 at most 7 bytes, 3 one byte more than asked
	current   []byte
	exchanges int
	maxEx     int
	replied   int // bytes sent to the reader
	inMF      bool
}

var lastStack string

func (c *genChip) Transceive(cla, ins, p1, p2 int, data []byte, le int, encoded []byte) []byte {
	c.exchanges++
	if os.Getenv("C12_DEBUG") != "" {
		lastStack = fmt.Sprintf("ins=%02x p1=%02x p2=%02x data=%x\n%s", ins, p1, p2, data, debug.Stack())
	}
	out := c.reply(ins, p1, p2, data, le)
	c.replied += len(out)
	return out
}

func (c *genChip) scripted() []byte {
	n := int(c.script.byte())
	if n == 0xff {
		n = c.script.u16() % 2000
	}
	b := c.script.take(n)
	if c.script.left() == 0 && len(b) == 0 {
		return []byte{0x6D, 0x00}
	}
	return b
}

func (c *genChip) reply(ins, p1, p2 int, data []byte, le int) []byte {
	if c.exchanges > c.maxEx {
		return []byte{0x6F, 0x00}
	}
	if c.rawMode {
		return c.scripted()
	}
	switch ins {
	case 0xA4:
		switch p1 {
		case 0x04:
			c.inMF = false
			return []byte{0x90, 0x00}
		case 0x02:
			if len(data) == 2 {
				fid := uint16(data[0])<<8 | uint16(data[1])
				kind, ok := fileIDs[fid]
				if fid == 0x011D && c.inMF {
					kind = kCardSecurity
				}
				if ok && c.spec.Files[kind] != nil {
					c.current = c.spec.Files[kind]
					return []byte{0x90, 0x00}
				}
			}
			c.current = nil
			return []byte{0x6A, 0x82}
		default:
			c.inMF = true
			return []byte{0x90, 0x00}
		}
	case 0xB0:
		if c.current == nil {
			return []byte{0x69, 0x86}
		}
		off := p1<<8 | p2
		if off > len(c.current) {
			return []byte{0x6B, 0x00}
		}
		n := le
		switch c.chunkMode {
		case 1:
			if n > 1 {
				n--
			}
		case 2:
			n = min(n, 7)
		case 3:
			n++
		}
		n = min(n, len(c.current)-off)
		return cat(c.current[off:off+n], []byte{0x90, 0x00})
	}
	return c.scripted()
}

type nopStatus struct{}

func (nopStatus) Status(reader.Status) {}

const sampleMRZ = "I<UTOERIKSSON<<ANNA<MARIA<<<<<<<<<<<D231458907UTO7408122F1204159<<<<<<<6"

// readerCmdBytes: the commands the reader sends are logged too; each exchange
// is granted a nominal command size on top of the bytes the chip returned.
const readerCmdBytes = 64

// runReader:  [flags][chunkMode][maxEx] docSpec... script...
// readerView: what NfcSession.ReadFile hands to the constructor: the first
// header (which must fit into the first four bytes read) decides how many bytes
// are fetched, a longer file is cut there.
func readerView(f []byte) []byte {
	c := &cursor{b: f[:min(len(f), 4)]}
	if _, ok := parseTag(c); !ok {
		return nil
	}
	l, ok := parseLen(c)
	if !ok || l < 0 {
		return nil
	}
	total := int(l) + c.p
	if total <= len(f) {
		return f[:total]
	}
	return f
}

func runReader(t TB, flags byte, chunkMode int, s *docSpec, script []byte) int {
	for k, f := range s.Files {
		if f != nil {
			for _, view := range [][]byte{f, readerView(f)} {
				if h := ctorHazard(k, view); h != "" && excluded(h) {
					if os.Getenv("C12_DEBUG") != "" {
						fmt.Println("reader hazard", h, kindName[k], len(view))
					}
					return -1
				}
			}
		}
	}
	if f := readerView(s.Files[kDG14]); f != nil {
		var d14 *document.DG14
		protect(func() { d14, _ = document.NewDG14(f) })
		if d14 != nil && caKeyIDHazard(d14.SecInfos) && excluded(kfKeyID) {
			return -1
		}
	}
	var blobs [][]byte
	blobs = append(blobs, s.Files[kSOD], s.Files[kCardSecurity], script)
	if altCurveHazardBlob(blobs...) && excluded(kfAltCurve) {
		return -1
	}
	// every scripted reply may be handed to tlv.Decode by the protocol code (PACE / CA / BAC)
	for sr := (&genChip{script: &rd{b: script}}); sr.script.left() > 0; {
		if sc := scanDecode(rapduData(sr.scripted())); sc.lie >= lieMin && excluded(kfLie) {
			return -1
		}
	}
	maxEx := 300
	chip := &genChip{spec: s, script: &rd{b: script}, rawMode: flags&1 != 0, chunkMode: chunkMode % 4, maxEx: maxEx}
	old := rand.Reader
	rand.Reader = &detReader{state: 0x9E3779B97F4A7C15 ^ uint64(len(script))<<7 ^ uint64(flags)}
	defer func() { rand.Reader = old }()

	var docEx *document.DocumentEx
	var err error
	// The bound needs the number of exchanges, known only afterwards: measure
	// with an upper limit first, then compare precisely.
	pass, _ := password.NewPasswordMrz(sampleMRZ)
	if flags&2 != 0 {
		pass = password.NewPasswordCan("123456")
	}
	inLenFn := func() int { return chip.replied + readerCmdBytes*chip.exchanges }
	guardLate(t, "reader.ReadDocument", inLenFn, func() map[string]any {
		m := s.repro()
		m["entry"] = "reader.ReadDocument"
		m["flags"] = flags
		m["chunkMode"] = chunkMode
		m["script"] = hx(script)
		m["exchanges"] = chip.exchanges
		return m
	}, func() {
		nfc := iso7816.NewNfcSession(chip)
		rd := reader.NewReader(nopStatus{}, nfc, trustStore)
		if flags&4 != 0 {
			rd.SkipPace()
		}
		if flags&8 != 0 {
			rd.SkipImages()
		}
		if flags&16 != 0 {
			rd, _ = rd.WithAAChallenge([]byte{8, 7, 6, 5, 4, 3, 2, 1})
		}
		var log *iso7816.ApduLog
		docEx, log, err = rd.ReadDocument(pass, []byte{0x3B, 0x80}, nil)
		if docEx != nil {
			json.Marshal(docEx.Summary())
			json.Marshal(docEx)
		}
		if log != nil {
			json.Marshal(log)
		}
	})
	if !fuzzing {
		evid.Count("reader-exchanges", int64(chip.exchanges))
		if err != nil && (strings.Contains(err.Error(), "runtime error") || strings.Contains(err.Error(), "unknown panic")) {
			evid.Count("reader-recovered-panics", 1)
			msg := err.Error()
			if len(msg) > 300 {
				msg = msg[:300]
			}
			evid.Metric("reader-recovered-panic-sample", msg)
			if os.Getenv("C12_DEBUG") != "" {
				fmt.Println("RECOVERED:", msg, hx(script), "flags", flags, "\n", lastStack)
			}
		}
	}
	if docEx != nil && docEx.Document.Mf.Lds1.Sod != nil {
		return 2
	}
	if chip.exchanges > 6 {
		return 1
	}
	return 0
}

// guardLate is guard() with the input length evaluated after the call.
func guardLate(t TB, target string, inLen func() int, repro func() map[string]any, fn func()) {
	t.Helper()
	guardN(t, target, true, inLen, repro, fn)
}
