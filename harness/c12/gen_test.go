package c12

// rapid generators: random bytes, mutations of genuine files, a
// hostile-constant dictionary, a structure-aware BER generator (indefinite and
// lying lengths, long tags, depth 51, 10 001 nodes, malformed OIDs), LDS-shaped
// files, document specs with evidence.

import (
	"github.com/gmrtd/gmrtd/document"
	"pgregory.net/rapid"
)

// hostile constants
var dict = [][]byte{
	{0x80}, {0x84, 0xFF, 0xFF, 0xFF, 0xFF}, {0x84, 0x7F, 0xFF, 0xFF, 0xFF}, {0x84, 0x04, 0x00, 0x00, 0x00}, {0x84, 0x00, 0x10, 0x00, 0x00},
	{0x83, 0xFF, 0xFF, 0xFF}, {0x82, 0xFF, 0xFF}, {0x81, 0xFF}, {0x81, 0x7F}, {0x85, 0x01, 0x00, 0x00, 0x00, 0x00}, {0x00, 0x00}, {0x00},
	{0x1F, 0x81, 0x81, 0x01}, {0x7F, 0x81, 0x81, 0x01}, {0x5F, 0x8F, 0x8F, 0x8F, 0x8F}, {0x1F, 0x81, 0x81, 0x81, 0x01}, {0x1F, 0x80, 0x01}, {0x1F},
	{0x06, 0x00}, {0x06, 0x01, 0x80}, {0x06, 0x02, 0x80, 0x01}, {0x06, 0x03, 0xFF, 0xFF, 0xFF}, {0x06, 0x06, 0x8F, 0xFF, 0xFF, 0xFF, 0xFF, 0x7F},
	{0x06, 0x02, 0x2A, 0x86}, {0x06, 0x81, 0x80}, {0x30, 0x80}, {0x31, 0x80}, {0x7F, 0x61, 0x80}, {0xA0, 0x80}, {0x24, 0x80},
	{0x30, 0x84, 0xFF, 0xFF, 0xFF, 0xFF}, {0x04, 0x84, 0xFF, 0xFF, 0xFF, 0xFF}, {0x02, 0x01, 0x00}, {0x02, 0x01, 0x0F}, {0x02, 0x01, 0x10}, {0x02, 0x01, 0xFF},
	{0x02, 0x09, 0x01, 0, 0, 0, 0, 0, 0, 0, 0}, {0x5C, 0x00}, {0x5C, 0x01, 0x5F}, {0x5C, 0x02, 0x5F, 0x0F}, {0x5C, 0x01, 0xA0}, {0x05, 0x00}, {0x01, 0x01, 0xFF},
	{0x99, 0x02, 0x90, 0x00}, {0x8E, 0x08, 0, 0, 0, 0, 0, 0, 0, 0}, {0x87, 0x01, 0x01}, {0x87, 0x00}, {0x85, 0x00}, {0x90, 0x00}, {0x6A, 0x82}, {0x62, 0x83},
	{0xFF, 0xD8, 0xFF}, {0x46, 0x41, 0x43, 0x00}, {0xFF, 0xFF, 0xFF, 0xFF}, {0x7F, 0xFF, 0xFF, 0xFF}, {0x80, 0x00, 0x00, 0x00},
	[]byte("<<"), []byte("<<<<<<<<<<<<<<<"), []byte("  "),
}

func genSmall(rt *rapid.T, label string, max int) []byte {
	return rapid.SliceOfN(rapid.Byte(), 0, max).Draw(rt, label)
}

// genFill: a long run of one byte (cheap to draw).
func genFill(rt *rapid.T, max int) []byte {
	n := rapid.IntRange(0, max).Draw(rt, "filln")
	v := rapid.Byte().Draw(rt, "fillv")
	out := make([]byte, n)
	for i := range out {
		out[i] = v
	}
	return out
}

func genRandom(rt *rapid.T, max int) []byte {
	switch rapid.IntRange(0, 9).Draw(rt, "rk") {
	case 0:
		return genSmall(rt, "r", 4)
	case 1, 2, 3, 4:
		return genSmall(rt, "r", 48)
	case 5, 6, 7:
		return genSmall(rt, "r", 400)
	case 8:
		return genSmall(rt, "r", min(max, 4096))
	}
	return cat(genSmall(rt, "r", 64), genFill(rt, max), genSmall(rt, "r2", 16))
}

var hostileBytes = []byte{0x00, 0x01, 0x7F, 0x80, 0x81, 0x82, 0x83, 0x84, 0x85, 0xFF, 0x1F, 0x5F, 0x7F, 0x9F, 0x30, 0x31, 0xA0, 0xA1, 0x06, 0x02, 0x04, 0x3C, 0x20}

// genMutated applies 1..4 edits to a genuine file.
func genMutated(rt *rapid.T, base []byte, others [][]byte) []byte {
	out := append([]byte{}, base...)
	n := rapid.IntRange(1, 4).Draw(rt, "nmut")
	for i := 0; i < n; i++ {
		if len(out) == 0 {
			out = append(out, genSmall(rt, "ins0", 8)...)
			continue
		}
		// positions biased to the head of the file (headers, length fields)
		pos := 0
		if rapid.Bool().Draw(rt, "head") {
			pos = rapid.IntRange(0, min(len(out)-1, 40)).Draw(rt, "posh")
		} else {
			pos = rapid.IntRange(0, len(out)-1).Draw(rt, "pos")
		}
		switch rapid.IntRange(0, 11).Draw(rt, "op") {
		case 0:
			out[pos] ^= 1 << rapid.IntRange(0, 7).Draw(rt, "bit")
		case 1:
			out[pos] = rapid.SampledFrom(hostileBytes).Draw(rt, "hb")
		case 2:
			out[pos] = rapid.Byte().Draw(rt, "b")
		case 3: // insert a dictionary token
			tok := rapid.SampledFrom(dict).Draw(rt, "tok")
			out = cat(out[:pos], tok, out[pos:])
		case 4: // overwrite with a dictionary token
			tok := rapid.SampledFrom(dict).Draw(rt, "tok")
			out = cat(out[:pos], tok, out[min(len(out), pos+len(tok)):])
		case 5: // delete a range
			l := rapid.IntRange(1, min(64, len(out)-pos)).Draw(rt, "dl")
			out = cat(out[:pos], out[pos+l:])
		case 6: // duplicate a range
			l := rapid.IntRange(1, min(256, len(out)-pos)).Draw(rt, "dupl")
			out = cat(out[:pos+l], out[pos:])
		case 7: // truncate
			out = out[:pos]
		case 8: // extend
			out = append(out, genSmall(rt, "ext", 16)...)
		case 9: // splice the tail of another genuine file
			if len(others) > 0 {
				o := rapid.SampledFrom(others).Draw(rt, "oth")
				if len(o) > 0 {
					q := rapid.IntRange(0, len(o)-1).Draw(rt, "opos")
					out = cat(out[:pos], o[q:])
				}
			}
		case 10: // big filler in the middle
			out = cat(out[:pos], genFill(rt, 20000), out[pos:])
		case 11: // increment / decrement (length fields off by one)
			if rapid.Bool().Draw(rt, "inc") {
				out[pos]++
			} else {
				out[pos]--
			}
		}
	}
	return out
}

// ---- BER ------------------------------------------------------------------------------

var tagPool = []uint32{0x02, 0x04, 0x05, 0x06, 0x0C, 0x13, 0x17, 0x30, 0x31, 0x5C, 0x5F01, 0x5F36, 0x5F1F, 0x5F0E, 0x5F0F, 0x5F10, 0x5F2B, 0x5F50, 0x5F51, 0x5F52, 0x5F53,
	0x5F2E, 0x7F2E, 0x5F43, 0x60, 0x61, 0x67, 0x6B, 0x6C, 0x6D, 0x6E, 0x6F, 0x70, 0x75, 0x77, 0x7F61, 0x7F60, 0xA0, 0xA1, 0xA2, 0xAF, 0x80, 0x81, 0x87, 0x85, 0x99, 0x8E, 0x4F,
	0x00, 0x1F8101, 0x1F818101, 0x7F818101, 0x3F01, 0x24}

func genTag(rt *rapid.T) []byte {
	switch rapid.IntRange(0, 9).Draw(rt, "tk") {
	case 0:
		return []byte{rapid.Byte().Draw(rt, "tb")}
	case 1:
		return rapid.SampledFrom([][]byte{{0x1F, 0x81, 0x81, 0x81, 0x01}, {0x5F, 0x8F, 0x8F, 0x8F, 0x8F}, {0x1F, 0x80, 0x01}, {0x1F, 0xFF, 0x7F}, {0x7F, 0x81}}).Draw(rt, "tx")
	}
	return encTag(rapid.SampledFrom(tagPool).Draw(rt, "tp"))
}

var validOIDs = [][]byte{{0x2A, 0x86, 0x48, 0xCE, 0x3D, 0x02, 0x01}, {0x04, 0x00, 0x7F, 0x00, 0x07, 0x02, 0x02, 0x04, 0x02, 0x02}, {0x55, 0x04, 0x06}, {0x67, 0x81, 0x08, 0x01, 0x01, 0x01}}
var badOIDs = [][]byte{{}, {0x80}, {0x80, 0x01}, {0xFF, 0xFF, 0xFF}, {0x2A, 0x86}, {0x8F, 0xFF, 0xFF, 0xFF, 0xFF, 0x7F}, {0x2A, 0x80, 0x01}}

// genLen encodes a length field for n content bytes with a hostile form now and then.
func genLen(rt *rapid.T, n int, constructed bool) (enc []byte, indef bool) {
	switch rapid.IntRange(0, 19).Draw(rt, "lk") {
	case 0: // non-minimal
		switch rapid.IntRange(0, 2).Draw(rt, "nm") {
		case 0:
			if n < 256 {
				return []byte{0x81, byte(n)}, false
			}
		case 1:
			if n < 65536 {
				return []byte{0x82, byte(n >> 8), byte(n)}, false
			}
		}
		return []byte{0x84, byte(n >> 24), byte(n >> 16), byte(n >> 8), byte(n)}, false
	case 1: // indefinite
		return []byte{0x80}, constructed
	case 2: // lying
		return rapid.SampledFrom([][]byte{{0x84, 0xFF, 0xFF, 0xFF, 0xFF}, {0x84, 0x7F, 0xFF, 0xFF, 0xFF}, {0x84, 0x04, 0x00, 0x00, 0x00}, {0x83, 0x10, 0x00, 0x00}, {0x82, 0xFF, 0xFF}, {0x85, 0, 0, 0, 0, 1}}).Draw(rt, "lie"), false
	case 3: // off by one
		if rapid.Bool().Draw(rt, "up") {
			return encLen(n + 1), false
		}
		if n > 0 {
			return encLen(n - 1), false
		}
	}
	return encLen(n), false
}

func genPrimitive(rt *rapid.T, tag []byte) []byte {
	if len(tag) == 1 && tag[0] == 0x06 {
		if rapid.Bool().Draw(rt, "okoid") {
			return rapid.SampledFrom(validOIDs).Draw(rt, "oid")
		}
		if rapid.IntRange(0, 5).Draw(rt, "oidbig") == 0 {
			return genFill(rt, 300)
		}
		return rapid.SampledFrom(badOIDs).Draw(rt, "boid")
	}
	switch rapid.IntRange(0, 5).Draw(rt, "vk") {
	case 0:
		return nil
	case 1:
		return []byte{rapid.Byte().Draw(rt, "v1")}
	case 2:
		return rapid.SampledFrom(dict).Draw(rt, "vd")
	case 3:
		return []byte(rapid.StringMatching(`[A-Z0-9<]{0,40}`).Draw(rt, "vs"))
	}
	return genSmall(rt, "v", 24)
}

func genNode(rt *rapid.T, depth int, budget *int) []byte {
	*budget--
	tag := genTag(rt)
	cons := tag[0]&0x20 != 0
	if cons && depth > 0 && *budget > 0 {
		nk := rapid.IntRange(0, 4).Draw(rt, "nk")
		var content []byte
		for i := 0; i < nk && *budget > 0; i++ {
			content = append(content, genNode(rt, depth-1, budget)...)
		}
		l, indef := genLen(rt, len(content), true)
		out := cat(tag, l, content)
		if indef && rapid.IntRange(0, 4).Draw(rt, "eoc") != 0 {
			out = append(out, 0, 0)
		}
		return out
	}
	v := genPrimitive(rt, tag)
	l, _ := genLen(rt, len(v), false)
	return cat(tag, l, v)
}

// genBER: normal trees plus the shapes that probe the decoder limits.
func genBER(rt *rapid.T) []byte {
	shape := rapid.IntRange(0, 12).Draw(rt, "shape")
	budget := 40
	switch shape {
	case 12: // very deep chain (far beyond any sane nesting limit): 100..3000 levels of definite short, definite long (82 xx xx) or indefinite lengths
		d := rapid.SampledFrom([]int{100, 300, 1000, 2000, 3000}).Draw(rt, "vdeep")
		form := rapid.IntRange(0, 2).Draw(rt, "vform")
		tag := rapid.SampledFrom([]byte{0x30, 0x31, 0xA0, 0x61, 0x7F}).Draw(rt, "vtag")
		inner := []byte{0x04, 0x01, 0x41}
		for i := 0; i < d; i++ {
			hdr := []byte{tag}
			if tag == 0x7F {
				hdr = []byte{0x7F, 0x61}
			}
			switch {
			case form == 2:
				inner = cat(hdr, []byte{0x80}, inner, []byte{0, 0})
			case form == 1 || len(inner) > 127:
				inner = cat(hdr, []byte{0x82, byte(len(inner) >> 8), byte(len(inner))}, inner)
			default:
				inner = cat(hdr, []byte{byte(len(inner))}, inner)
			}
			if len(inner) > 60000 {
				break
			}
		}
		return inner
	case 0: // deep chain around a leaf: depth 45..56 (limit is 50), definite or indefinite
		d := rapid.IntRange(44, 56).Draw(rt, "deep")
		indef := rapid.Bool().Draw(rt, "dind")
		inner := genNode(rt, 1, &budget)
		for i := 0; i < d; i++ {
			if indef {
				inner = cat([]byte{0x30, 0x80}, inner, []byte{0, 0})
			} else {
				inner = tl(0x30, inner)
			}
		}
		return inner
	case 1: // wide: around the node limit
		n := rapid.SampledFrom([]int{9990, 9999, 10000, 10001, 10010, 500, 3000}).Draw(rt, "wide")
		leaf := rapid.SampledFrom([][]byte{{0x01, 0x00}, {0x02, 0x01, 0x41}, {0x30, 0x00}, {0x06, 0x01, 0x2A}, {0x30, 0x80, 0x00, 0x00}}).Draw(rt, "leaf")
		var body []byte
		for i := 0; i < n; i++ {
			body = append(body, leaf...)
		}
		d := rapid.IntRange(0, 3).Draw(rt, "wdepth")
		for i := 0; i < d; i++ {
			body = tl(0x30, body)
		}
		return body
	case 2: // deep AND wide (String() amplification shape)
		n := rapid.IntRange(50, 3000).Draw(rt, "dwn")
		d := rapid.IntRange(10, 49).Draw(rt, "dwd")
		var body []byte
		for i := 0; i < n; i++ {
			body = append(body, 0x01, 0x00)
		}
		for i := 0; i < d; i++ {
			body = tl(0x30, body)
		}
		return body
	}
	var out []byte
	roots := rapid.IntRange(1, 3).Draw(rt, "roots")
	for i := 0; i < roots; i++ {
		out = append(out, genNode(rt, rapid.IntRange(0, 6).Draw(rt, "d"), &budget)...)
	}
	return out
}

// genLDS: a file of the given kind built from its grammar with hostile fields.
func genLDS(rt *rapid.T, kind int) []byte {
	budget := 30
	sub := func() []byte { return genNode(rt, 3, &budget) }
	val := func(label string, genuineLike []byte) []byte {
		switch rapid.IntRange(0, 3).Draw(rt, label) {
		case 0:
			return genuineLike
		case 1:
			return genSmall(rt, label+"v", 20)
		case 2:
			return rapid.SampledFrom(dict).Draw(rt, label+"d")
		}
		return nil
	}
	switch kind {
	case kCOM:
		return tl(0x60, tl(0x5F01, val("ver", []byte("0107"))), tl(0x5F36, val("uni", []byte("040000"))), tl(0x5C, val("tags", []byte{0x61, 0x75, 0x5F, 0x0E})), sub())
	case kDG1:
		return tl(0x61, tl(0x5F1F, val("mrz", []byte(sampleMRZ))), sub())
	case kDG11:
		if rapid.IntRange(0, 2).Draw(rt, "dg11-layout") == 0 {
			// other names directly under 6B (no A0 template, no count object), 0..4 of them, possibly
			// empty or filler-only; the tag list may or may not announce them
			tags := [][]byte{{0x5F, 0x0E, 0x5F, 0x0F}, {0x5F, 0x0F}, {0x5F, 0x0E, 0xA0}, {0x5F, 0x0F, 0x5F, 0x0F}, {}}[rapid.IntRange(0, 4).Draw(rt, "dg11-tags")]
			parts := [][]byte{tl(0x5C, tags)}
			if rapid.Bool().Draw(rt, "dg11-name") {
				parts = append(parts, tl(0x5F0E, val("nm", []byte("SMITH<<JOHN"))))
			}
			for i, n := 0, rapid.IntRange(0, 4).Draw(rt, "dg11-others"); i < n; i++ {
				parts = append(parts, tl(0x5F0F, rapid.SampledFrom([][]byte{nil, {}, []byte("<"), []byte("<<<<"), []byte("A<<B"), []byte(" "), {0x00}}).Draw(rt, "dg11-on")))
			}
			return tl(0x6B, parts...)
		}
		return tl(0x6B, tl(0x5C, val("tl", []byte{0x5F, 0x0E, 0x5F, 0x0F, 0xA0, 0x5F, 0x2B, 0x5F, 0x11, 0x5F, 0x42})), tl(0x5F0E, val("nm", []byte("SMITH<<JOHN"))),
			tl(0xA0, tl(0x02, val("cnt", []byte{2})), tl(0x5F0F, val("on", []byte("A<<B"))), sub()), tl(0x5F2B, val("dob", []byte{0x19, 0x70, 0x01, 0x01})), sub())
	case kDG12:
		return tl(0x6C, tl(0x5C, val("tl", []byte{0x5F, 0x19, 0x5F, 0x1A, 0x5F, 0x26, 0x5F, 0x55})), tl(0x5F19, val("ia", []byte("UTOPIA"))),
			tl(0xA0, tl(0x02, val("cnt", []byte{1})), tl(0x5F1A, val("op", []byte("X<<Y")))), tl(0x5F26, val("doi", []byte("20200101"))), sub())
	case kDG16:
		n := rapid.IntRange(0, 16).Draw(rt, "ntmpl")
		parts := [][]byte{tl(0x02, val("cnt", []byte{byte(n)}))}
		for i := 1; i <= min(n, 3); i++ {
			parts = append(parts, tl(uint32(0xA0+i), tl(0x5F50, val("dt", []byte("20020101"))), tl(0x5F51, val("nm", []byte("SMITH<<CHARLES"))), tl(0x5F52, val("tel", []byte("123"))), tl(0x5F53, val("adr", []byte("A<B"))), sub()))
		}
		return tl(0x70, parts...)
	case kDG7:
		return tl(0x67, tl(0x02, val("cnt", []byte{1})), tl(0x5F43, val("img", []byte{0xFF, 0xD8, 0xFF, 0xE0})), sub())
	case kEFDIR:
		return cat(tl(0x61, tl(0x4F, val("aid", []byte{0xA0, 0, 0, 2, 0x47, 0x10, 1}))), tl(0x61, sub()))
	case kDG2:
		bdb := val("bdb", seed19794)
		if rapid.Bool().Draw(rt, "bdbGrammar") {
			bdb = gen19794(rt)
		}
		return tl(0x75, tl(0x7F61, tl(0x02, val("cnt", []byte{1})), tl(0x7F60, tl(0xA1, tl(0x80, []byte{1, 1}), tl(0x87, []byte{1, 1}), tl(0x88, []byte{0, 8}), sub()), tl(uint32(rapid.SampledFrom([]int{0x5F2E, 0x7F2E}).Draw(rt, "bt")), bdb))))
	case kDG13, kDG15, kDG14, kSOD:
		root := map[int]uint32{kDG13: 0x6D, kDG15: 0x6F, kDG14: 0x6E, kSOD: 0x77}[kind]
		inner := val("inner", genuine[kind][min(4, len(genuine[kind])):])
		l, _ := genLen(rt, len(inner), true)
		return cat(encTag(root), l, inner)
	}
	return sub()
}

// gen19794 builds an ISO/IEC 19794-5 facial record from its grammar with hostile
// length / count fields: FacialHeader (FAC\0, version, record length, number of faces),
// then per face FacialInfo (block length, number of feature points, ...), the feature
// point blocks (8 octets each, as many as declared or fewer), ImageInfo (12 octets)
// and an image.  The block length is drawn around every boundary the parser
// computes with: 0, 20, 31, 32, 32 + 8n - 1, 32 + 8n, the exact value, the
// exact value +- 1, and values with the top bit set.
func gen19794(rt *rapid.T) []byte {
	be16 := func(v int) []byte { return []byte{byte(v >> 8), byte(v)} }
	be32 := func(v uint32) []byte { return []byte{byte(v >> 24), byte(v >> 16), byte(v >> 8), byte(v)} }
	nFaces := rapid.SampledFrom([]int{1, 1, 1, 2, 3, 0}).Draw(rt, "faces")
	var body []byte
	for f := 0; f < nFaces; f++ {
		nPts := rapid.SampledFrom([]int{0, 1, 1, 2, 3, 5, 40}).Draw(rt, "points")
		declPts := nPts
		switch rapid.IntRange(0, 7).Draw(rt, "pointsLie") {
		case 0:
			declPts = nPts + rapid.IntRange(1, 3).Draw(rt, "ptsMore")
		case 1:
			declPts = 65535
		}
		img := append([]byte{0xFF, 0xD8, 0xFF, 0xE0}, genSmall(rt, "img", 40)...)
		if rapid.IntRange(0, 5).Draw(rt, "imgKind") == 0 {
			img = append([]byte{0x00, 0x00, 0x00, 0x0C, 0x6A, 0x50, 0x20, 0x20, 0x0D, 0x0A}, genSmall(rt, "jp2", 40)...)
		}
		exact := uint32(20 + 12 + 8*declPts + len(img))
		length := exact
		switch rapid.IntRange(0, 13).Draw(rt, "blockLen") {
		case 0:
			length = 0
		case 1:
			length = 20
		case 2:
			length = 31
		case 3:
			length = 32
		case 4:
			length = uint32(32 + 8*declPts - 1)
		case 5:
			length = uint32(32 + 8*declPts)
		case 6:
			length = uint32(32 + rapid.IntRange(0, 8*declPts+1).Draw(rt, "within"))
		case 7:
			length = exact + 1
		case 8:
			length = exact - 1
		case 9:
			length = 0x80000000 | exact
		case 10:
			length = 0xFFFFFFFF
		}
		fi := cat(be32(length), be16(declPts), genFixed(rt, "fi", 14))
		var pts []byte
		for i := 0; i < nPts; i++ {
			pts = append(pts, genFixed(rt, "pt", 8)...)
		}
		body = cat(body, fi, pts, genFixed(rt, "ii", 12), img)
	}
	declFaces := nFaces
	if rapid.IntRange(0, 9).Draw(rt, "facesLie") == 0 {
		declFaces = rapid.SampledFrom([]int{0, nFaces + 1, 255, 65535}).Draw(rt, "declFaces")
	}
	total := uint32(14 + len(body))
	switch rapid.IntRange(0, 9).Draw(rt, "recLen") {
	case 0:
		total -= uint32(rapid.IntRange(1, 8).Draw(rt, "recShort")) // tolerated by the parser (observed on real passports)
	case 1:
		total = rapid.SampledFrom([]uint32{0, 13, 14, 0xFFFFFFFF, total + 1, total + 9}).Draw(rt, "recOdd")
	}
	return cat([]byte{'F', 'A', 'C', 0, '0', '1', '0', 0}, be32(total), be16(declFaces), body)
}

// genFixed draws exactly n octets.
func genFixed(rt *rapid.T, label string, n int) []byte {
	return rapid.SliceOfN(rapid.Byte(), n, n).Draw(rt, label)
}

// genInput returns an input for a byte-oriented target and its generator class.
func genInput(rt *rapid.T, seeds [][]byte, ldsKind int, max int) ([]byte, string) {
	k := rapid.IntRange(0, 9).Draw(rt, "gk")
	switch {
	case k <= 1:
		return genRandom(rt, max), "random"
	case k <= 5 && len(seeds) > 0:
		base := rapid.SampledFrom(seeds).Draw(rt, "seed")
		return genMutated(rt, base, seeds), "mutated"
	case k == 6:
		// dictionary splice
		n := rapid.IntRange(1, 6).Draw(rt, "nd")
		var out []byte
		for i := 0; i < n; i++ {
			out = append(out, rapid.SampledFrom(dict).Draw(rt, "dt")...)
			if rapid.Bool().Draw(rt, "gl") {
				out = append(out, genSmall(rt, "glue", 6)...)
			}
		}
		return out, "dictionary"
	case k == 7 && ldsKind >= 0:
		return genLDS(rt, ldsKind), "grammar"
	case k == 9 && len(seeds) > 0:
		return append([]byte{}, rapid.SampledFrom(seeds).Draw(rt, "seed")...), "genuine"
	}
	return genBER(rt), "structured"
}

// ---- document specs ----------------------------------------------------------------------

func genFile(rt *rapid.T, kind int) []byte {
	switch rapid.IntRange(0, 9).Draw(rt, "fk") {
	case 0, 1, 2, 3:
		return append([]byte{}, genuine[kind]...)
	case 4:
		switch kind {
		case kDG14:
			return append([]byte{}, rapid.SampledFrom(dg14Variants()).Draw(rt, "v14")...)
		case kDG15:
			return append([]byte{}, rapid.SampledFrom(dg15Variants()).Draw(rt, "v15")...)
		}
		return append([]byte{}, genuine[kind]...)
	case 5, 6, 7:
		return genMutated(rt, genuine[kind], nil)
	case 8:
		return genLDS(rt, kind)
	}
	return genRandom(rt, 2000)
}

func genEvBytes(rt *rapid.T, label string, genuineLike []byte) []byte {
	switch rapid.IntRange(0, 9).Draw(rt, label) {
	case 0, 1, 2, 3, 4:
		return genuineLike
	case 5:
		if len(genuineLike) > 0 {
			out := append([]byte{}, genuineLike...)
			out[rapid.IntRange(0, len(out)-1).Draw(rt, label+"p")] ^= 1 << rapid.IntRange(0, 7).Draw(rt, label+"b")
			return out
		}
	case 6:
		return genSmall(rt, label+"r", 70)
	case 7:
		return nil
	case 8:
		n := rapid.SampledFrom([]int{1, 1023, 1024, 1025, 4096, 4097}).Draw(rt, label+"n")
		out := make([]byte, n)
		out[0] = 4
		return out
	}
	if len(genuineLike) > 1 {
		return genuineLike[:len(genuineLike)-1]
	}
	return []byte{1}
}

// genDocSpec draws a document (subset of files) and an evidence bundle.
// want: bit 0 CA, bit 1 PACE, bit 2 AA evidence are drawn with high probability.
func genDocSpec(rt *rapid.T, want int) *docSpec {
	s := &docSpec{}
	full := rapid.IntRange(0, 3).Draw(rt, "full") != 0
	for k := 0; k < nKinds; k++ {
		present := full
		if rapid.IntRange(0, 5).Draw(rt, "flip") == 0 {
			present = !present
		}
		if present {
			s.Files[k] = genFile(rt, k)
		}
	}
	// the mechanism under test mostly gets the file it needs
	if want == 1 && rapid.IntRange(0, 9).Draw(rt, "need14") != 0 && s.Files[kDG14] == nil {
		s.Files[kDG14] = genFile(rt, kDG14)
	}
	if want == 2 && rapid.IntRange(0, 9).Draw(rt, "needcs") != 0 {
		s.Files[kCardSecurity] = append([]byte{}, genuine[kCardSecurity]...)
	}
	if want == 4 && rapid.IntRange(0, 9).Draw(rt, "need15") != 0 && s.Files[kDG15] == nil {
		s.Files[kDG15] = genFile(rt, kDG15)
	}
	has := func(bit int) bool {
		if want&bit != 0 {
			return rapid.IntRange(0, 9).Draw(rt, "hev") != 0
		}
		return rapid.IntRange(0, 3).Draw(rt, "hev") == 0
	}
	if has(1) {
		base := pooledCA(nz(s.Files[kDG14], dg14Genuine), rapid.IntRange(0, 2).Draw(rt, "capool"))
		if base == nil {
			base = &document.ChipAuthEvidence{TermPri: []byte{1}, TermPubKey: []byte{4, 1}, SmRapdu: []byte{0x90, 0}, SmSsc: nil}
		}
		s.CA = &document.ChipAuthEvidence{TermPri: genEvBytes(rt, "cpri", base.TermPri), TermPubKey: genEvBytes(rt, "cpub", base.TermPubKey),
			SmRapdu: genEvBytes(rt, "crap", base.SmRapdu), SmSsc: base.SmSsc}
		ssc := &rd{b: genSmall(rt, "sscb", 20)}
		applySscMode(s.CA, byte(rapid.SampledFrom([]int{0, 0, 0, 0, 1, 2, 3, 4, 5, 6, 7}).Draw(rt, "sscm")), ssc)
	}
	if has(2) {
		base := clonePACE(pacePool[rapid.IntRange(0, len(pacePool)-1).Draw(rt, "ppool")])
		s.PACE = &document.PaceCamEvidence{
			PaceOid:     rapid.SampledFrom(append(append(paceOids[:0:0], paceOids...), paceOids[0], paceOids[0], paceOids[0], paceOids[0])).Draw(rt, "poid"),
			ParameterId: rapid.SampledFrom(append(append(paramIDs[:0:0], paramIDs...), 13, 13, 13, 13, 13, 13, 13, 13)).Draw(rt, "pid"),
			Nonce:       genEvBytes(rt, "pnn", base.Nonce), TermMapPri: genEvBytes(rt, "ptm", base.TermMapPri), TermMapPub: genEvBytes(rt, "ptmp", base.TermMapPub),
			ChipMapPub: genEvBytes(rt, "pcmp", base.ChipMapPub), TermKaPri: genEvBytes(rt, "ptk", base.TermKaPri), TermKaPub: genEvBytes(rt, "ptkp", base.TermKaPub),
			ChipKaPub: genEvBytes(rt, "pckp", base.ChipKaPub), EcadIC: genEvBytes(rt, "pec", base.EcadIC),
		}
	}
	if has(4) {
		var base *document.ActiveAuthEvidence
		if rapid.Bool().Draw(rt, "aaec") {
			base = cloneAA(aaEC[rapid.IntRange(0, len(aaEC)-1).Draw(rt, "aapool")])
			if rapid.IntRange(0, 2).Draw(rt, "aaswap") != 0 {
				s.Files[kDG15] = append([]byte{}, dg15ECP256...)
			}
		} else {
			base = cloneAA(aaRSA[rapid.IntRange(0, len(aaRSA)-1).Draw(rt, "aapool")])
			if rapid.IntRange(0, 2).Draw(rt, "aaswap") != 0 {
				s.Files[kDG15] = append([]byte{}, dg15RSATest...)
			}
		}
		if base == nil {
			base = &document.ActiveAuthEvidence{}
		}
		s.AA = &document.ActiveAuthEvidence{Algorithm: rapid.SampledFrom(append(append(aaAlgs[:0:0], aaAlgs...), base.Algorithm, base.Algorithm, base.Algorithm)).Draw(rt, "aalg"),
			Nonce: genEvBytes(rt, "aan", base.Nonce), Signature: genEvBytes(rt, "asig", base.Signature)}
	}
	return s
}
