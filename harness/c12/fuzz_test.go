package c12

// Native fuzz targets (thorough tier: ./verif runs each for a fixed budget;
// quick tier: the seed corpus below is replayed as plain tests).  The oracle
// is inside the run functions (guard).

import (
	"testing"

	"github.com/gmrtd/gmrtd/document"
)

func hostileSeeds() [][]byte {
	deep := []byte{0x01, 0x00}
	for i := 0; i < 51; i++ {
		deep = tl(0x30, deep)
	}
	var wide []byte
	for i := 0; i < 10001; i++ {
		wide = append(wide, 0x01, 0x00)
	}
	out := [][]byte{deep, wide, {0x30, 0x80, 0x30, 0x80, 0x00, 0x00, 0x00, 0x00}, {0x1F, 0x81, 0x81, 0x01, 0x00}, {0x30, 0x03, 0x06, 0x01, 0x2A}}
	for _, d := range dict {
		out = append(out, d)
	}
	return out
}

func addBytes(f *testing.F, seeds ...[]byte) {
	for _, s := range seeds {
		f.Add(s)
	}
}

func fuzzBytes(f *testing.F, run string, sel int, seeds ...[]byte) {
	addBytes(f, seeds...)
	f.Fuzz(func(t *testing.T, data []byte) {
		dispatch(t, caseDesc{Run: run, Sel: sel, Data: data})
	})
}

func FuzzTlvDecode(f *testing.F) {
	fuzzBytes(f, "tlv-decode", 0, append(allGenuine(), hostileSeeds()...)...)
}

func FuzzTlvUnwrapTags(f *testing.F) {
	fuzzBytes(f, "tlv-unwrap", 0, append([][]byte{genuine[kSOD], genuine[kDG13], genuine[kDG15], genuine[kCOM], {0x5F, 0x0E, 0x5F, 0x0F, 0xA0}}, hostileSeeds()...)...)
}

func FuzzRApdu(f *testing.F) { fuzzBytes(f, "rapdu", 0, smSeeds()...) }

func FuzzSMDecode(f *testing.F) {
	var seeds [][]byte
	for suite := 0; suite < 4; suite++ {
		for _, s := range smSeeds() {
			seeds = append(seeds, cat([]byte{byte(suite), 0, 0}, s), cat([]byte{byte(suite), 5, 1}, s), cat([]byte{byte(suite), 1, 2, 0x90, 0x00}, []byte("plaintext response data")),
				cat([]byte{byte(suite), 3, 3}, make([]byte, 16), []byte{0x90, 0x00}, make([]byte, 32)))
		}
	}
	fuzzBytes(f, "sm", 0, seeds...)
}

func ctorSeeds(kind int) [][]byte {
	return append([][]byte{genuine[kind]}, hostileSeeds()[2:12]...)
}

func FuzzCOM(f *testing.F)  { fuzzBytes(f, "ctor", kCOM, ctorSeeds(kCOM)...) }
func FuzzDG1(f *testing.F)  { fuzzBytes(f, "ctor", kDG1, ctorSeeds(kDG1)...) }
func FuzzDG2(f *testing.F)  { fuzzBytes(f, "ctor", kDG2, ctorSeeds(kDG2)...) }
func FuzzDG7(f *testing.F)  { fuzzBytes(f, "ctor", kDG7, ctorSeeds(kDG7)...) }
func FuzzDG11(f *testing.F) { fuzzBytes(f, "ctor", kDG11, ctorSeeds(kDG11)...) }
func FuzzDG12(f *testing.F) { fuzzBytes(f, "ctor", kDG12, ctorSeeds(kDG12)...) }
func FuzzDG14(f *testing.F) {
	fuzzBytes(f, "ctor", kDG14, append(ctorSeeds(kDG14), dg14Variants()...)...)
}
func FuzzDG16(f *testing.F)         { fuzzBytes(f, "ctor", kDG16, ctorSeeds(kDG16)...) }
func FuzzSOD(f *testing.F)          { fuzzBytes(f, "ctor", kSOD, ctorSeeds(kSOD)...) }
func FuzzCardSecurity(f *testing.F) { fuzzBytes(f, "ctor", kCardSecurity, ctorSeeds(kCardSecurity)...) }
func FuzzEFDIR(f *testing.F)        { fuzzBytes(f, "ctor", kEFDIR, ctorSeeds(kEFDIR)...) }

func FuzzDG13DG15(f *testing.F) {
	f.Add(byte(0), genuine[kDG13])
	f.Add(byte(1), genuine[kDG15])
	f.Add(byte(1), dg15ECP256)
	f.Add(byte(0), []byte{0x6D, 0x80})
	f.Fuzz(func(t *testing.T, sel byte, data []byte) {
		kind := kDG13
		if sel&1 == 1 {
			kind = kDG15
		}
		dispatch(t, caseDesc{Run: "ctor", Sel: kind, Data: data})
	})
}

func FuzzCardAccess(f *testing.F) {
	addBytes(f, genuine[kCardAccess], genuine[kDG14][4:], dg14TDESP256[2:], dg14KeyIDInfo[4:])
	f.Fuzz(func(t *testing.T, data []byte) {
		dispatch(t, caseDesc{Run: "ctor", Sel: kCardAccess, Data: data})
		dispatch(t, caseDesc{Run: "secinfos", Data: data})
	})
}

func FuzzNewDG(f *testing.F) {
	for i, k := range []int{kDG1, kDG2, kDG7, kDG11, kDG12, kDG13, kDG14, kDG15, kDG16} {
		f.Add(byte(i), genuine[k])
	}
	f.Add(byte(9), genuine[kDG1])
	f.Fuzz(func(t *testing.T, sel byte, data []byte) {
		dispatch(t, caseDesc{Run: "newdg", Sel: int(sel), Data: data})
	})
}

func FuzzISO19794(f *testing.F) { fuzzBytes(f, "iso19794", 0, seed19794, seed19794[:64]) }

func FuzzISO39794(f *testing.F) {
	seeds := [][]byte{seed39794Small}
	if seed39794 != nil {
		seeds = append(seeds, seed39794)
	}
	fuzzBytes(f, "iso39794", 0, seeds...)
}

func FuzzMrz(f *testing.F) {
	var seeds [][]byte
	for _, s := range mrzSeeds {
		seeds = append(seeds, []byte(s))
	}
	fuzzBytes(f, "mrz", 0, seeds...)
}

func FuzzCmsSignedData(f *testing.F) {
	seeds := [][]byte{genuine[kCardSecurity]}
	if u := scanUnwrap(genuine[kSOD]); u.ok {
		seeds = append(seeds, u.val)
	}
	fuzzBytes(f, "signed-data", 0, seeds...)
}

func FuzzCmsCertificates(f *testing.F) {
	mk := func(certs, keys []byte) []byte {
		return cat([]byte{byte(len(certs) >> 8), byte(len(certs))}, certs, keys)
	}
	fuzzBytes(f, "certificates", 0, mk(certSOD, []byte{1, 2, 3}), mk(certCardSec, unhex("af9dd5e6565737a8804b5b4c6f45093d809aa865")), mk(cat(certSOD, certCardSec), nil))
}

func FuzzCmsVerifySignature(f *testing.F) {
	mk := func(sa, da int, digest, pk, sig []byte) []byte {
		return cat([]byte{byte(sa), byte(da), byte(len(digest)), byte(len(pk) >> 8), byte(len(pk))}, digest, pk, sig)
	}
	d32 := make([]byte, 32)
	sigOK := unhex("3006020101020101")
	addBytes(f, mk(2, 2, d32, spkiCardSec, sigOK), mk(8, 2, d32, spkiSOD, make([]byte, 256)), mk(11, 2, d32, spkiSOD, make([]byte, 256)),
		mk(2, 2, d32, dg15ECP256[2:], sigOK), mk(6, 0, d32[:20], dg15RSATest[4:], make([]byte, 128)), mk(2, 2, d32, bp192SPKI, sigOK))
	f.Fuzz(func(t *testing.T, data []byte) {
		dispatch(t, caseDesc{Run: "verify-signature", Data: data})
	})
}

// ---- composite targets: bytes -> docSpec ------------------------------------------------

// specSeed serialises the decoder-layer layout for a few useful starting points.
func specSeeds() [][]byte {
	all := []byte{0x3F, 0xFF}
	gen := make([]byte, nKinds) // every file genuine
	withTestDG15 := append([]byte{}, gen...)
	withTestDG15[kDG15] = 0x05 // fixture variant 1 (harness RSA key)
	caValid := []byte{0, 0}    // pool index, ssc mode
	paceValid := []byte{0}     // pool index
	aaValid := []byte{0}       // pool index
	return [][]byte{
		cat(all, gen, []byte{0}),
		cat(all, withTestDG15, []byte{0x3F}, caValid, paceValid, aaValid),
		cat(all, gen, []byte{0x09}, caValid),
		cat(all, gen, []byte{0x12}, paceValid),
		cat([]byte{0x00, 0x06}, []byte{0, 0}, []byte{0x01}, []byte{1, 1}, []byte{1, 4}, []byte{2, 0x90, 0}, []byte{0}, []byte{0}),
		cat([]byte{0x01, 0x04}, []byte{0x0D, 0}, []byte{0x0B}, caValid),   // DG14 variant with keyId on the info only
		cat([]byte{0x00, 0x00}, []byte{0x09}, caValid),                    // no DG14 at all
		cat([]byte{0x01, 0x00}, []byte{0x00}, []byte{0x09}, []byte{0, 4}), // oversized counter
	}
}

func fuzzSpec(f *testing.F, run string) {
	addBytes(f, specSeeds()...)
	f.Fuzz(func(t *testing.T, data []byte) {
		dispatch(t, caseDesc{Run: run, Spec: decodeDocSpec(&rd{b: data})})
	})
}

func FuzzEvidenceCA(f *testing.F)   { fuzzSpec(f, "evidence-ca") }
func FuzzEvidencePACE(f *testing.F) { fuzzSpec(f, "evidence-pace") }
func FuzzEvidenceAA(f *testing.F)   { fuzzSpec(f, "evidence-aa") }
func FuzzSummaryJSON(f *testing.F)  { fuzzSpec(f, "summary") }

func docExOf(s *docSpec) *document.DocumentEx {
	return &document.DocumentEx{Document: *rawDoc(s), Session: specSession(s)}
}

// blob targets:  [mode] [spec...]   with mode 0 => the rest is the raw blob
func fuzzBlob(f *testing.F, run string, rawModulo int) {
	base := decodeDocSpec(&rd{b: specSeeds()[1]})
	ex := docExOf(base)
	b1, _ := ex.Document.ToCbor()
	b2, _ := ex.ToCbor()
	b3, _ := ex.Session.ChipAuthEvidenceToCbor()
	small := docExOf(decodeDocSpec(&rd{b: specSeeds()[4]}))
	b4, _ := small.ToCbor()
	for _, b := range [][]byte{b1, b2, b3, b4} {
		f.Add(cat([]byte{0}, b))
	}
	for m := 1; m < rawModulo; m++ {
		for _, s := range specSeeds()[:4] {
			f.Add(cat([]byte{byte(m)}, s))
		}
	}
	f.Fuzz(func(t *testing.T, data []byte) {
		if len(data) == 0 {
			return
		}
		mode := int(data[0])
		if mode%rawModulo == 0 {
			dispatch(t, caseDesc{Run: run, Mode: mode, Spec: &docSpec{}, Data: data[1:]})
			return
		}
		r := &rd{b: data[1:]}
		s := decodeDocSpec(r)
		dispatch(t, caseDesc{Run: run, Mode: mode, Spec: s, Data: r.rest()})
	})
}

func FuzzDocumentCbor(f *testing.F)      { fuzzBlob(f, "document-cbor", 4) }
func FuzzVerifiableDocCbor(f *testing.F) { fuzzBlob(f, "verifiable-doc", 5) }
func FuzzVerifier(f *testing.F)          { fuzzBlob(f, "verifier", 3) }

// FuzzReader:  [flags][chunkMode] spec... script...
func FuzzReader(f *testing.F) {
	for _, s := range specSeeds()[:2] {
		f.Add(cat([]byte{0, 0}, s, []byte{2, 0x90, 0x00, 10, 1, 2, 3, 4, 5, 6, 7, 8, 0x90, 0x00}))
		f.Add(cat([]byte{4, 2}, s))
		f.Add(cat([]byte{1, 0}, s, []byte{2, 0x90, 0x00, 2, 0x90, 0x00, 6, 0x61, 0x02, 0x5F, 0x1F, 0x90, 0x00}))
	}
	f.Fuzz(func(t *testing.T, data []byte) {
		r := &rd{b: data}
		flags, chunk := r.byte(), r.byte()
		s := decodeDocSpec(r)
		s.CA, s.PACE, s.AA = nil, nil, nil
		dispatch(t, caseDesc{Run: "reader", Flags: int(flags), Mode: int(chunk), Spec: s, Data: r.rest()})
	})
}
