package c12

// caseDesc is the canonical, replayable description of one evaluated case:
// which oracle function, and its arguments.  Fuzz targets, rapid properties,
// regression tests and ./verif replay all go through dispatch().

import (
	"encoding/asn1"
	"encoding/hex"
	"encoding/json"
	"fmt"
	"os"
	"testing"

	"github.com/gmrtd/gmrtd/document"
)

type caseDesc struct {
	Run   string   // oracle function
	Sel   int      // kind / selector
	Mode  int      // mode for the CBOR targets, chunk mode for the reader
	Flags int      // reader flags
	Data  []byte   // byte input (or raw blob / chip script)
	Spec  *docSpec // composite input
}

var cur caseDesc

func (c caseDesc) describe() map[string]any {
	m := map[string]any{"run": c.Run, "sel": c.Sel, "mode": c.Mode, "flags": c.Flags, "data": hx(c.Data)}
	if c.Spec != nil {
		m["spec"] = c.Spec.repro()
	}
	return m
}

func dispatch(t TB, c caseDesc) int {
	cur = c
	switch c.Run {
	case "tlv-decode":
		return runTlvDecode(t, c.Data)
	case "tlv-unwrap":
		return runTlvUnwrap(t, c.Data)
	case "rapdu":
		return runRApdu(t, c.Data)
	case "sm":
		return runSM(t, c.Data)
	case "ctor":
		return runCtor(t, c.Sel, c.Data)
	case "newdg":
		return runNewDG(t, byte(c.Sel), c.Data)
	case "secinfos":
		return runSecInfos(t, c.Data)
	case "iso19794":
		return runISO19794(t, c.Data)
	case "iso39794":
		return runISO39794(t, c.Data)
	case "mrz":
		return runMrz(t, c.Data)
	case "verify-signature":
		return runVerifySignature(t, c.Data)
	case "signed-data":
		return runSignedData(t, c.Data)
	case "certificates":
		return runCertificates(t, c.Data)
	case "evidence-ca":
		return runEvidenceCA(t, c.Spec)
	case "evidence-pace":
		return runEvidencePACE(t, c.Spec)
	case "evidence-aa":
		return runEvidenceAA(t, c.Spec)
	case "document-cbor":
		return runDocumentCbor(t, c.Mode, c.Spec, c.Data)
	case "verifiable-doc":
		return runVerifiableDoc(t, c.Mode, c.Spec, c.Data)
	case "verifier":
		return runVerifier(t, c.Mode, c.Spec, c.Data)
	case "summary":
		return runSummary(t, c.Spec)
	case "reader":
		return runReader(t, byte(c.Flags), c.Mode, c.Spec, c.Data)
	}
	panic("unknown run function " + c.Run)
}

// ---- replay of a saved JSON repro -------------------------------------------------------

func unhexOpt(s string) []byte {
	if s == "" {
		return nil
	}
	b, _ := hex.DecodeString(s)
	if b == nil {
		b = []byte{}
	}
	return b
}

func specFromJSON(m map[string]any) *docSpec {
	s := &docSpec{}
	str := func(x any) string { v, _ := x.(string); return v }
	if files, ok := m["files"].(map[string]any); ok {
		for k := 0; k < nKinds; k++ {
			if v, ok := files[kindName[k]]; ok {
				b := unhexOpt(str(v))
				if b == nil {
					b = []byte{}
				}
				s.Files[k] = b
			}
		}
	}
	ints := func(x any) asn1.ObjectIdentifier {
		var out asn1.ObjectIdentifier
		if l, ok := x.([]any); ok {
			for _, v := range l {
				f, _ := v.(float64)
				out = append(out, int(f))
			}
		}
		return out
	}
	if ca, ok := m["ca"].(map[string]any); ok {
		s.CA = &document.ChipAuthEvidence{TermPri: unhexOpt(str(ca["termPri"])), TermPubKey: unhexOpt(str(ca["termPubKey"])), SmRapdu: unhexOpt(str(ca["smRapdu"])), SmSsc: unhexOpt(str(ca["smSsc"]))}
	}
	if p, ok := m["pace"].(map[string]any); ok {
		pid, _ := p["parameterId"].(float64)
		s.PACE = &document.PaceCamEvidence{PaceOid: ints(p["paceOid"]), ParameterId: int(pid), Nonce: unhexOpt(str(p["nonce"])), TermMapPri: unhexOpt(str(p["termMapPri"])),
			TermMapPub: unhexOpt(str(p["termMapPub"])), ChipMapPub: unhexOpt(str(p["chipMapPub"])), TermKaPri: unhexOpt(str(p["termKaPri"])), TermKaPub: unhexOpt(str(p["termKaPub"])),
			ChipKaPub: unhexOpt(str(p["chipKaPub"])), EcadIC: unhexOpt(str(p["ecadIC"]))}
	}
	if a, ok := m["aa"].(map[string]any); ok {
		s.AA = &document.ActiveAuthEvidence{Algorithm: ints(a["algorithm"]), Nonce: unhexOpt(str(a["nonce"])), Signature: unhexOpt(str(a["signature"]))}
	}
	return s
}

// TestReplayJSON re-executes a saved JSON repro (./verif replay C12 <file>).
func TestReplayJSON(t *testing.T) {
	path := os.Getenv("VERIF_REPLAY_JSON")
	if path == "" {
		return
	}
	b, err := os.ReadFile(path)
	if err != nil {
		t.Fatalf("read: %v", err)
	}
	var doc struct {
		Case struct {
			Replay map[string]any `json:"replay"`
		} `json:"case"`
	}
	if err := json.Unmarshal(b, &doc); err != nil || doc.Case.Replay == nil {
		t.Fatalf("no replayable case in %s: %v", path, err)
	}
	r := doc.Case.Replay
	num := func(k string) int { f, _ := r[k].(float64); return int(f) }
	c := caseDesc{Run: fmt.Sprint(r["run"]), Sel: num("sel"), Mode: num("mode"), Flags: num("flags")}
	if s, ok := r["data"].(string); ok {
		c.Data, _ = hex.DecodeString(s)
	}
	if sp, ok := r["spec"].(map[string]any); ok {
		c.Spec = specFromJSON(sp)
	} else {
		c.Spec = &docSpec{}
	}
	dispatch(t, c)
}
