package c12

// rapid properties: one Test function per target group, all driving the same
// oracle functions as the native fuzz targets.

import (
	"testing"

	"pgregory.net/rapid"

	"verifharness/evid"
)

func allGenuine() [][]byte {
	out := make([][]byte, 0, nKinds)
	for k := 0; k < nKinds; k++ {
		out = append(out, genuine[k])
	}
	return out
}

func TestPropTLV(t *testing.T) {
	seeds := allGenuine()
	evid.RapidCheck(t, 40000, 400000, func(rt *rapid.T) {
		data, cls := genInput(rt, seeds, -1, 30000)
		run := rapid.SampledFrom([]string{"tlv-decode", "tlv-decode", "tlv-unwrap"}).Draw(rt, "run")
		st := dispatch(rt, caseDesc{Run: run, Data: data})
		record("tlv", cls, st, data)
	})
}

func smSeeds() [][]byte {
	return [][]byte{
		unhex("990290008e08fa855a5d4c50a8ed9000"),
		unhex("8709019ff0ec34f9922651990290008e08ad55cc17140b2ded9000"),
		unhex("871901fb9235f4e4037f2327dcc8964f1f9b8c30f42c8e2fff224a990290008e08c8b2787eaea07d749000"),
		{0x90, 0x00}, {0x6A, 0x82}, {0x69, 0x88},
	}
}

func TestPropApduSM(t *testing.T) {
	seeds := smSeeds()
	evid.RapidCheck(t, 40000, 400000, func(rt *rapid.T) {
		if rapid.IntRange(0, 3).Draw(rt, "which") == 0 {
			data, cls := genInput(rt, seeds, -1, 70000)
			st := dispatch(rt, caseDesc{Run: "rapdu", Data: data})
			record("rapdu", cls, st, data)
			return
		}
		body, cls := genInput(rt, seeds, -1, 20000)
		hdr := []byte{byte(rapid.IntRange(0, 3).Draw(rt, "suite")), byte(rapid.IntRange(0, 5).Draw(rt, "sscm")), byte(rapid.IntRange(0, 3).Draw(rt, "bodym"))}
		data := cat(hdr, body)
		st := dispatch(rt, caseDesc{Run: "sm", Data: data})
		record("sm", cls, st, data)
	})
}

func TestPropLDS(t *testing.T) {
	evid.RapidCheck(t, 120000, 1200000, func(rt *rapid.T) {
		which := rapid.IntRange(0, nKinds+3).Draw(rt, "target")
		switch {
		case which < nKinds:
			data, cls := genInput(rt, [][]byte{genuine[which]}, which, 66000)
			st := dispatch(rt, caseDesc{Run: "ctor", Sel: which, Data: data})
			record("lds-"+kindName[which], cls, st, data)
		case which == nKinds:
			sel := rapid.IntRange(0, len(newDGNumbers)-1).Draw(rt, "dgsel")
			kind := rapid.SampledFrom([]int{kDG1, kDG2, kDG7, kDG11, kDG12, kDG13, kDG14, kDG15, kDG16}).Draw(rt, "dgkind")
			data, cls := genInput(rt, [][]byte{genuine[kind]}, kind, 20000)
			st := dispatch(rt, caseDesc{Run: "newdg", Sel: sel, Data: data})
			record("lds-NewDG", cls, st, data)
		case which == nKinds+1:
			data, cls := genInput(rt, [][]byte{genuine[kCardAccess], genuine[kDG14][4:]}, -1, 8000)
			st := dispatch(rt, caseDesc{Run: "secinfos", Data: data})
			record("lds-SecurityInfos", cls, st, data)
		case which == nKinds+2:
			data, cls := genInput(rt, [][]byte{seed19794}, -1, 20000)
			if rapid.IntRange(0, 2).Draw(rt, "grammar19794") > 0 {
				data, cls = gen19794(rt), "grammar"
			}
			st := dispatch(rt, caseDesc{Run: "iso19794", Data: data})
			record("lds-ISO19794", cls, st, data)
		default:
			seeds := [][]byte{seed39794Small}
			if rapid.IntRange(0, 9).Draw(rt, "big") == 0 && seed39794 != nil {
				seeds = [][]byte{seed39794}
			}
			data, cls := genInput(rt, seeds, -1, 20000)
			st := dispatch(rt, caseDesc{Run: "iso39794", Data: data})
			record("lds-ISO39794", cls, st, data)
		}
	})
}

// genVerifySigInput builds the byte layout of runVerifySignature from structured draws.
func genVerifySigInput(rt *rapid.T) ([]byte, string) {
	pks := [][]byte{spkiSOD, spkiCardSec, bp192SPKI, dg15RSATest[4:], dg15ECP256[2:]}
	var pk []byte
	cls := "structured"
	switch rapid.IntRange(0, 3).Draw(rt, "pkk") {
	case 0:
		pk = rapid.SampledFrom(pks).Draw(rt, "pk")
	case 1, 2:
		pk = genMutated(rt, rapid.SampledFrom(pks).Draw(rt, "pk"), nil)
		cls = "mutated"
	default:
		pk = genRandom(rt, 600)
		cls = "random"
	}
	var sig []byte
	switch rapid.IntRange(0, 3).Draw(rt, "sgk") {
	case 0: // DER (r,s) with interesting magnitudes
		r := rapid.SampledFrom([][]byte{{1}, {0}, bp192N.Bytes(), p192N.Bytes(), {0x7f, 0xff}, make([]byte, 70)}).Draw(rt, "r")
		s := rapid.SampledFrom([][]byte{{1}, {0}, bp192N.Bytes(), {0xff}, make([]byte, 24)}).Draw(rt, "s")
		ri, si := append([]byte{0}, r...), append([]byte{0}, s...)
		sig = tl(0x30, tl(0x02, trimInt(ri)), tl(0x02, trimInt(si)))
	case 1:
		sig = genSmall(rt, "sigr", 140)
	case 2:
		sig = genFill(rt, 600)
	default:
		sig = genBER(rt)
	}
	digest := genSmall(rt, "dig", 64)
	hdr := []byte{byte(rapid.IntRange(0, len(sigAlgs)-1).Draw(rt, "sa")), byte(rapid.IntRange(0, len(digAlgs)-1).Draw(rt, "da")), byte(len(digest)), byte(len(pk) >> 8), byte(len(pk))}
	return cat(hdr, digest, pk, sig), cls
}

// trimInt: minimal two's-complement positive INTEGER content.
func trimInt(b []byte) []byte {
	for len(b) > 1 && b[0] == 0 && b[1]&0x80 == 0 {
		b = b[1:]
	}
	return b
}

func TestPropCMS(t *testing.T) {
	sdSeeds := func() [][]byte {
		out := [][]byte{genuine[kCardSecurity]}
		if u := scanUnwrap(genuine[kSOD]); u.ok {
			out = append(out, u.val)
		}
		return out
	}()
	evid.RapidCheck(t, 16000, 160000, func(rt *rapid.T) {
		switch rapid.IntRange(0, 2).Draw(rt, "target") {
		case 0:
			data, cls := genInput(rt, sdSeeds, -1, 20000)
			st := dispatch(rt, caseDesc{Run: "signed-data", Data: data})
			record("cms-SignedData", cls, st, data)
		case 1:
			certs, cls := genInput(rt, [][]byte{certSOD, certCardSec, cat(certSOD, certCardSec)}, -1, 20000)
			keys := genSmall(rt, "keys", 40)
			data := cat([]byte{byte(len(certs) >> 8), byte(len(certs))}, certs, keys)
			if len(certs) >= 0xff00 {
				data = cat([]byte{0xff, 0xff}, certs)
			}
			st := dispatch(rt, caseDesc{Run: "certificates", Data: data})
			record("cms-Certificates", cls, st, data)
		default:
			data, cls := genVerifySigInput(rt)
			st := dispatch(rt, caseDesc{Run: "verify-signature", Data: data})
			record("cms-VerifySignature", cls, st, data)
		}
	})
}

var mrzSeeds = []string{
	sampleMRZ,
	"P<UTOERIKSSON<<ANNA<MARIA<<<<<<<<<<<<<<<<<<<L898902C36UTO7408122F1204159ZE184226B<<<<<10",
	"I<UTOD231458907<<<<<<<<<<<<<<<7408122F1204159UTO<<<<<<<<<<<6ERIKSSON<<ANNA<MARIA<<<<<<<<<<",
	"I<UTOD23145890<7349<<<<<<<<<<<3407127M9507122UTO<<<<<<<<<<<2STEVENSON<<PETER<JOHN<<<<<<<<<",
}

func TestPropMRZ(t *testing.T) {
	evid.RapidCheck(t, 40000, 400000, func(rt *rapid.T) {
		var data []byte
		cls := "random"
		switch rapid.IntRange(0, 4).Draw(rt, "mk") {
		case 0:
			data = genRandom(rt, 200)
		case 1: // right length, MRZ alphabet
			n := rapid.SampledFrom([]int{72, 88, 90, 71, 89, 91, 0, 30}).Draw(rt, "len")
			data = []byte(rapid.StringOfN(rapid.RuneFrom([]rune("ABCDEFGHIJKLMNOPQRSTUVWXYZ0123456789<< ")), n, n, -1).Draw(rt, "s"))
			cls = "grammar"
		case 2: // right length, any bytes
			n := rapid.SampledFrom([]int{72, 88, 90}).Draw(rt, "len")
			data = rapid.SliceOfN(rapid.Byte(), n, n).Draw(rt, "b")
			cls = "structured"
		default:
			base := []byte(rapid.SampledFrom(mrzSeeds).Draw(rt, "seed"))
			out := append([]byte{}, base...)
			for i := rapid.IntRange(0, 3).Draw(rt, "n"); i > 0; i-- {
				pos := rapid.IntRange(0, len(out)-1).Draw(rt, "pos")
				out[pos] = rapid.SampledFrom([]byte("<<<< 0123456789AZ\x00\xff\x80")).Draw(rt, "c")
			}
			data = out
			cls = "mutated"
		}
		st := dispatch(rt, caseDesc{Run: "mrz", Data: data})
		record("mrz", cls, st, data)
	})
}

func specClass(s *docSpec) string {
	n := 0
	for _, f := range s.Files {
		if f != nil {
			n++
		}
	}
	switch {
	case n == 0:
		return "no-files"
	case n < 5:
		return "few-files"
	}
	return "many-files"
}

func specKey(s *docSpec) []byte {
	var b []byte
	for k, f := range s.Files {
		b = append(b, byte(k), byte(len(f)), byte(len(f)>>8))
		b = append(b, f[:min(len(f), 64)]...)
		if len(f) > 64 {
			b = append(b, f[len(f)-32:]...)
		}
	}
	if s.CA != nil {
		b = cat(b, []byte{0xC0}, s.CA.TermPri, s.CA.TermPubKey, s.CA.SmRapdu, s.CA.SmSsc)
	}
	if e := s.PACE; e != nil {
		b = cat(b, []byte{0xC1, byte(e.ParameterId), byte(len(e.PaceOid))}, e.Nonce, e.TermMapPri, e.TermMapPub, e.ChipMapPub, e.TermKaPri, e.TermKaPub, e.ChipKaPub, e.EcadIC)
	}
	if e := s.AA; e != nil {
		b = cat(b, []byte{0xC2, byte(len(e.Algorithm))}, e.Nonce, e.Signature)
	}
	return b
}

func TestPropEvidence(t *testing.T) {
	evid.RapidCheck(t, 24000, 240000, func(rt *rapid.T) {
		which := rapid.IntRange(0, 2).Draw(rt, "mech")
		s := genDocSpec(rt, 1<<which)
		run := []string{"evidence-ca", "evidence-pace", "evidence-aa"}[which]
		if which == 0 && s.CA == nil && rapid.Bool().Draw(rt, "nilok") {
			return
		}
		st := dispatch(rt, caseDesc{Run: run, Spec: s})
		record(run, specClass(s), st, specKey(s))
	})
}

// genBlob: a raw blob for the CBOR targets — mostly valid exports with edits.
func genBlob(rt *rapid.T, s *docSpec) []byte {
	ex := docExOf(s)
	var base []byte
	switch rapid.IntRange(0, 3).Draw(rt, "bk") {
	case 0:
		base, _ = ex.Document.ToCbor()
	case 1:
		base, _ = ex.ToCbor()
	case 2:
		base, _ = ex.Session.ChipAuthEvidenceToCbor()
	default:
		return genRandom(rt, 3000)
	}
	if rapid.Bool().Draw(rt, "edit") {
		return genMutated(rt, base, nil)
	}
	return base
}

func TestPropCborVerifier(t *testing.T) {
	evid.RapidCheck(t, 24000, 240000, func(rt *rapid.T) {
		s := genDocSpec(rt, 7)
		run := rapid.SampledFrom([]string{"document-cbor", "verifiable-doc", "verifier", "verifier"}).Draw(rt, "run")
		mode := rapid.IntRange(0, 4).Draw(rt, "mode")
		var raw []byte
		rawMode := mode == 0
		if run == "verifier" {
			rawMode = mode%3 == 0
		} else if run == "document-cbor" {
			rawMode = mode%4 == 0
		} else {
			rawMode = mode%5 == 0
		}
		if rawMode {
			raw = genBlob(rt, s)
		} else {
			raw, _ = genInput(rt, nil, -1, 3000)
		}
		st := dispatch(rt, caseDesc{Run: run, Mode: mode, Spec: s, Data: raw})
		record(run, specClass(s), st, cat(specKey(s), raw[:min(len(raw), 256)], []byte{byte(mode)}))
	})
}

func TestPropSummaryJSON(t *testing.T) {
	evid.RapidCheck(t, 16000, 160000, func(rt *rapid.T) {
		s := genDocSpec(rt, 7)
		st := dispatch(rt, caseDesc{Run: "summary", Spec: s})
		record("summary", specClass(s), st, specKey(s))
	})
}

func TestPropReader(t *testing.T) {
	evid.RapidCheck(t, 16000, 160000, func(rt *rapid.T) {
		s := genDocSpec(rt, 0)
		flags := rapid.IntRange(0, 31).Draw(rt, "flags")
		if rapid.IntRange(0, 3).Draw(rt, "rawchip") != 0 {
			flags &^= 1
		}
		chunk := rapid.IntRange(0, 3).Draw(rt, "chunk")
		// script: generated replies  [len][bytes]...
		var script []byte
		n := rapid.IntRange(0, 12).Draw(rt, "nrep")
		for i := 0; i < n; i++ {
			var r []byte
			switch rapid.IntRange(0, 4).Draw(rt, "rk") {
			case 0:
				r = rapid.SampledFrom([][]byte{{0x90, 0x00}, {0x6A, 0x82}, {0x69, 0x82}, {0x63, 0x00}, {}, {0x90}}).Draw(rt, "sw")
			case 1:
				r = cat(genSmall(rt, "rb", 40), []byte{0x90, 0x00})
			case 2:
				r = cat(genBER(rt), []byte{0x90, 0x00})
			case 3:
				r = cat(tl(0x7C, tl(uint32(0x80+rapid.IntRange(0, 10).Draw(rt, "dt")), genSmall(rt, "dv", 70))), []byte{0x90, 0x00})
			default:
				r = genSmall(rt, "rr", 12)
			}
			if len(r) >= 2000 {
				r = r[:1999]
			}
			if len(r) > 254 {
				script = append(script, 0xff, byte(len(r)>>8), byte(len(r)))
			} else {
				script = append(script, byte(len(r)))
			}
			script = append(script, r...)
		}
		st := dispatch(rt, caseDesc{Run: "reader", Flags: flags, Mode: chunk, Spec: s, Data: script})
		cls := "file-server"
		if flags&1 != 0 {
			cls = "scripted"
		}
		record("reader", cls, st, cat(specKey(s), script, []byte{byte(flags), byte(chunk)}))
	})
}
