package c12

import (
	"crypto/elliptic"
	"encoding/asn1"
	"fmt"
	"math/big"
	"testing"

	"github.com/gmrtd/gmrtd/cms"
	"github.com/gmrtd/gmrtd/oid"
	"github.com/osanderson/brainpool"
)

func TestProbe(t *testing.T) {
	bp := brainpool.P192r1()
	x, y := bp.ScalarBaseMult([]byte{7})
	pt := elliptic.Marshal(bp, x, y)
	curveOid, _ := asn1.Marshal(oid.OidBrainpoolP192r1)
	algOid, _ := asn1.Marshal(oid.OidEcPublicKey)
	spki := tl(0x30, tl(0x30, algOid, curveOid), tl(0x03, []byte{0}, pt))
	r := new(big.Int).Set(bp.Params().N) // out of range for brainpoolP192r1, in range for P-192
	type sig struct{ R, S *big.Int }
	sg, _ := asn1.Marshal(sig{r, big.NewInt(1)})
	func() {
		defer func() {
			if r := recover(); r != nil {
				fmt.Printf("PANIC: %v\n", r)
			}
		}()
		err := cms.VerifySignature(spki, oid.OidHashAlgorithmSHA256, make([]byte, 32), oid.OidEcdsaWithSHA256, sg)
		fmt.Println("err:", err)
	}()
	fmt.Printf("spki=%x sig=%x\n", spki, sg)
}
