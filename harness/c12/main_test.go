// C12 — untrusted bytes never crash, hang or exhaust the process.
//
// Every listed entry point has one oracle function run<Target>(t, input) that
// is driven (a) by a native fuzz target Fuzz<Target> and (b) by a rapid
// property with structure-aware generators.  The oracle is inside guard():
//
//	(1) no panic (recover + evid.Fail),
//	(2) bytes allocated by the call (runtime.MemStats.TotalAlloc delta, one
//	    goroutine, GC independent) <= 1 MiB + 256 * len(input),
//	(3) time is never a verdict: a call slower than a very generous budget is
//	    re-run three times and, if it stays slow, reported as INCONCLUSIVE.
package c12

import (
	"encoding/hex"
	"flag"
	"fmt"
	"io"
	"log/slog"
	"os"
	"runtime"
	"runtime/debug"
	"strings"
	"sync"
	"testing"
	"time"

	"verifharness/evid"
)

const prop = "C12"

var fuzzing = os.Getenv("VERIF_FUZZING") == "1"

// lightTargets need neither the trust store nor the evidence pools: their
// fuzz workers skip that (slow under coverage instrumentation) start-up work.
var lightTargets = map[string]bool{"FuzzTlvDecode": true, "FuzzTlvUnwrapTags": true, "FuzzRApdu": true, "FuzzSMDecode": true, "FuzzCOM": true, "FuzzDG1": true,
	"FuzzDG2": true, "FuzzDG7": true, "FuzzDG11": true, "FuzzDG12": true, "FuzzDG13DG15": true, "FuzzDG14": true, "FuzzDG16": true, "FuzzSOD": true,
	"FuzzCardAccess": true, "FuzzCardSecurity": true, "FuzzEFDIR": true, "FuzzNewDG": true, "FuzzISO19794": true, "FuzzISO39794": true, "FuzzMrz": true}

func TestMain(m *testing.M) {
	flag.Parse()
	// The library logs through log/slog.  Keep the default level (Info) but do
	// not write megabytes of warnings to stderr.
	slog.SetDefault(slog.New(slog.NewTextHandler(io.Discard, &slog.HandlerOptions{Level: slog.LevelInfo})))
	light := false
	if f := flag.Lookup("test.fuzz"); f != nil && f.Value.String() != "" {
		light = lightTargets[strings.Trim(f.Value.String(), "^$")]
		// an exec of the public-key targets costs 0.1-1 s under coverage
		// instrumentation: the default 60 s minimisation of every new corpus entry
		// would eat the whole budget
		flag.Set("test.fuzzminimizetime", "2s")
	}
	loadGenuine()
	buildFixtures(!light)
	if light {
		warmupLight()
	} else {
		buildPools()
		warmup()
	}
	evid.Main(m, prop)
}

// TB is what guard needs from *testing.T / *rapid.T.
type TB interface {
	Helper()
	Fatalf(format string, args ...any)
	Logf(format string, args ...any)
}

const (
	allocBase    = 1 << 20
	allocPerByte = 256
)

func allocBound(inLen int) uint64 { return allocBase + allocPerByte*uint64(inLen) }

// timeBudget: 5 s for inputs up to 100 KiB, growing linearly beyond.
func timeBudget(inLen int) time.Duration {
	b := 5 * time.Second
	if inLen > 100<<10 {
		b = time.Duration(float64(b) * float64(inLen) / float64(100<<10))
	}
	return b
}

func protect(fn func()) (pv any, stack string) {
	defer func() {
		if r := recover(); r != nil {
			pv = r
			stack = stackHead(string(debug.Stack()))
		}
	}()
	fn()
	return nil, ""
}

// stackOf extracts from a dump of all goroutines the one whose stack mentions marker.
func stackOf(dump, marker string) string {
	for _, g := range strings.Split(dump, "\n\n") {
		if strings.Contains(g, marker) {
			if len(g) > 3000 {
				g = g[:3000]
			}
			return g
		}
	}
	if len(dump) > 3000 {
		dump = dump[:3000]
	}
	return dump
}

// stackHead keeps the frames between the panic and the harness.
func stackHead(s string) string {
	lines := strings.Split(s, "\n")
	var out []string
	seenPanic := false
	for i := 0; i < len(lines); i++ {
		ln := lines[i]
		if strings.HasPrefix(ln, "panic(") {
			seenPanic = true
			i++ // skip its file line
			continue
		}
		if !seenPanic {
			continue
		}
		if strings.Contains(ln, "verifharness/") {
			break
		}
		out = append(out, strings.TrimSpace(ln))
		if len(out) >= 16 {
			break
		}
	}
	return strings.Join(out, " | ")
}

var (
	statMu   sync.Mutex
	maxRatio = map[string]float64{} // target -> max alloc/len seen
	maxNsB   = map[string]float64{} // target -> max ns/byte seen (inputs >= 256 bytes)
)

func hx(b []byte) string { return hex.EncodeToString(b) }

// guard runs one library call under the oracle.  target names the entry
// point, inLen is the number of untrusted bytes the call consumes, repro
// returns a JSON-able description sufficient to repeat the call by hand.
func guard(t TB, target string, inLen int, repro func() map[string]any, fn func()) {
	t.Helper()
	guardN(t, target, false, func() int { return inLen }, repro, fn)
}

// guardPK is guard for calls that may do public-key arithmetic (signature
// verification, ECDH on math/big curves).  One such operation produces 0.5-10
// MB of short-lived small-object garbage that has nothing to do with the input
// length, so for these calls the bound 1 MiB + 256*len applies to the bytes
// allocated in BIG objects (larger than the biggest size class reported in
// runtime.MemStats.BySize, ~19 KiB) — which is what a length-lying encoding or
// an amplification produces — and the total is recorded as a metric only.
func guardPK(t TB, target string, inLen int, repro func() map[string]any, fn func()) {
	t.Helper()
	guardN(t, target, true, func() int { return inLen }, repro, fn)
}

func smallBytes(m *runtime.MemStats) (n uint64) {
	for i := range m.BySize {
		n += m.BySize[i].Mallocs * uint64(m.BySize[i].Size)
	}
	return
}

// guardN: the input length is evaluated after the call (live reader: the
// number of bytes the chip sent is known only afterwards).
func guardN(t TB, target string, pk bool, inLenFn func() int, repro func() map[string]any, fn func()) {
	t.Helper()
	var m0, m1 runtime.MemStats
	runtime.ReadMemStats(&m0)
	t0 := time.Now()
	var pv any
	var stack string
	if fuzzing {
		pv, stack = protect(fn)
	} else if back, dump := evid.Watch(func() { pv, stack = protect(fn) }); !back {
		// "returns a value or an error for every input ... running time bounded": the call is still out
		// after evid.HangLimit (an endless loop, or blocked for good) - orders of magnitude beyond anything
		// a starved machine could explain for an input of this size
		r := repro()
		r["replay"] = cur.describe()
		r["target"] = target
		r["goroutines"] = stackOf(dump, "c12.protect")
		evid.Abort("hang-"+target, r, "%s did not return within %v on %d input bytes (endless loop or blocked for good)", target, evid.HangLimit, inLenFn())
	}
	dur := time.Since(t0)
	runtime.ReadMemStats(&m1)
	total := m1.TotalAlloc - m0.TotalAlloc
	alloc := total
	what := "allocated"
	if pk {
		alloc = total - (smallBytes(&m1) - smallBytes(&m0))
		what = "allocated in objects > 19 KiB"
	}
	inLen := inLenFn()

	if pv != nil {
		r := repro()
		r["replay"] = cur.describe()
		r["target"] = target
		r["panic"] = fmt.Sprint(pv)
		r["stack"] = stack
		evid.Fail(t, "panic-"+target, r, "%s panicked on %d input bytes: %v  [%s]", target, inLen, pv, stack)
		return
	}
	if alloc > allocBound(inLen) {
		r := repro()
		r["replay"] = cur.describe()
		r["target"] = target
		r["allocated"] = alloc
		r["allocated_total"] = total
		r["bound"] = allocBound(inLen)
		r["input_len"] = inLen
		evid.Fail(t, "alloc-"+target, r, "%s %s %d bytes for %d input bytes (bound 1 MiB + 256*len = %d)", target, what, alloc, inLen, allocBound(inLen))
		return
	}
	if dur > timeBudget(inLen) {
		slow(t, target, inLen, repro, fn, dur)
	}
	if !fuzzing {
		statMu.Lock()
		if inLen >= 64 {
			if r := float64(total) / float64(inLen); r > maxRatio[target] {
				maxRatio[target] = r
				evid.Metric("max_alloc_per_byte/"+target, float64(int(r*10))/10)
			}
		}
		if inLen >= 256 {
			if r := float64(dur.Nanoseconds()) / float64(inLen); r > maxNsB[target] {
				maxNsB[target] = r
				evid.Metric("max_ns_per_byte/"+target, float64(int(r)))
			}
		}
		statMu.Unlock()
	}
}

// slow: time is never a verdict.  Re-run three times; if it stays over budget
// the case is written out and the run becomes INCONCLUSIVE (exit 2).
func slow(t TB, target string, inLen int, repro func() map[string]any, fn func(), first time.Duration) {
	again := 0
	for i := 0; i < 3; i++ {
		t0 := time.Now()
		protect(fn)
		if time.Since(t0) > timeBudget(inLen) {
			again++
		}
	}
	evid.Count("slow-call/"+target, 1)
	if again == 3 && !fuzzing {
		r := repro()
		r["target"] = target
		r["first_duration_ms"] = first.Milliseconds()
		evid.InfraNote("slow call (inconclusive, not a verdict): %s took %v on %d bytes and stayed over budget 3 times; case: %v", target, first, inLen, r)
	}
}

// ---- known findings -----------------------------------------------------------

const (
	kfLie      = "F7a-lying-length-alloc"
	kfIndef    = "F7b-unwrap-indefinite-panic"
	kfNilDG14  = "F8a-ca-evidence-missing-dg14"
	kfSsc      = "F8b-ca-evidence-oversized-ssc"
	kfKeyID    = "F9-ca-keyid-nil"
	kfOid      = "F10-oid-string-panic"
	kfString   = "F16-tlv-string-amplification"
	kfAltCurve = "F17-ecdsa-altcurve-invalid-point-panic"
)

var (
	openMu    sync.Mutex
	openCache = map[string]bool{}
)

func isOpen(key string) bool {
	openMu.Lock()
	defer openMu.Unlock()
	v, ok := openCache[key]
	if !ok {
		v = evid.Open(prop, key)
		openCache[key] = v
	}
	return v
}

// excluded reports (and counts) that the current case falls into the input
// class of an OPEN known finding and must be skipped.  For a finding that is
// not open (fixed) it returns false: the case is generated and checked.
func excluded(key string) bool {
	if isOpen(key) {
		if !fuzzing {
			evid.Excluded(key)
		}
		return true
	}
	return false
}

// lieMin: a definite length of at least this many bytes that exceeds the
// remaining input defines the F7a class (smaller over-declarations cannot
// break the 1 MiB base of the allocation bound and are checked normally).
const lieMin = 512 << 10

// stringLimit: half of the allocation bound is the budget granted to the
// String() rendering before a tree counts as belonging to the F16 class.
func stringLimit(inLen int) int64 { return int64(allocBound(inLen) / 2) }

// record one evaluated case in the evidence (not while fuzzing: the worker
// processes do not write evidence and must not grow a hash set).
func record(group, genClass string, stage int, input []byte) {
	if fuzzing {
		return
	}
	if stage < 0 {
		return // excluded by a known finding (counted separately)
	}
	evid.CaseFn(group+"/"+genClass, stage >= 1, fnvKey(input), func() any {
		return map[string]any{"entry_point_group": group, "generator": genClass, "stage_reached": stage, "input_len": len(input), "input": evid.Hex(input)}
	})
	if stage >= 1 {
		evid.Count("past-first-stage/"+group, 1)
	}
}

func fnvKey(b []byte) string {
	var h uint64 = 14695981039346656037
	for _, c := range b {
		h ^= uint64(c)
		h *= 1099511628211
	}
	return fmt.Sprintf("%x/%d", h, len(b))
}
