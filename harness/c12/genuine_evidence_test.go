package c12

// Evidence verification on STRUCTURALLY GENUINE bundles.  The random / mutated
// evidence of TestPropEvidence rarely gets past the first consistency checks of
// VerifyEvidence; the code behind them (key agreement replay, KDF, secure-
// messaging replay, ISO 9796-2 recovery) only runs on bundles whose parts fit
// together.  Two generators reach it:
//
//   - real sessions: the library reads personalised chips of the simulator
//     (PACE-CAM on every parameter-id class incl. P-521, CA on P-521 / brainpool
//     / P-256 with 3DES and AES, AA RSA and ECDSA), and the captured evidence is
//     presented genuine and with light field mutations (bit flip, truncation,
//     extension, zeroing, all-FF, a field of another session);
//   - crafted RSA signatures: the harness owns the private keys of its RSA pool,
//     so it can produce signatures that open to ANY recovered block F - one or
//     two octets, a lone header or trailer, a trailer without digest, ...
//
// Oracle: as everywhere in C12 - a value or an error, no panic, bounded allocation.

import (
	"bytes"
	"encoding/asn1"
	"fmt"
	"math/big"
	"strconv"
	"strings"
	"sync"
	"testing"

	"github.com/gmrtd/gmrtd/document"
	"pgregory.net/rapid"

	"verifharness/chipsim"
	"verifharness/detrand"
	"verifharness/evid"
	"verifharness/lds"
	"verifharness/persona"
	"verifharness/readcheck"
	"verifharness/ref/ecc"
	"verifharness/ref/iso9796"
	"verifharness/ref/mac"
)

type genuineSession struct {
	name string
	spec *docSpec
}

var (
	genuineOnce     sync.Once
	genuineSessions []genuineSession
	genuineErr      error
	// sessions whose live read failed on this tree (skipped)
	genuineUnavailable []string
)

func fileKind(name string) int {
	for k, n := range kindName {
		if n == name {
			return k
		}
	}
	if name == "DIR" {
		return kEFDIR
	}
	return -1
}

func buildGenuineSessions() {
	base := func(i int) persona.Opts {
		return persona.Opts{Seed: []byte{0xC1, 0x2E, byte(i), 9, 9, 9, 9, 9}, Country: "NL", Layout: "TD3", Trusted: true, Extended: true,
			AARSABits: 1024, AATrailer: 0xBC, AACurve: "P-256", CACurve: "P-256", CACipher: "AES-128", PaceID: 12, PaceCipher: "AES-128"}
	}
	var opts []persona.Opts
	names := []string{}
	add := func(name string, f func(o *persona.Opts)) {
		o := base(len(opts))
		f(&o)
		opts = append(opts, o)
		names = append(names, name)
	}
	add("CAM-id18-AES256", func(o *persona.Opts) { o.Access, o.PaceID, o.PaceCipher = "PACE-CAM", 18, "AES-256" })
	add("CAM-id13-AES128+AA-RSA", func(o *persona.Opts) { o.Access, o.PaceID, o.AA = "PACE-CAM", 13, "RSA" })
	add("CAM-id17-AES192", func(o *persona.Opts) { o.Access, o.PaceID, o.PaceCipher = "PACE-CAM", 17, "AES-192" })
	add("CA-P521-3DES", func(o *persona.Opts) { o.Access, o.CA, o.CACurve, o.CACipher = "BAC", true, "P-521", "3DES" })
	add("CA-P521-AES256", func(o *persona.Opts) { o.Access, o.CA, o.CACurve, o.CACipher = "PACE", true, "P-521", "AES-256" })
	add("CA-brainpoolP512r1-AES192", func(o *persona.Opts) {
		o.Access, o.CA, o.CACurve, o.CACipher = "BAC", true, "brainpoolP512r1", "AES-192"
	})
	add("CA-P256-AES128-keyid", func(o *persona.Opts) { o.Access, o.CA, o.CAKeyID = "PACE+BAC", true, true })
	add("AA-ECDSA-P521-DER", func(o *persona.Opts) { o.Access, o.AA, o.AACurve, o.AADER = "BAC", "ECDSA", "P-521", true })
	add("AA-ECDSA-brainpoolP320r1", func(o *persona.Opts) { o.Access, o.AA, o.AACurve = "BAC", "ECDSA", "brainpoolP320r1" })
	add("AA-RSA-1028-SHA512", func(o *persona.Opts) { o.Access, o.AA, o.AARSABits, o.AATrailer = "BAC", "RSA", 1028, 0x35CC })
	// synthetic PACE-CAM bundles for every standardised parameter id, computed with the reference
	// arithmetic alone (no live run of the library is needed for them)
	for id := 8; id <= 18; id++ {
		for v := 0; v < 3; v++ {
			genuineSessions = append(genuineSessions, genuineSession{fmt.Sprintf("synthetic-CAM-id%d", id), syntheticCAM(id, []mac.Cipher{"AES-128", "AES-192", "AES-256"}[(id+v)%3], v)})
		}
	}
	for i, o := range opts {
		p, err := persona.Build(o)
		if err != nil {
			genuineErr = fmt.Errorf("%s: persona.Build: %w", names[i], err)
			return
		}
		r, err := readcheck.Read(p, p.NewChip(), readcheck.ReadOpts{LibSeed: []byte{byte(i), 1, 2, 3}})
		if err != nil || r.Err != nil {
			// a genuine read that fails is C04 / C06 / C08's finding, not an input problem of this
			// check: go on with the sessions that are available (the synthetic bundles always are)
			genuineUnavailable = append(genuineUnavailable, names[i])
			continue
		}
		s := &docSpec{}
		for name, b := range readcheck.DocFiles(&r.DocEx.Document) {
			if k := fileKind(name); k >= 0 {
				s.Files[k] = b
			}
		}
		ses := &r.DocEx.Session
		if ses.ChipAuthResult != nil && ses.ChipAuthResult.Evidence != nil {
			e := *ses.ChipAuthResult.Evidence
			s.CA = &e
		}
		if ses.PaceCamResult != nil && ses.PaceCamResult.Evidence != nil {
			e := *ses.PaceCamResult.Evidence
			s.PACE = &e
		}
		if ses.ActiveAuthResult != nil && ses.ActiveAuthResult.Evidence != nil {
			e := *ses.ActiveAuthResult.Evidence
			s.AA = &e
		}
		if s.CA == nil && s.PACE == nil && s.AA == nil {
			genuineErr = fmt.Errorf("%s: the genuine read captured no evidence", names[i])
			return
		}
		genuineSessions = append(genuineSessions, genuineSession{names[i], s})
	}
}

// byteFields lists pointers to the byte-string fields of the evidence present.
func byteFields(s *docSpec) (names []string, ptrs []*[]byte) {
	if e := s.CA; e != nil {
		names = append(names, "CA.TermPri", "CA.TermPubKey", "CA.SmRapdu", "CA.SmSsc")
		ptrs = append(ptrs, &e.TermPri, &e.TermPubKey, &e.SmRapdu, &e.SmSsc)
	}
	if e := s.PACE; e != nil {
		names = append(names, "PACE.Nonce", "PACE.TermMapPri", "PACE.TermMapPub", "PACE.ChipMapPub", "PACE.TermKaPri", "PACE.TermKaPub", "PACE.ChipKaPub", "PACE.EcadIC")
		ptrs = append(ptrs, &e.Nonce, &e.TermMapPri, &e.TermMapPub, &e.ChipMapPub, &e.TermKaPri, &e.TermKaPub, &e.ChipKaPub, &e.EcadIC)
	}
	if e := s.AA; e != nil {
		names = append(names, "AA.Nonce", "AA.Signature")
		ptrs = append(ptrs, &e.Nonce, &e.Signature)
	}
	return
}

func cloneSpec(s *docSpec) *docSpec {
	c := &docSpec{Files: s.Files}
	if s.CA != nil {
		e := *s.CA
		c.CA = &e
	}
	if s.PACE != nil {
		e := *s.PACE
		e.PaceOid = append(asn1.ObjectIdentifier{}, e.PaceOid...)
		c.PACE = &e
	}
	if s.AA != nil {
		e := *s.AA
		e.Algorithm = append(asn1.ObjectIdentifier{}, e.Algorithm...)
		c.AA = &e
	}
	return c
}

func TestPropGenuineEvidence(t *testing.T) {
	genuineOnce.Do(buildGenuineSessions)
	if genuineErr != nil {
		evid.Infra(t, "genuine sessions: %v", genuineErr)
	}
	// the synthetic bundles are only worth something if the library accepts them as genuine
	if evid.Shard() == 0 {
		for _, g := range genuineSessions {
			if strings.HasPrefix(g.name, "synthetic-CAM") {
				if st := dispatch(t, caseDesc{Run: "evidence-pace", Spec: cloneSpec(g.spec)}); st == 2 {
					evid.Count("synthetic-cam-accepted", 1)
				} else {
					evid.Count("synthetic-cam-NOT-accepted/"+g.name, 1)
				}
			}
		}
	}
	for _, u := range genuineUnavailable {
		evid.Count("genuine-session-unavailable/"+u, 1)
	}
	evid.RapidCheck(t, 4000, 80000, func(rt *rapid.T) {
		gi := rapid.IntRange(0, len(genuineSessions)-1).Draw(rt, "session")
		g := genuineSessions[gi]
		s := cloneSpec(g.spec)
		names, ptrs := byteFields(s)
		mutation := rapid.SampledFrom([]string{"none", "bitflip", "truncate", "extend", "zero", "all-ff", "empty", "other-session", "drop-file", "paramid", "two-fields"}).Draw(rt, "mutation")
		mutate := func() string {
			fi := rapid.IntRange(0, len(ptrs)-1).Draw(rt, "field")
			f := ptrs[fi]
			b := append([]byte{}, *f...)
			switch rapid.IntRange(0, 5).Draw(rt, "how") {
			case 0:
				if len(b) > 0 {
					i := rapid.IntRange(0, len(b)*8-1).Draw(rt, "bit")
					b[i/8] ^= 1 << (i % 8)
				}
			case 1:
				b = b[:rapid.IntRange(0, len(b)).Draw(rt, "cut")]
			case 2:
				b = append(b, rapid.SliceOfN(rapid.Byte(), 1, 40).Draw(rt, "tail")...)
			case 3:
				b = make([]byte, len(b))
			case 4:
				for i := range b {
					b[i] = 0xFF
				}
			default:
				b = append(rapid.SliceOfN(rapid.Byte(), 1, 3).Draw(rt, "head"), b...)
			}
			*f = b
			return names[fi]
		}
		what := ""
		switch mutation {
		case "none":
		case "other-session":
			o := genuineSessions[rapid.IntRange(0, len(genuineSessions)-1).Draw(rt, "other")].spec
			on, op := byteFields(cloneSpec(o))
			if len(op) > 0 {
				fi := rapid.IntRange(0, len(ptrs)-1).Draw(rt, "field")
				oi := rapid.IntRange(0, len(op)-1).Draw(rt, "ofield")
				*ptrs[fi] = *op[oi]
				what = names[fi] + "<-" + on[oi]
			}
		case "drop-file":
			k := rapid.SampledFrom([]int{kDG14, kDG15, kCardSecurity, kCardAccess, kSOD}).Draw(rt, "dropped")
			s.Files[k] = nil
			what = kindName[k]
		case "paramid":
			if s.PACE != nil {
				s.PACE.ParameterId = rapid.SampledFrom([]int{0, 7, 8, 12, 13, 17, 18, 19, 31, -1, 1 << 30}).Draw(rt, "pid")
				what = fmt.Sprint(s.PACE.ParameterId)
			}
		case "two-fields":
			what = mutate() + "+" + mutate()
		default:
			what = mutate()
		}
		for _, run := range []string{"evidence-ca", "evidence-pace", "evidence-aa"} {
			if (run == "evidence-ca" && s.CA == nil) || (run == "evidence-pace" && s.PACE == nil) || (run == "evidence-aa" && s.AA == nil) {
				continue
			}
			st := dispatch(rt, caseDesc{Run: run, Spec: s})
			record("genuine-"+run, g.name+"/"+mutation, st, append([]byte(g.name+mutation+what), specKey(s)...))
		}
	})
}

// TestPropCraftedRSAEvidence: AA evidence whose RSA signature opens to a chosen block F.
func TestPropCraftedRSAEvidence(t *testing.T) {
	pool := iso9796.Pool()
	evid.RapidCheck(t, 1600, 40000, func(rt *rapid.T) {
		k := pool[rapid.IntRange(0, len(pool)-1).Draw(rt, "key")]
		klen := (k.N.BitLen() + 7) / 8
		var f []byte
		kind := rapid.SampledFrom([]string{"fixed", "short-random", "header-trailer-only", "valid-shape-short-digest", "full-width-random"}).Draw(rt, "f-kind")
		switch kind {
		case "fixed":
			f = rapid.SampledFrom([][]byte{{0x6A, 0xCC}, {0x6A, 0xBC}, {0x6A}, {0xBC}, {0xCC}, {0x6A, 0x34, 0xCC}, {0x6A, 0x38, 0xCC}, {0x6A, 0x35, 0xCC}, {0x34, 0xCC}, {0x00}, {0x01},
				{0x6A, 0x00, 0xBC}, {0x4A, 0xBC}, {0x6A, 0xFF, 0xCC}, {0x6A, 0x36, 0xCC}, {0xBB, 0xBB, 0xBB, 0xBB, 0xBB, 0xBB, 0xBB, 0xBB, 0xBB, 0xBA, 0xBC}}).Draw(rt, "f")
		case "short-random":
			f = rapid.SliceOfN(rapid.Byte(), 1, 24).Draw(rt, "f")
		case "header-trailer-only":
			tr := rapid.SampledFrom([][]byte{{0xBC}, {0x34, 0xCC}, {0x38, 0xCC}, {0x36, 0xCC}, {0x35, 0xCC}, {0x33, 0xCC}, {0x99, 0xCC}}).Draw(rt, "trailer")
			f = append(append([]byte{0x6A}, rapid.SliceOfN(rapid.Byte(), 0, 70).Draw(rt, "mid")...), tr...)
		case "valid-shape-short-digest":
			tr := rapid.SampledFrom([][]byte{{0xBC}, {0x34, 0xCC}, {0x38, 0xCC}, {0x36, 0xCC}, {0x35, 0xCC}}).Draw(rt, "trailer")
			n := rapid.IntRange(0, klen-2).Draw(rt, "len")
			f = append(append([]byte{0x6A}, rapid.SliceOfN(rapid.Byte(), n, n).Draw(rt, "mid")...), tr...)
		default:
			f = rapid.SliceOfN(rapid.Byte(), klen, klen).Draw(rt, "f")
			f[0] &= 0x3F
		}
		fi := new(big.Int).SetBytes(f)
		if fi.Cmp(k.N) >= 0 {
			fi.Mod(fi, k.N)
		}
		sig := new(big.Int).Exp(fi, k.D, k.N).FillBytes(make([]byte, klen))
		if rapid.IntRange(0, 7).Draw(rt, "strip") == 0 {
			for len(sig) > 1 && sig[0] == 0 {
				sig = sig[1:]
			}
		}
		s := &docSpec{}
		s.Files[kDG15] = tl(0x6F, iso9796.SPKI(k.N, k.E))
		s.AA = &document.ActiveAuthEvidence{Algorithm: asn1.ObjectIdentifier{1, 2, 840, 113549, 1, 1, 1}, Nonce: rapid.SliceOfN(rapid.Byte(), 8, 8).Draw(rt, "nonce"), Signature: sig}
		st := dispatch(rt, caseDesc{Run: "evidence-aa", Spec: s})
		record("crafted-rsa-evidence", kind, st, append(append([]byte{}, f...), sig[:min(8, len(sig))]...))
	})
}

// syntheticCAM computes a complete, consistent PACE-CAM evidence bundle and the files it is
// verified against with ref/ecc and ref/mac only: nonce s, mapping scalars a (terminal) and b (chip),
// H = a*b*G, G' = s*G + H, agreement scalars c, d on G', KS_enc = KDF(x(c*d*G'), 1), chip key SK_IC,
// CA_IC = SK_IC^-1 * b mod n, A_IC = E(KS_enc, IV = E(KS_enc, FF..FF), pad(CA_IC)).
func syntheticCAM(id int, cp mac.Cipher, variant int) *docSpec {
	cv := ecc.ByPaceID(id)
	st := detrand.New([]byte(fmt.Sprintf("synthetic-cam-%d-%d", id, variant)))
	scalar := func() *big.Int {
		k := cv.ScalarFromBytes(st.Bytes(cv.ByteLen + 8))
		if k.Sign() == 0 {
			k = big.NewInt(5)
		}
		return k
	}
	nonce := st.Bytes(16)
	a, b, c, d, skIC := scalar(), scalar(), scalar(), scalar(), scalar()
	termMapPub, chipMapPub := cv.ScalarBaseMult(a), cv.ScalarBaseMult(b)
	h := cv.ScalarMult(a, chipMapPub)
	gm := cv.Add(cv.ScalarBaseMult(new(big.Int).SetBytes(nonce)), h)
	termKaPub, chipKaPub := cv.ScalarMult(c, gm), cv.ScalarMult(d, gm)
	shared := cv.ScalarMult(c, chipKaPub)
	ksEnc := mac.KDF(cv.FixedBytes(shared.X), nil, 1, cp)
	inv := new(big.Int).ModInverse(skIC, cv.N)
	ca := new(big.Int).Mul(inv, b)
	ca.Mod(ca, cv.N)
	iv := mac.AESCBCEncrypt(ksEnc, make([]byte, 16), bytes.Repeat([]byte{0xFF}, 16))
	ecad := mac.AESCBCEncrypt(ksEnc, iv, mac.PadM2(cv.FixedBytes(ca), 16))
	oid := chipsim.PaceOID("CAM", cp)
	pid := big.NewInt(int64(id))
	main := lds.PACEInfo(oid, 2, pid)
	s := &docSpec{}
	s.Files[kCardAccess] = lds.CardAccess(main)
	s.Files[kCardSecurity] = lds.DummyCardSecurity(lds.SecurityInfos(main, lds.ChipAuthPubKeyInfo(lds.OidPkECDH, lds.SPKIStdDomain(id, cv.Encode(cv.ScalarBaseMult(skIC))), pid)))
	var poid asn1.ObjectIdentifier
	for _, part := range strings.Split(oid, ".") {
		n, _ := strconv.Atoi(part)
		poid = append(poid, n)
	}
	s.PACE = &document.PaceCamEvidence{PaceOid: poid, ParameterId: id, Nonce: nonce, TermMapPri: cv.FixedBytes(a), TermMapPub: cv.Encode(termMapPub), ChipMapPub: cv.Encode(chipMapPub),
		TermKaPri: cv.FixedBytes(c), TermKaPub: cv.Encode(termKaPub), ChipKaPub: cv.Encode(chipKaPub), EcadIC: ecad}
	return s
}
