package c12

// Fixtures: documents and *valid* evidence bundles (so that generated
// mutations start behind the first checks of the VerifyEvidence functions),
// a trust store, DER helpers.  Everything is deterministic.

import (
	"crypto/aes"
	"crypto/cipher"
	"crypto/elliptic"
	"crypto/sha1"
	"crypto/sha256"
	"encoding/asn1"
	"encoding/json"
	"math/big"
	"os"
	"path/filepath"
	"reflect"
	"runtime"

	"github.com/aead/cmac"
	"github.com/gmrtd/gmrtd/activeauth"
	"github.com/gmrtd/gmrtd/chipauth"
	"github.com/gmrtd/gmrtd/cms"
	"github.com/gmrtd/gmrtd/cryptoutils"
	"github.com/gmrtd/gmrtd/document"
	"github.com/gmrtd/gmrtd/document/iso39794"
	"github.com/gmrtd/gmrtd/mobile"
	"github.com/gmrtd/gmrtd/oid"
	"github.com/gmrtd/gmrtd/pace"
	"github.com/gmrtd/gmrtd/tlv"
	"github.com/gmrtd/gmrtd/verifier"
	"github.com/osanderson/brainpool"
)

const rsaTestN = "c866abd000f8cd4fe1fb0c597ee8daf2694043436fa3afe9d60586bf818bfeb5e269a738f7cc4dad925818015b44389eda260175c694a9051015a52f790fe6b0dd9c00407bf79dcf7b85b9a28326214a23ff61be0d55b68604225e225cbcf753ad73ea6a9404022ffef32b9b58e579741ffd1bb6d6f81d96d0b2aa0699808817"
const rsaTestD = "2a545d88431c4aa9cbeeee4ddd1bac5bb5d5a81f8f6e40d320acec287961abbc99857d97efe78ca4d41b9d7e73dbb625ffa83578be285a87423d8035c5d990fd7d1420e20d4988aa972f62205eb8184660127dbbaa948a128577f5bb3293a93d3b9e3bb4651a08d8d3e0c1025a42fe62f61bebb7cb6c80e52f1976fed9398561"

var (
	trustStore cms.CertPool // built-in master lists (loaded once, outside any measured region)

	// DG14 variants
	dg14Genuine   []byte // brainpoolP384r1 explicit parameters, CA-ECDH-AES-256, no key ids
	dg14KeyIDInfo []byte // ChipAuthenticationInfo carries keyId, the public key does not (F9)
	dg14KeyIDBoth []byte // matching key ids on both
	dg14TDESP256  []byte // named curve P-256, CA-ECDH-3DES
	dg14NoCA      []byte // only a PACEInfo: CA not advertised

	// DG15 variants
	dg15RSATest []byte // 1024-bit key whose private exponent the harness knows
	dg15ECP256  []byte
	aaECPriv    = big.NewInt(0x5eed1234)

	// BDB seeds
	seed19794      []byte
	seed39794      []byte
	seed39794Small []byte

	// certificates / signature material harvested from the genuine files
	certSOD     []byte // DS certificate of the sample EF.SOD
	certCardSec []byte // DS certificate of the sample EF.CardSecurity
	spkiSOD     []byte
	spkiCardSec []byte

	bp192SPKI []byte // brainpoolP192r1 public key (named curve)
	bp192N    *big.Int
	p192N     *big.Int
	bp192OID  []byte
	bp192P    []byte

	fixOK = map[string]bool{}
)

func mustDER(v any) []byte {
	b, err := asn1.Marshal(v)
	if err != nil {
		panic("asn1.Marshal in harness: " + err.Error())
	}
	return b
}

func derInt(n int64) []byte { return mustDER(big.NewInt(n)) }

// repoDir locates the gmrtd source tree that the build uses (replace
// directive), for the binary seed files of the ISO 39794 tests.
func repoDir() string {
	pc := reflect.ValueOf(iso39794.ProcessISO39794p5).Pointer()
	file, _ := runtime.FuncForPC(pc).FileLine(pc)
	return filepath.Dir(filepath.Dir(filepath.Dir(file)))
}

func spki(algParams []byte, point []byte) []byte {
	return tl(0x30, tl(0x30, mustDER(oid.OidEcPublicKey), algParams), tl(0x03, []byte{0}, point))
}

func caInfo(protocol asn1.ObjectIdentifier, keyID int64) []byte {
	if keyID < 0 {
		return tl(0x30, mustDER(protocol), derInt(1))
	}
	return tl(0x30, mustDER(protocol), derInt(1), derInt(keyID))
}

func caPubKeyInfo(spkiDER []byte, keyID int64) []byte {
	if keyID < 0 {
		return tl(0x30, mustDER(oid.OidPkEcdh), spkiDER)
	}
	return tl(0x30, mustDER(oid.OidPkEcdh), spkiDER, derInt(keyID))
}

func buildFixtures(withTrustStore bool) {
	var err error
	if withTrustStore {
		if trustStore, err = cms.DefaultMasterList(); err != nil {
			panic("DefaultMasterList: " + err.Error())
		}
		if err = mobile.PreloadCscaCertPool(); err != nil {
			panic("PreloadCscaCertPool: " + err.Error())
		}
	}

	// --- DG14 variants -----------------------------------------------------
	dg14Genuine = genuine[kDG14]
	d14, err := document.NewDG14(dg14Genuine)
	if err != nil {
		panic(err)
	}
	pk := d14.SecInfos.ChipAuthPubKeyInfos[0]
	// re-encode SubjectPublicKeyInfo of the genuine key
	genSPKI := tl(0x30, tl(0x30, mustDER(pk.ChipAuthenticationPublicKey.Algorithm.Algorithm), pk.ChipAuthenticationPublicKey.Algorithm.Parameters.FullBytes),
		tl(0x03, []byte{0}, pk.ChipAuthenticationPublicKey.SubjectPublicKey.Bytes))
	dg14KeyIDInfo = tl(0x6E, tl(0x31, caPubKeyInfo(genSPKI, -1), caInfo(oid.OidCaEcdhAesCbcCmac256, 5)))
	dg14KeyIDBoth = tl(0x6E, tl(0x31, caPubKeyInfo(genSPKI, 5), caInfo(oid.OidCaEcdhAesCbcCmac256, 5)))
	{
		x, y := elliptic.P256().ScalarBaseMult([]byte{0x11, 0x22, 0x33})
		sp := spki(mustDER(oid.OidPrime256v1), elliptic.Marshal(elliptic.P256(), x, y))
		dg14TDESP256 = tl(0x6E, tl(0x31, caPubKeyInfo(sp, -1), caInfo(oid.OidCaEcdh3DesCbcCbc, -1)))
	}
	dg14NoCA = tl(0x6E, tl(0x31, tl(0x30, mustDER(oid.OidPaceEcdhGmAesCbcCmac128), derInt(2), derInt(13))))
	for name, b := range map[string][]byte{"dg14KeyIDInfo": dg14KeyIDInfo, "dg14KeyIDBoth": dg14KeyIDBoth, "dg14TDESP256": dg14TDESP256, "dg14NoCA": dg14NoCA} {
		if _, err := document.NewDG14(b); err != nil {
			panic("fixture " + name + ": " + err.Error())
		}
	}

	// --- DG15 variants -----------------------------------------------------
	{
		n, _ := new(big.Int).SetString(rsaTestN, 16)
		rsaKey := tl(0x30, mustDER(n), derInt(65537))
		sp := tl(0x30, tl(0x30, mustDER(oid.OidRsaEncryption), []byte{0x05, 0x00}), tl(0x03, []byte{0}, rsaKey))
		dg15RSATest = tl(0x6F, sp)
		x, y := elliptic.P256().ScalarBaseMult(aaECPriv.Bytes())
		dg15ECP256 = tl(0x6F, spki(mustDER(oid.OidPrime256v1), elliptic.Marshal(elliptic.P256(), x, y)))
	}

	// --- biometric data blocks ------------------------------------------------
	{
		sc := scanDecode(genuine[kDG2])
		if !sc.ok {
			panic("sample DG2 does not scan")
		}
		var find func(ns []*bnode) []byte
		find = func(ns []*bnode) []byte {
			for _, n := range ns {
				if n.tag == 0x5F2E {
					return n.val
				}
				if v := find(n.kids); v != nil {
					return v
				}
			}
			return nil
		}
		seed19794 = find(sc.roots)
		if seed19794 == nil {
			panic("no 5F2E in sample DG2")
		}
		if b, err := os.ReadFile(filepath.Join(repoDir(), "document", "iso39794", "test_data", "ICAO_39794_5_AP_AllFields.dat")); err == nil {
			seed39794 = b
			// a small variant: cut the JPEG down to its first 32 bytes
			if s := scanDecode(b); s.ok {
				shrinkBig(s.roots, 32)
				seed39794Small = reencode(s.roots)
			}
		}
	}

	// --- certificates ----------------------------------------------------------
	{
		sod, err := document.NewSOD(genuine[kSOD])
		if err != nil {
			panic(err)
		}
		certSOD = sod.SD.Certificates.Bytes
		cs, err := document.NewCardSecurity(genuine[kCardSecurity])
		if err != nil {
			panic(err)
		}
		certCardSec = cs.SD.Certificates.Bytes
		if c, err := cms.ParseCertificates(certSOD); err == nil && len(c) > 0 {
			spkiSOD = c[0].TbsCertificate.SubjectPublicKeyInfo.FullBytes
		}
		if c, err := cms.ParseCertificates(certCardSec); err == nil && len(c) > 0 {
			spkiCardSec = c[0].TbsCertificate.SubjectPublicKeyInfo.FullBytes
		}
	}

	// --- brainpoolP192r1 material (F17) -----------------------------------------
	{
		bp := brainpool.P192r1()
		x, y := bp.ScalarBaseMult([]byte{7})
		bp192SPKI = spki(mustDER(oid.OidBrainpoolP192r1), elliptic.Marshal(bp, x, y))
		bp192N = bp.Params().N
		p192N = cryptoutils.EllipticP192().Params().N
		bp192OID = mustDER(oid.OidBrainpoolP192r1)[2:]
		bp192P = bp.Params().P.Bytes()
	}
}

func shrinkBig(ns []*bnode, keep int) {
	for _, n := range ns {
		if n.cons {
			shrinkBig(n.kids, keep)
		} else if len(n.val) > 4096 {
			n.val = n.val[:keep]
		}
	}
}

func reencode(ns []*bnode) []byte {
	var out []byte
	for _, n := range ns {
		if n.cons {
			out = append(out, tl(n.tag, reencode(n.kids))...)
		} else {
			out = append(out, tl(n.tag, n.val)...)
		}
	}
	return out
}

// ---- documents ---------------------------------------------------------------

// baseDoc returns a fresh document with every genuine file parsed.
func baseDoc() *document.Document {
	doc, err := document.SampleDocument()
	if err != nil {
		panic(err)
	}
	if doc.Mf.CardAccess, err = document.NewCardAccess(genuine[kCardAccess]); err != nil {
		panic(err)
	}
	if doc.Mf.CardSecurity, err = document.NewCardSecurity(genuine[kCardSecurity]); err != nil {
		panic(err)
	}
	if doc.Mf.Dir, err = document.NewEFDIR(genuine[kEFDIR]); err != nil {
		panic(err)
	}
	return doc
}

// ---- Chip Authentication evidence ----------------------------------------------

type caSuite struct {
	alg  cryptoutils.BlockCipherAlg
	bits int
}

var caSuites = map[string]caSuite{
	oid.OidCaEcdh3DesCbcCbc.String():    {cryptoutils.TDES, 112},
	oid.OidCaEcdhAesCbcCmac128.String(): {cryptoutils.AES, 128},
	oid.OidCaEcdhAesCbcCmac192.String(): {cryptoutils.AES, 192},
	oid.OidCaEcdhAesCbcCmac256.String(): {cryptoutils.AES, 256},
}

func smMac(alg cryptoutils.BlockCipherAlg, ksMac, data []byte) []byte {
	bs := 8
	if alg == cryptoutils.AES {
		bs = 16
	}
	padded := cryptoutils.ISO9797Method2Pad(data, bs)
	if alg == cryptoutils.AES {
		c, err := aes.NewCipher(ksMac)
		if err != nil {
			return make([]byte, 8)
		}
		m, err := cmac.Sum(padded, c, 8)
		if err != nil {
			return make([]byte, 8)
		}
		return m
	}
	m, err := cryptoutils.ISO9797RetailMacDes(ksMac, padded)
	if err != nil {
		return make([]byte, 8)
	}
	return m
}

// validCAEvidence builds evidence that chipauth.VerifyEvidence accepts for the
// given DG14 (nil if the DG14 does not allow it).  ssc is the captured counter.
func validCAEvidence(dg14 []byte, termPri []byte, ssc int64) *document.ChipAuthEvidence {
	d, err := document.NewDG14(dg14)
	if err != nil || len(d.SecInfos.ChipAuthPubKeyInfos) == 0 {
		return nil
	}
	suite := caSuite{cryptoutils.TDES, 112}
	if len(d.SecInfos.ChipAuthInfos) > 0 {
		s, ok := caSuites[d.SecInfos.ChipAuthInfos[0].Protocol.String()]
		if !ok {
			return nil
		}
		suite = s
	}
	pk := d.SecInfos.ChipAuthPubKeyInfos[0].ChipAuthenticationPublicKey
	curve, chipPub, err := pk.EcCurveAndPubKey(true)
	if err != nil {
		return nil
	}
	x, y := (*curve).ScalarBaseMult(termPri)
	if x.Sign() == 0 && y.Sign() == 0 {
		return nil
	}
	termPub := elliptic.Marshal(*curve, x, y)
	sx, _ := (*curve).ScalarMult(chipPub.X, chipPub.Y, termPri)
	shared := sx.Bytes()
	ksEnc := cryptoutils.KDF(shared, cryptoutils.KDF_COUNTER_KSENC, suite.alg, suite.bits)
	ksMac := cryptoutils.KDF(shared, cryptoutils.KDF_COUNTER_KSMAC, suite.alg, suite.bits)
	_ = ksEnc
	bs := 8
	if suite.alg == cryptoutils.AES {
		bs = 16
	}
	sscBytes := make([]byte, bs)
	big.NewInt(ssc).FillBytes(sscBytes)
	do99 := []byte{0x99, 0x02, 0x90, 0x00}
	mac := smMac(suite.alg, ksMac, cat(sscBytes, do99))
	rapdu := cat(do99, []byte{0x8E, 0x08}, mac, []byte{0x90, 0x00})
	return &document.ChipAuthEvidence{TermPri: termPri, TermPubKey: termPub, SmRapdu: rapdu, SmSsc: sscBytes}
}

// ---- PACE-CAM evidence ---------------------------------------------------------

// validPaceCamEvidence builds a bundle pace.VerifyEvidence accepts for the
// genuine EF.CardSecurity (brainpoolP256r1, parameter id 13).  As the library
// documents, this needs no chip secret: ChipMapPub = caIC * pkIC.
func validPaceCamEvidence(nonce, tMap, tKa, caIC, chipKa []byte) *document.PaceCamEvidence {
	ec := brainpool.P256r1()
	cs, err := document.NewCardSecurity(genuine[kCardSecurity])
	if err != nil {
		return nil
	}
	var pkIC *cryptoutils.EcPoint
	for _, k := range cs.SecurityInfos.ChipAuthPubKeyInfos {
		if k.KeyId != nil && k.KeyId.Int64() == 13 {
			pkIC, _ = cryptoutils.DecodeX962EcPoint(ec, k.ChipAuthenticationPublicKey.SubjectPublicKey.Bytes)
		}
	}
	if pkIC == nil {
		return nil
	}
	inf := func(x, y *big.Int) bool { return x.Sign() == 0 && y.Sign() == 0 }
	tmx, tmy := ec.ScalarBaseMult(tMap)
	cmx, cmy := ec.ScalarMult(pkIC.X, pkIC.Y, caIC)
	if inf(tmx, tmy) || inf(cmx, cmy) {
		return nil
	}
	hx, hy := ec.ScalarMult(cmx, cmy, tMap)
	sgx, sgy := ec.ScalarBaseMult(nonce)
	gx, gy := ec.Add(sgx, sgy, hx, hy)
	if inf(gx, gy) || inf(hx, hy) {
		return nil
	}
	tkx, tky := ec.ScalarMult(gx, gy, tKa)
	ckx, cky := ec.ScalarMult(gx, gy, chipKa)
	if inf(tkx, tky) || inf(ckx, cky) {
		return nil
	}
	kx, _ := ec.ScalarMult(ckx, cky, tKa)
	ksEnc := cryptoutils.KDF(kx.Bytes(), cryptoutils.KDF_COUNTER_KSENC, cryptoutils.AES, 128)
	blk, err := aes.NewCipher(ksEnc)
	if err != nil {
		return nil
	}
	iv := make([]byte, 16)
	ff := make([]byte, 16)
	for i := range ff {
		ff[i] = 0xff
	}
	blk.Encrypt(iv, ff)
	plain := cryptoutils.ISO9797Method2Pad(caIC, 16)
	ecad := make([]byte, len(plain))
	cipher.NewCBCEncrypter(blk, iv).CryptBlocks(ecad, plain)
	return &document.PaceCamEvidence{
		PaceOid: oid.OidPaceEcdhCamAesCbcCmac128, ParameterId: 13, Nonce: nonce,
		TermMapPri: tMap, TermMapPub: elliptic.Marshal(ec, tmx, tmy), ChipMapPub: elliptic.Marshal(ec, cmx, cmy),
		TermKaPri: tKa, TermKaPub: elliptic.Marshal(ec, tkx, tky), ChipKaPub: elliptic.Marshal(ec, ckx, cky), EcadIC: ecad,
	}
}

// ---- Active Authentication evidence ----------------------------------------------

// validAARSA signs nonce with the harness RSA key per ISO 9796-2 scheme 1 (SHA-1, trailer BC).
func validAARSA(nonce []byte, m1 []byte) *document.ActiveAuthEvidence {
	n, _ := new(big.Int).SetString(rsaTestN, 16)
	d, _ := new(big.Int).SetString(rsaTestD, 16)
	k := (n.BitLen() + 7) / 8
	need := k - 1 - sha1.Size - 1
	mm := make([]byte, need)
	copy(mm, m1)
	h := sha1.Sum(cat(mm, nonce))
	f := cat([]byte{0x6A}, mm, h[:], []byte{0xBC})
	s := new(big.Int).Exp(new(big.Int).SetBytes(f), d, n)
	sig := make([]byte, k)
	s.FillBytes(sig)
	return &document.ActiveAuthEvidence{Algorithm: oid.OidRsaEncryption, Nonce: nonce, Signature: sig}
}

// validAAEC: plain r||s ECDSA over SHA-256(nonce) with the harness P-256 key and a fixed k.
func validAAEC(nonce []byte, kSeed int64) *document.ActiveAuthEvidence {
	ec := elliptic.P256()
	N := ec.Params().N
	k := big.NewInt(kSeed | 1)
	rx, _ := ec.ScalarBaseMult(k.Bytes())
	r := new(big.Int).Mod(rx, N)
	hs := sha256.Sum256(nonce)
	e := new(big.Int).SetBytes(hs[:])
	s := new(big.Int).Mul(r, aaECPriv)
	s.Add(s, e)
	s.Mul(s, new(big.Int).ModInverse(k, N))
	s.Mod(s, N)
	if r.Sign() == 0 || s.Sign() == 0 {
		return nil
	}
	sig := make([]byte, 64)
	r.FillBytes(sig[:32])
	s.FillBytes(sig[32:])
	return &document.ActiveAuthEvidence{Algorithm: oid.OidEcPublicKey, Nonce: nonce, Signature: sig}
}

// ---- warm-up ------------------------------------------------------------------------

// warmup executes every code path family once so that lazy initialisation
// (curve tables, sync.Once, OID maps) happens outside the measured regions,
// and self-checks the fixtures: the "valid" bundles must verify.
func warmup() {
	// a panic here must not take the test binary down: the properties report it properly
	protect(warmupBody)
}

func warmupBody() {
	doc := baseDoc()
	if ev := validCAEvidence(dg14Genuine, []byte{1, 2, 3, 4, 5, 6, 7, 8, 9}, 2); ev != nil {
		r, err := chipauth.VerifyEvidence(doc, ev)
		fixOK["ca"] = err == nil && r != nil && r.Success
	}
	if ev := validCAEvidence(dg14TDESP256, []byte{9, 8, 7, 6, 5}, 2); ev != nil {
		d2 := baseDoc()
		d2.Mf.Lds1.Dg14, _ = document.NewDG14(dg14TDESP256)
		r, err := chipauth.VerifyEvidence(d2, ev)
		fixOK["ca-tdes"] = err == nil && r != nil && r.Success
	}
	if ev := validPaceCamEvidence([]byte{1, 2, 3, 4, 5, 6, 7, 8, 9, 10, 11, 12, 13, 14, 15, 16}, []byte{0x21, 0x43}, []byte{0x65, 0x87}, []byte{0x11, 0x07}, []byte{0x33, 0x05}); ev != nil {
		r, err := pace.VerifyEvidence(doc, ev)
		fixOK["pace"] = err == nil && r != nil && r.Success
	}
	{
		d2 := baseDoc()
		d2.Mf.Lds1.Dg15, _ = document.NewDG15(dg15RSATest)
		r, err := activeauth.VerifyEvidence(d2, validAARSA([]byte{1, 2, 3, 4, 5, 6, 7, 8}, []byte("m1")))
		fixOK["aa-rsa"] = err == nil && r != nil && r.Success
		d2.Mf.Lds1.Dg15, _ = document.NewDG15(dg15ECP256)
		r, err = activeauth.VerifyEvidence(d2, validAAEC([]byte{1, 2, 3, 4, 5, 6, 7, 8}, 0x1234567))
		fixOK["aa-ec"] = err == nil && r != nil && r.Success
	}
	// curves, hashes, CBOR, JSON, verifier
	for _, c := range []elliptic.Curve{elliptic.P224(), elliptic.P256(), elliptic.P384(), elliptic.P521(), cryptoutils.EllipticP192(),
		brainpool.P192r1(), brainpool.P224r1(), brainpool.P256r1(), brainpool.P320r1(), brainpool.P384r1(), brainpool.P512r1()} {
		c.ScalarBaseMult([]byte{3})
	}
	docEx := &document.DocumentEx{Document: *doc}
	if blob, err := docEx.ToCbor(); err == nil {
		verifier.NewVerifier(trustStore).Verify(blob)
		mobile.NewVerifier().Verify(blob)
	}
	warmupLight()
}

// warmupLight: parsers, JSON encoders and Summary() once on the genuine files (no public-key work).
func warmupLight() {
	protect(func() {
		var ex document.DocumentEx
		for k := 0; k < nKinds; k++ {
			if obj, err := callCtor(k, genuine[k]); err == nil && obj != nil {
				json.Marshal(obj)
				setFile(&ex.Document, obj)
			}
		}
		json.Marshal(ex.Summary())
		json.Marshal(&ex)
		ex.Document.DgHashes()
		ex.ToCbor()
		if n, err := tlv.Decode(genuine[kDG14]); err == nil {
			_ = n.String()
			_ = n.Encode()
		}
	})
}

// ---- pools of valid evidence (public-key arithmetic is too slow to redo per case) ---------

var (
	caPool   = map[string][]*document.ChipAuthEvidence{} // keyed by the DG14 bytes
	pacePool []*document.PaceCamEvidence
	aaRSA    []*document.ActiveAuthEvidence
	aaEC     []*document.ActiveAuthEvidence
)

func buildPools() {
	for _, d := range dg14Variants() {
		for i := 0; i < 3; i++ {
			if ev := validCAEvidence(d, []byte{byte(0x11 * (i + 1)), 0x5A, byte(i), 0x77, 0x01}, int64(2+250*i)); ev != nil {
				caPool[string(d)] = append(caPool[string(d)], ev)
			}
		}
	}
	for i := 0; i < 3; i++ {
		n := make([]byte, 16)
		for j := range n {
			n[j] = byte(j*7 + i + 1)
		}
		if ev := validPaceCamEvidence(n, []byte{0x21, byte(0x43 + i)}, []byte{0x65, byte(0x87 + i)}, []byte{0x11, byte(0x07 + i)}, []byte{0x33, byte(0x05 + i)}); ev != nil {
			pacePool = append(pacePool, ev)
		}
		nonce := []byte{1, 2, 3, 4, 5, 6, 7, byte(8 + i)}
		aaRSA = append(aaRSA, validAARSA(nonce, []byte{byte(i), 'm', '1'}))
		if ev := validAAEC(nonce, int64(0x1234567+2*i)); ev != nil {
			aaEC = append(aaEC, ev)
		}
	}
	if len(pacePool) == 0 || len(aaEC) == 0 || len(caPool[string(dg14Genuine)]) == 0 {
		panic("evidence pools are empty")
	}
}

func cloneCA(e *document.ChipAuthEvidence) *document.ChipAuthEvidence {
	return &document.ChipAuthEvidence{TermPri: append([]byte{}, e.TermPri...), TermPubKey: append([]byte{}, e.TermPubKey...), SmRapdu: append([]byte{}, e.SmRapdu...), SmSsc: append([]byte{}, e.SmSsc...)}
}

func clonePACE(e *document.PaceCamEvidence) *document.PaceCamEvidence {
	c := *e
	c.PaceOid = append(asn1.ObjectIdentifier{}, e.PaceOid...)
	for _, f := range []*[]byte{&c.Nonce, &c.TermMapPri, &c.TermMapPub, &c.ChipMapPub, &c.TermKaPri, &c.TermKaPub, &c.ChipKaPub, &c.EcadIC} {
		*f = append([]byte{}, *f...)
	}
	return &c
}

func cloneAA(e *document.ActiveAuthEvidence) *document.ActiveAuthEvidence {
	return &document.ActiveAuthEvidence{Algorithm: append(asn1.ObjectIdentifier{}, e.Algorithm...), Nonce: append([]byte{}, e.Nonce...), Signature: append([]byte{}, e.Signature...)}
}

// pooledCA returns a valid bundle for the DG14 bytes (nil if there is none).
func pooledCA(dg14 []byte, i int) *document.ChipAuthEvidence {
	p := caPool[string(dg14)]
	if len(p) == 0 {
		return nil
	}
	return cloneCA(p[i%len(p)])
}
