package c12

// The protocol entry points (pace.DoPACE, chipauth.DoChipAuth, activeauth.DoActiveAuth,
// bac.DoBAC) consume bytes from a chip as well.  The byte-level targets above
// feed them garbage through reader.ReadDocument (which recovers panics); here
// they are called DIRECTLY against chips of the simulator that behave correctly
// on the protocol level but LACK something the protocol needs afterwards
// (EF.CardSecurity on a PACE-CAM chip, DG14 / DG15 in the document, an empty
// file) or answer a step with an unexpected but well-formed status.
//
// Oracle: a value or an error - no panic.

import (
	"encoding/hex"
	"fmt"
	"math/big"
	"testing"

	"github.com/gmrtd/gmrtd/activeauth"
	"github.com/gmrtd/gmrtd/bac"
	"github.com/gmrtd/gmrtd/chipauth"
	"github.com/gmrtd/gmrtd/document"
	"github.com/gmrtd/gmrtd/iso7816"
	"github.com/gmrtd/gmrtd/pace"
	"github.com/gmrtd/gmrtd/password"
	"pgregory.net/rapid"

	"verifharness/chipsim"
	"verifharness/detrand"
	"verifharness/evid"
	"verifharness/lds"
	"verifharness/ref/ecc"
	"verifharness/ref/mac"
)

const kfCamNoCardSec = "F19-pace-cam-without-cardsecurity-panics"

type camChipCase struct {
	ParamID      int    `json:"paramId"`
	Cipher       string `json:"cipher"`
	CardSecurity string `json:"cardSecurity"` // "absent", "empty", "one-octet", "no-ca-key", "genuine"
	Seed         string `json:"seed"`
}

func runCamChip(t TB, c camChipCase) int {
	seed, _ := hex.DecodeString(c.Seed)
	cv := ecc.ByPaceID(c.ParamID)
	cp := mac.Cipher(c.Cipher)
	st := detrand.New(append([]byte("c12-cam"), seed...))
	sk := cv.ScalarFromBytes(st.Bytes(cv.ByteLen + 8))
	if sk.Sign() == 0 {
		sk = big.NewInt(7)
	}
	pid := big.NewInt(int64(c.ParamID))
	oid := chipsim.PaceOID("CAM", cp)
	main := lds.PACEInfo(oid, 2, pid)
	cardAccess := lds.CardAccess(main)
	cfg := chipsim.Config{
		MRZInfo: "L898902C<369080619406236", CAN: "123456", PACE: []chipsim.PaceEntry{{OID: oid, ParamID: c.ParamID}},
		CAMKey: &chipsim.CAKey{KeyID: pid, Curve: cv, Priv: sk},
		MF:     map[uint16][]byte{chipsim.FidCardAccess: cardAccess},
		DF:     map[uint16][]byte{},
		Rand:   detrand.New(seed).Bytes,
	}
	switch c.CardSecurity {
	case "absent":
	case "empty":
		cfg.MF[chipsim.FidCardSecurity] = []byte{}
	case "one-octet":
		cfg.MF[chipsim.FidCardSecurity] = []byte{0x30}
	case "no-ca-key":
		cfg.MF[chipsim.FidCardSecurity] = lds.DummyCardSecurity(lds.SecurityInfos(main))
	default:
		cfg.MF[chipsim.FidCardSecurity] = lds.DummyCardSecurity(lds.SecurityInfos(main, lds.ChipAuthPubKeyInfo(lds.OidPkECDH, lds.SPKIStdDomain(c.ParamID, cv.Encode(cv.ScalarBaseMult(sk))), pid)))
	}
	if c.CardSecurity == "absent" && excluded(kfCamNoCardSec) {
		return -1
	}
	chip := chipsim.New(cfg)
	restore := detrand.Install(append([]byte("lib"), seed...))
	defer restore()
	nfc := iso7816.NewNfcSession(chip)
	doc := &document.Document{}
	ca, err := document.NewCardAccess(cardAccess)
	if err != nil {
		evidInfra(t, "NewCardAccess on a generated EF.CardAccess: %v", err)
		return 0
	}
	doc.Mf.CardAccess = ca
	stage := 0
	guard(t, "pace.DoPACE", 1<<19, func() map[string]any { return map[string]any{"entry": "pace.DoPACE", "case": c} }, func() {
		res, cam, err := pace.NewPace(nfc, doc, password.NewPasswordCan("123456")).DoPACE()
		if res != nil {
			stage = 1
		}
		if err == nil && cam != nil {
			stage = 2
		}
	})
	return stage
}

func TestPropProtocolEntryPoints(t *testing.T) {
	evid.RapidCheck(t, 320, 8000, func(rt *rapid.T) {
		switch rapid.IntRange(0, 3).Draw(rt, "protocol") {
		case 0, 1:
			c := camChipCase{
				ParamID:      rapid.SampledFrom([]int{12, 13, 10, 15, 8, 16, 17, 18}).Draw(rt, "paramId"),
				Cipher:       rapid.SampledFrom([]string{"AES-128", "AES-192", "AES-256"}).Draw(rt, "cipher"),
				CardSecurity: rapid.SampledFrom([]string{"absent", "absent", "empty", "one-octet", "no-ca-key", "genuine"}).Draw(rt, "cardSecurity"),
				Seed:         hex.EncodeToString(rapid.SliceOfN(rapid.Byte(), 8, 8).Draw(rt, "seed")),
			}
			st := runCamChip(rt, c)
			record("protocol/pace-cam", "cardsecurity-"+c.CardSecurity, st, []byte(fmt.Sprint(c)))
		case 2:
			// Chip Authentication / Active Authentication on documents that lack the file they need
			which := rapid.SampledFrom([]string{"ca-no-dg14", "aa-no-dg15", "ca-empty-doc", "bac-silent-chip"}).Draw(rt, "which")
			chip := chipsim.New(chipsim.Config{MRZInfo: "L898902C<369080619406236", BAC: true, MF: map[uint16][]byte{}, DF: map[uint16][]byte{},
				Rand: detrand.New(rapid.SliceOfN(rapid.Byte(), 8, 8).Draw(rt, "seed")).Bytes})
			nfc := iso7816.NewNfcSession(chip)
			doc := &document.Document{}
			guard(rt, "protocol/"+which, 1<<16, func() map[string]any { return map[string]any{"entry": which} }, func() {
				switch which {
				case "ca-no-dg14", "ca-empty-doc":
					chipauth.NewChipAuth(nfc, doc).DoChipAuth()
				case "aa-no-dg15":
					activeauth.NewActiveAuth(nfc, doc).DoActiveAuth()
				default:
					pw, _ := password.NewPasswordMrzi("L898902C", "690806", "940623")
					bac.NewBAC(iso7816.NewNfcSession(silentChip{}), doc, pw).DoBAC()
				}
			})
			record("protocol/missing-file", which, 1, []byte(which))
		default:
			// the regression input of F19 through the recovering entry point as well
			st := runCamChip(rt, camChipCase{ParamID: 13, Cipher: "AES-128", CardSecurity: "absent", Seed: hex.EncodeToString(rapid.SliceOfN(rapid.Byte(), 8, 8).Draw(rt, "seed"))})
			record("protocol/pace-cam", "cardsecurity-absent", st, []byte("f19"))
		}
	})
}

// silentChip answers every command with a bare status.
type silentChip struct{}

func (silentChip) Transceive(cla, ins, p1, p2 int, data []byte, le int, encoded []byte) []byte {
	return []byte{0x6F, 0x00}
}

// TestFindingF19 is the probe (while the finding is open) and the regression test (once fixed):
// pace.DoPACE against a PACE-CAM chip that stores no EF.CardSecurity.
func TestFindingF19(t *testing.T) {
	if evid.Shard() != 0 || fuzzing {
		return
	}
	for _, id := range []int{13, 12, 18} {
		c := camChipCase{ParamID: id, Cipher: "AES-128", CardSecurity: "absent", Seed: "0102030405060708"}
		if isOpen(kfCamNoCardSec) {
			// the exclusion makes runCamChip skip the case: probe the entry point directly
			openMu.Lock()
			openCache[kfCamNoCardSec] = false
			openMu.Unlock()
			pv, _ := protect(func() { runCamChip(nopTB{}, c) })
			openMu.Lock()
			openCache[kfCamNoCardSec] = true
			openMu.Unlock()
			if pv != nil {
				evid.ReportKnown(prop, kfCamNoCardSec, fmt.Sprintf("pace.DoPACE panics against a PACE-CAM chip that stores no EF.CardSecurity (parameter id %d): %v", id, pv))
				return
			}
			continue
		}
		st := runCamChip(t, c)
		record("regression/F19", "cardsecurity-absent", st, []byte(fmt.Sprint(id)))
	}
}

// nopTB swallows the failure of a probe run (the probe only wants to know whether it panics).
type nopTB struct{}

func (nopTB) Helper()                           {}
func (nopTB) Fatalf(format string, args ...any) { panic(fmt.Sprintf(format, args...)) }
func (nopTB) Logf(format string, args ...any)   {}
func (nopTB) Errorf(format string, args ...any) {}
func (nopTB) Skip(args ...any)                  {}
