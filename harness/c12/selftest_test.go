package c12

import (
	"testing"

	"verifharness/evid"
)

// TestFixtures: harness self-test.  The "valid" evidence bundles must verify
// (otherwise the evidence targets only exercise the first checks), and the
// BER mirror must agree with the genuine files.
func TestFixtures(t *testing.T) {
	for _, k := range []string{"ca", "ca-tdes", "pace", "aa-rsa", "aa-ec"} {
		if !fixOK[k] {
			evid.Infra(t, "fixture %q does not verify: the generators would not reach the logic behind the first checks", k)
		}
	}
	for k := 0; k < nKinds; k++ {
		if decodeKinds[k] {
			if sc := scanDecode(genuine[k]); !sc.ok {
				evid.Infra(t, "BER mirror rejects the genuine %s", kindName[k])
			}
		}
	}
	if seed39794 == nil || seed39794Small == nil {
		evid.Infra(t, "ISO 39794 seed files not found under %s", repoDir())
	}
}
