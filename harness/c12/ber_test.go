package c12

// Independent BER walker + encoders used by the generators and by the
// known-finding class predicates.  It mirrors the traversal ORDER of gmrtd's
// tlv.Decode / tlv.Unwrap (so that "which problem is met first" is the same)
// but shares no code with it.

import (
	"encoding/asn1"
)

type bnode struct {
	tag  uint32
	cons bool
	val  []byte
	kids []*bnode
}

type scanRes struct {
	ok    bool  // tlv.Decode is expected to succeed
	lie   int64 // first definite length that exceeds the bytes remaining (0 = none met)
	nodes int
	depth int
	roots []*bnode
}

type cursor struct {
	b []byte
	p int
}

func (c *cursor) rem() int { return len(c.b) - c.p }

const (
	libMaxDepth = 50
	libMaxNodes = 10000
)

// parseTag mirrors the tag grammar: 1 octet, or 1F-form with up to 4 octets in total.
func parseTag(c *cursor) (tag uint32, ok bool) {
	if c.rem() < 1 {
		return 0, false
	}
	tag = uint32(c.b[c.p])
	c.p++
	if tag&0x1f == 0x1f {
		for {
			if tag&0xFF000000 != 0 {
				return 0, false
			}
			if c.rem() < 1 {
				return 0, false
			}
			t := c.b[c.p]
			c.p++
			tag = tag<<8 + uint32(t)
			if t&0x80 == 0 {
				break
			}
		}
	}
	return tag, true
}

// parseLen: -1 = indefinite.
func parseLen(c *cursor) (l int64, ok bool) {
	if c.rem() < 1 {
		return 0, false
	}
	b := c.b[c.p]
	c.p++
	switch {
	case b <= 0x7f:
		return int64(b), true
	case b == 0x80:
		return -1, true
	case b <= 0x84:
		n := int(b - 0x80)
		if c.rem() < n {
			c.p = len(c.b)
			return 0, false
		}
		var v int64
		for i := 0; i < n; i++ {
			v = v<<8 | int64(c.b[c.p+i])
		}
		c.p += n
		return v, true
	}
	return 0, false
}

func tagConstructed(tag uint32) bool {
	if tag < 1 {
		return false
	}
	for tag > 0xff {
		tag >>= 8
	}
	return tag&0x20 != 0
}

type walker struct {
	res   *scanRes
	count int
}

// decode returns (nodes, ok).  On !ok the walk stops exactly where the library stops.
func (w *walker) decode(c *cursor, depth int) ([]*bnode, bool) {
	if depth > libMaxDepth {
		return nil, false
	}
	if depth > w.res.depth {
		w.res.depth = depth
	}
	var out []*bnode
	for c.rem() > 0 {
		tag, ok := parseTag(c)
		if !ok {
			return nil, false
		}
		l, ok := parseLen(c)
		if !ok {
			return nil, false
		}
		if tag == 0 && l == 0 {
			return out, true
		}
		w.count++
		if w.count > libMaxNodes {
			return nil, false
		}
		if tagConstructed(tag) {
			n := &bnode{tag: tag, cons: true}
			if l == -1 {
				kids, ok := w.decode(c, depth+1)
				if !ok {
					return nil, false
				}
				n.kids = kids
			} else {
				if l > int64(c.rem()) {
					if w.res.lie == 0 {
						w.res.lie = l
					}
					return nil, false
				}
				cc := &cursor{b: c.b[c.p : c.p+int(l)]}
				c.p += int(l)
				kids, ok := w.decode(cc, depth+1)
				if !ok {
					return nil, false
				}
				if cc.rem() > 0 {
					return nil, false
				}
				n.kids = kids
			}
			out = append(out, n)
		} else {
			if l == -1 {
				return nil, false
			}
			if l > int64(c.rem()) {
				if w.res.lie == 0 {
					w.res.lie = l
				}
				return nil, false
			}
			out = append(out, &bnode{tag: tag, val: c.b[c.p : c.p+int(l)]})
			c.p += int(l)
		}
	}
	return out, true
}

// scanDecode predicts what tlv.Decode(data) does.
func scanDecode(data []byte) *scanRes {
	r := &scanRes{}
	w := &walker{res: r}
	c := &cursor{b: data}
	roots, ok := w.decode(c, 0)
	r.nodes = w.count
	if ok && c.rem() == 0 {
		r.ok = true
		r.roots = roots
	}
	return r
}

type unwrapRes struct {
	ok    bool
	tag   uint32
	val   []byte
	indef bool  // top-level length octet is 80 (indefinite)
	lie   int64 // declared length exceeding the remaining bytes
}

// scanUnwrap predicts what tlv.Unwrap(data) does.
func scanUnwrap(data []byte) unwrapRes {
	var r unwrapRes
	c := &cursor{b: data}
	tag, ok := parseTag(c)
	if !ok {
		return r
	}
	l, ok := parseLen(c)
	if !ok {
		return r
	}
	r.tag = tag
	if l == -1 {
		r.indef = true
		return r
	}
	if l > int64(c.rem()) {
		r.lie = l
		return r
	}
	r.val = c.b[c.p : c.p+int(l)]
	c.p += int(l)
	if c.rem() > 0 {
		return r
	}
	r.ok = true
	return r
}

func firstByTag(nodes []*bnode, tag uint32) *bnode {
	for _, n := range nodes {
		if n.tag == tag {
			return n
		}
	}
	return nil
}

// oidWouldPanic mirrors the four lines of oid.DecodeAsn1objectId with the
// standard library only: the value is wrapped as 06 <byte(len)> <value> and
// must parse as an OBJECT IDENTIFIER without rest.
func oidWouldPanic(v []byte) bool {
	w := append([]byte{0x06, byte(len(v))}, v...)
	var o asn1.ObjectIdentifier
	rest, err := asn1.Unmarshal(w, &o)
	return err != nil || len(rest) > 0
}

// treeHasBadOID: some primitive node with tag 06 whose String() would panic.
func treeHasBadOID(nodes []*bnode) bool {
	for _, n := range nodes {
		if n.cons {
			if treeHasBadOID(n.kids) {
				return true
			}
		} else if n.tag == 0x06 && oidWouldPanic(n.val) {
			return true
		}
	}
	return false
}

// stringCost is an upper estimate of the bytes allocated by String() on the
// tree: every nesting level copies the text of its whole subtree into a fresh
// strings.Builder (growth by doubling => factor 3), plus per-node constants.
func stringCost(nodes []*bnode) int64 {
	depth, out, cnt := treeShape(nodes, 0)
	return 3*int64(depth+1)*out + 400*int64(cnt)
}

func treeShape(nodes []*bnode, indent int) (depth int, out int64, cnt int) {
	for _, n := range nodes {
		cnt++
		if n.cons {
			out += int64(2*indent + 10)
			d, o, c := treeShape(n.kids, indent+1)
			if d+1 > depth {
				depth = d + 1
			}
			out += o
			cnt += c
		} else {
			// "<indent><tag>: <hex> [<printable or oid text>]\n"
			out += int64(2*indent+14) + 3*int64(len(n.val))
			if n.tag == 0x06 {
				out += 12*int64(len(n.val)) + 80
			}
		}
	}
	return
}

// ---- encoders (generator side) ---------------------------------------------

func encLen(n int) []byte {
	switch {
	case n < 0x80:
		return []byte{byte(n)}
	case n < 0x100:
		return []byte{0x81, byte(n)}
	case n < 0x10000:
		return []byte{0x82, byte(n >> 8), byte(n)}
	case n < 0x1000000:
		return []byte{0x83, byte(n >> 16), byte(n >> 8), byte(n)}
	}
	return []byte{0x84, byte(n >> 24), byte(n >> 16), byte(n >> 8), byte(n)}
}

func encTag(tag uint32) []byte {
	switch {
	case tag > 0xffffff:
		return []byte{byte(tag >> 24), byte(tag >> 16), byte(tag >> 8), byte(tag)}
	case tag > 0xffff:
		return []byte{byte(tag >> 16), byte(tag >> 8), byte(tag)}
	case tag > 0xff:
		return []byte{byte(tag >> 8), byte(tag)}
	}
	return []byte{byte(tag)}
}

// tl builds tag || definite length || content.
func tl(tag uint32, content ...[]byte) []byte {
	n := 0
	for _, c := range content {
		n += len(c)
	}
	out := append([]byte{}, encTag(tag)...)
	out = append(out, encLen(n)...)
	for _, c := range content {
		out = append(out, c...)
	}
	return out
}

func cat(parts ...[]byte) []byte {
	var out []byte
	for _, p := range parts {
		out = append(out, p...)
	}
	return out
}
