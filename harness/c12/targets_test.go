package c12

// One oracle function per entry point family.  Each takes the raw input bytes,
// decides the entry point arguments with a small decoder layer, skips (and
// counts) inputs that fall into the class of an OPEN known finding, and runs
// every library call under guard().  Return value: -1 excluded, 0 rejected at
// the first parse step, >=1 got past it (non-trivial).

import (
	"bytes"
	"encoding/asn1"
	"encoding/json"
	"math/big"
	"strings"

	"github.com/gmrtd/gmrtd/cms"
	"github.com/gmrtd/gmrtd/cryptoutils"
	"github.com/gmrtd/gmrtd/document"
	"github.com/gmrtd/gmrtd/document/iso19794"
	"github.com/gmrtd/gmrtd/document/iso39794"
	"github.com/gmrtd/gmrtd/iso7816"
	"github.com/gmrtd/gmrtd/mobile"
	"github.com/gmrtd/gmrtd/mrz"
	"github.com/gmrtd/gmrtd/oid"
	"github.com/gmrtd/gmrtd/password"
	"github.com/gmrtd/gmrtd/tlv"

	"verifharness/evid"
)

func rep(kv ...any) func() map[string]any {
	return func() map[string]any {
		m := map[string]any{}
		for i := 0; i+1 < len(kv); i += 2 {
			k := kv[i].(string)
			switch v := kv[i+1].(type) {
			case []byte:
				m[k] = hx(v)
			default:
				m[k] = v
			}
		}
		return m
	}
}

// ---------------------------------------------------------------- TLV

func runTlvDecode(t TB, data []byte) int {
	sc := scanDecode(data)
	if sc.lie >= lieMin && excluded(kfLie) {
		return -1
	}
	var nodes *tlv.TlvNodes
	var err error
	r := rep("entry", "tlv.Decode", "input", data)
	guard(t, "tlv.Decode", len(data), r, func() { nodes, err = tlv.Decode(data) })
	if (err == nil) != sc.ok {
		// the mirror walker decides the known-finding classes; if it disagrees
		// with the library about acceptance the harness is unreliable.
		if isOpen(kfLie) || isOpen(kfOid) || isOpen(kfString) {
			evidInfra(t, "BER mirror disagrees with tlv.Decode on %s: lib err=%v mirror ok=%v", hx(data[:min(len(data), 200)]), err, sc.ok)
			return 0
		}
		// no finding is open, so nothing is excluded on the mirror's word: the disagreement (e.g. a
		// decoder whose limits moved) is recorded and the no-panic / allocation oracles go on
		if !fuzzing {
			evid.Count("ber-mirror-disagrees(informative)", 1)
		}
	}
	if err != nil || nodes == nil {
		return 0
	}
	skipString := false
	if treeHasBadOID(sc.roots) && excluded(kfOid) {
		skipString = true
	}
	if !skipString && stringCost(sc.roots) > stringLimit(len(data)) && excluded(kfString) {
		skipString = true
	}
	if !skipString {
		// the rendering is indented: its size is legitimately (depth x nodes); allocation may be
		// proportional to the input AND to the text produced (16 bytes per output byte)
		outLen := 0
		guardN(t, "tlv.String", false, func() int { return len(data) + outLen*16/allocPerByte }, rep("entry", "tlv.Decode(x).String()", "input", data), func() {
			outLen = len(nodes.String())
		})
		if top := nodes.Nodes(); len(top) > 0 {
			out2 := 0
			guardN(t, "tlv.String", false, func() int { return len(data) + out2*16/allocPerByte }, rep("entry", "first node (and its first child) .String()", "input", data), func() {
				out2 = len(top[0].String())
				if ch := top[0].Children(); len(ch) > 0 {
					out2 += len(ch[0].String())
				}
			})
		}
	}
	guard(t, "tlv.Encode", len(data), rep("entry", "tlv.Decode(x).Encode()", "input", data), func() { _ = nodes.Encode() })
	// DecodeEncode is two passes (decode, then re-encode the tree): each pass gets the per-byte budget
	guard(t, "tlv.DecodeEncode", 2*len(data), rep("entry", "tlv.DecodeEncode", "input", data), func() { tlv.DecodeEncode(data) })
	guard(t, "tlv.Navigate", len(data), rep("entry", "NodeByTag/Value/Children", "input", data), func() {
		for _, tag := range []tlv.TlvTag{0x30, 0x31, 0x06, 0x5C, 0x7F61, 0xA0, 0x02} {
			n := nodes.NodeByTag(tag)
			_ = n.IsValidNode()
			_ = n.Tag()
			_ = n.NodeByTag(0x06).Value()
			_ = n.NodeByTagOccur(tag, 2).Children()
		}
		if top := nodes.Nodes(); len(top) > 0 {
			_ = top[0].Value()
		}
	})
	return 1
}

func runTlvUnwrap(t TB, data []byte) int {
	u := scanUnwrap(data)
	stage := 0
	skipUnwrap := false
	if u.indef && excluded(kfIndef) {
		skipUnwrap = true
	}
	if u.lie >= lieMin && excluded(kfLie) {
		skipUnwrap = true
	}
	if !skipUnwrap {
		var err error
		guard(t, "tlv.Unwrap", len(data), rep("entry", "tlv.Unwrap", "input", data), func() { _, _, err = tlv.Unwrap(data) })
		if err == nil {
			stage = 1
		}
		want := tlv.TlvTag(0x77)
		if len(data) > 0 {
			want = tlv.TlvTag(data[0])
		}
		guard(t, "tlv.UnwrapTag", len(data), rep("entry", "tlv.UnwrapTag(first octet)", "input", data), func() { tlv.UnwrapTag(want, data) })
	} else {
		stage = -1
	}
	guard(t, "tlv.ParseTags", len(data), rep("entry", "tlv.ParseTags", "input", data), func() { tlv.ParseTags(bytes.NewBuffer(data)) })
	guard(t, "tlv.ParseTagAndLength", len(data), rep("entry", "tlv.ParseTagAndLength", "input", data), func() {
		b := bytes.NewBuffer(data)
		tlv.ParseTagAndLength(b)
		tlv.ParseTag(b)
		tlv.ParseLength(b)
	})
	return stage
}

// ---------------------------------------------------------------- APDU + SM

func runRApdu(t TB, data []byte) int {
	var r *iso7816.RApdu
	var err error
	guard(t, "iso7816.ParseRApdu", len(data), rep("entry", "ParseRApdu", "input", data), func() {
		r, err = iso7816.ParseRApdu(data)
		if err == nil {
			_ = r.Encode()
			_ = r.String()
			_ = r.IsSuccess()
			_ = r.FileNotFound()
		}
	})
	if err != nil {
		return 0
	}
	return 1
}

type smSetup struct {
	alg    cryptoutils.BlockCipherAlg
	keyLen int
}

var smSetups = []smSetup{{cryptoutils.TDES, 16}, {cryptoutils.AES, 16}, {cryptoutils.AES, 24}, {cryptoutils.AES, 32}}

func sscPlusOne(ssc []byte) []byte {
	v := new(big.Int).SetBytes(ssc)
	v.Add(v, big.NewInt(1))
	out := make([]byte, len(ssc))
	if len(v.Bytes()) > len(ssc) {
		return out
	}
	v.FillBytes(out)
	return out
}

// runSM: input layout  [suite][sscMode][bodyMode] body...
func runSM(t TB, data []byte) int {
	if len(data) < 3 {
		data = append(append([]byte{}, data...), 0, 0, 0)
	}
	su := smSetups[int(data[0])%len(smSetups)]
	sscMode, bodyMode, body := int(data[1])%6, int(data[2])%4, data[3:]
	bs := 8
	if su.alg == cryptoutils.AES {
		bs = 16
	}
	ksEnc, ksMac := make([]byte, su.keyLen), make([]byte, su.keyLen)
	for i := range ksEnc {
		ksEnc[i], ksMac[i] = byte(i+1), byte(0xA0+i)
	}
	ssc := make([]byte, bs)
	switch sscMode {
	case 1:
		for i := range ssc {
			ssc[i] = 0xff
		}
	case 2:
		for i := range ssc {
			ssc[i] = 0xff
		}
		ssc[bs-1] = 0xfe
	case 3:
		copy(ssc, body)
		if len(body) >= bs {
			body = body[bs:]
		} else {
			body = nil
		}
	case 4:
		ssc = make([]byte, bs+1+len(body)%5) // wrong length: SetSSC must refuse
	case 5:
		ssc[bs-1] = 1
	}
	var rapdu []byte
	macFor := func(dos []byte) []byte {
		// the library MACs SSC+1 || DO85 || DO87 || DO99 (first occurrences, re-encoded)
		sc := scanDecode(dos)
		if !sc.ok {
			return make([]byte, 8)
		}
		var md []byte
		for _, tag := range []uint32{0x85, 0x87, 0x99} {
			if n := firstByTag(sc.roots, tag); n != nil {
				md = append(md, reencode([]*bnode{n})...)
			}
		}
		base := ssc
		if len(ssc) != bs {
			base = make([]byte, bs)
		}
		return smMac(su.alg, ksMac, cat(sscPlusOne(base), md))
	}
	switch bodyMode {
	case 0:
		rapdu = body
	case 1: // arbitrary DOs + correct MAC + SW taken from the input
		sw := []byte{0x90, 0x00}
		dos := body
		if len(body) >= 2 {
			sw, dos = body[len(body)-2:], body[:len(body)-2]
		}
		rapdu = cat(dos, []byte{0x8E, 0x08}, macFor(dos), sw)
	case 2, 3: // DO87 around (encrypted | raw) payload, DO99, correct MAC
		sw := []byte{0x90, 0x00}
		payload := body
		if len(body) >= 2 {
			sw, payload = body[:2], body[2:]
		}
		var ct []byte
		if bodyMode == 2 {
			smx, err := iso7816.NewSecureMessaging(su.alg, ksEnc, ksMac)
			if err == nil {
				base := ssc
				if len(ssc) != bs {
					base = make([]byte, bs)
				}
				_ = smx.SetSSC(sscPlusOne(base))
				// encrypt with the library's own CBC helper through Encode of a data command
				ct = smEncrypt(su, ksEnc, sscPlusOne(base), payload)
			}
		} else {
			ct = payload
		}
		dos := cat(tl(0x87, []byte{0x01}, ct), []byte{0x99, 0x02}, sw)
		rapdu = cat(dos, []byte{0x8E, 0x08}, macFor(dos), sw)
	}
	sc := scanDecode(rapduData(rapdu))
	if sc.lie >= lieMin && excluded(kfLie) {
		return -1
	}
	stage := 0
	guard(t, "SecureMessaging.Decode", len(rapdu), rep("entry", "SecureMessaging.Decode", "alg", int(su.alg), "ksEnc", ksEnc, "ksMac", ksMac, "ssc", ssc, "rapdu", rapdu), func() {
		sm, err := iso7816.NewSecureMessaging(su.alg, ksEnc, ksMac)
		if err != nil {
			return
		}
		if err := sm.SetSSC(ssc); err != nil {
			if len(ssc) == bs {
				panic("SetSSC refused a counter of the right size")
			}
		}
		r, err := sm.Decode(rapdu)
		if err == nil && r != nil {
			stage = 2
			_ = r.String()
		} else if err != nil && !strings.Contains(err.Error(), "ParseRApdu") && !strings.Contains(err.Error(), "missing data") && !strings.Contains(err.Error(), "[SM.Decode] error") {
			stage = 1
		}
		_ = sm.SSC()
		_ = sm.String()
		// a second response on the same instance (counter keeps moving)
		sm.Decode(rapdu)
	})
	return stage
}

func rapduData(r []byte) []byte {
	if len(r) < 2 {
		return nil
	}
	return r[:len(r)-2]
}

// ---------------------------------------------------------------- LDS constructors

// callCtor calls the constructor of the file kind; obj is nil unless a file object was produced.
func callCtor(kind int, data []byte) (obj any, err error) {
	switch kind {
	case kCOM:
		v, e := document.NewCOM(data)
		if v != nil {
			obj = v
		}
		err = e
	case kSOD:
		v, e := document.NewSOD(data)
		if v != nil {
			obj = v
		}
		err = e
	case kDG1:
		v, e := document.NewDG1(data)
		if v != nil {
			obj = v
		}
		err = e
	case kDG2:
		v, e := document.NewDG2(data)
		if v != nil {
			obj = v
		}
		err = e
	case kDG7:
		v, e := document.NewDG7(data)
		if v != nil {
			obj = v
		}
		err = e
	case kDG11:
		v, e := document.NewDG11(data)
		if v != nil {
			obj = v
		}
		err = e
	case kDG12:
		v, e := document.NewDG12(data)
		if v != nil {
			obj = v
		}
		err = e
	case kDG13:
		v, e := document.NewDG13(data)
		if v != nil {
			obj = v
		}
		err = e
	case kDG14:
		v, e := document.NewDG14(data)
		if v != nil {
			obj = v
		}
		err = e
	case kDG15:
		v, e := document.NewDG15(data)
		if v != nil {
			obj = v
		}
		err = e
	case kDG16:
		v, e := document.NewDG16(data)
		if v != nil {
			obj = v
		}
		err = e
	case kCardAccess:
		v, e := document.NewCardAccess(data)
		if v != nil {
			obj = v
		}
		err = e
	case kCardSecurity:
		v, e := document.NewCardSecurity(data)
		if v != nil {
			obj = v
		}
		err = e
	case kEFDIR:
		v, e := document.NewEFDIR(data)
		if v != nil {
			obj = v
		}
		err = e
	}
	return
}

// setFile stores a constructed file object into a document.
func setFile(doc *document.Document, obj any) {
	switch v := obj.(type) {
	case *document.COM:
		doc.Mf.Lds1.Com = v
	case *document.SOD:
		doc.Mf.Lds1.Sod = v
	case *document.DG1:
		doc.Mf.Lds1.Dg1 = v
	case *document.DG2:
		doc.Mf.Lds1.Dg2 = v
	case *document.DG7:
		doc.Mf.Lds1.Dg7 = v
	case *document.DG11:
		doc.Mf.Lds1.Dg11 = v
	case *document.DG12:
		doc.Mf.Lds1.Dg12 = v
	case *document.DG13:
		doc.Mf.Lds1.Dg13 = v
	case *document.DG14:
		doc.Mf.Lds1.Dg14 = v
	case *document.DG15:
		doc.Mf.Lds1.Dg15 = v
	case *document.DG16:
		doc.Mf.Lds1.Dg16 = v
	case *document.CardAccess:
		doc.Mf.CardAccess = v
	case *document.CardSecurity:
		doc.Mf.CardSecurity = v
	case *document.EFDIR:
		doc.Mf.Dir = v
	}
}

var decodeKinds = map[int]bool{kCOM: true, kDG1: true, kDG2: true, kDG7: true, kDG11: true, kDG12: true, kDG14: true, kDG16: true, kEFDIR: true}

func bytesToIntLikeLib(b []byte) int {
	out := 0
	for _, c := range b {
		out <<= 8
		out += int(c)
	}
	return out
}

// nodeValue mirrors TlvNode.Value(): primitive = value, constructed = re-encoded children.
func nodeValue(n *bnode) []byte {
	if n == nil {
		return nil
	}
	if n.cons {
		return reencode(n.kids)
	}
	return n.val
}

// dg16Hazard: which templates does NewDG16 render with String() before it
// stops?  (numTemplates from tag 02, templates A1..; a template whose name
// does not parse ends the walk.)
func dg16Hazard(sc *scanRes, inLen int) string {
	root := firstByTag(sc.roots, 0x70)
	if root == nil || !root.cons {
		return ""
	}
	n := bytesToIntLikeLib(nodeValue(firstByTag(root.kids, 0x02)))
	if n < 1 || n > 15 {
		return ""
	}
	for i := 1; i <= n; i++ {
		tmpl := firstByTag(root.kids, uint32(0xA0+i))
		if tmpl == nil {
			return ""
		}
		if treeHasBadOID([]*bnode{tmpl}) {
			return kfOid
		}
		if stringCost([]*bnode{tmpl}) > stringLimit(inLen) {
			return kfString
		}
		name := string(nodeValue(firstByTag(tmpl.kids, 0x5F51)))
		name = strings.TrimRight(strings.ReplaceAll(name, "<", " "), " ")
		if len(strings.Split(name, "  ")) > 2 {
			return ""
		}
	}
	return ""
}

// ctorHazard returns the key of the known-finding class the input of a
// constructor belongs to ("" = none).
func ctorHazard(kind int, data []byte) string {
	switch {
	case decodeKinds[kind]:
		sc := scanDecode(data)
		if sc.lie >= lieMin {
			return kfLie
		}
		if kind == kDG16 && sc.ok {
			return dg16Hazard(sc, len(data))
		}
	case kind == kDG13 || kind == kDG15 || kind == kSOD:
		u := scanUnwrap(data)
		if u.indef {
			return kfIndef
		}
		if u.lie >= lieMin {
			return kfLie
		}
		if kind == kSOD && u.ok && u.tag == 0x77 {
			// NewSOD falls back to tlv.DecodeEncode when the CMS parser refuses the content
			var perr error
			protect(func() { _, perr = cms.ParseSignedData(u.val) })
			if perr != nil {
				if sc := scanDecode(u.val); sc.lie >= lieMin {
					return kfLie
				}
			}
		}
	}
	return ""
}

func ctorStage(kind int, data []byte, err error) int {
	if err == nil {
		if len(data) == 0 {
			return 0
		}
		return 2
	}
	switch {
	case decodeKinds[kind]:
		if sc := scanDecode(data); sc.ok {
			return 1
		}
	case kind == kDG13 || kind == kDG15 || kind == kSOD:
		if u := scanUnwrap(data); u.ok {
			return 1
		}
	default:
		s := err.Error()
		if !strings.Contains(s, "asn1 parsing error (contentInfo)") && !strings.Contains(s, "[DecodeSecurityInfos] ParseAsn1 error") {
			return 1
		}
	}
	return 0
}

func runCtor(t TB, kind int, data []byte) int {
	if k := ctorHazard(kind, data); k != "" && excluded(k) {
		return -1
	}
	name := "New" + kindName[kind]
	var obj any
	var err error
	inLen := len(data)
	if kind == kSOD {
		// NewSOD may walk the content three times: CMS parse, TLV decode + re-encode
		// (indefinite-length normalisation), CMS parse again
		inLen = 3 * len(data)
	}
	guard(t, name, inLen, rep("entry", "document."+name, "input", data), func() { obj, err = callCtor(kind, data) })
	stage := ctorStage(kind, data, err)
	if err == nil && obj != nil {
		postCtor(t, kind, obj, data)
	}
	return stage
}

// postCtor: JSON view, Summary() and the Document helpers on whatever the constructor returned.
func postCtor(t TB, kind int, obj any, data []byte) {
	name := kindName[kind]
	guard(t, "json-"+name, len(data), rep("entry", "json.Marshal(document.New"+name+"(x))", "input", data), func() {
		json.Marshal(obj)
		if rp, ok := obj.(document.RawDataProvider); ok {
			_ = rp.GetRawData()
		}
	})
	guard(t, "summary-"+name, len(data), rep("entry", "DocumentEx.Summary() with New"+name+"(x)", "input", data), func() {
		var ex document.DocumentEx
		setFile(&ex.Document, obj)
		s := ex.Summary()
		json.Marshal(s)
		_ = ex.Document.LdsVersion()
		_ = ex.Document.UnicodeVersion()
		_ = ex.Document.Verify()
		ex.Document.DgHashes()
		_ = ex.Session.VerifiedChipAuthStatus().String()
		json.Marshal(&ex)
		switch v := obj.(type) {
		case *document.DG1:
			v.IssuingCountryAlpha2()
		case *document.SOD:
			v.CertCountryAlpha2()
			_ = v.HasDgHash(1)
		case *document.DG14:
			if v.SecInfos != nil {
				_ = v.SecInfos.TotalCnt()
				v.SecInfos.Contains(v.SecInfos)
			}
		}
	})
}

var newDGNumbers = []int{1, 2, 7, 11, 12, 13, 14, 15, 16, 0, 3, 17, -1, 255}

func runNewDG(t TB, sel byte, data []byte) int {
	dg := newDGNumbers[int(sel)%len(newDGNumbers)]
	kind := -1
	for k := 0; k < nKinds; k++ {
		if dgNumber[k] == dg && dg > 0 {
			kind = k
		}
	}
	if kind >= 0 {
		if k := ctorHazard(kind, data); k != "" && excluded(k) {
			return -1
		}
	}
	var err error
	guard(t, "Document.NewDG", len(data), rep("entry", "Document.NewDG", "dg", dg, "input", data), func() {
		var doc document.Document
		err = doc.NewDG(dg, data)
	})
	if kind < 0 {
		return 0
	}
	return ctorStage(kind, data, err)
}

func runSecInfos(t TB, data []byte) int {
	var si *document.SecurityInfos
	var err error
	guard(t, "DecodeSecurityInfos", len(data), rep("entry", "document.DecodeSecurityInfos", "input", data), func() {
		si, err = document.DecodeSecurityInfos(data)
	})
	if err != nil || si == nil {
		return ctorStage(kCardAccess, data, err)
	}
	guard(t, "json-SecurityInfos", len(data), rep("entry", "json.Marshal(DecodeSecurityInfos(x))", "input", data), func() {
		json.Marshal(si)
		_ = si.TotalCnt()
		si.Contains(si)
	})
	return 2
}

// ---------------------------------------------------------------- biometric blocks

func runISO19794(t TB, data []byte) int {
	var err error
	var v *iso19794.ISO19794
	guard(t, "ProcessISO19794", len(data), rep("entry", "iso19794.ProcessISO19794", "input", data), func() {
		v, err = iso19794.ProcessISO19794(data)
		if err == nil && v != nil {
			_ = v.Images()
			json.Marshal(v)
		}
	})
	if err == nil {
		return 2
	}
	if !strings.Contains(err.Error(), "binary.Read error") && !strings.Contains(err.Error(), "FormatID") {
		return 1
	}
	return 0
}

func runISO39794(t TB, data []byte) int {
	var err error
	guard(t, "ProcessISO39794p5", len(data), rep("entry", "iso39794.ProcessISO39794p5", "input", data), func() {
		var v *iso39794.ISO39794_5_AP
		v, err = iso39794.ProcessISO39794p5(data)
		if err == nil && v != nil {
			_ = v.Images()
			json.Marshal(v)
		}
	})
	if err == nil {
		return 2
	}
	if !strings.Contains(err.Error(), "asn1 parsing error") {
		return 1
	}
	return 0
}

// ---------------------------------------------------------------- MRZ

func runMrz(t TB, data []byte) int {
	s := string(data)
	stage := 0
	guard(t, "mrz", len(data), rep("entry", "mrz.MrzDecode/ConvertMrzToMrzi/NewPasswordMrz", "input", data), func() {
		m, err := mrz.MrzDecode(s)
		if err == nil && m != nil {
			stage = 2
			m.EncodeMrzi()
			json.Marshal(m)
		} else if len(s) == 72 || len(s) == 88 || len(s) == 90 {
			stage = 1
		}
		mrz.ConvertMrzToMrzi(s)
		if p, err := password.NewPasswordMrz(s); err == nil && p != nil {
			p.Key()
			p.Type()
		}
		mobile.NewPasswordMrz(s)
		mrz.ParseName(s)
		_ = mrz.DecodeValue(s)
		a, b, c := s, "", ""
		if len(s) >= 3 {
			a, b, c = s[:len(s)/3], s[len(s)/3:2*len(s)/3], s[2*len(s)/3:]
		}
		if p, err := password.NewPasswordMrzi(a, b, c); err == nil && p != nil {
			p.Key()
		}
		mobile.NewPasswordMrzi(a, b, c)
		mobile.CountryName(c)
	})
	return stage
}

// ---------------------------------------------------------------- CMS

// altCurveHazardSig: VerifySignature with a brainpoolP192r1 key and an ECDSA
// signature whose r or s is >= n(brainpoolP192r1) while both are in
// [1, n(P-192)) reaches the alternative-curve fallback with a point that is
// not on P-192 (F17).
func altCurveHazardSig(pubKeyInfo, sig []byte, sigAlg asn1.ObjectIdentifier) bool {
	if !(sigAlg.Equal(oid.OidEcdsaWithSHA1) || sigAlg.Equal(oid.OidEcdsaWithSHA224) || sigAlg.Equal(oid.OidEcdsaWithSHA256) ||
		sigAlg.Equal(oid.OidEcdsaWithSHA384) || sigAlg.Equal(oid.OidEcdsaWithSHA512)) {
		return false
	}
	isBP192 := false
	protect(func() {
		sp, err := cms.Asn1decodeSubjectPublicKeyInfo(pubKeyInfo)
		if err != nil {
			return
		}
		curve, _, err := sp.EcCurveAndPubKey(true)
		if err != nil || curve == nil {
			return
		}
		isBP192 = (*curve).Params().N.Cmp(bp192N) == 0
	})
	if !isBP192 {
		return false
	}
	var rs struct{ R, S *big.Int }
	rest, err := asn1.Unmarshal(sig, &rs)
	if err != nil || len(rest) != 0 {
		return false
	}
	if rs.R.Sign() <= 0 || rs.S.Sign() <= 0 || rs.R.Cmp(p192N) >= 0 || rs.S.Cmp(p192N) >= 0 {
		return false
	}
	return rs.R.Cmp(bp192N) >= 0 || rs.S.Cmp(bp192N) >= 0
}

// altCurveHazardBlob: composite inputs (SignedData, certificates, documents)
// that name brainpoolP192r1 at all — by OID or by its prime — are treated as
// members of the F17 class while it is open.
func altCurveHazardBlob(blobs ...[]byte) bool {
	for _, b := range blobs {
		if bytes.Contains(b, bp192OID) || bytes.Contains(b, bp192P) {
			return true
		}
	}
	return false
}

var sigAlgs = []asn1.ObjectIdentifier{oid.OidEcdsaWithSHA1, oid.OidEcdsaWithSHA224, oid.OidEcdsaWithSHA256, oid.OidEcdsaWithSHA384, oid.OidEcdsaWithSHA512,
	oid.OidRsaEncryption, oid.OidSha1WithRsaEncryption, oid.OidSha224WithRSAEncryption, oid.OidSha256WithRSAEncryption, oid.OidSha384WithRSAEncryption,
	oid.OidSha512WithRSAEncryption, oid.OidRsaSsaPss, oid.OidCommonName}
var digAlgs = []asn1.ObjectIdentifier{oid.OidHashAlgorithmSHA1, oid.OidHashAlgorithmSHA224, oid.OidHashAlgorithmSHA256, oid.OidHashAlgorithmSHA384,
	oid.OidHashAlgorithmSHA512, oid.OidHashAlgorithmMD5, oid.OidCommonName}

// runVerifySignature: [sigAlg][digestAlg][digestLen][pkLenHi][pkLenLo] digest pubKeyInfo sig
func runVerifySignature(t TB, data []byte) int {
	if len(data) < 5 {
		data = append(append([]byte{}, data...), 0, 0, 0, 0, 0)
	}
	sa := sigAlgs[int(data[0])%len(sigAlgs)]
	da := digAlgs[int(data[1])%len(digAlgs)]
	rest := data[5:]
	dl := min(int(data[2])%65, len(rest))
	digest, rest := rest[:dl], rest[dl:]
	pl := min(int(data[3])<<8|int(data[4]), len(rest))
	pk, sig := rest[:pl], rest[pl:]
	if altCurveHazardSig(pk, sig, sa) && excluded(kfAltCurve) {
		return -1
	}
	var err error
	guardPK(t, "cms.VerifySignature", len(data), rep("entry", "cms.VerifySignature", "pubKeyInfo", pk, "digestAlg", da.String(), "digest", digest, "sigAlg", sa.String(), "sig", sig), func() {
		err = cms.VerifySignature(pk, da, digest, sa, sig)
	})
	if err == nil {
		return 2
	}
	s := err.Error()
	if strings.Contains(s, "Invalid ECDSA Signature") || strings.Contains(s, "rsaVerify") || strings.Contains(s, "parseECDSASignature") {
		return 1
	}
	return 0
}

func runSignedData(t TB, data []byte) int {
	if altCurveHazardBlob(data) && excluded(kfAltCurve) {
		return -1
	}
	var sd *cms.SignedData
	var err error
	guard(t, "cms.ParseSignedData", len(data), rep("entry", "cms.ParseSignedData", "input", data), func() { sd, err = cms.ParseSignedData(data) })
	if err != nil || sd == nil {
		return 0
	}
	guardPK(t, "SignedData.Verify", len(data), rep("entry", "cms.ParseSignedData(x).Verify(built-in master lists)", "input", data), func() {
		sd.Verify(trustStore)
	})
	guardPK(t, "SignedData.Verify", len(data), rep("entry", "cms.ParseSignedData(x).Verify(pool of its own certificates)", "input", data), func() {
		var own cms.GenericCertPool
		own.Add(sd.Certificates.Bytes)
		sd.Verify(&own)
		for i := range sd.SignerInfos {
			sd.SignerInfos[i].Verify(sd, &own)
			_ = sd.SignerInfos[i].AuthenticatedAttributes.SetOfAsnBytes()
		}
		json.Marshal(sd)
	})
	// the same bytes as a master list with itself / the genuine DS certificate as root
	guardPK(t, "cms.CreateCertPoolFromSignedData", len(data)+len(certCardSec), rep("entry", "cms.CreateCertPoolFromSignedData(x, certificates of x | genuine DS cert)", "input", data), func() {
		cms.CreateCertPoolFromSignedData(data, sd.Certificates.Bytes)
		cms.CreateCertPoolFromSignedData(data, certCardSec)
	})
	return 1
}

// runCertificates: [split hi][split lo] certificates... ; the tail after split is used as lookup keys.
func runCertificates(t TB, data []byte) int {
	if altCurveHazardBlob(data) && excluded(kfAltCurve) {
		return -1
	}
	if len(data) < 2 {
		data = append(append([]byte{}, data...), 0, 0)
	}
	body := data[2:]
	sp := len(body)
	if s := int(data[0])<<8 | int(data[1]); s < len(body) && data[0] != 0xff {
		sp = s
	}
	certs, keys := body[:sp], body[sp:]
	var parsed []cms.Certificate
	var err error
	guard(t, "cms.ParseCertificates", len(certs), rep("entry", "cms.ParseCertificates", "input", certs), func() { parsed, err = cms.ParseCertificates(certs) })
	if err != nil {
		return 0
	}
	guard(t, "GenericCertPool", len(data), rep("entry", "GenericCertPool.Add/BySKI/ByIssuerAndSerial/ByIssuerCountry", "certs", certs, "keys", keys), func() {
		var pool cms.GenericCertPool
		pool.Add(certs)
		pool.BySKI(keys)
		pool.ByIssuerAndSerial(keys)
		pool.ByIssuerCountry("DE")
		pool.ByIssuerCountry(string(keys))
		_ = pool.All()
		_ = pool.Count()
		var comb cms.CombinedCertPool
		comb.AddCertPool(&pool)
		comb.BySKI(keys)
		comb.ByIssuerAndSerial(keys)
		for i := range parsed {
			c := &parsed[i]
			if r, err := c.TbsCertificate.IssuerRDN(); err == nil {
				_ = r.String()
				if r2, err := c.TbsCertificate.SubjectRDN(); err == nil {
					_ = r.Equal(*r2)
				}
				pool.ByIssuerAndSerial(tl(0x30, c.TbsCertificate.Issuer.FullBytes, mustDERInt(c.TbsCertificate.SerialNumber)))
			}
			e := c.TbsCertificate.Extensions
			e.AuthorityKeyIdentifier()
			e.SubjectKeyIdentifier()
			e.BasicConstraints()
			e.KeyUsage()
			e.ExtKeyUsage()
			_ = e.UnrecognizedCriticalExtensions()
			c.TbsCertificate.Validity.Parse()
			json.Marshal(c)
		}
	})
	if len(parsed) > 0 {
		guardPK(t, "Certificate.Verify", len(data), rep("entry", "Certificate.Verify(own pool | built-in master lists)", "certs", certs), func() {
			var pool cms.GenericCertPool
			pool.Add(certs)
			for i := range parsed {
				if i >= 4 {
					break
				}
				parsed[i].Verify(&pool)
				parsed[i].Verify(trustStore)
			}
		})
		return 1
	}
	return 0
}

func mustDERInt(n *big.Int) []byte {
	if n == nil {
		return []byte{2, 1, 0}
	}
	b, err := asn1.Marshal(n)
	if err != nil {
		return []byte{2, 1, 0}
	}
	return b
}
