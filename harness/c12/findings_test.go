package c12

// Known findings: one deterministic probe per finding (prints KNOWN-FINDING
// only while the defect still reproduces on the current tree) and plain
// regression tests that bypass rapid.  While a finding is OPEN the regression
// input is in the excluded class (dispatch returns -1); once it is marked
// fixed the same input is checked like any other case, so a regression of the
// repair turns the check red.

import (
	"crypto/sha256"
	"encoding/asn1"
	"fmt"
	"math/big"
	"runtime"
	"testing"

	"github.com/gmrtd/gmrtd/chipauth"
	"github.com/gmrtd/gmrtd/cms"
	"github.com/gmrtd/gmrtd/document"
	"github.com/gmrtd/gmrtd/oid"
	"github.com/gmrtd/gmrtd/tlv"
	"github.com/gmrtd/gmrtd/verifier"

	"verifharness/evid"
)

// ---- minimal reproducers ------------------------------------------------------------------

var (
	reproLie64M   = unhex("04840400000000")     // primitive tag 04, length 84 04000000 (64 MiB), 1 content byte
	reproIndefSOD = unhex("7780")               // EF.SOD root tag with indefinite length
	reproIndefD13 = unhex("6d80")               // DG13
	reproIndefD15 = unhex("6f80")               // DG15
	reproIndefRaw = unhex("3080")               // tlv.Unwrap
	reproOidDG16  = unhex("7007020101a1020600") // DG16, one template holding an empty OID
	reproOidTLV   = unhex("0601ff")             // tlv.Decode(x).String()
)

// deepWide: d nested SEQUENCEs around n empty BOOLEAN-tagged leaves.
func deepWide(d, n int) []byte {
	var body []byte
	for i := 0; i < n; i++ {
		body = append(body, 0x01, 0x00)
	}
	for i := 0; i < d; i++ {
		body = tl(0x30, body)
	}
	return body
}

func reproStringDG16() []byte {
	return tl(0x70, []byte{0x02, 0x01, 0x01}, tl(0xA1, deepWide(40, 2000)))
}

func reproAltCurve() (spki, sig []byte) {
	return bp192SPKI, tl(0x30, tl(0x02, append([]byte{0}, bp192N.Bytes()...)), []byte{0x02, 0x01, 0x01})
}

func reproOversizedSsc() *docSpec {
	s := &docSpec{}
	s.Files[kDG14] = dg14Genuine
	s.CA = pooledCA(dg14Genuine, 0)
	s.CA.SmSsc = append([]byte{0x02}, make([]byte, 16)...) // 2*2^128: SmSsc-1 needs 17 bytes, the AES block has 16
	return s
}

func reproKeyID() *docSpec {
	s := &docSpec{}
	s.Files[kDG14] = dg14KeyIDInfo
	s.CA = pooledCA(dg14KeyIDInfo, 0)
	return s
}

func reproNilDG14() *docSpec {
	s := &docSpec{}
	s.Files[kDG1] = genuine[kDG1]
	s.CA = &document.ChipAuthEvidence{TermPri: []byte{1}, TermPubKey: []byte{4}, SmRapdu: []byte{0x90, 0x00}}
	return s
}

type probeResult struct {
	panicVal any
	stack    string
	alloc    uint64
}

func probe(fn func()) probeResult {
	var m0, m1 runtime.MemStats
	runtime.ReadMemStats(&m0)
	pv, st := protect(fn)
	runtime.ReadMemStats(&m1)
	return probeResult{pv, st, m1.TotalAlloc - m0.TotalAlloc}
}

// TestKnownFindings probes every OPEN finding of C12.
func TestKnownFindings(t *testing.T) {
	if evid.Shard() != 0 {
		return
	}
	report := func(key string, r probeResult, inLen int, what string) {
		switch {
		case r.panicVal != nil:
			evid.ReportKnown(prop, key, fmt.Sprintf("%s — panic: %v [%s]", what, r.panicVal, r.stack))
		case r.alloc > allocBound(inLen):
			evid.ReportKnown(prop, key, fmt.Sprintf("%s — allocated %d bytes for %d input bytes (bound %d)", what, r.alloc, inLen, allocBound(inLen)))
		default:
			t.Logf("finding %s is listed as open but no longer reproduces", key)
		}
	}
	if isOpen(kfLie) {
		report(kfLie, probe(func() { tlv.Decode(reproLie64M) }), len(reproLie64M), "tlv.Decode("+hx(reproLie64M)+"): utils.BytesFromBuffer allocates the declared length before checking it")
	}
	if isOpen(kfIndef) {
		report(kfIndef, probe(func() { document.NewSOD(reproIndefSOD) }), 2, "document.NewSOD("+hx(reproIndefSOD)+") (also NewDG13 6d80, NewDG15 6f80, tlv.Unwrap 3080): indefinite length reaches make([]byte,-1)")
	}
	if isOpen(kfNilDG14) {
		s := reproNilDG14()
		ex := docExOf(s)
		blob, _ := ex.ToCbor()
		report(kfNilDG14, probe(func() { verifier.NewVerifier(trustStore).Verify(blob) }), len(blob), "verifier.Verify of a verifiable-doc blob with chipAuth evidence and no DG14 (chipauth.VerifyEvidence)")
	}
	if isOpen(kfSsc) {
		s := reproOversizedSsc()
		doc := parsedDoc(s)
		report(kfSsc, probe(func() { chipauth.VerifyEvidence(doc, s.CA) }), s.inLen(), "chipauth.VerifyEvidence with otherwise valid evidence and SmSsc="+hx(s.CA.SmSsc))
	}
	if isOpen(kfKeyID) {
		s := reproKeyID()
		doc := parsedDoc(s)
		report(kfKeyID, probe(func() { chipauth.VerifyEvidence(doc, s.CA) }), s.inLen(), "chipauth.VerifyEvidence with DG14="+hx(dg14KeyIDInfo[:8])+"… (ChipAuthenticationInfo keyId=5, public key without keyId)")
	}
	if isOpen(kfOid) {
		report(kfOid, probe(func() { document.NewDG16(reproOidDG16) }), len(reproOidDG16), "document.NewDG16("+hx(reproOidDG16)+"): eager node.String() -> oid.DecodeAsn1objectId")
	}
	if isOpen(kfString) {
		in := reproStringDG16()
		report(kfString, probe(func() { document.NewDG16(in) }), len(in), fmt.Sprintf("document.NewDG16 of a %d-byte file (template A1 = 40 nested SEQUENCEs around 2000 empty nodes): eager node.String()", len(in)))
	}
	if isOpen(kfAltCurve) {
		pk, sig := reproAltCurve()
		report(kfAltCurve, probe(func() {
			cms.VerifySignature(pk, oid.OidHashAlgorithmSHA256, make([]byte, 32), oid.OidEcdsaWithSHA256, sig)
		}), len(pk)+len(sig), "cms.VerifySignature(pubKeyInfo="+hx(pk)+", sha256, 00*32, ecdsa-with-SHA256, sig="+hx(sig)+")")
	}
}

// ---- plain regression tests ---------------------------------------------------------------------

func regress(t *testing.T, cases ...caseDesc) {
	if evid.Shard() != 0 {
		return
	}
	for _, c := range cases {
		st := dispatch(t, c)
		if st >= 0 && !fuzzing {
			evid.CaseFn("regression/"+c.Run, true, fnvKey(append([]byte(c.Run), c.Data...)), func() any {
				return map[string]any{"entry_point": c.Run, "input_len": len(c.Data), "input": evid.Hex(c.Data)}
			})
		}
	}
}

func TestRegressionF7LyingLength(t *testing.T) {
	big4G := unhex("0484ffffffff00")
	regress(t,
		caseDesc{Run: "tlv-decode", Data: reproLie64M}, caseDesc{Run: "tlv-decode", Data: big4G}, caseDesc{Run: "tlv-unwrap", Data: reproLie64M},
		caseDesc{Run: "ctor", Sel: kCOM, Data: unhex("6084040000005f0100")}, caseDesc{Run: "ctor", Sel: kDG13, Data: unhex("6d847fffffff00")},
		caseDesc{Run: "ctor", Sel: kSOD, Data: unhex("77088404000000000000")}, caseDesc{Run: "newdg", Sel: 0, Data: unhex("6184040000005f1f00")},
		caseDesc{Run: "sm", Data: cat([]byte{0, 0, 0}, unhex("8784040000000190009000"))},
	)
}

func TestRegressionF7IndefiniteUnwrap(t *testing.T) {
	regress(t,
		caseDesc{Run: "tlv-unwrap", Data: reproIndefRaw}, caseDesc{Run: "ctor", Sel: kSOD, Data: reproIndefSOD},
		caseDesc{Run: "ctor", Sel: kDG13, Data: reproIndefD13}, caseDesc{Run: "ctor", Sel: kDG15, Data: reproIndefD15},
		caseDesc{Run: "newdg", Sel: 5, Data: reproIndefD13}, caseDesc{Run: "ctor", Sel: kSOD, Data: unhex("77800000")},
	)
}

func TestRegressionF8F9Evidence(t *testing.T) {
	regress(t, caseDesc{Run: "evidence-ca", Spec: reproNilDG14()}, caseDesc{Run: "evidence-ca", Spec: reproOversizedSsc()}, caseDesc{Run: "evidence-ca", Spec: reproKeyID()},
		caseDesc{Run: "verifier", Mode: 1, Spec: reproNilDG14()}, caseDesc{Run: "verifier", Mode: 1, Spec: reproKeyID()}, caseDesc{Run: "verifier", Mode: 1, Spec: reproOversizedSsc()})
	// 3DES suite: 9 significant bytes do not fit the 8-byte counter
	s := &docSpec{}
	s.Files[kDG14] = dg14TDESP256
	s.CA = pooledCA(dg14TDESP256, 0)
	if s.CA != nil {
		s.CA.SmSsc = append([]byte{0x02}, make([]byte, 8)...)
		regress(t, caseDesc{Run: "evidence-ca", Spec: s})
	}
}

func TestRegressionF10F16String(t *testing.T) {
	regress(t,
		caseDesc{Run: "ctor", Sel: kDG16, Data: reproOidDG16}, caseDesc{Run: "tlv-decode", Data: reproOidTLV},
		caseDesc{Run: "ctor", Sel: kDG16, Data: unhex("700a020101a1050603ffffff")}, caseDesc{Run: "newdg", Sel: 8, Data: reproOidDG16},
		caseDesc{Run: "tlv-decode", Data: tl(0x06, make([]byte, 128))},
		caseDesc{Run: "ctor", Sel: kDG16, Data: reproStringDG16()}, caseDesc{Run: "tlv-decode", Data: deepWide(48, 9900)},
	)
}

func TestRegressionF17AltCurve(t *testing.T) {
	pk, sig := reproAltCurve()
	d := make([]byte, 32)
	in := cat([]byte{2, 2, byte(len(d)), byte(len(pk) >> 8), byte(len(pk))}, d, pk, sig)
	// s out of range instead of r
	sig2 := tl(0x30, []byte{0x02, 0x01, 0x01}, tl(0x02, append([]byte{0}, new(big.Int).Add(bp192N, big.NewInt(5)).Bytes()...)))
	in2 := cat([]byte{4, 4, byte(len(d)), byte(len(pk) >> 8), byte(len(pk))}, d, pk, sig2)
	regress(t, caseDesc{Run: "verify-signature", Data: in}, caseDesc{Run: "verify-signature", Data: in2})
}

// TestHazardModel: harness self-test.  The cost model that defines the F16
// class must over-estimate what String() really allocates (otherwise trees
// outside the class could break the bound because of the same defect).
func TestHazardModel(t *testing.T) {
	if evid.Shard() != 0 {
		return
	}
	for _, in := range [][]byte{deepWide(48, 9900), deepWide(10, 9000), deepWide(0, 9000), deepWide(30, 300), genuine[kDG14], genuine[kSOD][4:], genuine[kDG11]} {
		sc := scanDecode(in)
		nodes, err := tlv.Decode(in)
		if err != nil || !sc.ok {
			continue
		}
		if treeHasBadOID(sc.roots) {
			continue
		}
		r := probe(func() { _ = nodes.String() })
		if int64(r.alloc) > stringCost(sc.roots) {
			evid.Infra(t, "String() cost model under-estimates: real %d > model %d for a %d-byte tree", r.alloc, stringCost(sc.roots), len(in))
		}
	}
}

// altCurveSignedData builds a CMS SignedData whose (self-made, untrusted)
// document-signer certificate carries a brainpoolP192r1 key and whose signer
// info carries the ECDSA signature (r = n(brainpoolP192r1), s = 1): the shape
// of an EF.SOD content that reaches cms.VerifySignature before any trust
// decision (F17 end to end).
func altCurveSignedData() []byte {
	oidDER := func(o ...int) []byte { return mustDER(asn1OID(o)) }
	name := tl(0x30, tl(0x31, tl(0x30, oidDER(2, 5, 4, 6), tl(0x13, []byte("DE")))))
	ecdsaSHA256 := tl(0x30, oidDER(1, 2, 840, 10045, 4, 3, 2))
	sha256Alg := tl(0x30, oidDER(2, 16, 840, 1, 101, 3, 4, 2, 1))
	keyUsage := tl(0x30, oidDER(2, 5, 29, 15), []byte{0x01, 0x01, 0xFF}, tl(0x04, []byte{0x03, 0x02, 0x07, 0x80}))
	tbs := tl(0x30, tl(0xA0, []byte{0x02, 0x01, 0x02}), []byte{0x02, 0x01, 0x05}, ecdsaSHA256, name,
		tl(0x30, tl(0x17, []byte("200101000000Z")), tl(0x17, []byte("400101000000Z"))), name, bp192SPKI, tl(0xA3, tl(0x30, keyUsage)))
	_, sig := reproAltCurve()
	cert := tl(0x30, tbs, ecdsaSHA256, tl(0x03, []byte{0}, sig))
	eContentType := oidDER(2, 23, 136, 1, 1, 1)
	eContent := tl(0x30, []byte{0x02, 0x01, 0x00}, sha256Alg, tl(0x30, tl(0x30, []byte{0x02, 0x01, 0x01}, tl(0x04, make([]byte, 32)))))
	h := sha256sum(eContent)
	attrs := cat(tl(0x30, oidDER(1, 2, 840, 113549, 1, 9, 3), tl(0x31, eContentType)), tl(0x30, oidDER(1, 2, 840, 113549, 1, 9, 4), tl(0x31, tl(0x04, h))))
	si := tl(0x30, []byte{0x02, 0x01, 0x01}, tl(0x30, name, []byte{0x02, 0x01, 0x05}), sha256Alg, tl(0xA0, attrs), ecdsaSHA256, tl(0x04, sig))
	sd := tl(0x30, []byte{0x02, 0x01, 0x03}, tl(0x31, sha256Alg), tl(0x30, eContentType, tl(0xA0, tl(0x04, eContent))), tl(0xA0, cert), tl(0x31, si))
	return tl(0x30, oidDER(1, 2, 840, 113549, 1, 7, 2), tl(0xA0, sd))
}

// TestKnownF17EndToEnd: the same defect through NewSOD + SignedData.Verify, i.e. the
// calls passive authentication makes on an untrusted EF.SOD.
func TestKnownF17EndToEnd(t *testing.T) {
	if evid.Shard() != 0 {
		return
	}
	sodBytes := tl(0x77, altCurveSignedData())
	sod, err := document.NewSOD(sodBytes)
	if err != nil || sod == nil {
		evid.Infra(t, "harness-built EF.SOD with a brainpoolP192r1 signer does not parse: %v", err)
	}
	if isOpen(kfAltCurve) {
		r := probe(func() { sod.SD.Verify(trustStore) })
		if r.panicVal != nil {
			evid.ReportKnown(prop, kfAltCurve, fmt.Sprintf("NewSOD(%d-byte EF.SOD with a brainpoolP192r1 signer certificate).SD.Verify(trust store) — panic: %v [%s]", len(sodBytes), r.panicVal, r.stack))
		} else {
			t.Logf("F17 end-to-end no longer reproduces")
		}
		return
	}
	// not open: the same input is a regression test
	regress(t, caseDesc{Run: "signed-data", Data: altCurveSignedData()}, caseDesc{Run: "ctor", Sel: kSOD, Data: sodBytes})
}

func asn1OID(o []int) asn1.ObjectIdentifier { return asn1.ObjectIdentifier(o) }

func sha256sum(b []byte) []byte { h := sha256.Sum256(b); return h[:] }
