// C15 — Document serialisation round-trips and detects corruption.
//
// Oracle (independent of the CBOR code under test): the CONTENT of a blob is
// the set of files with their raw bytes plus the evidence values.  Import of
// an export must give the same content and the same parsed (JSON) view; a
// corrupted blob must be rejected or import to exactly the original content;
// foreign magic / newer version must be rejected at every nesting level.
package c15

import (
	"bytes"
	"crypto/sha256"
	"encoding/hex"
	"encoding/json"
	"fmt"
	"io"
	"log/slog"
	"os"
	"reflect"
	"runtime/debug"
	"strings"
	"testing"

	cbor "github.com/fxamacker/cbor/v2"
	"github.com/gmrtd/gmrtd/document"
	"pgregory.net/rapid"

	"verifharness/evid"
)

const prop = "C15"

func TestMain(m *testing.M) {
	slog.SetDefault(slog.New(slog.NewTextHandler(io.Discard, &slog.HandlerOptions{Level: slog.LevelInfo})))
	loadGenuine()
	evid.Main(m, prop)
}

type TB interface {
	Helper()
	Fatalf(format string, args ...any)
	Logf(format string, args ...any)
}

// ---- content ------------------------------------------------------------------------------------

type content struct {
	Files [nKinds][]byte // nil = absent
	Ev    evidence
}

func (c *content) nFiles() int {
	n := 0
	for _, f := range c.Files {
		if f != nil {
			n++
		}
	}
	return n
}

func (c *content) nMech() int {
	n := 0
	if c.Ev.CA != nil {
		n++
	}
	if c.Ev.PACE != nil {
		n++
	}
	if c.Ev.AA != nil {
		n++
	}
	return n
}

func hx(b []byte) string { return hex.EncodeToString(b) }

func (c *content) describe() map[string]any {
	files := map[string]string{}
	for k, f := range c.Files {
		if f != nil {
			files[kindName[k]] = hx(f)
		}
	}
	m := map[string]any{"files": files}
	if e := c.Ev.CA; e != nil {
		m["ca"] = map[string]string{"termPri": hx(e.TermPri), "termPubKey": hx(e.TermPubKey), "smRapdu": hx(e.SmRapdu), "smSsc": hx(e.SmSsc)}
	}
	if e := c.Ev.PACE; e != nil {
		m["pace"] = map[string]any{"paceOid": []int(e.PaceOid), "parameterId": e.ParameterId, "nonce": hx(e.Nonce), "termMapPri": hx(e.TermMapPri), "termMapPub": hx(e.TermMapPub),
			"chipMapPub": hx(e.ChipMapPub), "termKaPri": hx(e.TermKaPri), "termKaPub": hx(e.TermKaPub), "chipKaPub": hx(e.ChipKaPub), "ecadIC": hx(e.EcadIC)}
	}
	if e := c.Ev.AA; e != nil {
		m["aa"] = map[string]any{"algorithm": []int(e.Algorithm), "nonce": hx(e.Nonce), "signature": hx(e.Signature)}
	}
	return m
}

// construct calls the constructor of one kind and stores the object.
func construct(doc *document.Document, kind int, data []byte) (err error) {
	switch kind {
	case kCardAccess:
		doc.Mf.CardAccess, err = document.NewCardAccess(data)
	case kCardSecurity:
		doc.Mf.CardSecurity, err = document.NewCardSecurity(data)
	case kEFDIR:
		doc.Mf.Dir, err = document.NewEFDIR(data)
	case kCOM:
		doc.Mf.Lds1.Com, err = document.NewCOM(data)
	case kSOD:
		doc.Mf.Lds1.Sod, err = document.NewSOD(data)
	case kDG1:
		err = doc.NewDG(1, data)
	case kDG2:
		err = doc.NewDG(2, data)
	case kDG7:
		err = doc.NewDG(7, data)
	case kDG11:
		err = doc.NewDG(11, data)
	case kDG12:
		err = doc.NewDG(12, data)
	case kDG13:
		err = doc.NewDG(13, data)
	case kDG14:
		err = doc.NewDG(14, data)
	case kDG15:
		err = doc.NewDG(15, data)
	case kDG16:
		err = doc.NewDG(16, data)
	}
	return err
}

// fileObjects lists the file objects of a document in the fixed kind order (nil = absent).
func fileObjects(doc *document.Document) [nKinds]document.RawDataProvider {
	var out [nKinds]document.RawDataProvider
	put := func(k int, p document.RawDataProvider) {
		if p != nil && !reflect.ValueOf(p).IsNil() {
			out[k] = p
		}
	}
	put(kCardAccess, doc.Mf.CardAccess)
	put(kCardSecurity, doc.Mf.CardSecurity)
	put(kEFDIR, doc.Mf.Dir)
	l := doc.Mf.Lds1
	put(kCOM, l.Com)
	put(kSOD, l.Sod)
	put(kDG1, l.Dg1)
	put(kDG2, l.Dg2)
	put(kDG7, l.Dg7)
	put(kDG11, l.Dg11)
	put(kDG12, l.Dg12)
	put(kDG13, l.Dg13)
	put(kDG14, l.Dg14)
	put(kDG15, l.Dg15)
	put(kDG16, l.Dg16)
	return out
}

func buildDoc(t TB, c *content) *document.Document {
	doc := &document.Document{}
	for k := 0; k < nKinds; k++ {
		if c.Files[k] == nil {
			continue
		}
		if err := construct(doc, k, c.Files[k]); err != nil {
			evid.Infra(t, "generator produced a %s that its constructor refuses: %v (%s)", kindName[k], err, hx(c.Files[k][:min(len(c.Files[k]), 200)]))
		}
	}
	return doc
}

func session(e evidence) document.Session {
	var s document.Session
	if e.CA != nil {
		s.ChipAuthResult = &document.ChipAuthResult{Success: true, Evidence: e.CA}
	}
	if e.PACE != nil {
		s.PaceCamResult = &document.PaceCamResult{Success: true, Evidence: e.PACE}
	}
	if e.AA != nil {
		s.ActiveAuthResult = &document.ActiveAuthResult{Success: true, Evidence: e.AA}
	}
	return s
}

// ---- comparing -----------------------------------------------------------------------------------

// sameFiles compares file set and raw bytes; "" = identical.
func sameFiles(want *content, got *document.Document) string {
	objs := fileObjects(got)
	for k := 0; k < nKinds; k++ {
		switch {
		case want.Files[k] == nil && objs[k] != nil:
			return fmt.Sprintf("file %s appeared (%d bytes)", kindName[k], len(objs[k].GetRawData()))
		case want.Files[k] != nil && objs[k] == nil:
			return fmt.Sprintf("file %s (%d bytes) is missing after import", kindName[k], len(want.Files[k]))
		case want.Files[k] != nil && !bytes.Equal(want.Files[k], objs[k].GetRawData()):
			return fmt.Sprintf("file %s differs: %d bytes exported, %d imported, first difference at %d", kindName[k], len(want.Files[k]), len(objs[k].GetRawData()), firstDiff(want.Files[k], objs[k].GetRawData()))
		}
	}
	return ""
}

func firstDiff(a, b []byte) int {
	for i := 0; i < len(a) && i < len(b); i++ {
		if a[i] != b[i] {
			return i
		}
	}
	return min(len(a), len(b))
}

func sameBytesField(name string, a, b []byte) string {
	if !bytes.Equal(a, b) {
		return fmt.Sprintf("%s: exported %s, imported %s", name, short(a), short(b))
	}
	return ""
}

func short(b []byte) string {
	if len(b) <= 20 {
		return hx(b)
	}
	return fmt.Sprintf("%s..(%d bytes)", hx(b[:16]), len(b))
}

// sameEvidence deep-compares the evidence values; "" = identical.
func sameEvidence(want evidence, got *document.ChipAuthEvidenceBundle) string {
	if got == nil {
		got = &document.ChipAuthEvidenceBundle{}
	}
	if (want.CA == nil) != (got.ChipAuth == nil) {
		return fmt.Sprintf("chip-authentication evidence present: exported %v imported %v", want.CA != nil, got.ChipAuth != nil)
	}
	if (want.PACE == nil) != (got.PaceCam == nil) {
		return fmt.Sprintf("PACE-CAM evidence present: exported %v imported %v", want.PACE != nil, got.PaceCam != nil)
	}
	if (want.AA == nil) != (got.ActiveAuth == nil) {
		return fmt.Sprintf("active-authentication evidence present: exported %v imported %v", want.AA != nil, got.ActiveAuth != nil)
	}
	if w, g := want.CA, got.ChipAuth; w != nil {
		for _, d := range []string{sameBytesField("ca.termPri", w.TermPri, g.TermPri), sameBytesField("ca.termPubKey", w.TermPubKey, g.TermPubKey),
			sameBytesField("ca.smRapdu", w.SmRapdu, g.SmRapdu), sameBytesField("ca.smSsc", w.SmSsc, g.SmSsc)} {
			if d != "" {
				return d
			}
		}
	}
	if w, g := want.PACE, got.PaceCam; w != nil {
		if !w.PaceOid.Equal(g.PaceOid) {
			return fmt.Sprintf("pace.paceOid: exported %v imported %v", w.PaceOid, g.PaceOid)
		}
		if w.ParameterId != g.ParameterId {
			return fmt.Sprintf("pace.parameterId: exported %d imported %d", w.ParameterId, g.ParameterId)
		}
		for _, d := range []string{sameBytesField("pace.nonce", w.Nonce, g.Nonce), sameBytesField("pace.termMapPri", w.TermMapPri, g.TermMapPri),
			sameBytesField("pace.termMapPub", w.TermMapPub, g.TermMapPub), sameBytesField("pace.chipMapPub", w.ChipMapPub, g.ChipMapPub),
			sameBytesField("pace.termKaPri", w.TermKaPri, g.TermKaPri), sameBytesField("pace.termKaPub", w.TermKaPub, g.TermKaPub),
			sameBytesField("pace.chipKaPub", w.ChipKaPub, g.ChipKaPub), sameBytesField("pace.ecadIC", w.EcadIC, g.EcadIC)} {
			if d != "" {
				return d
			}
		}
	}
	if w, g := want.AA, got.ActiveAuth; w != nil {
		if !w.Algorithm.Equal(g.Algorithm) {
			return fmt.Sprintf("aa.algorithm: exported %v imported %v", w.Algorithm, g.Algorithm)
		}
		for _, d := range []string{sameBytesField("aa.nonce", w.Nonce, g.Nonce), sameBytesField("aa.signature", w.Signature, g.Signature)} {
			if d != "" {
				return d
			}
		}
	}
	return ""
}

// sameJSON compares the parsed view (json.Marshal of each file object).
func sameJSON(a, b *document.Document) string {
	oa, ob := fileObjects(a), fileObjects(b)
	for k := 0; k < nKinds; k++ {
		if oa[k] == nil || ob[k] == nil {
			continue // presence is compared by sameFiles
		}
		ja, ea := json.Marshal(oa[k])
		jb, eb := json.Marshal(ob[k])
		if (ea == nil) != (eb == nil) || !bytes.Equal(ja, jb) {
			return fmt.Sprintf("parsed view of %s differs after import (json %d vs %d bytes, first difference at %d)", kindName[k], len(ja), len(jb), firstDiff(ja, jb))
		}
	}
	return ""
}

// ---- blobs -------------------------------------------------------------------------------------------

type blobKind int

const (
	bDoc blobKind = iota // Document.ToCbor / NewDocumentFromCbor
	bEx                  // DocumentEx.ToCbor / UnmarshalVerifiableDoc
	bEv                  // Session.ChipAuthEvidenceToCbor / NewChipAuthEvidenceFromCbor
)

var blobName = [3]string{"document", "verifiable-doc", "evidence"}
var blobMagic = [3]string{"gmrtd-raw-doc", "gmrtd-verifiable-doc", "gmrtd-chip-auth-evidence"}
var blobVersion = [3]uint{1, 1, 2}

func protect(fn func()) (pv any, stack string) {
	defer func() {
		if r := recover(); r != nil {
			pv = r
			stack = string(debug.Stack())
			if len(stack) > 1500 {
				stack = stack[:1500]
			}
		}
	}()
	fn()
	return nil, ""
}

// importBlob imports with the importer of the kind.  diff == "" means: the
// import succeeded and the content equals want (restricted to what the kind carries).
func importBlob(kind blobKind, blob []byte, want *content) (rejected bool, diff string, doc *document.Document) {
	var err error
	var bundle *document.ChipAuthEvidenceBundle
	pv, st := protect(func() {
		switch kind {
		case bDoc:
			doc, err = document.NewDocumentFromCbor(blob)
		case bEx:
			doc, bundle, err = document.UnmarshalVerifiableDoc(blob)
		case bEv:
			bundle, err = document.NewChipAuthEvidenceFromCbor(blob)
		}
	})
	if pv != nil {
		return false, fmt.Sprintf("import panicked: %v\n%s", pv, st), nil
	}
	if err != nil {
		return true, "", nil
	}
	if kind != bEv {
		if doc == nil {
			return false, "import returned neither a document nor an error", nil
		}
		if d := sameFiles(want, doc); d != "" {
			return false, d, doc
		}
	}
	if kind != bDoc {
		if d := sameEvidence(want.Ev, bundle); d != "" {
			return false, d, doc
		}
	}
	return false, "", doc
}

func export(t TB, c *content, doc *document.Document) (blobs [3][]byte) {
	ex := document.DocumentEx{Document: *doc, Session: session(c.Ev)}
	var err error
	if blobs[bDoc], err = doc.ToCbor(); err != nil {
		evid.Fail(t, "export", c.describe(), "Document.ToCbor failed on a well-formed document: %v", err)
	}
	if blobs[bEx], err = ex.ToCbor(); err != nil {
		evid.Fail(t, "export", c.describe(), "DocumentEx.ToCbor failed on a well-formed document: %v", err)
	}
	if blobs[bEv], err = ex.Session.ChipAuthEvidenceToCbor(); err != nil {
		evid.Fail(t, "export", c.describe(), "ChipAuthEvidenceToCbor failed: %v", err)
	}
	return
}

func failRT(t TB, check string, c *content, kind blobKind, blob []byte, format string, args ...any) {
	r := c.describe()
	r["blob_kind"] = blobName[kind]
	r["blob"] = hx(blob)
	evid.Fail(t, check, r, format, args...)
}

// checkRoundTrip: export + import of all three blob kinds.
func checkRoundTrip(t TB, c *content) (doc *document.Document, blobs [3][]byte) {
	doc = buildDoc(t, c)
	blobs = export(t, c, doc)
	for _, k := range []blobKind{bDoc, bEx, bEv} {
		rejected, diff, got := importBlob(k, blobs[k], c)
		if rejected {
			failRT(t, "round-trip", c, k, blobs[k], "the importer rejects the %s blob that the exporter just produced", blobName[k])
		}
		if diff != "" {
			failRT(t, "round-trip", c, k, blobs[k], "%s round trip changes the content: %s", blobName[k], diff)
		}
		if got != nil {
			if d := sameJSON(doc, got); d != "" {
				failRT(t, "round-trip", c, k, blobs[k], "%s round trip: %s", blobName[k], d)
			}
		}
	}
	return
}

// ---- envelope layout (harness-side decoding, to classify positions) -----------------------------

type hEnvelope struct {
	Magic   string `cbor:"magic"`
	Version uint   `cbor:"version"`
	SHA256  []byte `cbor:"sha256"`
	Payload []byte `cbor:"payload"`
}

type hDocEx struct {
	Document         []byte `cbor:"document"`
	ChipAuthEvidence []byte `cbor:"chipAuthEvidence"`
}

func envelope(magic string, version uint, payload []byte) []byte {
	d := sha256.Sum256(payload)
	b, err := cbor.Marshal(hEnvelope{Magic: magic, Version: version, SHA256: d[:], Payload: payload})
	if err != nil {
		panic(err)
	}
	return b
}

type span struct{ lo, hi int }

func (s span) has(p int) bool { return p >= s.lo && p < s.hi }

type layout struct {
	outerPayload span   // payload bytes of the outermost envelope
	inner        []span // nested envelopes inside the outer payload (document, evidence)
	innerPayload []span // their payload bytes
}

func locate(hay, needle []byte, from int) span {
	i := bytes.Index(hay[from:], needle)
	if i < 0 || len(needle) == 0 {
		return span{-1, -1}
	}
	return span{from + i, from + i + len(needle)}
}

func layoutOf(t TB, kind blobKind, blob []byte) layout {
	var l layout
	var env hEnvelope
	if err := cbor.Unmarshal(blob, &env); err != nil {
		evid.Infra(t, "harness cannot decode the exported %s envelope: %v", blobName[kind], err)
	}
	l.outerPayload = locate(blob, env.Payload, 0)
	if kind == bEx {
		var ex hDocEx
		if err := cbor.Unmarshal(env.Payload, &ex); err != nil {
			evid.Infra(t, "harness cannot decode the verifiable-doc payload: %v", err)
		}
		for _, in := range [][]byte{ex.Document, ex.ChipAuthEvidence} {
			s := locate(blob, in, l.outerPayload.lo)
			l.inner = append(l.inner, s)
			var ienv hEnvelope
			if cbor.Unmarshal(in, &ienv) == nil && s.lo >= 0 {
				l.innerPayload = append(l.innerPayload, locate(blob, ienv.Payload, s.lo))
			}
		}
	}
	return l
}

// level: 1 = outer envelope fields (magic, version, checksum, framing),
// 2 = inside the outer payload but outside nested payloads, 3 = inside a nested payload.
func (l layout) level(p int) int {
	if !l.outerPayload.has(p) {
		return 1
	}
	for _, s := range l.innerPayload {
		if s.has(p) {
			return 3
		}
	}
	return 2
}

// ---- corruption -----------------------------------------------------------------------------------------

var opNames = [5]string{"+1", "xor80", "xor20", ":=00", ":=FF"}

func applyOp(b byte, op int) byte {
	switch op {
	case 0:
		return b + 1
	case 1:
		return b ^ 0x80
	case 2:
		return b ^ 0x20
	case 3:
		return 0x00
	}
	return 0xFF
}

type corruptStats struct {
	rejected, same int
}

// checkCorrupted: the corrupted blob must be rejected or import to exactly the original content.
func checkCorrupted(t TB, c *content, kind blobKind, orig, corrupted []byte, what string, level int, st *corruptStats) {
	rejected, diff, _ := importBlob(kind, corrupted, c)
	nontrivial := c.nFiles() >= 3 && c.nMech() > 0 || kind == bEv && c.nMech() > 0
	cls := fmt.Sprintf("corrupt-%s/L%d", blobName[kind], level)
	if level == 0 {
		cls = fmt.Sprintf("corrupt-%s/length", blobName[kind])
	}
	evid.CaseFn(cls, nontrivial, keyOf(orig, what), func() any {
		return map[string]any{"blob_kind": blobName[kind], "corruption": what, "envelope_level": level, "original_len": len(orig),
			"corrupted_blob": evid.Hex(corrupted), "files": c.nFiles(), "mechanisms": c.nMech()}
	})
	switch {
	case rejected:
		st.rejected++
	case diff == "":
		st.same++
		// which kinds of change are tolerated (content unchanged)?
		if i := strings.LastIndex(what, " "); i > 0 && strings.HasPrefix(what, "byte ") {
			evid.Count("accepted-same-content/"+what[i+1:]+fmt.Sprintf("/L%d", level), 1)
		} else {
			evid.Count("accepted-same-content/"+strings.Fields(what)[0], 1)
		}
	default:
		r := c.describe()
		r["blob_kind"] = blobName[kind]
		r["blob"] = hx(orig)
		r["corruption"] = what
		r["corrupted_blob"] = hx(corrupted)
		evid.Fail(t, "corruption", r, "%s blob with %s (nesting level %d) is accepted with different content: %s", blobName[kind], what, level, diff)
	}
}

// abbreviate shortens the hex strings of a description for the evidence samples.
func abbreviate(m map[string]any) map[string]any {
	if fs, ok := m["files"].(map[string]string); ok {
		out := map[string]string{}
		for k, v := range fs {
			if len(v) > 128 {
				v = fmt.Sprintf("%s...(%d bytes)", v[:96], len(v)/2)
			}
			out[k] = v
		}
		m["files"] = out
	}
	for _, k := range []string{"ca", "pace", "aa"} {
		switch e := m[k].(type) {
		case map[string]string:
			for f, v := range e {
				if len(v) > 128 {
					e[f] = fmt.Sprintf("%s...(%d bytes)", v[:96], len(v)/2)
				}
			}
		case map[string]any:
			for f, v := range e {
				if s, ok := v.(string); ok && len(s) > 128 {
					e[f] = fmt.Sprintf("%s...(%d bytes)", s[:96], len(s)/2)
				}
			}
		}
	}
	return m
}

func keyOf(blob []byte, what string) string {
	h := sha256.Sum256(blob)
	return hx(h[:6]) + "/" + what
}

// enumerateAll: every position x 5 substitutions, every truncation, extension by 1..16.
func enumerateAll(t TB, c *content, kind blobKind, blob []byte, ext []byte) corruptStats {
	var st corruptStats
	lay := layoutOf(t, kind, blob)
	buf := make([]byte, len(blob))
	for pos := 0; pos < len(blob); pos++ {
		lvl := lay.level(pos)
		for op := 0; op < 5; op++ {
			nb := applyOp(blob[pos], op)
			if nb == blob[pos] {
				continue // not a change
			}
			copy(buf, blob)
			buf[pos] = nb
			checkCorrupted(t, c, kind, blob, buf, fmt.Sprintf("byte %d %s", pos, opNames[op]), lvl, &st)
		}
	}
	for n := 0; n < len(blob); n++ {
		checkCorrupted(t, c, kind, blob, blob[:n], fmt.Sprintf("truncation to %d", n), 0, &st)
	}
	for n := 1; n <= 16; n++ {
		checkCorrupted(t, c, kind, blob, append(append([]byte{}, blob...), ext[:n]...), fmt.Sprintf("extension by %d", n), 0, &st)
	}
	return st
}

// mustReject: structural variants that the property says are rejected.
func mustReject(t TB, c *content, kind blobKind, blob []byte, what string) {
	rejected, diff, _ := importBlob(kind, blob, c)
	evid.Case("must-reject/"+blobName[kind], c.nFiles() >= 3 && c.nMech() > 0, keyOf(blob, what), nil)
	if !rejected {
		r := c.describe()
		r["blob_kind"] = blobName[kind]
		r["corruption"] = what
		r["corrupted_blob"] = hx(blob)
		if strings.HasPrefix(diff, "import panicked") {
			evid.Fail(t, "must-reject", r, "%s importer panics on %s: %s", blobName[kind], what, diff)
		}
		evid.Fail(t, "must-reject", r, "%s importer accepts a blob with %s", blobName[kind], what)
	}
}

// checkMagicVersion: foreign magic and newer version at every nesting level; blobs of another kind.
func checkMagicVersion(t TB, c *content, blobs [3][]byte) {
	for _, k := range []blobKind{bDoc, bEx, bEv} {
		var env hEnvelope
		if err := cbor.Unmarshal(blobs[k], &env); err != nil {
			evid.Infra(t, "harness cannot decode %s envelope: %v", blobName[k], err)
		}
		for _, other := range []blobKind{bDoc, bEx, bEv} {
			if other == k {
				continue
			}
			mustReject(t, c, k, envelope(blobMagic[other], blobVersion[k], env.Payload), "the magic of a "+blobName[other]+" envelope")
			mustReject(t, c, k, blobs[other], "a whole "+blobName[other]+" blob")
		}
		mustReject(t, c, k, envelope(blobMagic[k], blobVersion[k]+1, env.Payload), "version+1")
		mustReject(t, c, k, envelope(blobMagic[k], blobVersion[k]+1000, env.Payload), "version+1000")
		// self-check of the harness envelope builder: the unchanged re-encoding must import
		if rej, diff, _ := importBlob(k, envelope(blobMagic[k], blobVersion[k], env.Payload), c); rej || diff != "" {
			evid.Infra(t, "harness envelope builder is wrong: re-encoded %s blob rejected=%v diff=%s", blobName[k], rej, diff)
		}
	}
	// nested levels of the verifiable-doc blob: inner envelopes with the outer checksum recomputed
	var env hEnvelope
	var ex hDocEx
	if cbor.Unmarshal(blobs[bEx], &env) != nil || cbor.Unmarshal(env.Payload, &ex) != nil {
		evid.Infra(t, "harness cannot decode the verifiable-doc blob")
	}
	var dEnv, eEnv hEnvelope
	if cbor.Unmarshal(ex.Document, &dEnv) != nil || cbor.Unmarshal(ex.ChipAuthEvidence, &eEnv) != nil {
		evid.Infra(t, "harness cannot decode the nested envelopes")
	}
	rewrap := func(docBlob, evBlob []byte) []byte {
		p, err := cbor.Marshal(hDocEx{Document: docBlob, ChipAuthEvidence: evBlob})
		if err != nil {
			panic(err)
		}
		return envelope(blobMagic[bEx], blobVersion[bEx], p)
	}
	if rej, diff, _ := importBlob(bEx, rewrap(ex.Document, ex.ChipAuthEvidence), c); rej || diff != "" {
		evid.Infra(t, "harness rewrap is wrong: rejected=%v diff=%s", rej, diff)
	}
	mustReject(t, c, bEx, rewrap(envelope(blobMagic[bDoc], 2, dEnv.Payload), ex.ChipAuthEvidence), "nested document envelope version+1")
	mustReject(t, c, bEx, rewrap(envelope(blobMagic[bEv], 1, dEnv.Payload), ex.ChipAuthEvidence), "nested document envelope with the evidence magic")
	mustReject(t, c, bEx, rewrap(envelope(blobMagic[bEx], 1, dEnv.Payload), ex.ChipAuthEvidence), "nested document envelope with the verifiable-doc magic")
	mustReject(t, c, bEx, rewrap(ex.Document, envelope(blobMagic[bEv], 3, eEnv.Payload)), "nested evidence envelope version+1")
	mustReject(t, c, bEx, rewrap(ex.Document, envelope(blobMagic[bDoc], 2, eEnv.Payload)), "nested evidence envelope with the document magic")
	mustReject(t, c, bEx, rewrap(ex.ChipAuthEvidence, ex.Document), "nested envelopes swapped")
}

// ---- generators of content ------------------------------------------------------------------------------

// genContent: any subset of the 14 kinds; big: allow files up to 64 KiB.
func genContent(rt *rapid.T, big bool) *content {
	c := &content{}
	maxBig := 300
	if big {
		maxBig = 65535
	}
	dense := rapid.IntRange(0, 2).Draw(rt, "dense")
	for k := 0; k < nKinds; k++ {
		var present bool
		switch dense {
		case 0:
			present = rapid.IntRange(0, 3).Draw(rt, "has") == 0
		case 1:
			present = rapid.Bool().Draw(rt, "has")
		default:
			present = rapid.IntRange(0, 5).Draw(rt, "has") != 0
		}
		if present {
			c.Files[k] = genFile(rt, k, maxBig)
		}
	}
	c.Ev = genEvidence(rt, rapid.IntRange(0, 7).Draw(rt, "mech"))
	return c
}

// genSmallContent: content whose three blobs stay below 2 KiB (for full enumeration).
func genSmallContent(rt *rapid.T) *content {
	c := &content{}
	budget := 1100
	order := rapid.Permutation(smallKinds).Draw(rt, "order")
	for _, k := range order {
		if rapid.IntRange(0, 2).Draw(rt, "has") == 0 {
			continue
		}
		f := genFile(rt, k, 60)
		if len(f)+16 > budget {
			continue
		}
		budget -= len(f) + 16
		c.Files[k] = f
	}
	mask := rapid.IntRange(0, 7).Draw(rt, "mech")
	e := genEvidence(rt, mask)
	// keep evidence fields short so that the blob stays enumerable
	clip := func(b []byte) []byte {
		if len(b) > 40 {
			return b[:40]
		}
		return b
	}
	if e.CA != nil {
		e.CA.TermPri, e.CA.TermPubKey, e.CA.SmRapdu, e.CA.SmSsc = clip(e.CA.TermPri), clip(e.CA.TermPubKey), clip(e.CA.SmRapdu), clip(e.CA.SmSsc)
	}
	if p := e.PACE; p != nil {
		p.Nonce, p.TermMapPri, p.TermMapPub, p.ChipMapPub, p.TermKaPri, p.TermKaPub, p.ChipKaPub, p.EcadIC = clip(p.Nonce), clip(p.TermMapPri), clip(p.TermMapPub), clip(p.ChipMapPub), clip(p.TermKaPri), clip(p.TermKaPub), clip(p.ChipKaPub), clip(p.EcadIC)
	}
	if e.AA != nil {
		e.AA.Nonce, e.AA.Signature = clip(e.AA.Nonce), clip(e.AA.Signature)
	}
	c.Ev = e
	return c
}

func contentClass(c *content) string {
	f := "files0"
	switch n := c.nFiles(); {
	case n >= 10:
		f = "files10+"
	case n >= 3:
		f = "files3-9"
	case n >= 1:
		f = "files1-2"
	}
	return fmt.Sprintf("%s/mech%d", f, c.nMech())
}

func contentKey(c *content) string {
	h := sha256.New()
	for k, f := range c.Files {
		fmt.Fprintf(h, "%d:%d:", k, len(f))
		h.Write(f)
	}
	b, _ := json.Marshal(c.describe()["ca"])
	h.Write(b)
	b, _ = json.Marshal(c.describe()["pace"])
	h.Write(b)
	b, _ = json.Marshal(c.describe()["aa"])
	h.Write(b)
	return hx(h.Sum(nil)[:8])
}

// ---- properties --------------------------------------------------------------------------------------------

// TestRoundTrip: documents of any file subset and size with any evidence subset.
func TestRoundTrip(t *testing.T) {
	evid.RapidCheck(t, 2400, 40000, func(rt *rapid.T) {
		c := genContent(rt, rapid.IntRange(0, 2).Draw(rt, "big") == 0)
		_, blobs := checkRoundTrip(rt, c)
		total := 0
		for k, f := range c.Files {
			if f != nil {
				evid.Count("file-"+kindName[k], 1)
				total += len(f)
			}
		}
		switch {
		case total > 60000:
			evid.Count("doc-over-60KB", 1)
		case total > 10000:
			evid.Count("doc-10-60KB", 1)
		}
		evid.CaseFn("roundtrip/"+contentClass(c), c.nFiles() >= 3 && c.nMech() > 0, contentKey(c), func() any { return abbreviate(c.describe()) })
		checkMagicVersion(rt, c, blobs)
	})
}

// TestCorruptEnumerated: blobs <= 2 KiB, EVERY byte position x 5 substitutions,
// every truncation, every extension by 1..16 bytes.
func TestCorruptEnumerated(t *testing.T) {
	evid.RapidCheck(t, 240, 4000, func(rt *rapid.T) {
		c := genSmallContent(rt)
		_, blobs := checkRoundTrip(rt, c)
		ext := rapid.SliceOfN(rapid.Byte(), 16, 16).Draw(rt, "ext")
		for _, k := range []blobKind{bDoc, bEx, bEv} {
			if len(blobs[k]) > 2048 {
				evid.Infra(rt, "small-content generator produced a %d-byte %s blob (> 2 KiB)", len(blobs[k]), blobName[k])
			}
			st := enumerateAll(rt, c, k, blobs[k], ext)
			evid.Count("rejected", int64(st.rejected))
			evid.Count("accepted-same-content", int64(st.same))
			evid.Count("enumerated-blobs-"+blobName[k], 1)
		}
		evid.Case("enumerated/"+contentClass(c), c.nFiles() >= 3 && c.nMech() > 0, contentKey(c), nil)
		evid.Exhaustive("positions-of-each-small-blob", true)
	})
}

// TestCorruptSampled: blobs of any size; positions biased to the first 64
// bytes of each nested envelope and payload.
func TestCorruptSampled(t *testing.T) {
	evid.RapidCheck(t, 1600, 24000, func(rt *rapid.T) {
		c := genContent(rt, rapid.Bool().Draw(rt, "big"))
		_, blobs := checkRoundTrip(rt, c)
		ext := rapid.SliceOfN(rapid.Byte(), 16, 16).Draw(rt, "ext")
		var st corruptStats
		for _, k := range []blobKind{bDoc, bEx, bEv} {
			blob := blobs[k]
			lay := layoutOf(rt, k, blob)
			starts := []int{0, lay.outerPayload.lo, lay.outerPayload.hi - 1}
			for _, s := range lay.inner {
				starts = append(starts, s.lo, s.hi-1)
			}
			for _, s := range lay.innerPayload {
				starts = append(starts, s.lo, s.hi-1)
			}
			buf := make([]byte, len(blob))
			n := rapid.IntRange(40, 120).Draw(rt, "npos")
			for i := 0; i < n; i++ {
				var pos int
				if rapid.IntRange(0, 3).Draw(rt, "near") != 0 {
					s := rapid.SampledFrom(starts).Draw(rt, "start")
					pos = s + rapid.IntRange(-8, 64).Draw(rt, "off")
				} else {
					pos = rapid.IntRange(0, len(blob)-1).Draw(rt, "pos")
				}
				if pos < 0 || pos >= len(blob) {
					continue
				}
				for op := 0; op < 5; op++ {
					nb := applyOp(blob[pos], op)
					if nb == blob[pos] {
						continue
					}
					copy(buf, blob)
					buf[pos] = nb
					checkCorrupted(rt, c, k, blob, buf, fmt.Sprintf("byte %d %s", pos, opNames[op]), lay.level(pos), &st)
				}
			}
			for i := 0; i < 12; i++ {
				cut := rapid.IntRange(0, len(blob)-1).Draw(rt, "cut")
				checkCorrupted(rt, c, k, blob, blob[:cut], fmt.Sprintf("truncation to %d", cut), 0, &st)
			}
			checkCorrupted(rt, c, k, blob, blob[:len(blob)-1], "truncation by 1", 0, &st)
			for n := 1; n <= 16; n++ {
				checkCorrupted(rt, c, k, blob, append(append([]byte{}, blob...), ext[:n]...), fmt.Sprintf("extension by %d", n), 0, &st)
			}
		}
		evid.Count("rejected", int64(st.rejected))
		evid.Count("accepted-same-content", int64(st.same))
		evid.Case("sampled/"+contentClass(c), c.nFiles() >= 3 && c.nMech() > 0, contentKey(c), nil)
	})
}

// ---- plain tests ------------------------------------------------------------------------------------------------

// TestSampleDocumentAllFiles: the genuine 14-file document with every mechanism, enumerated
// around every envelope boundary (deterministic, bypasses rapid).
func TestSampleDocumentAllFiles(t *testing.T) {
	if evid.Shard() != 0 {
		return
	}
	c := &content{}
	for k := 0; k < nKinds; k++ {
		c.Files[k] = genuine[k]
	}
	c.Ev = evidence{
		CA:   &document.ChipAuthEvidence{TermPri: []byte{1, 2}, TermPubKey: []byte{4, 5, 6}, SmRapdu: []byte{0x99, 2, 0x90, 0}, SmSsc: []byte{0, 0, 0, 0, 0, 0, 0, 2}},
		PACE: &document.PaceCamEvidence{PaceOid: oidPaceEcdhCam128, ParameterId: 13, Nonce: []byte{1}, TermMapPri: []byte{2}, TermMapPub: []byte{3}, ChipMapPub: []byte{4}, TermKaPri: []byte{5}, TermKaPub: []byte{6}, ChipKaPub: []byte{7}, EcadIC: []byte{8}},
		AA:   &document.ActiveAuthEvidence{Algorithm: oidEcPublicKey, Nonce: []byte{1, 2, 3, 4, 5, 6, 7, 8}, Signature: []byte{9, 9, 9}},
	}
	_, blobs := checkRoundTrip(t, c)
	checkMagicVersion(t, c, blobs)
	var st corruptStats
	for _, k := range []blobKind{bDoc, bEx, bEv} {
		blob := blobs[k]
		lay := layoutOf(t, k, blob)
		marks := []int{0, lay.outerPayload.lo, lay.outerPayload.hi}
		for _, s := range append(append([]span{}, lay.inner...), lay.innerPayload...) {
			marks = append(marks, s.lo, s.hi)
		}
		buf := make([]byte, len(blob))
		for _, m := range marks {
			for pos := max(0, m-96); pos < min(len(blob), m+160); pos++ {
				for op := 0; op < 5; op++ {
					nb := applyOp(blob[pos], op)
					if nb == blob[pos] {
						continue
					}
					copy(buf, blob)
					buf[pos] = nb
					checkCorrupted(t, c, k, blob, buf, fmt.Sprintf("byte %d %s", pos, opNames[op]), lay.level(pos), &st)
				}
			}
		}
	}
	evid.Case("genuine-14-files", true, "sample", nil)
}

// TestReplayJSON re-executes a saved JSON repro (./verif replay C15 <file>).
func TestReplayJSON(t *testing.T) {
	path := os.Getenv("VERIF_REPLAY_JSON")
	if path == "" {
		return
	}
	b, err := os.ReadFile(path)
	if err != nil {
		t.Fatalf("read: %v", err)
	}
	var doc struct {
		Case map[string]any `json:"case"`
	}
	if err := json.Unmarshal(b, &doc); err != nil || doc.Case == nil {
		t.Fatalf("parse: %v", err)
	}
	c := contentFromJSON(doc.Case)
	_, blobs := checkRoundTrip(t, c)
	checkMagicVersion(t, c, blobs)
	if s, ok := doc.Case["corrupted_blob"].(string); ok {
		kind := bDoc
		for k, n := range blobName {
			if n == doc.Case["blob_kind"] {
				kind = blobKind(k)
			}
		}
		cb, _ := hex.DecodeString(s)
		var st corruptStats
		checkCorrupted(t, c, kind, blobs[kind], cb, fmt.Sprint(doc.Case["corruption"]), 0, &st)
	}
}

func contentFromJSON(m map[string]any) *content {
	c := &content{}
	str := func(x any) []byte {
		s, _ := x.(string)
		b, _ := hex.DecodeString(s)
		return b
	}
	opt := func(x any) []byte {
		if b := str(x); len(b) > 0 {
			return b
		}
		return nil
	}
	if files, ok := m["files"].(map[string]any); ok {
		for k := 0; k < nKinds; k++ {
			if v, ok := files[kindName[k]]; ok {
				c.Files[k] = str(v)
			}
		}
	}
	ints := func(x any) []int {
		var out []int
		if l, ok := x.([]any); ok {
			for _, v := range l {
				f, _ := v.(float64)
				out = append(out, int(f))
			}
		}
		return out
	}
	if ca, ok := m["ca"].(map[string]any); ok {
		c.Ev.CA = &document.ChipAuthEvidence{TermPri: str(ca["termPri"]), TermPubKey: str(ca["termPubKey"]), SmRapdu: str(ca["smRapdu"]), SmSsc: opt(ca["smSsc"])}
	}
	if p, ok := m["pace"].(map[string]any); ok {
		pid, _ := p["parameterId"].(float64)
		c.Ev.PACE = &document.PaceCamEvidence{PaceOid: ints(p["paceOid"]), ParameterId: int(pid), Nonce: str(p["nonce"]), TermMapPri: str(p["termMapPri"]), TermMapPub: str(p["termMapPub"]),
			ChipMapPub: str(p["chipMapPub"]), TermKaPri: str(p["termKaPri"]), TermKaPub: str(p["termKaPub"]), ChipKaPub: str(p["chipKaPub"]), EcadIC: str(p["ecadIC"])}
	}
	if a, ok := m["aa"].(map[string]any); ok {
		c.Ev.AA = &document.ActiveAuthEvidence{Algorithm: ints(a["algorithm"]), Nonce: str(a["nonce"]), Signature: str(a["signature"])}
	}
	return c
}

// TestExportHistory: serialisation over a HISTORY of exports and imports.  The
// round-trip law must hold for every blob ever handed out, not only for the
// most recent one: 2..5 documents (similar sizes on purpose, so that a reused
// buffer would fit) are exported one after another, all blobs are kept; after
// the last export every kept blob must still be byte-identical to the copy
// taken when it was returned and must import to ITS OWN content.  Then the
// caller scribbles over a blob after importing it: the imported document and
// evidence must not change (no aliasing in either direction), and a second
// export of the same document imports to the same content.
func TestExportHistory(t *testing.T) {
	evid.RapidCheck(t, 800, 16000, func(rt *rapid.T) {
		n := rapid.IntRange(2, 5).Draw(rt, "exports")
		type kept struct {
			c      *content
			doc    *document.Document
			blobs  [3][]byte
			copies [3][]byte
		}
		var hist []kept
		first := genContent(rt, false)
		for i := 0; i < n; i++ {
			c := first
			if i > 0 {
				if rapid.Bool().Draw(rt, "same-shape") {
					// same files, other evidence values of the same lengths: blobs of equal size
					c2 := *first
					c2.Ev = perturbEvidence(rt, first.Ev)
					c = &c2
				} else {
					c = genContent(rt, false)
				}
			}
			doc := buildDoc(rt, c)
			k := kept{c: c, doc: doc, blobs: export(rt, c, doc)}
			for j := range k.blobs {
				k.copies[j] = bytes.Clone(k.blobs[j])
			}
			hist = append(hist, k)
		}
		evid.Case(fmt.Sprintf("export-history/n%d", n), true, contentKey(first)+fmt.Sprint(n), nil)
		for i, k := range hist {
			for _, kind := range []blobKind{bDoc, bEx, bEv} {
				if !bytes.Equal(k.blobs[kind], k.copies[kind]) {
					failRT(rt, "export-history", k.c, kind, k.copies[kind], "the %s blob returned by export #%d of %d was changed by a later export", blobName[kind], i+1, n)
				}
				rejected, diff, _ := importBlob(kind, k.blobs[kind], k.c)
				if rejected || diff != "" {
					failRT(rt, "export-history", k.c, kind, k.blobs[kind], "the %s blob of export #%d of %d no longer imports to its own content after later exports (rejected=%v %s)", blobName[kind], i+1, n, rejected, diff)
				}
			}
		}
		// import, then scribble over the caller's buffer
		k := hist[rapid.IntRange(0, n-1).Draw(rt, "which")]
		buf := bytes.Clone(k.blobs[bEx])
		doc, bundle, err := document.UnmarshalVerifiableDoc(buf)
		if err != nil {
			failRT(rt, "export-history", k.c, bEx, buf, "import of a kept blob failed: %v", err)
		}
		// a later import of ANOTHER blob must not change what this import returned
		if other := hist[(rapid.IntRange(0, n-1).Draw(rt, "other-import"))]; true {
			document.UnmarshalVerifiableDoc(bytes.Clone(other.blobs[bEx]))
		}
		if d := sameFiles(k.c, doc); d != "" {
			failRT(rt, "import-history", k.c, bEx, k.blobs[bEx], "the imported document changed when another blob was imported afterwards: %s", d)
		}
		if d := sameEvidence(k.c.Ev, bundle); d != "" {
			failRT(rt, "import-history", k.c, bEx, k.blobs[bEx], "the imported evidence changed when another blob was imported afterwards: %s", d)
		}
		// exporting the same document once more: the new blobs import to the same content (byte-identical
		// output is not demanded - the property speaks about what an import yields), and the blobs handed
		// out before are still untouched
		again := export(rt, k.c, k.doc)
		for _, kind := range []blobKind{bDoc, bEx, bEv} {
			if rejected, diff, _ := importBlob(kind, again[kind], k.c); rejected || diff != "" {
				failRT(rt, "export-history", k.c, kind, again[kind], "a second export of the same %s does not import to its content (rejected=%v %s)", blobName[kind], rejected, diff)
			}
			if !bytes.Equal(k.blobs[kind], k.copies[kind]) {
				failRT(rt, "export-history", k.c, kind, k.copies[kind], "an earlier %s blob was changed by a later export of the same document", blobName[kind])
			}
		}
		evid.Count("export-history-blobs-checked", int64(3*n))
	})
}

// perturbEvidence returns evidence of the same shape (same mechanisms, same field
// lengths) with other values.
func perturbEvidence(rt *rapid.T, e evidence) evidence {
	flip := func(b []byte, label string) []byte {
		if len(b) == 0 {
			return b
		}
		o := bytes.Clone(b)
		o[rapid.IntRange(0, len(o)-1).Draw(rt, label)] ^= byte(rapid.IntRange(1, 255).Draw(rt, label+"x"))
		return o
	}
	out := e
	if e.AA != nil {
		a := *e.AA
		a.Nonce, a.Signature = flip(a.Nonce, "aa-nonce"), flip(a.Signature, "aa-sig")
		out.AA = &a
	}
	if e.CA != nil {
		c := *e.CA
		c.SmRapdu, c.TermPubKey = flip(c.SmRapdu, "ca-rapdu"), flip(c.TermPubKey, "ca-pub")
		out.CA = &c
	}
	if e.PACE != nil {
		p := *e.PACE
		p.Nonce, p.EcadIC = flip(p.Nonce, "pace-nonce"), flip(p.EcadIC, "pace-ecad")
		out.PACE = &p
	}
	return out
}
