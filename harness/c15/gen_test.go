package c15

// Generators of WELL-FORMED files for every one of the 14 file types and of
// evidence bundles with arbitrary non-empty values.  Self-contained (no
// gmrtd code is used to build the bytes except document.SampleDocument() for
// the genuine files and the constructors that the test itself must call).

import (
	"encoding/asn1"
	"encoding/hex"
	"strings"

	"github.com/gmrtd/gmrtd/document"
	"pgregory.net/rapid"
)

const sampleCardSecurityHex = "3082074206092A864886F70D010702A08207333082072F020103310F300D0609608648016503040202050030820147060804007F0007030201A08201390482013531820131300D060804007F00070202020201023012060A04007F000702020302020201020201483012060A04007F0007020204020202010202010D3012060A04007F0007020204060202010202010D301C060904007F000702020302300C060704007F0007010202010D0201483062060904007F0007020201023052300C060704007F0007010202010D03420004614CD88B00821A887869D0060B44A9D18789353E8CF7DFBC3F29F79327DE30B97B1B2DDA0BE77F24AD415C327C7B7AB2E9C10B0258F5BCBF90C01825FBDFDEF702010D3062060904007F0007020201023052300C060704007F0007010202010D034200048488A2DC34B6B36D6C01A8DFBD70A874610C53B32893A1DE3B1C4BBF477EEF3761AA51DFD6B52DA43587E95386FC34FFE178D90086A7D646047C82BEBC27DA3E020148A082049730820493308203F8A003020102020204A8300A06082A8648CE3D0403043041310B3009060355040613024445310D300B060355040A0C0462756E64310C300A060355040B0C036273693115301306035504030C0C637363612D6765726D616E79301E170D3233303130343036303434325A170D3333303730343233353935395A305D310B3009060355040613024445311D301B060355040A0C1442756E646573647275636B6572656920476D6248310C300A060355040513033135323121301F06035504030C18446F63756D656E74205369676E65722050617373706F7274308201B53082014D06072A8648CE3D020130820140020101303C06072A8648CE3D01010231008CB91E82A3386D280F5D6F7E50E641DF152F7109ED5456B412B1DA197FB71123ACD3A729901D1A71874700133107EC53306404307BC382C63D8C150C3C72080ACE05AFA0C2BEA28E4FB22787139165EFBA91F90F8AA5814A503AD4EB04A8C7DD22CE2826043004A8C7DD22CE28268B39B55416F0447C2FB77DE107DCD2A62E880EA53EEB62D57CB4390295DBC9943AB78696FA504C110461041D1C64F068CF45FFA2A63A81B7C13F6B8847A3E77EF14FE3DB7FCAFE0CBD10E8E826E03436D646AAEF87B2E247D4AF1E8ABE1D7520F9C2A45CB1EB8E95CFD55262B70B29FEEC5864E19C054FF99129280E4646217791811142820341263C53150231008CB91E82A3386D280F5D6F7E50E641DF152F7109ED5456B31F166E6CAC0425A7CF3AB6AF6B7FC3103B883202E9046565020101036200042CA852CB9A1CAAAA466256D1CFD678BB7E5D8502DFA6F3FDB287293C32AF9FA77AD3A7FA92E56F608110053121354002198B530BC60AC7050AB98D7F6C475FD50706A4A6207D7A6336CB480B966A3AA64894F7F42B8FB4AC4774C9D6892330FBA382016430820160301F0603551D23041830168014A40A5FC380AE3E59AF1B32D6136AEFEEC8CA35E8301D0603551D0E04160414AF9DD5E6565737A8804B5B4C6F45093D809AA865300E0603551D0F0101FF040403020780302B0603551D1004243022800F32303233303130343036303434325A810F32303233303730343233353935395A30160603551D20040F300D300B060904007F000703010101302D0603551D1104263024821262756E646573647275636B657265692E6465A40E300C310A300806035504070C014430510603551D12044A30488118637363612D6765726D616E79406273692E62756E642E6465861C68747470733A2F2F7777772E6273692E62756E642E64652F63736361A40E300C310A300806035504070C01443015060767810801010602040A3008020100310313015030300603551D1F042930273025A023A021861F687474703A2F2F7777772E6273692E62756E642E64652F637363615F63726C300A06082A8648CE3D0403040381880030818402404846F4A03E17896E9094AF7652C38FE31EC964C2C3A906AF813AABEF5FE4F3156D140E2EF991DC11FD860A4A301B225DE9FD4ED39B4F47AC72CDB88CC63B335902405D4E2895875E603CE2863073BF441D1EC53761CF47E5BC2B9B6BECE4F229712E39002D77B555290FA550DF5F40AA22D7D2A1E89FEB3FEF730AE33C937796E8E3318201313082012D02010130473041310B3009060355040613024445310D300B060355040A0C0462756E64310C300A060355040B0C036273693115301306035504030C0C637363612D6765726D616E79020204A8300D06096086480165030402020500A05A301706092A864886F70D010903310A060804007F0007030201303F06092A864886F70D010904313204300FF966AB1283D22A0046338B734FBAE653622C15FE7538392E0987D87BEE0AB009BA77506E45D964B138E688BE8DA60D300C06082A8648CE3D040303050004663064023025FDE09B7F60E9B8F57413427128E6B9ED29C252E396D0F699A84B90247BDBDCA66BDA66A319423EB1D95D206E6BDAE8023016D075859D63301201E925A55ACCC7D3BC1E4C0457A87F5575821C6345FF1C059DEEF935E8125EA948BAAC7A9EF97199"

func unhex(s string) []byte {
	b, err := hex.DecodeString(s)
	if err != nil {
		panic("bad hex in harness: " + err.Error())
	}
	return b
}

// file kinds, in the fixed order used everywhere (never a map iteration)
const (
	kCardAccess = iota
	kCardSecurity
	kEFDIR
	kCOM
	kSOD
	kDG1
	kDG2
	kDG7
	kDG11
	kDG12
	kDG13
	kDG14
	kDG15
	kDG16
	nKinds
)

var kindName = [nKinds]string{"CardAccess", "CardSecurity", "EFDIR", "COM", "SOD", "DG1", "DG2", "DG7", "DG11", "DG12", "DG13", "DG14", "DG15", "DG16"}

// cborKey: the key of each file in the exported map (for locating envelopes)
var smallKinds = []int{kCardAccess, kEFDIR, kCOM, kDG1, kDG11, kDG12, kDG13, kDG15, kDG16}

var genuine [nKinds][]byte

func loadGenuine() {
	doc, err := document.SampleDocument()
	if err != nil {
		panic("SampleDocument: " + err.Error())
	}
	l := doc.Mf.Lds1
	genuine[kCOM], genuine[kSOD], genuine[kDG1], genuine[kDG2], genuine[kDG7] = l.Com.RawData, l.Sod.RawData, l.Dg1.RawData, l.Dg2.RawData, l.Dg7.RawData
	genuine[kDG11], genuine[kDG12], genuine[kDG13], genuine[kDG14], genuine[kDG15], genuine[kDG16] = l.Dg11.RawData, l.Dg12.RawData, l.Dg13.RawData, l.Dg14.RawData, l.Dg15.RawData, l.Dg16.RawData
	genuine[kCardAccess] = unhex("31283012060a04007f0007020204020202010202010d3012060a04007f0007020204060202010202010d")
	genuine[kCardSecurity] = unhex(sampleCardSecurityHex)
	genuine[kEFDIR] = unhex("61094F07A000000247100161094F07A000000247200161094F07A000000247200261094F07A0000002472003")
}

// ---- BER encoding ---------------------------------------------------------------------

func encLen(n int) []byte {
	switch {
	case n < 0x80:
		return []byte{byte(n)}
	case n < 0x100:
		return []byte{0x81, byte(n)}
	case n < 0x10000:
		return []byte{0x82, byte(n >> 8), byte(n)}
	}
	return []byte{0x83, byte(n >> 16), byte(n >> 8), byte(n)}
}

func encTag(tag uint32) []byte {
	switch {
	case tag > 0xffff:
		return []byte{byte(tag >> 16), byte(tag >> 8), byte(tag)}
	case tag > 0xff:
		return []byte{byte(tag >> 8), byte(tag)}
	}
	return []byte{byte(tag)}
}

func tl(tag uint32, content ...[]byte) []byte {
	n := 0
	for _, c := range content {
		n += len(c)
	}
	out := append([]byte{}, encTag(tag)...)
	out = append(out, encLen(n)...)
	for _, c := range content {
		out = append(out, c...)
	}
	return out
}

func cat(parts ...[]byte) []byte {
	var out []byte
	for _, p := range parts {
		out = append(out, p...)
	}
	return out
}

// ---- MRZ -----------------------------------------------------------------------------------

func checkDigit(s string) byte {
	w := []int{7, 3, 1}
	sum := 0
	for i := 0; i < len(s); i++ {
		c := s[i]
		v := 0
		switch {
		case c >= '0' && c <= '9':
			v = int(c - '0')
		case c >= 'A' && c <= 'Z':
			v = int(c-'A') + 10
		}
		sum += v * w[i%3]
	}
	return byte('0' + sum%10)
}

func pad(s string, n int) string {
	if len(s) > n {
		return s[:n]
	}
	return s + strings.Repeat("<", n-len(s))
}

var upper = rapid.StringMatching(`[A-Z]{1,12}`)
var alnum = rapid.StringMatching(`[A-Z0-9]{1,9}`)
var digits6 = rapid.StringMatching(`[0-9]{6}`)

func genName(rt *rapid.T, n int) string {
	s := upper.Draw(rt, "sur")
	if rapid.Bool().Draw(rt, "sur2") {
		s += "<" + upper.Draw(rt, "surb")
	}
	if rapid.IntRange(0, 4).Draw(rt, "given") != 0 {
		s += "<<" + upper.Draw(rt, "giv")
		if rapid.Bool().Draw(rt, "giv2") {
			s += "<" + upper.Draw(rt, "givb")
		}
	}
	if len(s) > n {
		s = strings.TrimRight(s[:n], "<")
		// a cut must not leave a third name component
		if strings.Count(s, "<<") > 1 {
			s = s[:strings.Index(s, "<<")]
		}
	}
	return pad(s, n)
}

func genMRZ(rt *rapid.T) string {
	state := rapid.SampledFrom([]string{"UTO", "D<<", "NLD", "AUT", "XXA"}).Draw(rt, "state")
	nat := rapid.SampledFrom([]string{"UTO", "D<<", "NLD", "AUT", "XXX"}).Draw(rt, "nat")
	docno := pad(alnum.Draw(rt, "docno"), 9)
	dob, exp := digits6.Draw(rt, "dob"), digits6.Draw(rt, "exp")
	sex := rapid.SampledFrom([]string{"M", "F", "<"}).Draw(rt, "sex")
	switch rapid.IntRange(1, 3).Draw(rt, "td") {
	case 1:
		opt1 := pad(rapid.StringMatching(`[A-Z0-9]{0,15}`).Draw(rt, "opt1"), 15)
		opt2 := pad(rapid.StringMatching(`[A-Z0-9]{0,11}`).Draw(rt, "opt2"), 11)
		l1 := "I<" + state + docno + string(checkDigit(docno)) + opt1
		l2 := dob + string(checkDigit(dob)) + sex + exp + string(checkDigit(exp)) + nat + opt2
		comp := checkDigit(l1[5:30] + l2[0:7] + l2[8:15] + l2[18:29])
		return l1 + l2 + string(comp) + genName(rt, 30)
	case 2:
		opt := pad(rapid.StringMatching(`[A-Z0-9]{0,7}`).Draw(rt, "opt"), 7)
		l1 := "I<" + state + genName(rt, 31)
		l2 := docno + string(checkDigit(docno)) + nat + dob + string(checkDigit(dob)) + sex + exp + string(checkDigit(exp)) + opt
		comp := checkDigit(l2[0:10] + l2[13:20] + l2[21:35])
		return l1 + l2 + string(comp)
	}
	opt := pad(rapid.StringMatching(`[A-Z0-9]{0,14}`).Draw(rt, "opt"), 14)
	l1 := "P<" + state + genName(rt, 39)
	l2 := docno + string(checkDigit(docno)) + nat + dob + string(checkDigit(dob)) + sex + exp + string(checkDigit(exp)) + opt + string(checkDigit(opt))
	comp := checkDigit(l2[0:10] + l2[13:20] + l2[21:43])
	return l1 + l2 + string(comp)
}

// ---- files -----------------------------------------------------------------------------------

func genText(rt *rapid.T, label string, max int) []byte {
	return []byte(rapid.StringMatching(`[A-Z0-9< ]{0,`+itoa(max)+`}`).Draw(rt, label))
}

func itoa(n int) string {
	if n == 0 {
		return "0"
	}
	s := ""
	for n > 0 {
		s = string(rune('0'+n%10)) + s
		n /= 10
	}
	return s
}

// genFill draws a long byte string cheaply: a short drawn pattern repeated.
func genFill(rt *rapid.T, label string, n int) []byte {
	pat := rapid.SliceOfN(rapid.Byte(), 1, 16).Draw(rt, label)
	out := make([]byte, n)
	for i := range out {
		out[i] = pat[i%len(pat)] + byte(i/len(pat))
	}
	return out
}

var sizeGen = rapid.OneOf(rapid.IntRange(0, 40), rapid.IntRange(0, 300), rapid.SampledFrom([]int{127, 128, 255, 256, 1000, 4096, 32767, 32768, 60000, 65000, 65535}))

func genCOM(rt *rapid.T) []byte {
	tags := []byte{}
	for _, t := range []byte{0x61, 0x75, 0x67, 0x6B, 0x6C, 0x6D, 0x6E, 0x6F, 0x70} {
		if rapid.Bool().Draw(rt, "tag") {
			tags = append(tags, t)
		}
	}
	return tl(0x60, tl(0x5F01, []byte(rapid.StringMatching(`0[0-9]{3}`).Draw(rt, "lds"))), tl(0x5F36, []byte(rapid.StringMatching(`0[0-9]{5}`).Draw(rt, "uni"))), tl(0x5C, tags))
}

func genDG1(rt *rapid.T) []byte { return tl(0x61, tl(0x5F1F, []byte(genMRZ(rt)))) }

func jpeg(rt *rapid.T, label string, n int) []byte {
	if n < 4 {
		n = 4
	}
	return cat([]byte{0xFF, 0xD8, 0xFF, 0xE0}, genFill(rt, label, n-4))
}

// genDG2: one ISO 19794-5 record with a JPEG payload of the drawn size.
func genDG2(rt *rapid.T, maxImage int) []byte {
	n := min(sizeGen.Draw(rt, "imgsz"), maxImage)
	img := jpeg(rt, "img", n)
	nfeat := rapid.IntRange(0, 3).Draw(rt, "nfeat")
	feat := make([]byte, 8*nfeat)
	fiLen := 20 + 12 + 8*nfeat + len(img)
	fi := cat(u32(fiLen), u16(nfeat), []byte{1, 2, 3}, []byte{0, 0, 0}, []byte{0, 0}, []byte{0, 0, 0}, []byte{0, 0, 0})
	ii := cat([]byte{1, 0}, u16(480), u16(640), []byte{1, 2}, u16(0), u16(0))
	recLen := 14 + fiLen
	rec := cat([]byte{'F', 'A', 'C', 0, '0', '1', '0', 0}, u32(recLen), u16(1), fi, feat, ii, img)
	bht := tl(0xA1, tl(0x80, []byte{1, 1}), tl(0x87, []byte{1, 1}), tl(0x88, []byte{0, 8}))
	return tl(0x75, tl(0x7F61, tl(0x02, []byte{1}), tl(0x7F60, bht, tl(0x5F2E, rec))))
}

func u16(n int) []byte { return []byte{byte(n >> 8), byte(n)} }
func u32(n int) []byte { return []byte{byte(n >> 24), byte(n >> 16), byte(n >> 8), byte(n)} }

func genDG7(rt *rapid.T, maxImage int) []byte {
	n := rapid.IntRange(1, 3).Draw(rt, "nimg")
	parts := [][]byte{tl(0x02, []byte{byte(n)})}
	for i := 0; i < n; i++ {
		parts = append(parts, tl(0x5F43, jpeg(rt, "sig", min(sizeGen.Draw(rt, "sigsz"), maxImage))))
	}
	return tl(0x67, parts...)
}

func nameField(rt *rapid.T) []byte { return []byte(strings.TrimRight(genName(rt, 30), "<")) }

func genDG11(rt *rapid.T) []byte {
	var tags, body []byte
	add := func(tag uint32, v []byte) {
		tags = append(tags, encTag(tag)...)
		body = append(body, tl(tag, v)...)
	}
	if rapid.Bool().Draw(rt, "f0e") {
		add(0x5F0E, nameField(rt))
	}
	if rapid.Bool().Draw(rt, "f0f") {
		n := rapid.IntRange(1, 3).Draw(rt, "nother")
		parts := [][]byte{tl(0x02, []byte{byte(n)})}
		for i := 0; i < n; i++ {
			parts = append(parts, tl(0x5F0F, nameField(rt)))
		}
		tags = append(tags, 0x5F, 0x0F)
		body = append(body, tl(0xA0, parts...)...)
	}
	if rapid.Bool().Draw(rt, "f10") {
		add(0x5F10, genText(rt, "pn", 14))
	}
	if rapid.Bool().Draw(rt, "f2b") {
		if rapid.Bool().Draw(rt, "bcd") {
			add(0x5F2B, []byte{0x19, 0x74, 0x08, 0x12})
		} else {
			add(0x5F2B, []byte(rapid.StringMatching(`(19|20)[0-9]{6}`).Draw(rt, "fdob")))
		}
	}
	for _, tg := range []uint32{0x5F11, 0x5F42, 0x5F12, 0x5F13, 0x5F14, 0x5F15, 0x5F17, 0x5F18} {
		if rapid.IntRange(0, 2).Draw(rt, "opt") == 0 {
			add(tg, genText(rt, "txt", 30))
		}
	}
	if rapid.IntRange(0, 3).Draw(rt, "f16") == 0 {
		add(0x5F16, jpeg(rt, "poc", min(sizeGen.Draw(rt, "pocsz"), 3000)))
	}
	return tl(0x6B, tl(0x5C, tags), body)
}

func genDG12(rt *rapid.T) []byte {
	var tags, body []byte
	add := func(tag uint32, v []byte) {
		tags = append(tags, encTag(tag)...)
		body = append(body, tl(tag, v)...)
	}
	if rapid.Bool().Draw(rt, "f19") {
		add(0x5F19, genText(rt, "ia", 30))
	}
	if rapid.Bool().Draw(rt, "f26") {
		add(0x5F26, []byte(rapid.StringMatching(`20[0-9]{6}`).Draw(rt, "doi")))
	}
	if rapid.Bool().Draw(rt, "f1a") {
		n := rapid.IntRange(1, 3).Draw(rt, "nop")
		parts := [][]byte{tl(0x02, []byte{byte(n)})}
		for i := 0; i < n; i++ {
			parts = append(parts, tl(0x5F1A, nameField(rt)))
		}
		tags = append(tags, 0x5F, 0x1A)
		body = append(body, tl(0xA0, parts...)...)
	}
	for _, tg := range []uint32{0x5F1B, 0x5F1C, 0x5F56} {
		if rapid.IntRange(0, 2).Draw(rt, "opt") == 0 {
			add(tg, genText(rt, "txt", 40))
		}
	}
	if rapid.Bool().Draw(rt, "f55") {
		add(0x5F55, []byte(rapid.StringMatching(`20[0-9]{12}`).Draw(rt, "pdt")))
	}
	for _, tg := range []uint32{0x5F1D, 0x5F1E} {
		if rapid.IntRange(0, 4).Draw(rt, "img") == 0 {
			add(tg, jpeg(rt, "dimg", min(sizeGen.Draw(rt, "dimgsz"), 3000)))
		}
	}
	return tl(0x6C, tl(0x5C, tags), body)
}

func genDG13(rt *rapid.T, max int) []byte {
	n := min(sizeGen.Draw(rt, "d13sz"), max)
	if n <= 48 {
		return tl(0x6D, rapid.SliceOfN(rapid.Byte(), n, n).Draw(rt, "d13"))
	}
	return tl(0x6D, genFill(rt, "d13f", n))
}

var oidPaceEcdhGm128 = asn1.ObjectIdentifier{0, 4, 0, 127, 0, 7, 2, 2, 4, 2, 2}
var oidPaceEcdhCam128 = asn1.ObjectIdentifier{0, 4, 0, 127, 0, 7, 2, 2, 4, 6, 2}
var oidCaEcdhAes128 = asn1.ObjectIdentifier{0, 4, 0, 127, 0, 7, 2, 2, 3, 2, 2}
var oidPkEcdh = asn1.ObjectIdentifier{0, 4, 0, 127, 0, 7, 2, 2, 1, 2}
var oidEcPublicKey = asn1.ObjectIdentifier{1, 2, 840, 10045, 2, 1}
var oidPrime256v1 = asn1.ObjectIdentifier{1, 2, 840, 10045, 3, 1, 7}
var oidTa = asn1.ObjectIdentifier{0, 4, 0, 127, 0, 7, 2, 2, 2}

func der(v any) []byte {
	b, err := asn1.Marshal(v)
	if err != nil {
		panic(err)
	}
	return b
}

func genSecInfos(rt *rapid.T, withCA bool) []byte {
	var infos [][]byte
	n := rapid.IntRange(1, 3).Draw(rt, "npace")
	for i := 0; i < n; i++ {
		o := rapid.SampledFrom([]asn1.ObjectIdentifier{oidPaceEcdhGm128, oidPaceEcdhCam128}).Draw(rt, "poid")
		infos = append(infos, tl(0x30, der(o), der(2), der(rapid.IntRange(8, 18).Draw(rt, "pid"))))
	}
	if withCA {
		pt := cat([]byte{4}, rapid.SliceOfN(rapid.Byte(), 64, 64).Draw(rt, "pt"))
		spki := tl(0x30, tl(0x30, der(oidEcPublicKey), der(oidPrime256v1)), tl(0x03, []byte{0}, pt))
		keyID := rapid.IntRange(-1, 5).Draw(rt, "keyid")
		if keyID < 0 {
			infos = append(infos, tl(0x30, der(oidPkEcdh), spki), tl(0x30, der(oidCaEcdhAes128), der(1)))
		} else {
			infos = append(infos, tl(0x30, der(oidPkEcdh), spki, der(keyID)), tl(0x30, der(oidCaEcdhAes128), der(1), der(keyID)))
		}
		if rapid.Bool().Draw(rt, "ta") {
			infos = append(infos, tl(0x30, der(oidTa), der(1)))
		}
	}
	return tl(0x31, infos...)
}

func genDG14(rt *rapid.T) []byte {
	if rapid.IntRange(0, 2).Draw(rt, "g14") == 0 {
		return append([]byte{}, genuine[kDG14]...)
	}
	return tl(0x6E, genSecInfos(rt, true))
}

func genCardAccess(rt *rapid.T) []byte {
	if rapid.IntRange(0, 2).Draw(rt, "gca") == 0 {
		return append([]byte{}, genuine[kCardAccess]...)
	}
	return genSecInfos(rt, false)
}

func genDG15(rt *rapid.T) []byte {
	switch rapid.IntRange(0, 2).Draw(rt, "g15") {
	case 0:
		return append([]byte{}, genuine[kDG15]...)
	case 1:
		pt := cat([]byte{4}, rapid.SliceOfN(rapid.Byte(), 64, 64).Draw(rt, "pt15"))
		return tl(0x6F, tl(0x30, tl(0x30, der(oidEcPublicKey), der(oidPrime256v1)), tl(0x03, []byte{0}, pt)))
	}
	// the constructor only unwraps the root: any non-empty content is a well-formed DG15 for it
	return tl(0x6F, rapid.SliceOfN(rapid.Byte(), 1, 80).Draw(rt, "d15"))
}

func genDG16(rt *rapid.T) []byte {
	n := rapid.IntRange(1, 4).Draw(rt, "nptn")
	parts := [][]byte{tl(0x02, []byte{byte(n)})}
	for i := 1; i <= n; i++ {
		parts = append(parts, tl(uint32(0xA0+i), tl(0x5F50, []byte(rapid.StringMatching(`20[0-9]{6}`).Draw(rt, "dr"))), tl(0x5F51, nameField(rt)),
			tl(0x5F52, genText(rt, "tel", 14)), tl(0x5F53, genText(rt, "adr", 40))))
	}
	return tl(0x70, parts...)
}

func genEFDIR(rt *rapid.T) []byte {
	n := rapid.IntRange(1, 4).Draw(rt, "napp")
	var out []byte
	for i := 0; i < n; i++ {
		out = append(out, tl(0x61, tl(0x4F, rapid.SliceOfN(rapid.Byte(), 5, 16).Draw(rt, "aid")))...)
	}
	return out
}

// genFile returns well-formed bytes for the kind; maxBig bounds image / DG13 sizes.
func genFile(rt *rapid.T, kind int, maxBig int) []byte {
	if rapid.IntRange(0, 3).Draw(rt, "genuine") == 0 {
		if len(genuine[kind]) <= maxBig+64 || maxBig >= 4000 {
			return append([]byte{}, genuine[kind]...)
		}
	}
	switch kind {
	case kCOM:
		return genCOM(rt)
	case kDG1:
		return genDG1(rt)
	case kDG2:
		return genDG2(rt, maxBig)
	case kDG7:
		return genDG7(rt, maxBig)
	case kDG11:
		return genDG11(rt)
	case kDG12:
		return genDG12(rt)
	case kDG13:
		return genDG13(rt, maxBig)
	case kDG14:
		return genDG14(rt)
	case kDG15:
		return genDG15(rt)
	case kDG16:
		return genDG16(rt)
	case kCardAccess:
		return genCardAccess(rt)
	case kEFDIR:
		return genEFDIR(rt)
	}
	return append([]byte{}, genuine[kind]...) // SOD, CardSecurity: genuine CMS objects
}

// ---- evidence ------------------------------------------------------------------------------------

func nonEmpty(rt *rapid.T, label string) []byte {
	switch rapid.IntRange(0, 5).Draw(rt, label+"k") {
	case 0:
		return []byte{rapid.Byte().Draw(rt, label+"1")}
	case 1:
		return genFill(rt, label+"f", rapid.SampledFrom([]int{255, 256, 1024, 5000}).Draw(rt, label+"n"))
	}
	return rapid.SliceOfN(rapid.Byte(), 1, 70).Draw(rt, label)
}

func genOID(rt *rapid.T, label string) asn1.ObjectIdentifier {
	n := rapid.IntRange(1, 12).Draw(rt, label+"n")
	o := make(asn1.ObjectIdentifier, n)
	for i := range o {
		o[i] = rapid.OneOf(rapid.IntRange(0, 40), rapid.IntRange(0, 1<<31-1)).Draw(rt, label)
	}
	return o
}

type evidence struct {
	CA   *document.ChipAuthEvidence
	PACE *document.PaceCamEvidence
	AA   *document.ActiveAuthEvidence
}

// genEvidence: any subset of the three mechanisms (mask) with arbitrary non-empty values.
func genEvidence(rt *rapid.T, mask int) evidence {
	var e evidence
	if mask&1 != 0 {
		e.CA = &document.ChipAuthEvidence{TermPri: nonEmpty(rt, "ctp"), TermPubKey: nonEmpty(rt, "ctk"), SmRapdu: nonEmpty(rt, "csr")}
		if rapid.IntRange(0, 3).Draw(rt, "cssc") != 0 { // SmSsc is optional (legacy bundles)
			e.CA.SmSsc = nonEmpty(rt, "css")
		}
	}
	if mask&2 != 0 {
		e.PACE = &document.PaceCamEvidence{PaceOid: genOID(rt, "poid"), ParameterId: rapid.OneOf(rapid.IntRange(0, 31), rapid.IntRange(-1<<31, 1<<31-1)).Draw(rt, "ppid"),
			Nonce: nonEmpty(rt, "pn"), TermMapPri: nonEmpty(rt, "p1"), TermMapPub: nonEmpty(rt, "p2"), ChipMapPub: nonEmpty(rt, "p3"),
			TermKaPri: nonEmpty(rt, "p4"), TermKaPub: nonEmpty(rt, "p5"), ChipKaPub: nonEmpty(rt, "p6"), EcadIC: nonEmpty(rt, "p7")}
	}
	if mask&4 != 0 {
		e.AA = &document.ActiveAuthEvidence{Algorithm: genOID(rt, "aoid"), Nonce: nonEmpty(rt, "an"), Signature: nonEmpty(rt, "as")}
	}
	return e
}
