package c15

// Coverage-guided variants of this package's rapid properties (thorough tier): the
// native fuzzer mutates rapid's bit stream with coverage feedback (evid.FuzzVia).

import (
	"testing"

	"verifharness/evid"
)

func FuzzRoundTrip(f *testing.F)      { evid.FuzzVia(f, TestRoundTrip) }
func FuzzCorruptSampled(f *testing.F) { evid.FuzzVia(f, TestCorruptSampled) }
