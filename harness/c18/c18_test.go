// C18 — MRZ decoding enforces the ICAO 9303 check digits and the access key
// seed is independent of the way the document data is supplied.
//
// Oracle: verifharness/ref/mrz (independent model of ICAO 9303 parts 3-6 and of
// the MRZ information of part 11), used two-sided:
//
//	A  gmrtd accepts a zone        => the reference finds no non-empty checked
//	                                  field and no composite that disagrees with
//	                                  its check digit;
//	B  the reference calls a zone  => gmrtd accepts it and every decoded field
//	   well-formed and correct        equals the reference slicing (fillers ->
//	                                  spaces, trailing removed);
//	K  key seed: password.NewPasswordMrz(full), NewPasswordMrzi(decoded fields),
//	   MrzDecode(full).EncodeMrzi() and NewPasswordMrzi(logical fields) give the
//	   same string = reference MRZ information, and Key() = SHA-1 of it.
//
// Domain: generated valid MRZs of the three layouts, every single-character
// substitution of sampled documents, transpositions, length changes, and
// arbitrary strings.
package c18

import (
	"bytes"
	"encoding/hex"
	"encoding/json"
	"fmt"
	"os"
	"reflect"
	"strconv"
	"strings"
	"testing"

	"github.com/gmrtd/gmrtd/bac"
	"github.com/gmrtd/gmrtd/document"
	"github.com/gmrtd/gmrtd/iso7816"
	gmrz "github.com/gmrtd/gmrtd/mrz"
	"github.com/gmrtd/gmrtd/password"
	"pgregory.net/rapid"

	"verifharness/evid"
	refmrz "verifharness/ref/mrz"
)

const prop = "C18"

func TestMain(m *testing.M) { evid.Main(m, prop) }

// Known findings (see /verif/known_findings.json).
const (
	// the unset-field rule is applied to the composite: a zone whose composite
	// input is all fillers is accepted with '<' as composite check digit.
	kComposite = "K1-composite-unset"
	// an EMPTY key field with '<' as check digit is accepted, and then the MRZ
	// information taken from the full zone (…<) differs from the re-encoded one (…0).
	kKeySeed = "K2-keyseed-unset-cd"
)

// ---------------------------------------------------------------- oracle

type outcome struct {
	Accepted  bool // gmrtd MrzDecode accepted
	RefValid  bool
	RefCheck  bool // reference found a check digit disagreement
	OutDomain bool
	Excluded  string
}

type violation struct{ check, msg string }

func viol(check, f string, a ...any) *violation { return &violation{check, fmt.Sprintf(f, a...)} }

func safeDecode(s string) (m *gmrz.MRZ, err error, panicked any) {
	defer func() {
		if r := recover(); r != nil {
			panicked = r
		}
	}()
	m, err = gmrz.MrzDecode(s)
	return
}

func inComposite(r *refmrz.Report) bool {
	return r.Parsed != nil && refmrz.Empty(r.Parsed.CompositeData) && r.Parsed.Composite == '<'
}

func inKeySeed(r *refmrz.Report) bool {
	p := r.Parsed
	if p == nil {
		return false
	}
	return refmrz.Empty(p.DocNo) && p.DocNoCheck == '<' || refmrz.Empty(p.DOB) && p.DOBCheck == '<' ||
		refmrz.Empty(p.Expiry) && p.ExpiryCheck == '<'
}

// keyFieldsInDomain: the three key fields and their check digits are over the
// MRZ alphabet.
func keyFieldsInDomain(p *refmrz.Parsed) bool {
	return refmrz.InAlphabet(p.DocNo + p.DOB + p.Expiry + string([]byte{p.DocNoCheck, p.DOBCheck, p.ExpiryCheck}))
}

// keyFieldDisagrees: a NON-EMPTY key field whose check digit is not the ICAO one.
func keyFieldDisagrees(p *refmrz.Parsed) string {
	for _, c := range []struct {
		what, v string
		cd      byte
	}{{"document number", p.DocNo, p.DocNoCheck}, {"date of birth", p.DOB, p.DOBCheck}, {"date of expiry", p.Expiry, p.ExpiryCheck}} {
		if !refmrz.Empty(c.v) && refmrz.CheckDigit(c.v) != c.cd {
			return fmt.Sprintf("%s %q has check digit %q, ICAO %q", c.what, c.v, c.cd, refmrz.CheckDigit(c.v))
		}
	}
	return ""
}

// ignoreKnown switches the exclusion of the open known findings off (probes
// and replays must show the raw behaviour).  Tests of a package run one after
// the other, so a package variable is safe.
var ignoreKnown bool

func open(key string) bool { return !ignoreKnown && evid.Open(prop, key) }

// examine runs every oracle on one string.  It is a pure function of s (and of
// the open/fixed state of the known findings).
func examine(s string) (*violation, outcome) {
	var o outcome
	r := refmrz.Analyse(s)
	o.RefValid, o.RefCheck, o.OutDomain = r.Valid(), len(r.Check) > 0, r.OutOfDomain

	dec, err, pan := safeDecode(s)
	if pan != nil {
		return viol("no-crash", "MrzDecode panicked: %v", pan), o
	}
	if (err == nil) == (dec == nil) {
		return viol("api", "MrzDecode returned mrz=%v err=%v", dec, err), o
	}
	o.Accepted = err == nil

	// the DG1 path must agree with the direct path
	dg1, derr := document.NewDG1(refmrz.EncodeDG1(s))
	if (derr == nil) != o.Accepted {
		return viol("dg1", "NewDG1 error=%v but MrzDecode error=%v", derr, err), o
	}
	if derr == nil && (dg1 == nil || dg1.RawMrz != s || !reflect.DeepEqual(dg1.Mrz, dec)) {
		return viol("dg1", "NewDG1 decodes to %+v, MrzDecode to %+v", dg1, dec), o
	}

	pw, perr := password.NewPasswordMrz(s)
	if (perr == nil) == (pw == nil) {
		return viol("api", "NewPasswordMrz returned pass=%v err=%v", pw, perr), o
	}

	if r.Parsed == nil {
		// not 90 / 72 / 88 characters: there is nothing to decode
		if o.Accepted || perr == nil {
			return viol("length", "string of %d characters accepted (MrzDecode err=%v, NewPasswordMrz err=%v)", len(s), err, perr), o
		}
		return nil, o
	}
	p := r.Parsed

	// ---- A: accepted => no disagreement
	if o.Accepted && !r.OutOfDomain && len(r.Check) > 0 {
		if inComposite(r) && len(r.Check) == 1 && open(kComposite) {
			o.Excluded = kComposite
		} else {
			return viol("accepts-bad-check-digit", "MrzDecode accepts although %s", strings.Join(r.Check, "; ")), o
		}
	}
	if perr == nil && keyFieldsInDomain(p) {
		if why := keyFieldDisagrees(p); why != "" {
			return viol("keyseed-accepts-bad-check-digit", "NewPasswordMrz accepts although %s", why), o
		}
	}

	// ---- B: well-formed and correct => accepted, fields = character ranges
	if r.Valid() {
		if !o.Accepted {
			return viol("rejects-valid", "well-formed %s zone rejected: %v", p.Layout, err), o
		}
		if perr != nil {
			return viol("rejects-valid", "NewPasswordMrz rejects a well-formed %s zone: %v", p.Layout, perr), o
		}
		if dec.NameOfHolder == nil {
			return viol("fields", "no name decoded"), o
		}
		for _, c := range []struct{ what, got, want string }{
			{"document code", dec.DocumentCode, refmrz.Clean(p.DocCode)},
			{"issuing State", dec.IssuingState, refmrz.Clean(p.Issuer)},
			{"primary identifier", dec.NameOfHolder.Primary, p.Primary},
			{"secondary identifier", dec.NameOfHolder.Secondary, p.Secondary},
			{"document number", dec.DocumentNumber, refmrz.Clean(p.DocNo)},
			{"nationality", dec.Nationality, refmrz.Clean(p.Nationality)},
			{"date of birth", dec.DateOfBirth, refmrz.Clean(p.DOB)},
			{"sex", dec.Sex, refmrz.Clean(p.Sex)},
			{"date of expiry", dec.DateOfExpiry, refmrz.Clean(p.Expiry)},
			{"optional data", dec.OptionalData, refmrz.Clean(p.Opt1)},
			{"optional data 2", dec.OptionalData2, refmrz.Clean(p.Opt2)},
		} {
			if c.got != c.want {
				return viol("fields", "%s decoded as %q, character range gives %q", c.what, c.got, c.want), o
			}
		}
	}

	// ---- K: the routes to the key seed agree
	if o.Accepted && keyFieldsInDomain(p) {
		if perr != nil {
			return viol("keyseed", "MrzDecode accepts but NewPasswordMrz fails: %v", perr), o
		}
		if inKeySeed(r) && open(kKeySeed) {
			if o.Excluded == "" {
				o.Excluded = kKeySeed
			}
		} else if v := keyRoutes(s, dec, pw, r); v != nil {
			return v, o
		}
	}
	return nil, o
}

// keyRoutes compares the three ways of obtaining the MRZ information for an
// accepted zone, and with the reference when the reference can extract it.
func keyRoutes(s string, dec *gmrz.MRZ, pw *password.Password, r *refmrz.Report) *violation {
	viaFull := pw.Password
	viaDecoded, err := dec.EncodeMrzi()
	if err != nil {
		return viol("keyseed", "EncodeMrzi of the decoded zone fails: %v", err)
	}
	pw3, err := password.NewPasswordMrzi(dec.DocumentNumber, dec.DateOfBirth, dec.DateOfExpiry)
	if err != nil {
		return viol("keyseed", "NewPasswordMrzi(%q,%q,%q) fails: %v", dec.DocumentNumber, dec.DateOfBirth, dec.DateOfExpiry, err)
	}
	if viaFull != viaDecoded || viaFull != pw3.Password {
		return viol("keyseed", "MRZ information differs: from the full zone %q, decoded and re-encoded %q, from the three decoded fields %q",
			viaFull, viaDecoded, pw3.Password)
	}
	k1, e1 := pw.Key()
	k3, e3 := pw3.Key()
	if e1 != nil || e3 != nil || !bytes.Equal(k1, k3) {
		return viol("keyseed", "Key() differs: %x (%v) / %x (%v)", k1, e1, k3, e3)
	}
	if want, err := refmrz.MRZInformationFromMRZ(s); err == nil {
		if viaFull != want {
			return viol("keyseed", "MRZ information %q, reference %q", viaFull, want)
		}
		if !bytes.Equal(k1, refmrz.K(want)) || !bytes.Equal(k1[:16], refmrz.KSeed(want)) {
			return viol("keyseed", "Key() = %x, reference SHA-1 %x", k1, refmrz.K(want))
		}
	} else if r.Valid() {
		return viol("infra", "reference cannot extract the MRZ information of a zone it calls valid: %v", err)
	}
	// "all ways of supplying the same document data open the same chip" also after a password object
	// has been USED: run a basic-access key derivation with the object built from the full zone (against
	// a stub that answers GET CHALLENGE and refuses EXTERNAL AUTHENTICATE) and compare with a fresh
	// object built from the three fields
	var doc document.Document
	bac.NewBAC(iso7816.NewNfcSession(stubChip{}), &doc, pw).DoBAC()
	kAfter, eAfter := pw.Key()
	if eAfter != nil || !bytes.Equal(kAfter, k3) {
		return viol("keyseed", "after the password object was used for a basic-access key derivation its Key() is %x (%v); a fresh object from the three key fields gives %x", kAfter, eAfter, k3)
	}
	return nil
}

// stubChip answers GET CHALLENGE with eight octets and refuses everything else.
type stubChip struct{}

func (stubChip) Transceive(cla, ins, p1, p2 int, data []byte, le int, encoded []byte) []byte {
	if ins == 0x84 {
		return []byte{1, 2, 3, 4, 5, 6, 7, 8, 0x90, 0x00}
	}
	return []byte{0x69, 0x82}
}

// examineDoc adds what is only known for a generated document: the logical
// field values the zone was built from.
func examineDoc(d *doc) *violation {
	f := d.F
	want := refmrz.MRZInformation(f.DocNo, f.DOB, f.Expiry)
	// the user types the number and dates as printed (fillers as '<', or the
	// unknown date part left out at the end)
	for _, in := range [][3]string{
		{f.DocNo, f.DOB, f.Expiry},
		{strings.ReplaceAll(f.DocNo, "<", " "), strings.TrimRight(f.DOB, "<"), f.Expiry},
	} {
		pw, err := password.NewPasswordMrzi(in[0], in[1], in[2])
		if err != nil {
			return viol("keyseed", "NewPasswordMrzi(%q,%q,%q) fails: %v", in[0], in[1], in[2], err)
		}
		if pw.Password != want {
			return viol("keyseed", "NewPasswordMrzi(%q,%q,%q) = %q, reference MRZ information %q", in[0], in[1], in[2], pw.Password, want)
		}
		if k, err := pw.Key(); err != nil || !bytes.Equal(k, refmrz.K(want)) {
			return viol("keyseed", "Key() = %x (%v), reference %x", k, err, refmrz.K(want))
		}
		if t, err := pw.Type(); err != nil || t != 1 {
			return viol("keyseed", "Type() = %d (%v), want 1 (MRZ)", t, err)
		}
	}
	full, err := password.NewPasswordMrz(d.MRZ)
	if err != nil || full.Password != want {
		return viol("keyseed", "NewPasswordMrz = %v (%v), reference MRZ information %q", full, err, want)
	}
	return nil
}

// ---------------------------------------------------------------- recording

func repro(s string, extra map[string]any) map[string]any {
	m := map[string]any{"mrz_hex": hex.EncodeToString([]byte(s)), "len": len(s)}
	if refmrz.InAlphabet(s) {
		m["mrz"] = s
	}
	for k, v := range extra {
		m[k] = v
	}
	return m
}

func outcomeClass(o outcome) string {
	switch {
	case o.Excluded != "":
		return "outcome-excluded-known-finding"
	case o.OutDomain:
		return "outcome-outside-alphabet"
	case o.RefValid:
		return "outcome-valid-accepted"
	case o.Accepted:
		return "outcome-accepted-not-wellformed"
	case o.RefCheck:
		return "outcome-rejected-check-digit"
	}
	return "outcome-rejected-other"
}

type failer interface {
	Helper()
	Fatalf(format string, args ...any)
	Logf(format string, args ...any)
}

// run examines one string, records it and reports a violation.
func run(t failer, class string, nontrivial bool, key string, s string, extra map[string]any) outcome {
	v, o := examine(s)
	var sample any
	if nontrivial && extra != nil {
		sample = repro(s, extra)
	}
	evid.Case(class, nontrivial, key, sample)
	evid.Count(outcomeClass(o), 1)
	if o.Excluded != "" {
		evid.Excluded(o.Excluded)
	}
	if v != nil {
		if v.check == "infra" {
			evid.Infra(t, "%s (%q)", v.msg, s)
		}
		evid.Fail(t, v.check, repro(s, extra), "%s [%q]", v.msg, s)
	}
	return o
}

func supportedLen(n int) bool { return n == 72 || n == 88 || n == 90 }

// ---------------------------------------------------------------- tests

func TestRefSelfTest(t *testing.T) {
	if err := refmrz.SelfTest(); err != nil {
		evid.Infra(t, "reference MRZ model self-test: %v", err)
	}
}

func validClass(d *doc) string {
	c := "valid-" + d.F.Layout
	if len(d.F.DocNo) > 9 {
		c += "-extended"
	}
	return c
}

func checkValidDoc(t failer, d *doc) {
	r := refmrz.Analyse(d.MRZ)
	if !r.Valid() {
		evid.Infra(t, "generator produced a zone the reference does not call valid: %q %v %v", d.MRZ, r.Check, r.Structure)
	}
	p := r.Parsed
	f := d.F
	if refmrz.Clean(p.DocNo) != refmrz.Clean(f.DocNo) || p.DOB != f.DOB || p.Expiry != f.Expiry || refmrz.Clean(p.Opt1) != refmrz.Clean(f.Opt1) ||
		refmrz.Clean(p.Opt2) != refmrz.Clean(f.Opt2) || p.Primary != refmrz.Clean(f.Surname) || p.Secondary != refmrz.Clean(f.Given) {
		evid.Infra(t, "reference slicing of %q does not give back the fields %+v: %+v", d.MRZ, f, p)
	}
	for _, ft := range d.Feats {
		evid.Count("feat-"+ft, 1)
	}
	run(t, validClass(d), true, d.MRZ, d.MRZ, map[string]any{"fields": f})
	if v := examineDoc(d); v != nil {
		evid.Fail(t, v.check, repro(d.MRZ, map[string]any{"fields": f}), "%s [%q]", v.msg, d.MRZ)
	}
}

// TestValidDocuments: side B and the key seed equivalence on generated valid
// zones of all layouts.
func TestValidDocuments(t *testing.T) {
	evid.RapidCheck(t, 24000, 2400000, func(rt *rapid.T) {
		checkValidDoc(rt, genDoc(rt))
	})
}

// sweep applies every single-character substitution (position x 37 symbols),
// every adjacent transposition, every single deletion and insertion, and the
// two-character length changes that turn one layout's length into another's.
func sweep(t failer, d *doc, insSym byte) {
	s, l := d.MRZ, d.F.Layout
	for pos := 0; pos < len(s); pos++ {
		field := refmrz.FieldAt(l, pos)
		for _, c := range symAll {
			if c == s[pos] {
				continue
			}
			run(t, "sub-"+l+"-"+field, true, l+"/"+strconv.Itoa(pos)+"/"+string(c), substitute(s, pos, c), nil)
		}
		if pos+1 < len(s) && s[pos] != s[pos+1] {
			run(t, "transpose-"+l, true, l+"/"+strconv.Itoa(pos), transpose(s, pos), nil)
		}
		run(t, "delete1-"+l, false, "", deleteAt(s, pos, 1), nil)
		run(t, "insert1-"+l, false, "", insertAt(s, pos, string(insSym)), nil)
		// delete one, insert one elsewhere: a window of the zone shifts by one
		other := (pos*7 + 13) % len(s)
		run(t, "shift-"+l, true, l+"/"+strconv.Itoa(pos)+"/"+strconv.Itoa(other), insertAt(deleteAt(s, pos, 1), other, string(insSym)), nil)
		switch l {
		case "TD1": // 90 -> 88
			if pos+2 <= len(s) {
				run(t, "delete2-TD1-to-88", true, "TD1/"+strconv.Itoa(pos), deleteAt(s, pos, 2), nil)
			}
		case "TD3": // 88 -> 90
			run(t, "insert2-TD3-to-90", true, "TD3/"+strconv.Itoa(pos), insertAt(s, pos, string([]byte{insSym, insSym})), nil)
		}
	}
	switch l { // cut / pad to the other lengths
	case "TD1", "TD3":
		run(t, "resize-to-72", true, l+"/head", s[:72], nil)
		run(t, "resize-to-72", true, l+"/tail", s[len(s)-72:], nil)
	case "TD2":
		run(t, "resize-to-88", true, "TD2/pad", s+strings.Repeat("<", 16), nil)
		run(t, "resize-to-90", true, "TD2/pad", s+strings.Repeat("<", 18), nil)
	}
}

// TestSubstitutionSweep: for sampled documents, all single-character
// substitutions, adjacent transpositions and length changes.
func TestSubstitutionSweep(t *testing.T) {
	evid.RapidCheck(t, 48, 4800, func(rt *rapid.T) {
		d := genDoc(rt)
		ins := pick(rt, "insert-symbol", symAll)
		if !refmrz.Analyse(d.MRZ).Valid() {
			evid.Infra(rt, "generator produced an invalid zone %q", d.MRZ)
		}
		evid.Count("sweep-docs-"+d.F.Layout, 1)
		sweep(rt, d, ins)
	})
}

// TestTargetedMutations: mutations aimed at the check digit rules (one per
// case, on a fresh document): substitutions that no check digit can see,
// compensated changes (field check digit recomputed, composite not, and the
// reverse), check digits replaced by fillers, blanked fields.
func TestTargetedMutations(t *testing.T) {
	kinds := []string{"sub", "sub-same-value", "sub2", "field-fixed-composite-stale", "all-fixed", "composite-fixed-field-stale",
		"transpose", "cd-to-filler", "blank-field", "blank-field-cd-filler", "blank-field-cd-zero", "blank-all-checked"}
	checked := []string{"docno", "dob", "expiry", "opt1", "opt2"}
	cds := []string{"docno-cd", "dob-cd", "expiry-cd", "opt-cd", "composite-cd"}
	evid.RapidCheck(t, 24000, 2400000, func(rt *rapid.T) {
		d := genDoc(rt)
		s, l := d.MRZ, d.F.Layout
		kind := pick(rt, "kind", kinds)
		mut := mutation{Kind: kind, Pos: -1}
		drawField := func(names []string) (int, int) {
			for tries := 0; ; tries++ {
				lo, hi := fieldSpan(l, pick(rt, "field", names))
				if lo >= 0 {
					return lo, hi
				}
				if tries > 20 {
					return fieldSpan(l, "dob")
				}
			}
		}
		blank := func(lo, hi int) {
			s = s[:lo] + strings.Repeat("<", hi-lo) + s[hi:]
		}
		switch kind {
		case "sub":
			mut.Pos = uniRange(rt, "pos", 0, len(s)-1)
			c := pick(rt, "sym", symAll)
			mut.Sym = string(c)
			s = substitute(s, mut.Pos, c)
		case "sub-same-value":
			mut.Pos = uniRange(rt, "pos", 0, len(s)-1)
			c := pick(rt, "sym", sameValueSymbols(s[mut.Pos]))
			mut.Sym = string(c)
			s = substitute(s, mut.Pos, c)
		case "sub2":
			mut.Pos, mut.Pos2 = uniRange(rt, "pos", 0, len(s)-1), uniRange(rt, "pos2", 0, len(s)-1)
			s = substitute(s, mut.Pos, pick(rt, "sym", symAll))
			s = substitute(s, mut.Pos2, pick(rt, "sym2", symAll))
		case "field-fixed-composite-stale", "all-fixed", "composite-fixed-field-stale":
			lo, hi := drawField(checked)
			mut.Pos = uniRange(rt, "pos", lo, hi-1)
			c := pick(rt, "sym", symAlnum)
			mut.Sym = string(c)
			s = substitute(s, mut.Pos, c)
			s = recompute(s, kind != "composite-fixed-field-stale", kind != "field-fixed-composite-stale")
		case "transpose":
			mut.Pos = uniRange(rt, "pos", 0, len(s)-2)
			s = transpose(s, mut.Pos)
		case "cd-to-filler":
			lo, _ := drawField(cds)
			mut.Pos = lo
			s = substitute(s, lo, '<')
			if rapid.Bool().Draw(rt, "fix-composite") {
				s = recompute(s, false, true)
			}
		case "blank-field", "blank-field-cd-filler", "blank-field-cd-zero":
			lo, hi := drawField([]string{"docno", "dob", "expiry", "opt1"})
			mut.Pos = lo
			blank(lo, hi)
			cd := hi // the check digit follows its field in every layout …
			if fa := refmrz.FieldAt(l, cd); fa != "docno-cd" && fa != "dob-cd" && fa != "expiry-cd" && fa != "opt-cd" {
				cd = -1 // … except TD1/TD2 optional data, which has none
			}
			if cd >= 0 && kind == "blank-field-cd-filler" {
				s = substitute(s, cd, '<')
			}
			if cd >= 0 && kind == "blank-field-cd-zero" {
				s = substitute(s, cd, '0')
			}
			if rapid.Bool().Draw(rt, "fix-composite") {
				s = recompute(s, false, true)
			}
		case "blank-all-checked":
			// every position that enters the composite becomes a filler; the
			// composite position gets a drawn symbol
			for _, f := range append(append([]string{}, checked...), cds...) {
				if lo, hi := fieldSpan(l, f); lo >= 0 {
					blank(lo, hi)
				}
			}
			c := pick(rt, "composite-sym", []byte("<0<0123456789AKU"))
			mut.Sym = string(c)
			s = substitute(s, cdPositions[l].composite, c)
		}
		key := l + "/" + kind + "/" + refmrz.FieldAt(l, mut.Pos) + "/" + mut.Sym
		o := run(rt, "mut-"+kind, s != d.MRZ, key, s, map[string]any{"from": d.MRZ, "mutation": mut})
		if kind == "all-fixed" && !o.Accepted {
			evid.Count("all-fixed-not-accepted", 1)
		}
	})
}

// TestArbitraryStrings: strings that do not come from a valid document.
func TestArbitraryStrings(t *testing.T) {
	drawLen := func(rt *rapid.T) int {
		switch uni(rt, "len-kind", 4) {
		case 0, 1:
			return pick(rt, "len", []int{72, 88, 90})
		case 2:
			return pick(rt, "len", []int{0, 1, 29, 30, 36, 44, 71, 73, 87, 89, 91, 144, 176, 180})
		}
		return uniRange(rt, "len", 0, 200)
	}
	allBytes := make([]byte, 256)
	for i := range allBytes {
		allBytes[i] = byte(i)
	}
	bad := []byte(" >?*az\x00\x7f\x80\xc3\xa9\xff\n-.")
	evid.RapidCheck(t, 16000, 1600000, func(rt *rapid.T) {
		n := drawLen(rt)
		kind := pick(rt, "kind", []string{"alphabet", "filler-heavy", "digits-heavy", "check-digits-consistent", "bad-symbols", "bytes"})
		var s string
		switch kind {
		case "alphabet":
			s = drawStr(rt, "s", symAll, n)
		case "filler-heavy", "digits-heavy":
			heavy := byte('<')
			if kind == "digits-heavy" {
				heavy = '0'
			}
			rare := uniRange(rt, "rare", 0, 6)
			b := bytes.Repeat([]byte{heavy}, n)
			for i := 0; i < rare && n > 0; i++ {
				b[uniRange(rt, "rare-pos", 0, n-1)] = pick(rt, "rare-sym", symAll)
			}
			s = string(b)
		case "check-digits-consistent":
			// random content over the alphabet, then every check digit made right
			if !supportedLen(n) {
				n = pick(rt, "len2", []int{72, 88, 90})
			}
			s = drawStr(rt, "s", symAll, n)
			if rapid.Bool().Draw(rt, "not-truncated-form") {
				s = substitute(s, cdPositions[refmrz.LayoutOfLength(n)].docNo, '0')
			}
			s = recompute(s, true, true)
		case "bad-symbols":
			b := []byte(drawStr(rt, "s", symAll, n))
			k := uniRange(rt, "bad-count", 1, 3)
			for i := 0; i < k && n > 0; i++ {
				b[uniRange(rt, "bad-pos", 0, n-1)] = pick(rt, "bad-sym", bad)
			}
			s = string(b)
		case "bytes":
			s = drawStr(rt, "bytes", allBytes, n)
		}
		cl := "arbitrary-" + kind
		if !supportedLen(len(s)) {
			cl += "-other-length"
		}
		run(rt, cl, supportedLen(len(s)), s, s, map[string]any{"kind": kind})
	})
}

// ---------------------------------------------------------------- known findings: probes and regressions

const (
	probeCompositeTD3 = "<<<<<<<<<<<<<<<<<<<<<<<<<<<<<<<<<<<<<<<<<<<<<<<<<<<<<<<<<<<<<<<<<<<<<<<<<<<<<<<<<<<<<<<<"
	// TD3, date of birth entirely unknown; the printed check digit 0 read as '<'
	// (both count 0 in the composite, which therefore stays right)
	probeKeySeedTD3 = "P<UTOERIKSSON<<ANNA<MARIA<<<<<<<<<<<<<<<<<<<L898902C36UTO<<<<<<<F1204159ZE184226B<<<<<10"
)

func TestKnownFindings(t *testing.T) {
	if evid.Shard() != 0 {
		return
	}
	for _, c := range []struct{ key, s, what string }{
		{kComposite, probeCompositeTD3, "MrzDecode accepts a zone whose composite check digit is '<' (all checked positions fillers), e.g. 88 x '<'; ICAO composite of that input is 0"},
		{kKeySeed, probeKeySeedTD3, "an empty key field with '<' as its check digit is accepted and the MRZ information from the full zone (NewPasswordMrz) then differs from MrzDecode+EncodeMrzi / NewPasswordMrzi"},
	} {
		if !evid.Open(prop, c.key) {
			continue
		}
		// look at the behaviour with the exclusion switched off
		if v := examineNoExclusion(c.s); v != nil {
			evid.ReportKnown(prop, c.key, c.what+": "+v.msg)
		}
	}
}

// examineNoExclusion is examine with the known-finding exclusions off.
func examineNoExclusion(s string) *violation {
	ignoreKnown = true
	defer func() { ignoreKnown = false }()
	v, _ := examine(s)
	return v
}

// TestRegressionSpecimens: the ICAO specimen zones and the zones of the
// findings, through the full oracle (plain, no rapid).
func TestRegressionSpecimens(t *testing.T) {
	if evid.Shard() != 0 {
		return
	}
	for _, s := range []string{
		"P<UTOERIKSSON<<ANNA<MARIA<<<<<<<<<<<<<<<<<<<L898902C36UTO7408122F1204159ZE184226B<<<<<10",
		"I<UTOD231458907<<<<<<<<<<<<<<<7408122F1204159UTO<<<<<<<<<<<6ERIKSSON<<ANNA<MARIA<<<<<<<<<<",
		"I<UTOERIKSSON<<ANNA<MARIA<<<<<<<<<<<D231458907UTO7408122F1204159<<<<<<<6",
		"I<UTOD23145890<7349<<<<<<<<<<<3407127M9507122UTO<<<<<<<<<<<2STEVENSON<<PETER<JOHN<<<<<<<<<",
		"I<UTOSTEVENSON<<PETER<JOHN<<<<<<<<<<D23145890<UTO3407127M95071227349<<<8",
		"P<D<<DOE<<JOHN<<<<<<<<<<<<<<<<<<<<<<<<<<<<<<D123456785UTO6508092M3505207<<<<<<<<<<<<<<<0",
		"P<D<<DOE<<JOHN<<<<<<<<<<<<<<<<<<<<<<<<<<<<<<D123456785UTO6508092M3505207<<<<<<<<<<<<<<00",
		probeCompositeTD3, probeKeySeedTD3,
		strings.Repeat("<", 90), strings.Repeat("<", 72),
	} {
		o := run(t, "regression", true, s, s, map[string]any{"kind": "regression"})
		if strings.HasPrefix(s, "P<UTOERIKSSON<<ANNA<MARIA<<<<<<<<<<<<<<<<<<<L898902C36UTO74") && !o.RefValid {
			evid.Infra(t, "reference rejects the 9303-4 specimen")
		}
	}
}

// TestReplayJSON re-executes a saved JSON repro (./verif replay C18 <file>).
func TestReplayJSON(t *testing.T) {
	path := os.Getenv("VERIF_REPLAY_JSON")
	if path == "" {
		return
	}
	b, err := os.ReadFile(path)
	if err != nil {
		t.Fatalf("read: %v", err)
	}
	var docu struct {
		Case struct {
			MrzHex string          `json:"mrz_hex"`
			Mrz    string          `json:"mrz"`
			Fields json.RawMessage `json:"fields"`
		} `json:"case"`
	}
	if err := json.Unmarshal(b, &docu); err != nil {
		t.Fatalf("parse: %v", err)
	}
	s := docu.Case.Mrz
	if docu.Case.MrzHex != "" {
		raw, err := hex.DecodeString(docu.Case.MrzHex)
		if err != nil {
			t.Fatalf("mrz_hex: %v", err)
		}
		s = string(raw)
	}
	if v := examineNoExclusion(s); v != nil {
		t.Fatalf("VIOLATION reproduced: %s: %s", v.check, v.msg)
	}
	if len(docu.Case.Fields) > 0 {
		var f refmrz.Fields
		if json.Unmarshal(docu.Case.Fields, &f) == nil && f.Layout != "" {
			if v := examineDoc(&doc{F: f, MRZ: s}); v != nil {
				t.Fatalf("VIOLATION reproduced: %s: %s", v.check, v.msg)
			}
		}
	}
}
