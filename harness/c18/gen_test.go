package c18

import (
	"math/bits"
	"strings"

	"pgregory.net/rapid"

	"verifharness/evid"
	refmrz "verifharness/ref/mrz"
)

// ---------------------------------------------------------------- generator of valid MRZs

var (
	symDigits  = []byte("0123456789")
	symLetters = []byte("ABCDEFGHIJKLMNOPQRSTUVWXYZ")
	symAlnum   = []byte("0123456789ABCDEFGHIJKLMNOPQRSTUVWXYZ")
	symAll     = []byte(refmrz.Alphabet)
)

// uni draws an integer uniformly from [0,n).  rapid's own integer and
// SampledFrom generators are deliberately biased towards small values
// (geometric bit length), which would concentrate mutation positions in the
// first line and symbols on the digits; single bits are unbiased.
func uni(rt *rapid.T, label string, n int) int {
	if n <= 1 {
		return 0
	}
	k := bits.Len(uint(n - 1))
	for {
		v := 0
		for _, b := range rapid.SliceOfN(rapid.Bool(), k, k).Draw(rt, label) {
			v <<= 1
			if b {
				v |= 1
			}
		}
		if v < n {
			return v
		}
	}
}

func uniRange(rt *rapid.T, label string, lo, hi int) int { return lo + uni(rt, label, hi-lo+1) }

func pick[T any](rt *rapid.T, label string, set []T) T { return set[uni(rt, label, len(set))] }

// drawStr draws n symbols uniformly from set (10 bits per symbol, modulo
// bias below 4 %).
func drawStr(rt *rapid.T, label string, set []byte, n int) string {
	if n <= 0 {
		return ""
	}
	bs := rapid.SliceOfN(rapid.Bool(), 10*n, 10*n).Draw(rt, label)
	out := make([]byte, n)
	for i := range out {
		v := 0
		for _, b := range bs[10*i : 10*i+10] {
			v <<= 1
			if b {
				v |= 1
			}
		}
		out[i] = set[v%len(set)]
	}
	return string(out)
}

// weighted picks an index with the given integer weights.
func weighted(rt *rapid.T, label string, w ...int) int {
	tot := 0
	for _, x := range w {
		tot += x
	}
	v := uni(rt, label, tot)
	for i, x := range w {
		if v < x {
			return i
		}
		v -= x
	}
	return len(w) - 1
}

// doc is one generated valid document with the labels of the features the
// generator chose (for the measured distribution).
type doc struct {
	F     refmrz.Fields
	MRZ   string
	Feats []string
}

func (d *doc) feat(s string) { d.Feats = append(d.Feats, s) }

func genName(rt *rapid.T, d *doc, capacity int) (string, string) {
	comp := func(label string, maxLen int) string {
		return drawStr(rt, label, symLetters, uniRange(rt, label+"-len", 1, maxLen))
	}
	long := weighted(rt, "name-long", 4, 1) == 1 // provoke names that fill / overflow the field
	maxLen := 8
	if long {
		maxLen = 14
	}
	np := 1 + weighted(rt, "name-primary-parts", 6, 3, 1)
	ns := weighted(rt, "name-secondary-parts", 2, 5, 3, 1)
	var prim, sec []string
	for i := 0; i < np; i++ {
		prim = append(prim, comp("name-p", maxLen))
	}
	for i := 0; i < ns; i++ {
		sec = append(sec, comp("name-s", maxLen))
	}
	name := strings.Join(prim, "<")
	if ns > 0 {
		name += "<<" + strings.Join(sec, "<")
	}
	if len(name) > capacity {
		// truncation: what fits, without a dangling separator
		name = strings.TrimRight(name[:capacity], "<")
		d.feat("name-truncated")
	}
	if len(name) == capacity {
		d.feat("name-fills-field")
	}
	p, s := name, ""
	if i := strings.Index(name, "<<"); i >= 0 {
		p, s = name[:i], name[i+2:]
	}
	if s == "" {
		d.feat("name-no-secondary")
	}
	return p, s
}

// withSeparator puts a filler at an interior position (never first or last).
func withSeparator(rt *rapid.T, label, s string) string {
	if len(s) < 3 {
		return s
	}
	i := uniRange(rt, label, 1, len(s)-2)
	return s[:i] + "<" + s[i+1:]
}

func genOptional(rt *rapid.T, d *doc, label string, capacity int) string {
	if capacity <= 0 {
		return ""
	}
	var n int
	switch weighted(rt, label+"-kind", 35, 45, 20) {
	case 0:
		d.feat(label + "-empty")
		return ""
	case 1:
		n = uniRange(rt, label+"-len", 1, capacity)
	default:
		n = capacity
		d.feat(label + "-full")
	}
	var s string
	if weighted(rt, label+"-alphabet", 3, 1) == 0 {
		s = drawStr(rt, label, symAlnum, n)
		if weighted(rt, label+"-sep", 8, 2) == 1 {
			s = withSeparator(rt, label+"-sep-pos", s)
		}
	} else {
		// anything over the MRZ alphabet, fillers included
		s = strings.TrimRight(drawStr(rt, label, symAll, n), "<")
		d.feat(label + "-any-symbols")
	}
	if s == "" {
		d.feat(label + "-empty")
	}
	return s
}

func genDate(rt *rapid.T, label string) string {
	two := func(l string, lo, hi int) string {
		v := uniRange(rt, l, lo, hi)
		return string([]byte{byte('0' + v/10), byte('0' + v%10)})
	}
	return two(label+"-yy", 0, 99) + two(label+"-mm", 1, 12) + two(label+"-dd", 1, 31)
}

// genDoc draws the logical content of a valid MRZ of a random layout and
// builds it with the reference model.
func genDoc(rt *rapid.T) *doc {
	d := &doc{}
	f := &d.F
	f.Layout = pick(rt, "layout", []string{"TD1", "TD2", "TD3"})

	// document code
	if f.Layout == "TD3" {
		f.DocCode = "P"
	} else {
		f.DocCode = string(pick(rt, "doccode-1", []byte("IAC")))
	}
	if weighted(rt, "doccode-2", 1, 1) == 1 {
		f.DocCode += drawStr(rt, "doccode-2c", symLetters, 1)
	}
	f.Issuer = drawStr(rt, "issuer", symLetters, 1+weighted(rt, "issuer-len", 1, 1, 8))
	f.Nationality = drawStr(rt, "nationality", symLetters, 1+weighted(rt, "nationality-len", 1, 1, 8))
	f.Surname, f.Given = genName(rt, d, refmrz.NameCapacity(f.Layout))

	// document number
	maxNo := refmrz.MaxDocNo(f.Layout)
	kind := weighted(rt, "docno-kind", 30, 30, 40)
	if maxNo == 9 && kind == 2 {
		kind = weighted(rt, "docno-kind-td3", 1, 1)
	}
	var n int
	switch kind {
	case 0:
		n = uniRange(rt, "docno-len", 1, 8)
		d.feat("docno-short")
	case 1:
		n = 9
		d.feat("docno-9")
	default:
		n = uniRange(rt, "docno-len", 10, maxNo)
		if n == maxNo {
			d.feat("docno-extended-max")
		}
		if n == 10 {
			d.feat("docno-extended-min")
		}
		d.feat("docno-extended")
	}
	f.DocNo = drawStr(rt, "docno", symAlnum, n)
	if weighted(rt, "docno-sep", 85, 15) == 1 && n >= 3 {
		// a separator of the printed number: inside the first 9 characters,
		// never the first and never the last character of the number
		hi := n - 2
		if n > 9 {
			hi = 8
		}
		i := uniRange(rt, "docno-sep-pos", 1, hi)
		f.DocNo = f.DocNo[:i] + "<" + f.DocNo[i+1:]
		d.feat("docno-separator")
	}

	// dates
	f.DOB = genDate(rt, "dob")
	switch weighted(rt, "dob-unknown", 68, 10, 8, 7, 7) {
	case 1:
		f.DOB = f.DOB[:4] + "<<"
		d.feat("dob-unknown-part")
	case 2:
		f.DOB = f.DOB[:2] + "<<<<"
		d.feat("dob-unknown-part")
	case 3:
		f.DOB = "<<<<<<"
		d.feat("dob-unknown-all")
	case 4:
		b := []byte(f.DOB)
		for i := 0; i < 3; i++ {
			if rapid.Bool().Draw(rt, "dob-unknown-pair") {
				b[2*i], b[2*i+1] = '<', '<'
			}
		}
		f.DOB = string(b)
		if strings.Contains(f.DOB, "<") {
			d.feat("dob-unknown-part")
		}
	}
	f.Expiry = genDate(rt, "expiry")
	f.Sex = pick(rt, "sex", []string{"M", "F", "<"})

	// optional data
	c1, c2 := refmrz.OptCapacity(f.Layout)
	if len(f.DocNo) > 9 {
		c1 -= len(f.DocNo) - 9 + 2
	}
	f.Opt1 = genOptional(rt, d, "opt1", c1)
	if c2 > 0 {
		f.Opt2 = genOptional(rt, d, "opt2", c2)
	}
	if f.Layout == "TD3" && f.Opt1 == "" {
		if rapid.Bool().Draw(rt, "opt-cd-zero") {
			f.OptCheckZeroOrFiller = '0'
			d.feat("td3-opt-empty-cd-zero")
		} else {
			f.OptCheckZeroOrFiller = '<'
			d.feat("td3-opt-empty-cd-filler")
		}
	}
	m, err := refmrz.Build(*f)
	if err != nil {
		evid.Infra(rt, "generator produced unbuildable fields %+v: %v", *f, err)
	}
	d.MRZ = m
	return d
}

// ---------------------------------------------------------------- mutations

type mutation struct {
	Kind string `json:"kind"`
	Pos  int    `json:"pos"`
	Sym  string `json:"sym,omitempty"`
	Pos2 int    `json:"pos2,omitempty"`
}

func substitute(s string, pos int, c byte) string {
	b := []byte(s)
	b[pos] = c
	return string(b)
}

func transpose(s string, pos int) string {
	b := []byte(s)
	b[pos], b[pos+1] = b[pos+1], b[pos]
	return string(b)
}

func deleteAt(s string, pos, n int) string { return s[:pos] + s[pos+n:] }
func insertAt(s string, pos int, ins string) string {
	return s[:pos] + ins + s[pos:]
}

// recompute rewrites check digits of a (possibly altered) zone from the
// reference model: the field check digits when fields is set, the composite
// when composite is set.  Only used to BUILD inputs.
func recompute(s string, fields, composite bool) string {
	p, _ := refmrz.Validate(s)
	if p == nil {
		return s
	}
	b := []byte(s)
	pos := cdPositions[p.Layout]
	if fields {
		if p.Extended {
			// check digit lives in optional data: right after the continuation
			off := pos.opt1 + len(p.DocNo) - 9
			b[off] = refmrz.CheckDigit(p.DocNo)
		} else if b[pos.docNo] != '<' || p.Layout == "TD3" {
			b[pos.docNo] = refmrz.CheckDigit(p.DocNo)
		}
		b[pos.dob] = refmrz.CheckDigit(p.DOB)
		b[pos.expiry] = refmrz.CheckDigit(p.Expiry)
		if pos.opt >= 0 && !refmrz.Empty(p.Opt1) {
			b[pos.opt] = refmrz.CheckDigit(p.Opt1)
		}
	}
	if composite {
		p2, _ := refmrz.Validate(string(b))
		b[pos.composite] = refmrz.CheckDigit(p2.CompositeData)
	}
	return string(b)
}

type cdPos struct{ docNo, dob, expiry, opt, composite, opt1 int }

// positions of the check digits (0-based), found by probing the reference
// model's FieldAt so that nothing is typed in twice.
var cdPositions = func() map[string]cdPos {
	out := map[string]cdPos{}
	for _, l := range []string{"TD1", "TD2", "TD3"} {
		p := cdPos{opt: -1, opt1: -1}
		for i := 0; i < refmrz.Length(l); i++ {
			switch refmrz.FieldAt(l, i) {
			case "docno-cd":
				p.docNo = i
			case "dob-cd":
				p.dob = i
			case "expiry-cd":
				p.expiry = i
			case "opt-cd":
				p.opt = i
			case "composite-cd":
				p.composite = i
			case "opt1":
				if p.opt1 < 0 {
					p.opt1 = i
				}
			}
		}
		out[l] = p
	}
	return out
}()

// fieldSpan returns the 0-based [lo,hi) range of a named field.
func fieldSpan(layout, field string) (int, int) {
	lo, hi := -1, -1
	for i := 0; i < refmrz.Length(layout); i++ {
		if refmrz.FieldAt(layout, i) == field {
			if lo < 0 {
				lo = i
			}
			hi = i + 1
		}
	}
	return lo, hi
}

// sameValueSymbols are the symbols with the same check digit value modulo 10
// as c (a substitution among them cannot be detected by any check digit).
func sameValueSymbols(c byte) []byte {
	val := func(x byte) int {
		switch {
		case x >= '0' && x <= '9':
			return int(x - '0')
		case x >= 'A' && x <= 'Z':
			return int(x-'A') + 10
		}
		return 0
	}
	var out []byte
	for _, x := range symAll {
		if x != c && val(x)%10 == val(c)%10 {
			out = append(out, x)
		}
	}
	return out
}
