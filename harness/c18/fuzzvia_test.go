package c18

// Coverage-guided variants of this package's rapid properties (thorough tier): the
// native fuzzer mutates rapid's bit stream with coverage feedback (evid.FuzzVia).

import (
	"testing"

	"verifharness/evid"
)

func FuzzValidDocuments(f *testing.F)    { evid.FuzzVia(f, TestValidDocuments) }
func FuzzTargetedMutations(f *testing.F) { evid.FuzzVia(f, TestTargetedMutations) }
func FuzzArbitraryStrings(f *testing.F)  { evid.FuzzVia(f, TestArbitraryStrings) }
