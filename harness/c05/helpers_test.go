package c05

import "verifharness/detrand"

func newStream(seed []byte) func(int) []byte { return detrand.New(seed).Bytes }

func installSeed(seed []byte) func() { return detrand.Install(seed) }
