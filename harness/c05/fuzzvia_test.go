package c05

// Coverage-guided variants of this package's rapid properties (thorough tier): the
// native fuzzer mutates rapid's bit stream with coverage feedback (evid.FuzzVia).

import (
	"testing"

	"verifharness/evid"
)

func FuzzBACInterop(f *testing.F)          { evid.FuzzVia(f, TestBACInterop) }
func FuzzBACHostileResponses(f *testing.F) { evid.FuzzVia(f, TestBACHostileResponses) }
