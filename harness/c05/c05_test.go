// C05 — BAC derives the ICAO keys and authenticates mutually.
//
// The library's BAC runs against the independent chip simulator personalised
// with the reference MRZ information (ref/mrz + ref/mac).  Key equality is
// decided on the wire: the chip authenticates EXTERNAL AUTHENTICATE only if the
// library derived K_enc/K_mac as ICAO 9303-11 defines them.
package c05

import (
	"bytes"
	"crypto/sha1"
	"encoding/hex"
	"fmt"
	"strings"
	"testing"

	"github.com/gmrtd/gmrtd/bac"
	"github.com/gmrtd/gmrtd/document"
	"github.com/gmrtd/gmrtd/iso7816"
	"github.com/gmrtd/gmrtd/password"
	"pgregory.net/rapid"

	"verifharness/chipsim"
	"verifharness/chiptest"
	"verifharness/evid"
	"verifharness/ref/der"
	"verifharness/ref/mac"
)

const prop = "C05"

func TestMain(m *testing.M) { evid.Main(m, prop) }

func TestSelfTest(t *testing.T) {
	if err := mac.SelfTest(); err != nil {
		evid.Infra(t, "ref/mac self test: %v", err)
	}
	// ICAO 9303-11 appendix D.2 key derivation
	kenc, kmac := chipsim.BACKeys("L898902C<369080619406236")
	if hex.EncodeToString(kenc) != "ab94fdecf2674fdfb9b391f85d7f76f2" || hex.EncodeToString(kmac) != "7962d9ece03d1acd4c76089dce131543" {
		evid.Infra(t, "BAC key derivation KAT failed: %x %x", kenc, kmac)
	}
}

type pwKind int

const (
	pwFull          pwKind = iota // password.NewPasswordMrz(full MRZ)
	pwFields                      // password.NewPasswordMrzi(doc, dob, exp)
	pwDecodedFields               // the same with the document number in decoded form (fillers as blanks, trailing ones removed)
)

func makePassword(m chiptest.MRZCase, k pwKind) (*password.Password, error) {
	if k == pwFull {
		return password.NewPasswordMrz(m.Full)
	}
	if k == pwDecodedFields {
		// the key fields as a caller holding DECODED values has them: fillers shown as blanks
		return password.NewPasswordMrzi(strings.ReplaceAll(strings.TrimRight(m.DocNo, "<"), "<", " "), m.DOB, m.Expiry)
	}
	return password.NewPasswordMrzi(m.DocNo, m.DOB, m.Expiry)
}

func dg1File(mrz string) []byte { return der.TLV(0x61, der.TLV(0x5F1F, []byte(mrz))) }

// lastChip is the chip of the run in progress (the deviation hook runs inside it).
var lastChip *chipsim.Chip

type session struct {
	chip *chipsim.Chip
	nfc  *iso7816.NfcSession
	res  *document.BacResult
	err  error
}

// runBAC runs DoBAC of the library against a fresh chip.
func runBAC(m chiptest.MRZCase, pass *password.Password, chipMRZInfo string, chipRand func(int) []byte, deviate func(string, []byte) []byte) *session {
	cfg := chipsim.Config{
		MRZInfo: chipMRZInfo, BAC: true,
		DF:      map[uint16][]byte{0x0101: dg1File(m.Full)},
		MF:      map[uint16][]byte{},
		Rand:    chipRand,
		Deviate: deviate,
	}
	chip := chipsim.New(cfg)
	lastChip = chip
	nfc := iso7816.NewNfcSession(chip)
	var doc document.Document
	res, err := bac.NewBAC(nfc, &doc, pass).DoBAC()
	return &session{chip, nfc, res, err}
}

// checkEstablished verifies the success obligations of the property.
func checkEstablished(s *session, m chiptest.MRZCase) string {
	if s.err != nil {
		return fmt.Sprintf("DoBAC failed against a conforming chip: %v", s.err)
	}
	if s.res == nil || !s.res.Success {
		return "DoBAC returned no successful result against a conforming chip"
	}
	if !s.chip.Done.BAC || s.chip.SM == nil {
		return "chip did not complete BAC although the library reports success"
	}
	lsm := s.nfc.SM()
	if lsm == nil {
		return "no secure messaging session installed after successful BAC"
	}
	if !bytes.Equal(lsm.KsEnc(), s.chip.SM.KEnc) {
		return fmt.Sprintf("KS_enc differs: library %x chip %x", lsm.KsEnc(), s.chip.SM.KEnc)
	}
	if !bytes.Equal(lsm.SSC(), s.chip.SM.SSC) {
		return fmt.Sprintf("SSC differs: library %x chip %x", lsm.SSC(), s.chip.SM.SSC)
	}
	// first protected exchanges authenticate on both sides (proves KS_mac too)
	if ok, err := s.nfc.SelectAid(chipsim.AidMRTD); err != nil || !ok {
		return fmt.Sprintf("protected SELECT AID after BAC failed: ok=%v err=%v", ok, err)
	}
	data, err := s.nfc.ReadFile(0x0101)
	if err != nil {
		return fmt.Sprintf("protected read of DG1 after BAC failed: %v", err)
	}
	if !bytes.Equal(data, dg1File(m.Full)) {
		return "DG1 read under the BAC session differs from the chip's file"
	}
	if s.chip.SMFailures != 0 || s.chip.SM == nil {
		return "chip could not authenticate a protected command after BAC"
	}
	if !bytes.Equal(s.nfc.SM().SSC(), s.chip.SM.SSC) {
		return "SSC out of step after protected exchanges"
	}
	for _, ex := range s.chip.Transcript[2:] {
		if !ex.Protected {
			return "a command after BAC left unprotected"
		}
	}
	return ""
}

func checkRefused(s *session) string {
	if s.err == nil {
		return "DoBAC returned no error"
	}
	if s.res != nil && s.res.Success {
		return "BacResult.Success is true"
	}
	if s.nfc.SM() != nil {
		return "a secure messaging session was installed"
	}
	return ""
}

// TestBACInterop: every MRZ, every random value => success with equal keys/SSC.
func TestBACInterop(t *testing.T) {
	evid.RapidCheck(t, 40000, 600000, func(rt *rapid.T) {
		m := chiptest.DrawMRZ(rt)
		kind := pwKind(rapid.IntRange(0, 2).Draw(rt, "pwkind"))
		chipRand := chiptest.DrawRand(rt, "chiprand")
		restore := chiptest.InstallLibRand(rt, "librand")
		defer restore()
		pass, err := makePassword(m, kind)
		repro := map[string]any{"mrz": m.Full, "docNo": m.DocNo, "dob": m.DOB, "expiry": m.Expiry, "pwkind": int(kind), "refInfo": m.Info}
		if err != nil {
			evid.Fail(rt, "interop-password", repro, "library rejects a valid MRZ / key fields: %v", err)
		}
		cls := fmt.Sprintf("interop-%s-doc%s", m.Fields.Layout, docClass(m.DocNo))
		evid.Case(cls, true, m.Info+fmt.Sprint(kind), repro)
		if len(m.DocNo) > 9 && m.Fields.Opt1 != "" {
			evid.Count("interop-extended-docno-plus-optional-data", 1)
		}
		// the password object outlives the session: what it yields as key material must be the ICAO
		// value before AND after it was used for an authentication
		wantKey := sha1.Sum([]byte(m.Info))
		if k, kerr := pass.Key(); kerr != nil || !bytes.Equal(k, wantKey[:]) {
			evid.Fail(rt, "interop-key", repro, "Password.Key() = %x (err %v), ICAO 9303-11 K = SHA-1(MRZ information) = %x", k, kerr, wantKey)
		}
		s := runBAC(m, pass, m.Info, chipRand, nil)
		if msg := checkEstablished(s, m); msg != "" {
			repro["libPassword"] = pass.Password
			evid.Fail(rt, "interop", repro, "%s", msg)
		}
		if k, kerr := pass.Key(); kerr != nil || !bytes.Equal(k, wantKey[:]) {
			evid.Fail(rt, "interop-key", repro, "after a BAC run with this password object Password.Key() = %x (err %v), ICAO K = %x", k, kerr, wantKey)
		}
	})
}

func docClass(d string) string {
	switch {
	case len(d) > 9:
		return "ext"
	case len(d) < 9:
		return "short"
	}
	return "9"
}

// hostile response strategies ------------------------------------------------

type strategy struct {
	name string
	// build receives the genuine 40-byte cryptogram and the context
	build func(rt *rapid.T, g []byte, ctx *hostileCtx) []byte
}

type hostileCtx struct {
	kenc, kmac []byte // the MRZ keys (known to the test, as personaliser)
	otherKenc  []byte
	otherKmac  []byte
	replay     []byte        // genuine response of another run (other RND.IFD)
	termReq    func() []byte // the terminal's own EXTERNAL AUTHENTICATE cryptogram of this run
}

func reseal(kenc, kmac, plain []byte) []byte {
	e := mac.TDESCBCEncrypt(kenc, make([]byte, 8), plain)
	return append(e, mac.RetailMAC(kmac, mac.PadM2(e, 8))...)
}

func open(kenc []byte, g []byte) []byte { return mac.TDESCBCDecrypt(kenc, make([]byte, 8), g[:32]) }

var strategies = []strategy{
	{"bitflip", func(rt *rapid.T, g []byte, _ *hostileCtx) []byte {
		i := rapid.IntRange(0, 319).Draw(rt, "bit")
		o := append([]byte{}, g...)
		o[i/8] ^= 1 << (i % 8)
		return o
	}},
	{"byte-subst", func(rt *rapid.T, g []byte, _ *hostileCtx) []byte {
		i := rapid.IntRange(0, 39).Draw(rt, "pos")
		d := rapid.IntRange(1, 255).Draw(rt, "delta")
		o := append([]byte{}, g...)
		o[i] ^= byte(d)
		return o
	}},
	{"other-mrz-keys", func(rt *rapid.T, g []byte, c *hostileCtx) []byte {
		// a chip personalised with another MRZ: correct echo, wrong keys
		return reseal(c.otherKenc, c.otherKmac, open(c.kenc, g))
	}},
	{"mac-under-other-key", func(rt *rapid.T, g []byte, c *hostileCtx) []byte {
		return append(append([]byte{}, g[:32]...), mac.RetailMAC(c.otherKmac, mac.PadM2(g[:32], 8))...)
	}},
	{"replay-other-run", func(rt *rapid.T, g []byte, c *hostileCtx) []byte { return c.replay }},
	{"wrong-rnd-ifd-authentic", func(rt *rapid.T, g []byte, c *hostileCtx) []byte {
		p := open(c.kenc, g)
		p[8+rapid.IntRange(0, 7).Draw(rt, "i")] ^= byte(rapid.IntRange(1, 255).Draw(rt, "d"))
		return reseal(c.kenc, c.kmac, p)
	}},
	{"wrong-rnd-ic-authentic", func(rt *rapid.T, g []byte, c *hostileCtx) []byte {
		p := open(c.kenc, g)
		p[rapid.IntRange(0, 7).Draw(rt, "i")] ^= byte(rapid.IntRange(1, 255).Draw(rt, "d"))
		return reseal(c.kenc, c.kmac, p)
	}},
	{"swapped-rnd-halves-authentic", func(rt *rapid.T, g []byte, c *hostileCtx) []byte {
		p := open(c.kenc, g)
		q := append(append(append([]byte{}, p[8:16]...), p[0:8]...), p[16:]...)
		if bytes.Equal(q, p) {
			q[0] ^= 1
		}
		return reseal(c.kenc, c.kmac, q)
	}},
	{"short-32", func(rt *rapid.T, g []byte, c *hostileCtx) []byte {
		p := open(c.kenc, g)[:24]
		return reseal(c.kenc, c.kmac, p)
	}},
	{"long-48", func(rt *rapid.T, g []byte, c *hostileCtx) []byte {
		p := append(open(c.kenc, g), make([]byte, 8)...)
		return reseal(c.kenc, c.kmac, p)
	}},
	{"random-40", func(rt *rapid.T, g []byte, _ *hostileCtx) []byte {
		o := rapid.SliceOfN(rapid.Byte(), 40, 40).Draw(rt, "rnd")
		if bytes.Equal(o, g) {
			o[0] ^= 1
		}
		return o
	}},
	{"reflect-terminal-cryptogram", func(rt *rapid.T, g []byte, c *hostileCtx) []byte {
		// a chip that does not know the MRZ sends the terminal's own 40 bytes back
		return append([]byte{}, c.termReq()...)
	}},
	{"reflect-terminal-plaintext-resealed", func(rt *rapid.T, g []byte, c *hostileCtx) []byte {
		// RND.IFD || RND.IC || K.IFD (the terminal's order) under the genuine keys
		return reseal(c.kenc, c.kmac, open(c.kenc, c.termReq()))
	}},
	{"zero-mac", func(rt *rapid.T, g []byte, _ *hostileCtx) []byte {
		return append(append([]byte{}, g[:32]...), make([]byte, 8)...)
	}},
}

func TestBACHostileResponses(t *testing.T) {
	evid.RapidCheck(t, 60000, 600000, func(rt *rapid.T) {
		m := chiptest.DrawMRZ(rt)
		other := chiptest.DrawMRZ(rt)
		if other.Info == m.Info {
			rt.Skip("same MRZ drawn twice")
		}
		st := strategies[rapid.IntRange(0, len(strategies)-1).Draw(rt, "strategy")]
		chipSeed := rapid.SliceOfN(rapid.Byte(), 16, 16).Draw(rt, "chipseed")
		restore := chiptest.InstallLibRand(rt, "librand")
		defer restore()
		pass, err := password.NewPasswordMrzi(m.DocNo, m.DOB, m.Expiry)
		if err != nil {
			evid.Fail(rt, "hostile-password", map[string]any{"mrz": m.Full}, "library rejects valid key fields: %v", err)
		}
		ctx := &hostileCtx{}
		ctx.kenc, ctx.kmac = chipsim.BACKeys(m.Info)
		ctx.otherKenc, ctx.otherKmac = chipsim.BACKeys(other.Info)
		// a genuine response from another run (different terminal randomness)
		{
			r2 := chiptest.InstallLibRand(rt, "librand-replay")
			var captured []byte
			runBAC(m, pass, m.Info, seeded(chipSeed), func(step string, v []byte) []byte {
				if step == "bac-response" {
					captured = append([]byte{}, v...)
				}
				return v
			})
			r2()
			ctx.replay = captured
		}
		var genuine, sent []byte
		var hs *session
		ctx.termReq = func() []byte { return lastChip.BACTerminalCryptogram() }
		hs = runBAC(m, pass, m.Info, seeded(chipSeed), func(step string, v []byte) []byte {
			if step != "bac-response" {
				return v
			}
			genuine = append([]byte{}, v...)
			sent = st.build(rt, v, ctx)
			return sent
		})
		s := hs
		if genuine == nil {
			evid.Fail(rt, "hostile-setup", map[string]any{"mrz": m.Full}, "chip refused EXTERNAL AUTHENTICATE of the library (keys differ?): %v", s.err)
		}
		if bytes.Equal(sent, genuine) {
			rt.Skip("strategy produced the genuine response")
		}
		repro := map[string]any{"mrz": m.Full, "refInfo": m.Info, "strategy": st.name, "genuine": hex.EncodeToString(genuine), "sent": hex.EncodeToString(sent)}
		evid.Case("hostile-"+st.name, true, st.name+hex.EncodeToString(sent), repro)
		if msg := checkRefused(s); msg != "" {
			evid.Fail(rt, "hostile-"+st.name, repro, "hostile response (%s) not refused: %s", st.name, msg)
		}
	})
}

func seeded(seed []byte) func(int) []byte {
	// fresh deterministic stream per run so that two runs with the same seed
	// give the chip the same RND.IC / K.IC
	return newStream(seed)
}

// TestBACAllBitFlips enumerates all 320 single-bit mutations of the genuine
// cryptogram for sampled sessions.
func TestBACAllBitFlips(t *testing.T) {
	evid.RapidCheck(t, 64, 1600, func(rt *rapid.T) {
		m := chiptest.DrawMRZ(rt)
		chipSeed := rapid.SliceOfN(rapid.Byte(), 16, 16).Draw(rt, "chipseed")
		libSeed := rapid.SliceOfN(rapid.Byte(), 16, 16).Draw(rt, "libseed")
		pass, err := password.NewPasswordMrzi(m.DocNo, m.DOB, m.Expiry)
		if err != nil {
			evid.Fail(rt, "bitflips-password", map[string]any{"mrz": m.Full}, "library rejects valid key fields: %v", err)
		}
		for bit := 0; bit < 320; bit++ {
			restore := installSeed(libSeed)
			var genuine, sent []byte
			s := runBAC(m, pass, m.Info, seeded(chipSeed), func(step string, v []byte) []byte {
				if step != "bac-response" {
					return v
				}
				genuine = append([]byte{}, v...)
				sent = append([]byte{}, v...)
				sent[bit/8] ^= 1 << (bit % 8)
				return sent
			})
			restore()
			repro := map[string]any{"mrz": m.Full, "bit": bit, "genuine": hex.EncodeToString(genuine), "sent": hex.EncodeToString(sent)}
			evid.Case("bitflip-enumerated", true, fmt.Sprintf("%s/%d/%x", m.Info, bit, genuine), nil)
			if genuine == nil {
				evid.Fail(rt, "bitflips-setup", repro, "chip refused the library's EXTERNAL AUTHENTICATE: %v", s.err)
			}
			if msg := checkRefused(s); msg != "" {
				evid.Fail(rt, "bitflips", repro, "cryptogram with bit %d flipped not refused: %s", bit, msg)
			}
		}
	})
}

// TestWrongPassword: the library holds another MRZ than the chip => failure, no SM.
func TestBACWrongPassword(t *testing.T) {
	evid.RapidCheck(t, 8000, 100000, func(rt *rapid.T) {
		m := chiptest.DrawMRZ(rt)
		other := chiptest.DrawMRZ(rt)
		if other.Info == m.Info {
			rt.Skip("same MRZ")
		}
		chipRand := chiptest.DrawRand(rt, "chiprand")
		restore := chiptest.InstallLibRand(rt, "librand")
		defer restore()
		pass, err := password.NewPasswordMrzi(other.DocNo, other.DOB, other.Expiry)
		if err != nil {
			rt.Skip("password rejected")
		}
		s := runBAC(m, pass, m.Info, chipRand, nil)
		repro := map[string]any{"chipMrzInfo": m.Info, "libMrzInfo": other.Info}
		evid.Case("wrong-password", true, m.Info+"|"+other.Info, repro)
		if s.chip.Done.BAC {
			evid.Infra(rt, "chip accepted a terminal holding another MRZ (%v)", repro)
		}
		if msg := checkRefused(s); msg != "" {
			evid.Fail(rt, "wrong-password", repro, "%s", msg)
		}
	})
}

// TestBACReauthentication: the same BAC object authenticates more than once (a session is lost,
// the reader re-authenticates).  Every run is a fresh mutual authentication under the MRZ keys:
// run 2 against the genuine chip must succeed with new session keys, and a counterpart that
// knows only the SESSION keys of run 1 (not the MRZ) must be refused in run 2.
func TestBACReauthentication(t *testing.T) {
	evid.RapidCheck(t, 1600, 40000, func(rt *rapid.T) {
		m := chiptest.DrawMRZ(rt)
		kind := pwKind(rapid.IntRange(0, 2).Draw(rt, "pwkind"))
		chipRand := chiptest.DrawRand(rt, "chiprand")
		restore := chiptest.InstallLibRand(rt, "librand")
		defer restore()
		hostileSecond := rapid.Bool().Draw(rt, "second-run-impostor")
		replaySecond := !hostileSecond && rapid.IntRange(0, 2).Draw(rt, "second-run-replay") == 0
		pass, err := makePassword(m, kind)
		repro := map[string]any{"mrz": m.Full, "pwkind": int(kind), "refInfo": m.Info, "secondRunImpostor": hostileSecond}
		if err != nil {
			evid.Fail(rt, "reauth-password", repro, "library rejects a valid MRZ / key fields: %v", err)
		}
		cfg := chipsim.Config{MRZInfo: m.Info, BAC: true, DF: map[uint16][]byte{0x0101: dg1File(m.Full)}, MF: map[uint16][]byte{}, Rand: chipRand}
		chip := chipsim.New(cfg)
		lk := &swapLink{t: chip}
		nfc := iso7816.NewNfcSession(lk)
		var doc document.Document
		b := bac.NewBAC(nfc, &doc, pass)
		res, err := b.DoBAC()
		s1 := &session{chip, nfc, res, err}
		if msg := checkEstablished(s1, m); msg != "" {
			evid.Fail(rt, "reauth-first", repro, "first run: %s", msg)
		}
		ks1enc, ks1mac := bytes.Clone(chip.SM.KEnc), bytes.Clone(chip.SM.KMac)
		// the session is lost; the reader authenticates again with the same object
		nfc.SetSecureMessaging(nil)
		if hostileSecond {
			icfg := cfg
			icfg.BACKeyEnc, icfg.BACKeyMac = ks1enc, ks1mac
			imp := chipsim.New(icfg)
			lk.t = imp
			res2, err2 := b.DoBAC()
			evid.Case("reauth-impostor-with-previous-session-keys", true, m.Info, repro)
			if msg := checkRefused(&session{imp, nfc, res2, err2}); msg != "" {
				evid.Fail(rt, "reauth-impostor", repro, "second run against a counterpart holding only the session keys of the first run: %s", msg)
			}
			return
		}
		if replaySecond {
			// a card emulator that recorded run 1 on the air replays the chip's two responses verbatim
			// (RND.IC and the EXTERNAL AUTHENTICATE response): fresh terminal randoms make that fail
			var rec [][]byte
			for _, ex := range chip.Transcript {
				if ex.INS == 0x84 || ex.INS == 0x82 {
					rec = append(rec, bytes.Clone(ex.Rsp))
				}
			}
			if len(rec) < 2 {
				evid.Infra(rt, "run 1 transcript holds %d BAC responses", len(rec))
			}
			rp := &replayer{rsp: rec[:2]}
			lk.t = rp
			res2, err2 := b.DoBAC()
			evid.Case("reauth-replayed-first-run", true, m.Info, repro)
			if msg := checkRefused(&session{chip, nfc, res2, err2}); msg != "" {
				evid.Fail(rt, "reauth-replay", repro, "second run of the same BAC object against an emulator replaying the chip's responses of the first run: %s", msg)
			}
			return
		}
		chip2 := chipsim.New(cfg)
		lk.t = chip2
		res2, err2 := b.DoBAC()
		evid.Case("reauth-genuine", true, m.Info, repro)
		if msg := checkEstablished(&session{chip2, nfc, res2, err2}, m); msg != "" {
			evid.Fail(rt, "reauth-second", repro, "second run of the same BAC object against the genuine chip: %s", msg)
		}
		if bytes.Equal(chip2.SM.KEnc, ks1enc) {
			evid.Fail(rt, "reauth-second", repro, "the second run ended with the session key of the first")
		}
	})
}

// replayer answers GET CHALLENGE and EXTERNAL AUTHENTICATE with recorded responses.
type replayer struct {
	rsp [][]byte
	n   int
}

func (r *replayer) Transceive(cla, ins, p1, p2 int, data []byte, le int, encoded []byte) []byte {
	if (ins == 0x84 || ins == 0x82) && r.n < len(r.rsp) {
		r.n++
		return bytes.Clone(r.rsp[r.n-1])
	}
	return []byte{0x69, 0x82}
}

// TestBACCorrectedPassword: one password object is used for a first attempt with mistyped data
// (the chip refuses), its exported fields are corrected in place, and the retry - with the same
// object - must open the chip; conversely an object that opened the chip once must stop doing so
// when its data is replaced by another document's.
func TestBACCorrectedPassword(t *testing.T) {
	evid.RapidCheck(t, 1600, 40000, func(rt *rapid.T) {
		m := chiptest.DrawMRZ(rt)
		other := chiptest.DrawMRZ(rt)
		if other.Info == m.Info {
			rt.Skip("same MRZ information")
		}
		chipRand := chiptest.DrawRand(rt, "chiprand")
		restore := chiptest.InstallLibRand(rt, "librand")
		defer restore()
		wrongFirst := rapid.Bool().Draw(rt, "wrong-first")
		first, second := m, other
		if wrongFirst {
			first, second = other, m
		}
		pass, err := password.NewPasswordMrzi(first.DocNo, first.DOB, first.Expiry)
		if err != nil {
			evid.Fail(rt, "corrected-password", nil, "library rejects valid key fields: %v", err)
		}
		repro := map[string]any{"chipMRZInfo": m.Info, "firstAttempt": first.Info, "secondAttempt": second.Info}
		s1 := runBAC(m, pass, m.Info, chipRand, nil)
		// correct / replace the data in place (the fields are exported; the object is the caller's)
		pass.Password = second.Info
		s2 := runBAC(m, pass, m.Info, chipRand, nil)
		evid.Case(map[bool]string{true: "password-corrected-in-place", false: "password-replaced-in-place"}[wrongFirst], true, m.Info+other.Info, repro)
		if wrongFirst {
			if msg := checkRefused(s1); msg != "" {
				return // owned by TestBACWrongPassword
			}
			if msg := checkEstablished(s2, m); msg != "" {
				evid.Fail(rt, "corrected-password", repro, "after the password object's data was corrected in place: %s", msg)
			}
		} else {
			if msg := checkEstablished(s1, m); msg != "" {
				return
			}
			if msg := checkRefused(s2); msg != "" {
				evid.Fail(rt, "corrected-password", repro, "the password object now holds another document's data, yet: %s", msg)
			}
		}
	})
}

// swapLink lets a test exchange the counterpart behind an NfcSession.
type swapLink struct{ t iso7816.Transceiver }

func (l *swapLink) Transceive(cla, ins, p1, p2 int, data []byte, le int, encoded []byte) []byte {
	return l.t.Transceive(cla, ins, p1, p2, data, le, encoded)
}
