package c16

import (
	"pgregory.net/rapid"

	"verifharness/ref/ber"
	"verifharness/ref/der"
)

// ---------------------------------------------------------------- grammar

// spec is one element of a generated BER structure together with the way it is
// to be written (length form, end-of-contents oddities).
type spec struct {
	tag    []byte
	val    []byte  // primitive content
	kids   []*spec // constructed content
	form   int     // 0 minimal definite, 1 long form with pad extra zero octets, 2 indefinite
	pad    int
	over   bool // hostile: 5 subsequent length octets
	lenFF  bool // hostile: length octet FF
	eocIn  bool // L1: 00 00 appended to the content of a definite-length constructed value
	noEOC  bool // L2: indefinite length without its end-of-contents
	oddEOC bool // end-of-contents written 00 81 00
}

func (s *spec) cons() bool { return s.tag[0]&0x20 != 0 }

func lenOctets(n int) int {
	k := 1
	for n > 0xff {
		n >>= 8
		k++
	}
	return k
}

func (s *spec) enc(dst []byte) []byte {
	var content []byte
	if s.cons() {
		for _, k := range s.kids {
			content = k.enc(content)
		}
		if s.eocIn {
			content = append(content, 0, 0)
		}
	} else {
		content = s.val
	}
	switch {
	case s.lenFF:
		dst = append(dst, s.tag...)
		dst = append(dst, 0xff)
		return append(dst, content...)
	case s.form == 2:
		dst = append(dst, s.tag...)
		dst = append(dst, 0x80)
		dst = append(dst, content...)
		if !s.noEOC {
			if s.oddEOC {
				dst = append(dst, 0, 0x81, 0)
			} else {
				dst = append(dst, 0, 0)
			}
		}
		return dst
	case s.form == 1:
		need := lenOctets(len(content))
		pad := s.pad
		if s.over {
			pad = 5 - need
		} else if need+pad > 4 {
			pad = 4 - need
		}
		return append(dst, der.TLVLen(s.tag, content, der.LongNonMinimal(pad))...)
	}
	return append(dst, der.TLVLen(s.tag, content, der.Minimal)...)
}

// node converts the spec into the tree it denotes.
func (s *spec) node() *ber.Node {
	n := &ber.Node{TagBytes: s.tag, Constructed: s.cons()}
	for _, c := range s.tag {
		n.Tag = n.Tag<<8 | uint32(c)
	}
	if n.Constructed {
		for _, k := range s.kids {
			n.Children = append(n.Children, k.node())
		}
	} else {
		n.Value = s.val
	}
	return n
}

func encodeAll(ss []*spec) []byte {
	var out []byte
	for _, s := range ss {
		out = s.enc(out)
	}
	return out
}

func nodesOf(ss []*spec) []*ber.Node {
	var out []*ber.Node
	for _, s := range ss {
		out = append(out, s.node())
	}
	return out
}

// feat records which generator features were used, so that the harness knows
// what it may expect (self-check of reference and generator) and can label
// the case.
type feat struct {
	lenient bool // some L1..L4 / odd end-of-contents feature: not strict X.690
	hostile bool // deliberately outside BER or outside the implementation limits
	inexact bool // the denoted tree may differ from the spec tree (00 00 primitive, dropped EOC, ...)
}

type genCfg struct {
	maxDepth int
	maxKids  int
	forms    bool // false: canonical lengths only
	lenient  bool
	hostile  bool
}

func dr(rt *rapid.T, label string, n int) int { return rapid.IntRange(0, n-1).Draw(rt, label) }

var commonCons = [][]byte{{0x30}, {0x31}, {0xA0}, {0xA1}, {0xA3}, {0x61}, {0x6E}, {0x7F, 0x61}, {0x7F, 0x60}, {0x7F, 0x2E}, {0x7C}, {0x7F, 0x49}}
var commonPrim = [][]byte{{0x04}, {0x02}, {0x06}, {0x05}, {0x0C}, {0x13}, {0x80}, {0x81}, {0x5F, 0x1F}, {0x5F, 0x2E}, {0x5C}, {0x87}, {0x8E}, {0x99}, {0x01}, {0x03}}

func genTag(rt *rapid.T, cons bool, cfg genCfg, f *feat) []byte {
	first := byte(dr(rt, "class", 4)) << 6
	if cons {
		first |= 0x20
	}
	k := dr(rt, "tagkind", 16)
	if cfg.hostile && dr(rt, "tag5", 12) == 0 {
		f.hostile = true
		return []byte{first | 0x1f, 0x81, 0x80 | byte(dr(rt, "t2", 128)), 0x80, byte(dr(rt, "t4", 128))}
	}
	if k >= 12 && !cfg.lenient {
		k -= 12
	}
	switch k {
	case 0, 1, 2, 3, 4:
		return []byte{first | byte(1+dr(rt, "num", 30))}
	case 5, 6, 7:
		if cons {
			return commonCons[dr(rt, "common", len(commonCons))]
		}
		return commonPrim[dr(rt, "common", len(commonPrim))]
	case 8, 9:
		return []byte{first | 0x1f, byte(0x1f + dr(rt, "t2", 0x80-0x1f))}
	case 10:
		return []byte{first | 0x1f, 0x81 + byte(dr(rt, "t2", 0x7f)), byte(dr(rt, "t3", 128))}
	case 11:
		return []byte{first | 0x1f, 0x81 + byte(dr(rt, "t2", 0x7f)), 0x80 | byte(dr(rt, "t3", 128)), byte(dr(rt, "t4", 128))}
	case 12: // identifier octet 00 (or 20 when constructed: universal 0, constructed)
		f.lenient = true
		if cons {
			return []byte{0x20}
		}
		return []byte{0x00}
	case 13: // number < 31 in the high-tag-number form (incl. 1F 00)
		f.lenient = true
		return []byte{first | 0x1f, byte(dr(rt, "t2", 0x1f))}
	case 14: // padded: 1F 80 xx
		f.lenient = true
		return []byte{first | 0x1f, 0x80, byte(dr(rt, "t3", 128))}
	default: // padded, 4 octets
		f.lenient = true
		return []byte{first | 0x1f, 0x80, 0x80 | byte(dr(rt, "t3", 128)), byte(dr(rt, "t4", 128))}
	}
}

func patternFill(n int, seed, step byte) []byte {
	b := make([]byte, n)
	for i := range b {
		b[i] = seed + byte(i)*step
	}
	return b
}

var tlvLookalikes = [][]byte{{0, 0}, {0x30, 0x80}, {0x30, 0x80, 0, 0}, {0x04, 0x84, 0xff, 0xff, 0xff, 0xff}, {0x1f}, {0x30, 0x02, 0x04, 0x00}}

func genValue(rt *rapid.T) []byte {
	switch k := dr(rt, "valkind", 16); {
	case k == 0:
		return nil
	case k <= 8:
		return rapid.SliceOfN(rapid.Byte(), 1, 8).Draw(rt, "val")
	case k <= 11:
		return rapid.SliceOfN(rapid.Byte(), 0, 40).Draw(rt, "val")
	case k == 12:
		return tlvLookalikes[dr(rt, "lookalike", len(tlvLookalikes))]
	case k <= 14:
		n := rapid.SampledFrom([]int{126, 127, 128, 129, 255, 256, 257}).Draw(rt, "vallen")
		return patternFill(n, byte(dr(rt, "seed", 256)), byte(dr(rt, "step", 256)))
	default:
		return patternFill(300+dr(rt, "vallen", 1700), byte(dr(rt, "seed", 256)), byte(dr(rt, "step", 256)))
	}
}

// genForm draws the length form and the end-of-contents oddities of s.
func genForm(rt *rapid.T, s *spec, cfg genCfg, f *feat) {
	if !cfg.forms {
		return
	}
	switch k := dr(rt, "form", 8); {
	case k <= 3:
	case k <= 5 || !s.cons():
		s.form, s.pad = 1, dr(rt, "pad", 4)
	default:
		s.form = 2
	}
	if cfg.lenient && s.cons() {
		switch k := dr(rt, "eoc", 10); {
		case k == 0 && s.form != 2:
			s.eocIn, f.lenient = true, true
		case k == 0:
			s.noEOC, f.lenient, f.inexact = true, true, true
		case k == 1 && s.form == 2:
			s.oddEOC, f.lenient = true, true
		}
	}
	if cfg.hostile {
		switch dr(rt, "hostile", 24) {
		case 0:
			s.form, s.over, f.hostile = 1, true, true
		case 1:
			s.lenFF, f.hostile = true, true
		case 2:
			if !s.cons() {
				s.form, f.hostile = 2, true // indefinite length on a primitive
			}
		}
	}
}

func genNode(rt *rapid.T, cfg genCfg, depth int, sibs []*spec, f *feat) *spec {
	s := &spec{}
	cons := depth < cfg.maxDepth && dr(rt, "cons", 3) == 0
	if len(sibs) > 0 && dr(rt, "copytag", 4) == 0 {
		s.tag = sibs[dr(rt, "sib", len(sibs))].tag
		cons = s.cons()
	} else {
		s.tag = genTag(rt, cons, cfg, f)
	}
	if cons {
		if depth < cfg.maxDepth {
			nk := dr(rt, "kids", cfg.maxKids+1)
			for i := 0; i < nk; i++ {
				s.kids = append(s.kids, genNode(rt, cfg, depth+1, s.kids, f))
			}
		}
	} else {
		s.val = genValue(rt)
		if len(s.tag) == 1 && s.tag[0] == 0 {
			if len(s.val) == 0 && dr(rt, "tag0empty", 8) != 0 {
				s.val = []byte{0xAA}
			}
			if len(s.val) == 0 {
				f.inexact = true // 00 00: an end-of-contents marker, not an element
			}
		}
	}
	genForm(rt, s, cfg, f)
	return s
}

func genForest(rt *rapid.T, cfg genCfg, f *feat) []*spec {
	n := 1 + dr(rt, "top", 3)
	if dr(rt, "empty", 40) == 0 {
		n = 0
	}
	var out []*spec
	for i := 0; i < n; i++ {
		out = append(out, genNode(rt, cfg, 0, out, f))
	}
	return out
}

// genDeep: a chain of k constructed elements with occasional siblings and a
// small random subtree at the bottom.
func genDeep(rt *rapid.T, k int, cfg genCfg, f *feat) []*spec {
	sub := cfg
	sub.maxDepth, sub.maxKids = 1, 2
	var cur []*spec
	if dr(rt, "bottom", 3) != 0 {
		cur = []*spec{genNode(rt, sub, 0, nil, f)}
	}
	for i := 0; i < k; i++ {
		s := &spec{tag: genTag(rt, true, cfg, f), kids: cur}
		genForm(rt, s, cfg, f)
		cur = []*spec{s}
		if i < k-1 && dr(rt, "sibling", 6) == 0 {
			p := &spec{tag: genTag(rt, false, cfg, f), val: []byte{byte(i)}}
			if dr(rt, "before", 2) == 0 {
				cur = []*spec{p, s}
			} else {
				cur = []*spec{s, p}
			}
		}
	}
	return cur
}

// ---------------------------------------------------------------- compact families for the limits

// prng: deterministic stream derived from one drawn seed (used only where
// thousands of choices are needed: per-level forms of very deep chains).
type prng uint64

func (p *prng) next(n int) int {
	*p = *p*6364136223846793005 + 1442695040888963407
	return int((uint64(*p) >> 33) % uint64(n))
}

// deepFamily writes k nested constructed elements directly (no spec tree, so
// that k = 1000 stays cheap).  mode: 0 definite minimal, 1 indefinite with
// end-of-contents, 2 alternating, 3 long-form (81/82 padded), 4 per-level random.
func deepFamily(k, mode int, tags [][]byte, leaf []byte, seed uint64) []byte {
	p := prng(seed)
	b := append([]byte{}, leaf...)
	for i := 0; i < k; i++ {
		m := mode
		switch mode {
		case 2:
			m = i & 1
		case 4:
			m = []int{0, 1, 3}[p.next(3)]
		}
		tag := tags[i%len(tags)]
		switch m {
		case 0:
			b = der.TLVLen(tag, b, der.Minimal)
		case 1:
			b = der.TLVLen(tag, b, der.Indefinite)
		default:
			pad := p.next(2)
			if lenOctets(len(b))+pad > 4 {
				pad = 0
			}
			b = der.TLVLen(tag, b, der.LongNonMinimal(pad))
		}
	}
	return b
}

type tmpl struct {
	tag, val []byte
	long     bool
}

// wideFamily writes exactly total elements (wrappers included).
// layout: 0 flat, 1 inside one definite constructed, 2 inside one indefinite
// constructed, 3 groups of c inside constructed elements, 4 groups inside one
// outer constructed element.
func wideFamily(total, layout, c int, ts []tmpl) []byte {
	prim := func(dst []byte, i int) []byte {
		t := ts[i%len(ts)]
		if t.long {
			return append(dst, der.TLVLen(t.tag, t.val, der.LongNonMinimal(0))...)
		}
		return append(dst, der.TLVLen(t.tag, t.val, der.Minimal)...)
	}
	var out []byte
	switch layout {
	case 0:
		for i := 0; i < total; i++ {
			out = prim(out, i)
		}
		return out
	case 1, 2:
		for i := 0; i < total-1; i++ {
			out = prim(out, i)
		}
		if layout == 1 {
			return der.TLVLen([]byte{0x30}, out, der.Minimal)
		}
		return der.TLVLen([]byte{0x31}, out, der.Indefinite)
	}
	left := total
	if layout == 4 {
		left--
	}
	for g := 0; left > 0; g++ {
		left--
		k := c
		if k > left {
			k = left
		}
		var body []byte
		for i := 0; i < k; i++ {
			body = prim(body, g+i)
		}
		left -= k
		if g&1 == 0 {
			out = append(out, der.TLVLen([]byte{0x30}, body, der.Minimal)...)
		} else {
			out = append(out, der.TLVLen([]byte{0xA1}, body, der.Indefinite)...)
		}
	}
	if layout == 4 {
		return der.TLVLen([]byte{0x7F, 0x61}, out, der.Minimal)
	}
	return out
}

func genTemplates(rt *rapid.T) []tmpl {
	var f feat
	n := 1 + dr(rt, "templates", 3)
	ts := make([]tmpl, n)
	for i := range ts {
		ts[i] = tmpl{tag: genTag(rt, false, genCfg{}, &f), val: rapid.SliceOfN(rapid.Byte(), 0, 3).Draw(rt, "tval"), long: dr(rt, "tlong", 4) == 0}
	}
	return ts
}

func genWide(rt *rapid.T, total int) []byte {
	layout := dr(rt, "layout", 5)
	if total < 2 {
		layout = 0
	}
	c := 1 + dr(rt, "group", 400)
	return wideFamily(total, layout, c, genTemplates(rt))
}

// ---------------------------------------------------------------- mutations

var specials = []byte{0x00, 0x80, 0x81, 0x82, 0x83, 0x84, 0x85, 0xff, 0x1f, 0x7f, 0x9f, 0x30, 0x20, 0x01, 0x7e}

func flatten(ns []*ber.Node, out []*ber.Node) []*ber.Node {
	for _, n := range ns {
		if len(out) >= 256 {
			return out
		}
		out = append(out, n)
		out = flatten(n.Children, out)
	}
	return out
}

func mutate(rt *rapid.T, in []byte) ([]byte, string) {
	b := append([]byte{}, in...)
	kind := ""
	nm := 1 + dr(rt, "nmut", 3)
	for m := 0; m < nm; m++ {
		op := dr(rt, "op", 9)
		if len(b) == 0 && op != 2 && op != 7 {
			op = 7
		}
		switch op {
		case 0:
			p := dr(rt, "pos", len(b))
			b[p] ^= 1 << dr(rt, "bit", 8)
			kind += "flip,"
		case 1:
			b[dr(rt, "pos", len(b))] = specials[dr(rt, "special", len(specials))]
			kind += "set,"
		case 2:
			p := dr(rt, "pos", len(b)+1)
			ins := make([]byte, 1+dr(rt, "nins", 3))
			for i := range ins {
				if dr(rt, "insrand", 2) == 0 {
					ins[i] = specials[dr(rt, "special", len(specials))]
				} else {
					ins[i] = byte(dr(rt, "byte", 256))
				}
			}
			b = append(b[:p:p], append(ins, b[p:]...)...)
			kind += "insert,"
		case 3:
			p := dr(rt, "pos", len(b))
			n := 1 + dr(rt, "ndel", 3)
			if p+n > len(b) {
				n = len(b) - p
			}
			b = append(b[:p:p], b[p+n:]...)
			kind += "delete,"
		case 4:
			b = b[:dr(rt, "pos", len(b))]
			kind += "truncate,"
		case 5:
			p := dr(rt, "pos", len(b))
			n := 1 + dr(rt, "ndup", 8)
			if p+n > len(b) {
				n = len(b) - p
			}
			q := dr(rt, "pos2", len(b)+1)
			seg := append([]byte{}, b[p:p+n]...)
			b = append(b[:q:q], append(seg, b[q:]...)...)
			kind += "dup,"
		case 6, 8: // header-targeted, guided by the reference parse of the current bytes
			ns, err := ber.Parse(b, ber.Options{Lenient: true})
			if err != nil || len(ns) == 0 {
				p := dr(rt, "pos", len(b))
				b[p] += byte(1 + dr(rt, "delta", 255))
				kind += "add,"
				break
			}
			all := flatten(ns, nil)
			n := all[dr(rt, "node", len(all))]
			lp := n.Start + len(n.TagBytes)
			switch dr(rt, "hdrop", 7) {
			case 0:
				b[lp+n.LenOctets-1]++ // declared length + 1
			case 1:
				b[lp+n.LenOctets-1]-- // declared length - 1
			case 2:
				b[lp] = 0x80
			case 3:
				b[lp] = specials[dr(rt, "special", len(specials))]
			case 4:
				b[n.Start] ^= 0x20 // primitive <-> constructed
			case 5:
				b[n.Start] |= 0x1f // turn into a high-tag-number form
			default:
				b[n.Start] = 0x00
			}
			kind += "header,"
		default:
			tails := [][]byte{{0, 0}, {0}, {0x30, 0x00}, {0x04, 0x01, 0xaa}, {0x30, 0x80}, {0x1f}, {0x04, 0x81}}
			b = append(b, tails[dr(rt, "tail", len(tails))]...)
			kind += "append,"
		}
	}
	return b, kind
}
