package c16

import (
	"encoding/hex"
	"testing"

	"verifharness/evid"
	"verifharness/ref/der"
)

// FuzzTLVDifferential: coverage-guided search with the same oracle as the
// rapid properties (checkInput: oracles 1-5, checkHelpers).  Seeds are built
// programmatically: the fixed inputs, members of the limit families on both
// sides of the discovered limits, and a few larger structures.
func FuzzTLVDifferential(f *testing.F) {
	L := getLimits()
	for _, c := range fixed {
		b, _ := hex.DecodeString(c.in)
		f.Add(b)
	}
	for _, k := range []int{1, 2, 10, L.D - 1, L.D, L.D + 1} {
		if k < 0 || k > 2000 {
			continue
		}
		f.Add(chain(k, nil))
		f.Add(chain(k, []byte{0x5F, 0x1F, 0x01, 0x41}))
		f.Add(deepFamily(k, 1, [][]byte{{0x30}}, nil, 1))
		f.Add(deepFamily(k, 4, [][]byte{{0x7F, 0x61}, {0xA0}}, []byte{0x04, 0x00}, 7))
	}
	for _, n := range []int{3, 200, L.N - 1, L.N} {
		if n < 1 || n > 50000 {
			continue
		}
		f.Add(flat(n))
		if n <= 200 { // keep the corpus light: the large layouts are covered by TestLimits
			f.Add(wideFamily(n, 3, 7, []tmpl{{tag: []byte{0x04}, val: []byte{1}}, {tag: []byte{0x5F, 0x1F}, long: true}}))
		}
	}
	f.Add(der.Seq(der.IntFromInt64(3), der.OID("2.23.136.1.1.1"), der.Explicit(0, der.OctetString(make([]byte, 200))), der.SetSorted(der.UTF8("x"), der.Null())))
	f.Add(der.TLVLen([]byte{0x30}, der.Cat(der.TLVLen([]byte{0x04}, make([]byte, 300), der.LongNonMinimal(1)), der.TLVLen([]byte{0xA0}, der.Null(), der.Indefinite)), der.Indefinite))

	f.Fuzz(func(t *testing.T, b []byte) {
		if len(b) > 1<<17 {
			return
		}
		o, fl := checkInput(b)
		_ = o
		if fl != nil {
			evid.Fail(t, "fuzz/"+fl.check, repro("fuzz", b), "%s", fl.msg)
		}
		if hf := checkHelpers(b, func(string) {}); hf != nil {
			evid.Fail(t, "fuzz/"+hf.check, repro("fuzz", b), "%s", hf.msg)
		}
	})
}
