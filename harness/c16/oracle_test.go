package c16

import (
	"bytes"
	"encoding/hex"
	"errors"
	"fmt"
	"hash/fnv"
	"sync"

	"github.com/gmrtd/gmrtd/tlv"

	"verifharness/ref/ber"
)

// ---------------------------------------------------------------- limits (oracle 5)

// limits holds what the bisection found on the tree under test: D = the
// smallest refused constructed nesting (chain family), N = the smallest refused
// element count (flat family).  Nothing in this package hard-codes 50 / 10000.
type limits struct {
	D, N       int
	DErr, NErr string // non-empty: no finite limit found below the probe bound
}

const (
	maxDepthProbe = 1000
	maxCountProbe = 1_000_000
	// a declared length that exceeds the rest of the input by more than this is
	// not presented to gmrtd (utils.BytesFromBuffer allocates the declared
	// length before reading: resource behaviour is property C12, not C16)
	hugeDeclared = 1 << 16
)

var (
	limOnce sync.Once
	lim     limits
)

func gAccepts(b []byte) bool {
	_, err := tlv.Decode(b)
	return err == nil
}

// chain: k nested constructed elements (tag 30, definite minimal lengths) around leaf.
func chain(k int, leaf []byte) []byte {
	b := append([]byte{}, leaf...)
	for i := 0; i < k; i++ {
		h := ber.AppendLength([]byte{0x30}, len(b))
		b = append(h, b...)
	}
	return b
}

// flat: n primitive elements 04 00.
func flat(n int) []byte { return bytes.Repeat([]byte{0x04, 0x00}, n) }

// smallestRefused bisects for the smallest k in 1..max whose build(k) is
// refused, given that build(0) is accepted.  ok=false: build(max) is accepted.
func smallestRefused(max int, build func(int) []byte) (k int, ok bool) {
	if gAccepts(build(max)) {
		return max + 1, false
	}
	lo, hi := 0, max // lo accepted (or 0), hi refused
	for hi-lo > 1 {
		mid := (lo + hi) / 2
		if gAccepts(build(mid)) {
			lo = mid
		} else {
			hi = mid
		}
	}
	return hi, true
}

func getLimits() limits {
	limOnce.Do(func() {
		var ok bool
		lim.D, ok = smallestRefused(maxDepthProbe, func(k int) []byte { return chain(k, nil) })
		if !ok {
			lim.DErr = fmt.Sprintf("%d nested constructed elements are still accepted: no depth limit <= %d", maxDepthProbe, maxDepthProbe)
		}
		lim.N, ok = smallestRefused(maxCountProbe, flat)
		if !ok {
			lim.NErr = fmt.Sprintf("%d elements are still accepted: no count limit <= %d", maxCountProbe, maxCountProbe)
		}
	})
	return lim
}

// ---------------------------------------------------------------- failures

type failure struct {
	check string
	msg   string
}

func failf(check, format string, a ...any) *failure {
	return &failure{check: check, msg: fmt.Sprintf(format, a...)}
}

func hx(b []byte) string {
	if len(b) <= 96 {
		return hex.EncodeToString(b)
	}
	return fmt.Sprintf("%s..%s(len %d)", hex.EncodeToString(b[:64]), hex.EncodeToString(b[len(b)-16:]), len(b))
}

// ---------------------------------------------------------------- oracle 1+2+5: differential

type outcome struct {
	skipped  bool // declared length far beyond the input: gmrtd not called
	gOK      bool // tlv.Decode accepted
	lenOK    bool // lenient reference accepted
	strictOK bool // strict reference accepted within the discovered limits
	info     *ber.Info
	ref      []*ber.Node // lenient reference tree (if lenOK)
	lenErr   *ber.Error
}

func asBerError(err error) *ber.Error {
	var e *ber.Error
	if errors.As(err, &e) {
		return e
	}
	return nil
}

func decodeNoPanic(b []byte) (n *tlv.TlvNodes, err error, pan any) {
	defer func() {
		if r := recover(); r != nil {
			pan = r
		}
	}()
	n, err = tlv.Decode(b)
	return
}

// checkInput runs oracles (1)-(5) on one byte string.
func checkInput(b []byte) (outcome, *failure) {
	var o outcome
	L := getLimits()

	refL, info, errL := ber.ParseInfo(b, ber.Options{Lenient: true})
	o.info, o.lenOK = info, errL == nil
	if errL != nil {
		o.lenErr = asBerError(errL)
		if o.lenErr != nil && o.lenErr.Kind == ber.Truncated && o.lenErr.Declared > int64(len(b))+hugeDeclared {
			o.skipped = true
			return o, nil
		}
	} else {
		o.ref = refL
	}
	_, errS := ber.Parse(b, ber.Options{MaxDepth: L.D - 1, MaxNodes: L.N - 1})
	o.strictOK = errS == nil

	g, gerr, pan := decodeNoPanic(b)
	if pan != nil {
		return o, failf("decode-panic", "tlv.Decode panics (%v) on %s", pan, hx(b))
	}
	o.gOK = gerr == nil

	// (2) strict X.690 within the limits => accepted
	if o.strictOK && !o.gOK {
		return o, failf("strict-valid-refused", "input is valid BER (X.690, no leniency needed, depth %d < %d, %d elements < %d) but tlv.Decode refuses it: %v; input %s",
			info.MaxDepth, L.D, info.Nodes, L.N, gerr, hx(b))
	}
	if !o.gOK {
		return o, nil
	}
	if g == nil {
		return o, failf("nil-result", "tlv.Decode returned (nil, nil) on %s", hx(b))
	}
	// (1) accepted => BER (with the documented leniencies) assigns a tree, and it is this tree
	if errL != nil {
		what := "is not BER even with the documented leniencies"
		if o.lenErr != nil && o.lenErr.Kind == ber.Limit {
			what = "is beyond what the decoder can represent (identifier > 4 octets / length > 4 octets)"
		}
		return o, failf("accepted-not-ber", "tlv.Decode accepts %s, which %s: %v; gmrtd tree re-encodes to %s", hx(b), what, errL, hx(g.Encode()))
	}
	if msg := tiling(b, refL, 0, len(b)); msg != "" {
		return o, failf("harness", "reference parse does not account for every octet: %s; input %s", msg, hx(b))
	}
	if msg := cmpTree(g.Nodes(), refL); msg != "" {
		return o, failf("tree-differs", "decoded tree differs from the BER reading at %s; input %s", msg, hx(b))
	}
	// (5) accepted => within the limits
	if L.DErr == "" && info.MaxDepth >= L.D {
		return o, failf("depth-limit-not-monotone", "chain of %d nested elements is refused but this input with nesting %d is accepted: %s", L.D, info.MaxDepth, hx(b))
	}
	if L.NErr == "" && info.Nodes >= L.N {
		return o, failf("count-limit-not-monotone", "%d flat elements are refused but this input with %d elements is accepted: %s", L.N, info.Nodes, hx(b))
	}
	// (3) lookups
	if msg := checkLookups(g, refL); msg != "" {
		return o, failf("lookup", "%s; input %s", msg, hx(b))
	}
	// (4) canonical re-encoding
	if f := checkCanonical(b, g, refL, info); f != nil {
		return o, f
	}
	return o, nil
}

// tiling is a self-check of the reference ("all input bytes are accounted
// for"): the elements of a list follow each other without gaps from start, and
// what is left up to end is nothing but one end-of-contents marker (identifier
// 00, decoded length 0); inside every element, header + content (+ marker) make
// up [Start,End).
func tiling(b []byte, ns []*ber.Node, start, end int) string {
	pos := start
	for _, n := range ns {
		if n.Start != pos || n.End > end {
			return fmt.Sprintf("element %x at [%d,%d) expected to start at %d and end by %d", n.TagBytes, n.Start, n.End, pos, end)
		}
		hdr := len(n.TagBytes) + n.LenOctets
		if n.Constructed {
			cend := n.End
			if !n.Indefinite {
				if n.Start+hdr+len(n.Value) != n.End {
					return fmt.Sprintf("element %x: header+content != extent", n.TagBytes)
				}
			}
			if msg := tiling(b, n.Children, n.Start+hdr, cend); msg != "" {
				return msg
			}
		} else if n.Start+hdr+len(n.Value) != n.End {
			return fmt.Sprintf("primitive %x: header+content != extent", n.TagBytes)
		}
		pos = n.End
	}
	if pos == end {
		return ""
	}
	h, err := ber.ParseHeader(b[pos:end], true)
	if err != nil || len(h.TagBytes) != 1 || h.TagBytes[0] != 0 || h.Length != 0 || pos+h.HdrLen != end {
		return fmt.Sprintf("octets [%d,%d) are neither an element nor an end-of-contents marker", pos, end)
	}
	return ""
}

// cmpTree compares gmrtd's nodes with the reference nodes; "" if equal, else a
// description with the path of the first difference.
func cmpTree(g []tlv.TlvNode, r []*ber.Node) string {
	if len(g) != len(r) {
		return fmt.Sprintf("<list>: gmrtd has %d elements, BER has %d", len(g), len(r))
	}
	for i, rn := range r {
		gn := g[i]
		if msg := cmpNode(gn, rn); msg != "" {
			return fmt.Sprintf("[%d:%x]%s", i, rn.TagBytes, msg)
		}
	}
	return ""
}

func cmpNode(gn tlv.TlvNode, rn *ber.Node) string {
	if gn == nil || !gn.IsValidNode() {
		return ": invalid/nil node in the tree"
	}
	if uint32(gn.Tag()) != rn.Tag {
		return fmt.Sprintf(": tag %x, BER identifier octets %x", uint32(gn.Tag()), rn.TagBytes)
	}
	if !bytes.Equal(gn.Tag().Encode(), rn.TagBytes) {
		return fmt.Sprintf(": Tag().Encode() = %x, identifier octets %x", gn.Tag().Encode(), rn.TagBytes)
	}
	if gn.Tag().IsConstructed() != rn.Constructed {
		return fmt.Sprintf(": IsConstructed()=%v but bit 6 of the first identifier octet says %v", gn.Tag().IsConstructed(), rn.Constructed)
	}
	switch gn.(type) {
	case *tlv.TlvConstructedNode:
		if !rn.Constructed {
			return ": constructed node for a primitive identifier"
		}
		if msg := cmpTree(gn.Children(), rn.Children); msg != "" {
			return "/" + msg
		}
	case *tlv.TlvSimpleNode:
		if rn.Constructed {
			return ": simple node for a constructed identifier"
		}
		if len(gn.Children()) != 0 {
			return ": primitive node with children"
		}
		if !bytes.Equal(gn.Value(), rn.Value) {
			return fmt.Sprintf(": value %s, BER content octets %s", hx(gn.Value()), hx(rn.Value))
		}
	default:
		return fmt.Sprintf(": unexpected node type %T", gn)
	}
	return ""
}

// ---------------------------------------------------------------- oracle 3: lookups

func isNilNode(x tlv.TlvNode) bool {
	return x != nil && !x.IsValidNode() && x.Tag() == 0 && len(x.Value()) == 0 && len(x.Children()) == 0 && x.Encode() == nil
}

func checkLookups(g *tlv.TlvNodes, r []*ber.Node) string {
	budget := 600
	if s := lookupList(g.NodeByTag, g.NodeByTagOccur, g.Nodes(), r, &budget); s != "" {
		return "top level: " + s
	}
	return walkLookups(g.Nodes(), r, &budget)
}

func walkLookups(g []tlv.TlvNode, r []*ber.Node, budget *int) string {
	for i, n := range r {
		if *budget <= 0 {
			return ""
		}
		if n.Constructed {
			if s := lookupList(g[i].NodeByTag, g[i].NodeByTagOccur, g[i].Children(), n.Children, budget); s != "" {
				return fmt.Sprintf("inside [%d:%x]: %s", i, n.TagBytes, s)
			}
			if s := walkLookups(g[i].Children(), n.Children, budget); s != "" {
				return fmt.Sprintf("[%d:%x]/%s", i, n.TagBytes, s)
			}
		} else {
			*budget--
			if !isNilNode(g[i].NodeByTag(tlv.TlvTag(n.Tag))) || !isNilNode(g[i].NodeByTagOccur(0x30, 1)) {
				return fmt.Sprintf("primitive [%d:%x] returns a node from a lookup", i, n.TagBytes)
			}
		}
	}
	return ""
}

// lookupList checks NodeByTag / NodeByTagOccur of one element list against the
// reference list: for probed positions i, (tag_i, occurrence of tag_i up to i)
// must return exactly child i; occurrence total+1 and an absent tag must return
// the nil node.  All positions are probed for lists up to 24 elements, a fixed
// spread (both ends, middle, stride) for longer ones.
func lookupList(first func(tlv.TlvTag) tlv.TlvNode, occur func(tlv.TlvTag, int) tlv.TlvNode, g []tlv.TlvNode, r []*ber.Node, budget *int) string {
	n := len(r)
	total := make(map[uint32]int, 8)
	for _, c := range r {
		total[c.Tag]++
	}
	var idx []int
	if n <= 24 {
		for i := 0; i < n; i++ {
			idx = append(idx, i)
		}
	} else {
		step := n / 12
		for i := 0; i < n; i += step {
			idx = append(idx, i)
		}
		idx = append(idx, 1, 2, n/2, n-3, n-2, n-1)
	}
	for _, i := range idx {
		*budget--
		tag := r[i].Tag
		occ := 1
		for j := 0; j < i; j++ {
			if r[j].Tag == tag {
				occ++
			}
		}
		if ber.FindIn(r, tag, occ) != r[i] {
			return "harness: reference Find disagrees with itself"
		}
		got := occur(tlv.TlvTag(tag), occ)
		if got != g[i] {
			return fmt.Sprintf("NodeByTagOccur(%x,%d) does not return element %d of %d (got tag %x value %s)", tag, occ, i, n, uint32(got.Tag()), hx(got.Value()))
		}
		if occ == 1 {
			if first(tlv.TlvTag(tag)) != g[i] {
				return fmt.Sprintf("NodeByTag(%x) does not return the first element with that tag (index %d)", tag, i)
			}
		}
		if x := occur(tlv.TlvTag(tag), total[tag]+1); !isNilNode(x) {
			return fmt.Sprintf("NodeByTagOccur(%x,%d) returns a node although the tag occurs only %d times", tag, total[tag]+1, total[tag])
		}
	}
	absent := uint32(0x5f60)
	for total[absent] != 0 {
		absent++
	}
	if !isNilNode(occur(tlv.TlvTag(absent), 1)) || !isNilNode(first(tlv.TlvTag(absent))) {
		return fmt.Sprintf("lookup of absent tag %x returns a node", absent)
	}
	return ""
}

// ---------------------------------------------------------------- oracle 4: canonical re-encoding

func checkCanonical(b []byte, g *tlv.TlvNodes, r []*ber.Node, info *ber.Info) *failure {
	want := ber.EncodeDefinite(r)
	E := g.Encode()
	if !bytes.Equal(E, want) {
		return failf("reencode", "Encode(Decode(x)) = %s but the definite minimal encoding of the tree is %s; x = %s", hx(E), hx(want), hx(b))
	}
	if info.Canonical() {
		if !bytes.Equal(want, b) {
			return failf("harness", "reference: canonical input does not re-encode to itself: %s vs %s", hx(b), hx(want))
		}
		if !bytes.Equal(E, b) {
			return failf("reencode-canonical-input", "input is already definite/minimal but Encode(Decode(x)) != x: %s vs %s", hx(E), hx(b))
		}
	}
	g2, err := tlv.Decode(E)
	if err != nil {
		return failf("redecode", "Decode(Encode(Decode(x))) fails: %v; x = %s, E = %s", err, hx(b), hx(E))
	}
	if msg := cmpTree(g2.Nodes(), r); msg != "" {
		return failf("redecode", "Decode(E) is not the same tree at %s; x = %s, E = %s", msg, hx(b), hx(E))
	}
	if msg := cmpG(g.Nodes(), g2.Nodes()); msg != "" {
		return failf("redecode", "Decode(E) differs from Decode(x) at %s; x = %s", msg, hx(b))
	}
	if E2 := g2.Encode(); !bytes.Equal(E2, E) {
		return failf("reencode-idempotent", "Encode(Decode(E)) != E: %s vs %s", hx(E2), hx(E))
	}
	de, err := tlv.DecodeEncode(E)
	if err != nil || !bytes.Equal(de, E) {
		return failf("reencode-idempotent", "DecodeEncode(E) = %s, %v; E = %s", hx(de), err, hx(E))
	}
	de, err = tlv.DecodeEncode(b)
	if err != nil || !bytes.Equal(de, E) {
		return failf("reencode", "DecodeEncode(x) = %s, %v but Encode(Decode(x)) = %s", hx(de), err, hx(E))
	}
	// per-node views of the first few top-level nodes: Encode() and Value()
	for i, n := range g.Nodes() {
		if i >= 16 {
			break
		}
		if w := ber.EncodeDefinite(r[i : i+1]); !bytes.Equal(n.Encode(), w) {
			return failf("reencode", "top-level node %d Encode() = %s, want %s", i, hx(n.Encode()), hx(w))
		}
		if r[i].Constructed {
			if w := ber.EncodeDefinite(r[i].Children); !bytes.Equal(n.Value(), w) {
				return failf("reencode", "constructed node %d Value() = %s, want the encoded children %s", i, hx(n.Value()), hx(w))
			}
		}
	}
	return nil
}

// cmpG compares two gmrtd trees structurally.
func cmpG(a, b []tlv.TlvNode) string {
	if len(a) != len(b) {
		return fmt.Sprintf("<list>: %d vs %d elements", len(a), len(b))
	}
	for i := range a {
		if a[i].Tag() != b[i].Tag() {
			return fmt.Sprintf("[%d]: tag %x vs %x", i, uint32(a[i].Tag()), uint32(b[i].Tag()))
		}
		_, ac := a[i].(*tlv.TlvConstructedNode)
		_, bc := b[i].(*tlv.TlvConstructedNode)
		if ac != bc {
			return fmt.Sprintf("[%d]: node kinds differ", i)
		}
		if ac {
			if msg := cmpG(a[i].Children(), b[i].Children()); msg != "" {
				return fmt.Sprintf("[%d]/%s", i, msg)
			}
		} else if !bytes.Equal(a[i].Value(), b[i].Value()) {
			return fmt.Sprintf("[%d]: values differ", i)
		}
	}
	return ""
}

// shapeHash: identity of a tree for distinct counting (tags, nesting, value lengths).
func shapeHash(r []*ber.Node) string {
	h := fnv.New64a()
	var walk func([]*ber.Node)
	var tmp [8]byte
	walk = func(ns []*ber.Node) {
		for _, n := range ns {
			h.Write(n.TagBytes)
			if n.Constructed {
				h.Write([]byte{'('})
				walk(n.Children)
				h.Write([]byte{')'})
			} else {
				l := len(n.Value)
				tmp[0], tmp[1], tmp[2], tmp[3] = ':', byte(l>>16), byte(l>>8), byte(l)
				h.Write(tmp[:4])
			}
		}
	}
	walk(r)
	return fmt.Sprintf("%x", h.Sum64())
}

// ---------------------------------------------------------------- helper functions of the package

// checkHelpers: tlv.Unwrap / UnwrapTag / ParseTagAndLength / ParseTags as pure
// functions of bytes.  counts receives labels for the evidence.
func checkHelpers(b []byte, count func(string)) *failure {
	h, herr := ber.ParseHeader(b, true)
	_, strictErr := ber.ParseHeader(b, false)

	// ParseTagAndLength
	{
		rd := bytes.NewReader(b)
		tag, length, err := tlv.ParseTagAndLength(rd)
		switch {
		case err == nil && herr != nil:
			return failf("ParseTagAndLength", "accepts header of %s (tag %x length %d) but it is not a BER identifier+length: %v", hx(b), uint32(tag), length, herr)
		case err != nil && strictErr == nil:
			return failf("ParseTagAndLength", "refuses the valid header of %s: %v", hx(b), err)
		case err == nil:
			if uint32(tag) != h.Tag || int64(length) != h.Length || rd.Len() != len(b)-h.HdrLen {
				return failf("ParseTagAndLength", "on %s gives tag %x length %d leaving %d octets; BER: tag %x length %d header of %d octets", hx(b), uint32(tag), length, rd.Len(), h.Tag, h.Length, h.HdrLen)
			}
			count("h:ptl-ok")
		default:
			count("h:ptl-rej")
		}
	}

	// Unwrap / UnwrapTag
	switch {
	case herr == nil && h.Indefinite:
		// known suspect (C12/F7): Unwrap passes -1 to make().  Not a C16 matter;
		// only insist that nothing is "unwrapped".
		var f *failure
		func() {
			defer func() {
				if recover() != nil {
					count("h:unwrap-indefinite-panic(C12)")
				}
			}()
			if _, v, err := tlv.Unwrap(b); err == nil {
				f = failf("Unwrap", "accepts the indefinite-length input %s and returns %s", hx(b), hx(v))
			} else {
				count("h:unwrap-indefinite-error")
			}
		}()
		if f != nil {
			return f
		}
	case herr == nil && h.Length > int64(len(b))+hugeDeclared:
		count("h:unwrap-skipped-huge-length")
	default:
		tag, val, err := tlv.Unwrap(b)
		wantOK := herr == nil && int64(h.HdrLen)+h.Length == int64(len(b))
		switch {
		case err == nil && !wantOK:
			return failf("Unwrap", "accepts %s (tag %x, %d value octets) but the input is not exactly one definite-length TLV (%v)", hx(b), uint32(tag), len(val), herr)
		case err != nil && wantOK && strictErr == nil:
			return failf("Unwrap", "refuses %s, which is exactly one TLV: %v", hx(b), err)
		case err == nil:
			if uint32(tag) != h.Tag || !bytes.Equal(val, b[h.HdrLen:]) {
				return failf("Unwrap", "on %s gives tag %x value %s; BER: tag %x value %s", hx(b), uint32(tag), hx(val), h.Tag, hx(b[h.HdrLen:]))
			}
			v2, err2 := tlv.UnwrapTag(tag, b)
			if err2 != nil || !bytes.Equal(v2, val) {
				return failf("UnwrapTag", "with the right tag %x on %s: %s, %v", uint32(tag), hx(b), hx(v2), err2)
			}
			if v3, err3 := tlv.UnwrapTag(tag+1, b); err3 == nil {
				return failf("UnwrapTag", "with the wrong tag %x accepts %s (value %s)", uint32(tag)+1, hx(b), hx(v3))
			}
			count("h:unwrap-ok")
		default:
			count("h:unwrap-rej")
		}
	}

	// ParseTags: the input as a list of identifiers
	{
		var want []uint32
		var werr, wstrict error
		for p := 0; p < len(b); {
			t, n, err := ber.ParseIdentifier(b[p:], true)
			if err != nil {
				werr = err
				break
			}
			if _, _, e2 := ber.ParseIdentifier(b[p:], false); e2 != nil {
				wstrict = e2
			}
			want = append(want, t)
			p += n
		}
		got, err := tlv.ParseTags(bytes.NewReader(b))
		switch {
		case err == nil && werr != nil:
			return failf("ParseTags", "accepts %s as %x but it is not a sequence of complete identifiers of <= 4 octets: %v", hx(b), got, werr)
		case err != nil && werr == nil && wstrict == nil:
			return failf("ParseTags", "refuses %s, a valid sequence of %d identifiers: %v", hx(b), len(want), err)
		case err == nil:
			if len(got) != len(want) {
				return failf("ParseTags", "on %s gives %d tags, BER %d", hx(b), len(got), len(want))
			}
			for i := range got {
				if uint32(got[i]) != want[i] {
					return failf("ParseTags", "on %s: tag %d is %x, BER %x", hx(b), i, uint32(got[i]), want[i])
				}
			}
			count("h:parsetags-ok")
		default:
			count("h:parsetags-rej")
		}
	}
	return nil
}
