// C16 — TLV decoding is faithful, canonicalising and bounded.
//
// Oracle: verifharness/ref/ber, an independent BER reader (strict X.690 mode and
// a lenient mode that mirrors the documented leniencies of gmrtd's decoder)
// plus its definite/minimal re-encoder.  Inputs come from a grammar of BER
// encodings (gen_test.go), from byte mutations of those, and from native
// fuzzing (fuzz_test.go); all go through checkInput (oracle_test.go):
//
//	(1) tlv.Decode accepts  => the lenient reference accepts, same tree (tags as
//	    identifier octets, nesting, primitive values); the reference consumes
//	    every input octet as identifier/length/content/end-of-contents;
//	(2) the strict reference accepts within the discovered limits => accepted;
//	(3) NodeByTag / NodeByTagOccur on the node list and on every constructed
//	    node return exactly the element the reference tree designates;
//	(4) E = Encode(Decode(x)) is the reference's definite minimal encoding,
//	    Decode(E) is the same tree, DecodeEncode(E) = E, canonical x => E = x;
//	(5) depth and count limits are found by bisection, must be finite, and
//	    every accepted input lies below them (monotone).
package c16

import (
	"encoding/hex"
	"encoding/json"
	"fmt"
	"os"
	"testing"

	"github.com/gmrtd/gmrtd/tlv"
	"pgregory.net/rapid"

	"verifharness/evid"
	"verifharness/ref/ber"
)

const prop = "C16"

func TestMain(m *testing.M) { evid.Main(m, prop) }

func repro(profile string, b []byte) map[string]any {
	return map[string]any{"profile": profile, "input": hex.EncodeToString(b)}
}

// record writes the evidence for one evaluated input.
func record(profile string, b []byte, o outcome) {
	verdict := "rej"
	switch {
	case o.skipped:
		verdict = "skip-huge-declared-length"
	case o.gOK:
		verdict = "acc"
	}
	nontrivial := false
	key := ""
	var sample any
	if o.gOK && o.info != nil {
		i := o.info
		nontrivial = i.MaxDepth >= 2 || i.NonMinLen > 0 || i.Indefinite > 0
		if nontrivial {
			key = shapeHash(o.ref)
			if len(b) <= 200 {
				sample = repro(profile, b)
			}
		}
		L := getLimits()
		feats := []struct {
			on   bool
			name string
		}{
			{i.Indefinite > 0, "acc:indefinite"}, {i.NonMinLen > 0, "acc:non-minimal-length"}, {i.LongLen > 0, "acc:long-form-length"},
			{i.EOCInDefinite > 0, "acc:L1-eoc-in-definite"}, {i.MissingEOC > 0, "acc:L2-missing-eoc"}, {i.OddEOC > 0, "acc:odd-eoc"},
			{i.OddTag > 0, "acc:L3-non-minimal-tag"}, {i.TagZero > 0, "acc:L4-tag-zero"},
			{i.MaxTagOctets == 2, "acc:tag2"}, {i.MaxTagOctets == 3, "acc:tag3"}, {i.MaxTagOctets == 4, "acc:tag4"},
			{i.Canonical(), "acc:canonical-input"}, {o.strictOK, "acc:strict-valid"},
			{i.MaxDepth >= 2, "acc:depth>=2"}, {i.MaxDepth >= 10, "acc:depth>=10"}, {i.MaxDepth == L.D-1, "acc:depth=limit"},
			{i.Nodes >= 1000, "acc:nodes>=1000"}, {i.Nodes == L.N-1, "acc:nodes=limit"},
		}
		for _, f := range feats {
			if f.on {
				evid.Count(f.name, 1)
			}
		}
	}
	if !o.gOK && !o.skipped {
		if o.lenOK {
			L := getLimits()
			switch {
			case o.info.MaxDepth >= L.D:
				evid.Count("rej:beyond-depth-limit", 1)
			case o.info.Nodes >= L.N:
				evid.Count("rej:beyond-count-limit", 1)
			default:
				// not a violation: the property only speaks about accepted inputs
				// and strict BER; recorded because the lenient reference is meant
				// to mirror gmrtd exactly
				evid.Count("rej:lenient-reference-would-accept", 1)
			}
		} else if o.lenErr != nil {
			evid.Count("rej:"+o.lenErr.Kind.String(), 1)
		}
	}
	evid.Case(profile+":"+verdict, nontrivial, key, sample)
}

func run(rt *rapid.T, check, profile string, b []byte) outcome {
	o, f := checkInput(b)
	record(profile, b, o)
	if f != nil {
		evid.Fail(rt, check+"/"+f.check, repro(profile, b), "%s", f.msg)
	}
	return o
}

// selfCheck: the generator's tree and the reference must agree on inputs the
// generator built without inexact features - a disagreement is a harness bug.
func selfCheck(rt *rapid.T, ss []*spec, f feat, b []byte, o outcome) {
	if f.hostile || f.inexact {
		return
	}
	if !o.lenOK {
		evid.Infra(rt, "generator/reference disagreement: lenient reference refuses generated input %s: %v", hx(b), o.lenErr)
	}
	if !ber.Equal(o.ref, nodesOf(ss)) {
		evid.Infra(rt, "generator/reference disagreement: tree of %s differs from the generated structure", hx(b))
	}
	if !f.lenient {
		if _, err := ber.Parse(b, ber.Options{}); err != nil {
			evid.Infra(rt, "generator/reference disagreement: strict reference refuses strictly generated input %s: %v", hx(b), err)
		}
	}
}

var profiles = []string{"canon", "canon", "strict", "strict", "strict", "strict", "lenient", "lenient", "lenient", "lenient",
	"hostile", "deep", "deep", "wide", "bigvalue", "random"}

// genInput draws one input of the given profile.
func genInput(rt *rapid.T, profile string) (b []byte, ss []*spec, f feat, exact bool) {
	L := getLimits()
	switch profile {
	case "canon":
		cfg := genCfg{maxDepth: 4, maxKids: 4, lenient: dr(rt, "oddtags", 2) == 0}
		ss = genForest(rt, cfg, &f)
		return encodeAll(ss), ss, f, true
	case "strict":
		ss = genForest(rt, genCfg{maxDepth: 5, maxKids: 4, forms: true}, &f)
		return encodeAll(ss), ss, f, true
	case "lenient":
		ss = genForest(rt, genCfg{maxDepth: 5, maxKids: 4, forms: true, lenient: true}, &f)
		return encodeAll(ss), ss, f, true
	case "hostile":
		ss = genForest(rt, genCfg{maxDepth: 4, maxKids: 4, forms: true, lenient: true, hostile: true}, &f)
		return encodeAll(ss), ss, f, true
	case "deep":
		var k int
		if dr(rt, "neardepth", 2) == 0 {
			k = L.D - 4 + dr(rt, "k", 8)
			if k < 0 {
				k = 0
			}
		} else {
			k = dr(rt, "k", 61)
		}
		cfg := genCfg{forms: dr(rt, "forms", 4) != 0, lenient: dr(rt, "lenient", 3) == 0}
		ss = genDeep(rt, k, cfg, &f)
		return encodeAll(ss), ss, f, true
	case "wide":
		var total int
		switch dr(rt, "countkind", 4) {
		case 0, 1:
			total = L.N - 4 + dr(rt, "n", 9)
		case 2:
			total = 1 + dr(rt, "n", L.N+500)
		default:
			total = 1 + dr(rt, "n", 300)
		}
		if total < 1 {
			total = 1
		}
		if total > 40000 {
			total = 40000
		}
		return genWide(rt, total), nil, f, false
	case "bigvalue":
		n := 1 + dr(rt, "nbig", 2)
		for i := 0; i < n; i++ {
			l := rapid.SampledFrom([]int{127, 128, 255, 256, 1000, 65535, 65536, 70000}).Draw(rt, "biglen")
			if l > 60000 && !evid.Thorough() && dr(rt, "allowbig", 4) != 0 {
				l = 256
			}
			s := &spec{tag: genTag(rt, false, genCfg{}, &f), val: patternFill(l, byte(dr(rt, "seed", 256)), byte(dr(rt, "step", 256)))}
			genForm(rt, s, genCfg{forms: true}, &f)
			ss = append(ss, s)
		}
		if dr(rt, "wrap", 2) == 0 {
			w := &spec{tag: []byte{0x7F, 0x61}, kids: ss}
			genForm(rt, w, genCfg{forms: true, lenient: true}, &f)
			ss = []*spec{w}
		}
		return encodeAll(ss), ss, f, true
	default: // random octets, biased to header-like values
		n := dr(rt, "rlen", 40)
		b = make([]byte, n)
		for i := range b {
			if dr(rt, "rspecial", 2) == 0 {
				b[i] = specials[dr(rt, "special", len(specials))]
			} else {
				b[i] = byte(dr(rt, "byte", 256))
			}
		}
		return b, nil, f, false
	}
}

// TestDifferentialGrammar: generated BER encodings through oracles (1)-(5).
func TestDifferentialGrammar(t *testing.T) {
	evid.RapidCheck(t, 20000, 2_000_000, func(rt *rapid.T) {
		profile := rapid.SampledFrom(profiles).Draw(rt, "profile")
		b, ss, f, exact := genInput(rt, profile)
		o := run(rt, "grammar", profile, b)
		if exact && !o.skipped {
			selfCheck(rt, ss, f, b, o)
		}
	})
}

// TestDifferentialMutated: byte mutations of generated encodings.
func TestDifferentialMutated(t *testing.T) {
	evid.RapidCheck(t, 8000, 800_000, func(rt *rapid.T) {
		profile := rapid.SampledFrom(profiles).Draw(rt, "profile")
		if profile == "wide" && dr(rt, "keepwide", 4) != 0 {
			profile = "strict"
		}
		base, _, _, _ := genInput(rt, profile)
		b, kind := mutate(rt, base)
		_ = kind
		run(rt, "mutated", "mut-"+profile, b)
	})
}

// TestLimits: the two families that straddle the limits, in many encodings.
// Every input here is strict BER, so oracle (2)+(5) make the verdict exact:
// accepted iff nesting < D and elements < N.
func TestLimits(t *testing.T) {
	evid.RapidCheck(t, 2000, 100_000, func(rt *rapid.T) {
		L := getLimits()
		if dr(rt, "family", 3) != 0 {
			var k int
			switch dr(rt, "kkind", 4) {
			case 0, 1:
				k = L.D - 3 + dr(rt, "k", 7)
			case 2:
				k = dr(rt, "k", 61)
			default:
				k = L.D + dr(rt, "k", 1000)
			}
			if k < 0 {
				k = 0
			}
			var f feat
			tags := [][]byte{genTag(rt, true, genCfg{}, &f)}
			if dr(rt, "twotags", 2) == 0 {
				tags = append(tags, genTag(rt, true, genCfg{}, &f))
			}
			var leaf []byte
			switch dr(rt, "leaf", 3) {
			case 1:
				leaf = []byte{0x04, 0x01, 0xAA}
			case 2:
				leaf = []byte{0x02, 0x01, 0x01, 0x5F, 0x1F, 0x00}
			}
			mode := dr(rt, "mode", 5)
			b := deepFamily(k, mode, tags, leaf, rapid.Uint64().Draw(rt, "seed"))
			for i, n := 0, dr(rt, "prefix", 3); i < n; i++ {
				b = append([]byte{0x04, 0x00}, b...)
			}
			o := run(rt, "limits", "limit-depth", b)
			if o.info.MaxDepth != k && o.lenOK {
				evid.Infra(rt, "depth family: reference sees nesting %d, generated %d", o.info.MaxDepth, k)
			}
			// explicit statement of the expectation (also implied by checkInput)
			if want := k < L.D; o.gOK != want {
				evid.Fail(rt, "limits/depth", repro("limit-depth", b), "nesting %d (smallest refused chain: %d): accepted=%v, want %v", k, L.D, o.gOK, want)
			}
			return
		}
		var total int
		switch dr(rt, "nkind", 4) {
		case 0, 1:
			total = L.N - 3 + dr(rt, "n", 7)
		case 2:
			total = 1 + dr(rt, "n", L.N+500)
		default:
			total = L.N + dr(rt, "n", 2*L.N)
		}
		if total < 1 {
			total = 1
		}
		if total > 40000 {
			total = 40000
		}
		b := genWide(rt, total)
		o := run(rt, "limits", "limit-count", b)
		if o.lenOK && o.info.Nodes != total {
			evid.Infra(rt, "count family: reference sees %d elements, generated %d", o.info.Nodes, total)
		}
		if want := total < L.N; o.gOK != want {
			evid.Fail(rt, "limits/count", repro("limit-count", b), "%d elements (smallest refused flat list: %d): accepted=%v, want %v", total, L.N, o.gOK, want)
		}
	})
}

// TestLimitsBisect reports the discovered limits, insists that they are finite
// and sweeps the neighbourhood exhaustively.
func TestLimitsBisect(t *testing.T) {
	if evid.Shard() != 0 {
		return
	}
	L := getLimits()
	evid.Metric("smallest_refused_nesting", L.D)
	evid.Metric("smallest_refused_element_count", L.N)
	if L.DErr != "" {
		evid.Fail(t, "limits/no-depth-limit", map[string]any{"family": "chain of 30 xx", "k": maxDepthProbe}, "%s", L.DErr)
	}
	if L.NErr != "" {
		evid.Fail(t, "limits/no-count-limit", map[string]any{"family": "n x 0400", "n": maxCountProbe}, "%s", L.NErr)
	}
	if L.D < 2 || L.N < 2 {
		evid.Fail(t, "limits/degenerate", map[string]any{"D": L.D, "N": L.N}, "a single element / one level of nesting is refused (D=%d N=%d)", L.D, L.N)
	}
	done := true
	for k := 0; k <= L.D+40; k++ {
		for _, leaf := range [][]byte{nil, {0x04, 0x00}} {
			b := chain(k, leaf)
			if got, want := gAccepts(b), k < L.D; got != want {
				done = false
				evid.Fail(t, "limits/depth-sweep", repro("chain", b), "chain of %d: accepted=%v, want %v (D=%d)", k, got, want, L.D)
			}
			evid.Case("sweep-depth", k >= 2 && k < L.D, fmt.Sprintf("chain%d/%d", k, len(leaf)), nil)
		}
	}
	for _, n := range []int{L.N - 20, L.N - 2, L.N - 1, L.N, L.N + 1, L.N + 20, 2 * L.N, 10 * L.N, 100_000} {
		if n < 0 {
			continue
		}
		for d := 0; d < 3 && d < 20; d++ {
			b := flat(n + d)
			if got, want := gAccepts(b), n+d < L.N; got != want {
				done = false
				evid.Fail(t, "limits/count-sweep", map[string]any{"n": n + d}, "%d elements: accepted=%v, want %v (N=%d)", n+d, got, want, L.N)
			}
			evid.Case("sweep-count", false, "", nil)
		}
	}
	evid.Exhaustive("limit-neighbourhood-sweep", done)
}

// TestHelpers: Unwrap / UnwrapTag / ParseTagAndLength / ParseTags as functions of bytes.
func TestHelpers(t *testing.T) {
	evid.RapidCheck(t, 4000, 200_000, func(rt *rapid.T) {
		var b []byte
		class := ""
		switch k := dr(rt, "hkind", 8); {
		case k <= 3: // one TLV, maybe damaged
			var f feat
			cfg := genCfg{maxDepth: 2, maxKids: 3, forms: true, lenient: dr(rt, "len", 2) == 0, hostile: dr(rt, "host", 6) == 0}
			s := genNode(rt, cfg, 0, nil, &f)
			b = s.enc(nil)
			class = "one-tlv"
			switch dr(rt, "damage", 6) {
			case 0:
				b = append(b, byte(dr(rt, "extra", 256)))
				class = "one-tlv+trailing"
			case 1:
				if len(b) > 0 {
					b = b[:dr(rt, "cut", len(b))]
					class = "one-tlv-truncated"
				}
			}
		case k <= 5: // a list of identifiers (what ParseTags is for), maybe damaged
			var f feat
			n := dr(rt, "ntags", 12)
			cfg := genCfg{lenient: dr(rt, "len", 2) == 0, hostile: dr(rt, "host", 6) == 0}
			for i := 0; i < n; i++ {
				b = append(b, genTag(rt, dr(rt, "cons", 2) == 0, cfg, &f)...)
			}
			class = "tag-list"
			if dr(rt, "damage", 4) == 0 {
				b, _ = mutate(rt, b)
				class = "tag-list-mutated"
			}
		default:
			base, _, _, _ := genInput(rt, "random")
			b = base
			class = "random"
		}
		n := 0
		f := checkHelpers(b, func(label string) { evid.Count(label, 1); n++ })
		evid.Case("helpers:"+class, len(b) >= 2, hex.EncodeToString(b[:min(len(b), 48)])+fmt.Sprint(len(b)), nil)
		if f != nil {
			evid.Fail(rt, "helpers/"+f.check, repro(class, b), "%s", f.msg)
		}
	})
}

// TestEncoders: TlvTag.Encode / TlvLength.Encode / ParseLength as pure functions.
func TestEncoders(t *testing.T) {
	evid.RapidCheck(t, 2000, 100_000, func(rt *rapid.T) {
		n := rapid.OneOf(
			rapid.SampledFrom([]int64{0, 1, 126, 127, 128, 129, 255, 256, 257, 65535, 65536, 1<<24 - 1, 1 << 24, 1<<32 - 1}),
			rapid.Int64Range(0, 1<<32-1), rapid.Int64Range(0, 70000)).Draw(rt, "n")
		enc := tlv.TlvLength(n).Encode()
		want := lengthRef(n)
		evid.Case("encoders:length", n >= 127, fmt.Sprint("L", n), nil)
		if hex.EncodeToString(enc) != hex.EncodeToString(want) {
			evid.Fail(rt, "encoders/length", map[string]any{"length": n}, "TlvLength(%d).Encode() = %x, shortest definite form is %x", n, enc, want)
		}
		h, err := ber.ParseHeader(append([]byte{0x04}, enc...), false)
		if err != nil || h.Length != n || h.NonMinLen {
			evid.Fail(rt, "encoders/length", map[string]any{"length": n}, "TlvLength(%d).Encode() = %x does not read back as the minimal encoding of %d", n, enc, n)
		}
		var f feat
		tb := genTag(rt, dr(rt, "cons", 2) == 0, genCfg{lenient: true}, &f)
		var packed uint32
		for _, c := range tb {
			packed = packed<<8 | uint32(c)
		}
		evid.Case("encoders:tag", len(tb) > 1, hex.EncodeToString(tb), nil)
		if got := tlv.TlvTag(packed).Encode(); hex.EncodeToString(got) != hex.EncodeToString(tb) {
			evid.Fail(rt, "encoders/tag", map[string]any{"tag": hex.EncodeToString(tb)}, "TlvTag(%x).Encode() = %x", packed, got)
		}
		if got, want := tlv.TlvTag(packed).IsConstructed(), tb[0]&0x20 != 0; got != want {
			evid.Fail(rt, "encoders/tag", map[string]any{"tag": hex.EncodeToString(tb)}, "TlvTag(%x).IsConstructed() = %v, bit 6 of the first octet says %v", packed, got, want)
		}
	})
}

func lengthRef(n int64) []byte {
	if n < 128 {
		return []byte{byte(n)}
	}
	var sig []byte
	for v := n; v > 0; v >>= 8 {
		sig = append([]byte{byte(v)}, sig...)
	}
	return append([]byte{0x80 | byte(len(sig))}, sig...)
}

// ---------------------------------------------------------------- plain regression / probe tests

// fixed inputs with their expected verdict under the documented behaviour;
// they go through the complete oracle.
var fixed = []struct {
	in     string
	accept bool
	note   string
}{
	{"", true, "empty input"},
	{"3000", true, ""},
	{"30800000", true, "indefinite"},
	{"3080", true, "L2 missing end-of-contents"},
	{"30020000", true, "L1 marker inside definite length"},
	{"300400000400", false, "marker not last"},
	{"0000", true, "L1 at top level"},
	{"00000400", false, "marker not last at top level"},
	{"0001aa", true, "L4 tag 0 with a value"},
	{"1f800100", true, "L3 padded identifier"},
	{"1f0500", true, "L3 low number in high form"},
	{"7f81808000", false, "identifier of 5 octets"},
	{"7f81800100", true, "identifier of 4 octets"},
	{"0484000000020102", true, "non-minimal long length"},
	{"048500000000020102", false, "5 length octets"},
	{"04ff", false, "reserved length octet"},
	{"048000", false, "indefinite primitive"},
	{"30053080040100", true, "L2 inside a definite value"},
	{"3003040100" + "00", false, "trailing octet"},
	{"30060401aa0401", false, "child truncated by the parent"},
	{"3080008100", true, "end-of-contents written 00 81 00"},
	{"5f1f0141" + "5f1f0142" + "7f6106" + "5f1f0143" + "0200", true, "lookups with occurrences"},
}

func TestFixedInputs(t *testing.T) {
	if evid.Shard() != 0 {
		return
	}
	for _, c := range fixed {
		b, _ := hex.DecodeString(c.in)
		o, f := checkInput(b)
		record("fixed", b, o)
		if f != nil {
			evid.Fail(t, "fixed/"+f.check, repro("fixed", b), "%s (%s)", f.msg, c.note)
		}
		if o.gOK != c.accept {
			// not a violation of the property by itself (it speaks about accepted
			// inputs and strict BER): the documented behaviour changed
			t.Logf("note: %s (%s): accepted=%v, recorded behaviour %v", c.in, c.note, o.gOK, c.accept)
			evid.Count("fixed:behaviour-changed", 1)
		}
		if hf := checkHelpers(b, func(string) {}); hf != nil {
			evid.Fail(t, "fixed/"+hf.check, repro("fixed", b), "%s", hf.msg)
		}
	}
}

// TestReplayJSON re-executes a saved JSON repro (./verif replay C16 <file>).
func TestReplayJSON(t *testing.T) {
	path := os.Getenv("VERIF_REPLAY_JSON")
	if path == "" {
		return
	}
	raw, err := os.ReadFile(path)
	if err != nil {
		t.Fatalf("read: %v", err)
	}
	var doc struct {
		Check string `json:"check"`
		Case  struct {
			Input  string `json:"input"`
			Length *int64 `json:"length"`
			Tag    string `json:"tag"`
			K      *int   `json:"k"`
			N      *int   `json:"n"`
		} `json:"case"`
	}
	if err := json.Unmarshal(raw, &doc); err != nil {
		t.Fatalf("parse: %v", err)
	}
	var b []byte
	switch {
	case doc.Case.K != nil:
		b = chain(*doc.Case.K, nil)
	case doc.Case.N != nil:
		b = flat(*doc.Case.N)
	case doc.Case.Length != nil:
		if got, want := tlv.TlvLength(*doc.Case.Length).Encode(), lengthRef(*doc.Case.Length); hex.EncodeToString(got) != hex.EncodeToString(want) {
			t.Fatalf("VIOLATION reproduced: TlvLength(%d).Encode() = %x want %x", *doc.Case.Length, got, want)
		}
		return
	case doc.Case.Tag != "":
		tb, _ := hex.DecodeString(doc.Case.Tag)
		var packed uint32
		for _, c := range tb {
			packed = packed<<8 | uint32(c)
		}
		if got := tlv.TlvTag(packed).Encode(); hex.EncodeToString(got) != doc.Case.Tag {
			t.Fatalf("VIOLATION reproduced: TlvTag(%x).Encode() = %x", packed, got)
		}
		return
	default:
		b, err = hex.DecodeString(doc.Case.Input)
		if err != nil {
			t.Fatalf("hex: %v", err)
		}
	}
	L := getLimits()
	if L.DErr != "" || L.NErr != "" {
		t.Fatalf("VIOLATION reproduced: %s %s", L.DErr, L.NErr)
	}
	if _, f := checkInput(b); f != nil {
		t.Fatalf("VIOLATION reproduced: %s: %s", f.check, f.msg)
	}
	if f := checkHelpers(b, func(string) {}); f != nil {
		t.Fatalf("VIOLATION reproduced: %s: %s", f.check, f.msg)
	}
	if doc.Case.K != nil || doc.Case.N != nil {
		want := (doc.Case.K != nil && *doc.Case.K < L.D) || (doc.Case.N != nil && *doc.Case.N < L.N)
		if gAccepts(b) != want {
			t.Fatalf("VIOLATION reproduced: limit family member accepted=%v want %v", !want, want)
		}
	}
}
