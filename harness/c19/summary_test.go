package c19

// DocumentEx.Summary().IdentityAttributes against the precedence rules
// documented in document_summary.go (buildIdentityAttributes, resolveAge,
// resolveExpiryDate).  The expectation is computed from the ldsref views of
// the raw files, never from gmrtd's own DG objects.

import (
	"bytes"
	"encoding/hex"
	"encoding/json"
	"fmt"
	"sort"
	"testing"
	"time"

	"github.com/gmrtd/gmrtd/document"
	"pgregory.net/rapid"

	"verifharness/evid"
	"verifharness/ldsgen"
	"verifharness/ldsgen/ldsview"
	"verifharness/ldsref"
)

type jImageData struct {
	Data   []byte `json:"data,omitempty"`
	Format string `json:"format,omitempty"`
}

// expAttrs mirrors the JSON of IdentityAttributes for the fields the
// documentation defines from file contents.  Country alpha-2 / name come from
// a lookup table of the library, not from the file: only alpha3 is compared.
type expAttrs struct {
	DocumentCode string `json:"documentCode,omitempty"`
	IssuingState *struct {
		Alpha3 string `json:"alpha3,omitempty"`
	} `json:"issuingState,omitempty"`
	DocumentNumber string `json:"documentNumber,omitempty"`
	Nationality    *struct {
		Alpha3 string `json:"alpha3,omitempty"`
	} `json:"nationality,omitempty"`
	Sex                string           `json:"sex,omitempty"`
	Name               *ldsview.Name    `json:"name,omitempty"`
	NameMrzRaw         *ldsview.Name    `json:"nameMrzRaw,omitempty"`
	OtherNames         []ldsview.Name   `json:"otherNames,omitempty"`
	DateOfBirth        string           `json:"dateOfBirth,omitempty"`
	DateOfBirthMrzRaw  string           `json:"dateOfBirthMrzRaw,omitempty"`
	DateOfBirthDg11Raw string           `json:"dateOfBirthDg11Raw,omitempty"`
	Age                *int             `json:"age,omitempty"`
	PossibleAges       []int            `json:"possibleAges,omitempty"`
	DateOfExpiry       string           `json:"dateOfExpiry,omitempty"`
	DateOfExpiryMrzRaw string           `json:"dateOfExpiryMrzRaw,omitempty"`
	PlaceOfBirth       []string         `json:"placeOfBirth,omitempty"`
	Address            []string         `json:"address,omitempty"`
	Telephone          string           `json:"telephone,omitempty"`
	Profession         string           `json:"profession,omitempty"`
	Title              string           `json:"title,omitempty"`
	PersonalNumber     string           `json:"personalNumber,omitempty"`
	MrzOptionalData    string           `json:"mrzOptionalData,omitempty"`
	MrzOptionalData2   string           `json:"mrzOptionalData2,omitempty"`
	IssuingAuthority   string           `json:"issuingAuthority,omitempty"`
	DateOfIssue        string           `json:"dateOfIssue,omitempty"`
	DateOfIssueRaw     string           `json:"dateOfIssueRaw,omitempty"`
	FaceImages         []jImageData     `json:"faceImages,omitempty"`
	SignatureImages    []jImageData     `json:"signatureImages,omitempty"`
	DocumentImageFront *jImageData      `json:"documentImageFront,omitempty"`
	DocumentImageRear  *jImageData      `json:"documentImageRear,omitempty"`
	PersonsToNotify    []ldsview.Person `json:"personsToNotify,omitempty"`
}

func alpha3(code string) *struct {
	Alpha3 string `json:"alpha3,omitempty"`
} {
	if code == "" {
		return nil
	}
	if code == "D" { // 9303-3 section 5: Germany
		code = "DEU"
	}
	return &struct {
		Alpha3 string `json:"alpha3,omitempty"`
	}{code}
}

func imageData(b []byte) jImageData {
	f := ""
	switch {
	case bytes.HasPrefix(b, []byte{0xff, 0xd8, 0xff}):
		f = "image/jpeg"
	case bytes.HasPrefix(b, []byte{0, 0, 0, 0x0c, 0x6a, 0x50, 0x20, 0x20, 0x0d, 0x0a}), bytes.HasPrefix(b, []byte{0xff, 0x4f, 0xff, 0x51}):
		f = "image/jp2"
	}
	return jImageData{Data: b, Format: f}
}

func validDate(s string) (y, m, d int, ok bool) {
	if len(s) != 8 {
		return
	}
	for _, c := range s {
		if c < '0' || c > '9' {
			return
		}
	}
	fmt.Sscanf(s, "%4d%2d%2d", &y, &m, &d)
	if m < 1 || m > 12 || d < 1 {
		return
	}
	dm := []int{31, 28, 31, 30, 31, 30, 31, 31, 30, 31, 30, 31}[m-1]
	if m == 2 && y%4 == 0 && (y%100 != 0 || y%400 == 0) {
		dm = 29
	}
	return y, m, d, d <= dm
}

// ages is the documented rule of resolveAge for a given "today".
func ages(dob string, ty, tm, td int) (age *int, possible []int) {
	whole := func(y, m, d int) int {
		a := ty - y
		if tm < m || (tm == m && td < d) {
			a--
		}
		return a
	}
	switch len(dob) {
	case 8:
		if y, m, d, ok := validDate(dob); ok {
			a := whole(y, m, d)
			age = &a
		}
	case 6:
		for _, c := range []string{"20", "19"} {
			y, m, d, ok := validDate(c + dob)
			if !ok || y > ty || (y == ty && (m > tm || (m == tm && d > td))) {
				continue // not a date, or in the future
			}
			if a := whole(y, m, d); a <= 120 {
				possible = append(possible, a)
			}
		}
	}
	return
}

// expectedAttrs applies the documented precedence to the reference views.
func expectedAttrs(files map[int][]byte, now time.Time) (*expAttrs, error) {
	e := &expAttrs{}
	var dg1 *ldsview.DG1
	var dg11 *ldsview.DG11
	var err error
	if b, ok := files[1]; ok {
		if dg1, err = ldsref.DG1(b); err != nil {
			return nil, err
		}
		e.DocumentCode, e.DocumentNumber, e.Sex = dg1.DocumentCode, dg1.DocumentNumber, dg1.Sex
		n1, n2 := dg1.Name, dg1.Name
		e.Name, e.NameMrzRaw = &n1, &n2
		e.MrzOptionalData, e.MrzOptionalData2 = dg1.OptionalData, dg1.OptionalData2
		e.IssuingState, e.Nationality = alpha3(dg1.IssuingState), alpha3(dg1.Nationality)
		e.DateOfBirth, e.DateOfBirthMrzRaw = dg1.DateOfBirth, dg1.DateOfBirth
		e.DateOfExpiryMrzRaw = dg1.DateOfExpiry
		e.DateOfExpiry = dg1.DateOfExpiry
		if _, _, _, ok := validDate("20" + dg1.DateOfExpiry); ok {
			e.DateOfExpiry = "20" + dg1.DateOfExpiry
		}
	}
	if b, ok := files[11]; ok {
		if dg11, err = ldsref.DG11(b); err != nil {
			return nil, err
		}
		if dg11.NameOfHolder != nil { // DG11 wins over the MRZ name
			n := *dg11.NameOfHolder
			e.Name = &n
		}
		e.OtherNames, e.PersonalNumber, e.PlaceOfBirth, e.Address = dg11.OtherNames, dg11.PersonalNumber, dg11.PlaceOfBirth, dg11.Address
		e.Telephone, e.Profession, e.Title = dg11.Telephone, dg11.Profession, dg11.Title
		if dg11.FullDateOfBirth != "" { // DG11 wins over the MRZ date of birth
			e.DateOfBirth, e.DateOfBirthDg11Raw = dg11.FullDateOfBirth, dg11.FullDateOfBirth
		}
	}
	e.Age, e.PossibleAges = ages(e.DateOfBirth, now.Year(), int(now.Month()), now.Day())
	if b, ok := files[12]; ok {
		d, err := ldsref.DG12(b)
		if err != nil {
			return nil, err
		}
		e.IssuingAuthority, e.DateOfIssue, e.DateOfIssueRaw = d.IssuingAuthority, d.DateOfIssue, d.DateOfIssue
		if len(d.ImageFront) > 0 {
			i := imageData(d.ImageFront)
			e.DocumentImageFront = &i
		}
		if len(d.ImageRear) > 0 {
			i := imageData(d.ImageRear)
			e.DocumentImageRear = &i
		}
	}
	if b, ok := files[2]; ok {
		d, err := ldsref.DG2(b)
		if err != nil {
			return nil, err
		}
		for _, im := range d.Images() {
			e.FaceImages = append(e.FaceImages, imageData(im))
		}
	}
	if b, ok := files[7]; ok {
		d, err := ldsref.DG7(b)
		if err != nil {
			return nil, err
		}
		for _, im := range d.Images {
			e.SignatureImages = append(e.SignatureImages, imageData(im))
		}
	}
	if b, ok := files[16]; ok {
		d, err := ldsref.DG16(b)
		if err != nil {
			return nil, err
		}
		e.PersonsToNotify = d.Persons
	}
	return e, nil
}

// file keys of the summary cases: data group number; 100 = EF.COM, 101 = EF.SOD.
const (
	keyCOM = 100
	keySOD = 101
)

// loadFile stores one file in the document the way a reader does.
func loadFile(doc *document.Document, n int, b []byte) (err error) {
	switch n {
	case keyCOM:
		doc.Mf.Lds1.Com, err = document.NewCOM(bytes.Clone(b))
	case keySOD:
		doc.Mf.Lds1.Sod, err = document.NewSOD(bytes.Clone(b))
	default:
		err = doc.NewDG(n, bytes.Clone(b))
	}
	return err
}

// checkSummary builds the document from the files and compares the summary.
func checkSummary(files map[int][]byte) string {
	var ex document.DocumentEx
	keys := make([]int, 0, len(files))
	for n := range files {
		keys = append(keys, n)
	}
	sort.Ints(keys)
	for _, n := range keys {
		if err := loadFile(&ex.Document, n, files[n]); err != nil {
			return fmt.Sprintf("file %d rejected: %v", n, err)
		}
	}
	return compareSummary(&ex, files)
}

// compareSummary compares ex.Summary() with what the files (the ones ex currently holds) encode.
func compareSummary(ex *document.DocumentEx, files map[int][]byte) string {
	before := time.Now()
	sum := ex.Summary()
	after := time.Now()
	if sum == nil || sum.IdentityAttributes == nil {
		return "Summary() / IdentityAttributes is nil"
	}
	js, err := json.Marshal(sum.IdentityAttributes)
	if err != nil {
		return "json: " + err.Error()
	}
	var got expAttrs
	if err := json.Unmarshal(js, &got); err != nil {
		return "json: " + err.Error()
	}
	var diffs []string
	for _, now := range []time.Time{before, after} {
		want, err := expectedAttrs(files, now)
		if err != nil {
			return "harness: " + err.Error()
		}
		d := ldsview.Diff(want, &got)
		if d == "" {
			diffs = nil
			break
		}
		diffs = append(diffs, d)
	}
	if diffs != nil {
		return "IdentityAttributes differ from the documented precedence: " + diffs[0]
	}
	// LDS / Unicode version: EF.SOD (v1) wins over EF.COM
	wantL, wantU := "", ""
	if b, ok := files[keyCOM]; ok {
		c, err := ldsref.COM(b)
		if err != nil {
			return "harness: " + err.Error()
		}
		wantL, wantU = c.LDSVersion, c.UnicodeVersion
	}
	if b, ok := files[keySOD]; ok {
		s, err := ldsref.SOD(b)
		if err != nil {
			return "harness: " + err.Error()
		}
		if s.LDSVersion != "" && s.UnicodeVersion != "" {
			wantL, wantU = s.LDSVersion, s.UnicodeVersion
		}
	}
	if sum.LdsVersion != wantL || sum.UnicodeVersion != wantU {
		return fmt.Sprintf("summary LDS/Unicode version %q/%q, files say %q/%q", sum.LdsVersion, sum.UnicodeVersion, wantL, wantU)
	}
	if sum.DataTrusted {
		return "DataTrusted is true although nothing was verified"
	}
	return ""
}

func summaryRepro(files map[int][]byte) map[string]any {
	m := map[string]string{}
	for n, b := range files {
		m[fmt.Sprintf("dg%d", n)] = hex.EncodeToString(b)
	}
	return map[string]any{"summary": m}
}

func TestSummary(t *testing.T) {
	evid.RapidCheck(t, 1200, 60000, func(rt *rapid.T) {
		src := rapidSource{rt}
		o, _ := genOpts()
		o.MaxImage = 24
		o.SmallKeys = true
		files := map[int][]byte{}
		present := []int{}
		add := func(n int, num, den int, gen func() *ldsgen.File) {
			if rapid.IntRange(0, den-1).Draw(rt, "present") < num {
				files[n] = gen().Bytes
				present = append(present, n)
			}
		}
		add(1, 5, 6, func() *ldsgen.File { return ldsgen.DG1(src) })
		add(11, 2, 3, func() *ldsgen.File { return ldsgen.DG11(src, o) })
		add(12, 1, 2, func() *ldsgen.File { return ldsgen.DG12(src, o) })
		add(2, 1, 2, func() *ldsgen.File { return ldsgen.DG2(src, o) })
		add(7, 1, 2, func() *ldsgen.File { return ldsgen.DG7(src, o) })
		add(16, 1, 2, func() *ldsgen.File { return ldsgen.DG16(src) })
		add(keyCOM, 1, 2, func() *ldsgen.File { return ldsgen.COM(src) })
		add(keySOD, 1, 2, func() *ldsgen.File { return ldsgen.SOD(src, nil) })
		sort.Ints(present)
		_, has1 := files[1]
		_, has11 := files[11]
		class := "summary/other"
		switch {
		case has1 && has11:
			class = "summary/dg1+dg11"
		case has1:
			class = "summary/dg1-only"
		case has11:
			class = "summary/dg11-only"
		}
		evid.Case(class, has1 && has11, fmt.Sprintf("%v/%x", present, shortHash(files)), map[string]any{"present": present})
		if msg := checkSummary(files); msg != "" {
			evid.Fail(rt, "summary", summaryRepro(files), "%s", msg)
		}
	})
}

func shortHash(files map[int][]byte) uint64 {
	var h uint64 = 1469598103934665603
	keys := make([]int, 0, len(files))
	for k := range files {
		keys = append(keys, k)
	}
	sort.Ints(keys)
	for _, k := range keys {
		for _, c := range files[k] {
			h = (h ^ uint64(c)) * 1099511628211
		}
	}
	return h
}


// TestSummaryHistories: the summary of a DocumentEx that is filled step by step, as a reader fills it
// (and as the mobile binding shows it while reading).  History: the files of one generated document are
// stored in a drawn order, some are then REPLACED by the same data group of a second generated document,
// and Summary() is taken after drawn steps (always after the last).  Oracle: every summary equals what
// the files held AT THAT MOMENT encode - the view is recomputed from the bytes, never remembered.
func TestSummaryHistories(t *testing.T) {
	evid.RapidCheck(t, 600, 30000, func(rt *rapid.T) {
		src := rapidSource{rt}
		o, _ := genOpts()
		o.MaxImage = 24
		o.SmallKeys = true
		gens := []struct {
			n   int
			gen func() *ldsgen.File
		}{
			{1, func() *ldsgen.File { return ldsgen.DG1(src) }}, {11, func() *ldsgen.File { return ldsgen.DG11(src, o) }},
			{12, func() *ldsgen.File { return ldsgen.DG12(src, o) }}, {2, func() *ldsgen.File { return ldsgen.DG2(src, o) }},
			{7, func() *ldsgen.File { return ldsgen.DG7(src, o) }}, {16, func() *ldsgen.File { return ldsgen.DG16(src) }},
			{keyCOM, func() *ldsgen.File { return ldsgen.COM(src) }}, {keySOD, func() *ldsgen.File { return ldsgen.SOD(src, nil) }},
		}
		type step struct {
			n       int
			b       []byte
			replace bool
		}
		var steps []step
		for _, g := range gens {
			if rapid.IntRange(0, 2).Draw(rt, "present") > 0 {
				steps = append(steps, step{n: g.n, b: g.gen().Bytes})
			}
		}
		if len(steps) == 0 {
			steps = append(steps, step{n: 1, b: ldsgen.DG1(src).Bytes})
		}
		steps = rapid.Permutation(steps).Draw(rt, "order")
		first := len(steps)
		for i := 0; i < first; i++ {
			if rapid.IntRange(0, 3).Draw(rt, "replace") == 0 {
				for _, g := range gens {
					if g.n == steps[i].n {
						steps = append(steps, step{n: g.n, b: g.gen().Bytes, replace: true})
					}
				}
			}
		}
		var ex document.DocumentEx
		files := map[int][]byte{}
		var trace []string
		summaries, replaced := 0, 0
		for i, st := range steps {
			if err := loadFile(&ex.Document, st.n, st.b); err != nil {
				evid.Fail(rt, "summary-history", summaryRepro(files), "after %v: file %d rejected: %v", trace, st.n, err)
			}
			files[st.n] = st.b
			if st.replace {
				replaced++
				trace = append(trace, fmt.Sprintf("replace %d", st.n))
			} else {
				trace = append(trace, fmt.Sprintf("store %d", st.n))
			}
			if i == len(steps)-1 || rapid.IntRange(0, 2).Draw(rt, "summarise") > 0 {
				trace = append(trace, "Summary()")
				summaries++
				if msg := compareSummary(&ex, files); msg != "" {
					rep := summaryRepro(files)
					rep["trace"] = trace
					evid.Fail(rt, "summary-history", rep, "after %v: %s", trace, msg)
				}
			}
		}
		class := "summary-history/filled-stepwise"
		if replaced > 0 {
			class = "summary-history/with-replacement"
		}
		evid.Case(class, summaries > 1, fmt.Sprintf("%v/%x", trace, shortHash(files)), map[string]any{"trace": trace})
	})
}
