package c19

// Coverage-guided variants of this package's rapid properties (thorough tier): the
// native fuzzer mutates rapid's bit stream with coverage feedback (evid.FuzzVia).

import (
	"testing"

	"verifharness/evid"
)

func FuzzFiles(f *testing.F)   { evid.FuzzVia(f, TestFiles) }
func FuzzSummary(f *testing.F) { evid.FuzzVia(f, TestSummary) }
