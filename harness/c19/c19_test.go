// C19 — Parsed document attributes are exactly what the hashed bytes encode.
//
// Domain: well-formed LDS files from verifharness/ldsgen over their optional /
// repetition space, plus the genuine files of document.SampleDocument().
// Oracle: the JSON view of gmrtd's constructor result, converted field by
// field (adapt_test.go), equals (a) the expected view the generator computed
// from the values it put into the file and (b) the view recomputed from the raw
// bytes by the independent decoder verifharness/ldsref; counts of repeated
// elements equal the counts in the file; wrong data-group pairings and foreign
// outer tags are rejected; equal bytes give equal views; the result does not
// alias the caller's slice; Summary().IdentityAttributes follows the
// documented precedence.
package c19

import (
	"bytes"
	_ "embed"
	"encoding/hex"
	"encoding/json"
	"fmt"
	"os"
	"strings"
	"testing"

	"github.com/gmrtd/gmrtd/document"
	"pgregory.net/rapid"

	"verifharness/evid"
	"verifharness/ldsgen"
	"verifharness/ldsgen/ldsview"
	"verifharness/ldsref"
	"verifharness/ref/der"
)

const prop = "C19"

// A genuine German EF.CardSecurity (the vector of gmrtd's TestNewCardSecurityDE).
//
//go:embed testdata/cardsecurity_de.hex
var cardSecurityDE string

func TestMain(m *testing.M) { evid.Main(m, prop) }

// Known findings (keys in /verif/known_findings.json).
const (
	// F11: NewDG2 keeps only the images of the last biometric template.
	f11 = "F11-dg2-images-last-template"
	// FP: ISO/IEC 19794-5 feature point blocks are sliced as
	// type,major,minor,X,Y,reserved(1) instead of type,code,X,Y,reserved(2).
	fp = "FP-19794-feature-point-layout"
)

// rapidSource feeds ldsgen from the rapid stream.
type rapidSource struct{ t *rapid.T }

func (r rapidSource) Intn(n int) int {
	if n <= 1 {
		return 0
	}
	return rapid.IntRange(0, n-1).Draw(r.t, "n")
}
func (r rapidSource) Bool() bool { return rapid.Bool().Draw(r.t, "b") }
func (r rapidSource) Bytes(n int) []byte {
	if n == 0 {
		return []byte{}
	}
	return rapid.SliceOfN(rapid.Byte(), n, n).Draw(r.t, "bytes")
}

type failure struct {
	check string // sub-check name
	msg   string
	infra bool // harness inconsistency (generator vs reference), not a violation
}

func (f *failure) Error() string { return f.check + ": " + f.msg }

func fail(check, format string, a ...any) *failure {
	return &failure{check: check, msg: fmt.Sprintf(format, a...)}
}

var allKinds = ldsgen.Kinds

// drawKinds: the order in which TestFiles draws the kind.  rapid's integer
// generator favours small indices (and the last one), so the kinds with the
// largest optional / repetition space stand where the bias helps.
var drawKinds = []string{"DG2", "DG11", "DG14", "DG12", "DG16", "DG7", "DG1", "SOD", "DG15", "DG13", "COM", "CardAccess", "CardSecurity"}

// pairingNumbers: every data group number tried for the wrong-number pairing
// (the nine supported ones and the unsupported neighbours).
var pairingNumbers = []int{0, 1, 2, 3, 4, 5, 6, 7, 8, 9, 10, 11, 12, 13, 14, 15, 16, 17}

// checkFile runs every sub-check of the property on one file.  expected may
// be nil (replay, genuine samples): then only the reference view is compared.
func checkFile(kind string, file []byte, expected any) *failure {
	fpOpen := evid.Open(prop, fp)
	dg := ldsgen.DGNumber(kind)

	// --- reference decoding; generator and reference must agree (harness self-check)
	ref, err := ldsref.Decode(kind, file)
	if err != nil {
		return &failure{check: "harness", msg: fmt.Sprintf("ldsref refuses the file: %v", err), infra: true}
	}
	if expected != nil {
		if d := ldsview.Diff(expected, ref); d != "" {
			return &failure{check: "harness", msg: "generator view != ldsref view: " + d, infra: true}
		}
	}

	// --- constructor on a private copy of the input
	in := bytes.Clone(file)
	obj, err := construct(kind, in)
	if err != nil {
		return fail("accepts-well-formed", "%s constructor rejects a well-formed file: %v", kind, err)
	}
	got, raw, images, err := libView(kind, obj, fpOpen)
	if err != nil {
		return fail("json-view", "cannot read the JSON view: %v", err)
	}
	if !bytes.Equal(raw, file) {
		return fail("rawdata", "RawData differs from the input (%d vs %d octets)", len(raw), len(file))
	}
	if rp, ok := obj.(document.RawDataProvider); !ok || !bytes.Equal(rp.GetRawData(), file) {
		return fail("rawdata", "GetRawData differs from the input")
	}
	if expected != nil {
		if d := ldsview.Diff(comparable(kind, expected, fpOpen), got); d != "" {
			return fail("view-vs-generator", "%s view differs from what the generator encoded: %s", kind, d)
		}
	}
	if d := ldsview.Diff(comparable(kind, ref, fpOpen), got); d != "" {
		return fail("view-vs-ldsref", "%s view differs from the independent decoding: %s", kind, d)
	}

	// --- counts of repeated elements (from the reference decoding of the bytes)
	switch r := ref.(type) {
	case *ldsview.DG2:
		want := r.Images()
		if len(images) != len(want) {
			return fail("dg2-images", "DG2 file holds %d images in %d templates, view exposes %d", len(want), len(r.Templates), len(images))
		}
		for i := range want {
			if !bytes.Equal(images[i], want[i]) {
				return fail("dg2-images", "DG2 image %d of the view is not image %d of the file", i, i)
			}
		}
		if n := len(got.(*ldsview.DG2).Templates); n != len(r.Templates) {
			return fail("dg2-templates", "DG2 file holds %d templates, view %d", len(r.Templates), n)
		}
	case *ldsview.DG7:
		if len(images) != len(r.Images) {
			return fail("dg7-images", "DG7 file holds %d images, view %d", len(r.Images), len(images))
		}
	case *ldsview.DG11:
		if n := len(got.(*ldsview.DG11).OtherNames); n != len(r.OtherNames) {
			return fail("dg11-names", "DG11 file holds %d other names, view %d", len(r.OtherNames), n)
		}
	case *ldsview.DG12:
		if n := len(got.(*ldsview.DG12).OtherPersons); n != len(r.OtherPersons) {
			return fail("dg12-persons", "DG12 file holds %d other persons, view %d", len(r.OtherPersons), n)
		}
	case *ldsview.DG16:
		if n := len(got.(*ldsview.DG16).Persons); n != len(r.Persons) {
			return fail("dg16-persons", "DG16 file holds %d persons, view %d", len(r.Persons), n)
		}
	case *ldsview.SecurityInfos:
		if n := got.(byKind).Total; n != len(r.Infos) {
			return fail("secinfo-count", "file holds %d SecurityInfos, view %d", len(r.Infos), n)
		}
	}

	// --- two calls on equal bytes give equal views; no aliasing of the input
	j1, _ := json.Marshal(obj)
	for i := range in {
		in[i] ^= 0xA5
	}
	j2, _ := json.Marshal(obj)
	if !bytes.Equal(j1, j2) {
		return fail("aliasing", "mutating the caller's slice after construction changed the view")
	}
	if !bytes.Equal(obj.(document.RawDataProvider).GetRawData(), file) {
		return fail("aliasing", "mutating the caller's slice after construction changed RawData")
	}
	obj2, err := construct(kind, bytes.Clone(file))
	if err != nil {
		return fail("determinism", "second call on equal bytes fails: %v", err)
	}
	if j3, _ := json.Marshal(obj2); !bytes.Equal(j1, j3) {
		return fail("determinism", "two calls on equal bytes give different views")
	}

	// --- Document.NewDG: right number gives the same view, every other number is refused
	for _, n := range pairingNumbers {
		var doc document.Document
		err := doc.NewDG(n, bytes.Clone(file))
		if n == dg && dg != 0 {
			if err != nil {
				return fail("newdg", "Document.NewDG(%d) rejects the file its constructor accepts: %v", n, err)
			}
			if j4, _ := json.Marshal(dgOf(&doc, n)); !bytes.Equal(j1, j4) {
				return fail("newdg", "Document.NewDG(%d) view differs from New%s", n, kind)
			}
			continue
		}
		if err == nil {
			return fail("wrong-dg-number", "Document.NewDG(%d) accepts a %s file (outer tag %02X)", n, kind, file[0])
		}
		if o := dgOf(&doc, n); o != nil && !isNilPtr(o) {
			return fail("wrong-dg-number", "Document.NewDG(%d) stores an object although it failed", n)
		}
	}

	// --- every other constructor refuses the file (foreign outer tag)
	for _, other := range allKinds {
		if other == kind {
			continue
		}
		if o, err := construct(other, bytes.Clone(file)); err == nil {
			return fail("foreign-outer-tag", "New%s accepts a %s file (outer tag %02X): %T", other, kind, file[0], o)
		}
	}
	return nil
}

func isNilPtr(o any) bool {
	b, _ := json.Marshal(o)
	return string(b) == "null"
}

func repro(kind string, file []byte, mask string) map[string]any {
	return map[string]any{"kind": kind, "file": hex.EncodeToString(file), "mask": mask}
}

func report(t interface {
	Helper()
	Fatalf(string, ...any)
	Logf(string, ...any)
}, f *failure, kind string, file []byte, mask string) {
	if f == nil {
		return
	}
	if f.infra {
		evid.Infra(t, "%s %s: %s [file %s]", kind, mask, f.msg, head(file))
		return
	}
	evid.Fail(t, f.check, repro(kind, file, mask), "%s", f.msg)
}

func head(b []byte) string {
	if len(b) <= 48 {
		return hex.EncodeToString(b)
	}
	return fmt.Sprintf("%s..(%d)", hex.EncodeToString(b[:48]), len(b))
}

// genOpts: exclusions by construction while findings are open.
func genOpts() (ldsgen.Opts, bool) {
	o := ldsgen.Opts{}
	f11open := evid.Open(prop, f11)
	if f11open {
		o.MaxTemplates = 1
	}
	return o, f11open
}

// TestFiles is the main property: one generated file per case, kinds drawn
// uniformly.
func TestFiles(t *testing.T) {
	evid.RapidCheck(t, 5600, 520000, func(rt *rapid.T) {
		kind := rapid.SampledFrom(drawKinds).Draw(rt, "kind")
		o, f11open := genOpts()
		src := rapidSource{rt}
		if kind == "DG2" && f11open {
			// the draw that would have chosen a multi-template file is still
			// made, so that the exclusion is counted
			if rapid.Bool().Draw(rt, "wantMulti") {
				evid.Excluded(f11)
			}
		}
		f, err := ldsgen.Generate(kind, src, o)
		if err != nil {
			evid.Infra(rt, "generator: %v", err)
		}
		evid.CaseFn(f.Class, f.NonTrivial, f.Kind+"|"+f.Mask, func() any {
			return map[string]any{"kind": f.Kind, "element_presence_mask": f.Mask, "len": len(f.Bytes), "file": evid.Hex(f.Bytes), "expected_view": f.View}
		})
		evid.Count("kind/"+f.Kind, 1)
		report(rt, checkFile(f.Kind, f.Bytes, f.View), f.Kind, f.Bytes, f.Mask)
	})
}

// TestSampleDocument: the genuine files of document.SampleDocument() (ICAO
// 9303-10 appendix A examples and a real EF.SOD) and a genuine EF.CardSecurity
// against the independent decoder.
func TestSampleDocument(t *testing.T) {
	if evid.Shard() != 0 {
		return
	}
	doc, err := document.SampleDocument()
	if err != nil {
		evid.Infra(t, "SampleDocument: %v", err)
	}
	l := doc.Mf.Lds1
	files := map[string][]byte{"COM": l.Com.RawData, "SOD": l.Sod.RawData, "DG1": l.Dg1.RawData, "DG2": l.Dg2.RawData, "DG7": l.Dg7.RawData,
		"DG11": l.Dg11.RawData, "DG12": l.Dg12.RawData, "DG13": l.Dg13.RawData, "DG14": l.Dg14.RawData, "DG15": l.Dg15.RawData, "DG16": l.Dg16.RawData}
	files["CardSecurity"], err = hex.DecodeString(strings.TrimSpace(cardSecurityDE))
	if err != nil {
		evid.Infra(t, "testdata: %v", err)
	}
	// EF.CardAccess: the SecurityInfos of the genuine CardSecurity object
	if v, err := ldsref.CardSecurity(files["CardSecurity"]); err == nil {
		files["CardAccess"] = v.Infos.Raw
	}
	for _, kind := range allKinds {
		b, ok := files[kind]
		if !ok {
			evid.Infra(t, "no genuine %s", kind)
		}
		evid.Case("genuine/"+kind, true, kind, map[string]any{"kind": kind, "len": len(b)})
		report(t, checkFile(kind, b, nil), kind, b, "genuine")
	}
}

// TestExternalSOD shows the hook for SOD objects built elsewhere (an issuer
// with real keys): bytes + expected view run through the same checks.  Here
// the "external" object is built with ldsgen's own CMS writer over real
// digests of generated data groups.
func TestExternalSOD(t *testing.T) {
	evid.RapidCheck(t, 200, 5000, func(rt *rapid.T) {
		src := rapidSource{rt}
		files := map[int][]byte{1: ldsgen.DG1(src).Bytes, 2: ldsgen.DG7(src, ldsgen.Opts{MaxImage: 8}).Bytes}
		if src.Bool() {
			files[14] = ldsgen.DG14(src, ldsgen.Opts{SmallKeys: true}).Bytes
		}
		f := ldsgen.SOD(src, files)
		v := f.View.(*ldsview.SOD)
		for dg, b := range files {
			if !bytes.Equal(v.Hash(dg), ldsgen.Digest(v.HashAlg, b)) {
				evid.Infra(rt, "SOD generator: digest of DG%d", dg)
			}
		}
		ext := ldsgen.ExternalSOD(f.Bytes, v)
		evid.CaseFn(ext.Class, true, f.Mask, func() any {
			return map[string]any{"kind": "SOD", "mask": f.Mask, "len": len(ext.Bytes), "file": evid.Hex(ext.Bytes)}
		})
		report(rt, checkFile("SOD", ext.Bytes, ext.View), "SOD", ext.Bytes, f.Mask)
		// the library's own lookup agrees with the list
		sod, err := document.NewSOD(f.Bytes)
		if err != nil {
			evid.Fail(rt, "accepts-well-formed", repro("SOD", f.Bytes, f.Mask), "NewSOD: %v", err)
		}
		for dg := 1; dg <= 16; dg++ {
			if !bytes.Equal(sod.DgHash(dg), v.Hash(dg)) || sod.HasDgHash(dg) != (v.Hash(dg) != nil) {
				evid.Fail(rt, "sod-dghash", repro("SOD", f.Bytes, f.Mask), "DgHash(%d) differs from the hash list", dg)
			}
		}
	})
}

// ---------------------------------------------------------------- known findings

// tlv: tag + definite length (short form, or 81 xx) + value.
func tlv(tag []byte, v []byte) []byte {
	out := append([]byte{}, tag...)
	if len(v) > 127 {
		out = append(out, 0x81)
	}
	return append(append(out, byte(len(v))), v...)
}

// twoTemplateDG2 is the minimal F11 input: two templates with one ISO/IEC
// 19794-5 face each (JPEG stubs ffd8ffe0..01ffd9 and ffd8ffe0..02ffd9).
func twoTemplateDG2() (file []byte, images [][]byte) {
	img := func(b byte) []byte { return []byte{0xff, 0xd8, 0xff, 0xe0, b, 0xff, 0xd9} }
	rec := func(im []byte) []byte {
		n := 20 + 12 + len(im)
		r := []byte{'F', 'A', 'C', 0, '0', '1', '0', 0, 0, 0, 0, byte(14 + n), 0, 1}
		r = append(r, 0, 0, 0, byte(n), 0, 0)
		r = append(r, make([]byte, 14)...)
		r = append(r, 1, 0, 0, 1, 0, 1, 0, 0, 0, 0, 0, 0)
		return append(r, im...)
	}
	bit := func(im []byte) []byte {
		bht := tlv([]byte{0xA1}, append(tlv([]byte{0x87}, []byte{1, 1}), tlv([]byte{0x88}, []byte{0, 8})...))
		return tlv([]byte{0x7F, 0x60}, append(bht, tlv([]byte{0x5F, 0x2E}, rec(im))...))
	}
	a, b := img(1), img(2)
	body := append(tlv([]byte{0x02}, []byte{2}), append(bit(a), bit(b)...)...)
	return tlv([]byte{0x75}, tlv([]byte{0x7F, 0x61}, body)), [][]byte{a, b}
}

func f11Reproduces() (bool, string) {
	file, images := twoTemplateDG2()
	dg2, err := document.NewDG2(file)
	if err != nil {
		return false, "NewDG2 rejects the probe: " + err.Error()
	}
	if len(dg2.Images) == len(images) {
		return false, ""
	}
	return true, fmt.Sprintf("NewDG2(%s): file holds %d images in 2 templates, DG2.Images has %d (only the last template's)", hex.EncodeToString(file), len(images), len(dg2.Images))
}

func TestKnownF11(t *testing.T) {
	if evid.Shard() != 0 || !evid.Open(prop, f11) {
		return
	}
	yes, what := f11Reproduces()
	if !yes && what != "" {
		evid.Infra(t, "F11 probe: %s", what)
	}
	if yes {
		evid.ReportKnown(prop, f11, "NewDG2 overwrites DG2.Images for every biometric template, so a DG2 with several templates exposes only the last template's images (Summary().FaceImages likewise): "+what)
	}
}

// TestRegressionF11: plain regression (active once the finding is closed).
func TestRegressionF11(t *testing.T) {
	if evid.Shard() != 0 || evid.Open(prop, f11) {
		return
	}
	file, _ := twoTemplateDG2()
	evid.Case("regression/F11", true, "f11", nil)
	report(t, checkFile("DG2", file, nil), "DG2", file, "regression-F11")
}

// featurePointDG2: one face with one feature point 01 23 0102 0304 0000
// (type 1, point 2.3, X=0x0102, Y=0x0304).
func featurePointDG2() []byte {
	im := []byte{0xff, 0xd8, 0xff, 0xe0, 0xff, 0xd9}
	n := 20 + 8 + 12 + len(im)
	r := []byte{'F', 'A', 'C', 0, '0', '1', '0', 0, 0, 0, 0, byte(14 + n), 0, 1}
	r = append(r, 0, 0, 0, byte(n), 0, 1)
	r = append(r, make([]byte, 14)...)
	r = append(r, 0x01, 0x23, 0x01, 0x02, 0x03, 0x04, 0x00, 0x00)
	r = append(r, 1, 0, 0, 1, 0, 1, 0, 0, 0, 0, 0, 0)
	r = append(r, im...)
	bht := tlv([]byte{0xA1}, append(tlv([]byte{0x87}, []byte{1, 1}), tlv([]byte{0x88}, []byte{0, 8})...))
	bit := tlv([]byte{0x7F, 0x60}, append(bht, tlv([]byte{0x5F, 0x2E}, r)...))
	return tlv([]byte{0x75}, tlv([]byte{0x7F, 0x61}, append(tlv([]byte{0x02}, []byte{1}), bit...)))
}

func TestKnownFP(t *testing.T) {
	if evid.Shard() != 0 || !evid.Open(prop, fp) {
		return
	}
	file := featurePointDG2()
	dg2, err := document.NewDG2(file)
	if err != nil || len(dg2.BITs) != 1 || dg2.BITs[0].BDB.Iso19794 == nil || len(dg2.BITs[0].BDB.Iso19794.Facial.Images[0].Features) != 1 {
		evid.Infra(t, "FP probe rejected or not decoded: %v", err)
	}
	p := dg2.BITs[0].BDB.Iso19794.Facial.Images[0].Features[0]
	if p.X != 0x0102 || p.Y != 0x0304 {
		evid.ReportKnown(prop, fp, fmt.Sprintf("ISO/IEC 19794-5 feature point 01 23 0102 0304 0000 (type 1, point 2.3, X=258, Y=772) is shown as majorPoint=%d minorPoint=%d x=%d y=%d reserved=%d: iso19794.FacialFeature reads type,major,minor,X,Y,reserved(1) where the standard has type,code(major<<4|minor),X,Y,reserved(2)", p.MajorPoint, p.MinorPoint, p.X, p.Y, p.Reserved))
	}
}

func TestRegressionFP(t *testing.T) {
	if evid.Shard() != 0 || evid.Open(prop, fp) {
		return
	}
	file := featurePointDG2()
	evid.Case("regression/FP", true, "fp", nil)
	report(t, checkFile("DG2", file, nil), "DG2", file, "regression-FP")
}

// TestObservations logs (never fails on) differences between ICAO 9303 and
// gmrtd that the property does not clearly cover.
func TestObservations(t *testing.T) {
	if evid.Shard() != 0 {
		return
	}
	// EFDIRInfo with the OID of 9303-11 (id-icao-mrtd-security 13 = 2.23.136.1.1.13)
	// and with the legacy-arc OID gmrtd knows (1.3.27.1.1.13).
	for _, oid := range []string{ldsgen.OidEFDIRICAO, ldsgen.OidEFDIRLeg} {
		ca := efdirCardAccess(oid)
		obj, err := document.NewCardAccess(ca)
		if err != nil {
			t.Logf("OBSERVATION: EFDIRInfo %s rejected: %v", oid, err)
			continue
		}
		t.Logf("OBSERVATION: CardAccess %x: EFDIRInfo with OID %s: efDirInfos=%d unhandledInfos=%d", ca, oid, len(obj.SecurityInfos.EfDirInfos), len(obj.SecurityInfos.UnhandledInfos))
	}
	// an unknown SecurityInfo whose OID has an arc >= 2^31 (e.g. a UUID OID under 2.25)
	for _, oid := range []string{"2.25.2147483647", "2.25.2147483648", "2.25.329800735698586629295641978511506172918"} {
		ca := der.Set(der.Seq(der.OID(oid), der.IntFromInt64(1)), der.Seq(der.OID(ldsgen.OidPACE+".2.2"), der.IntFromInt64(2), der.IntFromInt64(13)))
		obj, err := document.NewCardAccess(ca)
		if err != nil {
			t.Logf("OBSERVATION: CardAccess %x with an unknown SecurityInfo %s is rejected as a whole: %v", ca, oid, err)
			continue
		}
		t.Logf("OBSERVATION: unknown SecurityInfo %s accepted: paceInfos=%d unhandledInfos=%d", oid, len(obj.SecurityInfos.PaceInfos), len(obj.SecurityInfos.UnhandledInfos))
	}
	// DG12 whose tag list announces the other-persons template as A0 (gmrtd accepts that in DG11 only)
	dg12 := der.TLV(0x6C, der.Cat(der.TLV(0x5C, []byte{0xA0}), der.TLV(0xA0, der.Cat(der.TLV(0x02, []byte{1}), der.TLV(0x5F1A, []byte("SMITH<<BRENDA<P"))))))
	if _, err := document.NewDG12(dg12); err != nil {
		t.Logf("OBSERVATION: DG12 %x (tag list A0) rejected: %v", dg12, err)
	} else {
		t.Logf("OBSERVATION: DG12 with tag list A0 accepted")
	}
}

func efdirCardAccess(oid string) []byte {
	var o []byte
	switch oid {
	case ldsgen.OidEFDIRICAO:
		o = []byte{0x06, 0x06, 0x67, 0x81, 0x08, 0x01, 0x01, 0x0D}
	default:
		o = []byte{0x06, 0x05, 0x2B, 0x1B, 0x01, 0x01, 0x0D}
	}
	dir := []byte{0x04, 0x0B, 0x61, 0x09, 0x4F, 0x07, 0xA0, 0x00, 0x00, 0x02, 0x47, 0x10, 0x01}
	seq := append([]byte{0x30, byte(len(o) + len(dir))}, append(o, dir...)...)
	return append([]byte{0x31, byte(len(seq))}, seq...)
}

// ---------------------------------------------------------------- replay

// TestReplayJSON re-executes a saved JSON repro (./verif replay C19 <file>).
func TestReplayJSON(t *testing.T) {
	path := os.Getenv("VERIF_REPLAY_JSON")
	if path == "" {
		return
	}
	b, err := os.ReadFile(path)
	if err != nil {
		t.Fatalf("read: %v", err)
	}
	var doc struct {
		Check string `json:"check"`
		Case  struct {
			Kind    string            `json:"kind"`
			File    string            `json:"file"`
			Summary map[string]string `json:"summary"`
		} `json:"case"`
	}
	if err := json.Unmarshal(b, &doc); err != nil {
		t.Fatalf("parse: %v", err)
	}
	if doc.Case.Summary != nil {
		files := map[int][]byte{}
		for k, v := range doc.Case.Summary {
			var n int
			fmt.Sscanf(k, "dg%d", &n)
			files[n], _ = hex.DecodeString(v)
		}
		if msg := checkSummary(files); msg != "" {
			t.Fatalf("VIOLATION reproduced: %s", msg)
		}
		return
	}
	file, err := hex.DecodeString(doc.Case.File)
	if err != nil {
		t.Fatalf("hex: %v", err)
	}
	if f := checkFile(doc.Case.Kind, file, nil); f != nil {
		t.Fatalf("VIOLATION reproduced: %s", f.Error())
	}
}
