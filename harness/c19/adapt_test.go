package c19

// Adapters: JSON of gmrtd's constructor results -> ldsview types.  The mirror
// structs name exactly the JSON fields whose values the property talks about;
// everything else in the JSON (descriptions, raw CMS parts, signer infos) is
// not looked at.

import (
	"encoding/json"
	"fmt"
	"math/big"

	"github.com/gmrtd/gmrtd/document"

	"verifharness/ldsgen/ldsview"
)

type jName struct {
	Primary   string `json:"primary"`
	Secondary string `json:"secondary"`
}

func (n *jName) view() ldsview.Name {
	if n == nil {
		return ldsview.Name{}
	}
	return ldsview.Name{Primary: n.Primary, Secondary: n.Secondary}
}

func names(in []jName) []ldsview.Name {
	var out []ldsview.Name
	for i := range in {
		out = append(out, in[i].view())
	}
	return out
}

type jImage struct {
	Image []byte `json:"image"`
}

type jAlgID struct {
	Algorithm  string `json:"algorithm"`
	Parameters []byte `json:"parameters"`
}

type jSecInfos struct {
	RawData   []byte `json:"rawData"`
	PaceInfos []struct {
		Protocol    string   `json:"protocol"`
		Version     int      `json:"version"`
		ParameterId *big.Int `json:"parameterId"`
	} `json:"paceInfos"`
	PaceDomainParamInfos []struct {
		Protocol        string   `json:"protocol"`
		DomainParameter jAlgID   `json:"domainParameter"`
		ParameterId     *big.Int `json:"parameterId"`
	} `json:"paceDomainParamInfos"`
	ActiveAuthInfos []struct {
		Protocol           string `json:"protocol"`
		Version            int    `json:"version"`
		SignatureAlgorithm string `json:"signatureAlgorithm"`
	} `json:"activeAuthInfos"`
	ChipAuthInfos []struct {
		Protocol string   `json:"protocol"`
		Version  int      `json:"version"`
		KeyId    *big.Int `json:"keyId"`
	} `json:"chipAuthInfos"`
	ChipAuthPubKeyInfos []struct {
		Protocol string `json:"protocol"`
		Key      struct {
			Algorithm        jAlgID `json:"algorithm"`
			SubjectPublicKey []byte `json:"subjectPublicKey"`
		} `json:"chipAuthenticationPublicKey"`
		KeyId *big.Int `json:"keyId"`
	} `json:"chipAuthPubKeyInfos"`
	TermAuthInfos []struct {
		Protocol string `json:"protocol"`
		Version  int    `json:"version"`
	} `json:"termAuthInfos"`
	EfDirInfos []struct {
		Protocol string `json:"protocol"`
		EfDir    []byte `json:"efDir"`
	} `json:"efDirInfos"`
	UnhandledInfos []struct {
		Protocol string `json:"protocol"`
		Raw      []byte `json:"raw"`
	} `json:"unhandledInfos"`
}

func dec(v *big.Int) string {
	if v == nil {
		return ""
	}
	return v.String()
}

// byKind is the comparable form of SecurityInfos: gmrtd groups infos by kind
// (order across kinds is not part of its view), so both sides are grouped.
type byKind struct {
	Raw   []byte                            `json:"raw,omitempty"`
	Kinds map[string][]ldsview.SecurityInfo `json:"kinds,omitempty"`
	Total int                               `json:"total"`
}

func (j *jSecInfos) view() byKind {
	out := byKind{Raw: j.RawData, Kinds: map[string][]ldsview.SecurityInfo{}}
	add := func(i ldsview.SecurityInfo) {
		out.Kinds[i.Kind] = append(out.Kinds[i.Kind], i)
		out.Total++
	}
	for _, p := range j.PaceInfos {
		add(ldsview.SecurityInfo{Kind: ldsview.KindPACE, Protocol: p.Protocol, Version: p.Version, ParamID: dec(p.ParameterId)})
	}
	for _, p := range j.PaceDomainParamInfos {
		add(ldsview.SecurityInfo{Kind: ldsview.KindPACEDomain, Protocol: p.Protocol, AlgOID: p.DomainParameter.Algorithm,
			AlgParams: p.DomainParameter.Parameters, ParamID: dec(p.ParameterId)})
	}
	for _, p := range j.ActiveAuthInfos {
		add(ldsview.SecurityInfo{Kind: ldsview.KindAA, Protocol: p.Protocol, Version: p.Version, SigAlg: p.SignatureAlgorithm})
	}
	for _, p := range j.ChipAuthInfos {
		add(ldsview.SecurityInfo{Kind: ldsview.KindCA, Protocol: p.Protocol, Version: p.Version, ParamID: dec(p.KeyId)})
	}
	for _, p := range j.ChipAuthPubKeyInfos {
		add(ldsview.SecurityInfo{Kind: ldsview.KindCAPubKey, Protocol: p.Protocol, AlgOID: p.Key.Algorithm.Algorithm,
			AlgParams: p.Key.Algorithm.Parameters, PublicKey: p.Key.SubjectPublicKey, ParamID: dec(p.KeyId)})
	}
	for _, p := range j.TermAuthInfos {
		add(ldsview.SecurityInfo{Kind: ldsview.KindTA, Protocol: p.Protocol, Version: p.Version})
	}
	for _, p := range j.EfDirInfos {
		add(ldsview.SecurityInfo{Kind: ldsview.KindEFDIR, Protocol: p.Protocol, EFDIR: p.EfDir})
	}
	for _, p := range j.UnhandledInfos {
		add(ldsview.SecurityInfo{Kind: ldsview.KindUnknown, Protocol: p.Protocol, Raw: p.Raw})
	}
	return out
}

// groupInfos puts an expected / reference SecurityInfos view into the same
// form (Raw of the known kinds is not exposed by gmrtd's JSON: dropped).
func groupInfos(s *ldsview.SecurityInfos) byKind {
	out := byKind{Raw: s.Raw, Kinds: map[string][]ldsview.SecurityInfo{}, Total: len(s.Infos)}
	for _, i := range s.Infos {
		if i.Kind != ldsview.KindUnknown {
			i.Raw = nil
		}
		out.Kinds[i.Kind] = append(out.Kinds[i.Kind], i)
	}
	return out
}

type jSD struct {
	Version          int      `json:"version"`
	DigestAlgorithms []jAlgID `json:"digestAlgorithms"`
	Content          struct {
		EContentType string `json:"eContentType"`
		EContent     []byte `json:"eContent"`
	} `json:"content"`
}

func (s *jSD) algs() []string {
	var out []string
	for _, a := range s.DigestAlgorithms {
		out = append(out, a.Algorithm)
	}
	return out
}

// libView marshals a constructor result and converts it.  It returns the view
// in the comparable form (the same form `comparable` gives for expected /
// reference views), the raw data the object reports and, for DG2/DG7, the
// flat image list.
func libView(kind string, obj any, fpOpen bool) (view any, rawData []byte, images [][]byte, err error) {
	js, err := json.Marshal(obj)
	if err != nil {
		return nil, nil, nil, fmt.Errorf("json.Marshal: %w", err)
	}
	un := func(dst any) error { return json.Unmarshal(js, dst) }
	switch kind {
	case "COM":
		var j struct {
			RawData        []byte   `json:"rawData"`
			LdsVersion     string   `json:"ldsVersion"`
			UnicodeVersion string   `json:"unicodeVersion"`
			TagList        []uint32 `json:"tagList"`
		}
		err = un(&j)
		return &ldsview.COM{LDSVersion: j.LdsVersion, UnicodeVersion: j.UnicodeVersion, TagList: j.TagList}, j.RawData, nil, err
	case "DG1":
		var j struct {
			RawData []byte `json:"rawData"`
			RawMrz  string `json:"rawMrz"`
			Mrz     struct {
				DocumentCode   string `json:"documentCode"`
				IssuingState   string `json:"issuingState"`
				NameOfHolder   *jName `json:"nameOfHolder"`
				DocumentNumber string `json:"documentNumber"`
				Nationality    string `json:"nationality"`
				DateOfBirth    string `json:"dateOfBirth"`
				Sex            string `json:"sex"`
				DateOfExpiry   string `json:"dateOfExpiry"`
				OptionalData   string `json:"optionalData"`
				OptionalData2  string `json:"optionalData2"`
			} `json:"mrz"`
		}
		err = un(&j)
		layout := map[int]string{90: "TD1", 72: "TD2", 88: "TD3"}[len(j.RawMrz)]
		m := j.Mrz
		return &ldsview.DG1{MRZ: j.RawMrz, Layout: layout, DocumentCode: m.DocumentCode, IssuingState: m.IssuingState, Name: m.NameOfHolder.view(),
			DocumentNumber: m.DocumentNumber, Nationality: m.Nationality, DateOfBirth: m.DateOfBirth, Sex: m.Sex, DateOfExpiry: m.DateOfExpiry,
			OptionalData: m.OptionalData, OptionalData2: m.OptionalData2}, j.RawData, nil, err
	case "DG2":
		return libDG2(js, fpOpen)
	case "DG7":
		var j struct {
			RawData []byte   `json:"rawData"`
			Images  []jImage `json:"images"`
		}
		err = un(&j)
		v := &ldsview.DG7{}
		for _, i := range j.Images {
			v.Images = append(v.Images, i.Image)
		}
		return v, j.RawData, v.Images, err
	case "DG11":
		var j struct {
			RawData []byte `json:"rawData"`
			D       struct {
				NameOfHolder         *jName   `json:"nameOfHolder"`
				OtherNames           []jName  `json:"otherNames"`
				PersonalNumber       string   `json:"personalNumber"`
				FullDateOfBirth      string   `json:"fullDateOfBirth"`
				PlaceOfBirth         []string `json:"placeOfBirth"`
				Address              []string `json:"address"`
				Telephone            string   `json:"telephone"`
				Profession           string   `json:"profession"`
				Title                string   `json:"title"`
				PersonalSummary      string   `json:"personalSummary"`
				ProofOfCitizenship   []byte   `json:"proofOfCitizenship"`
				OtherTravelDocuments []string `json:"otherTravelDocuments"`
				CustodyInformation   string   `json:"custodyInformation"`
			} `json:"personDetails"`
		}
		err = un(&j)
		d := j.D
		v := &ldsview.DG11{OtherNames: names(d.OtherNames), PersonalNumber: d.PersonalNumber, FullDateOfBirth: d.FullDateOfBirth,
			PlaceOfBirth: d.PlaceOfBirth, Address: d.Address, Telephone: d.Telephone, Profession: d.Profession, Title: d.Title,
			PersonalSummary: d.PersonalSummary, ProofOfCitizenship: d.ProofOfCitizenship, OtherTravelDocuments: d.OtherTravelDocuments,
			CustodyInformation: d.CustodyInformation}
		if d.NameOfHolder != nil {
			n := d.NameOfHolder.view()
			v.NameOfHolder = &n
		}
		return v, j.RawData, nil, err
	case "DG12":
		var j struct {
			RawData []byte `json:"rawData"`
			D       struct {
				IssuingAuthority string  `json:"issuingAuthority"`
				DateOfIssue      string  `json:"dateOfIssue"`
				OtherPersons     []jName `json:"otherPersons"`
				Endorsements     string  `json:"endorsementsAndObservations"`
				TaxExit          string  `json:"taxExitRequirements"`
				ImageFront       []byte  `json:"imageFront"`
				ImageRear        []byte  `json:"tmageRear"` // sic: the JSON tag in dg12.go
				PersoDateTime    string  `json:"persoDateTime"`
				PersoSerial      string  `json:"persoSystemSerialNumber"`
			} `json:"documentDetails"`
		}
		err = un(&j)
		d := j.D
		return &ldsview.DG12{IssuingAuthority: d.IssuingAuthority, DateOfIssue: d.DateOfIssue, OtherPersons: names(d.OtherPersons),
			Endorsements: d.Endorsements, TaxExit: d.TaxExit, ImageFront: d.ImageFront, ImageRear: d.ImageRear,
			PersoDateTime: d.PersoDateTime, PersoSerial: d.PersoSerial}, j.RawData, nil, err
	case "DG13":
		var j struct {
			RawData []byte `json:"rawData"`
			Content []byte `json:"content"`
		}
		err = un(&j)
		return &ldsview.DG13{Content: j.Content}, j.RawData, nil, err
	case "DG14":
		var j struct {
			RawData []byte    `json:"rawData"`
			S       jSecInfos `json:"securityInfos"`
		}
		err = un(&j)
		return j.S.view(), j.RawData, nil, err
	case "CardAccess":
		var j struct {
			RawData []byte    `json:"rawData"`
			S       jSecInfos `json:"securityInfos"`
		}
		err = un(&j)
		return j.S.view(), j.RawData, nil, err
	case "DG15":
		var j struct {
			RawData []byte `json:"rawData"`
			SPKI    []byte `json:"subjectPublicKeyInfoBytes"`
		}
		err = un(&j)
		return &ldsview.DG15{SPKI: j.SPKI}, j.RawData, nil, err
	case "DG16":
		var j struct {
			RawData []byte `json:"rawData"`
			P       []struct {
				DateRecorded string   `json:"dateRecorded"`
				Name         *jName   `json:"name"`
				Telephone    string   `json:"telephone"`
				Address      []string `json:"address"`
			} `json:"personsToNotify"`
		}
		err = un(&j)
		v := &ldsview.DG16{}
		for _, p := range j.P {
			v.Persons = append(v.Persons, ldsview.Person{DateRecorded: p.DateRecorded, Name: p.Name.view(), Telephone: p.Telephone, Address: p.Address})
		}
		return v, j.RawData, nil, err
	case "SOD":
		var j struct {
			RawData []byte `json:"rawData"`
			SD      jSD    `json:"sd"`
			SO      struct {
				Version       int    `json:"version"`
				HashAlgorithm jAlgID `json:"hashAlgorithm"`
				Hashes        []struct {
					N int    `json:"dataGroupNumber"`
					H []byte `json:"dataGroupHashValue"`
				} `json:"dataGroupHashValues"`
				VI struct {
					LdsVersion     string `json:"ldsVersion"`
					UnicodeVersion string `json:"unicodeVersion"`
				} `json:"ldsVersionInfo"`
			} `json:"ldsSecurityObject"`
		}
		err = un(&j)
		v := &ldsview.SOD{CMSVersion: j.SD.Version, DigestAlgorithms: j.SD.algs(), ContentType: j.SD.Content.EContentType, EContent: j.SD.Content.EContent,
			SOVersion: j.SO.Version, HashAlg: j.SO.HashAlgorithm.Algorithm, LDSVersion: j.SO.VI.LdsVersion, UnicodeVersion: j.SO.VI.UnicodeVersion}
		for _, h := range j.SO.Hashes {
			v.Hashes = append(v.Hashes, ldsview.DGHash{DG: h.N, Hash: h.H})
		}
		return v, j.RawData, nil, err
	case "CardSecurity":
		var j struct {
			RawData []byte    `json:"rawData"`
			SD      jSD       `json:"sd"`
			S       jSecInfos `json:"securityInfos"`
		}
		err = un(&j)
		return &csView{CMSVersion: j.SD.Version, DigestAlgorithms: j.SD.algs(), ContentType: j.SD.Content.EContentType, Infos: j.S.view()}, j.RawData, nil, err
	}
	return nil, nil, nil, fmt.Errorf("no adapter for %s", kind)
}

type csView struct {
	CMSVersion       int      `json:"cmsVersion,omitempty"`
	DigestAlgorithms []string `json:"digestAlgorithms,omitempty"`
	ContentType      string   `json:"contentType,omitempty"`
	Infos            byKind   `json:"infos"`
}

// comparable turns an expected / reference view into the form libView returns.
func comparable(kind string, v any, fpOpen bool) any {
	switch x := v.(type) {
	case *ldsview.SecurityInfos:
		return groupInfos(x)
	case *ldsview.CardSecurity:
		return &csView{CMSVersion: x.CMSVersion, DigestAlgorithms: x.DigestAlgorithms, ContentType: x.ContentType, Infos: groupInfos(&x.Infos)}
	case *ldsview.DG15:
		return &ldsview.DG15{SPKI: x.SPKI} // gmrtd exposes the SubjectPublicKeyInfo octets only
	case *ldsview.DG11:
		c := *x
		c.TagList = nil // the tag list itself is not part of gmrtd's DG11 view
		return &c
	case *ldsview.DG12:
		c := *x
		c.TagList = nil
		return &c
	case *ldsview.DG2:
		return normDG2(x, fpOpen)
	}
	return v
}

// normDG2: while finding FP is open the feature points are compared as the 8
// octets they occupy (nothing lost, nothing invented); otherwise by the
// fields ISO/IEC 19794-5 defines.
func normDG2(x *ldsview.DG2, fpOpen bool) *ldsview.DG2 {
	out := &ldsview.DG2{}
	for _, t := range x.Templates {
		if t.ISO19794 != nil {
			r := *t.ISO19794
			r.Faces = append([]ldsview.Face{}, r.Faces...)
			for i := range r.Faces {
				fs := append([]ldsview.FeaturePoint{}, r.Faces[i].Features...)
				for k := range fs {
					if fpOpen {
						fs[k] = ldsview.FeaturePoint{Raw: fs[k].Raw}
					} else {
						fs[k].Raw = nil
					}
				}
				r.Faces[i].Features = fs
			}
			t.ISO19794 = &r
		}
		out.Templates = append(out.Templates, t)
	}
	return out
}

type jGeneric struct {
	Raw []byte `json:"raw"`
}

func libDG2(js []byte, fpOpen bool) (any, []byte, [][]byte, error) {
	var j struct {
		RawData []byte   `json:"rawData"`
		Images  []jImage `json:"images"`
		Bits    []struct {
			BHT struct {
				IcaoHeaderVersion []byte `json:"icaoHeaderVersion"`
				BiometricType     []byte `json:"biometricType"`
				BiometricSubType  []byte `json:"biometricSubType"`
				CreationDateTime  []byte `json:"creationDateTime"`
				ValidityPeriod    []byte `json:"validityPeriod"`
				PID               []byte `json:"pid"`
				FormatOwner       []byte `json:"formatOwner"`
				FormatType        []byte `json:"formatType"`
			} `json:"bht"`
			BDB struct {
				Iso19794 *struct {
					Facial struct {
						Header struct {
							FormatID      [4]byte `json:"formatID"`
							VersionID     [4]byte `json:"versionID"`
							RecordLength  uint32  `json:"recordLength"`
							NumberOfFaces uint16  `json:"numberOfFaces"`
						} `json:"header"`
						Images []struct {
							FI struct {
								Length          uint32  `json:"length"`
								NumberOfPoints  uint16  `json:"numberOfPoints"`
								Gender          uint8   `json:"gender"`
								EyeColor        uint8   `json:"eyeColor"`
								HairColor       uint8   `json:"hairColor"`
								Properties      [3]byte `json:"properties"`
								Expression      [2]byte `json:"expression"`
								Pose            [3]byte `json:"pose"`
								PoseUncertainty [3]byte `json:"poseUncertainty"`
							} `json:"facialInformation"`
							Features []struct {
								Type       uint8  `json:"type"`
								MajorPoint uint8  `json:"majorPoint"`
								MinorPoint uint8  `json:"minorPoint"`
								X          uint16 `json:"x"`
								Y          uint16 `json:"y"`
								Reserved   uint16 `json:"reserved"`
							} `json:"features"`
							II struct {
								Type       uint8  `json:"type"`
								DataType   uint8  `json:"dataType"`
								Width      uint16 `json:"width"`
								Height     uint16 `json:"height"`
								ColorSpace uint8  `json:"colorSpace"`
								SourceType uint8  `json:"sourceType"`
								DeviceType uint16 `json:"deviceType"`
								Quality    uint16 `json:"quality"`
							} `json:"imageInformation"`
							Data []byte `json:"data"`
						} `json:"images"`
					} `json:"facial"`
				} `json:"iso19794"`
				Iso39794 *struct {
					F struct {
						Version struct {
							Generation int `json:"generation"`
							Year       int `json:"year"`
						} `json:"versionBlock"`
						Reps []struct {
							RepresentationId int `json:"representationId"`
							IR               struct {
								Base struct {
									B2D struct {
										Data []byte `json:"representationData2D"`
										Info struct {
											ImageDataFormat jGeneric `json:"imageDataFormat"`
											FaceImageKind2D jGeneric `json:"faceImageKind2D"`
											PostAcq         jGeneric `json:"postAcquisitionProcessingBlock"`
											Lossy           jGeneric `json:"lossyTransformationAttempts"`
											Camera          int      `json:"cameraToSubjectDistance"`
											Sensor          int      `json:"sensorDiagonal"`
											Lens            int      `json:"lensFocalLength"`
											Size            struct {
												Width  int `json:"width"`
												Height int `json:"height"`
											} `json:"imageSizeBlock"`
											Meas   jGeneric `json:"imageFaceMeasurementsBlock"`
											Colour jGeneric `json:"imageColourSpace"`
											RefCol jGeneric `json:"referenceColourMappingBlock"`
										} `json:"imageInformation2DBlock"`
										Dev2D jGeneric `json:"captureDevice2DBlock"`
									} `json:"imageRepresentation2DBlock"`
								} `json:"base"`
							} `json:"imageRepresentation"`
							DT      ldsview.DateTime39794 `json:"captureDateTimeBlock"`
							Quality jGeneric              `json:"qualityBlocks"`
							PAD     jGeneric              `json:"padDataBlock"`
							Session int                   `json:"sessionId"`
							Derived int                   `json:"derivedFrom"`
							Dev     struct {
								Model struct {
									Org int `json:"organisation"`
									Id  int `json:"id"`
								} `json:"modelIdBlock"`
								Certs struct {
									C struct {
										Org int `json:"organisation"`
										Id  int `json:"id"`
									} `json:"certificationIdBlock"`
								} `json:"certificationIdBlocks"`
							} `json:"captureDeviceBlock"`
							Identity  jGeneric `json:"identityMetadataBlock"`
							Landmarks jGeneric `json:"landmarkBlocks"`
						} `json:"representationBlocks"`
					} `json:"faceImageDataBlock"`
				} `json:"iso39794"`
			} `json:"bdb"`
		} `json:"bits"`
	}
	if err := json.Unmarshal(js, &j); err != nil {
		return nil, nil, nil, err
	}
	v := &ldsview.DG2{}
	for _, b := range j.Bits {
		t := ldsview.BIT{HeaderVersion: b.BHT.IcaoHeaderVersion, BiometricType: b.BHT.BiometricType, BiometricSubType: b.BHT.BiometricSubType,
			CreationDateTime: b.BHT.CreationDateTime, ValidityPeriod: b.BHT.ValidityPeriod, Creator: b.BHT.PID,
			FormatOwner: b.BHT.FormatOwner, FormatType: b.BHT.FormatType}
		if r := b.BDB.Iso19794; r != nil {
			t.BDBTag = 0x5F2E
			h := r.Facial.Header
			rec := &ldsview.Rec19794{FormatID: h.FormatID[:], VersionID: h.VersionID[:], RecordLength: h.RecordLength}
			if int(h.NumberOfFaces) != len(r.Facial.Images) {
				return nil, nil, nil, fmt.Errorf("view inconsistent: numberOfFaces %d but %d images", h.NumberOfFaces, len(r.Facial.Images))
			}
			for _, im := range r.Facial.Images {
				f := ldsview.Face{BlockLength: im.FI.Length, Gender: im.FI.Gender, EyeColor: im.FI.EyeColor, HairColor: im.FI.HairColor,
					Properties: im.FI.Properties[:], Expression: im.FI.Expression[:], Pose: im.FI.Pose[:], PoseUncertainty: im.FI.PoseUncertainty[:],
					ImageType: im.II.Type, ImageDataType: im.II.DataType, Width: im.II.Width, Height: im.II.Height, ColorSpace: im.II.ColorSpace,
					SourceType: im.II.SourceType, DeviceType: im.II.DeviceType, Quality: im.II.Quality, Image: im.Data}
				if int(im.FI.NumberOfPoints) != len(im.Features) {
					return nil, nil, nil, fmt.Errorf("view inconsistent: numberOfPoints %d but %d features", im.FI.NumberOfPoints, len(im.Features))
				}
				for _, p := range im.Features {
					if fpOpen {
						// the 8 octets in the order gmrtd's struct reads them
						f.Features = append(f.Features, ldsview.FeaturePoint{Raw: []byte{p.Type, p.MajorPoint, p.MinorPoint, byte(p.X >> 8), byte(p.X), byte(p.Y >> 8), byte(p.Y), byte(p.Reserved)}})
					} else {
						f.Features = append(f.Features, ldsview.FeaturePoint{Type: p.Type, Major: p.MajorPoint, Minor: p.MinorPoint, X: p.X, Y: p.Y, Reserved: p.Reserved})
					}
				}
				rec.Faces = append(rec.Faces, f)
			}
			t.ISO19794 = rec
		}
		if r := b.BDB.Iso39794; r != nil {
			t.BDBTag = 0x7F2E
			if len(r.F.Reps) != 1 {
				return nil, nil, nil, fmt.Errorf("view has %d representation blocks", len(r.F.Reps))
			}
			p := r.F.Reps[0]
			in := p.IR.Base.B2D.Info
			rec := &ldsview.Rec39794{Generation: r.F.Version.Generation, Year: r.F.Version.Year, RepresentationID: p.RepresentationId,
				Image: p.IR.Base.B2D.Data, ImageDataFormat: in.ImageDataFormat.Raw, FaceImageKind: in.FaceImageKind2D.Raw, PostAcquisition: in.PostAcq.Raw,
				LossyAttempts: in.Lossy.Raw, CameraToSubject: in.Camera, SensorDiagonal: in.Sensor, LensFocalLength: in.Lens, Width: in.Size.Width, Height: in.Size.Height,
				FaceMeasurements: in.Meas.Raw, ColourSpace: in.Colour.Raw, RefColourMapping: in.RefCol.Raw, CaptureDevice2D: p.IR.Base.B2D.Dev2D.Raw,
				QualityBlocks: p.Quality.Raw, PADData: p.PAD.Raw, SessionID: p.Session, DerivedFrom: p.Derived,
				ModelOrg: p.Dev.Model.Org, ModelID: p.Dev.Model.Id, CertOrg: p.Dev.Certs.C.Org, CertID: p.Dev.Certs.C.Id,
				IdentityMetadata: p.Identity.Raw, Landmarks: p.Landmarks.Raw}
			if p.DT != (ldsview.DateTime39794{}) {
				dt := p.DT
				rec.CaptureDateTime = &dt
			}
			t.ISO39794 = rec
		}
		v.Templates = append(v.Templates, t)
	}
	var imgs [][]byte
	for _, i := range j.Images {
		imgs = append(imgs, i.Image)
	}
	return v, j.RawData, imgs, nil
}

// construct calls the gmrtd constructor of the kind.
func construct(kind string, b []byte) (any, error) {
	switch kind {
	case "COM":
		return nilErr(document.NewCOM(b))
	case "SOD":
		return nilErr(document.NewSOD(b))
	case "DG1":
		return nilErr(document.NewDG1(b))
	case "DG2":
		return nilErr(document.NewDG2(b))
	case "DG7":
		return nilErr(document.NewDG7(b))
	case "DG11":
		return nilErr(document.NewDG11(b))
	case "DG12":
		return nilErr(document.NewDG12(b))
	case "DG13":
		return nilErr(document.NewDG13(b))
	case "DG14":
		return nilErr(document.NewDG14(b))
	case "DG15":
		return nilErr(document.NewDG15(b))
	case "DG16":
		return nilErr(document.NewDG16(b))
	case "CardAccess":
		return nilErr(document.NewCardAccess(b))
	case "CardSecurity":
		return nilErr(document.NewCardSecurity(b))
	}
	return nil, fmt.Errorf("no constructor for %s", kind)
}

func nilErr[T any](v *T, err error) (any, error) {
	if err != nil {
		return nil, err
	}
	if v == nil {
		return nil, fmt.Errorf("constructor returned (nil, nil)")
	}
	return v, nil
}

// dgOf returns the data group object of a Document.
func dgOf(doc *document.Document, n int) any {
	l := &doc.Mf.Lds1
	switch n {
	case 1:
		return l.Dg1
	case 2:
		return l.Dg2
	case 7:
		return l.Dg7
	case 11:
		return l.Dg11
	case 12:
		return l.Dg12
	case 13:
		return l.Dg13
	case 14:
		return l.Dg14
	case 15:
		return l.Dg15
	case 16:
		return l.Dg16
	}
	return nil
}
