package c14

import (
	"encoding/binary"

	"verifharness/detrand"
)

type rng struct{ s *detrand.Stream }

func newRng(seed []byte) *rng { return &rng{detrand.New(seed)} }

func (r *rng) bytes(n int) []byte { return r.s.Bytes(n) }

func (r *rng) intn(n int) int {
	if n <= 1 {
		return 0
	}
	return int(binary.BigEndian.Uint64(r.s.Bytes(8)) % uint64(n))
}
