// C14 — Offline verification reproduces live verdicts and detects evidence tampering.
//
// A genuine read (persona + chipsim) is serialised with DocumentEx.ToCbor and
// verified offline with the same trust store: the verdicts must mirror the live
// ones.  Then every evidence field is changed in value (one field at a time) and
// every document file is mutated: the corresponding verdict must fail.  The
// documented joint replacement of ChipKaPub + EcadIC is generated as a positive
// case.
package c14

import (
	"bytes"
	"encoding/asn1"
	"encoding/hex"
	"fmt"
	"math/big"
	"testing"

	"github.com/gmrtd/gmrtd/bac"
	"github.com/gmrtd/gmrtd/chipauth"
	"github.com/gmrtd/gmrtd/document"
	"github.com/gmrtd/gmrtd/iso7816"
	"github.com/gmrtd/gmrtd/pace"
	"github.com/gmrtd/gmrtd/verifier"
	"pgregory.net/rapid"

	"verifharness/chipsim"
	"verifharness/detrand"
	"verifharness/evid"
	"verifharness/issuer"
	"verifharness/ldsref"
	"verifharness/persona"
	"verifharness/readcheck"
	"verifharness/ref/ber"
	"verifharness/ref/ecc"
	"verifharness/ref/mac"
)

const prop = "C14"

func TestMain(m *testing.M) { evid.Main(m, prop) }

const f13 = "F13-aa-evidence-algorithm-unchecked"

func drawOpts(rt *rapid.T) persona.Opts {
	var o persona.Opts
	o.Seed = rapid.SliceOfN(rapid.Byte(), 8, 8).Draw(rt, "seed")
	o.Country = rapid.SampledFrom([]string{"DE", "FR", "NL", "GB"}).Draw(rt, "country")
	o.Layout = rapid.SampledFrom([]string{"TD3", "TD1", "TD2"}).Draw(rt, "layout")
	mech := rapid.SampledFrom([]string{"CA", "CA", "CAM", "AA-RSA", "AA-ECDSA", "AA+CA", "CAM+AA", "CAM+CA"}).Draw(rt, "mechanism")
	o.Access = rapid.SampledFrom([]string{"BAC", "PACE+BAC", "PACE"}).Draw(rt, "access")
	o.PaceID = rapid.SampledFrom([]int{12, 10, 13, 15, 8, 9, 11, 14, 16, 17, 18}).Draw(rt, "paceId")
	o.PaceCipher = rapid.SampledFrom([]mac.Cipher{"3DES", "AES-128", "AES-192", "AES-256"}).Draw(rt, "paceCipher")
	switch mech {
	case "CA":
		o.CA = true
	case "CAM":
		o.Access = "PACE-CAM"
	case "AA-RSA":
		o.AA = "RSA"
	case "AA-ECDSA":
		o.AA = "ECDSA"
	case "AA+CA":
		o.AA, o.CA = rapid.SampledFrom([]string{"RSA", "ECDSA"}).Draw(rt, "aaKind"), true
	case "CAM+AA":
		// the reader runs Active Authentication after PACE-CAM as well: two evidences in one session
		o.Access = "PACE-CAM"
		o.AA = rapid.SampledFrom([]string{"RSA", "ECDSA"}).Draw(rt, "aaKind")
	case "CAM+CA":
		// a DG14 key is present too; Chip Authentication is skipped once PACE-CAM completed
		o.Access, o.CA = "PACE-CAM", true
	}
	o.AARSABits = rapid.SampledFrom([]int{1024, 1028, 1280, 1536, 2048}).Draw(rt, "aaBits")
	o.AATrailer = rapid.SampledFrom([]int{0xBC, 0x34CC, 0x38CC, 0x36CC, 0x35CC}).Draw(rt, "aaTrailer")
	o.AACurve = rapid.SampledFrom([]string{"P-256", "P-224", "P-384", "brainpoolP256r1", "P-521", "brainpoolP384r1", "P-192", "brainpoolP512r1"}).Draw(rt, "aaCurve")
	o.AADER = rapid.Bool().Draw(rt, "aaDER")
	o.CACurve = rapid.SampledFrom([]string{"P-256", "P-224", "P-384", "brainpoolP256r1", "brainpoolP320r1", "P-192", "P-521", "brainpoolP224r1"}).Draw(rt, "caCurve")
	o.CACipher = rapid.SampledFrom([]mac.Cipher{"3DES", "AES-128", "AES-192", "AES-256"}).Draw(rt, "caCipher")
	o.CAKeyID = rapid.Bool().Draw(rt, "caKeyId")
	o.CAExplicit = rapid.Bool().Draw(rt, "caExplicit")
	o.CAInferred = rapid.IntRange(0, 5).Draw(rt, "caInferred") == 0
	o.Trusted = rapid.IntRange(0, 4).Draw(rt, "trusted") != 0
	o.RSAIssuer = rapid.IntRange(0, 3).Draw(rt, "rsaIssuer") == 0
	o.Extended = true
	if rapid.Bool().Draw(rt, "dg11") {
		o.DGs = append(o.DGs, 11)
	}
	if rapid.IntRange(0, 3).Draw(rt, "dg2") == 0 {
		o.DGs = append(o.DGs, 2)
		o.MaxImage = 400
	}
	return o
}

func reproOf(o persona.Opts, libSeed []byte) map[string]any {
	return map[string]any{"seed": hex.EncodeToString(o.Seed), "country": o.Country, "layout": o.Layout, "access": o.Access, "paceId": o.PaceID, "paceCipher": string(o.PaceCipher),
		"aa": o.AA, "aaBits": o.AARSABits, "aaTrailer": o.AATrailer, "aaCurve": o.AACurve, "aaDER": o.AADER, "ca": o.CA, "caCurve": o.CACurve, "caCipher": string(o.CACipher),
		"caKeyId": o.CAKeyID, "caExplicit": o.CAExplicit, "caInferred": o.CAInferred, "trusted": o.Trusted, "rsaIssuer": o.RSAIssuer, "dgs": o.DGs, "libSeed": hex.EncodeToString(libSeed)}
}

type verdict struct {
	PA, Verify, CAM, CA, AA bool // PA success, DocumentVerifyErr == nil, mechanism success
}

func verdictOf(s *document.Session) verdict {
	return verdict{
		PA:     s.PassiveAuthResult != nil && s.PassiveAuthResult.Success,
		Verify: s.DocumentVerifyErr == nil,
		CAM:    s.PaceCamResult != nil && s.PaceCamResult.Success,
		CA:     s.ChipAuthResult != nil && s.ChipAuthResult.Success,
		AA:     s.ActiveAuthResult != nil && s.ActiveAuthResult.Success,
	}
}

func offline(p *persona.Persona, ex *document.DocumentEx) (*document.DocumentEx, error) {
	blob, err := ex.ToCbor()
	if err != nil {
		return nil, fmt.Errorf("ToCbor: %w", err)
	}
	pool, err := readcheck.Pool(p)
	if err != nil {
		return nil, err
	}
	return verifier.NewVerifier(pool).Verify(blob)
}

// ---------------------------------------------------------------- value-changing mutations

type mutation struct {
	name string
	f    func(b []byte, r func(n int) int) []byte
}

var byteMutations = []mutation{
	{"bitflip", func(b []byte, r func(int) int) []byte {
		o := append([]byte{}, b...)
		i := r(len(o) * 8)
		o[i/8] ^= 1 << (i % 8)
		return o
	}},
	{"byte-subst", func(b []byte, r func(int) int) []byte {
		o := append([]byte{}, b...)
		o[r(len(o))] ^= byte(1 + r(255))
		return o
	}},
	{"random-same-length", func(b []byte, r func(int) int) []byte {
		o := make([]byte, len(b))
		for i := range o {
			o[i] = byte(r(256))
		}
		if bytes.Equal(o, b) {
			o[0] ^= 1
		}
		return o
	}},
	{"truncate-1", func(b []byte, r func(int) int) []byte { return append([]byte{}, b[:len(b)-1]...) }},
	{"plus-1", func(b []byte, r func(int) int) []byte {
		v := new(big.Int).Add(new(big.Int).SetBytes(b), big.NewInt(1))
		o := v.FillBytes(make([]byte, max(len(b), len(v.Bytes()))))
		return o
	}},
	{"minus-1", func(b []byte, r func(int) int) []byte {
		v := new(big.Int).SetBytes(b)
		if v.Sign() == 0 {
			return append([]byte{}, b[:len(b)-1]...)
		}
		v.Sub(v, big.NewInt(1))
		return v.FillBytes(make([]byte, len(b)))
	}},
}

type field struct {
	mech string
	name string
	get  func(s *document.Session) []byte
	set  func(s *document.Session, v []byte)
}

var fields = []field{
	{"CA", "TermPri", func(s *document.Session) []byte { return s.ChipAuthResult.Evidence.TermPri }, func(s *document.Session, v []byte) { s.ChipAuthResult.Evidence.TermPri = v }},
	{"CA", "TermPubKey", func(s *document.Session) []byte { return s.ChipAuthResult.Evidence.TermPubKey }, func(s *document.Session, v []byte) { s.ChipAuthResult.Evidence.TermPubKey = v }},
	{"CA", "SmRapdu", func(s *document.Session) []byte { return s.ChipAuthResult.Evidence.SmRapdu }, func(s *document.Session, v []byte) { s.ChipAuthResult.Evidence.SmRapdu = v }},
	{"CA", "SmSsc", func(s *document.Session) []byte { return s.ChipAuthResult.Evidence.SmSsc }, func(s *document.Session, v []byte) { s.ChipAuthResult.Evidence.SmSsc = v }},
	{"CAM", "Nonce", func(s *document.Session) []byte { return s.PaceCamResult.Evidence.Nonce }, func(s *document.Session, v []byte) { s.PaceCamResult.Evidence.Nonce = v }},
	{"CAM", "TermMapPri", func(s *document.Session) []byte { return s.PaceCamResult.Evidence.TermMapPri }, func(s *document.Session, v []byte) { s.PaceCamResult.Evidence.TermMapPri = v }},
	{"CAM", "TermMapPub", func(s *document.Session) []byte { return s.PaceCamResult.Evidence.TermMapPub }, func(s *document.Session, v []byte) { s.PaceCamResult.Evidence.TermMapPub = v }},
	{"CAM", "ChipMapPub", func(s *document.Session) []byte { return s.PaceCamResult.Evidence.ChipMapPub }, func(s *document.Session, v []byte) { s.PaceCamResult.Evidence.ChipMapPub = v }},
	{"CAM", "TermKaPri", func(s *document.Session) []byte { return s.PaceCamResult.Evidence.TermKaPri }, func(s *document.Session, v []byte) { s.PaceCamResult.Evidence.TermKaPri = v }},
	{"CAM", "TermKaPub", func(s *document.Session) []byte { return s.PaceCamResult.Evidence.TermKaPub }, func(s *document.Session, v []byte) { s.PaceCamResult.Evidence.TermKaPub = v }},
	{"CAM", "ChipKaPub", func(s *document.Session) []byte { return s.PaceCamResult.Evidence.ChipKaPub }, func(s *document.Session, v []byte) { s.PaceCamResult.Evidence.ChipKaPub = v }},
	{"CAM", "EcadIC", func(s *document.Session) []byte { return s.PaceCamResult.Evidence.EcadIC }, func(s *document.Session, v []byte) { s.PaceCamResult.Evidence.EcadIC = v }},
	{"AA", "Nonce", func(s *document.Session) []byte { return s.ActiveAuthResult.Evidence.Nonce }, func(s *document.Session, v []byte) { s.ActiveAuthResult.Evidence.Nonce = v }},
	{"AA", "Signature", func(s *document.Session) []byte { return s.ActiveAuthResult.Evidence.Signature }, func(s *document.Session, v []byte) { s.ActiveAuthResult.Evidence.Signature = v }},
}

// cloneSession deep-copies the evidence so a mutation does not touch the original.
func cloneEx(ex *document.DocumentEx) *document.DocumentEx {
	c := *ex
	s := &c.Session
	if s.ChipAuthResult != nil {
		r := *s.ChipAuthResult
		if r.Evidence != nil {
			e := *r.Evidence
			e.TermPri, e.TermPubKey, e.SmRapdu, e.SmSsc = bytes.Clone(e.TermPri), bytes.Clone(e.TermPubKey), bytes.Clone(e.SmRapdu), bytes.Clone(e.SmSsc)
			r.Evidence = &e
		}
		s.ChipAuthResult = &r
	}
	if s.PaceCamResult != nil {
		r := *s.PaceCamResult
		if r.Evidence != nil {
			e := *r.Evidence
			e.PaceOid = append(asn1.ObjectIdentifier{}, e.PaceOid...)
			r.Evidence = &e
		}
		s.PaceCamResult = &r
	}
	if s.ActiveAuthResult != nil {
		r := *s.ActiveAuthResult
		if r.Evidence != nil {
			e := *r.Evidence
			e.Algorithm = append(asn1.ObjectIdentifier{}, e.Algorithm...)
			r.Evidence = &e
		}
		s.ActiveAuthResult = &r
	}
	return &c
}

func mechSuccess(v verdict, mech string) bool {
	switch mech {
	case "CA":
		return v.CA
	case "CAM":
		return v.CAM
	}
	return v.AA
}

func present(s *document.Session, mech string) bool {
	switch mech {
	case "CA":
		return s.ChipAuthResult != nil && s.ChipAuthResult.Success && s.ChipAuthResult.Evidence != nil
	case "CAM":
		return s.PaceCamResult != nil && s.PaceCamResult.Success && s.PaceCamResult.Evidence != nil
	}
	return s.ActiveAuthResult != nil && s.ActiveAuthResult.Success && s.ActiveAuthResult.Evidence != nil
}

// equalValue: mutations that leave the VALUE of a field unchanged are not tampering.
func equalValue(f field, o persona.Opts, before, after []byte) bool {
	if bytes.Equal(before, after) {
		return true
	}
	switch f.name {
	case "TermPri", "TermMapPri", "TermKaPri":
		// scalars are used modulo the group order / as integers: equal if the integers are equal
		return new(big.Int).SetBytes(before).Cmp(new(big.Int).SetBytes(after)) == 0
	case "SmSsc":
		return new(big.Int).SetBytes(before).Cmp(new(big.Int).SetBytes(after)) == 0
	case "Nonce":
		if f.mech == "CAM" {
			return new(big.Int).SetBytes(before).Cmp(new(big.Int).SetBytes(after)) == 0
		}
	}
	return false
}

func TestOfflineMirrorsLiveAndDetectsTampering(t *testing.T) {
	evid.RapidCheck(t, 640, 24000, func(rt *rapid.T) {
		o := drawOpts(rt)
		libSeed := rapid.SliceOfN(rapid.Byte(), 8, 8).Draw(rt, "libSeed")
		mseed := rapid.SliceOfN(rapid.Byte(), 8, 8).Draw(rt, "mutSeed")
		runSession(rt, o, libSeed, mseed)
	})
}

// failer is what the session check needs from *rapid.T / *testing.T.
type failer interface {
	Helper()
	Fatalf(format string, args ...any)
	Logf(format string, args ...any)
}

// TestMechanismMatrix: one genuine session (mirror + every tamper) for every
// standardised PACE parameter id with PACE-CAM alone and with PACE-CAM + AA,
// for every Chip Authentication curve x cipher suite, and for AA on every
// curve / RSA size, so that no curve or mechanism combination depends on the
// random draw (P-521 and brainpoolP512r1 carry the longest evidence fields).
func TestMechanismMatrix(t *testing.T) {
	var cases []persona.Opts
	base := func(i int) persona.Opts {
		return persona.Opts{Seed: []byte{0xC1, 0x4A, byte(i), byte(evid.Seed()), byte(evid.Seed() >> 8), 1, 2, 3}, Country: "NL", Layout: []string{"TD3", "TD1", "TD2"}[i%3],
			Trusted: true, Extended: true, AARSABits: 1024, AATrailer: 0xBC, AACurve: "P-256", CACurve: "P-256", CACipher: "AES-128", PaceID: 12, PaceCipher: "AES-128"}
	}
	camCiphers := []mac.Cipher{"AES-128", "AES-192", "AES-256"}
	for id := 8; id <= 18; id++ {
		o := base(len(cases))
		o.Access, o.PaceID, o.PaceCipher = "PACE-CAM", id, camCiphers[id%3]
		cases = append(cases, o)
		o2 := base(len(cases))
		o2.Access, o2.PaceID, o2.PaceCipher = "PACE-CAM", id, camCiphers[(id+1)%3]
		o2.AA = []string{"RSA", "ECDSA"}[id%2]
		o2.AACurve = []string{"P-256", "brainpoolP256r1", "P-384"}[id%3]
		cases = append(cases, o2)
	}
	caCiphers := []mac.Cipher{"3DES", "AES-128", "AES-192", "AES-256"}
	for i, cv := range []string{"P-192", "P-224", "P-256", "P-384", "P-521", "brainpoolP192r1", "brainpoolP224r1", "brainpoolP256r1", "brainpoolP320r1", "brainpoolP384r1", "brainpoolP512r1"} {
		for k := 0; k < 2; k++ {
			o := base(len(cases))
			o.Access = []string{"BAC", "PACE", "PACE+BAC"}[(i+k)%3]
			o.CA, o.CACurve, o.CACipher = true, cv, caCiphers[(i+2*k)%4]
			o.CAKeyID, o.CAExplicit = k == 1, (i+k)%2 == 0
			if k == 1 && i%2 == 0 {
				o.AA = "RSA"
				o.AARSABits = []int{1024, 1028, 1280, 2048}[i%4]
			}
			cases = append(cases, o)
		}
		o := base(len(cases))
		o.Access, o.AA, o.AACurve, o.AADER = "BAC", "ECDSA", cv, i%2 == 0
		cases = append(cases, o)
	}
	for i, o := range cases {
		if !evid.MineIdx(i) {
			continue
		}
		evid.Count("matrix-sessions", 1)
		runSession(t, o, []byte{byte(i), 7, 7, 7, byte(evid.Seed()), 1, 1, 1}, []byte{9, byte(i), 9, 9, byte(evid.Seed()), 2, 2, 2})
	}
}

func runSession(rt failer, o persona.Opts, libSeed, mseed []byte) {
	{
		rep := reproOf(o, libSeed)
		p, err := persona.Build(o)
		if err != nil {
			evid.Infra(rt, "persona.Build: %v", err)
		}
		chip := p.NewChip()
		r, err := readcheck.Read(p, chip, readcheck.ReadOpts{LibSeed: libSeed})
		if err != nil {
			evid.Fail(rt, "setup", rep, "%v", err)
		}
		if r.Err != nil {
			evid.Fail(rt, "live-read", rep, "genuine read failed: %v", r.Err)
		}
		if msg := readcheck.StepOutcomes(p, &r.DocEx.Session); msg != "" {
			evid.Fail(rt, "live-read", rep, "%s", msg)
		}
		live := verdictOf(&r.DocEx.Session)
		mechs := ""
		for _, m := range []string{"CA", "CAM", "AA"} {
			if present(&r.DocEx.Session, m) {
				mechs += m + "+"
			}
		}
		evid.Case("mirror/"+mechs, true, fmt.Sprintf("%v/%x", rep, o.Seed), rep)

		// (1) offline verdicts mirror the live ones; genuine evidence verifies
		off, err := offline(p, r.DocEx)
		if err != nil {
			evid.Fail(rt, "mirror", rep, "offline verification of a genuine result failed: %v", err)
		}
		ov := verdictOf(&off.Session)
		if ov != live {
			rep["live"], rep["offline"] = fmt.Sprintf("%+v", live), fmt.Sprintf("%+v", ov)
			evid.Fail(rt, "mirror", rep, "offline verdicts %+v differ from the live verdicts %+v (errors: pa=%v ca=%v aa=%v pace=%v)", ov, live,
				off.Session.PassiveAuthErr, off.Session.ChipAuthErr, off.Session.ActiveAuthErr, off.Session.PaceErr)
		}

		// (2) every evidence field x value-changing mutations
		st := newRng(mseed)
		for _, f := range fields {
			if !present(&r.DocEx.Session, f.mech) {
				continue
			}
			orig := f.get(&r.DocEx.Session)
			if len(orig) == 0 {
				continue
			}
			for _, m := range byteMutations {
				mut := m.f(orig, st.intn)
				if equalValue(f, o, orig, mut) {
					evid.Count("mutation-equal-value-skipped", 1)
					continue
				}
				if f.name == "SmSsc" && len(mut) > len(orig) && evid.Open("C12", "F8b-ca-evidence-oversized-ssc") {
					evid.Excluded("F8b-ca-evidence-oversized-ssc")
					continue
				}
				c := cloneEx(r.DocEx)
				f.set(&c.Session, mut)
				checkTampered(rt, p, c, f.mech, f.mech+"."+f.name, m.name, rep, orig, mut)
			}
		}
		// (3) OID / integer fields
		if present(&r.DocEx.Session, "AA") {
			alg := r.DocEx.Session.ActiveAuthResult.Evidence.Algorithm
			for _, other := range []asn1.ObjectIdentifier{{1, 2, 840, 113549, 1, 1, 1}, {1, 2, 840, 10045, 2, 1}, {1, 2, 840, 113549, 1, 1, 10}, {2, 23, 136, 1, 1, 5},
				// signature-algorithm identifiers of the same key family (not the key-type identifier the evidence records)
				{1, 2, 840, 10045, 4, 1}, {1, 2, 840, 10045, 4, 3, 1}, {1, 2, 840, 10045, 4, 3, 2}, {1, 2, 840, 10045, 4, 3, 3}, {1, 2, 840, 10045, 4, 3, 4},
				{1, 2, 840, 113549, 1, 1, 5}, {1, 2, 840, 113549, 1, 1, 11}, {1, 2, 840, 10045, 2}, {1, 2, 840, 10045, 2, 1, 0}} {
				if other.Equal(alg) {
					continue
				}
				if evid.Open(prop, f13) {
					evid.Excluded(f13)
					continue
				}
				c := cloneEx(r.DocEx)
				c.Session.ActiveAuthResult.Evidence.Algorithm = other
				checkTampered(rt, p, c, "AA", "AA.Algorithm", "other-oid", rep, []byte(alg.String()), []byte(other.String()))
			}
		}
		if present(&r.DocEx.Session, "CAM") {
			e := r.DocEx.Session.PaceCamResult.Evidence
			for _, id := range []int{e.ParameterId + 1, e.ParameterId - 1, 12, 13, 0, 31,
				// values that agree with the genuine id in their low bits only
				e.ParameterId + 256, e.ParameterId + 512, e.ParameterId - 256, e.ParameterId + 65536, e.ParameterId + 1<<32, -e.ParameterId, e.ParameterId | 0x80} {
				if id == e.ParameterId {
					continue
				}
				c := cloneEx(r.DocEx)
				c.Session.PaceCamResult.Evidence.ParameterId = id
				checkTampered(rt, p, c, "CAM", "CAM.ParameterId", "other-id", rep, []byte(fmt.Sprint(e.ParameterId)), []byte(fmt.Sprint(id)))
			}
			for _, cp := range []mac.Cipher{"AES-128", "AES-192", "AES-256"} {
				oid := oidOf(chipsim.PaceOID("CAM", cp))
				if oid.Equal(e.PaceOid) {
					continue
				}
				c := cloneEx(r.DocEx)
				c.Session.PaceCamResult.Evidence.PaceOid = oid
				checkTampered(rt, p, c, "CAM", "CAM.PaceOid", "other-cam-suite", rep, []byte(e.PaceOid.String()), []byte(oid.String()))
			}
			gm := oidOf(chipsim.PaceOID("GM", "AES-128"))
			c := cloneEx(r.DocEx)
			c.Session.PaceCamResult.Evidence.PaceOid = gm
			checkTampered(rt, p, c, "CAM", "CAM.PaceOid", "gm-oid", rep, []byte(e.PaceOid.String()), []byte(gm.String()))

			// (4) the documented exception: joint replacement of ChipKaPub + EcadIC verifies
			if j := jointReplacement(r.DocEx, o, st); j != nil {
				offj, err := offline(p, j)
				evid.Case("joint-replacement", true, fmt.Sprintf("joint/%x", o.Seed), nil)
				if err != nil || !verdictOf(&offj.Session).CAM {
					evid.Count("joint-replacement-rejected", 1) // allowed: the property only says this MAY pass
				} else {
					evid.Count("joint-replacement-accepted(documented)", 1)
				}
			}
		}
		// (5) every document file x byte mutation => the PA verdict fails
		if live.PA {
			files := readcheck.DocFiles(&r.DocEx.Document)
			for _, name := range []string{"SOD", "DG1", "DG2", "DG11", "DG14", "DG15", "CardSecurity"} {
				raw, ok := files[name]
				if !ok || len(raw) < 8 {
					continue
				}
				for k := 0; k < 2; k++ {
					mut := append([]byte{}, raw...)
					// change a content byte (not the outer header, so that the file still parses more often)
					i := 4 + st.intn(len(mut)-4)
					if name == "SOD" || name == "CardSecurity" {
						// a CMS object also carries octets no signature covers (outer algorithm
						// identifiers, unsigned parts, BER slack); changing those is not a change of
						// the document's content, so mutate inside the authenticated regions only
						regs := authenticatedRegions(p, raw, name == "SOD")
						if len(regs) == 0 {
							evid.Infra(rt, "no authenticated region located in %s", name)
						}
						reg := regs[st.intn(len(regs))]
						// ... and, inside them, only CONTENT octets of primitive elements: an identifier or
						// length octet can be changed into another encoding of the same value (0F -> 80, an
						// indefinite length that the decoder closes at the end of its parent), which a
						// verifier that re-encodes the signed attributes in DER - as RFC 5652 5.4 has it do -
						// rightly accepts: the document's content did not change
						leaf := primitiveContent(raw)
						var cand []int
						for j := reg[0]; j < reg[1]; j++ {
							if leaf[j] {
								cand = append(cand, j)
							}
						}
						if len(cand) == 0 {
							evid.Count("file-mutation-no-content-octet-in-region", 1)
							continue
						}
						i = cand[st.intn(len(cand))]
					}
					mut[i] ^= byte(1 + st.intn(255))
					checkFileTampered(rt, p, r.DocEx, name, mut, i, rep)
				}
			}
		}
		// (6) EF.CardAccess is covered by no hash; what vouches for it is the completeness verdict
		// (every one of its entries must be an entry of DG14): an octet changed inside it that leaves
		// some entry outside DG14 must make that verdict fail offline
		if live.Verify {
			files := readcheck.DocFiles(&r.DocEx.Document)
			ca, dg14 := files["CardAccess"], files["DG14"]
			for k := 0; k < 3 && len(ca) > 4 && len(dg14) > 4; k++ {
				mut := append([]byte{}, ca...)
				i := 2 + st.intn(len(mut)-2)
				mut[i] ^= byte(1 + st.intn(255))
				checkCardAccessTampered(rt, p, r.DocEx, mut, dg14, i, rep)
			}
		}
	}
}

func oidOf(dotted string) asn1.ObjectIdentifier {
	var out asn1.ObjectIdentifier
	cur, have := 0, false
	for i := 0; i <= len(dotted); i++ {
		if i == len(dotted) || dotted[i] == '.' {
			if have {
				out = append(out, cur)
			}
			cur, have = 0, false
			continue
		}
		cur, have = cur*10+int(dotted[i]-'0'), true
	}
	return out
}

func checkTampered(rt failer, p *persona.Persona, c *document.DocumentEx, mech, fname, mname string, rep map[string]any, before, after []byte) {
	evid.CaseFn("tamper/"+fname+"/"+mname, true, fmt.Sprintf("%s/%s/%x/%x", fname, mname, before, after), func() any {
		return map[string]any{"mechanism": mech, "field": fname, "mutation": mname, "before": evid.Hex(before), "after": evid.Hex(after), "session": rep}
	})
	r2 := map[string]any{"field": fname, "mutation": mname, "before": hex.EncodeToString(before), "after": hex.EncodeToString(after)}
	for k, v := range rep {
		r2[k] = v
	}
	var off *document.DocumentEx
	var err error
	func() {
		defer func() {
			if e := recover(); e != nil {
				err = fmt.Errorf("panic: %v", e)
				evid.Count("tampered-evidence-panics(C12)", 1)
			}
		}()
		off, err = offline(p, c)
	}()
	if err != nil {
		return // hard failure: the verdict certainly did not pass
	}
	if mechSuccess(verdictOf(&off.Session), mech) {
		evid.Fail(rt, "tamper-"+fname, r2, "evidence field %s changed (%s) but the %s verdict still passes offline", fname, mname, mech)
	}
}

func checkFileTampered(rt failer, p *persona.Persona, ex *document.DocumentEx, name string, mut []byte, pos int, rep map[string]any) {
	c := *ex
	doc := c.Document // copy of the struct; replace one file by a re-parsed mutated one
	var err error
	switch name {
	case "SOD":
		doc.Mf.Lds1.Sod, err = document.NewSOD(mut)
	case "CardSecurity":
		doc.Mf.CardSecurity, err = document.NewCardSecurity(mut)
	default:
		var n int
		fmt.Sscanf(name, "DG%d", &n)
		d2 := doc
		err = d2.NewDG(n, mut)
		doc = d2
	}
	if err != nil {
		evid.Count("file-mutation-unparsable", 1)
		return
	}
	c.Document = doc
	evid.CaseFn("tamper-file/"+name, true, fmt.Sprintf("%s/%d/%x", name, pos, mut[pos]), func() any {
		return map[string]any{"file": name, "file_len": len(mut), "position": pos, "new_octet": mut[pos], "mutated_file": evid.Hex(mut)}
	})
	off, err := offline(p, &c)
	if err != nil {
		return
	}
	if verdictOf(&off.Session).PA {
		r2 := map[string]any{"file": name, "pos": pos, "mutated": hex.EncodeToString(mut)}
		for k, v := range rep {
			r2[k] = v
		}
		evid.Fail(rt, "tamper-file-"+name, r2, "file %s changed at offset %d but passive authentication still passes offline", name, pos)
	}
}

func checkCardAccessTampered(rt failer, p *persona.Persona, ex *document.DocumentEx, mut, dg14 []byte, pos int, rep map[string]any) {
	mv, err1 := ldsref.SecurityInfos(mut)
	dv, err2 := ldsref.DG14(dg14)
	if err1 != nil || err2 != nil {
		evid.Count("cardaccess-mutation-not-a-securityinfos-set", 1)
		return
	}
	foreign := false
	for _, e := range mv.Infos {
		in := false
		for _, d := range dv.Infos {
			in = in || bytes.Equal(e.Raw, d.Raw)
		}
		foreign = foreign || !in
	}
	if !foreign {
		evid.Count("cardaccess-mutation-still-contained", 1)
		return
	}
	c := *ex
	doc := c.Document
	var err error
	if doc.Mf.CardAccess, err = document.NewCardAccess(mut); err != nil {
		evid.Count("file-mutation-unparsable", 1)
		return
	}
	c.Document = doc
	evid.CaseFn("tamper-file/CardAccess", true, fmt.Sprintf("CardAccess/%d/%x", pos, mut[pos]), func() any {
		return map[string]any{"file": "CardAccess", "file_len": len(mut), "position": pos, "new_octet": mut[pos], "mutated_file": evid.Hex(mut), "entries": len(mv.Infos)}
	})
	off, err := offline(p, &c)
	if err != nil {
		return
	}
	if verdictOf(&off.Session).Verify {
		r2 := map[string]any{"file": "CardAccess", "pos": pos, "mutated": hex.EncodeToString(mut), "dg14": hex.EncodeToString(dg14)}
		for k, v := range rep {
			r2[k] = v
		}
		evid.Fail(rt, "tamper-file-CardAccess", r2, "EF.CardAccess changed at offset %d (an entry is no longer an entry of DG14) but the completeness verdict still passes offline", pos)
	}
}

// jointReplacement builds the documented tamper gap: a new ChipKaPub' with
// EcadIC re-encrypted under the keys derived from TermKaPri * ChipKaPub'.
func jointReplacement(ex *document.DocumentEx, o persona.Opts, st *rng) *document.DocumentEx {
	e := ex.Session.PaceCamResult.Evidence
	cv := ecc.ByPaceID(e.ParameterId)
	suite, ok := chipsim.PaceSuiteByOID(e.PaceOid.String())
	if cv == nil || !ok {
		return nil
	}
	cp := suite.Cipher
	bs := 16
	chipKa, err := cv.Decode(e.ChipKaPub)
	if err != nil {
		return nil
	}
	sk := new(big.Int).SetBytes(e.TermKaPri)
	shared := cv.ScalarMult(sk, chipKa)
	ksEnc := mac.KDF(cv.FixedBytes(shared.X), nil, 1, cp)
	iv := mac.AESCBCEncrypt(ksEnc, make([]byte, bs), bytes.Repeat([]byte{0xFF}, bs))
	ca := mac.AESCBCDecrypt(ksEnc, iv, e.EcadIC)
	// new chip key-agreement key
	k := cv.ScalarFromBytes(st.bytes(cv.ByteLen + 8))
	newPub := cv.ScalarBaseMult(k)
	shared2 := cv.ScalarMult(sk, newPub)
	ksEnc2 := mac.KDF(cv.FixedBytes(shared2.X), nil, 1, cp)
	iv2 := mac.AESCBCEncrypt(ksEnc2, make([]byte, bs), bytes.Repeat([]byte{0xFF}, bs))
	c := cloneEx(ex)
	c.Session.PaceCamResult.Evidence.ChipKaPub = cv.Encode(newPub)
	c.Session.PaceCamResult.Evidence.EcadIC = mac.AESCBCEncrypt(ksEnc2, iv2, ca)
	return c
}

// authenticatedRegions locates, inside an EF.SOD / EF.CardSecurity file, the
// byte ranges a signature covers: the eContent, the signed attributes
// (content octets), the signature value and the DS TBSCertificate.
// primitiveContent marks the content octets of the primitive elements of a BER file (independent reader).
func primitiveContent(file []byte) []bool {
	out := make([]bool, len(file))
	nodes, err := ber.Parse(file, ber.Options{})
	if err != nil {
		return out
	}
	var walk func(ns []*ber.Node)
	walk = func(ns []*ber.Node) {
		for _, n := range ns {
			if n.Constructed {
				walk(n.Children)
				continue
			}
			for j := n.End - len(n.Value); j < n.End; j++ {
				out[j] = true
			}
		}
	}
	walk(nodes)
	return out
}

func authenticatedRegions(p *persona.Persona, file []byte, wrapped77 bool) [][2]int {
	var out [][2]int
	add := func(part []byte, skip int) {
		if len(part) <= skip {
			return
		}
		if i := bytes.Index(file, part[skip:]); i >= 0 {
			out = append(out, [2]int{i, i + len(part) - skip})
		}
	}
	v, err := issuer.ParseSignedData(file, wrapped77)
	if err != nil {
		return nil
	}
	add(v.EContent, 0)
	for _, si := range v.Signers {
		add(si.SignedAttrs, 4) // skip the re-tagged SET header
		add(si.Signature, 0)
	}
	add(p.PKI.DS.TBS, 0)
	return out
}

// TestEvidenceAfterFurtherTraffic: the protocol objects used directly (not through reader.ReadDocument,
// where Chip Authentication is the last thing said to the chip): access control, DG14, Chip
// Authentication, THEN further protected reads on the same session, then serialisation.  "Evidence
// captured from a genuine session always verifies" - whatever the session went on to do after capture.
func TestEvidenceAfterFurtherTraffic(t *testing.T) {
	evid.RapidCheck(t, 240, 8000, func(rt *rapid.T) {
		var o persona.Opts
		o.Seed = rapid.SliceOfN(rapid.Byte(), 8, 8).Draw(rt, "seed")
		o.Country, o.Layout, o.Trusted, o.Extended = "NL", "TD3", true, true
		o.Access = rapid.SampledFrom([]string{"BAC", "PACE", "PACE+BAC"}).Draw(rt, "access")
		o.PaceID = rapid.SampledFrom([]int{12, 13, 10}).Draw(rt, "paceId")
		o.PaceCipher = rapid.SampledFrom([]mac.Cipher{"3DES", "AES-128", "AES-256"}).Draw(rt, "paceCipher")
		o.CA = true
		o.CACurve = rapid.SampledFrom([]string{"P-256", "P-224", "brainpoolP256r1", "P-384", "P-521"}).Draw(rt, "caCurve")
		o.CACipher = rapid.SampledFrom([]mac.Cipher{"3DES", "AES-128", "AES-192", "AES-256"}).Draw(rt, "caCipher")
		o.CAKeyID = rapid.Bool().Draw(rt, "caKeyId")
		o.DGs = []int{11}
		extra := rapid.IntRange(0, 4).Draw(rt, "reads-after-ca")
		libSeed := rapid.SliceOfN(rapid.Byte(), 8, 8).Draw(rt, "libSeed")
		rep := reproOf(o, libSeed)
		rep["readsAfterCA"] = extra
		p, err := persona.Build(o)
		if err != nil {
			evid.Infra(rt, "persona.Build: %v", err)
		}
		chip := p.NewChip()
		restore := detrand.Install(append([]byte("lib"), libSeed...))
		defer restore()
		nfc := iso7816.NewNfcSession(chip)
		doc := &document.Document{}
		pass, err := readcheck.Password(p, 0)
		if err != nil {
			evid.Infra(rt, "password: %v", err)
		}
		step := func(what string, err error) {
			if err != nil {
				evid.Fail(rt, "direct-session", rep, "%s against a genuine chip failed: %v", what, err)
			}
		}
		if o.Access == "BAC" {
			_, err = nfc.SelectAid(chipsim.AidMRTD)
			step("SELECT application", err)
			res, err := bac.NewBAC(nfc, doc, pass).DoBAC()
			if err == nil && (res == nil || !res.Success) {
				err = fmt.Errorf("no success")
			}
			step("BAC", err)
		} else {
			ca, err := nfc.ReadFile(0x011C)
			step("reading EF.CardAccess", err)
			doc.Mf.CardAccess, err = document.NewCardAccess(ca)
			step("NewCardAccess", err)
			res, _, err := pace.NewPace(nfc, doc, pass).DoPACE()
			if err == nil && (res == nil || !res.Success) {
				err = fmt.Errorf("no success")
			}
			step("PACE", err)
			_, err = nfc.SelectAid(chipsim.AidMRTD)
			step("SELECT application", err)
		}
		dg14, err := nfc.ReadFile(0x010E)
		step("reading DG14", err)
		step("NewDG(14)", doc.NewDG(14, dg14))
		car, err := chipauth.NewChipAuth(nfc, doc).DoChipAuth()
		if err == nil && (car == nil || !car.Success || car.Evidence == nil) {
			err = fmt.Errorf("no successful result with evidence")
		}
		step("Chip Authentication", err)
		for i := 0; i < extra; i++ {
			fid := []uint16{0x0101, 0x011E, 0x010B, 0x010E}[i%4]
			_, err := nfc.ReadFile(fid)
			step(fmt.Sprintf("protected read of %04x after Chip Authentication", fid), err)
		}
		ex := document.DocumentEx{Document: *doc}
		ex.Session.ChipAuthResult = car
		evid.Case(fmt.Sprintf("direct-session/reads-after-ca-%d", extra), true, fmt.Sprintf("%v/%x", rep, o.Seed), rep)
		off, err := offline(p, &ex)
		if err != nil {
			evid.Fail(rt, "direct-session", rep, "offline verification of the serialised session failed: %v", err)
		}
		if off.Session.ChipAuthResult == nil || !off.Session.ChipAuthResult.Success {
			evid.Fail(rt, "direct-session", rep, "Chip Authentication evidence of a genuine session does not verify offline after %d further protected reads on that session (err: %v)", extra, off.Session.ChipAuthErr)
		}
	})
}
