package c07

import (
	"crypto"
	"fmt"
	"math/big"
	"testing"

	"pgregory.net/rapid"

	"verifharness/evid"
	"verifharness/ref/iso9796"
)

// trailers a conforming chip may use (ICAO 9303-11 6.1.2.2: option 1 = BC for
// SHA-1, option 2 = xxCC for SHA-224/256/384/512).  33CC (explicit SHA-1) is
// valid ISO/IEC 9796-2 but not ICAO; it is presented as an "either" class.
var icaoTrailers = []iso9796.Trailer{iso9796.TrailerBC, iso9796.TrailerSHA224, iso9796.TrailerSHA256, iso9796.TrailerSHA384, iso9796.TrailerSHA512}

var challengeGen = rapid.OneOf(
	rapid.SampledFrom([][]byte{
		{0, 0, 0, 0, 0, 0, 0, 0},
		{0xff, 0xff, 0xff, 0xff, 0xff, 0xff, 0xff, 0xff},
		{0, 0, 0, 0, 0, 0, 0, 1},
		{0x80, 0, 0, 0, 0, 0, 0, 0},
		{0x6a, 0x6a, 0x6a, 0x6a, 0xbc, 0xbc, 0xcc, 0xbc},
	}),
	rapid.SliceOfN(rapid.Byte(), 8, 8),
	rapid.SliceOfN(rapid.Byte(), 8, 8),
)

var m1Kinds = []string{"random", "zero", "leading-zeros", "ff", "6a-bc"}

func drawM1(rt *rapid.T, kind string, n int) []byte {
	m1 := make([]byte, n)
	switch kind {
	case "random":
		copy(m1, rapid.SliceOfN(rapid.Byte(), n, n).Draw(rt, "m1"))
	case "zero":
	case "leading-zeros":
		z := rapid.IntRange(1, min(n, 12)).Draw(rt, "m1zeros")
		copy(m1, rapid.SliceOfN(rapid.Byte(), n, n).Draw(rt, "m1"))
		for i := 0; i < z && i < n; i++ {
			m1[i] = 0
		}
	case "ff":
		for i := range m1 {
			m1[i] = 0xff
		}
	case "6a-bc":
		// content that looks like headers and trailers
		pat := []byte{0x6a, 0xbc, 0x34, 0xcc, 0x00, 0x6a}
		for i := range m1 {
			m1[i] = pat[i%len(pat)]
		}
	}
	return m1
}

var rsaMutations = []string{
	"genuine", "genuine", "genuine", "genuine", // weight
	"sig-bitflip", "sig-bitflip", "sig-drop-last", "sig-prepend-00", "sig-append-00", "sig-plus-n", "sig-n-minus-s",
	"chal-bitflip", "chal-other", "other-key",
	"trailer-digest-mismatch", "header", "f-bitflip", "f-bitflip",
	"digest-m1-only", "digest-chal-only", "digest-swapped-order", "digest-prefix-only",
	"short-m1", "sig-const", "explicit-sha1-trailer",
}

type rsaGenuine struct {
	keyIdx  int
	key     iso9796.Key
	trailer iso9796.Trailer
	m1      []byte
	chal    []byte
	f       []byte
	sig     []byte
}

func makeRSAGenuine(keyIdx int, tr iso9796.Trailer, m1, chal []byte) (*rsaGenuine, error) {
	k := iso9796.Pool()[keyIdx]
	f, err := iso9796.BuildF(m1, chal, tr.Hash(), tr)
	if err != nil {
		return nil, err
	}
	sig, err := iso9796.SignF(k.N, k.D, f)
	if err != nil {
		return nil, err
	}
	return &rsaGenuine{keyIdx, k, tr, m1, chal, f, sig}, nil
}

func (g *rsaGenuine) present(class, expect, detail string, keyIdx int, chal, rsp []byte) presented {
	return presented{Kind: "rsa", KeyIdx: keyIdx, Bits: iso9796.Pool()[keyIdx].Bits, Challenge: hx(chal), Response: hx(rsp),
		Class: class, Expect: expect, Detail: g.trailer.String() + " " + detail}
}

func otherHash(h crypto.Hash, pick int) crypto.Hash {
	all := []crypto.Hash{crypto.SHA1, crypto.SHA224, crypto.SHA256, crypto.SHA384, crypto.SHA512}
	var rest []crypto.Hash
	for _, x := range all {
		if x != h {
			rest = append(rest, x)
		}
	}
	return rest[pick%len(rest)]
}

// mutateRSA derives the presented triple of the given class from a genuine
// signature.  a, b are generated integers the class may use.
func mutateRSA(g *rsaGenuine, class string, a, b int, rnd []byte) (presented, error) {
	k := g.key
	width := (k.Bits + 7) / 8
	signF := func(f []byte) ([]byte, error) { return iso9796.SignF(k.N, k.D, f) }
	fWith := func(d []byte, tr iso9796.Trailer, m1 []byte) []byte {
		f := append([]byte{0x6A}, m1...)
		f = append(f, d...)
		return append(f, tr.Bytes()...)
	}
	switch class {
	case "genuine":
		return g.present(class, expAccept, "", g.keyIdx, g.chal, g.sig), nil
	case "sig-bitflip":
		bit := a % (8 * len(g.sig))
		return g.present(class, expReject, fmt.Sprintf("bit %d", bit), g.keyIdx, g.chal, flipBit(g.sig, bit)), nil
	case "sig-drop-last":
		return g.present(class, expReject, "", g.keyIdx, g.chal, g.sig[:len(g.sig)-1]), nil
	case "sig-prepend-00":
		// same integer: not what a chip sends, but still the signature
		return g.present(class, expEither, "", g.keyIdx, g.chal, append([]byte{0}, g.sig...)), nil
	case "sig-append-00":
		return g.present(class, expReject, "", g.keyIdx, g.chal, append(append([]byte{}, g.sig...), 0)), nil
	case "sig-plus-n":
		// S + n: the same residue, non-canonical (malleability; not in the property)
		v := new(big.Int).Add(new(big.Int).SetBytes(g.sig), k.N)
		return g.present(class, expEither, "", g.keyIdx, g.chal, v.FillBytes(make([]byte, width+1))), nil
	case "sig-n-minus-s":
		v := new(big.Int).Sub(k.N, new(big.Int).SetBytes(g.sig))
		return g.present(class, expReject, "", g.keyIdx, g.chal, v.FillBytes(make([]byte, width))), nil
	case "chal-bitflip":
		bit := a % 64
		return g.present(class, expReject, fmt.Sprintf("bit %d", bit), g.keyIdx, flipBit(g.chal, bit), g.sig), nil
	case "chal-other":
		c2 := append([]byte{}, rnd[:8]...)
		if hx(c2) == hx(g.chal) {
			c2[7] ^= 1
		}
		return g.present(class, expReject, "", g.keyIdx, c2, g.sig), nil
	case "other-key":
		// another pool key of the same modulus size holds DG15
		same := []int{}
		for i, x := range iso9796.Pool() {
			if x.Bits == k.Bits && i != g.keyIdx {
				same = append(same, i)
			}
		}
		return g.present(class, expReject, "", same[a%len(same)], g.chal, g.sig), nil
	case "trailer-digest-mismatch":
		// digest computed with h, trailer announces another hash; F keeps its length
		h := g.trailer.Hash()
		oh := otherHash(h, a)
		ot := iso9796.TrailerFor(oh)
		n := iso9796.FLen(k.N) - 1 - iso9796.DigestLen(h) - len(ot.Bytes())
		m1 := fit(g.m1, n)
		sig, err := signF(fWith(digest(h, cat(m1, g.chal)), ot, m1))
		if err != nil {
			return presented{}, err
		}
		return g.present(class, expReject, "announces "+ot.String(), g.keyIdx, g.chal, sig), nil
	case "header":
		hd := []byte{0x6B, 0x4A, 0x4B, 0x2A, 0xEA, 0x6E, 0x68, 0x00, 0x01}[a%9]
		f := append([]byte{}, g.f...)
		f[0] = hd
		if new(big.Int).SetBytes(f).Cmp(k.N) >= 0 {
			f[0] = 0x4A
			hd = 0x4A
		}
		sig, err := signF(f)
		if err != nil {
			return presented{}, err
		}
		exp := expReject
		if hd == 0 && len(f) > 1 && f[1] == 0x6A {
			exp = expEither
		}
		return g.present(class, exp, fmt.Sprintf("header %02X", hd), g.keyIdx, g.chal, sig), nil
	case "f-bitflip":
		// any single-bit change of the representative before signing: header, M1 (digest no longer matches), digest, trailer
		var bit int
		switch b % 4 {
		case 0: // header
			bit = a % 8
		case 1: // trailer
			bit = 8*len(g.f) - 1 - a%(8*len(g.trailer.Bytes()))
		case 2: // digest
			dl := iso9796.DigestLen(g.trailer.Hash())
			bit = 8*(len(g.f)-len(g.trailer.Bytes())-dl) + a%(8*dl)
		default:
			bit = a % (8 * len(g.f))
		}
		f := flipBit(g.f, bit)
		if new(big.Int).SetBytes(f).Cmp(k.N) >= 0 {
			return presented{}, fmt.Errorf("representative above n")
		}
		sig, err := signF(f)
		if err != nil {
			return presented{}, err
		}
		return g.present(class, expReject, fmt.Sprintf("F bit %d of %d", bit, 8*len(g.f)), g.keyIdx, g.chal, sig), nil
	case "digest-m1-only", "digest-chal-only", "digest-swapped-order", "digest-prefix-only":
		h := g.trailer.Hash()
		var d []byte
		switch class {
		case "digest-m1-only":
			d = digest(h, g.m1)
		case "digest-chal-only":
			d = digest(h, g.chal)
		case "digest-swapped-order":
			if hx(cat(g.chal, g.m1)) == hx(cat(g.m1, g.chal)) {
				return presented{}, fmt.Errorf("M2||M1 equals M1||M2 (constant contents)")
			}
			d = digest(h, cat(g.chal, g.m1))
		default:
			// correct first (a mod (len-1))+1 octets, the rest replaced
			d = digest(h, cat(g.m1, g.chal))
			keep := 1 + a%(len(d)-1)
			for i := keep; i < len(d); i++ {
				d[i] ^= rnd[i%len(rnd)] | 1
			}
		}
		sig, err := signF(fWith(d, g.trailer, g.m1))
		if err != nil {
			return presented{}, err
		}
		return g.present(class, expReject, "", g.keyIdx, g.chal, sig), nil
	case "short-m1":
		// a correctly formed representative that is shorter than the modulus allows (not what a chip produces)
		n := a % len(g.m1)
		m1 := g.m1[:n]
		sig, err := iso9796.Sign(k.N, k.D, m1, g.chal, g.trailer.Hash(), g.trailer)
		if err != nil {
			return presented{}, err
		}
		return g.present(class, expEither, fmt.Sprintf("len(M1)=%d of %d", n, len(g.m1)), g.keyIdx, g.chal, sig), nil
	case "sig-const":
		var v *big.Int
		switch a % 5 {
		case 0:
			v = big.NewInt(0)
		case 1:
			v = big.NewInt(1)
		case 2:
			v = new(big.Int).Sub(k.N, big.NewInt(1))
		case 3:
			v = new(big.Int).Set(k.N)
		default:
			v = big.NewInt(0x6A)
		}
		rsp := v.FillBytes(make([]byte, width))
		if b%4 == 0 {
			rsp = v.Bytes() // minimal, possibly empty
		}
		return g.present(class, expReject, fmt.Sprintf("S=%s", []string{"0", "1", "n-1", "n", "6A"}[a%5]), g.keyIdx, g.chal, rsp), nil
	case "explicit-sha1-trailer":
		// 33CC: SHA-1 with the explicit ISO/IEC 10118-3 identifier; valid ISO 9796-2, not ICAO
		n := iso9796.M1Len(k.N, crypto.SHA1, iso9796.TrailerSHA1)
		sig, err := iso9796.Sign(k.N, k.D, fit(g.m1, n), g.chal, crypto.SHA1, iso9796.TrailerSHA1)
		if err != nil {
			return presented{}, err
		}
		p := g.present(class, expEither, "", g.keyIdx, g.chal, sig)
		p.Detail = "33CC"
		return p, nil
	}
	return presented{}, fmt.Errorf("unknown class %s", class)
}

func cat(a, b []byte) []byte { return append(append([]byte{}, a...), b...) }

// fit returns exactly n octets taken from src (repeated / truncated).
func fit(src []byte, n int) []byte {
	out := make([]byte, n)
	for i := range out {
		if len(src) > 0 {
			out[i] = src[i%len(src)]
		}
	}
	return out
}

// keyWeights: small moduli dominate the quick tier (cost), every size appears.
func drawKeyIdx(rt *rapid.T) int {
	pool := iso9796.Pool()
	if rapid.IntRange(0, 9).Draw(rt, "keyclass") < 6 {
		// sizes <= 2048
		small := []int{}
		for i, k := range pool {
			if k.Bits <= 2048 {
				small = append(small, i)
			}
		}
		return rapid.SampledFrom(small).Draw(rt, "key")
	}
	return rapid.IntRange(0, len(pool)-1).Draw(rt, "key")
}

// TestRSA: random (key, trailer, M1, challenge, mutation class).
func TestRSA(t *testing.T) {
	evid.RapidCheck(t, 2400, 100000, func(rt *rapid.T) {
		keyIdx := drawKeyIdx(rt)
		tr := rapid.SampledFrom(icaoTrailers).Draw(rt, "trailer")
		chal := challengeGen.Draw(rt, "challenge")
		kind := rapid.SampledFrom(m1Kinds).Draw(rt, "m1kind")
		k := iso9796.Pool()[keyIdx]
		m1 := drawM1(rt, kind, iso9796.M1Len(k.N, tr.Hash(), tr))
		class := rapid.SampledFrom(rsaMutations).Draw(rt, "class")
		a := rapid.IntRange(0, 1<<20).Draw(rt, "a")
		b := rapid.IntRange(0, 1<<10).Draw(rt, "b")
		rnd := rapid.SliceOfN(rapid.Byte(), 16, 16).Draw(rt, "rnd")
		g, err := makeRSAGenuine(keyIdx, tr, m1, chal)
		if err != nil {
			evid.Infra(rt, "cannot sign genuine response: %v", err)
		}
		p, err := mutateRSA(g, class, a, b, rnd)
		if err != nil {
			// e.g. a flipped representative that is not below n: nothing to present
			evid.Count("rsa-unbuildable/"+class, 1)
			return
		}
		evid.Count("rsa-trailer/"+tr.String(), 1)
		evid.Count("rsa-m1/"+kind, 1)
		run(rt, "rsa", p)
	})
}

// TestRSAGenuineMatrix: every pool key x every ICAO trailer x every M1 kind
// (deterministic contents) must be accepted; the same response with the last
// challenge bit flipped must be rejected.
func TestRSAGenuineMatrix(t *testing.T) {
	idx := 0
	for ki, k := range iso9796.Pool() {
		for _, tr := range icaoTrailers {
			for mi, kind := range m1Kinds {
				idx++
				if !evid.MineIdx(idx) {
					continue
				}
				if !evid.Thorough() && k.Bits > 2048 && mi > 1 {
					continue
				}
				n := iso9796.M1Len(k.N, tr.Hash(), tr)
				m1 := make([]byte, n)
				for i := range m1 {
					switch kind {
					case "random":
						m1[i] = byte(i*131 + ki*17 + 5)
					case "leading-zeros":
						if i >= 3 {
							m1[i] = byte(i*7 + 1)
						}
					case "ff":
						m1[i] = 0xff
					case "6a-bc":
						m1[i] = []byte{0x6a, 0xbc, 0x34, 0xcc}[i%4]
					}
				}
				chal := []byte{byte(ki), byte(mi), 0, 0xff, 0x80, 1, 2, byte(tr)}
				g, err := makeRSAGenuine(ki, tr, m1, chal)
				if err != nil {
					evid.Infra(t, "matrix: %v", err)
				}
				for _, class := range []string{"genuine", "chal-bitflip", "f-bitflip"} {
					p, err := mutateRSA(g, class, 63, 1, make([]byte, 16))
					if err != nil {
						evid.Infra(t, "matrix: %v", err)
					}
					evid.Count("rsa-trailer/"+tr.String(), 1)
					run(t, "rsa-matrix", p)
				}
			}
		}
	}
	evid.Exhaustive("rsa-genuine-matrix(key x trailer x m1kind)", evid.Thorough())
}

// TestRSABitflipsEnumerated: EVERY single-bit mutation of a genuine signature
// is presented (quick: one 1024-bit and one 1028-bit key; thorough: one key of
// every size) and every single-bit mutation of the challenge.
func TestRSABitflipsEnumerated(t *testing.T) {
	sizes := []int{1024, 1028}
	if evid.Thorough() {
		sizes = []int{1024, 1028, 1280, 1536, 2047, 2048, 3071, 3072, 4096}
	}
	idx := 0
	complete := true
	for si, bits := range sizes {
		var ki int
		for i, k := range iso9796.Pool() {
			if k.Bits == bits && (k.E.Int64() == 3) == (si%2 == 0) {
				ki = i
				break
			}
		}
		k := iso9796.Pool()[ki]
		tr := icaoTrailers[si%len(icaoTrailers)]
		m1 := make([]byte, iso9796.M1Len(k.N, tr.Hash(), tr))
		for i := range m1 {
			m1[i] = byte(i*29 + si)
		}
		g, err := makeRSAGenuine(ki, tr, m1, []byte{1, 2, 3, 4, 5, 6, 7, byte(si)})
		if err != nil {
			evid.Infra(t, "bitflips: %v", err)
		}
		for bit := 0; bit < 8*len(g.sig); bit++ {
			idx++
			if !evid.MineIdx(idx) {
				continue
			}
			p, _ := mutateRSA(g, "sig-bitflip", bit, 0, nil)
			p.Class = "sig-bitflip-enum"
			run(t, "rsa-bitflips", p)
		}
		for bit := 0; bit < 64; bit++ {
			idx++
			if !evid.MineIdx(idx) {
				continue
			}
			p, _ := mutateRSA(g, "chal-bitflip", bit, 0, nil)
			p.Class = "chal-bitflip-enum"
			run(t, "rsa-bitflips", p)
		}
	}
	evid.Exhaustive("rsa-single-bit-mutations", complete)
}

// TestRSALeadingZeroSignature searches (deterministically) for genuine
// signatures S whose first octet is zero - the chip still sends ceil(k/8)
// octets - and for representatives whose recovery needs the "pad to key width"
// path; both must be accepted, with and without the leading zero octet.
func TestRSALeadingZeroSignature(t *testing.T) {
	if evid.Shard() != 0 {
		return
	}
	found := 0
	for ki, k := range iso9796.Pool() {
		if k.Bits != 1024 && k.Bits != 1028 {
			continue
		}
		tr := iso9796.TrailerSHA256
		n := iso9796.M1Len(k.N, tr.Hash(), tr)
		chal := []byte{9, 8, 7, 6, 5, 4, 3, byte(ki)}
		limit := evid.Pick(1500, 6000)
		for ctr := 0; ctr < limit; ctr++ {
			m1 := make([]byte, n)
			m1[n-1], m1[n-2], m1[n-3] = byte(ctr), byte(ctr>>8), byte(ki)
			g, err := makeRSAGenuine(ki, tr, m1, chal)
			if err != nil {
				evid.Infra(t, "%v", err)
			}
			if g.sig[0] != 0 {
				continue
			}
			lead := 0
			for lead < len(g.sig) && g.sig[lead] == 0 {
				lead++
			}
			found++
			p := g.present("genuine-leading-zero-S", expAccept, fmt.Sprintf("S has %d leading zero octets", lead), ki, chal, g.sig)
			run(t, "rsa-leading-zero", p)
			p2 := g.present("stripped-leading-zero-S", expEither, "", ki, chal, g.sig[lead:])
			run(t, "rsa-leading-zero", p2)
			break
		}
	}
	evid.Metric("rsa_leading_zero_signatures_found", found)
	if found < 2 {
		evid.Infra(t, "found only %d signatures with a leading zero octet", found)
	}
}

// TestRSACapturedVector: the response captured from a real passport that the
// library's own tests use; accepted over its nonce, rejected over any other.
func TestRSACapturedVector(t *testing.T) {
	if evid.Shard() != 0 {
		return
	}
	dg15 := unhex("6F8201023081FF300D06092A864886F70D01010105000381ED003081E90281E100BB8F93F4DC95E205CDA17C6927AB1E365B13065D03CD12E0FCE95D96840529453202F56CC4C13F77CD062930C8BC89A2873B257045C286E601CF3C09323A53103314902804AA10A314628CE222206A8866946A36B442041BB54AC81E6855DD1D6E16101833D65A191C20AC8B33B8A1A32920F46043F8031CF2BC17417030865FC5BE5A39DEE423BCBA3CA8177168EB23CFE01BA43EC87711B1CFFF85DB46F300DD8AE317B50D543B573E119E23AF7070D0B2FED6A3B2313A5EC02A531AAED1741F4390D1013E2A0F081EAC5DC8B0A1B2C6BDB1206F08D30E3643E1E5BDF536110203010001")
	nonce := unhex("96302b0f3d7e7864")
	sig := unhex("474256306840c0ab1b63c10e1c26bdfef4a0dd843920283cc4e6e70a60f2bd25dc7725f9677bc1cde66379dc28b38e8490f33afb2d10f9980c44c0bfc175d2b6684218f535c92fdd3e18db770a9ccbf91db3c7f0138e6d9e94b9bc8371761e3abed5e5e9b260279cfb238b58ae0d6a01da51c74c2a3ecd62c448bd9f20127f7384587287fa971204234e55b1a856c3e5aaaa620bb799a68fbae08ee132bb61683eba9b0b40dc1e54641cad975b16991cab50af82e3f3985afd19e7427a125f5b4b9878b12a5d2e01c7eedca3bb41c6fc05dccd818bce379d04b1f2f5d43487d3")
	if lv := callLib(dg15, nonce, sig); !lv.accepted {
		evid.Fail(t, "rsa-captured", map[string]string{"dg15": hx(dg15), "challenge": hx(nonce), "response": hx(sig)}, "captured genuine response rejected: %v %s", lv.err, lv.problem)
	}
	for bit := 0; bit < 64; bit++ {
		if lv := callLib(dg15, flipBit(nonce, bit), sig); lv.accepted || lv.problem != "" {
			evid.Fail(t, "rsa-captured", map[string]string{"dg15": hx(dg15), "challenge": hx(flipBit(nonce, bit)), "response": hx(sig)}, "captured response accepted over another challenge %s", lv.problem)
		}
	}
	evid.Case("rsa/captured-vector", true, "captured", nil)
}
