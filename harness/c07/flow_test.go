package c07

import (
	"bytes"
	"crypto/rand"
	"encoding/asn1"
	"fmt"
	"io"
	"math/big"
	"sync"
	"testing"

	"github.com/gmrtd/gmrtd/activeauth"
	"github.com/gmrtd/gmrtd/cms"
	"github.com/gmrtd/gmrtd/document"
	"github.com/gmrtd/gmrtd/iso7816"
	"github.com/gmrtd/gmrtd/mobile"
	"github.com/gmrtd/gmrtd/password"
	"github.com/gmrtd/gmrtd/reader"
	"github.com/gmrtd/gmrtd/verifier"
	"pgregory.net/rapid"

	"verifharness/evid"
	"verifharness/ref/apdu"
	"verifharness/ref/ecc"
	"verifharness/ref/iso9796"
)

// chip is a tiny contact-less IC without access control: SELECT (MF, AID,
// EF by id), READ BINARY (even INS, offset in P1-P2), INTERNAL AUTHENTICATE.
// It parses every command itself (ref/apdu) from the encoded bytes and records
// what it saw.
type chip struct {
	files    map[uint16][]byte
	selected []byte
	sign     func(challenge []byte) []byte // AA private-key operation
	seenIA   [][]byte                      // data fields of INTERNAL AUTHENTICATE
	sentIA   [][]byte                      // responses to them
	problems []string
	failNext bool // answer the next INTERNAL AUTHENTICATE with 6F00 (once)
}

func sw(data []byte, status uint16) []byte {
	return append(append([]byte{}, data...), byte(status>>8), byte(status))
}

func (c *chip) Transceive(cla, ins, p1, p2 int, data []byte, le int, encoded []byte) []byte {
	cmd, err := apdu.Parse(encoded)
	if err != nil {
		c.problems = append(c.problems, fmt.Sprintf("unparsable command %x: %v", encoded, err))
		return sw(nil, 0x6700)
	}
	if int(cmd.CLA) != cla || int(cmd.INS) != ins || int(cmd.P1) != p1 || int(cmd.P2) != p2 || !bytes.Equal(cmd.Data, data) {
		c.problems = append(c.problems, fmt.Sprintf("Transceive arguments disagree with the encoded command %x", encoded))
	}
	switch cmd.INS {
	case 0xA4:
		switch cmd.P1 {
		case 0x00, 0x04:
			c.selected = nil
			return sw(nil, 0x9000)
		case 0x02:
			if len(cmd.Data) == 2 {
				if f, ok := c.files[uint16(cmd.Data[0])<<8|uint16(cmd.Data[1])]; ok {
					c.selected = f
					return sw(nil, 0x9000)
				}
			}
			c.selected = nil
			return sw(nil, 0x6A82)
		}
		return sw(nil, 0x6A86)
	case 0xB0:
		if c.selected == nil {
			return sw(nil, 0x6986)
		}
		off := int(cmd.P1)<<8 | int(cmd.P2)
		if cmd.P1&0x80 != 0 || off > len(c.selected) {
			return sw(nil, 0x6B00)
		}
		end := min(off+cmd.Ne, len(c.selected))
		return sw(c.selected[off:end], 0x9000)
	case 0x88:
		if cmd.CLA != 0 || cmd.P1 != 0 || cmd.P2 != 0 {
			return sw(nil, 0x6A86)
		}
		c.seenIA = append(c.seenIA, append([]byte{}, cmd.Data...))
		if len(cmd.Data) != 8 || cmd.Ne == 0 {
			return sw(nil, 0x6700)
		}
		if c.failNext {
			c.failNext = false
			c.sentIA = append(c.sentIA, nil)
			return sw(nil, 0x6F00)
		}
		rsp := c.sign(cmd.Data)
		c.sentIA = append(c.sentIA, rsp)
		return sw(rsp, 0x9000)
	}
	return sw(nil, 0x6D00)
}

// aaKey is a generated AA key pair with its DG15 file and chip-side signer.
type aaKey struct {
	desc string
	dg15 []byte
	sign func(challenge []byte) []byte
	// independent verification of (challenge, response)
	verify func(challenge, rsp []byte) bool
}

func drawAAKey(rt *rapid.T) aaKey {
	if rapid.Bool().Draw(rt, "rsa") {
		small := []int{}
		for i, k := range iso9796.Pool() {
			if k.Bits <= 2048 {
				small = append(small, i)
			}
		}
		ki := rapid.SampledFrom(small).Draw(rt, "key")
		k := iso9796.Pool()[ki]
		tr := rapid.SampledFrom(icaoTrailers).Draw(rt, "trailer")
		m1 := rapid.SliceOfN(rapid.Byte(), iso9796.M1Len(k.N, tr.Hash(), tr), iso9796.M1Len(k.N, tr.Hash(), tr)).Draw(rt, "m1")
		return aaKey{
			desc: fmt.Sprintf("rsa-%d key %d trailer %s", k.Bits, ki, tr),
			dg15: dg15File(iso9796.SPKI(k.N, k.E)),
			sign: func(ch []byte) []byte {
				s, err := iso9796.Sign(k.N, k.D, m1, ch, tr.Hash(), tr)
				if err != nil {
					panic(err)
				}
				return s
			},
			verify: func(ch, rsp []byte) bool { ok, _, _, _ := iso9796.Verify(k.N, k.E, rsp, ch); return ok },
		}
	}
	c := ecc.ByName(rapid.SampledFrom([]string{"P-192", "P-224", "P-256", "brainpoolP192r1", "brainpoolP256r1", "P-384", "brainpoolP320r1"}).Draw(rt, "curve"))
	d := c.ScalarFromBytes(rapid.SliceOfN(rapid.Byte(), c.ByteLen+8, c.ByteLen+8).Draw(rt, "d"))
	k := c.ScalarFromBytes(rapid.SliceOfN(rapid.Byte(), c.ByteLen+8, c.ByteLen+8).Draw(rt, "k"))
	form := rapid.SampledFrom(ecForms).Draw(rt, "form")
	der := rapid.Bool().Draw(rt, "der")
	pub := c.ScalarBaseMult(d)
	return aaKey{
		desc: fmt.Sprintf("ec %s %s der=%v d=%x", c.Name, form, der, d),
		dg15: dg15File(ecSPKI(c, pub, form)),
		sign: func(ch []byte) []byte {
			kk := new(big.Int).Set(k)
			for {
				r, s, err := c.Sign(d, digest(ecHashRule(c), ch), kk)
				if err == nil {
					if der {
						return ecc.SigDER(r, s)
					}
					return c.SigPlain(r, s)
				}
				kk.Add(kk, big.NewInt(1)).Mod(kk, c.N)
			}
		},
		verify: func(ch, rsp []byte) bool { return refECVerify(c, pub, ch, rsp).ok },
	}
}

var randMu sync.Mutex

// withRand replaces crypto/rand.Reader for the duration of f.
func withRand(stream []byte, f func()) {
	randMu.Lock()
	defer randMu.Unlock()
	old := rand.Reader
	rand.Reader = io.MultiReader(bytes.NewReader(stream), zeroReader{})
	defer func() { rand.Reader = old }()
	f()
}

type zeroReader struct{}

func (zeroReader) Read(p []byte) (int, error) {
	for i := range p {
		p[i] = 0xA5
	}
	return len(p), nil
}

// TestFlowChallenge: DoActiveAuth over a Transceiver.  The challenge the caller
// supplies (WithChallenge) - or the one the library draws from crypto/rand -
// is exactly the data field of the single INTERNAL AUTHENTICATE command the
// chip sees and exactly the recorded Evidence.Nonce; the recorded signature is
// the chip's response; a chip that signs another challenge (relay / replay) is
// refused.
func TestFlowChallenge(t *testing.T) {
	evid.RapidCheck(t, 400, 12000, func(rt *rapid.T) {
		key := drawAAKey(rt)
		mode := rapid.SampledFrom([]string{"caller", "caller", "internal", "chip-signs-other", "chip-replays", "bad-length"}).Draw(rt, "mode")
		chal := challengeGen.Draw(rt, "challenge")
		other := rapid.SliceOfN(rapid.Byte(), 8, 8).Draw(rt, "other")
		if bytes.Equal(other, chal) {
			other[0] ^= 0x40
		}
		repro := map[string]any{"key": key.desc, "dg15": hx(key.dg15), "mode": mode, "challenge": hx(chal), "other": hx(other)}
		evid.Case("flow/"+mode, true, fmt.Sprintf("%s/%s/%x", key.desc, mode, chal), repro)

		ch := &chip{sign: key.sign}
		switch mode {
		case "chip-signs-other":
			ch.sign = func(c []byte) []byte { return key.sign(other) }
		case "chip-replays":
			old := key.sign(other) // a response recorded in an earlier session
			ch.sign = func(c []byte) []byte { return old }
		}
		nfc := iso7816.NewNfcSession(ch)
		var doc document.Document
		if err := doc.NewDG(15, key.dg15); err != nil {
			evid.Fail(rt, "flow", repro, "DG15 rejected: %v", err)
		}
		aa := activeauth.NewActiveAuth(nfc, &doc)

		if mode == "bad-length" {
			n := rapid.SampledFrom([]int{0, 1, 7, 9, 16, 255}).Draw(rt, "len")
			if _, err := aa.WithChallenge(make([]byte, n)); err == nil {
				evid.Fail(rt, "flow", repro, "WithChallenge accepted a %d-byte challenge", n)
			}
			if _, err := aa.WithChallenge(nil); err == nil {
				evid.Fail(rt, "flow", repro, "WithChallenge accepted a nil challenge")
			}
			return
		}

		want := chal
		var res *document.ActiveAuthResult
		var err error
		if mode == "internal" {
			// the library draws RND.IFD from crypto/rand: feed it the generated value
			withRand(chal, func() { res, err = aa.DoActiveAuth() })
		} else {
			mine := append([]byte{}, chal...)
			if _, werr := aa.WithChallenge(mine); werr != nil {
				evid.Fail(rt, "flow", repro, "WithChallenge refused 8 bytes: %v", werr)
			}
			for i := range mine {
				mine[i] ^= 0xff // the caller's buffer is its own afterwards
			}
			res, err = aa.DoActiveAuth()
		}
		if len(ch.problems) > 0 {
			evid.Fail(rt, "flow", repro, "chip: %v", ch.problems)
		}
		if len(ch.seenIA) != 1 {
			evid.Fail(rt, "flow", repro, "chip saw %d INTERNAL AUTHENTICATE commands", len(ch.seenIA))
		}
		if !bytes.Equal(ch.seenIA[0], want) {
			evid.Fail(rt, "flow", repro, "challenge on the wire %x differs from the caller's %x", ch.seenIA[0], want)
		}
		genuine := mode == "caller" || mode == "internal"
		accepted := err == nil && res != nil && res.Success
		if res != nil && res.Success != (err == nil) {
			evid.Fail(rt, "flow", repro, "Success=%v with err=%v", res.Success, err)
		}
		if res == nil || res.Evidence == nil {
			evid.Fail(rt, "flow", repro, "no evidence recorded (err=%v)", err)
		}
		if !bytes.Equal(res.Evidence.Nonce, want) {
			evid.Fail(rt, "flow", repro, "recorded nonce %x differs from the challenge sent %x", res.Evidence.Nonce, want)
		}
		if !bytes.Equal(res.Evidence.Signature, ch.sentIA[0]) {
			evid.Fail(rt, "flow", repro, "recorded signature differs from the chip's response")
		}
		refOK := key.verify(want, ch.sentIA[0])
		if refOK != genuine {
			evid.Infra(rt, "flow: reference verdict %v for mode %s", refOK, mode)
		}
		if genuine && !accepted {
			evid.Fail(rt, "flow", repro, "genuine chip refused: %v", err)
		}
		if accepted && !refOK {
			evid.Fail(rt, "flow", repro, "response for another challenge accepted (mode %s)", mode)
		}
		evid.Count("responses-presented", 1)

		// A caller-supplied challenge stays in force for the object: when Active Authentication is
		// run again (a retry after a failed INTERNAL AUTHENTICATE, or simply a second run) the same
		// challenge is transmitted and recorded.
		if mode == "caller" {
			retries := rapid.IntRange(1, 3).Draw(rt, "reruns")
			failFirst := rapid.Bool().Draw(rt, "rerun-after-chip-error")
			for k := 0; k < retries; k++ {
				before := len(ch.seenIA)
				if failFirst && k == 0 {
					good := ch.sign
					ch.failNext = true
					res, err = aa.DoActiveAuth()
					ch.sign = good
					if err == nil && res != nil && res.Success {
						evid.Fail(rt, "flow-rerun", repro, "Active Authentication reported successful although INTERNAL AUTHENTICATE was refused with 6F00")
					}
				} else {
					res, err = aa.DoActiveAuth()
					if err != nil || res == nil || !res.Success {
						evid.Fail(rt, "flow-rerun", repro, "run %d of Active Authentication on the same object failed against the genuine chip: %v", k+2, err)
					}
					if res.Evidence == nil || !bytes.Equal(res.Evidence.Nonce, chal) {
						evid.Fail(rt, "flow-rerun", repro, "run %d recorded another nonce than the caller's challenge %x", k+2, chal)
					}
				}
				if len(ch.seenIA) != before+1 || !bytes.Equal(ch.seenIA[before], chal) {
					evid.Fail(rt, "flow-rerun", repro, "run %d of Active Authentication on the same object transmitted %x, the caller's challenge is %x", k+2, ch.seenIA[before:], chal)
				}
				evid.Count("flow-reruns", 1)
			}
		}
	})
}

// sampleFiles returns chip content around a generated DG15: EF.COM, EF.SOD,
// DG1 and DG11 of the library's exported sample document.  The sample EF.SOD
// lists DG 1,2,3,11,12,14 - the reader only reads what EF.SOD lists - so its
// DG12 entry is renumbered to DG15 (one octet).  That invalidates the SOD
// signature and the DG15 hash, which only passive authentication looks at
// (recorded, not part of this property).
func sampleFiles(t failer) map[uint16][]byte {
	doc, err := document.SampleDocument()
	if err != nil {
		evid.Infra(t, "SampleDocument: %v", err)
	}
	l := doc.Mf.Lds1
	sod := append([]byte{}, l.Sod.GetRawData()...)
	pat := []byte{0x02, 0x01, 0x0C, 0x04}
	i := bytes.Index(sod, pat)
	if i < 0 || bytes.Count(sod, pat) != 1 {
		evid.Infra(t, "sample EF.SOD: DG12 entry not found exactly once")
	}
	sod[i+2] = 0x0F
	parsed, err := document.NewSOD(sod)
	listed := false
	if err == nil {
		for _, h := range parsed.LdsSecurityObject.DataGroupHashValues {
			listed = listed || h.DataGroupNumber == 15
		}
	}
	if !listed {
		evid.Infra(t, "patched EF.SOD does not list DG15: %v", err)
	}
	return map[uint16][]byte{0x011E: l.Com.GetRawData(), 0x011D: sod, 0x0101: l.Dg1.GetRawData(), 0x010B: l.Dg11.GetRawData()}
}

// TestReaderAndVerifier: the whole reader.ReadDocument flow against the plain
// chip (no access control; sample EF.COM/EF.SOD/DG1 + generated DG15):
// reader.WithAAChallenge(c) => chip sees c => Session.ActiveAuthResult records c;
// the serialised read verifies offline with WithAAChallenge(c), hard-fails with
// any c' != c, and hard-fails when the recorded nonce was replaced.
func TestReaderAndVerifier(t *testing.T) {
	base := sampleFiles(t)
	evid.RapidCheck(t, 160, 5000, func(rt *rapid.T) {
		key := drawAAKey(rt)
		chal := challengeGen.Draw(rt, "challenge")
		other := rapid.SliceOfN(rapid.Byte(), 8, 8).Draw(rt, "other")
		switch rapid.IntRange(0, 3).Draw(rt, "otherkind") {
		case 0:
			other = flipBit(chal, rapid.IntRange(0, 63).Draw(rt, "bit"))
		case 1:
			other = append(append([]byte{}, chal[1:]...), chal[0]) // rotated
		}
		if bytes.Equal(other, chal) {
			other = flipBit(chal, 7)
		}
		internal := rapid.IntRange(0, 4).Draw(rt, "internal") == 0
		repro := map[string]any{"key": key.desc, "dg15": hx(key.dg15), "challenge": hx(chal), "other": hx(other), "internal": internal}
		evid.Case(map[bool]string{false: "reader/caller-challenge", true: "reader/internal-challenge"}[internal], true, fmt.Sprintf("%s/%x/%x", key.desc, chal, other), repro)

		files := map[uint16][]byte{0x010F: key.dg15}
		for k, v := range base {
			files[k] = v
		}
		ch := &chip{files: files, sign: key.sign}
		nfc := iso7816.NewNfcSession(ch)
		pool := &cms.GenericCertPool{}
		rd := reader.NewReader(nil, nfc, pool)
		if _, err := rd.WithAAChallenge(make([]byte, 7)); err == nil {
			evid.Fail(rt, "reader", repro, "reader.WithAAChallenge accepted 7 bytes")
		}
		var docEx *document.DocumentEx
		var err error
		if internal {
			withRand(chal, func() { docEx, _, err = rd.ReadDocument(password.NewPasswordNil(), nil, nil) })
		} else {
			mine := append([]byte{}, chal...)
			if _, werr := rd.WithAAChallenge(mine); werr != nil {
				evid.Fail(rt, "reader", repro, "reader.WithAAChallenge: %v", werr)
			}
			mine[0] ^= 0xff
			docEx, _, err = rd.ReadDocument(password.NewPasswordNil(), nil, nil)
		}
		if err != nil || docEx == nil {
			evid.Infra(rt, "ReadDocument against the plain chip failed: %v", err)
		}
		if len(ch.problems) > 0 {
			evid.Fail(rt, "reader", repro, "chip: %v", ch.problems)
		}
		if len(ch.seenIA) != 1 || !bytes.Equal(ch.seenIA[0], chal) {
			evid.Fail(rt, "reader", repro, "chip saw INTERNAL AUTHENTICATE data %x, caller's challenge is %x", ch.seenIA, chal)
		}
		aar := docEx.Session.ActiveAuthResult
		if aar == nil || !aar.Success || docEx.Session.ActiveAuthErr != nil || aar.Evidence == nil {
			evid.Fail(rt, "reader", repro, "genuine chip not authenticated: %v", docEx.Session.ActiveAuthErr)
		}
		if !bytes.Equal(aar.Evidence.Nonce, chal) || !bytes.Equal(aar.Evidence.Signature, ch.sentIA[0]) {
			evid.Fail(rt, "reader", repro, "recorded evidence (nonce %x) is not (challenge %x, chip response)", aar.Evidence.Nonce, chal)
		}
		evid.Count("responses-presented", 1)

		// ---- offline
		blob, err := docEx.ToCbor()
		if err != nil {
			evid.Infra(rt, "ToCbor: %v", err)
		}
		verify := func(with []byte, data []byte) (*document.DocumentEx, error) {
			v := verifier.NewVerifier(pool)
			if with != nil {
				mine := append([]byte{}, with...)
				if _, err := v.WithAAChallenge(mine); err != nil {
					evid.Fail(rt, "verifier", repro, "verifier.WithAAChallenge: %v", err)
				}
				mine[3] ^= 0x55
			}
			return v.Verify(data)
		}
		// same challenge: verifies and reports AA success
		out, err := verify(chal, blob)
		if err != nil || out == nil || out.Session.ActiveAuthResult == nil || !out.Session.ActiveAuthResult.Success {
			evid.Fail(rt, "verifier", repro, "offline verification with the challenge that was sent failed: %v", err)
		}
		if !bytes.Equal(out.Session.ActiveAuthResult.Evidence.Nonce, chal) {
			evid.Fail(rt, "verifier", repro, "offline result carries another nonce")
		}
		// no challenge supplied: no binding, still verifies
		if out, err := verify(nil, blob); err != nil || out.Session.ActiveAuthResult == nil || !out.Session.ActiveAuthResult.Success {
			evid.Fail(rt, "verifier", repro, "offline verification without a challenge failed: %v", err)
		}
		// another challenge: hard error
		if out, err := verify(other, blob); err == nil || out != nil {
			evid.Fail(rt, "verifier", repro, "offline verification with challenge %x succeeded although %x was recorded", other, chal)
		}
		// recorded nonce replaced by c' (and the verifier given c): hard error; given c': the
		// nonce matches but the signature is not over c' - AA must not be reported successful
		docEx.Session.ActiveAuthResult.Evidence.Nonce = append([]byte{}, other...)
		blob2, err := docEx.ToCbor()
		if err != nil {
			evid.Infra(rt, "ToCbor: %v", err)
		}
		if out, err := verify(chal, blob2); err == nil || out != nil {
			evid.Fail(rt, "verifier", repro, "offline verification succeeded although the recorded nonce %x differs from the supplied challenge %x", other, chal)
		}
		out, err = verify(other, blob2)
		if err == nil && out != nil && out.Session.ActiveAuthResult != nil && out.Session.ActiveAuthResult.Success {
			evid.Fail(rt, "verifier", repro, "signature over %x reported as successful AA for nonce %x", chal, other)
		}
		if err == nil {
			evid.Count("verifier-soft-error-on-bad-signature", 1)
		} else {
			evid.Count("verifier-hard-error-on-bad-signature", 1)
		}

		// recorded nonces that differ from the challenge in LENGTH: an extension, a repetition, a
		// truncation, a prefix in front, nothing at all - "differs" is not "differs in the first 8 octets"
		tail := rapid.SliceOfN(rapid.Byte(), 1, 8).Draw(rt, "nonce-tail")
		cut := rapid.IntRange(0, 7).Draw(rt, "nonce-cut")
		for name, rec := range map[string][]byte{
			"extended":  append(append([]byte{}, chal...), tail...),
			"repeated":  append(append([]byte{}, chal...), chal...),
			"truncated": append([]byte{}, chal[:cut]...),
			"prefixed":  append(append([]byte{}, tail...), chal...),
			"zero-extended": append(append([]byte{}, chal...), 0),
		} {
			docEx.Session.ActiveAuthResult.Evidence.Nonce = rec
			b, err := docEx.ToCbor()
			if err != nil {
				evid.Count("nonce-length-variant-not-serialisable/"+name, 1)
				continue
			}
			evid.Count("nonce-length-variant/"+name, 1)
			if out, err := verify(chal, b); err == nil || out != nil {
				r2 := map[string]any{"recordedNonce": hx(rec), "variant": name}
				for k, x := range repro {
					r2[k] = x
				}
				evid.Fail(rt, "verifier-nonce-length", r2, "offline verification with challenge %x did not hard-fail although the recorded nonce is %x (%s)", chal, rec, name)
			}
		}
		docEx.Session.ActiveAuthResult.Evidence.Nonce = append([]byte{}, other...)

		// One verifier object over a HISTORY of calls (the plain verifier and the mobile binding): the
		// challenge in force is the one set last; every Verify hard-fails exactly when a challenge is in
		// force and differs from the recorded nonce - whatever was verified or set before.
		for _, kind := range []string{"verifier", "mobile"} {
			var vv *verifier.Verifier
			var mv *mobile.Verifier
			if kind == "verifier" {
				vv = verifier.NewVerifier(pool)
			} else {
				mv = mobile.NewVerifier()
			}
			var inForce []byte
			var hist []string
			nops := rapid.IntRange(2, 6).Draw(rt, kind+"-ops")
			for k := 0; k < nops; k++ {
				if rapid.IntRange(0, 2).Draw(rt, kind+"-op") == 0 {
					c := chal
					if rapid.Bool().Draw(rt, kind+"-set-other") {
						c = other
					}
					var err error
					if vv != nil {
						_, err = vv.WithAAChallenge(bytes.Clone(c))
					} else {
						_, err = mv.WithAAChallenge(bytes.Clone(c))
					}
					if err != nil {
						evid.Fail(rt, "verifier-history", repro, "%s.WithAAChallenge refused 8 bytes: %v", kind, err)
					}
					inForce = c
					hist = append(hist, "set:"+hx(c))
					continue
				}
				var err error
				if vv != nil {
					_, err = vv.Verify(blob)
				} else {
					_, err = mv.Verify(blob)
				}
				wantHard := inForce != nil && !bytes.Equal(inForce, chal)
				hist = append(hist, fmt.Sprintf("verify:err=%v", err != nil))
				if (err != nil) != wantHard {
					r2 := map[string]any{"object": kind, "history": hist, "recordedNonce": hx(chal)}
					for k, x := range repro {
						r2[k] = x
					}
					evid.Fail(rt, "verifier-history", r2, "%s object after the history %v: Verify returned err=%v, but the challenge in force is %x and the recorded nonce %x (hard failure expected: %v)", kind, hist, err, inForce, chal, wantHard)
				}
			}
			evid.Count("verifier-history/"+kind, 1)
		}

		// The binding must not depend on how far evidence verification gets: bundles whose AA
		// evidence is refused BEFORE any signature is looked at (DG15 absent, algorithm of another
		// key type, empty or oversized signature) still carry a recorded nonce; with a supplied
		// challenge that differs from it, offline verification hard-fails.  Control: the same bundle
		// with the matching challenge must not be refused for the nonce (otherwise the variant says
		// nothing and is only counted).
		type variant struct {
			name  string
			apply func(d *document.DocumentEx)
		}
		otherAlg := asn1.ObjectIdentifier{1, 2, 840, 10045, 2, 1}
		if docEx.Session.ActiveAuthResult.Evidence.Algorithm.Equal(otherAlg) {
			otherAlg = asn1.ObjectIdentifier{1, 2, 840, 113549, 1, 1, 1}
		}
		variants := []variant{
			{"dg15-absent", func(d *document.DocumentEx) { d.Document.Mf.Lds1.Dg15 = nil }},
			{"algorithm-other-key-type", func(d *document.DocumentEx) { d.Session.ActiveAuthResult.Evidence.Algorithm = otherAlg }},
			{"signature-empty", func(d *document.DocumentEx) { d.Session.ActiveAuthResult.Evidence.Signature = []byte{} }},
			{"signature-oversized", func(d *document.DocumentEx) {
				d.Session.ActiveAuthResult.Evidence.Signature = bytes.Repeat([]byte{0x5A}, 5000)
			}},
			{"signature-garbage", func(d *document.DocumentEx) { d.Session.ActiveAuthResult.Evidence.Signature = []byte{1, 2, 3} }},
		}
		for _, v := range variants {
			d := *docEx
			sess := d.Session
			aa := *sess.ActiveAuthResult
			ev := *aa.Evidence
			ev.Nonce = append([]byte{}, other...)
			aa.Evidence = &ev
			sess.ActiveAuthResult = &aa
			d.Session = sess
			v.apply(&d)
			b3, err := d.ToCbor()
			if err != nil {
				evid.Count("binding-variant-not-serialisable/"+v.name, 1)
				continue
			}
			// control: supplied challenge == recorded nonce
			if _, cerr := verify(other, b3); cerr != nil {
				evid.Count("binding-variant-control-hard-error/"+v.name, 1)
				continue
			}
			evid.Count("binding-variant/"+v.name, 1)
			if out, err := verify(chal, b3); err == nil || out != nil {
				r2 := map[string]any{"variant": v.name}
				for k, x := range repro {
					r2[k] = x
				}
				evid.Fail(rt, "verifier-binding", r2, "offline verification with challenge %x did not hard-fail although the recorded nonce is %x (evidence variant %s)", chal, other, v.name)
			}
		}
	})
}
