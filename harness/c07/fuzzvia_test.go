package c07

// Coverage-guided variants of this package's rapid properties (thorough tier): the
// native fuzzer mutates rapid's bit stream with coverage feedback (evid.FuzzVia).

import (
	"testing"

	"verifharness/evid"
)

func FuzzRSA(f *testing.F)   { evid.FuzzVia(f, TestRSA) }
func FuzzECDSA(f *testing.F) { evid.FuzzVia(f, TestECDSA) }
