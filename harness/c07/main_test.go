// C07 — Active authentication accepts exactly valid signatures over the challenge.
//
// Oracles: verifharness/ref/iso9796 (ISO/IEC 9796-2 scheme 1 signer + opener)
// and verifharness/ref/ecc (own EC arithmetic, ECDSA with supplied nonce).
// Both directions are checked for every presented (DG15 key, challenge,
// response) triple:
//
//	genuine (signed by the reference with the DG15 key over the sent challenge)  =>  library accepts
//	library accepts  =>  the reference verifier accepts the triple
//
// plus, for classes that are invalid by construction, a self-check that the
// reference verifier rejects them (otherwise the harness is broken: INFRA).
package c07

import (
	"bytes"
	"crypto"
	"crypto/sha256"
	"encoding/hex"
	"fmt"
	"log/slog"
	"math/big"
	"testing"

	"github.com/gmrtd/gmrtd/activeauth"
	"github.com/gmrtd/gmrtd/document"

	"verifharness/evid"
	"verifharness/ref/ecc"
	"verifharness/ref/iso9796"
)

const prop = "C07"

func TestMain(m *testing.M) {
	// the library warns through slog for every RSA modulus below 2048 bits
	slog.SetDefault(slog.New(slog.DiscardHandler))
	evid.Main(m, prop)
}

func hx(b []byte) string { return hex.EncodeToString(b) }

func unhex(s string) []byte {
	b, err := hex.DecodeString(s)
	if err != nil {
		panic("c07: bad hex " + s)
	}
	return b
}

// ---------------------------------------------------------------- DG15

func berLen(n int) []byte {
	switch {
	case n < 0x80:
		return []byte{byte(n)}
	case n < 0x100:
		return []byte{0x81, byte(n)}
	default:
		return []byte{0x82, byte(n >> 8), byte(n)}
	}
}

// dg15File wraps a SubjectPublicKeyInfo in the DG15 template (tag 6F).
func dg15File(spki []byte) []byte {
	out := append([]byte{0x6F}, berLen(len(spki))...)
	return append(out, spki...)
}

// SPKI forms for EC keys.
const (
	formNamed        = "named"
	formExplicit     = "explicit"      // explicit parameters with cofactor (what ICAO 9303-12 requires)
	formExplicitSeed = "explicit-seed" // ... with the X9.62 seed where the curve has one
	formExplicitNoCo = "explicit-nocofactor"
)

func ecSPKI(c *ecc.Curve, pub ecc.Point, form string) []byte {
	switch form {
	case formNamed:
		return c.SPKINamed(pub)
	case formExplicit:
		return c.SPKIExplicit(pub, true, false)
	case formExplicitSeed:
		return c.SPKIExplicit(pub, true, true)
	case formExplicitNoCo:
		return c.SPKIExplicit(pub, false, false)
	}
	panic("c07: unknown SPKI form " + form)
}

// ---------------------------------------------------------------- hash-by-size rule (derived from the standards, not from the code)

// ecHashRule: ICAO 9303-11 6.1.2.3 / BSI TR-03111: "A hash algorithm, whose
// output length is of the same length or shorter than the length of the ECDSA
// key in use, SHALL be used.  Only SHA-224, SHA-256, SHA-384 or SHA-512 are
// supported."  "The hash matching the key size" is therefore the largest
// permitted hash whose output is not longer than the order; for 192-bit keys
// no permitted hash fits and the smallest permitted one (SHA-224) is used,
// truncated by ECDSA itself.
func ecHashRule(c *ecc.Curve) crypto.Hash {
	n := c.BitLen()
	switch {
	case n >= 512:
		return crypto.SHA512
	case n >= 384:
		return crypto.SHA384
	case n >= 256:
		return crypto.SHA256
	}
	return crypto.SHA224
}

func digest(h crypto.Hash, data []byte) []byte {
	d, err := iso9796.Digest(h, data)
	if err != nil {
		panic(err)
	}
	return d
}

// ---------------------------------------------------------------- presented triple

// presented is one (DG15 key, challenge, response) triple shown to the
// library, with everything needed to replay it by hand.
type presented struct {
	Kind      string `json:"kind"`             // "rsa" | "ec"
	KeyIdx    int    `json:"key_idx"`          // rsa: index into iso9796.Pool() of the DG15 key
	Bits      int    `json:"bits,omitempty"`   // rsa: modulus bits (informative)
	Curve     string `json:"curve,omitempty"`  // ec: curve name of the DG15 key
	Pub       string `json:"pub,omitempty"`    // ec: 04||X||Y of the DG15 key
	Form      string `json:"form,omitempty"`   // ec: SPKI form
	Challenge string `json:"challenge"`        // hex, as passed to the library
	Response  string `json:"response"`         // hex, INTERNAL AUTHENTICATE response data
	Class     string `json:"class"`            // mutation class
	Expect    string `json:"expect"`           // accept | reject | either
	Detail    string `json:"detail,omitempty"` // trailer / format / mutation argument
}

const (
	expAccept = "accept"
	expReject = "reject"
	expEither = "either"
)

func (p presented) dg15() []byte {
	switch p.Kind {
	case "rsa":
		k := iso9796.Pool()[p.KeyIdx]
		return dg15File(iso9796.SPKI(k.N, k.E))
	case "ec":
		c := ecc.ByName(p.Curve)
		raw := unhex(p.Pub)
		l := (len(raw) - 1) / 2
		pub := ecc.Point{X: new(big.Int).SetBytes(raw[1 : 1+l]), Y: new(big.Int).SetBytes(raw[1+l:])}
		return dg15File(ecSPKI(c, pub, p.Form))
	}
	panic("c07: kind")
}

func (p presented) key() string {
	h := sha256.Sum256([]byte(p.Kind + "|" + fmt.Sprint(p.KeyIdx) + "|" + p.Curve + "|" + p.Pub + "|" + p.Form + "|" + p.Challenge + "|" + p.Response))
	return fmt.Sprintf("%s/%d/%s/%s/%s/%x", p.Kind, p.Bits, p.Curve, p.Detail, p.Class, h[:8])
}

// refVerdict is the independent verifier's answer for the triple.
type refVerdict struct {
	ok     bool   // lenient relation: some reading of the response is a valid signature over the challenge
	strict bool   // canonical encoding as a conforming chip produces it
	why    string // reason for !ok
}

func (p presented) ref() refVerdict {
	chal, rsp := unhex(p.Challenge), unhex(p.Response)
	switch p.Kind {
	case "rsa":
		k := iso9796.Pool()[p.KeyIdx]
		ok, _, _, err := iso9796.Verify(k.N, k.E, rsp, chal)
		v := refVerdict{ok: ok}
		if err != nil {
			v.why = err.Error()
		}
		if ok {
			r, _ := iso9796.Recover(k.N, k.E, rsp)
			v.strict = r.Canonical && r.Trailer != iso9796.TrailerSHA1
		}
		return v
	case "ec":
		c := ecc.ByName(p.Curve)
		pub, err := c.Decode(unhex(p.Pub))
		if err != nil {
			return refVerdict{why: "DG15 point: " + err.Error()}
		}
		return refECVerify(c, pub, chal, rsp)
	}
	panic("c07: kind")
}

// refECVerify: the response is read as plain r||s (two halves of an
// even-length string) and as a DER Ecdsa-Sig-Value (strict DER; octets after
// the SEQUENCE tolerated in the lenient relation).  ok if either reading gives
// 1 <= r,s < n verifying over the rule hash of exactly the challenge.
func refECVerify(c *ecc.Curve, pub ecc.Point, chal, rsp []byte) refVerdict {
	h := digest(ecHashRule(c), chal)
	var v refVerdict
	if len(rsp) > 0 && len(rsp)%2 == 0 {
		half := len(rsp) / 2
		r, s := new(big.Int).SetBytes(rsp[:half]), new(big.Int).SetBytes(rsp[half:])
		if c.Verify(pub, h, r, s) {
			v.ok = true
			v.strict = half == c.OrderLen()
		}
	}
	if r, s, rest, err := ecc.ParseSigDER(rsp); err == nil && c.Verify(pub, h, r, s) {
		v.ok = true
		if len(rest) == 0 {
			v.strict = true
		}
	}
	if !v.ok {
		v.why = "no reading of the response verifies"
	}
	return v
}

// libVerdict is what gmrtd said.
type libVerdict struct {
	accepted bool
	err      error
	problem  string // inconsistency / panic description, "" if none
}

func callLib(dg15raw, chal, rsp []byte) (lv libVerdict) {
	defer func() {
		if r := recover(); r != nil {
			lv = libVerdict{problem: fmt.Sprintf("panic in library: %v", r)}
		}
	}()
	dg15, err := document.NewDG15(dg15raw)
	if err != nil || dg15 == nil {
		return libVerdict{problem: fmt.Sprintf("DG15 built by the harness rejected by NewDG15: %v", err)}
	}
	res, err := activeauth.ValidateActiveAuthSignature(dg15, rsp, chal)
	acc := err == nil && res != nil && res.Success
	switch {
	case err == nil && (res == nil || !res.Success):
		return libVerdict{problem: "ValidateActiveAuthSignature returned no error but Success is false"}
	case err != nil && res != nil && res.Success:
		return libVerdict{problem: fmt.Sprintf("ValidateActiveAuthSignature returned Success together with an error: %v", err)}
	}
	if acc {
		ev := res.Evidence
		if ev == nil || !bytes.Equal(ev.Nonce, chal) || !bytes.Equal(ev.Signature, rsp) || len(ev.Algorithm) == 0 {
			return libVerdict{problem: "accepted, but the recorded evidence is not (algorithm, the challenge, the response)"}
		}
	}
	// the offline path must give the same verdict on the same triple
	if len(chal) > 0 && len(rsp) > 0 {
		var doc document.Document
		doc.Mf.Lds1.Dg15 = dg15
		alg := []int{1, 2, 840, 113549, 1, 1, 1}
		if res != nil && res.Evidence != nil && len(res.Evidence.Algorithm) > 0 {
			alg = res.Evidence.Algorithm
		}
		res2, err2 := activeauth.VerifyEvidence(&doc, &document.ActiveAuthEvidence{Algorithm: alg, Nonce: chal, Signature: rsp})
		acc2 := err2 == nil && res2 != nil && res2.Success
		if acc2 != acc {
			return libVerdict{problem: fmt.Sprintf("VerifyEvidence (accepted=%v, err=%v) disagrees with ValidateActiveAuthSignature (accepted=%v, err=%v)", acc2, err2, acc, err)}
		}
	}
	return libVerdict{accepted: acc, err: err}
}

// judge applies the two-way oracle.  kind of result: "" ok, "violation", "infra".
func judge(p presented) (kind, msg string) {
	chal, rsp := unhex(p.Challenge), unhex(p.Response)
	rv := p.ref()
	lv := callLib(p.dg15(), chal, rsp)
	if lv.problem != "" {
		return "violation", lv.problem
	}
	// harness self-checks
	switch p.Expect {
	case expAccept:
		if !rv.ok || !rv.strict {
			return "infra", fmt.Sprintf("reference verifier does not accept a response the reference signer produced (class %s): %s", p.Class, rv.why)
		}
	case expReject:
		if rv.ok {
			return "infra", fmt.Sprintf("class %s is meant to be invalid by construction but the reference verifier accepts it", p.Class)
		}
	}
	if p.Expect == expAccept && !lv.accepted {
		return "violation", fmt.Sprintf("genuine response rejected (%s %s): %v", p.Class, p.Detail, lv.err)
	}
	if lv.accepted && !rv.ok {
		return "violation", fmt.Sprintf("accepted a response that is not a valid signature by the DG15 key over the challenge (%s %s): reference says: %s", p.Class, p.Detail, rv.why)
	}
	evid.Count("responses-presented", 1)
	if lv.accepted {
		evid.Count("lib-accepted", 1)
		if !rv.strict {
			evid.Count("lib-accepted-noncanonical/"+p.Class, 1)
		}
	} else {
		evid.Count("lib-rejected", 1)
		if rv.ok {
			evid.Count("lib-rejected-valid-noncanonical/"+p.Class, 1)
		}
	}
	return "", ""
}

type failer interface {
	Helper()
	Fatalf(format string, args ...any)
	Logf(format string, args ...any)
}

// run records and judges one triple.
func run(t failer, check string, p presented) {
	t.Helper()
	evid.Case(p.Kind+"/"+p.Class, true, p.key(), p)
	switch p.Kind {
	case "rsa":
		evid.Count(fmt.Sprintf("rsa-bits/%d", p.Bits), 1)
	case "ec":
		evid.Count("ec-curve/"+p.Curve, 1)
		evid.Count("ec-spki/"+p.Form, 1)
	}
	kind, msg := judge(p)
	switch kind {
	case "violation":
		evid.Fail(t, check, p, "%s", msg)
	case "infra":
		evid.Infra(t, "%s: %s", check, msg)
	}
}

func flipBit(b []byte, bit int) []byte {
	out := append([]byte{}, b...)
	out[bit/8] ^= 0x80 >> (bit % 8)
	return out
}
