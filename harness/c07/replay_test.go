package c07

import (
	"encoding/json"
	"fmt"
	"os"
	"testing"

	"github.com/gmrtd/gmrtd/activeauth"
	"github.com/gmrtd/gmrtd/document"

	"verifharness/evid"
	"verifharness/ref/ecc"
	"verifharness/ref/iso9796"
)

// TestReplayJSON re-executes a saved JSON repro of the triple-based checks
// (./verif replay C07 <file>): the triple is rebuilt from the key description
// and judged by the same two-way oracle.  (Failures of the flow properties are
// replayed through their rapid fail files.)
func TestReplayJSON(t *testing.T) {
	path := os.Getenv("VERIF_REPLAY_JSON")
	if path == "" {
		return
	}
	b, err := os.ReadFile(path)
	if err != nil {
		t.Fatalf("read: %v", err)
	}
	var doc struct {
		Check string          `json:"check"`
		Case  json.RawMessage `json:"case"`
	}
	if err := json.Unmarshal(b, &doc); err != nil {
		t.Fatalf("parse: %v", err)
	}
	var p presented
	if err := json.Unmarshal(doc.Case, &p); err != nil || (p.Kind != "rsa" && p.Kind != "ec") {
		// raw triple {dg15, challenge, response}
		var raw struct{ Dg15, Challenge, Response string }
		if json.Unmarshal(doc.Case, &raw) == nil && raw.Dg15 != "" {
			lv := callLib(unhex(raw.Dg15), unhex(raw.Challenge), unhex(raw.Response))
			t.Logf("library: accepted=%v err=%v problem=%s", lv.accepted, lv.err, lv.problem)
			if lv.problem != "" {
				t.Fatalf("VIOLATION reproduced: %s", lv.problem)
			}
			return
		}
		t.Skipf("repro of check %q is not a (key, challenge, response) triple; use the rapid fail file", doc.Check)
	}
	kind, msg := judge(p)
	if kind != "" {
		t.Fatalf("VIOLATION reproduced (%s): %s", kind, msg)
	}
}

// TestNotes records library behaviour on inputs for which the property makes
// no demand (reported, never a verdict): explicit parameters without the
// optional cofactor, a DG15 point that lies on the other curve of the same
// size (alternative-curve fallback), the 33CC trailer.
func TestNotes(t *testing.T) {
	if evid.Shard() != 0 {
		return
	}
	chal := []byte{1, 2, 3, 4, 5, 6, 7, 8}
	accepted := func(dg15, rsp []byte) string {
		d, err := document.NewDG15(dg15)
		if err != nil {
			return "dg15 error"
		}
		res, err := activeauth.ValidateActiveAuthSignature(d, rsp, chal)
		if err == nil && res != nil && res.Success {
			return "accepted"
		}
		return "rejected"
	}
	// 1. explicit ECParameters without cofactor (OPTIONAL in X9.62, required by ICAO 9303-12)
	{
		c := ecc.ByName("brainpoolP256r1")
		d := c.ScalarFromBytes([]byte("note-1"))
		r, s, _ := c.Sign(d, digest(ecHashRule(c), chal), c.ScalarFromBytes([]byte("nonce-1")))
		evid.Metric("note_explicit_params_without_cofactor", accepted(dg15File(c.SPKIExplicit(c.ScalarBaseMult(d), false, false)), c.SigPlain(r, s)))
	}
	// 2. DG15 announces brainpoolP256r1, the point and the signature are on P-256
	{
		c, announced := ecc.ByName("P-256"), ecc.ByName("brainpoolP256r1")
		d := c.ScalarFromBytes([]byte("note-2"))
		pub := c.ScalarBaseMult(d)
		r, s, _ := c.Sign(d, digest(ecHashRule(c), chal), c.ScalarFromBytes([]byte("nonce-2")))
		evid.Metric("note_point_on_other_curve_of_same_size", accepted(dg15File(announced.SPKINamed(pub)), c.SigPlain(r, s)))
	}
	// 3. trailer 33CC
	{
		k := iso9796.PoolBits(1024)[0]
		tr := iso9796.TrailerSHA1
		sig, _ := iso9796.Sign(k.N, k.D, make([]byte, iso9796.M1Len(k.N, tr.Hash(), tr)), chal, tr.Hash(), tr)
		evid.Metric("note_trailer_33CC", accepted(dg15File(iso9796.SPKI(k.N, k.E)), sig))
	}
	// 4. a shorter permitted hash than the key size (allowed by ICAO 9303-11 6.1.2.3, announced in DG14 ActiveAuthenticationInfo)
	{
		c := ecc.ByName("P-384")
		d := c.ScalarFromBytes([]byte("note-4"))
		h, _ := iso9796.Digest(4 /* crypto.SHA224 */, chal)
		r, s, _ := c.Sign(d, h, c.ScalarFromBytes([]byte("nonce-4")))
		evid.Metric("note_p384_with_sha224", accepted(dg15File(c.SPKINamed(c.ScalarBaseMult(d))), c.SigPlain(r, s)))
	}
	evid.Case("notes", false, "notes", nil)
	fmt.Println("C07 notes recorded")
}
