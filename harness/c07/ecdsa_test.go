package c07

import (
	"crypto"
	"fmt"
	"math/big"
	"testing"

	"pgregory.net/rapid"

	"verifharness/evid"
	"verifharness/ref/ecc"
)

var ecMutations = []string{
	"genuine", "genuine", "genuine", "genuine", "genuine-s-leading-zero",
	"sig-bitflip", "sig-bitflip", "chal-bitflip", "chal-other", "other-key", "wrong-hash",
	"r-zero", "s-zero", "r-eq-n", "s-eq-n", "r-plus-n", "s-plus-n", "r-negative", "s-negative",
	"high-s", "swap-r-s", "odd-length", "truncated", "plain-wide", "der-trailing", "degenerate",
}

var ecForms = []string{formNamed, formExplicit, formExplicit, formExplicitSeed}

type ecGenuine struct {
	c    *ecc.Curve
	d    *big.Int
	pub  ecc.Point
	form string
	der  bool
	chal []byte
	r, s *big.Int
}

func (g *ecGenuine) encode(r, s *big.Int) []byte {
	if g.der {
		return ecc.SigDER(r, s)
	}
	return g.c.SigPlain(r, s)
}

func (g *ecGenuine) fmtName() string {
	if g.der {
		return "der"
	}
	return "plain"
}

func (g *ecGenuine) present(class, expect, detail string, pub ecc.Point, chal, rsp []byte) presented {
	return presented{Kind: "ec", Curve: g.c.Name, Pub: hx(g.c.Encode(pub)), Form: g.form, Challenge: hx(chal), Response: hx(rsp),
		Class: class, Expect: expect, Detail: g.fmtName() + " " + detail}
}

func makeECGenuine(c *ecc.Curve, d, k *big.Int, form string, der bool, chal []byte) (*ecGenuine, error) {
	r, s, err := c.Sign(d, digest(ecHashRule(c), chal), k)
	if err != nil {
		return nil, err
	}
	return &ecGenuine{c, d, c.ScalarBaseMult(d), form, der, chal, r, s}, nil
}

func fitsPlain(c *ecc.Curve, v *big.Int) bool { return v.Sign() >= 0 && v.BitLen() <= 8*c.OrderLen() }

func mutateEC(g *ecGenuine, class string, a, b int, rnd []byte) (presented, error) {
	c := g.c
	sig := g.encode(g.r, g.s)
	withRS := func(class, expect, detail string, r, s *big.Int) (presented, error) {
		if !g.der && (!fitsPlain(c, r) || !fitsPlain(c, s)) {
			return presented{}, fmt.Errorf("value does not fit the plain format")
		}
		return g.present(class, expect, detail, g.pub, g.chal, g.encode(r, s)), nil
	}
	switch class {
	case "genuine":
		return g.present(class, expAccept, "", g.pub, g.chal, sig), nil
	case "genuine-s-leading-zero":
		// choose s with leading zero octets and solve the signing equation for the key
		k := c.ScalarFromBytes(rnd)
		zeros := 1 + a%3
		s := new(big.Int).Rsh(c.ScalarFromBytes(append([]byte{byte(b)}, rnd...)), uint(8*zeros))
		if s.Sign() == 0 {
			s.SetInt64(1)
		}
		d, r := c.PrivateKeyFor(digest(ecHashRule(c), g.chal), k, s)
		if d == nil {
			return presented{}, fmt.Errorf("no key")
		}
		g2 := *g
		g2.d, g2.pub, g2.r, g2.s = d, c.ScalarBaseMult(d), r, s
		return g2.present(class, expAccept, fmt.Sprintf("s has >= %d leading zero octets", zeros), g2.pub, g.chal, g2.encode(r, s)), nil
	case "sig-bitflip":
		bit := a % (8 * len(sig))
		// a flipped bit in the DER framing may leave r,s untouched only if it
		// lands outside the SEQUENCE - impossible here; the reference decides.
		return g.present(class, expReject, fmt.Sprintf("bit %d", bit), g.pub, g.chal, flipBit(sig, bit)), nil
	case "chal-bitflip":
		bit := a % 64
		return g.present(class, expReject, fmt.Sprintf("bit %d", bit), g.pub, flipBit(g.chal, bit), sig), nil
	case "chal-other":
		c2 := append([]byte{}, rnd[:8]...)
		if hx(c2) == hx(g.chal) {
			c2[7] ^= 1
		}
		return g.present(class, expReject, "", g.pub, c2, sig), nil
	case "other-key":
		d2 := c.ScalarFromBytes(rnd)
		if d2.Cmp(g.d) == 0 {
			d2 = c.ScalarFromBytes(append(rnd, 1))
		}
		return g.present(class, expReject, "", c.ScalarBaseMult(d2), g.chal, sig), nil
	case "wrong-hash":
		all := []crypto.Hash{crypto.SHA1, crypto.SHA224, crypto.SHA256, crypto.SHA384, crypto.SHA512}
		var oh crypto.Hash
		for i := 0; ; i++ {
			if oh = all[(a+i)%len(all)]; oh != ecHashRule(c) {
				break
			}
		}
		r, s, err := c.Sign(g.d, digest(oh, g.chal), c.ScalarFromBytes(rnd))
		if err != nil {
			return presented{}, err
		}
		return withRS(class, expReject, fmt.Sprintf("signed over hash %v", oh), r, s)
	case "r-zero":
		return withRS(class, expReject, "", big.NewInt(0), g.s)
	case "s-zero":
		return withRS(class, expReject, "", g.r, big.NewInt(0))
	case "r-eq-n":
		return withRS(class, expReject, "", c.N, g.s)
	case "s-eq-n":
		return withRS(class, expReject, "", g.r, c.N)
	case "r-plus-n":
		return withRS(class, expReject, "", new(big.Int).Add(g.r, c.N), g.s)
	case "s-plus-n":
		return withRS(class, expReject, "", g.r, new(big.Int).Add(g.s, c.N))
	case "r-negative":
		if !g.der {
			return presented{}, fmt.Errorf("DER only")
		}
		v := new(big.Int).Neg(g.r)
		if a%2 == 1 {
			v = new(big.Int).Sub(g.r, c.N) // r - n: congruent to r, negative
		}
		return withRS(class, expReject, "", v, g.s)
	case "s-negative":
		if !g.der {
			return presented{}, fmt.Errorf("DER only")
		}
		v := new(big.Int).Neg(g.s)
		if a%2 == 1 {
			v = new(big.Int).Sub(g.s, c.N)
		}
		return withRS(class, expReject, "", g.r, v)
	case "high-s":
		// (r, n-s) is the other valid ECDSA signature of the same message: malleability, not forgery
		return withRS(class, expEither, "", g.r, new(big.Int).Sub(c.N, g.s))
	case "swap-r-s":
		return withRS(class, expReject, "", g.s, g.r)
	case "odd-length":
		switch a % 3 {
		case 0:
			return g.present(class, expReject, "dropped last octet", g.pub, g.chal, sig[:len(sig)-1]), nil
		case 1:
			exp := expReject
			if g.der {
				exp = expEither // octets after a complete DER SEQUENCE: the lenient relation tolerates them
			}
			return g.present(class, exp, "appended one octet", g.pub, g.chal, append(append([]byte{}, sig...), byte(b))), nil
		default:
			return g.present(class, expReject, "dropped first octet", g.pub, g.chal, sig[1:]), nil
		}
	case "truncated":
		n := 2 * (1 + a%4)
		if n >= len(sig) {
			n = 2
		}
		return g.present(class, expReject, fmt.Sprintf("dropped last %d octets", n), g.pub, g.chal, sig[:len(sig)-n]), nil
	case "plain-wide":
		// r and s each left-padded with extra zero octets: same integers, not the TR-03111 width
		z := 1 + a%4
		l := c.OrderLen() + z
		out := make([]byte, 2*l)
		g.r.FillBytes(out[:l])
		g.s.FillBytes(out[l:])
		g2 := *g
		g2.der = false
		return g2.present(class, expEither, fmt.Sprintf("+%d zero octets per half", z), g.pub, g.chal, out), nil
	case "der-trailing":
		z := 1 + a%5
		out := append(ecc.SigDER(g.r, g.s), fit(rnd, z)...)
		g2 := *g
		g2.der = true
		return g2.present(class, expEither, fmt.Sprintf("+%d octets after the SEQUENCE", z), g.pub, g.chal, out), nil
	case "degenerate":
		opts := [][]byte{{}, {0x30}, {0x30, 0x00}, {0x00}, {0x00, 0x00}, {0x30, 0x06, 0x02, 0x01, 0x00, 0x02, 0x01, 0x00},
			make([]byte, 2*c.OrderLen()), fit([]byte{0xff}, 2*c.OrderLen()), {0x30, 0x80, 0x02, 0x01, 0x01, 0x02, 0x01, 0x01, 0, 0}}
		o := opts[a%len(opts)]
		return g.present(class, expReject, fmt.Sprintf("response %x", o[:min(len(o), 10)]), g.pub, g.chal, o), nil
	}
	return presented{}, fmt.Errorf("unknown class %s", class)
}

func drawCurve(rt *rapid.T) *ecc.Curve {
	cs := ecc.Curves()
	if !evid.Thorough() && rapid.IntRange(0, 9).Draw(rt, "curveclass") < 5 {
		// cheap curves carry the volume in the quick tier
		return ecc.ByName(rapid.SampledFrom([]string{"P-192", "P-224", "P-256", "brainpoolP192r1", "brainpoolP224r1", "brainpoolP256r1"}).Draw(rt, "curve"))
	}
	return cs[rapid.IntRange(0, len(cs)-1).Draw(rt, "curve")]
}

// TestECDSA: random (curve, key, nonce, SPKI form, plain/DER, challenge, mutation class).
func TestECDSA(t *testing.T) {
	evid.RapidCheck(t, 1600, 75000, func(rt *rapid.T) {
		c := drawCurve(rt)
		form := rapid.SampledFrom(ecForms).Draw(rt, "form")
		der := rapid.Bool().Draw(rt, "der")
		chal := challengeGen.Draw(rt, "challenge")
		d := c.ScalarFromBytes(rapid.SliceOfN(rapid.Byte(), c.ByteLen+8, c.ByteLen+8).Draw(rt, "d"))
		k := c.ScalarFromBytes(rapid.SliceOfN(rapid.Byte(), c.ByteLen+8, c.ByteLen+8).Draw(rt, "k"))
		class := rapid.SampledFrom(ecMutations).Draw(rt, "class")
		a := rapid.IntRange(0, 1<<20).Draw(rt, "a")
		b := rapid.IntRange(0, 255).Draw(rt, "b")
		rnd := rapid.SliceOfN(rapid.Byte(), c.ByteLen+8, c.ByteLen+8).Draw(rt, "rnd")
		g, err := makeECGenuine(c, d, k, form, der, chal)
		if err != nil {
			evid.Count("ec-unbuildable/sign", 1)
			return
		}
		p, err := mutateEC(g, class, a, b, rnd)
		if err != nil {
			evid.Count("ec-unbuildable/"+class, 1)
			return
		}
		evid.Count("ec-format/"+g.fmtName(), 1)
		run(rt, "ecdsa", p)
	})
}

// TestECDSAGenuineMatrix: every curve x every SPKI form x {plain, DER}, with
// the edge-value mutations, deterministic keys.
func TestECDSAGenuineMatrix(t *testing.T) {
	idx := 0
	for ci, c := range ecc.Curves() {
		for fi, form := range []string{formNamed, formExplicit, formExplicitSeed} {
			for _, der := range []bool{false, true} {
				idx++
				if !evid.MineIdx(idx) {
					continue
				}
				seed := []byte{byte(ci), byte(fi), 0x5a, 0xc3}
				d := c.ScalarFromBytes(fit(append(seed, 1), c.ByteLen+8))
				k := c.ScalarFromBytes(fit(append(seed, 2), c.ByteLen+8))
				chal := []byte{byte(ci), byte(fi), 0, 0xff, 0x80, 1, 2, 3}
				g, err := makeECGenuine(c, d, k, form, der, chal)
				if err != nil {
					evid.Infra(t, "matrix: %v", err)
				}
				classes := []string{"genuine", "chal-bitflip", "r-zero", "s-zero", "r-eq-n", "s-eq-n", "odd-length", "other-key", "wrong-hash", "genuine-s-leading-zero"}
				if der {
					classes = append(classes, "r-negative", "s-negative", "r-plus-n")
				}
				if !evid.Thorough() && fi > 0 && c.ByteLen > 40 {
					classes = classes[:2]
				}
				for ai, class := range classes {
					p, err := mutateEC(g, class, ai, 1, fit(append(seed, 3), c.ByteLen+8))
					if err != nil {
						continue // value does not fit the plain width on this curve
					}
					evid.Count("ec-format/"+g.fmtName(), 1)
					run(t, "ecdsa-matrix", p)
				}
			}
		}
	}
	evid.Exhaustive("ecdsa-genuine-matrix(curve x spki-form x format)", true)
}

// TestECDSABitflipsEnumerated: every single-bit mutation of a genuine
// signature, plain and DER (quick: P-192, P-256 and brainpoolP224r1;
// thorough: every curve).
func TestECDSABitflipsEnumerated(t *testing.T) {
	names := []string{"P-192", "P-256", "brainpoolP224r1"}
	if evid.Thorough() {
		names = nil
		for _, c := range ecc.Curves() {
			names = append(names, c.Name)
		}
	}
	idx := 0
	for ci, name := range names {
		c := ecc.ByName(name)
		for _, der := range []bool{false, true} {
			seed := []byte{byte(ci), 0x77, 0x10}
			d := c.ScalarFromBytes(fit(append(seed, 1), c.ByteLen+8))
			k := c.ScalarFromBytes(fit(append(seed, 2), c.ByteLen+8))
			g, err := makeECGenuine(c, d, k, []string{formNamed, formExplicit}[ci%2], der, []byte{1, 2, 3, 4, 5, 6, 7, byte(ci)})
			if err != nil {
				evid.Infra(t, "bitflips: %v", err)
			}
			sig := g.encode(g.r, g.s)
			for bit := 0; bit < 8*len(sig); bit++ {
				idx++
				if !evid.MineIdx(idx) {
					continue
				}
				p, _ := mutateEC(g, "sig-bitflip", bit, 0, nil)
				p.Class = "sig-bitflip-enum"
				evid.Count("ec-format/"+g.fmtName(), 1)
				run(t, "ecdsa-bitflips", p)
			}
			for bit := 0; bit < 64; bit++ {
				idx++
				if !evid.MineIdx(idx) {
					continue
				}
				p, _ := mutateEC(g, "chal-bitflip", bit, 0, nil)
				p.Class = "chal-bitflip-enum"
				run(t, "ecdsa-bitflips", p)
			}
		}
	}
	evid.Exhaustive("ecdsa-single-bit-mutations", true)
}

// TestECDSALeadingZeroR searches deterministically for nonces whose r has a
// leading zero octet (fixed-width plain encoding keeps the zero; DER drops it).
func TestECDSALeadingZeroR(t *testing.T) {
	if evid.Shard() != 0 {
		return
	}
	found := 0
	for _, name := range []string{"P-192", "brainpoolP224r1", "P-256"} {
		c := ecc.ByName(name)
		d := c.ScalarFromBytes(fit([]byte(name), c.ByteLen+8))
		chal := []byte{0, 0, 0, 0, 0, 0, 0, byte(len(name))}
		// walk k = k0, k0+1, ... with one point addition per step
		k := c.ScalarFromBytes(fit([]byte("k"+name), c.ByteLen+8))
		R := c.ScalarBaseMult(k)
		limit := evid.Pick(2500, 20000)
		for i := 0; i < limit; i++ {
			r := new(big.Int).Mod(R.X, c.N)
			if r.Sign() > 0 && r.BitLen() <= 8*c.OrderLen()-8 {
				for _, der := range []bool{false, true} {
					g, err := makeECGenuine(c, d, k, formExplicit, der, chal)
					if err != nil || g.r.Cmp(r) != 0 {
						evid.Infra(t, "leading-zero r: incremental walk disagrees with Sign")
					}
					p, _ := mutateEC(g, "genuine", 0, 0, nil)
					p.Class = "genuine-r-leading-zero"
					evid.Count("ec-format/"+g.fmtName(), 1)
					run(t, "ecdsa-leading-zero-r", p)
				}
				found++
				break
			}
			k = new(big.Int).Add(k, big.NewInt(1))
			R = c.Add(R, c.G())
		}
	}
	evid.Metric("ecdsa_leading_zero_r_found", found)
	if found < 2 {
		evid.Infra(t, "found only %d nonces with a leading zero octet in r", found)
	}
}
