// C04 — PACE succeeds with every conforming chip and fails closed otherwise.
//
// The library's PACE (generic mapping and chip-authentication mapping over
// ECDH) runs against the independent chip simulator for every standardized
// parameter id 8..18, every cipher suite, MRZ and CAN passwords, generated
// nonces and ephemeral scalars (terminal's through the replaced
// crypto/rand.Reader, chip's drawn) - with the chip steering a share of the
// sessions into the leading-zero slices - and with every single-message
// deviation of the chip.
package c04

import (
	"bytes"
	"encoding/hex"
	"fmt"
	"math/big"
	"testing"

	"github.com/gmrtd/gmrtd/document"
	"github.com/gmrtd/gmrtd/iso7816"
	"github.com/gmrtd/gmrtd/pace"
	"github.com/gmrtd/gmrtd/password"
	"pgregory.net/rapid"

	"verifharness/chipsim"
	"verifharness/chiptest"
	"verifharness/detrand"
	"verifharness/evid"
	"verifharness/lds"
	"verifharness/ref/der"
	"verifharness/ref/ecc"
	"verifharness/ref/mac"
)

const prop = "C04"

func TestMain(m *testing.M) { evid.Main(m, prop) }

func TestSelfTest(t *testing.T) {
	if err := mac.SelfTest(); err != nil {
		evid.Infra(t, "ref/mac: %v", err)
	}
	for _, c := range ecc.Curves() {
		if err := c.Validate(); err != nil {
			evid.Infra(t, "ref/ecc curve %s: %v", c.Name, err)
		}
	}
	for id := 8; id <= 18; id++ {
		if ecc.ByPaceID(id) == nil {
			evid.Infra(t, "no curve for PACE parameter id %d", id)
		}
	}
}

var ciphers = []mac.Cipher{"3DES", "AES-128", "AES-192", "AES-256"}

// fast parameter ids (NIST curves have assembly / fast paths in the library)
var fastIDs = []int{12, 10, 15, 13, 8, 9}
var allIDs = []int{8, 9, 10, 11, 12, 13, 14, 15, 16, 17, 18}

type paceCase struct {
	ParamID   int
	Cipher    mac.Cipher
	Mapping   string // GM, CAM
	PwKind    int    // 0 MRZ full, 1 MRZ key fields, 2 CAN
	Arrange   int    // CardAccess arrangement
	Steer     string // "", "ka-x00", "map-x00", "pub-00"
	Deviation string
	MRZ       chiptest.MRZCase
	CAN       string
	ChipSeed  []byte
	LibSeed   []byte
	DevSeed   []byte
}

func (c *paceCase) repro() map[string]any {
	return map[string]any{
		"paramId": c.ParamID, "cipher": string(c.Cipher), "mapping": c.Mapping, "pwKind": c.PwKind, "arrangement": c.Arrange,
		"steer": c.Steer, "deviation": c.Deviation, "mrz": c.MRZ.Full, "mrzInfo": c.MRZ.Info, "can": c.CAN,
		"chipSeed": hex.EncodeToString(c.ChipSeed), "libSeed": hex.EncodeToString(c.LibSeed), "devSeed": hex.EncodeToString(c.DevSeed),
	}
}

func (c *paceCase) key() string {
	return fmt.Sprintf("%d/%s/%s/pw%d/a%d/%s/%s/%x%x", c.ParamID, c.Cipher, c.Mapping, c.PwKind, c.Arrange, c.Steer, c.Deviation, c.ChipSeed[:4], c.LibSeed[:4])
}

func drawCase(rt *rapid.T, full bool) *paceCase {
	c := &paceCase{}
	if full || rapid.IntRange(0, 9).Draw(rt, "slow") == 0 {
		c.ParamID = rapid.SampledFrom(allIDs).Draw(rt, "paramId")
	} else {
		c.ParamID = rapid.SampledFrom(fastIDs).Draw(rt, "paramIdFast")
	}
	c.Cipher = rapid.SampledFrom(ciphers).Draw(rt, "cipher")
	c.Mapping = "GM"
	if c.Cipher != "3DES" && rapid.IntRange(0, 2).Draw(rt, "cam") == 0 {
		c.Mapping = "CAM"
	}
	c.PwKind = rapid.IntRange(0, 2).Draw(rt, "pwKind")
	c.Arrange = rapid.IntRange(0, nArrange-1).Draw(rt, "arrangement")
	c.MRZ = chiptest.DrawMRZ(rt)
	c.CAN = rapid.StringMatching(`[0-9]{6}`).Draw(rt, "can")
	c.ChipSeed = rapid.SliceOfN(rapid.Byte(), 16, 16).Draw(rt, "chipSeed")
	c.LibSeed = rapid.SliceOfN(rapid.Byte(), 16, 16).Draw(rt, "libSeed")
	c.DevSeed = rapid.SliceOfN(rapid.Byte(), 8, 8).Draw(rt, "devSeed")
	return c
}

type built struct {
	chip         *chipsim.Chip
	cardAccess   []byte
	cardSecurity []byte
	dg1          []byte
	camPub       ecc.Point
}

const oidUnknown = "1.3.6.1.4.1.99999.1.2"

// nArrange is the number of EF.CardAccess arrangements build knows.
const nArrange = 11

// build personalises a conforming chip for the case.
func build(c *paceCase, deviate func(string, []byte) []byte) *built {
	cv := ecc.ByPaceID(c.ParamID)
	oid := chipsim.PaceOID(c.Mapping, c.Cipher)
	pid := big.NewInt(int64(c.ParamID))
	main := lds.PACEInfo(oid, 2, pid)
	entries := []chipsim.PaceEntry{{OID: oid, ParamID: c.ParamID}}
	infos := [][]byte{main}
	imOID := "0.4.0.127.0.7.2.2.4.4.2"                      // id-PACE-ECDH-IM-AES-CBC-CMAC-128 (unsupported by the library)
	dhOID := "0.4.0.127.0.7.2.2.4.1.2"                      // id-PACE-DH-GM-AES-CBC-CMAC-128 (unsupported)
	dhIMOID := "0.4.0.127.0.7.2.2.4.3.1"                    // id-PACE-DH-IM-3DES
	const paceArcUnknownMapping = "0.4.0.127.0.7.2.2.4.9.2" // id-PACE 9 (no such mapping) . AES-128
	const paceArcUnknownCipher = "0.4.0.127.0.7.2.2.4.2.9"  // id-PACE-ECDH-GM . 9 (no such cipher)
	otherID := 12
	if c.ParamID == 12 {
		otherID = 10
	}
	switch c.Arrange {
	case 1: // unknown OID first, TA info, then the real one
		infos = [][]byte{lds.UnknownInfo(oidUnknown, []byte{1, 2, 3}), lds.TerminalAuthInfo(1), main}
	case 2: // integrated-mapping and DH entries (other parameter ids) around the supported one
		infos = [][]byte{lds.PACEInfo(imOID, 2, big.NewInt(int64(otherID))), main, lds.PACEInfo(dhOID, 2, big.NewInt(1)), lds.PACEInfo(dhIMOID, 2, big.NewInt(0))}
	case 3: // two supported GM suites on the same parameter id: the chip supports both
		other := chipsim.PaceOID("GM", "3DES")
		if c.Cipher == "3DES" {
			other = chipsim.PaceOID("GM", "AES-128")
		}
		infos = [][]byte{lds.PACEInfo(other, 2, pid), main}
		entries = append(entries, chipsim.PaceEntry{OID: other, ParamID: c.ParamID})
	case 4: // a weaker supported suite on ANOTHER parameter id listed first (needs the right reference in MSE:Set AT)
		if c.Cipher == "3DES" {
			infos = [][]byte{lds.PACEInfo(imOID, 2, big.NewInt(int64(otherID))), main}
		} else {
			weaker := chipsim.PaceOID("GM", "3DES")
			infos = [][]byte{lds.PACEInfo(weaker, 2, big.NewInt(int64(otherID))), main}
			entries = append(entries, chipsim.PaceEntry{OID: weaker, ParamID: otherID})
		}
	case 5: // chip-authentication info and unknown entries mixed in
		infos = [][]byte{lds.ChipAuthInfo(chipsim.CAOID("AES-128"), 1, nil), main, lds.UnknownInfo(oidUnknown, nil)}
	case 6: // PACEInfos with OIDs inside the id-PACE arc that no table knows (future mapping / future cipher), other parameter id, listed first
		infos = [][]byte{lds.PACEInfo(paceArcUnknownMapping, 2, big.NewInt(int64(otherID))), lds.PACEInfo(paceArcUnknownCipher, 2, big.NewInt(int64(otherID))), main}
	case 7: // the same without a parameter id, before and after the supported entry
		infos = [][]byte{lds.PACEInfo(paceArcUnknownMapping, 2, nil), main, lds.PACEInfo(paceArcUnknownCipher, 2, nil)}
	case 8: // unsupported entries of every kind first, then two supported suites on different parameter ids (the chip supports both)
		second := chipsim.PaceOID("GM", "AES-256")
		if c.Cipher == "AES-256" {
			second = chipsim.PaceOID("GM", "AES-192")
		}
		infos = [][]byte{lds.PACEInfo(paceArcUnknownCipher, 2, big.NewInt(31)), lds.PACEInfo(imOID, 2, big.NewInt(int64(otherID))), lds.PACEInfo(dhOID, 2, big.NewInt(2)),
			main, lds.PACEInfo(second, 2, big.NewInt(int64(otherID)))}
		entries = append(entries, chipsim.PaceEntry{OID: second, ParamID: otherID})
	case 9: // a PACEDomainParameterInfo (proprietary-parameter style entry, protocol OID without the cipher arc) before the PACEInfo
		infos = [][]byte{lds.PACEDomainParameterInfo("0.4.0.127.0.7.2.2.4.2", c.ParamID, big.NewInt(int64(c.ParamID))), main}
	case 10: // the same after it, for the other mapping families as well
		infos = [][]byte{main, lds.PACEDomainParameterInfo("0.4.0.127.0.7.2.2.4.4", otherID, nil), lds.PACEDomainParameterInfo("0.4.0.127.0.7.2.2.4.6", c.ParamID, big.NewInt(int64(c.ParamID)))}
	}
	b := &built{}
	b.cardAccess = lds.CardAccess(infos...)
	b.dg1 = der.TLV(0x61, der.TLV(0x5F1F, []byte(c.MRZ.Full)))
	cfg := chipsim.Config{
		MRZInfo: c.MRZ.Info, CAN: c.CAN, BAC: true, PACE: entries,
		MF:      map[uint16][]byte{chipsim.FidCardAccess: b.cardAccess},
		DF:      map[uint16][]byte{0x0101: b.dg1},
		Rand:    detrand.New(c.ChipSeed).Bytes,
		Deviate: deviate,
	}
	switch c.Steer {
	case "ka-x00":
		cfg.SteerAgreementLeadingZero = true
	case "map-x00":
		cfg.SteerMappingLeadingZero = true
	case "pub-00":
		cfg.SteerOwnPubLeadingZero = true
	}
	if c.Mapping == "CAM" {
		sk := cv.ScalarFromBytes(detrand.New(append([]byte("camkey"), c.ChipSeed...)).Bytes(cv.ByteLen + 8))
		if sk.Sign() == 0 {
			sk = big.NewInt(7)
		}
		b.camPub = cv.ScalarBaseMult(sk)
		cfg.CAMKey = &chipsim.CAKey{KeyID: pid, Curve: cv, Priv: sk}
		camKeyInfo := lds.ChipAuthPubKeyInfo(lds.OidPkECDH, lds.SPKIStdDomain(c.ParamID, cv.Encode(b.camPub)), pid)
		// further Chip Authentication keys published in EF.CardSecurity (a chip may offer CAM for several
		// parameter sets, or carry a generic CA key next to the mapping key)
		extra := func(label string, id int) []byte {
			ocv := ecc.ByPaceID(id)
			k := ocv.ScalarFromBytes(detrand.New(append([]byte(label), c.ChipSeed...)).Bytes(ocv.ByteLen + 8))
			if k.Sign() == 0 {
				k = big.NewInt(11)
			}
			return ocv.Encode(ocv.ScalarBaseMult(k))
		}
		keyInfos := [][]byte{camKeyInfo}
		switch c.Arrange % 4 {
		case 1: // a key on another standardised curve listed first (its own key id)
			keyInfos = [][]byte{lds.ChipAuthPubKeyInfo(lds.OidPkECDH, lds.SPKIStdDomain(otherID, extra("other-curve", otherID)), big.NewInt(int64(otherID))), camKeyInfo}
		case 2: // a generic CA key on the SAME curve listed first, without and with another key id: the mapping key is the one whose key id equals the parameter id
			keyInfos = [][]byte{lds.ChipAuthPubKeyInfo(lds.OidPkECDH, lds.SPKIStdDomain(c.ParamID, extra("same-curve-generic", c.ParamID)), big.NewInt(int64(c.ParamID+40))), camKeyInfo,
				lds.ChipAuthPubKeyInfo(lds.OidPkECDH, lds.SPKIStdDomain(otherID, extra("other-curve", otherID)), nil)}
		case 3: // the mapping key without a key id (only key on the curve), keys of other curves around it
			camKeyInfo = lds.ChipAuthPubKeyInfo(lds.OidPkECDH, lds.SPKIStdDomain(c.ParamID, cv.Encode(b.camPub)), nil)
			third := 16
			if c.ParamID == 16 || otherID == 16 {
				third = 15
			}
			keyInfos = [][]byte{lds.ChipAuthPubKeyInfo(lds.OidPkECDH, lds.SPKIStdDomain(third, extra("third-curve", third)), big.NewInt(int64(third))), camKeyInfo,
				lds.ChipAuthPubKeyInfo(lds.OidPkECDH, lds.SPKIStdDomain(otherID, extra("other-curve", otherID)), big.NewInt(int64(otherID)))}
		}
		evid.Count(fmt.Sprintf("cam-cardsecurity-keys-%d", c.Arrange%4), 1)
		secInfos := lds.SecurityInfos(append([][]byte{main, lds.ChipAuthInfo(chipsim.CAOID("AES-128"), 1, pid)}, keyInfos...)...)
		b.cardSecurity = lds.DummyCardSecurity(secInfos)
		cfg.MF[chipsim.FidCardSecurity] = b.cardSecurity
	}
	b.chip = chipsim.New(cfg)
	return b
}

func makePassword(c *paceCase, wrong bool, rt *rapid.T) (*password.Password, error) {
	switch c.PwKind {
	case 0:
		if wrong {
			o := chiptest.DrawMRZ(rt)
			if o.Info == c.MRZ.Info {
				rt.Skip("same MRZ")
			}
			return password.NewPasswordMrz(o.Full)
		}
		return password.NewPasswordMrz(c.MRZ.Full)
	case 1:
		if wrong {
			o := chiptest.DrawMRZ(rt)
			if o.Info == c.MRZ.Info {
				rt.Skip("same MRZ")
			}
			return password.NewPasswordMrzi(o.DocNo, o.DOB, o.Expiry)
		}
		return password.NewPasswordMrzi(c.MRZ.DocNo, c.MRZ.DOB, c.MRZ.Expiry)
	}
	can := c.CAN
	if wrong {
		b := []byte(can)
		i := rapid.IntRange(0, len(b)-1).Draw(rt, "canpos")
		b[i] = '0' + (b[i]-'0'+byte(rapid.IntRange(1, 9).Draw(rt, "candelta")))%10
		can = string(b)
	}
	return password.NewPasswordCan(can), nil
}

type outcome struct {
	nfc     *iso7816.NfcSession
	doc     *document.Document
	res     *document.PaceResult
	cam     *document.PaceCamResult
	err     error
	paniced any
}

func runPACE(b *built, pass *password.Password, libSeed []byte) (o *outcome) {
	restore := detrand.Install(libSeed)
	defer restore()
	o = &outcome{}
	o.nfc = iso7816.NewNfcSession(b.chip)
	o.doc = &document.Document{}
	ca, err := document.NewCardAccess(b.cardAccess)
	if err != nil {
		o.err = fmt.Errorf("NewCardAccess: %w", err)
		return o
	}
	o.doc.Mf.CardAccess = ca
	o.res, o.cam, o.err = pace.NewPace(o.nfc, o.doc, pass).DoPACE()
	return o
}

func slices(b *built) string {
	x, _, _, slice := b.chip.PaceLast()
	if slice != "" {
		return slice
	}
	if len(x) > 0 && x[0] == 0 {
		return "ka-shared-x00(natural)"
	}
	return "none"
}

// checkInterop: the success obligations.
func checkInterop(c *paceCase, b *built, o *outcome) string {
	if o.err != nil {
		return fmt.Sprintf("DoPACE failed against a conforming chip (slice %s): %v", slices(b), o.err)
	}
	if o.res == nil || !o.res.Success {
		return "no successful PaceResult against a conforming chip"
	}
	if !b.chip.Done.PACE || b.chip.SM == nil {
		return "chip did not complete PACE although the library reports success"
	}
	lsm := o.nfc.SM()
	if lsm == nil {
		return "no secure messaging session installed after PACE"
	}
	if !bytes.Equal(lsm.KsEnc(), b.chip.SM.KEnc) {
		return fmt.Sprintf("KS_enc differs: library %x chip %x", lsm.KsEnc(), b.chip.SM.KEnc)
	}
	if !bytes.Equal(lsm.SSC(), b.chip.SM.SSC) {
		return fmt.Sprintf("SSC differs: library %x chip %x", lsm.SSC(), b.chip.SM.SSC)
	}
	wantOID := chipsim.PaceOID(c.Mapping, c.Cipher)
	if o.res.ParameterId != b.chip.Done.PACEEntry.ParamID || o.res.Oid.String() != b.chip.Done.PACEEntry.OID {
		return fmt.Sprintf("PaceResult names %s/%d but the chip ran %s/%d", o.res.Oid, o.res.ParameterId, b.chip.Done.PACEEntry.OID, b.chip.Done.PACEEntry.ParamID)
	}
	if c.Mapping == "CAM" && b.chip.Done.PACEEntry.OID == wantOID {
		if o.cam == nil || !o.cam.Success {
			return "PACE-CAM with a genuine chip not reported successful"
		}
	}
	// one protected exchange both ways
	if ok, err := o.nfc.SelectAid(chipsim.AidMRTD); err != nil || !ok {
		return fmt.Sprintf("protected SELECT AID after PACE failed: ok=%v err=%v", ok, err)
	}
	data, err := o.nfc.ReadFile(0x0101)
	if err != nil {
		return fmt.Sprintf("protected read after PACE failed: %v", err)
	}
	if !bytes.Equal(data, b.dg1) {
		return "file read under the PACE session differs from the chip's file"
	}
	if b.chip.SMFailures != 0 || b.chip.SM == nil {
		return "chip could not authenticate a protected command after PACE"
	}
	if !bytes.Equal(o.nfc.SM().SSC(), b.chip.SM.SSC) {
		return "SSC out of step after protected exchanges"
	}
	return ""
}

func checkClosed(o *outcome) string {
	if o.err == nil {
		return "DoPACE returned no error"
	}
	if o.res != nil && o.res.Success {
		return "PaceResult.Success is true"
	}
	if o.cam != nil && o.cam.Success {
		return "PaceCamResult.Success is true"
	}
	if o.nfc.SM() != nil {
		return "a secure messaging session was installed"
	}
	return ""
}

// TestPACEInterop: conforming chip, correct password.
func TestPACEInterop(t *testing.T) {
	evid.RapidCheck(t, 1600, 40000, func(rt *rapid.T) {
		c := drawCase(rt, false)
		c.Steer = rapid.SampledFrom([]string{"", "", "", "", "", "", "ka-x00", "pub-00", "map-x00"}).Draw(rt, "steer")
		if c.Steer != "" && ecc.ByPaceID(c.ParamID).ByteLen > 40 {
			c.Steer = "" // steering costs ~256 scalar multiplications: small curves only
		}
		interopCase(rt, c, "interop")
	})
}

func interopCase(rt interface {
	Fatalf(string, ...any)
	Helper()
	Logf(string, ...any)
}, c *paceCase, check string) {
	b := build(c, nil)
	var pass *password.Password
	var err error
	switch c.PwKind {
	case 0:
		pass, err = password.NewPasswordMrz(c.MRZ.Full)
	case 1:
		pass, err = password.NewPasswordMrzi(c.MRZ.DocNo, c.MRZ.DOB, c.MRZ.Expiry)
	default:
		pass = password.NewPasswordCan(c.CAN)
	}
	if err != nil {
		evid.Fail(rt, check+"-password", c.repro(), "library rejects a valid MRZ: %v", err)
	}
	o := runPACE(b, pass, c.LibSeed)
	sl := slices(b)
	evid.Case(fmt.Sprintf("interop-id%d-%s-%s", c.ParamID, c.Cipher, c.Mapping), true, c.key(), c.repro())
	evid.Count("slice-"+sl, 1)
	evid.Count(fmt.Sprintf("arrangement-%d", c.Arrange), 1)
	evid.Count(fmt.Sprintf("pwkind-%d", c.PwKind), 1)
	if known := f5Excluded(sl); known {
		evid.Excluded(f5)
		if msg := checkInterop(c, b, o); msg != "" {
			return // known finding F5 (open): not reported again
		}
		return
	}
	if msg := checkInterop(c, b, o); msg != "" {
		r := c.repro()
		r["slice"] = sl
		evid.Fail(rt, check, r, "%s", msg)
	}
}

// F5: shared secret encoded with big.Int.Bytes() (leading zero octets dropped).
const f5 = "F5-pace-shared-x-leading-zero"

func f5Excluded(slice string) bool {
	return evid.Open(prop, f5) && (slice == "ka-shared-x00" || slice == "ka-shared-x00(natural)")
}

// TestPACEMatrix: every (parameter id, cipher, mapping) at least once (thorough: several times).
func TestPACEMatrix(t *testing.T) {
	reps := evid.Pick(1, 6)
	idx := 0
	for _, id := range allIDs {
		for _, cp := range ciphers {
			for _, mp := range []string{"GM", "CAM"} {
				if mp == "CAM" && cp == "3DES" {
					continue
				}
				for r := 0; r < reps; r++ {
					idx++
					if !evid.MineIdx(idx) {
						continue
					}
					seed := []byte(fmt.Sprintf("matrix-%d-%d-%d", evid.Seed(), idx, r))
					st := detrand.New(seed)
					c := &paceCase{ParamID: id, Cipher: cp, Mapping: mp, PwKind: r % 3, Arrange: r % nArrange,
						CAN: "123456", ChipSeed: st.Bytes(16), LibSeed: st.Bytes(16), DevSeed: st.Bytes(8)}
					c.MRZ = fixedMRZ()
					interopCase(t, c, "matrix")
				}
			}
		}
	}
	evid.Exhaustive("pace-suite-matrix", true)
}

func fixedMRZ() chiptest.MRZCase {
	full := "P<UTOERIKSSON<<ANNA<MARIA<<<<<<<<<<<<<<<<<<<L898902C36UTO7408122F1204159ZE184226B<<<<<10"
	return chiptest.MRZCase{Full: full, DocNo: "L898902C3", DOB: "740812", Expiry: "120415", Info: "L898902C36" + "7408122" + "1204159"}
}

// ---------------------------------------------------------------- deviations

type deviation struct {
	name    string
	step    string
	camOnly bool
	// alter returns the altered value (must differ from g)
	alter func(g []byte, c *paceCase, chip func() *chipsim.Chip, r *detrand.Stream) []byte
}

func flipBit(g []byte, r *detrand.Stream) []byte {
	o := append([]byte{}, g...)
	if len(o) == 0 {
		return []byte{0}
	}
	i := int(new(big.Int).SetBytes(r.Bytes(4)).Int64()) % (len(o) * 8)
	o[i/8] ^= 1 << (i % 8)
	return o
}

func otherPoint(c *paceCase, r *detrand.Stream) []byte {
	cv := ecc.ByPaceID(c.ParamID)
	k := cv.ScalarFromBytes(r.Bytes(cv.ByteLen + 8))
	if k.Sign() == 0 {
		k = big.NewInt(3)
	}
	return cv.Encode(cv.ScalarBaseMult(k))
}

func offCurve(g []byte) []byte {
	o := append([]byte{}, g...)
	o[len(o)-1] ^= 0x01 // changes Y: (x, y^1) is not on the curve
	return o
}

var deviations = []deviation{
	{"nonce-bitflip", "pace-enc-nonce", false, func(g []byte, _ *paceCase, _ func() *chipsim.Chip, r *detrand.Stream) []byte { return flipBit(g, r) }},
	{"nonce-random", "pace-enc-nonce", false, func(g []byte, _ *paceCase, _ func() *chipsim.Chip, r *detrand.Stream) []byte {
		o := r.Bytes(len(g))
		if bytes.Equal(o, g) {
			o[0] ^= 1
		}
		return o
	}},
	{"map-other-point", "pace-map-pub", false, func(g []byte, c *paceCase, _ func() *chipsim.Chip, r *detrand.Stream) []byte { return otherPoint(c, r) }},
	{"map-off-curve", "pace-map-pub", false, func(g []byte, _ *paceCase, _ func() *chipsim.Chip, _ *detrand.Stream) []byte { return offCurve(g) }},
	{"map-infinity", "pace-map-pub", false, func(g []byte, _ *paceCase, _ func() *chipsim.Chip, _ *detrand.Stream) []byte { return []byte{0x00} }},
	{"map-equals-terminal", "pace-map-pub", false, func(g []byte, _ *paceCase, chip func() *chipsim.Chip, _ *detrand.Stream) []byte {
		m, _ := chip().PaceTermPubs()
		return append([]byte{}, m...)
	}},
	{"map-bitflip", "pace-map-pub", false, func(g []byte, _ *paceCase, _ func() *chipsim.Chip, r *detrand.Stream) []byte { return flipBit(g, r) }},
	{"ka-other-point", "pace-ka-pub", false, func(g []byte, c *paceCase, _ func() *chipsim.Chip, r *detrand.Stream) []byte { return otherPoint(c, r) }},
	{"ka-off-curve", "pace-ka-pub", false, func(g []byte, _ *paceCase, _ func() *chipsim.Chip, _ *detrand.Stream) []byte { return offCurve(g) }},
	{"ka-infinity", "pace-ka-pub", false, func(g []byte, _ *paceCase, _ func() *chipsim.Chip, _ *detrand.Stream) []byte { return []byte{0x00} }},
	{"ka-equals-terminal", "pace-ka-pub", false, func(g []byte, _ *paceCase, chip func() *chipsim.Chip, _ *detrand.Stream) []byte {
		_, k := chip().PaceTermPubs()
		return append([]byte{}, k...)
	}},
	{"ka-bitflip", "pace-ka-pub", false, func(g []byte, _ *paceCase, _ func() *chipsim.Chip, r *detrand.Stream) []byte { return flipBit(g, r) }},
	{"token-bitflip", "pace-token", false, func(g []byte, _ *paceCase, _ func() *chipsim.Chip, r *detrand.Stream) []byte { return flipBit(g, r) }},
	{"token-truncated", "pace-token", false, func(g []byte, _ *paceCase, _ func() *chipsim.Chip, _ *detrand.Stream) []byte {
		return append([]byte{}, g[:len(g)-1]...)
	}},
	{"token-extended", "pace-token", false, func(g []byte, _ *paceCase, _ func() *chipsim.Chip, _ *detrand.Stream) []byte {
		return append(append([]byte{}, g...), 0x00)
	}},
	{"token-zero", "pace-token", false, func(g []byte, _ *paceCase, _ func() *chipsim.Chip, _ *detrand.Stream) []byte {
		o := make([]byte, len(g))
		if bytes.Equal(o, g) {
			o[0] = 1
		}
		return o
	}},
	{"ecad-bitflip", "pace-ecad", true, func(g []byte, _ *paceCase, _ func() *chipsim.Chip, r *detrand.Stream) []byte { return flipBit(g, r) }},
	{"ecad-random", "pace-ecad", true, func(g []byte, _ *paceCase, _ func() *chipsim.Chip, r *detrand.Stream) []byte {
		o := r.Bytes(len(g))
		if bytes.Equal(o, g) {
			o[0] ^= 1
		}
		return o
	}},
	{"ecad-negated-scalar", "pace-ecad", true, func(g []byte, c *paceCase, chip func() *chipsim.Chip, _ *detrand.Stream) []byte {
		// A_IC' = E(KS_enc, n - CA_IC): the terminal then recovers -PK_Map,IC, a point with the right x-coordinate
		_, ksEnc, _, _ := chip().PaceLast()
		cv := ecc.ByPaceID(c.ParamID)
		iv := mac.AESCBCEncrypt(ksEnc, make([]byte, 16), bytes.Repeat([]byte{0xFF}, 16))
		plain := mac.AESCBCDecrypt(ksEnc, iv, g)
		ca := new(big.Int).SetBytes(plain[:cv.ByteLen])
		neg := new(big.Int).Sub(cv.N, ca)
		return mac.AESCBCEncrypt(ksEnc, iv, mac.PadM2(cv.FixedBytes(neg), 16))
	}},
	{"ecad-truncated-block", "pace-ecad", true, func(g []byte, _ *paceCase, _ func() *chipsim.Chip, _ *detrand.Stream) []byte {
		return append([]byte{}, g[:len(g)-16]...)
	}},
}

func TestPACEFailsClosed(t *testing.T) {
	evid.RapidCheck(t, 2400, 60000, func(rt *rapid.T) {
		c := drawCase(rt, false)
		c.Arrange = 0
		dev := deviations[rapid.IntRange(0, len(deviations)-1).Draw(rt, "deviation")]
		if dev.camOnly {
			if c.Cipher == "3DES" {
				c.Cipher = "AES-128"
			}
			c.Mapping = "CAM"
		}
		c.Deviation = dev.name
		r := detrand.New(c.DevSeed)
		var genuine, sent []byte
		var b *built
		b = build(c, func(step string, v []byte) []byte {
			if step != dev.step {
				return v
			}
			genuine = append([]byte{}, v...)
			sent = dev.alter(v, c, func() *chipsim.Chip { return b.chip }, r)
			return sent
		})
		pass, err := makePassword(c, false, rt)
		if err != nil {
			evid.Fail(rt, "closed-password", c.repro(), "library rejects a valid MRZ: %v", err)
		}
		o := runPACE(b, pass, c.LibSeed)
		rep := c.repro()
		rep["genuine"], rep["sent"] = hex.EncodeToString(genuine), hex.EncodeToString(sent)
		if genuine == nil {
			if f5Excluded(slices(b)) {
				evid.Excluded(f5)
				return
			}
			evid.Fail(rt, "closed-setup", rep, "protocol did not reach step %s against a conforming chip: %v", dev.step, o.err)
		}
		if bytes.Equal(genuine, sent) {
			rt.Skip("alteration equals the genuine value")
		}
		evid.Case("deviation-"+dev.name, true, c.key(), rep)
		if dev.step == "pace-ecad" {
			// only the encrypted chip-authentication data is altered: CAM must not be
			// reported successful; the PACE channel itself may stay.
			if o.cam != nil && o.cam.Success {
				evid.Fail(rt, "closed-"+dev.name, rep, "PaceCamResult.Success although the encrypted chip authentication data was altered")
			}
			return
		}
		if msg := checkClosed(o); msg != "" {
			evid.Fail(rt, "closed-"+dev.name, rep, "altered chip message (%s) not refused: %s", dev.name, msg)
		}
	})
}

// TestPACEReflector: a counterpart that does not know the password echoes the terminal's
// key-agreement public key as its own and the terminal's token as its own (two chip
// messages derived from the terminal's, so none of the single alterations covers it).
// ICAO 9303-11 4.4.1 requires the terminal to refuse equal agreement keys; whatever
// the mechanism, PACE must report failure and install no session.
func TestPACEReflector(t *testing.T) {
	evid.RapidCheck(t, 400, 10000, func(rt *rapid.T) {
		c := drawCase(rt, false)
		c.Deviation = "reflect-agreement-key-and-token"
		b := build(c, nil)
		b.chip.Cfg.PaceReflector = true
		pass, err := makePassword(c, false, rt)
		if err != nil {
			evid.Fail(rt, "closed-password", c.repro(), "library rejects a valid MRZ: %v", err)
		}
		o := runPACE(b, pass, c.LibSeed)
		rep := c.repro()
		evid.Case("deviation-reflector", true, c.key(), rep)
		if b.chip.Done.PACE {
			evid.Infra(rt, "the reflecting chip model completed PACE: %v", rep)
		}
		if msg := checkClosed(o); msg != "" {
			evid.Fail(rt, "closed-reflector", rep, "a counterpart echoing the terminal's agreement key and token (no password) was not refused: %s", msg)
		}
	})
}

func TestPACEWrongPassword(t *testing.T) {
	evid.RapidCheck(t, 800, 20000, func(rt *rapid.T) {
		c := drawCase(rt, false)
		c.Deviation = "wrong-password"
		b := build(c, nil)
		pass, err := makePassword(c, true, rt)
		if err != nil {
			rt.Skip("wrong password not constructible")
		}
		o := runPACE(b, pass, c.LibSeed)
		rep := c.repro()
		rep["libPassword"] = pass.Password
		evid.Case(fmt.Sprintf("wrong-password-pw%d", c.PwKind), true, c.key(), rep)
		if b.chip.Done.PACE {
			evid.Infra(rt, "chip completed PACE with a terminal holding another password: %v", rep)
		}
		if msg := checkClosed(o); msg != "" {
			evid.Fail(rt, "wrong-password", rep, "%s", msg)
		}
	})
}

// TestKnownF5 probes the open finding (and reports it only while it reproduces).
func TestKnownF5(t *testing.T) {
	if evid.Shard() != 0 || !evid.Open(prop, f5) {
		return
	}
	for i := 0; i < 6; i++ {
		st := detrand.New([]byte(fmt.Sprintf("f5-probe-%d", i)))
		c := &paceCase{ParamID: 12, Cipher: "AES-128", Mapping: "GM", PwKind: 2, CAN: "123456", Steer: "ka-x00",
			ChipSeed: st.Bytes(16), LibSeed: st.Bytes(16), DevSeed: st.Bytes(8), MRZ: fixedMRZ()}
		b := build(c, nil)
		o := runPACE(b, password.NewPasswordCan(c.CAN), c.LibSeed)
		if slices(b) != "ka-shared-x00" {
			continue
		}
		if msg := checkInterop(c, b, o); msg != "" {
			evid.ReportKnown(prop, f5, "PACE fails against a conforming chip when the agreed x-coordinate has a leading zero octet (shared secret passed to the KDF without left padding): "+msg)
			return
		}
	}
}

// TestRegressionF5 is the plain regression check: steered leading-zero
// sessions on three curves must interoperate (runs when F5 is not open).
func TestRegressionF5(t *testing.T) {
	if evid.Shard() != 0 || evid.Open(prop, f5) {
		return
	}
	n := 0
	for _, id := range []int{12, 10, 13} {
		for i := 0; i < 3; i++ {
			st := detrand.New([]byte(fmt.Sprintf("f5-regress-%d-%d", id, i)))
			c := &paceCase{ParamID: id, Cipher: ciphers[(i+id)%4], Mapping: "GM", PwKind: 2, CAN: "654321", Steer: "ka-x00",
				ChipSeed: st.Bytes(16), LibSeed: st.Bytes(16), DevSeed: st.Bytes(8), MRZ: fixedMRZ()}
			b := build(c, nil)
			o := runPACE(b, password.NewPasswordCan(c.CAN), c.LibSeed)
			if slices(b) != "ka-shared-x00" {
				continue
			}
			n++
			evid.Case("regression-F5", true, c.key(), c.repro())
			if msg := checkInterop(c, b, o); msg != "" {
				evid.Fail(t, "regression-F5", c.repro(), "%s", msg)
			}
		}
	}
	if n == 0 {
		evid.Infra(t, "steering never reached the leading-zero slice")
	}
}

// TestPACERerun: the same Pace object runs DoPACE more than once.  (a) After a first run
// that a deviating chip made fail, the second run against the genuine chip must succeed
// with everything the success clause demands (nothing of the failed run may linger);
// (b) after a successful run and a lost session, a second successful run ends with fresh
// keys; (c) after a successful run, a second run against a chip with an altered token
// must fail closed (the session of the first run must not be "inherited").
func TestPACERerun(t *testing.T) {
	evid.RapidCheck(t, 480, 12000, func(rt *rapid.T) {
		c := drawCase(rt, false)
		mode := rapid.SampledFrom([]string{"fail-then-genuine", "genuine-twice", "genuine-then-altered"}).Draw(rt, "mode")
		c.Deviation = "rerun-" + mode
		dev := deviations[rapid.SampledFrom([]int{0, 2, 7, 12, 15}).Draw(rt, "dev")]
		if dev.camOnly {
			dev = deviations[12]
		}
		r := detrand.New(c.DevSeed)
		var deviating *built
		deviating = build(c, func(step string, v []byte) []byte {
			if step != dev.step {
				return v
			}
			return dev.alter(v, c, func() *chipsim.Chip { return deviating.chip }, r)
		})
		genuine1, genuine2 := build(c, nil), build(c, nil)
		// different chip randomness for the second genuine chip
		genuine2.chip.Cfg.Rand = detrand.New(append([]byte("second"), c.ChipSeed...)).Bytes
		pass, err := makePassword(c, false, rt)
		if err != nil {
			evid.Fail(rt, "rerun-password", c.repro(), "library rejects a valid MRZ: %v", err)
		}
		restore := detrand.Install(c.LibSeed)
		defer restore()
		lk := &swapLink{}
		o := &outcome{doc: &document.Document{}}
		o.nfc = iso7816.NewNfcSession(lk)
		ca, err := document.NewCardAccess(genuine1.cardAccess)
		if err != nil {
			evid.Infra(rt, "NewCardAccess: %v", err)
		}
		o.doc.Mf.CardAccess = ca
		p := pace.NewPace(o.nfc, o.doc, pass)
		rep := c.repro()
		rep["mode"], rep["firstDeviation"] = mode, dev.name
		evid.Case("rerun-"+mode, true, c.key()+mode+dev.name, rep)
		run := func(b *built) {
			lk.t = b.chip
			o.res, o.cam, o.err = p.DoPACE()
		}
		switch mode {
		case "fail-then-genuine":
			run(deviating)
			if msg := checkClosed(o); msg != "" {
				return // the single-run property owns this; here only the second run is judged
			}
			run(genuine1)
			if f5Excluded(slices(genuine1)) {
				evid.Excluded(f5)
				return
			}
			if msg := checkInterop(c, genuine1, o); msg != "" {
				evid.Fail(rt, "rerun-after-failure", rep, "second DoPACE of the same object, against the genuine chip after a failed first run: %s", msg)
			}
		case "genuine-twice":
			run(genuine1)
			if f5Excluded(slices(genuine1)) {
				evid.Excluded(f5)
				return
			}
			if msg := checkInterop(c, genuine1, o); msg != "" {
				return
			}
			k1 := bytes.Clone(o.nfc.SM().KsEnc())
			o.nfc.SetSecureMessaging(nil) // the session is lost
			run(genuine2)
			if f5Excluded(slices(genuine2)) {
				evid.Excluded(f5)
				return
			}
			if msg := checkInterop(c, genuine2, o); msg != "" {
				evid.Fail(rt, "rerun-genuine", rep, "second DoPACE of the same object against the genuine chip: %s", msg)
			}
			if bytes.Equal(k1, o.nfc.SM().KsEnc()) {
				evid.Fail(rt, "rerun-genuine", rep, "the second run ended with the session key of the first")
			}
		default:
			run(genuine1)
			if o.err != nil {
				return
			}
			o.nfc.SetSecureMessaging(nil)
			run(deviating)
			if dev.step == "pace-ecad" {
				return
			}
			if msg := checkClosed(o); msg != "" {
				evid.Fail(rt, "rerun-altered", rep, "second DoPACE of the same object against a chip with an altered message (%s) after a successful first run: %s", dev.name, msg)
			}
		}
	})
}

// swapLink lets a test exchange the counterpart behind an NfcSession.
type swapLink struct{ t iso7816.Transceiver }

func (l *swapLink) Transceive(cla, ins, p1, p2 int, data []byte, le int, encoded []byte) []byte {
	return l.t.Transceive(cla, ins, p1, p2, data, le, encoded)
}

// TestPACECorrectedPassword: one password object over two attempts.  Its data is corrected (or
// replaced by wrong data) in place between the attempts - the fields are exported and the object is
// the caller's: the attempt with the right data must open the chip, the one with the wrong data must
// fail closed, in either order.
func TestPACECorrectedPassword(t *testing.T) {
	evid.RapidCheck(t, 320, 8000, func(rt *rapid.T) {
		c := drawCase(rt, false)
		c.PwKind = 2
		c.Deviation = "password-object-reused"
		wrongCAN := rapid.StringMatching(`[0-9]{6}`).Draw(rt, "wrongCan")
		if wrongCAN == c.CAN {
			rt.Skip("same CAN")
		}
		wrongFirst := rapid.Bool().Draw(rt, "wrong-first")
		first, second := c.CAN, wrongCAN
		if wrongFirst {
			first, second = wrongCAN, c.CAN
		}
		pass := password.NewPasswordCan(first)
		b1, b2 := build(c, nil), build(c, nil)
		b2.chip.Cfg.Rand = detrand.New(append([]byte("second"), c.ChipSeed...)).Bytes
		o1 := runPACE(b1, pass, c.LibSeed)
		pass.Password = second // corrected / replaced in place
		o2 := runPACE(b2, pass, append([]byte("2"), c.LibSeed...))
		rep := c.repro()
		rep["firstCAN"], rep["secondCAN"] = first, second
		evid.Case(map[bool]string{true: "password-corrected-in-place", false: "password-replaced-in-place"}[wrongFirst], true, c.key()+first+second, rep)
		good, goodChip, bad := o1, b1, o2
		if wrongFirst {
			good, goodChip, bad = o2, b2, o1
		}
		if f5Excluded(slices(goodChip)) {
			evid.Excluded(f5)
			return
		}
		if msg := checkInterop(c, goodChip, good); msg != "" {
			evid.Fail(rt, "password-reuse", rep, "attempt with the correct CAN (%s attempt of the same password object): %s", map[bool]string{true: "second", false: "first"}[wrongFirst], msg)
		}
		if msg := checkClosed(bad); msg != "" {
			evid.Fail(rt, "password-reuse", rep, "attempt with a wrong CAN (%s attempt of the same password object): %s", map[bool]string{true: "first", false: "second"}[wrongFirst], msg)
		}
	})
}
